/-
  Lemmas.TsmList — facts about the two list operations of the access point:
  `findTxn` (the `for tr in …: if …: break` lookup) and `updFirst` (replace /
  remove the transaction the lookup stopped at).
-/
import BacVerif.Model.Tsm
namespace BacVerif.Tsm

theorem Txn.is_iff (k : Key) (t : Txn) : t.is k = true ↔ t.key = k := by
  cases t with | mk key body =>
  cases key; cases k
  simp [Txn.is, Key.mk.injEq, and_comm]

theorem Txn.is_false_iff (k : Key) (t : Txn) : t.is k = false ↔ t.key ≠ k := by
  have := Txn.is_iff k t
  constructor
  · intro h hk; rw [this.2 hk] at h; cases h
  · intro h
    cases hb : t.is k with
    | false => rfl
    | true => exact absurd (this.1 hb) h

theorem findTxn_some {k : Key} {l : List Txn} {t : Txn} (h : findTxn k l = some t) :
    t ∈ l ∧ t.key = k := by
  induction l with
  | nil => simp [findTxn] at h
  | cons x xs ih =>
    simp only [findTxn] at h
    split at h
    · rename_i hx
      have hxt := Option.some.inj h
      subst hxt
      exact ⟨List.mem_cons_self, (Txn.is_iff k x).1 hx⟩
    · have := ih h
      exact ⟨List.mem_cons_of_mem _ this.1, this.2⟩

theorem findTxn_none {k : Key} {l : List Txn} :
    findTxn k l = none ↔ ∀ t ∈ l, t.key ≠ k := by
  induction l with
  | nil => simp [findTxn]
  | cons x xs ih =>
    simp only [findTxn]
    split
    · rename_i hx
      have := (Txn.is_iff k x).1 hx
      simp [this]
    · rename_i hx
      have hne : x.key ≠ k := (Txn.is_false_iff k x).1 (by simpa using hx)
      simp [ih, hne]

theorem findTxn_isSome_of_mem {k : Key} {l : List Txn} {t : Txn} (ht : t ∈ l) (hk : t.key = k) :
    (findTxn k l).isSome := by
  cases h : findTxn k l with
  | some _ => rfl
  | none => exact absurd hk (findTxn_none.1 h t ht)

theorem idLive_false {l : List Txn} {p : Peer} {i : Nat} :
    idLive l p i = false ↔ ∀ t ∈ l, t.key ≠ ⟨p, i⟩ := by
  simp only [idLive, List.any_eq_false]
  constructor
  · intro h t ht
    exact (Txn.is_false_iff _ t).1 (by simpa using h t ht)
  · intro h t ht
    simpa using (Txn.is_false_iff _ t).2 (h t ht)

theorem idLive_true {l : List Txn} {p : Peer} {i : Nat} :
    idLive l p i = true ↔ ∃ t ∈ l, t.key = ⟨p, i⟩ := by
  simp only [idLive, List.any_eq_true]
  constructor
  · rintro ⟨t, ht, h⟩; exact ⟨t, ht, (Txn.is_iff _ t).1 h⟩
  · rintro ⟨t, ht, h⟩; exact ⟨t, ht, (Txn.is_iff _ t).2 h⟩

/-- members of the updated list: old members, or the rewritten transaction -/
theorem mem_updFirst {k : Key} {r : Option Body} {l : List Txn} {t' : Txn}
    (h : t' ∈ updFirst k r l) :
    t' ∈ l ∨ (∃ b', r = some b' ∧ t'.key = k ∧ t'.body = b') := by
  induction l with
  | nil => simp [updFirst] at h
  | cons x xs ih =>
    simp only [updFirst] at h
    split at h
    · rename_i hx
      have hk := (Txn.is_iff k x).1 hx
      cases r with
      | none => exact Or.inl (List.mem_cons_of_mem _ h)
      | some b' =>
        simp only [List.mem_cons] at h
        rcases h with h | h
        · right; exact ⟨b', rfl, by simp [h, hk], by simp [h]⟩
        · exact Or.inl (List.mem_cons_of_mem _ h)
    · simp only [List.mem_cons] at h
      rcases h with h | h
      · left; simp [h]
      · rcases ih h with h' | h'
        · exact Or.inl (List.mem_cons_of_mem _ h')
        · exact Or.inr h'

/-- the keys of the updated list are a sublist of the old keys -/
theorem keys_updFirst_sublist (k : Key) (r : Option Body) (l : List Txn) :
    ((updFirst k r l).map Txn.key).Sublist (l.map Txn.key) := by
  induction l with
  | nil => simp [updFirst]
  | cons x xs ih =>
    simp only [updFirst]
    split
    · cases r with
      | none => simp
      | some b' => simp
    · simpa using ih

theorem keys_updFirst_nodup {k : Key} {r : Option Body} {l : List Txn}
    (h : (l.map Txn.key).Nodup) : ((updFirst k r l).map Txn.key).Nodup :=
  (keys_updFirst_sublist k r l).nodup h

/-- every transaction with another key is untouched (bodies, timers, order) -/
theorem filter_ne_updFirst (k : Key) (r : Option Body) (l : List Txn) :
    (updFirst k r l).filter (fun t => !t.is k) = l.filter (fun t => !t.is k) := by
  induction l with
  | nil => simp [updFirst]
  | cons x xs ih =>
    simp only [updFirst]
    split
    · rename_i hx
      cases r with
      | none => simp [List.filter, hx]
      | some b' =>
        have : (Txn.is k { x with body := b' }) = true := by
          simpa [Txn.is] using hx
        simp [List.filter, hx, this]
    · rename_i hx
      simp [List.filter, hx, ih]

/-- replacing the found transaction's body by itself changes nothing -/
theorem updFirst_same {k : Key} {l : List Txn} {t : Txn} (h : findTxn k l = some t) :
    updFirst k (some t.body) l = l := by
  induction l with
  | nil => simp [findTxn] at h
  | cons x xs ih =>
    simp only [findTxn] at h
    simp only [updFirst]
    split at h
    · rename_i hx
      cases h
      simp [hx]
    · rename_i hx
      simp [hx, ih h]

/-- with no transaction of that key the update is the identity -/
theorem updFirst_absent {k : Key} {r : Option Body} {l : List Txn} (h : findTxn k l = none) :
    updFirst k r l = l := by
  induction l with
  | nil => simp [updFirst]
  | cons x xs ih =>
    simp only [findTxn] at h
    simp only [updFirst]
    split at h
    · cases h
    · rename_i hx
      simp [hx, ih h]

theorem filter_ne_append_key (k : Key) (b : Body) (l : List Txn) :
    (l ++ [Txn.mk k b]).filter (fun t => !t.is k) = l.filter (fun t => !t.is k) := by
  have : Txn.is k (Txn.mk k b) = true := (Txn.is_iff k _).2 rfl
  simp [List.filter_append, List.filter, this]

theorem keys_append_nodup {k : Key} {b : Body} {l : List Txn}
    (h : (l.map Txn.key).Nodup) (hfresh : ∀ t ∈ l, t.key ≠ k) :
    ((l ++ [Txn.mk k b]).map Txn.key).Nodup := by
  rw [List.map_append, List.nodup_append]
  refine ⟨h, by simp, ?_⟩
  intro a ha b' hb
  simp only [List.map_cons, List.map_nil, List.mem_singleton] at hb
  subst hb
  rcases List.mem_map.1 ha with ⟨t, ht, rfl⟩
  exact hfresh t ht

end BacVerif.Tsm
