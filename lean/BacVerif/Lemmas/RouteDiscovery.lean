/-
  Lemmas.RouteDiscovery — cold-cache path discovery on a line of networks (C06): the stateful
  global simulator `Route.runWorld` (caches, parked packets and the Who-Is-Router / I-Am-Router
  exchange as `Route.recv` defines them) run from an all-cold internetwork.  Core Lean only.
-/
import BacVerif.Lemmas.RouteUnicast
set_option linter.unusedSimpArgs false
namespace BacVerif.C06
open BacVerif BacVerif.Route

/-- network layer state of a node without parked packets -/
def mkSt (t : TNode) : St := { node := t.node, cache := t.cache }

/-- Who-Is-Router-To-Network `d` as it travels (SADR added by the first relaying router) -/
def whoIsP (sadr : Option (Nat × Mac)) (d : Nat) : Npci := { msg := some 0, sadr := sadr, data := be16 d }

/-- I-Am-Router-To-Network `[d]` -/
def iAmP (d : Nat) : Npci := { msg := some 1, data := be16 d }

theorem be16_two (d : Nat) (h : d < 65536) :
    ∃ a b : UInt8, be16 d = [a, b] ∧ a.toNat * 256 + b.toNat = d := by
  refine ⟨UInt8.ofNat (d / 256 % 256), UInt8.ofNat (d % 256), rfl, ?_⟩
  simp [UInt8.toNat_ofNat]
  omega

/-- the cache after hearing a frame whose SADR is `sIn` from link source `u` on network key `k` -/
def learnC (c : Cache) (k : Option Nat) (u : Mac) (sIn : Option (Nat × Mac)) : Cache :=
  match sIn with
  | some s => c.update k u [s.1]
  | none => c

theorem learned_eq (c : Cache) (arr : Adapter) (u : Mac) (p : Npci) :
    learned c arr u p = learnC c arr.net u p.sadr := by
  unfold learned learnC
  cases p.sadr with
  | none => rfl
  | some s => rfl

/-- a station (with or without parked packets) hears a Who-Is-Router: it only learns the way
    back to the asker's network -/
theorem station_whoIs (lan : Nat) (s : Station) (pend : List (Nat × List Npci)) (u : Mac) (lk : Link)
    (sIn : Option (Nat × Mac)) (d : Nat) (hd : d < 65536) (hs : ∀ s0, sIn = some s0 → s0.1 ≠ lan) :
    recv { node := (s.tnode lan).node, cache := s.cache, pending := pend } (s.adapter lan) u lk (whoIsP sIn d) =
      ({ node := (s.tnode lan).node, cache := learnC s.cache (s.adapter lan).net u sIn, pending := pend }, []) := by
  obtain ⟨a, b, hab, _⟩ := be16_two d hd
  have hloc : (s.tnode lan).node.loc = some (s.adapter lan) := station_loc lan s
  have hsp : spoofed (s.tnode lan).node (whoIsP sIn d) = false := by
    cases sIn with
    | none => rfl
    | some s0 =>
      simp only [spoofed, whoIsP, Node.hasNet, Station.tnode, Station.adapter, List.any_cons, List.any_nil]
      cases s.knowsNet <;> simp [Ne.symm (hs s0 rfl)]
  unfold recv
  simp only [hloc, hsp, learned_eq]
  simp [Station.tnode, classify, whoIsP, knownTypes, nse, hab, nseWhoIs, hasRaised]

end BacVerif.C06

namespace BacVerif.C06
open BacVerif BacVerif.Route

theorem getShorts_be16 (d : Nat) (h : d < 65536) : getShorts (be16 d) = .ok [d] := by
  obtain ⟨a, b, hab, he⟩ := be16_two d h
  rw [hab]
  simp [getShorts, he]
  rfl

/-- a station hears an I-Am-Router-To-Network `[d]` from `m`: it learns the path and releases what
    it had parked for `d` -/
theorem station_iAm (lan : Nat) (s : Station) (pend : List (Nat × List Npci)) (m : Mac) (lk : Link)
    (d : Nat) (hd : d < 65536) :
    recv { node := (s.tnode lan).node, cache := s.cache, pending := pend } (s.adapter lan) m lk (iAmP d) =
      ({ node := (s.tnode lan).node, cache := s.cache.update (s.adapter lan).net m [d],
         pending := (release (s.adapter lan) m [d] pend).1 },
       (release (s.adapter lan) m [d] pend).2) := by
  have hloc : (s.tnode lan).node.loc = some (s.adapter lan) := station_loc lan s
  unfold recv
  simp only [hloc]
  simp [Station.tnode, spoofed, learned, classify, iAmP, knownTypes, nse, getShorts_be16 d hd, nseIAm,
    Node.hasNet, hasRaised]

end BacVerif.C06

namespace BacVerif.C06
open BacVerif BacVerif.Route

/-- a two-port router of a line: up port on `P`, down port towards `sub` -/
def lineRouter (P ua : Nat) (um : Mac) (la : Nat) (c : Cache) (da : Nat) (dm : Mac) (sub : NetTree) : TNode :=
  routerNode P ua um la c .nil (.cons da dm sub .nil)

theorem lineRouter_adapters (P ua : Nat) (um : Mac) (la : Nat) (c : Cache) (da : Nat) (dm : Mac) (sub : NetTree) :
    (lineRouter P ua um la c da dm sub).node.adapters = [mkPort ua um P, mkPort da dm sub.lan] := by
  simp [lineRouter, routerNode, Downs.ports]

theorem lineRouter_loc (P ua : Nat) (um : Mac) (la : Nat) (c : Cache) (da : Nat) (dm : Mac) (sub : NetTree)
    (hla : la = ua ∨ la = da) :
    ∃ loc, (lineRouter P ua um la c da dm sub).node.loc = some loc := by
  obtain ⟨loc, h, _⟩ := router_loc P ua um la c .nil (.cons da dm sub .nil)
    (by rcases hla with rfl | rfl <;> simp [Downs.aids])
  exact ⟨loc, h⟩

/-- a cold router hears a Who-Is-Router for a network it is not connected to: it learns the way
    back and relays the question (SADR = the asker) on its other port -/
theorem router_whoIs_relay (P ua : Nat) (um : Mac) (la : Nat) (c : Cache) (da : Nat) (dm : Mac) (sub : NetTree)
    (u : Mac) (lk : Link) (sIn : Option (Nat × Mac)) (d : Nat) (hd : d < 65536)
    (hla : la = ua ∨ la = da) (haid : ua ≠ da)
    (hs : ∀ s0, sIn = some s0 → s0.1 ≠ P ∧ s0.1 ≠ sub.lan)
    (hdP : d ≠ P) (hds : d ≠ sub.lan)
    (hcold : findPath (learnC c (some P) u sIn) [mkPort ua um P, mkPort da dm sub.lan] d = none) :
    recv (mkSt (lineRouter P ua um la c da dm sub)) (mkPort ua um P) u lk (whoIsP sIn d) =
      (mkSt (lineRouter P ua um la (learnC c (some P) u sIn) da dm sub),
       [.send (mkPort da dm sub.lan) .bcast (whoIsP (some (sIn.getD (P, u))) d)]) := by
  obtain ⟨a, b, hab, he⟩ := be16_two d hd
  obtain ⟨loc, hloc⟩ := lineRouter_loc P ua um la c da dm sub hla
  have hcache : (lineRouter P ua um la c da dm sub).cache = c := rfl
  simp only [mkPort] at hcold
  have hsp : spoofed (lineRouter P ua um la c da dm sub).node (whoIsP sIn d) = false := by
    cases sIn with
    | none => rfl
    | some s0 =>
      simp only [spoofed, whoIsP, Node.hasNet, lineRouter_adapters, List.any_cons, List.any_nil, mkPort]
      simp [Ne.symm (hs s0 rfl).1, Ne.symm (hs s0 rfl).2]
  unfold recv
  simp only [mkSt, hloc, hsp, learned_eq]
  simp only [lineRouter_adapters]
  simp [classify, whoIsP, knownTypes, nse, hab, he, nseWhoIs, hasRaised, Node.byNet, Node.others, lineRouter_adapters,
    mkPort, Ne.symm hdP, Ne.symm hds, haid, Ne.symm haid, hcache, hcold, List.find?_cons]
  refine ⟨⟨rfl, rfl⟩, ?_⟩
  cases sIn <;> simp [hab]

end BacVerif.C06

namespace BacVerif.C06
open BacVerif BacVerif.Route

/-- a router hears a Who-Is-Router for the network behind its other port: it learns the way back
    and answers the asker directly -/
theorem router_whoIs_answer (P ua : Nat) (um : Mac) (la : Nat) (c : Cache) (da : Nat) (dm : Mac) (sub : NetTree)
    (u : Mac) (lk : Link) (sIn : Option (Nat × Mac)) (hd : sub.lan < 65536)
    (hla : la = ua ∨ la = da) (haid : ua ≠ da)
    (hs : ∀ s0, sIn = some s0 → s0.1 ≠ P ∧ s0.1 ≠ sub.lan) (hdP : sub.lan ≠ P) :
    recv (mkSt (lineRouter P ua um la c da dm sub)) (mkPort ua um P) u lk (whoIsP sIn sub.lan) =
      (mkSt (lineRouter P ua um la (learnC c (some P) u sIn) da dm sub),
       [.send (mkPort ua um P) (.to u) (iAmP sub.lan)]) := by
  obtain ⟨a, b, hab, he⟩ := be16_two sub.lan hd
  obtain ⟨loc, hloc⟩ := lineRouter_loc P ua um la c da dm sub hla
  have hcache : (lineRouter P ua um la c da dm sub).cache = c := rfl
  have hsp : spoofed (lineRouter P ua um la c da dm sub).node (whoIsP sIn sub.lan) = false := by
    cases sIn with
    | none => rfl
    | some s0 =>
      simp only [spoofed, whoIsP, Node.hasNet, lineRouter_adapters, List.any_cons, List.any_nil, mkPort]
      simp [Ne.symm (hs s0 rfl).1, Ne.symm (hs s0 rfl).2]
  unfold recv
  simp only [mkSt, hloc, hsp, learned_eq]
  simp only [lineRouter_adapters]
  simp [classify, whoIsP, iAmP, knownTypes, nse, hab, he, nseWhoIs, hasRaised, Node.byNet, Node.others,
    lineRouter_adapters, mkPort, hdP, Ne.symm hdP, haid, Ne.symm haid, hcache, List.find?_cons]
  exact ⟨rfl, rfl⟩

/-- a router hears an I-Am-Router `[d]` on its down port: it learns the path and announces it on
    its up port -/
theorem router_iAm_relay (P ua : Nat) (um : Mac) (la : Nat) (c : Cache) (da : Nat) (dm : Mac) (sub : NetTree)
    (m : Mac) (lk : Link) (d : Nat) (hd : d < 65536) (hla : la = ua ∨ la = da) (haid : ua ≠ da) :
    recv (mkSt (lineRouter P ua um la c da dm sub)) (mkPort da dm sub.lan) m lk (iAmP d) =
      (mkSt (lineRouter P ua um la (c.update (some sub.lan) m [d]) da dm sub),
       [.send (mkPort ua um P) .bcast (iAmP d)]) := by
  obtain ⟨loc, hloc⟩ := lineRouter_loc P ua um la c da dm sub hla
  have hcache : (lineRouter P ua um la c da dm sub).cache = c := rfl
  unfold recv
  simp only [mkSt, hloc]
  simp only [lineRouter_adapters]
  simp [spoofed, learned, classify, iAmP, knownTypes, nse, getShorts_be16 d hd, nseIAm, hasRaised, Node.hasNet,
    Node.others, lineRouter_adapters, mkPort, haid, Ne.symm haid, hcache, release, pendingTake, be16s]
  exact ⟨rfl, rfl⟩

end BacVerif.C06

namespace BacVerif.C06
open BacVerif BacVerif.Route

/-! ### the stateful simulator on lists -/

def deaf (f : Packet) (s : St) : Prop := s.node.adapters.filter (hears f) = []

theorem stepNode_deaf (s : St) (f : Packet) (h : deaf f s) : stepNode s f = (s, [], []) := by
  unfold stepNode; rw [h]; rfl

theorem stepNode_one (s : St) (f : Packet) (a : Adapter) (h : s.node.adapters.filter (hears f) = [a]) :
    stepNode s f = ((recv s a f.src f.dst f.npci).1, originPackets (recv s a f.src f.dst f.npci).2,
      upsOf a (recv s a f.src f.dst f.npci).2) := by
  unfold stepNode; rw [h]; simp

theorem stepWorld_append (a b : World) (f : Packet) :
    stepWorld (a ++ b) f =
      ((stepWorld a f).1 ++ (stepWorld b f).1, (stepWorld a f).2.1 ++ (stepWorld b f).2.1,
       (stepWorld a f).2.2 ++ (stepWorld b f).2.2) := by
  simp [stepWorld]

theorem stepWorld_cons (s : St) (w : World) (f : Packet) :
    stepWorld (s :: w) f =
      ((stepNode s f).1 :: (stepWorld w f).1, (stepNode s f).2.1 ++ (stepWorld w f).2.1,
       (stepNode s f).2.2 ++ (stepWorld w f).2.2) := by
  simp [stepWorld]

theorem stepWorld_deaf (w : World) (f : Packet) (h : ∀ s ∈ w, deaf f s) : stepWorld w f = (w, [], []) := by
  induction w with
  | nil => rfl
  | cons s w ih =>
    rw [stepWorld_cons, stepNode_deaf s f (h s List.mem_cons_self),
      ih (fun s hs => h s (List.mem_cons_of_mem _ hs))]
    rfl

theorem runWorld_add (a b : Nat) (w : World) (q : List Packet) (d : List Delivery) :
    runWorld (a + b) w q d = runWorld b (runWorld a w q d).1 (runWorld a w q d).2.1 (runWorld a w q d).2.2 := by
  induction a generalizing w q d with
  | zero => simp [runWorld]
  | succ n ih =>
    cases q with
    | nil =>
      rw [Nat.succ_add]
      simp only [runWorld]
      cases b <;> simp [runWorld]
    | cons f q =>
      rw [Nat.succ_add]
      simp only [runWorld]
      exact ih _ _ _

theorem runWorld_one (w : World) (f : Packet) :
    runWorld 1 w [f] [] = stepWorld w f := by
  simp [runWorld]

/-- an adapter-free way to say a node cannot hear anything on the given networks except on `P`
    with MAC `u` -/
def quietOn (ctx : World) (lans : List Nat) (P : Nat) (u : Mac) : Prop :=
  ∀ s ∈ ctx, ∀ a ∈ s.node.adapters, a.lan ∈ lans → a.lan = P ∧ a.mac = u

theorem quiet_deaf (ctx : World) (lans : List Nat) (P : Nat) (u : Mac) (hq : quietOn ctx lans P u)
    (f : Packet) (hf : f.lan ∈ lans) (hh : f.lan = P → (f.dst = .bcast ∧ f.src = u) ∨ (∃ m, f.dst = .to m ∧ m ≠ u)) :
    ∀ s ∈ ctx, deaf f s := by
  intro s hs
  apply List.filter_eq_nil_iff.mpr
  intro a ha
  simp only [hears, Bool.and_eq_true, beq_iff_eq, not_and]
  intro hl
  obtain ⟨h1, h2⟩ := hq s hs a ha (hl ▸ hf)
  rcases hh (hl ▸ h1) with ⟨hb, hsrc⟩ | ⟨m, hm, hne⟩
  · simp [hb, h2, hsrc]
  · simp [hm, h2, Ne.symm hne]

end BacVerif.C06

namespace BacVerif.C06
open BacVerif BacVerif.Route

/-! ### a line of networks -/

/-- one hop of a line: a two-port router (up port towards the origin first) and the network
    behind it with its stations -/
structure Hop where
  upAid : Nat
  upMac : Mac
  downAid : Nat
  downMac : Mac
  localAid : Nat
  cache : Cache := []
  lan : Nat
  stations : List Station
deriving DecidableEq, Repr

def hopsTree : List Hop → Routers
  | [] => .nil
  | h :: hs =>
    .cons h.upAid h.upMac h.localAid h.cache .nil
      (.cons h.downAid h.downMac (.mk h.lan h.stations (hopsTree hs)) .nil) .nil

/-- network `lan` with stations `sts`, then the hops in a row -/
def lineTree (lan : Nat) (sts : List Station) (hops : List Hop) : NetTree := .mk lan sts (hopsTree hops)

def stationSt (lan : Nat) (pend : List (Nat × List Npci)) (s : Station) : St :=
  { node := (s.tnode lan).node, cache := s.cache, pending := pend }

def routerSt (P : Nat) (h : Hop) : St :=
  mkSt (lineRouter P h.upAid h.upMac h.localAid h.cache h.downAid h.downMac (.mk h.lan [] .nil))

theorem routerSt_eq (P : Nat) (h : Hop) (sts : List Station) (rs : Routers) :
    mkSt (lineRouter P h.upAid h.upMac h.localAid h.cache h.downAid h.downMac (.mk h.lan sts rs)) = routerSt P h := rfl

def hopsWorld : Nat → List Hop → World
  | _, [] => []
  | P, h :: hs => routerSt P h :: ((h.stations.map (stationSt h.lan [])) ++ hopsWorld h.lan hs)

def unitWorld (P : Nat) (S : List Station) (hops : List Hop) : World :=
  S.map (stationSt P []) ++ hopsWorld P hops

theorem mkSt_station (lan : Nat) (s : Station) : mkSt (s.tnode lan) = stationSt lan [] s := rfl

theorem hopsWorld_nodes (P : Nat) (hops : List Hop) :
    (Routers.nodes P (hopsTree hops)).map mkSt = hopsWorld P hops := by
  induction hops generalizing P with
  | nil => rfl
  | cons h hs ih =>
    simp only [hopsTree, Routers.nodes, Downs.nodes, NetTree.nodes, List.map_cons, List.map_append, List.map_map,
      List.append_nil, List.nil_append, hopsWorld, Routers.nodes]
    rw [ih]
    rfl

theorem lineTree_world (lan : Nat) (sts : List Station) (hops : List Hop) :
    (lineTree lan sts hops).nodes.map mkSt = unitWorld lan sts hops := by
  simp only [lineTree, NetTree.nodes, List.map_append, List.map_map, unitWorld, hopsWorld_nodes]
  rfl

/-! ### what the nodes of a line learn -/

def Station.learn (lan : Nat) (u : Mac) (sIn : Option (Nat × Mac)) (s : Station) : Station :=
  { s with cache := learnC s.cache (s.adapter lan).net u sIn }

def Station.learnD (lan : Nat) (m : Mac) (d : Nat) (s : Station) : Station :=
  { s with cache := s.cache.update (s.adapter lan).net m [d] }

theorem station_hears (lan : Nat) (pend : List (Nat × List Npci)) (s : Station) (f : Packet) :
    (stationSt lan pend s).node.adapters.filter (hears f) =
      if lan = f.lan ∧ macOk f (s.adapter lan) = true then [s.adapter lan] else [] := by
  simp only [stationSt, Station.tnode, List.filter_cons, List.filter_nil, hears_eq]
  by_cases h : lan = f.lan <;> by_cases h2 : macOk f (s.adapter lan) = true <;>
    simp [h, h2, Station.adapter]

/-- the stations of a network hear a Who-Is-Router broadcast -/
theorem stations_whoIs (lan : Nat) (S : List Station) (u : Mac) (sIn : Option (Nat × Mac)) (d : Nat)
    (hd : d < 65536) (hs : ∀ s0, sIn = some s0 → s0.1 ≠ lan) (hm : ∀ s ∈ S, s.mac ≠ u) :
    stepWorld (S.map (stationSt lan [])) ⟨lan, u, .bcast, whoIsP sIn d⟩ =
      ((S.map (Station.learn lan u sIn)).map (stationSt lan []), [], []) := by
  induction S with
  | nil => rfl
  | cons s S ih =>
    rw [List.map_cons, stepWorld_cons, ih (fun s hs' => hm s (List.mem_cons_of_mem _ hs'))]
    have hh : (stationSt lan [] s).node.adapters.filter (hears ⟨lan, u, .bcast, whoIsP sIn d⟩) = [s.adapter lan] := by
      rw [station_hears]
      simp [macOk, Station.adapter, hm s List.mem_cons_self]
    rw [stepNode_one _ _ _ hh]
    have := station_whoIs lan s [] u .bcast sIn d hd hs
    simp only [stationSt] at this ⊢
    rw [this]
    simp [originPackets, upsOf, Station.learn, Station.tnode, Station.adapter, stationSt]

/-- the stations of a network hear an I-Am-Router broadcast -/
theorem stations_iAm (lan : Nat) (S : List Station) (m : Mac) (d : Nat) (hd : d < 65536)
    (hm : ∀ s ∈ S, s.mac ≠ m) :
    stepWorld (S.map (stationSt lan [])) ⟨lan, m, .bcast, iAmP d⟩ =
      ((S.map (Station.learnD lan m d)).map (stationSt lan []), [], []) := by
  induction S with
  | nil => rfl
  | cons s S ih =>
    rw [List.map_cons, stepWorld_cons, ih (fun s hs' => hm s (List.mem_cons_of_mem _ hs'))]
    have hh : (stationSt lan [] s).node.adapters.filter (hears ⟨lan, m, .bcast, iAmP d⟩) = [s.adapter lan] := by
      rw [station_hears]
      simp [macOk, Station.adapter, hm s List.mem_cons_self]
    rw [stepNode_one _ _ _ hh]
    have := station_iAm lan s [] m .bcast d hd
    simp only [stationSt] at this ⊢
    rw [this]
    simp [originPackets, upsOf, Station.learnD, Station.tnode, Station.adapter, release, pendingTake, stationSt]

/-- stations do not hear a unicast for somebody else, nor anything on another network -/
theorem stations_deaf (lan : Nat) (S : List Station) (f : Packet)
    (h : f.lan ≠ lan ∨ ∃ x, f.dst = .to x ∧ ∀ s ∈ S, s.mac ≠ x) :
    ∀ st ∈ S.map (stationSt lan []), deaf f st := by
  intro st hst
  obtain ⟨s, hs, rfl⟩ := List.mem_map.mp hst
  unfold deaf
  rw [station_hears]
  rcases h with h | ⟨x, hx, hne⟩
  · simp [Ne.symm h]
  · simp [macOk, hx, Station.adapter, hne s hs]

end BacVerif.C06

namespace BacVerif.C06
open BacVerif BacVerif.Route

def Hop.up (P : Nat) (h : Hop) : Adapter := mkPort h.upAid h.upMac P
def Hop.down (h : Hop) : Adapter := mkPort h.downAid h.downMac h.lan

theorem routerSt_adapters (P : Nat) (h : Hop) : (routerSt P h).node.adapters = [h.up P, h.down] := by
  simp [routerSt, mkSt, lineRouter_adapters, Hop.up, Hop.down, NetTree.lan]

theorem router_hears (P : Nat) (h : Hop) (f : Packet) :
    (routerSt P h).node.adapters.filter (hears f) =
      (if hears f (h.up P) = true then [h.up P] else []) ++
      (if hears f h.down = true then [h.down] else []) := by
  rw [routerSt_adapters]
  cases h1 : hears f (h.up P) <;> cases h2 : hears f h.down <;> simp [List.filter_cons, h1, h2]

theorem router_deaf (P : Nat) (h : Hop) (f : Packet)
    (hP : f.lan = P → (f.dst = .bcast ∧ f.src = h.upMac) ∨ (∃ x, f.dst = .to x ∧ x ≠ h.upMac))
    (hL : f.lan = h.lan → (f.dst = .bcast ∧ f.src = h.downMac) ∨ (∃ x, f.dst = .to x ∧ x ≠ h.downMac)) :
    deaf f (routerSt P h) := by
  unfold deaf
  rw [router_hears]
  have h1 : hears f (h.up P) = false := by
    rw [hears_eq]
    by_cases e : P = f.lan
    · rcases hP e.symm with ⟨hb, hs⟩ | ⟨x, hx, hne⟩
      · simp [macOk, hb, hs, Hop.up, mkPort]
      · simp [macOk, hx, Hop.up, mkPort, Ne.symm hne]
    · simp [Hop.up, mkPort, e]
  have h2 : hears f h.down = false := by
    rw [hears_eq]
    by_cases e : h.lan = f.lan
    · rcases hL e.symm with ⟨hb, hs⟩ | ⟨x, hx, hne⟩
      · simp [macOk, hb, hs, Hop.down, mkPort]
      · simp [macOk, hx, Hop.down, mkPort, Ne.symm hne]
    · simp [Hop.down, mkPort, e]
  simp [h1, h2]

/-- hop conditions used by the single-node lemmas -/
def Hop.ok (h : Hop) : Prop := h.upAid ≠ h.downAid ∧ (h.localAid = h.upAid ∨ h.localAid = h.downAid)

theorem routerSt_whoIs_relay (P : Nat) (h : Hop) (u : Mac) (sIn : Option (Nat × Mac)) (d : Nat) (hd : d < 65536)
    (hok : h.ok) (hu : h.upMac ≠ u) (hPl : h.lan ≠ P)
    (hs : ∀ s0, sIn = some s0 → s0.1 ≠ P ∧ s0.1 ≠ h.lan ∧ s0.1 ≠ d) (hdP : d ≠ P) (hds : d ≠ h.lan)
    (hcold : h.cache = []) :
    stepNode (routerSt P h) ⟨P, u, .bcast, whoIsP sIn d⟩ =
      (routerSt P { h with cache := learnC h.cache (some P) u sIn },
       [⟨h.lan, h.downMac, .bcast, whoIsP (some (sIn.getD (P, u))) d⟩], []) := by
  have hh : (routerSt P h).node.adapters.filter (hears ⟨P, u, .bcast, whoIsP sIn d⟩) = [h.up P] := by
    rw [router_hears]
    simp [hears_eq, macOk, Hop.up, Hop.down, mkPort, hu, hPl]
  rw [stepNode_one _ _ _ hh]
  have hc : findPath (learnC h.cache (some P) u sIn)
      [mkPort h.upAid h.upMac P, mkPort h.downAid h.downMac (NetTree.mk h.lan [] .nil).lan] d = none := by
    rw [hcold]
    cases sIn with
    | none => simp [learnC, findPath, Cache.get]
    | some s0 =>
      have := (hs s0 rfl).2.2
      simp [learnC, Cache.update, Cache.set1, findPath, Cache.get, mkPort, NetTree.lan, this]
  have := router_whoIs_relay P h.upAid h.upMac h.localAid h.cache h.downAid h.downMac (.mk h.lan [] .nil)
    u .bcast sIn d hd hok.2 hok.1 (fun s0 e => ⟨(hs s0 e).1, (hs s0 e).2.1⟩) hdP hds hc
  simp only [routerSt, Hop.up] at this ⊢
  rw [this]
  simp [originPackets, upsOf, mkPort, NetTree.lan]

theorem routerSt_whoIs_answer (P : Nat) (h : Hop) (u : Mac) (sIn : Option (Nat × Mac)) (hd : h.lan < 65536)
    (hok : h.ok) (hu : h.upMac ≠ u) (hPl : h.lan ≠ P)
    (hs : ∀ s0, sIn = some s0 → s0.1 ≠ P ∧ s0.1 ≠ h.lan) :
    stepNode (routerSt P h) ⟨P, u, .bcast, whoIsP sIn h.lan⟩ =
      (routerSt P { h with cache := learnC h.cache (some P) u sIn },
       [⟨P, h.upMac, .to u, iAmP h.lan⟩], []) := by
  have hh : (routerSt P h).node.adapters.filter (hears ⟨P, u, .bcast, whoIsP sIn h.lan⟩) = [h.up P] := by
    rw [router_hears]
    simp [hears_eq, macOk, Hop.up, Hop.down, mkPort, hu, hPl]
  rw [stepNode_one _ _ _ hh]
  have := router_whoIs_answer P h.upAid h.upMac h.localAid h.cache h.downAid h.downMac (.mk h.lan [] .nil)
    u .bcast sIn hd hok.2 hok.1 hs hPl
  simp only [routerSt, Hop.up, NetTree.lan] at this ⊢
  rw [this]
  simp [originPackets, upsOf, mkPort]

theorem routerSt_iAm (P : Nat) (h : Hop) (m : Mac) (lk : Link) (d : Nat) (hd : d < 65536)
    (hok : h.ok) (hPl : h.lan ≠ P)
    (hlk : lk = .to h.downMac ∨ (lk = .bcast ∧ h.downMac ≠ m)) :
    stepNode (routerSt P h) ⟨h.lan, m, lk, iAmP d⟩ =
      (routerSt P { h with cache := h.cache.update (some h.lan) m [d] },
       [⟨P, h.upMac, .bcast, iAmP d⟩], []) := by
  have hh : (routerSt P h).node.adapters.filter (hears ⟨h.lan, m, lk, iAmP d⟩) = [h.down] := by
    rw [router_hears]
    rcases hlk with rfl | ⟨rfl, hne⟩
    · simp [hears_eq, macOk, Hop.up, Hop.down, mkPort, Ne.symm hPl]
    · simp [hears_eq, macOk, Hop.up, Hop.down, mkPort, Ne.symm hPl, hne]
  rw [stepNode_one _ _ _ hh]
  have := router_iAm_relay P h.upAid h.upMac h.localAid h.cache h.downAid h.downMac (.mk h.lan [] .nil)
    m lk d hd hok.2 hok.1
  simp only [routerSt, Hop.down, NetTree.lan] at this ⊢
  rw [this]
  simp [originPackets, upsOf, mkPort]

end BacVerif.C06

namespace BacVerif.C06
open BacVerif BacVerif.Route

/-- the line after the discovery of `d`, started by a Who-Is-Router broadcast on `P` from `u`
    (SADR `sIn`): every router up to the one connected to `d` has learned the way back to the
    asker and — except the last — the next router towards `d`; the stations in between have
    learned what they overheard -/
def warmHops (d : Nat) : Nat → Mac → Option (Nat × Mac) → List Hop → List Hop
  | _, _, _, [] => []
  | P, u, sIn, h :: hs =>
    if d = h.lan then { h with cache := learnC h.cache (some P) u sIn } :: hs
    else
      match hs with
      | [] => [{ h with cache := learnC h.cache (some P) u sIn }]
      | h2 :: _ =>
        { h with cache := (learnC h.cache (some P) u sIn).update (some h.lan) h2.upMac [d],
                 stations := (h.stations.map (Station.learn h.lan h.downMac (some (sIn.getD (P, u))))).map
                    (fun s => if d = h2.lan then s else s.learnD h.lan h2.upMac d) }
          :: warmHops d h.lan h.downMac (some (sIn.getD (P, u))) hs

/-- the skeleton of a hop: everything but the caches -/
def Station.skel (s : Station) : Station := { s with cache := [] }
def Hop.skel (h : Hop) : Hop := { h with cache := [], stations := h.stations.map Station.skel }

theorem warmHops_skel (d : Nat) (hops : List Hop) : ∀ (P : Nat) (u : Mac) (sIn : Option (Nat × Mac)),
    (warmHops d P u sIn hops).map Hop.skel = hops.map Hop.skel := by
  induction hops with
  | nil => intro P u sIn; rfl
  | cons h hs ih =>
    intro P u sIn
    unfold warmHops
    split
    · simp [Hop.skel]
    · cases hs with
      | nil => simp [Hop.skel]
      | cons h2 hs2 =>
        simp only [List.map_cons, ih]
        congr 1
        simp only [Hop.skel, List.map_map]
        congr 1
        apply List.map_congr_left
        intro s _
        simp only [Function.comp]
        split <;> simp [Station.learn, Station.learnD, Station.skel]

theorem skel_lans (a : List Hop) : (a.map Hop.skel).map (·.lan) = a.map (·.lan) := by
  simp [List.map_map, Function.comp, Hop.skel]

theorem same_lans {a b : List Hop} (h : a.map Hop.skel = b.map Hop.skel) : a.map (·.lan) = b.map (·.lan) := by
  rw [← skel_lans a, ← skel_lans b, h]

/-- the nodes behind the first router of a line are deaf to a frame on the network in front of it
    unless it is for that router -/
theorem hopsWorld_deaf (hops : List Hop) : ∀ (P : Nat) (f : Packet), f.lan ∉ hops.map (·.lan) →
    (f.lan = P → ∀ h ∈ hops.head?, (f.dst = .bcast ∧ f.src = h.upMac) ∨ (∃ x, f.dst = .to x ∧ x ≠ h.upMac)) →
    ∀ s ∈ hopsWorld P hops, deaf f s := by
  induction hops with
  | nil => intro P f _ _ s hs; simp [hopsWorld] at hs
  | cons h hs ih =>
    intro P f hl hP s hs'
    simp only [List.map_cons, List.mem_cons, not_or] at hl
    simp only [hopsWorld, List.mem_cons, List.mem_append] at hs'
    rcases hs' with rfl | hs' | hs'
    · apply router_deaf
      · intro e; exact hP e h (by simp)
      · intro e; exact absurd e hl.1
    · exact stations_deaf h.lan h.stations f (Or.inl hl.1) s hs'
    · exact ih h.lan f hl.2 (fun e => absurd e hl.1) s hs'

end BacVerif.C06

namespace BacVerif.C06
open BacVerif BacVerif.Route

/-- MAC / adapter-id conditions along a line, seen from a sender `u` on the first network -/
def lineOk (u : Mac) (S : List Station) : List Hop → Prop
  | [] => ∀ s ∈ S, s.mac ≠ u
  | h :: hs => (∀ s ∈ S, s.mac ≠ u ∧ s.mac ≠ h.upMac) ∧ h.upMac ≠ u ∧ h.ok ∧ lineOk h.downMac h.stations hs

theorem runWorld_step (n : Nat) (w : World) (f : Packet) (w' : World) (q' : List Packet)
    (h : stepWorld w f = (w', q', [])) : runWorld (n + 1) w [f] [] = runWorld n w' q' [] := by
  simp [runWorld, h]

theorem warmHops_head (d : Nat) (P : Nat) (u : Mac) (sIn : Option (Nat × Mac)) (h : Hop) (hs : List Hop) :
    ∃ h' tl, warmHops d P u sIn (h :: hs) = h' :: tl ∧ h'.upMac = h.upMac ∧ h'.lan = h.lan := by
  unfold warmHops
  split
  · exact ⟨_, _, rfl, rfl, rfl⟩
  · cases hs with
    | nil => exact ⟨_, _, rfl, rfl, rfl⟩
    | cons h2 hs2 => exact ⟨_, _, rfl, rfl, rfl⟩

theorem quietOn_split {pre post : World} {lans : List Nat} {P : Nat} {u : Mac}
    (h : quietOn (pre ++ post) lans P u) : quietOn pre lans P u ∧ quietOn post lans P u :=
  ⟨fun s hs => h s (List.mem_append_left _ hs), fun s hs => h s (List.mem_append_right _ hs)⟩

/-- the first step of the wave: the Who-Is-Router broadcast on `P` is heard by the stations of `P`
    and by the first router -/
theorem wave_first (d : Nat) (hd : d < 65536) (h : Hop) (hs : List Hop) (P : Nat) (u : Mac)
    (sIn : Option (Nat × Mac)) (S : List Station) (pre post : World)
    (hnd : (P :: (h :: hs).map (·.lan)).Nodup) (hcold : h.cache = [])
    (hsin : ∀ s0, sIn = some s0 → s0.1 ∉ P :: (h :: hs).map (·.lan)) (hdin : d ∈ (h :: hs).map (·.lan))
    (hok : lineOk u S (h :: hs))
    (hq : quietOn (pre ++ post) (P :: (h :: hs).map (·.lan)) P u) :
    stepWorld (pre ++ unitWorld P S (h :: hs) ++ post) ⟨P, u, .bcast, whoIsP sIn d⟩ =
      (pre ++ unitWorld P (S.map (Station.learn P u sIn))
          ({ h with cache := learnC h.cache (some P) u sIn } :: hs) ++ post,
       [if d = h.lan then ⟨P, h.upMac, .to u, iAmP d⟩
        else ⟨h.lan, h.downMac, .bcast, whoIsP (some (sIn.getD (P, u))) d⟩], []) := by
  obtain ⟨hq1, hq2⟩ := quietOn_split hq
  simp only [List.map_cons, List.nodup_cons, List.mem_cons, not_or] at hnd
  obtain ⟨⟨hPh, hPhs⟩, hhhs, _⟩ := hnd
  obtain ⟨hS, hum, hhok, _⟩ := hok
  have hfl : (⟨P, u, .bcast, whoIsP sIn d⟩ : Packet).lan ∈ P :: (h :: hs).map (·.lan) := by simp
  have hpre := stepWorld_deaf pre _ (quiet_deaf pre _ P u hq1 ⟨P, u, .bcast, whoIsP sIn d⟩ hfl
    (fun _ => Or.inl ⟨rfl, rfl⟩))
  have hpost := stepWorld_deaf post _ (quiet_deaf post _ P u hq2 ⟨P, u, .bcast, whoIsP sIn d⟩ hfl
    (fun _ => Or.inl ⟨rfl, rfl⟩))
  have hsP : ∀ s0, sIn = some s0 → s0.1 ≠ P := fun s0 e hh => hsin s0 e (by simp [hh])
  have hst := stations_whoIs P S u sIn d hd hsP (fun s hs' => (hS s hs').1)
  have hdP : d ≠ P := by
    intro e
    simp only [List.map_cons, List.mem_cons] at hdin
    rcases hdin with e2 | e2
    · exact hPh (e ▸ e2)
    · exact hPhs (e ▸ e2)
  have hrest : stepWorld ((h.stations.map (stationSt h.lan [])) ++ hopsWorld h.lan hs)
      ⟨P, u, .bcast, whoIsP sIn d⟩ = ((h.stations.map (stationSt h.lan [])) ++ hopsWorld h.lan hs, [], []) := by
    apply stepWorld_deaf
    intro s hs'
    rcases List.mem_append.mp hs' with hs' | hs'
    · exact stations_deaf h.lan h.stations _ (Or.inl hPh) s hs'
    · exact hopsWorld_deaf hs h.lan _ hPhs (fun e => absurd e hPh) s hs'
  have hrt : stepNode (routerSt P h) ⟨P, u, .bcast, whoIsP sIn d⟩ =
      (routerSt P { h with cache := learnC h.cache (some P) u sIn },
       [if d = h.lan then ⟨P, h.upMac, .to u, iAmP d⟩
        else ⟨h.lan, h.downMac, .bcast, whoIsP (some (sIn.getD (P, u))) d⟩], []) := by
    by_cases hdl : d = h.lan
    · subst hdl
      simp only [if_true]
      exact routerSt_whoIs_answer P h u sIn hd hhok hum (Ne.symm hPh)
        (fun s0 e => ⟨hsP s0 e, fun hh => hsin s0 e (by simp [hh])⟩)
    · simp only [hdl, if_false]
      exact routerSt_whoIs_relay P h u sIn d hd hhok hum (Ne.symm hPh)
        (fun s0 e => ⟨hsP s0 e, fun hh => hsin s0 e (by simp [hh]), fun hh => hsin s0 e (by
          simp only [List.map_cons, List.mem_cons] at hdin ⊢
          right; exact hh ▸ hdin)⟩) hdP hdl hcold
  simp only [unitWorld, hopsWorld]
  rw [stepWorld_append, stepWorld_append, hpre, hpost, stepWorld_append, hst, stepWorld_cons, hrt, hrest]
  simp

/-- the last step of the wave at one router: the I-Am-Router coming back on the network behind it
    (`lk` = unicast to its down port, or a broadcast) is learned and announced on `P` -/
theorem wave_last (d : Nat) (hd : d < 65536) (h : Hop) (P : Nat) (Sp S2 : List Station) (hops' : List Hop)
    (m2 : Mac) (lk : Link) (pre post : World)
    (hPl : h.lan ≠ P) (hhok : h.ok)
    (hlk : lk = .to h.downMac ∨ lk = .bcast) (hm2 : h.downMac ≠ m2)
    (hS2 : ∀ s ∈ S2, s.mac ≠ h.downMac ∧ s.mac ≠ m2)
    (hhead : ∀ x ∈ hops'.head?, x.upMac = m2) (hl : h.lan ∉ hops'.map (·.lan))
    (hctx : ∀ s ∈ pre ++ post, deaf ⟨h.lan, m2, lk, iAmP d⟩ s) :
    stepWorld (pre ++ (Sp.map (stationSt P []) ++ (routerSt P h :: (S2.map (stationSt h.lan []) ++ hopsWorld h.lan hops'))) ++ post)
        ⟨h.lan, m2, lk, iAmP d⟩ =
      (pre ++ (Sp.map (stationSt P []) ++
          (routerSt P { h with cache := h.cache.update (some h.lan) m2 [d] } ::
            ((S2.map (fun s => if lk = .bcast then s.learnD h.lan m2 d else s)).map (stationSt h.lan []) ++
              hopsWorld h.lan hops'))) ++ post,
       [⟨P, h.upMac, .bcast, iAmP d⟩], []) := by
  have hpre := stepWorld_deaf pre _ (fun s hs => hctx s (List.mem_append_left _ hs))
  have hpost := stepWorld_deaf post _ (fun s hs => hctx s (List.mem_append_right _ hs))
  have hSp := stepWorld_deaf (Sp.map (stationSt P [])) ⟨h.lan, m2, lk, iAmP d⟩
    (stations_deaf P Sp _ (Or.inl hPl))
  have hrt := routerSt_iAm P h m2 lk d hd hhok hPl (by
    rcases hlk with e | e
    · exact Or.inl e
    · exact Or.inr ⟨e, hm2⟩)
  have hdeep := stepWorld_deaf (hopsWorld h.lan hops') ⟨h.lan, m2, lk, iAmP d⟩
    (hopsWorld_deaf hops' h.lan _ hl (fun _ x hx => by
      rcases hlk with e | e
      · exact Or.inr ⟨h.downMac, e, by rw [hhead x hx]; exact hm2⟩
      · exact Or.inl ⟨e, (hhead x hx).symm⟩))
  have hS : stepWorld (S2.map (stationSt h.lan [])) ⟨h.lan, m2, lk, iAmP d⟩ =
      ((S2.map (fun s => if lk = .bcast then s.learnD h.lan m2 d else s)).map (stationSt h.lan []), [], []) := by
    rcases hlk with e | e
    · subst e
      simp only [reduceCtorEq, if_false, List.map_id']
      exact stepWorld_deaf _ _ (stations_deaf h.lan S2 _ (Or.inr ⟨h.downMac, rfl, fun s hs => (hS2 s hs).1⟩))
    · subst e
      simp only [if_true]
      exact stations_iAm h.lan S2 m2 d hd (fun s hs => (hS2 s hs).2)
  rw [stepWorld_append, stepWorld_append, hpre, hpost, stepWorld_append, hSp, stepWorld_cons, hrt,
    stepWorld_append, hS, hdeep]
  simp

/-- **the discovery wave**: a Who-Is-Router for `d` broadcast on network `P` travels up the cold
    line to the router connected to `d`; the I-Am-Router answer travels back; when the exchange
    has settled the only frame in flight is the I-Am-Router on `P` and the line is `warmHops` -/
theorem wave (d : Nat) (hd : d < 65536) (hs : List Hop) :
    ∀ (h : Hop) (P : Nat) (u : Mac) (sIn : Option (Nat × Mac)) (S : List Station) (pre post : World),
    d ∈ (h :: hs).map (·.lan) → (P :: (h :: hs).map (·.lan)).Nodup → (∀ x ∈ h :: hs, x.cache = []) →
    (∀ s0, sIn = some s0 → s0.1 ∉ P :: (h :: hs).map (·.lan)) → lineOk u S (h :: hs) →
    quietOn (pre ++ post) (P :: (h :: hs).map (·.lan)) P u →
    ∃ n, runWorld n (pre ++ unitWorld P S (h :: hs) ++ post) [⟨P, u, .bcast, whoIsP sIn d⟩] [] =
      (pre ++ unitWorld P (S.map (Station.learn P u sIn)) (warmHops d P u sIn (h :: hs)) ++ post,
       [⟨P, h.upMac, if d = h.lan then .to u else .bcast, iAmP d⟩], []) := by
  induction hs with
  | nil =>
    intro h P u sIn S pre post hd' hnd hcold hsin hok hq
    have hdl : d = h.lan := by simpa using hd'
    refine ⟨1, ?_⟩
    rw [runWorld_one, wave_first d hd h [] P u sIn S pre post hnd (hcold h (by simp)) hsin hd' hok hq]
    simp [hdl, warmHops]
  | cons h2 hs2 ih =>
    intro h P u sIn S pre post hd' hnd hcold hsin hok hq
    have hfirst := wave_first d hd h (h2 :: hs2) P u sIn S pre post hnd (hcold h (by simp)) hsin hd' hok hq
    by_cases hdl : d = h.lan
    · refine ⟨1, ?_⟩
      rw [runWorld_one, hfirst]
      simp [hdl, warmHops]
    · simp only [hdl, if_false] at hfirst
      have hndx := hnd
      simp only [List.map_cons, List.nodup_cons, List.mem_cons, not_or] at hndx
      obtain ⟨⟨hPh, hPh2, hPhs⟩, ⟨hhh2, hhhs⟩, hnd2⟩ := hndx
      obtain ⟨hS, hum, hhok, hok2⟩ := hok
      have hok2x := hok2
      obtain ⟨hS2, hum2, _, _⟩ := hok2x
      have hdin2 : d ∈ (h2 :: hs2).map (·.lan) := by
        simp only [List.map_cons, List.mem_cons] at hd' ⊢
        exact hd'.resolve_left hdl
      have hs1 : ∀ s0, some (sIn.getD (P, u)) = some s0 → s0.1 ∉ h.lan :: (h2 :: hs2).map (·.lan) := by
        intro s0 e
        simp only [Option.some.injEq] at e
        subst e
        cases sIn with
        | none =>
          simp only [Option.getD_none, List.map_cons, List.mem_cons, not_or]
          exact ⟨hPh, hPh2, hPhs⟩
        | some s0 =>
          have := hsin s0 rfl
          simp only [List.map_cons, List.mem_cons, not_or] at this
          simp only [Option.getD_some, List.map_cons, List.mem_cons, not_or]
          exact ⟨this.2.1, this.2.2.1, this.2.2.2⟩
      have hq' : quietOn ((pre ++ (S.map (Station.learn P u sIn)).map (stationSt P []) ++
            [routerSt P { h with cache := learnC h.cache (some P) u sIn }]) ++ post)
          (h.lan :: (h2 :: hs2).map (·.lan)) h.lan h.downMac := by
        intro s hsx a ha hal
        have hne : a.lan ≠ P := by
          intro e
          simp only [List.map_cons, List.mem_cons] at hal
          rw [e] at hal
          rcases hal with e2 | e2 | e2
          · exact hPh e2
          · exact hPh2 e2
          · exact hPhs e2
        simp only [List.mem_append, List.mem_singleton] at hsx
        rcases hsx with ((hsx | hsx) | rfl) | hsx
        · exact absurd (hq s (List.mem_append_left _ hsx) a ha (List.mem_cons_of_mem _ hal)).1 hne
        · obtain ⟨st, _, rfl⟩ := List.mem_map.mp hsx
          simp only [stationSt, Station.tnode, List.mem_singleton] at ha
          subst ha
          exact absurd rfl hne
        · rw [routerSt_adapters] at ha
          simp only [List.mem_cons, List.not_mem_nil, or_false] at ha
          rcases ha with rfl | rfl
          · exact absurd rfl hne
          · exact ⟨rfl, rfl⟩
        · exact absurd (hq s (List.mem_append_right _ hsx) a ha (List.mem_cons_of_mem _ hal)).1 hne
      obtain ⟨n', hrun⟩ := ih h2 h.lan h.downMac (some (sIn.getD (P, u))) h.stations
        (pre ++ (S.map (Station.learn P u sIn)).map (stationSt P []) ++
            [routerSt P { h with cache := learnC h.cache (some P) u sIn }]) post hdin2
        (by simp only [List.map_cons, List.nodup_cons, List.mem_cons, not_or]; exact ⟨⟨hhh2, hhhs⟩, hnd2⟩)
        (fun x hx => hcold x (List.mem_cons_of_mem _ hx)) hs1 hok2 hq'
      obtain ⟨h2', tl', hw, hup2, hlan2⟩ := warmHops_head d h.lan h.downMac (some (sIn.getD (P, u))) h2 hs2
      have hlans2 : (warmHops d h.lan h.downMac (some (sIn.getD (P, u))) (h2 :: hs2)).map (·.lan) =
          (h2 :: hs2).map (·.lan) := same_lans (warmHops_skel d _ _ _ _)
      have hctx : ∀ s ∈ pre ++ post,
          deaf ⟨h.lan, h2.upMac, if d = h2.lan then Link.to h.downMac else Link.bcast, iAmP d⟩ s := by
        intro s hsx
        apply List.filter_eq_nil_iff.mpr
        intro a ha
        simp only [hears, Bool.and_eq_true, beq_iff_eq, not_and]
        intro hl
        have := (hq s hsx a ha (by simp [hl])).1
        exact absurd (hl ▸ this) (Ne.symm hPh)
      have hlast := wave_last d hd { h with cache := learnC h.cache (some P) u sIn } P
        (S.map (Station.learn P u sIn)) (h.stations.map (Station.learn h.lan h.downMac (some (sIn.getD (P, u)))))
        (warmHops d h.lan h.downMac (some (sIn.getD (P, u))) (h2 :: hs2)) h2.upMac
        (if d = h2.lan then Link.to h.downMac else Link.bcast) pre post (Ne.symm hPh) hhok
        (by by_cases e : d = h2.lan <;> simp [e]) (Ne.symm hum2)
        (by
          intro s hsx
          obtain ⟨s', hs', rfl⟩ := List.mem_map.mp hsx
          exact hS2 s' hs')
        (by rw [hw]; intro x hx; simp at hx; subst hx; exact hup2)
        (by rw [hlans2]; simp only [List.map_cons, List.mem_cons, not_or]; exact ⟨hhh2, hhhs⟩)
        hctx
      refine ⟨1 + (n' + 1), ?_⟩
      rw [runWorld_add 1 (n' + 1), runWorld_one, hfirst]
      simp only []
      rw [runWorld_add n' 1]
      have hshape : pre ++ unitWorld P (S.map (Station.learn P u sIn))
            ({ h with cache := learnC h.cache (some P) u sIn } :: h2 :: hs2) ++ post =
          (pre ++ (S.map (Station.learn P u sIn)).map (stationSt P []) ++
            [routerSt P { h with cache := learnC h.cache (some P) u sIn }]) ++
            unitWorld h.lan h.stations (h2 :: hs2) ++ post := by
        simp [unitWorld, hopsWorld, List.append_assoc]
      rw [hshape, hrun]
      simp only [runWorld_one]
      have hshape2 : (pre ++ (S.map (Station.learn P u sIn)).map (stationSt P []) ++
            [routerSt P { h with cache := learnC h.cache (some P) u sIn }]) ++
            unitWorld h.lan (h.stations.map (Station.learn h.lan h.downMac (some (sIn.getD (P, u)))))
              (warmHops d h.lan h.downMac (some (sIn.getD (P, u))) (h2 :: hs2)) ++ post =
          pre ++ ((S.map (Station.learn P u sIn)).map (stationSt P []) ++
            (routerSt P { h with cache := learnC h.cache (some P) u sIn } ::
              ((h.stations.map (Station.learn h.lan h.downMac (some (sIn.getD (P, u))))).map (stationSt h.lan []) ++
                hopsWorld h.lan (warmHops d h.lan h.downMac (some (sIn.getD (P, u))) (h2 :: hs2))))) ++ post := by
        simp [unitWorld, List.append_assoc]
      rw [hshape2, hlast]
      have hwarm : warmHops d P u sIn (h :: h2 :: hs2) =
          { h with cache := (learnC h.cache (some P) u sIn).update (some h.lan) h2.upMac [d],
                   stations := (h.stations.map (Station.learn h.lan h.downMac (some (sIn.getD (P, u))))).map
                      (fun s => if d = h2.lan then s else s.learnD h.lan h2.upMac d) }
            :: warmHops d h.lan h.downMac (some (sIn.getD (P, u))) (h2 :: hs2) := by
        rw [warmHops]
        simp [hdl]
      rw [hwarm]
      have hf : (fun s => if (if d = h2.lan then Link.to h.downMac else Link.bcast) = Link.bcast
            then Station.learnD h.lan h2.upMac d s else s) =
          (fun s => if d = h2.lan then s else Station.learnD h.lan h2.upMac d s) := by
        funext s
        by_cases e : d = h2.lan <;> simp [e]
      rw [hf]
      simp [unitWorld, hopsWorld, hdl, routerSt, List.append_assoc]

end BacVerif.C06

namespace BacVerif.C06
open BacVerif BacVerif.Route

theorem hopsTree_lans (hops : List Hop) : (hopsTree hops).lans = hops.map (·.lan) := by
  induction hops with
  | nil => rfl
  | cons h hs ih => simp [hopsTree, Routers.lans, Downs.lans, NetTree.lans, ih]

theorem hopsTree_height (hops : List Hop) : (hopsTree hops).height = hops.length := by
  induction hops with
  | nil => rfl
  | cons h hs ih => simp [hopsTree, Routers.height, Downs.height, NetTree.height, ih]

theorem hopsTree_upMacs (hops : List Hop) : (hopsTree hops).upMacs = (hops.head?.map (·.upMac)).toList := by
  cases hops with
  | nil => rfl
  | cons h hs => simp [hopsTree, Routers.upMacs]

theorem hopsTree_nextHop (d : Nat) (h : Hop) (hs : List Hop) (hd : d ∈ (h :: hs).map (·.lan)) :
    (hopsTree (h :: hs)).nextHop d = some h.upMac := by
  have : d ∈ Downs.lans .nil ++ (Downs.cons h.downAid h.downMac (.mk h.lan h.stations (hopsTree hs)) .nil).lans := by
    simp only [Downs.lans, NetTree.lans, hopsTree_lans, List.nil_append, List.append_nil]
    simpa using hd
  simp [hopsTree, Routers.nextHop, this]

theorem hopsTree_wf_skel (hops : List Hop) : (hopsTree (hops.map Hop.skel)).wf = (hopsTree hops).wf := by
  induction hops with
  | nil => rfl
  | cons h hs ih =>
    simp only [List.map_cons, hopsTree, Routers.wf, Downs.wf, NetTree.wf, Downs.aids, ih, hopsTree_upMacs]
    have hm : (fun x : Station => x.mac) ∘ Station.skel = fun x => x.mac := by
      funext x; rfl
    cases hs with
    | nil => simp [Hop.skel, List.map_map, hm]
    | cons h2 hs2 => simp [Hop.skel, List.map_map, hm]

theorem lineTree_wf_skel (lan : Nat) (S S' : List Station) (hops hops' : List Hop) (up : List Mac)
    (hS : S'.map (·.mac) = S.map (·.mac)) (hh : hops'.map Hop.skel = hops.map Hop.skel) :
    (lineTree lan S' hops').wf up = (lineTree lan S hops).wf up := by
  have h1 : (hopsTree hops').wf = (hopsTree hops).wf := by
    rw [← hopsTree_wf_skel hops', ← hopsTree_wf_skel hops, hh]
  have h2 : (hopsTree hops').upMacs = (hopsTree hops).upMacs := by
    rw [hopsTree_upMacs, hopsTree_upMacs]
    cases hops' <;> cases hops <;> simp_all [Hop.skel]
  simp only [lineTree, NetTree.wf, hS, h1, h2]

end BacVerif.C06

namespace BacVerif.C06
open BacVerif BacVerif.Route

theorem Cache.get_update_same (c : Cache) (k : Option Nat) (m : Mac) (d : Nat) :
    (c.update k m [d]).get k d = some m := by
  simp [Cache.update, Cache.set1, Cache.get, List.find?_cons]

theorem warm_notin (d : Nat) (hops : List Hop) (h : d ∉ hops.map (·.lan)) : (hopsTree hops).warm d = true := by
  induction hops with
  | nil => rfl
  | cons x hs ih =>
    simp only [List.map_cons, List.mem_cons, not_or] at h
    have : d ∉ (Downs.cons x.downAid x.downMac (.mk x.lan x.stations (hopsTree hs)) .nil).lans := by
      simp only [Downs.lans, NetTree.lans, hopsTree_lans, List.append_nil, List.mem_cons, not_or]
      exact h
    simp only [Downs.lans, List.append_nil] at this
    simp [hopsTree, Routers.warm, Downs.lans, this]

theorem warm_line (d : Nat) (hops : List Hop) : ∀ (P : Nat) (u : Mac) (sIn : Option (Nat × Mac)),
    d ∈ hops.map (·.lan) → (P :: hops.map (·.lan)).Nodup →
    (hopsTree (warmHops d P u sIn hops)).warm d = true := by
  induction hops with
  | nil => intro P u sIn hd; simp at hd
  | cons h hs ih =>
    intro P u sIn hd hnd
    simp only [List.map_cons, List.nodup_cons, List.mem_cons, not_or] at hnd
    obtain ⟨⟨hPh, hPhs⟩, hhhs, hnd2⟩ := hnd
    by_cases hdl : d = h.lan
    · have hw : warmHops d P u sIn (h :: hs) = { h with cache := learnC h.cache (some P) u sIn } :: hs := by
        unfold warmHops; simp [hdl]
      rw [hw]
      have hn : d ∉ hs.map (·.lan) := hdl ▸ hhhs
      simp [hopsTree, Routers.warm, Downs.warm, Downs.lans, NetTree.lans, NetTree.lan, NetTree.warm, hdl,
        warm_notin h.lan hs (hdl ▸ hn)]
    · have hd2 : d ∈ hs.map (·.lan) := by
        simp only [List.map_cons, List.mem_cons] at hd
        exact hd.resolve_left hdl
      cases hs with
      | nil => simp at hd2
      | cons h2 hs2 =>
        have hw : warmHops d P u sIn (h :: h2 :: hs2) =
            { h with cache := (learnC h.cache (some P) u sIn).update (some h.lan) h2.upMac [d],
                     stations := (h.stations.map (Station.learn h.lan h.downMac (some (sIn.getD (P, u))))).map
                        (fun s => if d = h2.lan then s else s.learnD h.lan h2.upMac d) }
              :: warmHops d h.lan h.downMac (some (sIn.getD (P, u))) (h2 :: hs2) := by
          conv => lhs; unfold warmHops
          simp [hdl]
        rw [hw]
        have ih' := ih h.lan h.downMac (some (sIn.getD (P, u))) hd2
          (by simp only [List.nodup_cons]; exact ⟨hhhs, hnd2⟩)
        obtain ⟨h2', tl', hwt, hup2, hlan2⟩ := warmHops_head d h.lan h.downMac (some (sIn.getD (P, u))) h2 hs2
        have hlans : (warmHops d h.lan h.downMac (some (sIn.getD (P, u))) (h2 :: hs2)).map (·.lan) =
            (h2 :: hs2).map (·.lan) := same_lans (warmHops_skel d _ _ _ _)
        have hnh : (hopsTree (warmHops d h.lan h.downMac (some (sIn.getD (P, u))) (h2 :: hs2))).nextHop d =
            some h2.upMac := by
          rw [hwt] at hlans ⊢
          rw [hopsTree_nextHop d h2' tl' (by rw [hlans]; exact hd2), hup2]
        have hdin : d ∈ h.lan :: (hopsTree (warmHops d h.lan h.downMac (some (sIn.getD (P, u))) (h2 :: hs2))).lans := by
          rw [hopsTree_lans, hlans]
          exact List.mem_cons_of_mem _ hd2
        simp only [hopsTree, Routers.warm, Downs.warm, Downs.lans, NetTree.lans, NetTree.lan, NetTree.warm,
          NetTree.routers, List.append_nil, hdin, hnh, allPorts, Downs.ports, List.nil_append,
          List.not_mem_nil, if_false, if_true, Bool.and_true, ih']
        simp [findPath, mkPort, Cache.get_update_same, hdl]

end BacVerif.C06

namespace BacVerif.C06
open BacVerif BacVerif.Route

theorem Station.learn_none (lan : Nat) (u : Mac) (s : Station) : Station.learn lan u none s = s := by
  cases s; rfl

/-- a cold station originates a packet for a network elsewhere: parked, Who-Is-Router broadcast -/
theorem originate_cold (lan0 : Nat) (A : Station) (dd : Dadr) (er : Bool) (prio : Nat) (data : Bytes)
    (hgb : dd ≠ .gb) (hdl : dd.net ≠ lan0) (hA : A.cache.get (A.adapter lan0).net dd.net = none) :
    originate (stationSt lan0 [] A) dd.toAddr er prio data =
      (stationSt lan0 [(dd.net, [rtp (some dd) none none er prio data 255])] A,
       [.send (A.adapter lan0) .bcast (whoIsP none dd.net)]) := by
  have hloc : (stationSt lan0 [] A).node.loc = some (A.adapter lan0) := station_loc lan0 A
  have hnet : (some dd.net == (A.adapter lan0).net) = false := by
    simp only [Station.adapter]
    cases A.knowsNet <;> simp [hdl]
  have hfp : findPath (stationSt lan0 [] A).cache (stationSt lan0 [] A).node.adapters dd.net = none := by
    simp [stationSt, Station.tnode, findPath, hA]
  cases dd with
  | gb => exact absurd rfl hgb
  | rs d m =>
    simp only [Dadr.net] at hnet hfp
    simp only [originate, Dadr.toAddr, hloc, hnet, hfp]
    simp [stationSt, Station.tnode, rtp, pendingAdd, whoIs, whoIsP, Dadr.net]
  | rb d =>
    simp only [Dadr.net] at hnet hfp
    simp only [originate, Dadr.toAddr, hloc, hnet, hfp]
    simp [stationSt, Station.tnode, rtp, pendingAdd, whoIs, whoIsP, Dadr.net]

/-- the asker hears the I-Am-Router: it learns the path and releases the parked packet to the
    announcing router; the other stations of its network learn too if it was a broadcast -/
theorem asker_released (d : Nat) (hd : d < 65536) (lan0 : Nat) (A : Station) (q : Npci) (S0 : List Station)
    (hops : List Hop) (m1 : Mac) (lk : Link)
    (hlk : lk = .to A.mac ∨ lk = .bcast) (hAm : A.mac ≠ m1)
    (hS0 : ∀ s ∈ S0, s.mac ≠ A.mac ∧ s.mac ≠ m1)
    (hhead : ∀ x ∈ hops.head?, x.upMac = m1) (hl : lan0 ∉ hops.map (·.lan)) :
    stepWorld (stationSt lan0 [(d, [q])] A :: unitWorld lan0 S0 hops) ⟨lan0, m1, lk, iAmP d⟩ =
      (stationSt lan0 [] (A.learnD lan0 m1 d) ::
        unitWorld lan0 (S0.map (fun s => if lk = .bcast then s.learnD lan0 m1 d else s)) hops,
       [⟨lan0, A.mac, .to m1, q⟩], []) := by
  have hh : (stationSt lan0 [(d, [q])] A).node.adapters.filter (hears ⟨lan0, m1, lk, iAmP d⟩) = [A.adapter lan0] := by
    rw [station_hears]
    rcases hlk with e | e <;> subst e <;> simp [macOk, Station.adapter, hAm]
  have hA := station_iAm lan0 A [(d, [q])] m1 lk d hd
  have hdeep := stepWorld_deaf (hopsWorld lan0 hops) ⟨lan0, m1, lk, iAmP d⟩
    (hopsWorld_deaf hops lan0 _ hl (fun _ x hx => by
      rcases hlk with e | e
      · exact Or.inr ⟨A.mac, e, by rw [hhead x hx]; exact hAm⟩
      · exact Or.inl ⟨e, (hhead x hx).symm⟩))
  have hS : stepWorld (S0.map (stationSt lan0 [])) ⟨lan0, m1, lk, iAmP d⟩ =
      ((S0.map (fun s => if lk = .bcast then s.learnD lan0 m1 d else s)).map (stationSt lan0 []), [], []) := by
    rcases hlk with e | e
    · subst e
      simp only [reduceCtorEq, if_false, List.map_id']
      exact stepWorld_deaf _ _ (stations_deaf lan0 S0 _ (Or.inr ⟨A.mac, rfl, fun s hs => (hS0 s hs).1⟩))
    · subst e
      simp only [if_true]
      exact stations_iAm lan0 S0 m1 d hd (fun s hs => (hS0 s hs).2)
  rw [stepWorld_cons, stepNode_one _ _ _ hh]
  simp only [stationSt] at hA ⊢
  rw [hA]
  simp only [unitWorld]
  rw [stepWorld_append, hS, hdeep]
  simp [release, pendingTake, originPackets, upsOf, Station.learnD, Station.tnode, Station.adapter, stationSt]
  exact ⟨rfl, rfl, rfl⟩

end BacVerif.C06

namespace BacVerif.C06
open BacVerif BacVerif.Route

/-- the line after the discovery started by station `A` of network `lan0` -/
def warmLine (lan0 : Nat) (A : Station) (S0 : List Station) (h : Hop) (hs : List Hop) (d : Nat) : NetTree :=
  lineTree lan0 (A.learnD lan0 h.upMac d :: S0.map (fun s => if d = h.lan then s else s.learnD lan0 h.upMac d))
    (warmHops d lan0 A.mac none (h :: hs))

/-- **discovery_warms_path** (line of networks, one discovery at a time): from an ALL-COLD line a
    packet for a network `d` behind one or more routers is parked, the Who-Is-Router /
    I-Am-Router exchange settles after finitely many frames, nothing has been handed to any
    application, the internetwork is then exactly `warmLine` (the routers up to the one connected
    to `d`, the stations that overheard the exchange and the asker have learned; nobody else has
    changed), nothing is parked any more and the only frame in flight is the released packet,
    addressed to the first router -/
theorem discovery_line (lan0 : Nat) (A : Station) (S0 : List Station) (h : Hop) (hs : List Hop) (dd : Dadr)
    (er : Bool) (prio : Nat) (data : Bytes)
    (hgb : dd ≠ .gb) (hdin : dd.net ∈ (h :: hs).map (·.lan)) (hd16 : dd.net < 65536)
    (hnd : (lan0 :: (h :: hs).map (·.lan)).Nodup) (hcold : ∀ x ∈ h :: hs, x.cache = [])
    (hA : A.cache.get (A.adapter lan0).net dd.net = none) (hok : lineOk A.mac S0 (h :: hs)) :
    originate (stationSt lan0 [] A) dd.toAddr er prio data =
      (stationSt lan0 [(dd.net, [rtp (some dd) none none er prio data 255])] A,
       [.send (A.adapter lan0) .bcast (whoIsP none dd.net)]) ∧
    ∃ n, runWorld n
        (stationSt lan0 [(dd.net, [rtp (some dd) none none er prio data 255])] A :: unitWorld lan0 S0 (h :: hs))
        [⟨lan0, A.mac, .bcast, whoIsP none dd.net⟩] [] =
      ((warmLine lan0 A S0 h hs dd.net).nodes.map mkSt,
       [⟨lan0, A.mac, .to h.upMac, rtp (some dd) none none er prio data 255⟩], []) := by
  have hnd0 := hnd
  simp only [List.nodup_cons] at hnd0
  have hdl : dd.net ≠ lan0 := fun e => hnd0.1 (e ▸ hdin)
  refine ⟨originate_cold lan0 A dd er prio data hgb hdl hA, ?_⟩
  have hq : quietOn ([stationSt lan0 [(dd.net, [rtp (some dd) none none er prio data 255])] A] ++ [])
      (lan0 :: (h :: hs).map (·.lan)) lan0 A.mac := by
    intro s hsx a ha _
    simp only [List.append_nil, List.mem_singleton] at hsx
    subst hsx
    simp only [stationSt, Station.tnode, List.mem_singleton] at ha
    subst ha
    exact ⟨rfl, rfl⟩
  obtain ⟨n, hrun⟩ := wave dd.net hd16 hs h lan0 A.mac none S0
    [stationSt lan0 [(dd.net, [rtp (some dd) none none er prio data 255])] A] [] hdin hnd hcold
    (fun s0 e => by cases e) hok hq
  have hid : S0.map (Station.learn lan0 A.mac none) = S0 := by
    rw [List.map_congr_left (fun s _ => Station.learn_none lan0 A.mac s)]
    simp
  simp only [List.append_nil, List.singleton_append, hid] at hrun
  obtain ⟨h', tl', hw, hup, _⟩ := warmHops_head dd.net lan0 A.mac none h hs
  have hlans : (warmHops dd.net lan0 A.mac none (h :: hs)).map (·.lan) = (h :: hs).map (·.lan) :=
    same_lans (warmHops_skel dd.net _ _ _ _)
  obtain ⟨hS0, hum, _, _⟩ := hok
  have hrel := asker_released dd.net hd16 lan0 A (rtp (some dd) none none er prio data 255) S0
    (warmHops dd.net lan0 A.mac none (h :: hs)) h.upMac
    (if dd.net = h.lan then Link.to A.mac else Link.bcast)
    (by by_cases e : dd.net = h.lan <;> simp [e]) (Ne.symm hum) hS0
    (by rw [hw]; intro x hx; simp at hx; subst hx; exact hup)
    (by rw [hlans]; exact hnd0.1)
  refine ⟨n + 1, ?_⟩
  rw [runWorld_add n 1, hrun]
  simp only [runWorld_one]
  rw [hrel]
  have hf : (fun s => if (if dd.net = h.lan then Link.to A.mac else Link.bcast) = Link.bcast
        then Station.learnD lan0 h.upMac dd.net s else s) =
      (fun s => if dd.net = h.lan then s else Station.learnD lan0 h.upMac dd.net s) := by
    funext s
    by_cases e : dd.net = h.lan <;> simp [e]
  rw [hf, warmLine, lineTree_world]
  simp [unitWorld]

end BacVerif.C06

namespace BacVerif.C06
open BacVerif BacVerif.Route

theorem hopsTree_stationsOn (d : Nat) (hops : List Hop) (hnd : (hops.map (·.lan)).Nodup)
    (x : Hop) (hx : x ∈ hops) (hxl : x.lan = d) : (hopsTree hops).stationsOn d = x.stations := by
  induction hops with
  | nil => simp at hx
  | cons h hs ih =>
    simp only [List.map_cons, List.nodup_cons] at hnd
    simp only [List.mem_cons] at hx
    have hsub : (NetTree.mk h.lan h.stations (hopsTree hs)).lans = h.lan :: hs.map (·.lan) := by
      simp [NetTree.lans, hopsTree_lans]
    rcases hx with rfl | hx
    · subst hxl
      simp [hopsTree, Routers.stationsOn, Downs.stationsOn, Downs.lans, NetTree.stationsOn, hsub]
    · have hdin : d ∈ hs.map (·.lan) := hxl ▸ List.mem_map_of_mem hx
      have hne : d ≠ h.lan := fun e => hnd.1 (e ▸ hdin)
      simp [hopsTree, Routers.stationsOn, Downs.stationsOn, Downs.lans, NetTree.stationsOn, hsub, hdin, hne,
        ih hnd.2 hx]

theorem skel_mem {a b : List Hop} (h : a.map Hop.skel = b.map Hop.skel) (x : Hop) (hx : x ∈ b) :
    ∃ x' ∈ a, x'.skel = x.skel := by
  have : x.skel ∈ a.map Hop.skel := h ▸ List.mem_map_of_mem hx
  obtain ⟨x', hx', e⟩ := List.mem_map.mp this
  exact ⟨x', hx', e⟩

theorem skel_station {x x' : Hop} (h : x'.skel = x.skel) : x'.lan = x.lan ∧
    x'.stations.map (·.mac) = x.stations.map (·.mac) := by
  have h1 : x'.skel.lan = x.skel.lan := by rw [h]
  have h2 : x'.skel.stations = x.skel.stations := by rw [h]
  refine ⟨h1, ?_⟩
  simp only [Hop.skel] at h2
  have := congrArg (List.map (·.mac)) h2
  have hm : (fun x : Station => x.mac) ∘ Station.skel = fun x => x.mac := by
    funext x; rfl
  simpa [List.map_map, hm] using this

/-- the hypotheses of the warm theorems hold on the line the discovery leaves behind -/
theorem cold_line_routed (lan0 : Nat) (A : Station) (S0 : List Station) (h : Hop) (hs : List Hop) (dd : Dadr)
    (er : Bool) (prio : Nat) (data : Bytes)
    (hgb : dd ≠ .gb) (hdin : dd.net ∈ (h :: hs).map (·.lan))
    (hnd : (lan0 :: (h :: hs).map (·.lan)).Nodup)
    (hwf : (lineTree lan0 (A :: S0) (h :: hs)).wf [] = true) (hlen : (h :: hs).length ≤ 255)
    (htgt : ∀ m, dd = .rs dd.net m → ∃ x ∈ h :: hs, x.lan = dd.net ∧ m ∈ x.stations.map (·.mac)) :
    deliverAll (warmLine lan0 A S0 h hs dd.net).nodes
        ⟨lan0, A.mac, .to h.upMac, rtp (some dd) none none er prio data 255⟩ =
      rtExpect dd.net (lastLeg dd) (lan0, A.mac) er prio data ((warmLine lan0 A S0 h hs dd.net).stationsOn dd.net) := by
  have hskel := warmHops_skel dd.net (h :: hs) lan0 A.mac none
  have hlans : (warmHops dd.net lan0 A.mac none (h :: hs)).map (·.lan) = (h :: hs).map (·.lan) := same_lans hskel
  obtain ⟨h', tl', hw, hup, _⟩ := warmHops_head dd.net lan0 A.mac none h hs
  have hnd0 := hnd
  simp only [List.nodup_cons] at hnd0
  have hdl : dd.net ≠ lan0 := fun e => hnd0.1 (e ▸ hdin)
  have hT : (warmLine lan0 A S0 h hs dd.net).lan = lan0 := rfl
  have hlen' : (warmHops dd.net lan0 A.mac none (h :: hs)).length = (h :: hs).length := by
    have := congrArg List.length hskel
    simpa using this
  have hnh : (warmLine lan0 A S0 h hs dd.net).routers.nextHop dd.net = some h.upMac := by
    simp only [warmLine, lineTree, NetTree.routers]
    rw [hw] at hlans ⊢
    rw [hopsTree_nextHop dd.net h' tl' (by rw [hlans]; exact hdin), hup]
  have hoc : (A.learnD lan0 h.upMac dd.net).cache.get ((A.learnD lan0 h.upMac dd.net).adapter lan0).net dd.net =
      some h.upMac := by
    simp only [Station.learnD, Station.adapter]
    exact Cache.get_update_same _ _ _ _
  have := tree_routed (warmLine lan0 A S0 h hs dd.net) (A.learnD lan0 h.upMac dd.net) dd h.upMac er prio data
    (by simp [warmLine, lineTree, NetTree.stations])
    (by simp only [warmLine, lineTree, NetTree.lans, hopsTree_lans, hlans]; exact hnd)
    (by
      rw [warmLine, lineTree_wf_skel lan0 (A :: S0) _ (h :: hs) _ [] ?_ hskel]
      · exact hwf
      · simp only [List.map_cons, List.map_map]
        congr 1
        apply List.map_congr_left
        intro s _
        simp only [Function.comp]
        split <;> simp [Station.learnD])
    (by simp only [warmLine, lineTree, NetTree.height, hopsTree_height, hlen']; exact hlen)
    hgb
    (by simp only [warmLine, lineTree, NetTree.routers, hopsTree_lans, hlans]; exact hdin)
    hnh hoc
    (by
      simp only [warmLine, lineTree, NetTree.warm]
      exact warm_line dd.net (h :: hs) lan0 A.mac none hdin hnd)
    (by
      intro m hm
      obtain ⟨x, hx, hxl, hmx⟩ := htgt m hm
      obtain ⟨x', hx', hsk⟩ := skel_mem hskel x hx
      obtain ⟨hl', hst'⟩ := skel_station hsk
      have hso : (warmLine lan0 A S0 h hs dd.net).stationsOn dd.net = x'.stations := by
        simp only [warmLine, lineTree, NetTree.stationsOn, hdl, if_false]
        exact hopsTree_stationsOn dd.net _ (by rw [hlans]; exact hnd0.2) x' hx' (hl'.trans hxl)
      rw [hso]
      rw [← hst'] at hmx
      obtain ⟨t, ht, rfl⟩ := List.mem_map.mp hmx
      exact ⟨t, ht, rfl⟩)
  unfold routedDeliveries at this
  rw [hT, originate_routed lan0 _ dd h.upMac er prio data hgb hdl hoc] at this
  simpa [Station.learnD] using this

end BacVerif.C06

namespace BacVerif.C06
open BacVerif BacVerif.Route

theorem wf_lineOk (hops : List Hop) : ∀ (lan : Nat) (u : Mac) (S : List Station),
    (NetTree.mk lan S (hopsTree hops)).wf [u] = true → lineOk u S hops := by
  induction hops with
  | nil =>
    intro lan u S hwf
    simp only [NetTree.wf, Bool.and_eq_true, decide_eq_true_eq] at hwf
    obtain ⟨h1, _⟩ := macs_facts [u] S _ hwf.1
    exact fun s hs => h1 u (by simp) s hs
  | cons h hs ih =>
    intro lan u S hwf
    simp only [NetTree.wf, Bool.and_eq_true, decide_eq_true_eq] at hwf
    obtain ⟨h1, h2, _, _, h5⟩ := macs_facts [u] S _ hwf.1
    have hr := hwf.2
    simp only [hopsTree, Routers.wf, Downs.wf, Downs.aids, Bool.and_eq_true, decide_eq_true_eq,
      List.nil_append, List.nodup_cons, List.mem_singleton, List.contains_iff_mem, List.mem_cons,
      List.not_mem_nil, or_false] at hr
    obtain ⟨⟨⟨⟨⟨hne, _⟩, hla⟩, _⟩, hsub, _⟩, _⟩ := hr
    have hup : (hopsTree (h :: hs)).upMacs = [h.upMac] := by simp [hopsTree_upMacs]
    rw [hup] at h2 h5
    refine ⟨fun s hs' => ⟨h1 u (by simp) s hs', fun e => h5 s hs' (by simp [e])⟩,
      fun e => h2 u (by simp) (by simp [e]), ⟨hne, hla⟩, ih h.lan h.downMac h.stations hsub⟩

theorem wf_lineOk_top (lan0 : Nat) (A : Station) (S0 : List Station) (hops : List Hop)
    (hwf : (lineTree lan0 (A :: S0) hops).wf [] = true) : lineOk A.mac S0 hops := by
  apply wf_lineOk hops lan0 A.mac S0
  simpa [lineTree, NetTree.wf] using hwf

end BacVerif.C06
