/-
  Lemmas.RouterCacheRenumber — update_source_network on a coherent cache.
-/
import BacVerif.Lemmas.RouterCacheUpdate
namespace BacVerif.RouterCache
variable {α : Type} [DecidableEq α]

omit [DecidableEq α] in
theorem dropPathsOf_spec (old : Net) (L : List (Nat × Nat)) :
    ∀ (p : List ((Net × Nat) × α)),
      L.Pairwise (fun x y => x.1 ≠ y.1) →
      (∀ x ∈ L, has (old, x.1) p = true) →
      ∃ p', dropPathsOf old L p = .ok p' ∧
        ∀ k, aget k p' = if k.1 = old ∧ k.2 ∈ L.map (·.1) then none else aget k p := by
  induction L with
  | nil => intro p _ _; exact ⟨p, rfl, by simp⟩
  | cons h t ih =>
    intro p hpw hall
    obtain ⟨d, st⟩ := h
    obtain ⟨hd, hpw'⟩ := List.pairwise_cons.mp hpw
    unfold dropPathsOf
    have h0 := hall (d, st) List.mem_cons_self
    simp only at h0
    simp only [h0, ↓reduceIte]
    have hall' : ∀ x ∈ t, has (old, x.1) (adel (old, d) p) = true := by
      intro x hx
      rw [has_adel]
      have hne : d ≠ x.1 := hd x hx
      have := hall x (List.mem_cons_of_mem _ hx)
      simp only [Prod.mk.injEq, true_and, Bool.and_eq_true, Bool.not_eq_eq_eq_not, Bool.not_true,
        decide_eq_false_iff_not, this, and_true]
      exact fun e => hne e.symm
    obtain ⟨p', e, hp'⟩ := ih (adel (old, d) p) hpw' hall'
    refine ⟨p', e, ?_⟩
    intro k
    rw [hp', aget_adel]
    obtain ⟨ks, kd⟩ := k
    by_cases e0 : ks = old
    · subst e0
      by_cases e1 : kd = d
      · subst e1; simp
      · split <;> split <;> simp_all
    · simp [e0]

omit [DecidableEq α] in
theorem dropPaths_spec (old : Net) (RL : List (α × RouterInfo)) :
    ∀ (p : List ((Net × Nat) × α)),
      RL.Pairwise (fun x y => ∀ d, has d x.2.dnets = true → has d y.2.dnets = false) →
      (∀ x ∈ RL, ∀ d, has d x.2.dnets = true → has (old, d) p = true) →
      ∃ p', dropPaths old RL p = .ok p' ∧
        ∀ k, aget k p' =
          if k.1 = old ∧ (∃ x ∈ RL, has k.2 x.2.dnets = true) then none else aget k p := by
  induction RL with
  | nil => intro p _ _; exact ⟨p, rfl, by simp⟩
  | cons h t ih =>
    intro p hpw hall
    obtain ⟨a, ri⟩ := h
    obtain ⟨hd, hpw'⟩ := List.pairwise_cons.mp hpw
    unfold dropPaths
    have hL : ∀ x ∈ items ri.dnets, has (old, x.1) p = true := by
      intro x hx
      apply hall (a, ri) List.mem_cons_self x.1
      rw [← mem_keys_items]
      exact List.mem_map.mpr ⟨x, hx, rfl⟩
    obtain ⟨p1, e1, hp1⟩ := dropPathsOf_spec old (items ri.dnets) p (items_pairwise _) hL
    simp only [e1]
    simp only [mem_keys_items] at hp1
    have hall' : ∀ x ∈ t, ∀ d, has d x.2.dnets = true → has (old, d) p1 = true := by
      intro x hx d hdx
      have h1 := hall x (List.mem_cons_of_mem _ hx) d hdx
      have h2 : has d ri.dnets = false := by
        cases hh : has d ri.dnets with
        | false => rfl
        | true =>
          have := hd x hx d hh
          rw [hdx] at this; cases this
      unfold has at h1 ⊢
      rw [hp1]
      simp only [h2, Bool.false_eq_true, and_false, ↓reduceIte]
      exact h1
    obtain ⟨p2, e2, hp2⟩ := ih p1 hpw' hall'
    refine ⟨p2, e2, ?_⟩
    intro k
    rw [hp2, hp1]
    obtain ⟨ks, kd⟩ := k
    by_cases e0 : ks = old
    · subst e0
      by_cases e1 : has kd ri.dnets = true
      · simp [e1]
      · have hiff : (∃ x ∈ (a, ri) :: t, has kd x.2.dnets = true) ↔ (∃ x ∈ t, has kd x.2.dnets = true) := by
          constructor
          · rintro ⟨x, hx, hk⟩
            rcases List.mem_cons.mp hx with rfl | hx'
            · exact absurd hk e1
            · exact ⟨x, hx', hk⟩
          · rintro ⟨x, hx, hk⟩
            exact ⟨x, List.mem_cons_of_mem _ hx, hk⟩
        simp only [hiff]; simp [e1]
    · simp [e0]

theorem relearnOne_spec (new : Net) (a : α) (L : List (Nat × Nat)) :
    ∀ (c : Cache α), Coherent c →
      ∃ c', relearnOne new a L c = .ok c' ∧ Coherent c' ∧
        ∀ s' d', pget c' s' d' =
          if s' = new ∧ d' ∈ L.map (·.1) then some a else pget c s' d' := by
  induction L with
  | nil => intro c hc; exact ⟨c, rfl, hc, by simp⟩
  | cons h t ih =>
    intro c hc
    obtain ⟨d, st⟩ := h
    unfold relearnOne
    obtain ⟨c1, e1, hc1, hP1⟩ := update_spec c new a [d] st hc
    simp only [e1]
    obtain ⟨c2, e2, hc2, hP2⟩ := ih c1 hc1
    refine ⟨c2, e2, hc2, ?_⟩
    intro s' d'
    rw [hP2, hP1]
    by_cases e0 : s' = new
    · subst e0
      by_cases e1 : d' = d
      · subst e1; simp
      · split <;> split <;> simp_all
    · simp [e0]

theorem relearn_spec (new : Net) (RL : List (α × RouterInfo)) :
    ∀ (c : Cache α), Coherent c →
      RL.Pairwise (fun x y => ∀ d, has d x.2.dnets = true → has d y.2.dnets = false) →
      ∃ c', relearn new RL c = .ok c' ∧ Coherent c' ∧
        (∀ s' d', s' ≠ new → pget c' s' d' = pget c s' d') ∧
        (∀ d', (∀ x ∈ RL, has d' x.2.dnets = false) → pget c' new d' = pget c new d') ∧
        (∀ x ∈ RL, ∀ d', has d' x.2.dnets = true → pget c' new d' = some x.1) := by
  induction RL with
  | nil => intro c hc _; exact ⟨c, rfl, hc, by simp, by simp, by simp⟩
  | cons h t ih =>
    intro c hc hpw
    obtain ⟨a, ri⟩ := h
    obtain ⟨hd, hpw'⟩ := List.pairwise_cons.mp hpw
    unfold relearn
    obtain ⟨c1, e1, hc1, hP1⟩ := relearnOne_spec new a (items ri.dnets) c hc
    simp only [e1]
    simp only [mem_keys_items] at hP1
    obtain ⟨c2, e2, hc2, hA, hB, hC⟩ := ih c1 hc1 hpw'
    refine ⟨c2, e2, hc2, ?_, ?_, ?_⟩
    · intro s' d' hne
      rw [hA s' d' hne, hP1]; simp [hne]
    · intro d' hall
      have h1 : ∀ x ∈ t, has d' x.2.dnets = false := fun x hx => hall x (List.mem_cons_of_mem _ hx)
      have h2 : has d' ri.dnets = false := hall (a, ri) List.mem_cons_self
      rw [hB d' h1, hP1]; simp [h2]
    · intro x hx d' hdx
      rcases List.mem_cons.mp hx with rfl | hx'
      · have h1 : ∀ y ∈ t, has d' y.2.dnets = false := fun y hy => hd y hy d' hdx
        rw [hB d' h1, hP1]; simp [hdx]
      · exact hC x hx' d' hdx

/-- `update_source_network` on a coherent cache -/
theorem renumber_spec (c : Cache α) (old new : Net) (hc : Coherent c) :
    ∃ c', updateSourceNetwork c old new = .ok c' ∧ Coherent c' ∧
      ∀ s' d', pget c' s' d' = renumberMap (pget c) old new s' d' := by
  simp only [renumberMap]
  unfold updateSourceNetwork
  cases hrs : aget old c.routers with
  | none =>
    -- nothing is known on `old`: by coherence the path table has no entry for it either
    refine ⟨c, rfl, hc, ?_⟩
    intro s' d'
    have hno : ∀ d, pget c old d = none := by
      intro d
      cases hp : pget c old d with
      | none => rfl
      | some a =>
        obtain ⟨ri, hri, _⟩ := (hc old d a).mp hp
        simp [rget, hrs] at hri
    by_cases e : old = new
    · simp [e]
    · simp only [e, ↓reduceIte, hno]
      by_cases e1 : s' = old
      · subst e1; simp [hno]
      · by_cases e2 : s' = new
        · subst e2; simp [e1]
        · simp [e1, e2]
  | some rs =>
    simp only
    by_cases e : old = new
    · simp only [e, ↓reduceIte]; exact ⟨c, rfl, hc, fun _ _ => rfl⟩
    · simp only [e, ↓reduceIte]
      -- routers of `old`, as enumerated
      have hmem : ∀ x ∈ items rs, rget c old x.1 = some x.2 := by
        intro x hx
        have := (mem_items x.1 x.2 rs).mp hx
        simp [rget, hrs, this]
      have hcredits : ∀ a d, Credits c old a d ↔ ∃ x ∈ items rs, x.1 = a ∧ has d x.2.dnets = true := by
        intro a d
        constructor
        · rintro ⟨ri, hri, hd⟩
          simp only [rget, hrs] at hri
          exact ⟨(a, ri), (mem_items a ri rs).mpr hri, rfl, hd⟩
        · rintro ⟨x, hx, rfl, hd⟩
          exact ⟨x.2, hmem x hx, hd⟩
      have hpw : (items rs).Pairwise
          (fun x y => ∀ d, has d x.2.dnets = true → has d y.2.dnets = false) := by
        refine List.Pairwise.imp_of_mem ?_ (items_pairwise rs)
        intro x y hx hy hne d hdx
        cases hh : has d y.2.dnets with
        | false => rfl
        | true =>
          have h1 : Credits c old x.1 d := ⟨x.2, hmem x hx, hdx⟩
          have h2 : Credits c old y.1 d := ⟨y.2, hmem y hy, hh⟩
          exact absurd (hc.unique h1 h2) hne
      have hpre : ∀ x ∈ items rs, ∀ d, has d x.2.dnets = true → has (old, d) c.pathInfo = true := by
        intro x hx d hd
        have := (hc old d x.1).mpr ⟨x.2, hmem x hx, hd⟩
        simp only [pget] at this
        simp [has, this]
      obtain ⟨p, ep, hp⟩ := dropPaths_spec old (items rs) c.pathInfo hpw hpre
      simp only [ep]
      -- the cache after forgetting `old` altogether
      have hex : ∀ d, (∃ x ∈ items rs, has d x.2.dnets = true) ↔ (pget c old d).isSome = true := by
        intro d
        constructor
        · rintro ⟨x, hx, hd⟩
          have := (hc old d x.1).mpr ⟨x.2, hmem x hx, hd⟩
          simp [this]
        · intro h
          obtain ⟨a, ha⟩ := Option.isSome_iff_exists.mp h
          obtain ⟨x, hx, _, hd⟩ := (hcredits a d).mp ((hc old d a).mp ha)
          exact ⟨x, hx, hd⟩
      have hP0 : ∀ s' d', aget (s', d') p = if s' = old then none else pget c s' d' := by
        intro s' d'
        rw [hp]
        by_cases e0 : s' = old
        · subst e0
          simp only [true_and, hex, ↓reduceIte]
          cases h : pget c s' d' with
          | none => simp only [pget] at h; simp [h]
          | some a => simp
        · simp [e0, pget]
      have hR0 : ∀ s' a', rget ({ routers := adel old c.routers, pathInfo := p } : Cache α) s' a' =
          if s' = old then none else rget c s' a' := by
        intro s' a'
        simp only [rget, aget_adel]
        by_cases e0 : s' = old <;> simp [e0]
      have hc0 : Coherent ({ routers := adel old c.routers, pathInfo := p } : Cache α) := by
        intro s' d' a'
        unfold Credits
        rw [hR0]
        show aget (s', d') p = some a' ↔ _
        rw [hP0]
        by_cases e0 : s' = old
        · simp [e0]
        · simp only [e0, ↓reduceIte]
          exact hc s' d' a'
      obtain ⟨c2, e2, hc2, hA, hB, hC⟩ := relearn_spec new (items rs) _ hc0 hpw
      refine ⟨c2, e2, hc2, ?_⟩
      intro s' d'
      by_cases e1 : s' = new
      · subst e1
        have e3 : ¬ s' = old := fun h => e h.symm
        simp only [e3, ↓reduceIte]
        cases hpo : pget c old d' with
        | none =>
          have hnone : ∀ x ∈ items rs, has d' x.2.dnets = false := by
            intro x hx
            cases hh : has d' x.2.dnets with
            | false => rfl
            | true =>
              have := (hex d').mp ⟨x, hx, hh⟩
              rw [hpo] at this; cases this
          rw [hB d' hnone]
          show aget (s', d') p = _
          rw [hP0]; simp [e3]
        | some a =>
          obtain ⟨x, hx, rfl, hd⟩ := (hcredits a d').mp ((hc old d' a).mp hpo)
          rw [hC x hx d' hd]
      · rw [hA s' d' e1]
        show aget (s', d') p = _
        rw [hP0]
        by_cases e0 : s' = old <;> simp [e0, e1]

end BacVerif.RouterCache
