/-
  Lemmas.TsmSsm — per-handler facts about one state machine:
  * what a handler leaves behind satisfies the per-transaction invariant
    (`ClientOk` / `ServerOk`: non-terminal state of the right side, timer
    armed, segmentation context consistent with the key);
  * everything a handler emits names the handler's own key (`Out.attr`).
-/
import BacVerif.Model.Tsm
namespace BacVerif.Tsm
set_option linter.unusedSimpArgs false

/-- split every `if`/`match` of hypothesis `h`, looking through `let`s -/
macro "hsplit" h:ident : tactic =>
  `(tactic| repeat' (first | split at $h:ident | (dsimp only at $h:ident; split at $h:ident)))

/-- the same for the goal -/
macro "gsplit" : tactic =>
  `(tactic| repeat' (first | split | (dsimp only; split)))

/-- the three timeouts are non-zero (`set_state(..., timer)` arms nothing for 0) -/
structure Cfg.TimeoutsPos (cfg : Cfg) : Prop where
  apdu : cfg.apduTimeout ≠ 0
  seg : cfg.segTimeout ≠ 0
  app : cfg.appTimeout ≠ 0

/-- output `o` is attributed to the transaction key `k`: it goes to / comes
    from that peer and carries that invoke ID -/
def Out.attr (k : Key) : Out → Prop
  | .send p a => p = k.peer ∧ a.invokeId = k.id
  | .indicate p a => p = k.peer ∧ a.invokeId = k.id
  | .confirm p a => p = k.peer ∧ a.invokeId = k.id
  | .confirmAnon _ _ => True
  | .raised _ => True

/-- the segmentation context (if any) carries the transaction's invoke ID -/
def CtxOk (k : Key) (b : Body) : Prop := ∀ c, b.ctx = some c → c.invokeId = k.id

def ClientSt (b : Body) : Prop := b.st = .segReq ∨ b.st = .awaitConf ∨ b.st = .segConf
def ServerSt (b : Body) : Prop := b.st = .segReq ∨ b.st = .awaitResp ∨ b.st = .segResp

/-- invariant of a listed client transaction: client state, timer armed,
    context present and consistent with the key -/
def ClientOk (k : Key) (b : Body) : Prop :=
  ClientSt b ∧ b.timer.isSome = true ∧ ∃ c, b.ctx = some c ∧ c.invokeId = k.id

/-- invariant of a listed server transaction -/
def ServerOk (k : Key) (b : Body) : Prop :=
  ServerSt b ∧ b.timer.isSome = true ∧ CtxOk k b

theorem ClientOk.ctxOk {k : Key} {b : Body} (h : ClientOk k b) : CtxOk k b := by
  intro c hc
  rcases h.2.2 with ⟨c', h1, h2⟩
  rw [h1] at hc; cases hc; exact h2

theorem arm_isSome (now ms : Nat) : (arm now ms).isSome = true := rfl

theorem stateTimer_isSome {now ms : Nat} (h : ms ≠ 0) : (stateTimer now ms).isSome = true := by
  simp [stateTimer, h, arm]

/-! ### segments carry the key's invoke ID -/

theorem segHeader_id {cfg : Cfg} {k : Key} {b : Body} {c hdr : Apdu}
    (hid : c.invokeId = k.id) (h : segHeader cfg k b c = .ok hdr) : hdr.invokeId = k.id := by
  unfold segHeader at h
  split at h
  · split at h
    · cases h
    · split at h
      · cases h
      · injection h with h; subst h; rfl
  · split at h
    · injection h with h; subst h; exact hid
    · cases h

theorem segFlags_id (cfg : Cfg) (b : Body) (i w : Nat) (hdr : Apdu) :
    (segFlags cfg b i w hdr).invokeId = hdr.invokeId := by
  unfold segFlags; split <;> rfl

theorem getSegment_id {cfg : Cfg} {k : Key} {b : Body} {i w : Nat} {seg : Apdu}
    (hc : CtxOk k b) (h : getSegment cfg k b i w = .ok seg) : seg.invokeId = k.id := by
  unfold getSegment at h
  split at h
  · cases h
  · rename_i c hctx
    split at h
    · cases h
    · split at h
      · cases h
      · rename_i hdr hh
        injection h with h
        subst h
        simp only [segFlags_id]
        exact segHeader_id (hc c hctx) hh

theorem fillLoop_id {cfg : Cfg} {k : Key} {b : Body} {w : Nat} (hc : CtxOk k b) :
    ∀ (n idx : Nat) (seg : Apdu), seg ∈ (fillLoop cfg k b w n idx).sent → seg.invokeId = k.id := by
  intro n
  induction n with
  | zero => intro idx seg h; simp [fillLoop] at h
  | succ n ih =>
    intro idx seg h
    simp only [fillLoop] at h
    split at h
    · simp at h
    · rename_i s hs
      split at h
      · simp at h; subst h; exact getSegment_id hc hs
      · simp only [List.mem_cons] at h
        rcases h with h | h
        · subst h; exact getSegment_id hc hs
        · exact ih _ _ h

theorem fillWindow_id {cfg : Cfg} {k : Key} {b : Body} {start : Nat} (hc : CtxOk k b) :
    ∀ seg ∈ (fillWindow cfg k b start).sent, seg.invokeId = k.id := by
  intro seg h
  unfold fillWindow at h
  split at h
  · simp at h
  · exact fillLoop_id hc _ _ _ h

theorem sends_attr {k : Key} {l : List Apdu} (h : ∀ seg ∈ l, seg.invokeId = k.id) :
    ∀ o ∈ sends k.peer l, o.attr k := by
  intro o ho
  simp only [sends, List.mem_map] at ho
  rcases ho with ⟨a, ha, rfl⟩
  exact ⟨rfl, h a ha⟩

theorem raisedOf_attr (k : Key) (r : Option Raise) : ∀ o ∈ raisedOf r, o.attr k := by
  intro o ho
  cases r <;> simp [raisedOf] at ho
  subst ho; trivial


/-! ### attribution of output lists -/

/-- every output of the list names key `k` -/
def AllAttr (k : Key) (outs : List Out) : Prop := ∀ o ∈ outs, o.attr k

@[simp] theorem AllAttr_nil (k : Key) : AllAttr k [] := by intro o ho; cases ho
@[simp] theorem AllAttr_cons (k : Key) (o : Out) (os : List Out) :
    AllAttr k (o :: os) ↔ o.attr k ∧ AllAttr k os := by
  simp [AllAttr]
@[simp] theorem AllAttr_append (k : Key) (l1 l2 : List Out) :
    AllAttr k (l1 ++ l2) ↔ AllAttr k l1 ∧ AllAttr k l2 := by
  simp only [AllAttr, List.mem_append]
  constructor
  · intro h; exact ⟨fun o ho => h o (Or.inl ho), fun o ho => h o (Or.inr ho)⟩
  · rintro ⟨h1, h2⟩ o (ho | ho)
    · exact h1 o ho
    · exact h2 o ho
@[simp] theorem AllAttr_raisedOf (k : Key) (r : Option Raise) : AllAttr k (raisedOf r) :=
  raisedOf_attr k r
@[simp] theorem attr_send (k : Key) (p : Peer) (a : Apdu) :
    (Out.send p a).attr k ↔ p = k.peer ∧ a.invokeId = k.id := Iff.rfl
@[simp] theorem attr_indicate (k : Key) (p : Peer) (a : Apdu) :
    (Out.indicate p a).attr k ↔ p = k.peer ∧ a.invokeId = k.id := Iff.rfl
@[simp] theorem attr_confirm (k : Key) (p : Peer) (a : Apdu) :
    (Out.confirm p a).attr k ↔ p = k.peer ∧ a.invokeId = k.id := Iff.rfl
@[simp] theorem attr_raised (k : Key) (r : Raise) : (Out.raised r).attr k := trivial
@[simp] theorem attr_confirmAnon (k : Key) (c e : Nat) : (Out.confirmAnon c e).attr k := trivial
@[simp] theorem mkAbort_id (srv : Bool) (i r : Nat) : (mkAbort srv i r).invokeId = i := rfl
@[simp] theorem mkSegAck_id (n srv : Bool) (i s w : Nat) : (mkSegAck n srv i s w).invokeId = i := rfl

theorem AllAttr_fill {cfg : Cfg} {k : Key} {b : Body} {start : Nat} (hc : CtxOk k b) :
    AllAttr k (sends k.peer (fillWindow cfg k b start).sent) :=
  sends_attr (fillWindow_id hc)

theorem seg_timeout4 {cfg : Cfg} (hpos : cfg.TimeoutsPos) : cfg.segTimeout * 4 ≠ 0 := by
  have := hpos.seg; omega

/-! ### ClientSSM -/

theorem clientIndication_ok {cfg : Cfg} {now : Nat} {di : Option DeviceInfo} {k : Key} {b b' : Body}
    {req : Apdu} {outs : List Out} (hpos : cfg.TimeoutsPos) (hid : req.invokeId = k.id)
    (h : clientIndication cfg now di k b req = (some b', outs)) : ClientOk k b' := by
  unfold clientIndication at h
  simp only [clientAbortApp] at h
  hsplit h
  all_goals first
    | (simp only [Prod.mk.injEq, reduceCtorEq, false_and] at h; done)
    | (simp only [Prod.mk.injEq, Option.some.injEq] at h
       obtain ⟨rfl, _⟩ := h
       simp [ClientOk, ClientSt, stateTimer, arm, hpos.apdu, hpos.seg, hid])

theorem clientIndication_attr {cfg : Cfg} {now : Nat} {di : Option DeviceInfo} {k : Key} {b : Body}
    {req : Apdu} (hid : req.invokeId = k.id) :
    AllAttr k (clientIndication cfg now di k b req).2 := by
  unfold clientIndication
  simp only [clientAbortApp]
  gsplit
  all_goals (try simp)
  all_goals
    refine getSegment_id (cfg := cfg) (i := 0) (w := 0) ?_ (by assumption)
    intro c hc
    split at hc <;> (cases hc; exact hid)

theorem clientIndication_attr' {cfg : Cfg} {now : Nat} {di : Option DeviceInfo} {k : Key} {b : Body}
    {req : Apdu} {x : Option Body} {outs : List Out}
    (h : clientIndication cfg now di k b req = (x, outs)) (hid : req.invokeId = k.id) :
    AllAttr k outs := by
  have := clientIndication_attr (cfg := cfg) (now := now) (di := di) (b := b) hid
  rw [h] at this
  exact this

theorem clientConfirmation_ok {cfg : Cfg} {now : Nat} {k : Key} {b b' : Body}
    {a : Apdu} {outs : List Out} (hpos : cfg.TimeoutsPos) (hok : ClientOk k b)
    (hid : a.invokeId = k.id)
    (h : clientConfirmation cfg now k b a = (some b', outs)) : ClientOk k b' := by
  obtain ⟨hst, htm, c, hc, hcid⟩ := hok
  have h4 := seg_timeout4 hpos
  unfold clientConfirmation at h
  split at h
  · unfold clientSegmentedRequest at h
    simp only [clientAbortBoth] at h
    hsplit h
    all_goals first
      | (simp only [Prod.mk.injEq, reduceCtorEq, false_and] at h; done)
      | (simp only [Prod.mk.injEq, Option.some.injEq] at h
         obtain ⟨rfl, _⟩ := h
         simp_all [ClientOk, ClientSt, stateTimer, arm, hpos.apdu, hpos.seg])
  · unfold clientAwaitConfirmation at h
    simp only [clientAbortBoth, clientAbortApp] at h
    hsplit h
    all_goals first
      | (simp only [Prod.mk.injEq, reduceCtorEq, false_and] at h; done)
      | (simp only [Prod.mk.injEq, Option.some.injEq] at h
         obtain ⟨rfl, _⟩ := h
         simp_all [ClientOk, ClientSt, stateTimer, arm, hpos.apdu, hpos.seg])
  · unfold clientSegmentedConfirmation at h
    simp only [clientAbortBoth] at h
    hsplit h
    all_goals first
      | (simp only [Prod.mk.injEq, reduceCtorEq, false_and] at h; done)
      | (simp only [Prod.mk.injEq, Option.some.injEq] at h
         obtain ⟨rfl, _⟩ := h
         simp_all [ClientOk, ClientSt, stateTimer, arm, hpos.apdu, hpos.seg])
  · simp only [Prod.mk.injEq, Option.some.injEq] at h
    obtain ⟨rfl, _⟩ := h
    exact ⟨hst, htm, c, hc, hcid⟩

theorem clientConfirmation_attr {cfg : Cfg} {now : Nat} {k : Key} {b : Body} {a : Apdu}
    (hok : ClientOk k b) (hid : a.invokeId = k.id) :
    AllAttr k (clientConfirmation cfg now k b a).2 := by
  have hctx := hok.ctxOk
  obtain ⟨hst, htm, c, hc, hcid⟩ := hok
  unfold clientConfirmation
  split
  · unfold clientSegmentedRequest
    simp only [clientAbortBoth]
    gsplit
    all_goals (try simp [hid])
    all_goals
      apply AllAttr_fill
      intro c' hc'
      simp only at hc'
      exact hctx c' hc'
  · unfold clientAwaitConfirmation
    simp only [clientAbortBoth, clientAbortApp]
    gsplit
    all_goals (simp [hid])
  · unfold clientSegmentedConfirmation
    simp only [clientAbortBoth]
    gsplit
    all_goals (try simp [hid])
    all_goals simp_all
  · simp


theorem clientTimeout_ok {cfg : Cfg} {now : Nat} {di : Option DeviceInfo} {k : Key} {b b' : Body}
    {outs : List Out} (hpos : cfg.TimeoutsPos) (hst : ClientSt b)
    (hctx : ∃ c, b.ctx = some c ∧ c.invokeId = k.id)
    (h : clientTimeout cfg now di k b = (some b', outs)) : ClientOk k b' := by
  obtain ⟨c, hc, hcid⟩ := hctx
  unfold clientTimeout at h
  simp only [clientAbortApp] at h
  split at h
  · -- SEGMENTED_REQUEST
    hsplit h
    all_goals first
      | (simp only [Prod.mk.injEq, reduceCtorEq, false_and] at h; done)
      | (simp only [Prod.mk.injEq, Option.some.injEq] at h
         obtain ⟨rfl, _⟩ := h
         simp_all [ClientOk, ClientSt, arm])
  · -- AWAIT_CONFIRMATION
    split at h
    · rw [hc] at h
      simp only at h
      split at h
      · rename_i b1 outs1 hind
        have hok1 := clientIndication_ok hpos hcid hind
        split at h
        all_goals
          simp only [Prod.mk.injEq, Option.some.injEq] at h
          obtain ⟨rfl, _⟩ := h
        · exact hok1
        · exact ⟨hok1.1, hok1.2.1, hok1.2.2⟩
      · simp only [Prod.mk.injEq, reduceCtorEq, false_and] at h
    · simp only [Prod.mk.injEq, reduceCtorEq, false_and] at h
  · simp only [Prod.mk.injEq, reduceCtorEq, false_and] at h
  · rename_i hne1 hne2 hne3
    rcases hst with h1 | h1 | h1
    · exact absurd h1 hne1
    · exact absurd h1 hne2
    · exact absurd h1 hne3

theorem clientTimeout_attr {cfg : Cfg} {now : Nat} {di : Option DeviceInfo} {k : Key} {b : Body}
    (hctx : ∃ c, b.ctx = some c ∧ c.invokeId = k.id) :
    AllAttr k (clientTimeout cfg now di k b).2 := by
  obtain ⟨c, hc, hcid⟩ := hctx
  have hC : CtxOk k b := by intro c' hc'; rw [hc] at hc'; cases hc'; exact hcid
  unfold clientTimeout
  simp only [clientAbortApp]
  split
  · gsplit
    all_goals (try simp)
    · refine getSegment_id (cfg := cfg) (i := 0) (w := 0) ?_ (by assumption)
      intro c' hc'; exact hC c' hc'
    · apply AllAttr_fill
      intro c' hc'; exact hC c' hc'
  · split
    · rw [hc]
      simp only
      split
      · rename_i b1 outs1 hind
        have := clientIndication_attr' hind hcid
        split <;> exact this
      · rename_i outs1 hind
        exact clientIndication_attr' hind hcid
    · simp
  · simp
  · simp

/-! ### ServerSSM -/

theorem serverIdle_ok {cfg : Cfg} {now : Nat} {di : Option DeviceInfo} {k : Key} {b b' : Body}
    {a : Apdu} {outs : List Out} (hpos : cfg.TimeoutsPos) (hid : a.invokeId = k.id)
    (hb : b.ctx = none)
    (h : serverIdle cfg now di k b a = (some b', outs)) : ServerOk k b' := by
  have h4 := seg_timeout4 hpos
  unfold serverIdle at h
  simp only [serverAbortNet] at h
  hsplit h
  all_goals first
    | (simp only [Prod.mk.injEq, reduceCtorEq, false_and] at h; done)
    | (simp only [Prod.mk.injEq, Option.some.injEq] at h
       obtain ⟨rfl, _⟩ := h
       simp_all [ServerOk, ServerSt, CtxOk, stateTimer, arm, hpos.app])

theorem serverIdle_attr {cfg : Cfg} {now : Nat} {di : Option DeviceInfo} {k : Key} {b : Body}
    {a : Apdu} (hid : a.invokeId = k.id) :
    AllAttr k (serverIdle cfg now di k b a).2 := by
  unfold serverIdle
  simp only [serverAbortNet]
  gsplit
  all_goals (simp [hid])

theorem serverIndication_ok {cfg : Cfg} {now : Nat} {k : Key} {b b' : Body}
    {a : Apdu} {outs : List Out} (hpos : cfg.TimeoutsPos) (hok : ServerOk k b)
    (hid : a.invokeId = k.id)
    (h : serverIndication cfg now k b a = (some b', outs)) : ServerOk k b' := by
  obtain ⟨hst, htm, hctx⟩ := hok
  have h4 := seg_timeout4 hpos
  unfold serverIndication at h
  split at h
  · unfold serverSegmentedRequest at h
    simp only [serverAbortBoth] at h
    hsplit h
    all_goals first
      | (simp only [Prod.mk.injEq, reduceCtorEq, false_and] at h; done)
      | (simp only [Prod.mk.injEq, Option.some.injEq] at h
         obtain ⟨rfl, _⟩ := h
         simp_all [ServerOk, ServerSt, CtxOk, stateTimer, arm, hpos.app])
  · unfold serverAwaitResponse at h
    hsplit h
    all_goals first
      | (simp only [Prod.mk.injEq, reduceCtorEq, false_and] at h; done)
      | (simp only [Prod.mk.injEq, Option.some.injEq] at h
         obtain ⟨rfl, _⟩ := h
         exact ⟨hst, htm, hctx⟩)
  · unfold serverSegmentedResponse at h
    hsplit h
    all_goals first
      | (simp only [Prod.mk.injEq, reduceCtorEq, false_and] at h; done)
      | (simp only [Prod.mk.injEq, Option.some.injEq] at h
         obtain ⟨rfl, _⟩ := h
         simp_all [ServerOk, ServerSt, CtxOk, stateTimer, arm])
  · simp only [Prod.mk.injEq, Option.some.injEq] at h
    obtain ⟨rfl, _⟩ := h
    exact ⟨hst, htm, hctx⟩

theorem serverIndication_attr {cfg : Cfg} {now : Nat} {k : Key} {b : Body} {a : Apdu}
    (hok : ServerOk k b) (hid : a.invokeId = k.id) :
    AllAttr k (serverIndication cfg now k b a).2 := by
  obtain ⟨hst, htm, hctx⟩ := hok
  unfold serverIndication
  split
  · unfold serverSegmentedRequest
    simp only [serverAbortBoth]
    gsplit
    all_goals (try simp [hid])
    all_goals (apply hctx; assumption)
  · unfold serverAwaitResponse
    gsplit
    all_goals (simp [hid])
  · unfold serverSegmentedResponse
    gsplit
    all_goals (try simp [hid])
    all_goals
      apply AllAttr_fill
      intro c' hc'
      simp only at hc'
      exact hctx c' hc'
  · simp

theorem serverConfirmation_ok {cfg : Cfg} {now : Nat} {npdu : Option Nat} {k : Key} {b b' : Body}
    {a : Apdu} {outs : List Out} (hpos : cfg.TimeoutsPos) (hok : ServerOk k b)
    (hid : a.invokeId = k.id)
    (h : serverConfirmation cfg now npdu k b a = (some b', outs)) : ServerOk k b' := by
  obtain ⟨hst, htm, hctx⟩ := hok
  unfold serverConfirmation at h
  simp only [serverAbortNet] at h
  hsplit h
  all_goals first
    | (simp only [Prod.mk.injEq, reduceCtorEq, false_and] at h; done)
    | (simp only [Prod.mk.injEq, Option.some.injEq] at h
       obtain ⟨rfl, _⟩ := h
       simp_all [ServerOk, ServerSt, CtxOk, stateTimer, arm, hpos.seg])

theorem serverConfirmation_attr {cfg : Cfg} {now : Nat} {npdu : Option Nat} {k : Key} {b : Body}
    {a : Apdu} (hid : a.invokeId = k.id) :
    AllAttr k (serverConfirmation cfg now npdu k b a).2 := by
  unfold serverConfirmation
  simp only [serverAbortNet]
  gsplit
  all_goals (try simp [hid])
  all_goals
    refine getSegment_id (cfg := cfg) (i := 0) (w := 0) ?_ (by assumption)
    intro c hc
    simp only at hc
    cases hc
    exact hid

theorem serverTimeout_ok {cfg : Cfg} {now : Nat} {k : Key} {b b' : Body}
    {outs : List Out} (hst : ServerSt b) (hctx : CtxOk k b)
    (h : serverTimeout cfg now k b = (some b', outs)) : ServerOk k b' := by
  unfold serverTimeout at h
  split at h
  · simp only [Prod.mk.injEq, reduceCtorEq, false_and] at h
  · simp only [Prod.mk.injEq, reduceCtorEq, false_and] at h
  · hsplit h
    all_goals first
      | (simp only [Prod.mk.injEq, reduceCtorEq, false_and] at h; done)
      | (simp only [Prod.mk.injEq, Option.some.injEq] at h
         obtain ⟨rfl, _⟩ := h
         simp_all [ServerOk, ServerSt, CtxOk, arm])
  · rename_i hne1 hne2 hne3
    rcases hst with h1 | h1 | h1
    · exact absurd h1 hne1
    · exact absurd h1 hne2
    · exact absurd h1 hne3

theorem serverTimeout_attr {cfg : Cfg} {now : Nat} {k : Key} {b : Body} (hctx : CtxOk k b) :
    AllAttr k (serverTimeout cfg now k b).2 := by
  unfold serverTimeout
  split
  · simp
  · simp
  · gsplit
    all_goals (try simp)
    · refine getSegment_id (cfg := cfg) (i := 0) (w := 0) ?_ (by assumption)
      intro c' hc'; exact hctx c' hc'
    · apply AllAttr_fill
      intro c' hc'; exact hctx c' hc'
  · simp

end BacVerif.Tsm
