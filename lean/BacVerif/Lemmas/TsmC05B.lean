/-
  Lemmas.TsmC05B — `specB` (the server side of the C05 exchange) is sound:
  every ServerSSM handler keeps the invariant of a listed server transaction
  and emits only genuine response frames / indicates only the exact request.
-/
import BacVerif.Lemmas.TsmC05Spec
namespace BacVerif.Tsm
set_option linter.unusedSimpArgs false
set_option linter.unusedVariables false

variable {p : Params} {cfg cfgA : Cfg} {dev devA : List (Peer × DeviceInfo)}

/-! ### outputs that are always fine -/

theorem OB_send_ctl {q : Peer} {a : Apdu} (h0 : a.ty ≠ 0) (h3 : a.ty ≠ 3) :
    (specB p cfg dev).OO (.send q a) := by
  refine ⟨?_, ?_, ?_⟩
  · intro q' a' h; cases h; exact h0
  · intro q' a' h _; cases h; intro h; exact absurd h h3
  · intro q' a' h; cases h

theorem OB_indicate {q : Peer} {a : Apdu} (h0 : a.ty ≠ 0) : (specB p cfg dev).OO (.indicate q a) := by
  refine ⟨?_, ?_, ?_⟩
  · intro q' a' h; cases h
  · intro q' a' h; cases h
  · intro q' a' h _ h'; cases h; exact absurd h' h0

theorem OB_raised (x : Raise) : (specB p cfg dev).OO (.raised x) := by
  refine ⟨?_, ?_, ?_⟩ <;> (intro q' a' h; cases h)

theorem OB_anon (c e : Nat) : (specB p cfg dev).OO (.confirmAnon c e) := by
  refine ⟨?_, ?_, ?_⟩ <;> (intro q' a' h; cases h)

theorem OB_confirm (q : Peer) (a : Apdu) : (specB p cfg dev).OO (.confirm q a) := by
  refine ⟨?_, ?_, ?_⟩ <;> (intro q' a' h; cases h)

theorem all_nil {OO : Out → Prop} : ∀ o ∈ ([] : List Out), OO o := by intro o h; cases h
theorem all_one {OO : Out → Prop} {o : Out} (h : OO o) : ∀ o' ∈ [o], OO o' := by
  intro o' h'; simp only [List.mem_singleton] at h'; subst h'; exact h
theorem all_two {OO : Out → Prop} {o1 o2 : Out} (h1 : OO o1) (h2 : OO o2) : ∀ o' ∈ [o1, o2], OO o' := by
  intro o' h'
  simp only [List.mem_cons, List.mem_singleton, List.not_mem_nil, or_false] at h'
  rcases h' with h' | h' <;> (subst h'; assumption)
theorem all_app {OO : Out → Prop} {l1 l2 : List Out} (h1 : ∀ o ∈ l1, OO o) (h2 : ∀ o ∈ l2, OO o) :
    ∀ o ∈ l1 ++ l2, OO o := by
  intro o h; simp only [List.mem_append] at h; rcases h with h | h
  · exact h1 o h
  · exact h2 o h

theorem none_res {I : Key → Body → Prop} {OO : Out → Prop} {k : Key} {outs : List Out}
    (h : ∀ o ∈ outs, OO o) : Local.HRes I OO k (none, outs) :=
  ⟨(by intro b' hb'; cases hb'), h⟩

theorem some_res {I : Key → Body → Prop} {OO : Out → Prop} {k : Key} {b : Body} {outs : List Out}
    (hb : I k b) (h : ∀ o ∈ outs, OO o) : Local.HRes I OO k (some b, outs) :=
  ⟨(by intro b' hb'; cases hb'; exact hb), h⟩

theorem abortNet_B (k : Key) (r : Nat) :
    Local.HRes (specB p cfg dev).SI (specB p cfg dev).OO k (serverAbortNet k r) :=
  none_res (all_one (OB_send_ctl (by simp [mkAbort]) (by simp [mkAbort])))

theorem abortBoth_B (k : Key) (r : Nat) :
    Local.HRes (specB p cfg dev).SI (specB p cfg dev).OO k (serverAbortBoth k r) :=
  none_res (all_two (OB_indicate (by simp [mkAbort])) (OB_send_ctl (by simp [mkAbort]) (by simp [mkAbort])))

/-- a frame `get_segment` / `fill_window` builds from a response context -/
theorem OB_segment {k : Key} {b : Body} {c seg : Apdu} {i w : Nat} (hctx : b.ctx = some c)
    (hty : c.ty = 3) (hid : c.invokeId = k.id) (hn1 : b.segCount ≠ 1)
    (hk : k = p.kB → c.data = p.R ∧ b.segSize = p.sizeR ∧ b.segCount = p.countR)
    (h : getSegment cfg k b i w = .ok seg) : (specB p cfg dev).OO (.send k.peer seg) := by
  obtain ⟨g1, g2, g3, g4, g5, g6⟩ := getSegment_genuine hctx hid h
  refine ⟨?_, ?_, ?_⟩
  · intro q' a' e; cases e; rw [g1, hty]; decide
  · intro q' a' e hq; cases e
    intro _ hid'
    have hkB : k = p.kB := by
      cases k; simp only [Params.kB, Key.mk.injEq]; exact ⟨hq, g2.symm.trans hid'⟩
    obtain ⟨e1, e2, e3⟩ := hk hkB
    obtain ⟨hs, hseg, _⟩ := g5 hn1
    have hT : (⟨c.ty, k.id, c.data, b.segSize, b.segCount⟩ : Xfer) = p.TR := by
      simp [Params.TR, hty, e1, e2, e3, hkB, Params.kB]
    rw [hT] at hseg
    refine ⟨?_, ?_⟩
    · intro h1; exact absurd (e3.trans h1) hn1
    · intro _; exact ⟨hs, i, hseg⟩
  · intro q' a' e; cases e

/-! ### the invariant, state by state -/

/-- the context of a transaction that sends a segmented response -/
def RespCtx (p : Params) (k : Key) (b : Body) : Prop :=
  ∃ c, b.ctx = some c ∧ c.ty = 3 ∧ c.invokeId = k.id ∧ b.segCount ≠ 1 ∧
    (k = p.kB → c.data = p.R ∧ b.segSize = p.sizeR ∧ b.segCount = p.countR)

/-- the part of the invariant that never changes -/
def HeldB (p : Params) (dev : List (Peer × DeviceInfo)) (k : Key) (b : Body) : Prop :=
  k = p.kB → b.maxApdu = p.MB ∧ b.hasDI = (lookupDI dev p.peerA).isSome

theorem SIB_held {k : Key} {b : Body} (h : (specB p cfg dev).SI k b) : HeldB p dev k b := h.2.2

theorem SIB_segResp {k : Key} {b : Body} (hst : b.st = .segResp) (hc : RespCtx p k b)
    (hh : HeldB p dev k b) : (specB p cfg dev).SI k b := by
  refine ⟨fun _ => hc, ?_, hh⟩
  intro h; rw [hst] at h; cases h

theorem SIB_awaitResp {k : Key} {b : Body} (hst : b.st = .awaitResp) (hh : HeldB p dev k b) :
    (specB p cfg dev).SI k b := by
  refine ⟨?_, ?_, hh⟩ <;> (intro h; rw [hst] at h; cases h)

theorem SIB_segReq {k : Key} {b : Body} (hst : b.st = .segReq)
    (hc : ∃ c, b.ctx = some c ∧ c.invokeId = k.id ∧ (k = p.kB → RecvBuf p.TP b))
    (hh : HeldB p dev k b) : (specB p cfg dev).SI k b := by
  refine ⟨?_, fun _ => hc, hh⟩
  intro h; rw [hst] at h; cases h

theorem OB_sends {k : Key} {b : Body} {start : Nat} (hc : RespCtx p k b) :
    ∀ o ∈ sends k.peer (fillWindow cfg k b start).sent, (specB p cfg dev).OO o := by
  obtain ⟨c, hctx, hty, hid, hn1, hk⟩ := hc
  intro o ho
  simp only [sends, List.mem_map] at ho
  obtain ⟨seg, hseg, rfl⟩ := ho
  cases hw : b.window with
  | none => rw [fillWindow_none hw] at hseg; cases hseg
  | some w =>
    obtain ⟨j, _, _, hj⟩ := fillWindow_index hw seg hseg
    exact OB_segment hctx hty hid hn1 hk hj

theorem OB_raisedOf (r : Option Raise) : ∀ o ∈ raisedOf r, (specB p cfg dev).OO o := by
  cases r with
  | none => exact all_nil
  | some x => exact all_one (OB_raised x)

/-! ### SEGMENTED_RESPONSE -/

theorem B_segResp {now : Nat} {k : Key} {b : Body} {a : Apdu} (hsi : (specB p cfg dev).SI k b)
    (hst : b.st = .segResp) :
    Local.HRes (specB p cfg dev).SI (specB p cfg dev).OO k (serverSegmentedResponse cfg now k b a) := by
  have hc : RespCtx p k b := hsi.1 hst
  have hh := SIB_held hsi
  unfold serverSegmentedResponse
  split
  · dsimp only
    split
    · exact some_res (SIB_segResp hst hc hh) all_nil
    · split
      · exact none_res all_nil
      · split
        · exact some_res (SIB_segResp hst hc hh) (all_app (OB_sends hc) (all_one (OB_raised _)))
        · exact some_res (SIB_segResp hst hc hh) (OB_sends hc)
  · split
    · rename_i h7
      exact none_res (all_one (OB_send_ctl (by omega) (by omega)))
    · exact some_res hsi (all_one (OB_raised _))

theorem B_timeout {now : Nat} {k : Key} {b : Body} (hsi : (specB p cfg dev).SI k b) :
    Local.HRes (specB p cfg dev).SI (specB p cfg dev).OO k
      (serverTimeout cfg now k { b with timer := none }) := by
  have hh := SIB_held hsi
  unfold serverTimeout
  split
  · exact none_res all_nil
  · exact none_res (all_one (OB_indicate (by simp [mkAbort])))
  · rename_i hst
    have hst' : b.st = .segResp := hst
    have hc : RespCtx p k b := hsi.1 hst'
    split
    · dsimp only
      split
      · obtain ⟨c, hctx, hty, hid, hn1, hk⟩ := hc
        split
        · rename_i seg hseg
          exact some_res (SIB_segResp hst' ⟨c, hctx, hty, hid, hn1, hk⟩ hh)
            (all_one (OB_segment (b := { b with timer := arm now cfg.segTimeout, segRetry := b.segRetry + 1 })
              hctx hty hid hn1 hk hseg))
        · exact some_res (SIB_segResp hst' ⟨c, hctx, hty, hid, hn1, hk⟩ hh) (all_one (OB_raised _))
      · exact some_res (SIB_segResp hst' hc hh) (all_app (OB_sends (b := _) hc) (OB_raisedOf _))
    · exact none_res all_nil
  · exact some_res hsi (all_one (OB_raised _))

/-! ### SEGMENTED_REQUEST -/

theorem HeldB_same {k : Key} {b b' : Body} (h : HeldB p dev k b) (hs : b.sameCaps b') :
    HeldB p dev k b' := by
  intro hk
  obtain ⟨h1, h2⟩ := h hk
  exact ⟨hs.1.trans h1, hs.2.1.trans h2⟩

/-- the key of an output that names peer A and the exchange's invoke ID -/
theorem key_is_kB {k : Key} (hq : k.peer = p.peerA) (hi : k.id = p.id) : k = p.kB := by
  cases k; simp only [Params.kB, Key.mk.injEq]; exact ⟨hq, hi⟩

theorem B_segReq (g : p.Geo cfgA cfg devA dev) {now : Nat} {k : Key} {b : Body} {a : Apdu}
    (hsi : (specB p cfg dev).SI k b) (hst : b.st = .segReq) (hid : a.invokeId = k.id)
    (hf : k = p.kB → p.ReqFrameN (NearIdx p.TP b) a) :
    Local.HRes (specB p cfg dev).SI (specB p cfg dev).OO k (serverSegmentedRequest cfg now k b a) := by
  have hh := SIB_held hsi
  obtain ⟨c, hctx, hcid, hbuf⟩ := hsi.2.1 hst
  by_cases h7 : a.ty = 7
  · unfold serverSegmentedRequest; rw [if_pos h7]
    exact none_res (all_one (OB_send_ctl (by omega) (by omega)))
  by_cases h0n : a.ty ≠ 0
  · unfold serverSegmentedRequest; rw [if_neg h7, if_pos h0n]; exact abortBoth_B _ _
  have h0 : a.ty = 0 := by omega
  by_cases hsegn : a.seg = false
  · unfold serverSegmentedRequest
    rw [if_neg h7, if_neg (fun hne => hne h0)]
    simp only [hsegn, Bool.not_false, if_true]
    exact abortBoth_B _ _
  have hseg : a.seg = true := by simpa using hsegn
  cases hw : b.window with
  | none =>
    unfold serverSegmentedRequest
    rw [if_neg h7, if_neg (fun hne => hne h0)]
    simp only [hseg, hw, Bool.not_true, Bool.false_eq_true, if_false]
    exact some_res hsi (all_one (OB_raised _))
  | some w =>
    generalize hx : serverSegmentedRequest cfg now k b a = x
    obtain ⟨r, outs⟩ := x
    obtain ⟨hin, hout⟩ := server_append_in_order h0 hseg hw hctx hx
    have hack : ∀ nak s, (specB p cfg dev).OO (.send k.peer (mkSegAck nak true k.id s w)) :=
      fun nak s => OB_send_ctl (by simp [mkSegAck]) (by simp [mkSegAck])
    by_cases hs : a.seq = (b.lastSeq + 1) % 256
    · obtain ⟨hmore, hlast⟩ := hin hs
      by_cases hk : k = p.kB
      · -- the tracked transaction: the frame is genuine, hence segment j+1
        obtain ⟨hgen, _⟩ := hf hk h0 (by rw [hid, hk]; rfl)
        have hwf := g.wfP
        have hn1 : p.TP.count ≠ 1 := by
          intro h1
          have := ((hgen h0 (by rw [hid, hk]; rfl)).1 h1).1
          rw [hseg] at this; cases this
        obtain ⟨_, i, hi, hnear⟩ := (hgen h0 (by rw [hid, hk]; rfl)).2 hn1
        obtain ⟨j, c', w', hc', hj, hl, hd, hw'⟩ := hbuf hk
        have hnj := hnear j ⟨c', w', hc', hj, hl, hd, hw'⟩
        rw [hctx] at hc'; cases hc'
        have hij : i = j + 1 := next_index hi hnj (by rw [hs, hl])
        subst hij
        cases hm : a.mor with
        | false =>
          obtain ⟨⟨b', hr, hb', hcap⟩, ho⟩ := hlast hm
          subst hr; subst ho
          refine some_res (SIB_awaitResp hb' (HeldB_same hh hcap)) (all_two (hack _ _) ?_)
          refine ⟨?_, ?_, ?_⟩
          · intro q' a' e; cases e
          · intro q' a' e; cases e
          · intro q' a' e _ _ _; cases e
            show c.data ++ a.data = p.P
            rw [hd]; exact buf_complete hwf hi hm
        | true =>
          obtain ⟨b', hr, hb1, hb2, hb3, hb4, hcap, ho⟩ := hmore hm
          subst hr
          refine some_res (SIB_segReq (hb3.trans hst) ⟨_, hb1, hcid, ?_⟩ (HeldB_same hh hcap)) ?_
          · intro _
            have hm' := hi.mor
            rw [hm] at hm'
            have hlt : j + 1 + 1 < p.TP.count := by simpa using hm'.symm
            refine ⟨j + 1, _, w, hb1, hlt, ?_, ?_, hb4.trans hw⟩
            · rw [hb2, hl]; omega
            · show c.data ++ a.data = _
              rw [hd]; exact buf_append hi
          · intro o ho'; rw [ho o ho']; exact hack _ _
      · -- another transaction: nothing to show about its content; its outputs name another key
        cases hm : a.mor with
        | false =>
          obtain ⟨⟨b', hr, hb', hcap⟩, ho⟩ := hlast hm
          subst hr; subst ho
          refine some_res (SIB_awaitResp hb' (HeldB_same hh hcap)) (all_two (hack _ _) ?_)
          refine ⟨?_, ?_, ?_⟩
          · intro q' a' e; cases e
          · intro q' a' e; cases e
          · intro q' a' e hq _ hi'; cases e
            exact absurd (key_is_kB hq (hcid.symm.trans hi')) hk
        | true =>
          obtain ⟨b', hr, hb1, hb2, hb3, hb4, hcap, ho⟩ := hmore hm
          subst hr
          refine some_res (SIB_segReq (hb3.trans hst) ⟨_, hb1, hcid, fun h => absurd h hk⟩
            (HeldB_same hh hcap)) ?_
          intro o ho'; rw [ho o ho']; exact hack _ _
    · obtain ⟨b', hr, hb1, hb2, hb3, hb4, hcap, ho⟩ := hout hs
      subst hr; subst ho
      refine some_res (SIB_segReq (hb3.trans hst) ⟨c, hb1.trans hctx, hcid, ?_⟩ (HeldB_same hh hcap))
        (all_one (hack _ _))
      intro hk
      obtain ⟨j, c', w', hc', hj, hl, hd, hw'⟩ := hbuf hk
      exact ⟨j, c', w', hb1.trans hc', hj, hb2.trans hl, hd, hb4.trans hw'⟩

/-! ### AWAIT_RESPONSE, the dispatcher -/

theorem B_indication (g : p.Geo cfgA cfg devA dev) {now : Nat} {k : Key} {b : Body} {a : Apdu}
    (hsi : (specB p cfg dev).SI k b) (hid : a.invokeId = k.id)
    (hf : k = p.kB → p.ReqFrameN (NearIdx p.TP b) a) :
    Local.HRes (specB p cfg dev).SI (specB p cfg dev).OO k (serverIndication cfg now k b a) := by
  unfold serverIndication
  split
  · rename_i hst; exact B_segReq g hsi hst hid hf
  · unfold serverAwaitResponse
    split
    · exact some_res hsi all_nil
    · split
      · rename_i h7
        exact none_res (all_one (OB_indicate (by omega)))
      · exact some_res hsi (all_one (OB_raised _))
  · rename_i hst; exact B_segResp hsi hst
  · exact some_res hsi all_nil

/-! ### IDLE: a ConfirmedRequest opens the transaction -/

theorem B_idle (g : p.Geo cfgA cfg devA dev) {now : Nat} {k : Key} {a : Apdu} (h0 : a.ty = 0)
    (hid : a.invokeId = k.id) (hf : k = p.kB → p.ReqFrameN (fun i => i < 256) a) :
    Local.HRes (specB p cfg dev).SI (specB p cfg dev).OO k
      (serverIdle cfg now (promote a.sa (heldOf dev k (newBodyD cfg dev k.peer))) k
        (newBodyD cfg dev k.peer) a) := by
  rw [heldOf_new]
  unfold serverIdle
  dsimp only
  split
  · exact abortNet_B _ _
  · rename_i m hm
    -- what the new transaction holds for the client
    have held : ∀ b : Body, b.maxApdu = announcedMax (promote a.sa (lookupDI dev k.peer)) m →
        b.hasDI = (lookupDI dev k.peer).isSome → HeldB p dev k b := by
      intro b h1 h2 hk
      have hidp : a.invokeId = p.id := by rw [hid, hk]; rfl
      obtain ⟨_, hhdr⟩ := hf hk h0 hidp
      have hpeer : k.peer = p.peerA := by rw [hk]; rfl
      rw [hpeer] at h1 h2
      refine ⟨?_, h2⟩
      rw [h1, hhdr.sa]
      exact g.holdB m (by rw [← hhdr.maxResp]; exact hm)
    have gen : k.peer = p.peerA → a.invokeId = p.id → Genuine p.TP a := by
      intro hq hi
      have hk := key_is_kB hq (hid.symm.trans hi)
      exact (hf hk h0 hi).1.genuine
    split
    · -- unsegmented request: indicated at once
      rename_i hns
      have hns' : a.seg = false := by simpa using hns
      refine some_res (SIB_awaitResp rfl (held _ rfl rfl)) (all_one ?_)
      refine ⟨?_, ?_, ?_⟩
      · intro q' a' e; cases e
      · intro q' a' e; cases e
      · intro q' a' e hq _ hi; cases e
        have hg := gen hq hi h0 hi
        by_cases h1 : p.TP.count = 1
        · exact (hg.1 h1).2
        · have := (hg.2 h1).1; rw [hns'] at this; cases this
    · split
      · exact abortNet_B _ _
      · split
        · exact abortNet_B _ _
        · rename_i hseg _ hseq
          have hseg' : a.seg = true := by simpa using hseg
          have hseq' : a.seq = 0 := by omega
          refine some_res (SIB_segReq rfl ⟨a, rfl, hid, ?_⟩ (held _ rfl rfl))
            (all_one (OB_send_ctl (by simp [mkSegAck]) (by simp [mkSegAck])))
          intro hk
          have hidp : a.invokeId = p.id := by rw [hid, hk]; rfl
          have hg := (hf hk h0 hidp).1 h0 hidp
          have hn1 : p.TP.count ≠ 1 := by
            intro h1; have := (hg.1 h1).1; rw [hseg'] at this; cases this
          obtain ⟨_, i, hi, hlt⟩ := hg.2 hn1
          have hi0 : i = 0 := first_index hi hlt hseq'
          subst hi0
          have hpos := g.wfP.pos
          refine ⟨0, a, min a.win cfg.window, rfl, by omega, rfl, ?_, rfl⟩
          rw [hi.data]; simp [slicesUpTo]

/-! ### the application answers -/

/-- the body `ServerSSM.confirmation` works with once the answer is cut -/
def respBody (b : Body) (a : Apdu) (size count : Nat) : Body :=
  { b with ctx := some a, segSize := size, segCount := count, segRetry := 0, initSeq := 0, window := none }

theorem getSegment_first_ok {k : Key} {b : Body} {c : Apdu} (hctx : b.ctx = some c) (h3 : c.ty = 3)
    (hpos : 0 < b.segCount) (w : Nat) : ∃ seg, getSegment cfg k b 0 w = .ok seg := by
  unfold getSegment
  rw [hctx]
  dsimp only
  rw [if_neg (by omega)]
  have : segHeader cfg k b c = .ok { ty := 3, service := c.service, invokeId := c.invokeId } := by
    unfold segHeader
    rw [if_neg (by omega), if_pos h3]
  rw [this]
  exact ⟨_, rfl⟩

theorem B_confirmation (g : p.Geo cfgA cfg devA dev) {now : Nat} {k : Key} {b : Body} {a : Apdu}
    (hsi : (specB p cfg dev).SI k b) (hid : a.invokeId = k.id)
    (hr : k = p.kB → a.ty = 3 → a.data = p.R ∧ a.seg = false) :
    Local.HRes (specB p cfg dev).SI (specB p cfg dev).OO k
      (serverConfirmation cfg now (npduOf dev k b) k b a) := by
  have hh := SIB_held hsi
  unfold serverConfirmation
  split
  · rename_i h7
    exact none_res (all_one (OB_send_ctl (by omega) (by omega)))
  · split
    · rename_i h256
      have : a.ty = 2 ∨ a.ty = 5 ∨ a.ty = 6 := by simp at h256; omega
      exact none_res (all_one (OB_send_ctl (by omega) (by omega)))
    · split
      · rename_i h3
        dsimp only
        split
        · exact abortNet_B _ _
        · rename_i size count hcut
          -- the geometry of the tracked exchange
          have geo : k = p.kB → a.data = p.R ∧ a.seg = false ∧ size = p.sizeR ∧ count = p.countR := by
            intro hk
            obtain ⟨e1, e2⟩ := hr hk h3
            obtain ⟨m1, m2⟩ := hh hk
            have hpeer : k.peer = p.peerA := by rw [hk]; rfl
            have hn : npduOf dev k b = lookupNpdu dev p.peerA := by
              rw [← hpeer]; exact npduOf_of_hasDI (by rw [hpeer]; exact m2)
            rw [hn, m1, e1] at hcut
            obtain ⟨e3, e4⟩ := g.cutR size count hcut
            exact ⟨e1, e2, e3, e4⟩
          have hspec := setSegmentSize_spec (by decide : 3 ≤ 5) hcut
          split
          · exact abortNet_B _ _
          · split
            · exact abortNet_B _ _
            · split
              · exact abortNet_B _ _
              · split
                · -- one APDU: the answer goes out as it is
                  rename_i hc1
                  refine none_res (all_one ⟨?_, ?_, ?_⟩)
                  · intro q' a' e; cases e; omega
                  · intro q' a' e hq; cases e
                    intro _ hi
                    obtain ⟨e1, e2, e3, e4⟩ := geo (key_is_kB hq (hid.symm.trans hi))
                    refine ⟨fun _ => ⟨e2, e1⟩, fun hne => absurd ?_ hne⟩
                    show p.countR = 1
                    rw [← e4]; exact hc1
                  · intro q' a' e; cases e
                · rename_i hc1
                  have hctx' : RespCtx p k (respBody b a size count) := by
                    refine ⟨a, rfl, h3, hid, hc1, ?_⟩
                    intro hk
                    obtain ⟨e1, e2, e3, e4⟩ := geo hk
                    exact ⟨e1, e3, e4⟩
                  have hpos : 0 < count := by omega
                  obtain ⟨seg, hseg⟩ := getSegment_first_ok (cfg := cfg) (k := k)
                    (b := respBody b a size count) rfl h3 hpos 0
                  have hseg' := hseg
                  unfold respBody at hseg'
                  rw [hseg']
                  dsimp only
                  obtain ⟨c, hc, hty, hcid, hn1, hk⟩ := hctx'
                  refine some_res (SIB_segResp rfl ⟨c, hc, hty, hcid, hn1, hk⟩ hh)
                    (all_one (OB_segment hc hty hcid hn1 hk hseg))
      · exact some_res hsi (all_one (OB_raised _))

/-! ### `specB` is sound -/

theorem specB_sound (g : p.Geo cfgA cfg devA dev) : (specB p cfg dev).Sound where
  cConf := by intro now k b a h; exact absurd h (by simp [specB])
  cTime := by intro now k b h; exact absurd h (by simp [specB])
  cNew := by intro now k service data h; exact absurd h (by simp [specB])
  sInd := by intro now k b a h hid hf; exact B_indication g h hid hf
  sNew := by intro now k a h0 hid hf; exact B_idle g h0 hid hf
  sConf := by intro now k b a h hid hr; exact B_confirmation g h hid hr
  sTime := by intro now k b h; exact B_timeout h
  rsAsap := by
    intro k b id r
    constructor <;> (intro _ h; simp at h)
  oAnon := OB_anon
  oRaised := OB_raised
  oUnconfSend := by intro q service data; exact OB_send_ctl (by simp) (by simp)
  oUnconfInd := by intro q a h1; exact OB_indicate (by omega)

end BacVerif.Tsm
