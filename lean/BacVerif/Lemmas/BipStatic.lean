/-
  Lemmas.BipStatic — while only broadcast-carrying datagrams (Original-Broadcast,
  Forwarded-NPDU, Distribute-Broadcast addressed to a BBMD) are in flight, no
  B/IP layer changes state: `World.run` is a pure unfolding `runObs` of the
  static reaction functions `obsS` / `outS`, additive over the queue.
-/
import BacVerif.Model.Bip
namespace BacVerif.Bip

/-! ### static reactions -/

/-- observations / datagrams caused at node `nd` of net `n` by datagram `d` -/
def reactObs (now : Nat) (n : Net) (d : Dgram) (nd : Node) : List Obs :=
  if hits n d nd.addr then outObs nd.addr (nd.st.up now d.src (seenDst n d) d.msg).2 else []

def reactOut (now : Nat) (n : Net) (d : Dgram) (nd : Node) : List Dgram :=
  if hits n d nd.addr then outDgrams n nd.addr (nd.st.up now d.src (seenDst n d) d.msg).2 else []

def netObs (now : Nat) (n : Net) (d : Dgram) : List Obs := n.nodes.flatMap (reactObs now n d)

def netOut (now : Nat) (nets : List Net) (n : Net) (d : Dgram) : List Dgram :=
  (if routerSees n d then routerOuts nets n d else []) ++ n.nodes.flatMap (reactOut now n d)

def obsS (w : World) (d : Dgram) : List Obs :=
  w.nets.flatMap fun n => if n.id = d.net then netObs w.now n d else []

def outS (w : World) (d : Dgram) : List Dgram :=
  w.nets.flatMap fun n => if n.id = d.net then netOut w.now w.nets n d else []

/-- the run of a queue on a world that does not change -/
def runObs : Nat → World → List Dgram → List Obs
  | 0, _, _ => []
  | f + 1, w, q => q.flatMap (obsS w) ++ runObs f w (q.flatMap (outS w))

def quietS : Nat → World → List Dgram → Bool
  | _, _, [] => true
  | 0, _, _ :: _ => false
  | f + 1, w, q@(_ :: _) => quietS f w (q.flatMap (outS w))

/-! ### which datagrams leave every state alone -/

/-- Original-Broadcast or Forwarded-NPDU -/
def Bvll.isBc : Bvll → Bool
  | .forwarded .. => true
  | .origBroadcast _ => true
  | _ => false

def Bvll.isDist : Bvll → Bool
  | .distribute _ => true
  | _ => false

def Kind.isBbmd : Kind → Bool
  | .bbmd _ => true
  | _ => false

/-- a datagram whose whole progeny leaves every B/IP layer's state alone -/
def Good (w : World) (d : Dgram) : Prop :=
  d.msg.isBc = true ∨
  (d.msg.isDist = true ∧ (∀ n ∈ w.nets, d.dst ≠ n.bcast) ∧
    ∀ n ∈ w.nets, ∀ nd ∈ n.nodes, nd.addr = d.dst → nd.st.isBbmd = true)

theorem up_state_bc (now : Nat) (k : Kind) (s : Addr) (dd : Dest) (m : Bvll) (h : m.isBc = true) :
    (k.up now s dd m).1 = k := by
  cases k with
  | simple => rfl
  | foreign f =>
    cases m <;> simp [Bvll.isBc] at h
    · simp only [Kind.up, foreignUp]; split <;> (try split) <;> rfl
    · rfl
  | bbmd b =>
    cases m <;> simp [Bvll.isBc] at h <;> rfl

theorem up_state_dist (now : Nat) (k : Kind) (s : Addr) (dd : Dest) (m : Bvll) (h : m.isDist = true) :
    (k.up now s dd m).1 = k := by
  cases k <;> cases m <;> simp [Bvll.isDist] at h <;> rfl

/-- all datagrams a multiplexer makes of a list of outputs carry broadcasts -/
def OutsBc (l : List Out) : Prop := ∀ o ∈ l, ∀ dd m, o = .send dd m → m.isBc = true

theorem outDgrams_bc (n : Net) (a : Addr) (l : List Out) (h : OutsBc l) :
    ∀ d ∈ outDgrams n a l, d.msg.isBc = true := by
  induction l with
  | nil => simp [outDgrams]
  | cons o r ih =>
    have hr : OutsBc r := fun o' ho' => h o' (List.mem_cons_of_mem _ ho')
    have ho := h o (List.mem_cons_self ..)
    intro d hd
    cases o with
    | send dd m =>
      cases dd with
      | station x =>
        simp only [outDgrams, List.mem_cons] at hd
        rcases hd with hd | hd
        · subst hd; exact ho _ _ rfl
        · exact ih hr d hd
      | bcast =>
        simp only [outDgrams, List.mem_cons] at hd
        rcases hd with hd | hd
        · subst hd; exact ho _ _ rfl
        · exact ih hr d hd
      | other => exact ih hr d (by simpa [outDgrams] using hd)
    | up _ _ _ => exact ih hr d (by simpa [outDgrams] using hd)
    | sap _ _ => exact ih hr d (by simpa [outDgrams] using hd)
    | warn => exact ih hr d (by simpa [outDgrams] using hd)
    | raised _ => exact ih hr d (by simpa [outDgrams] using hd)

theorem outsBc_append {a b : List Out} (ha : OutsBc a) (hb : OutsBc b) : OutsBc (a ++ b) := by
  intro o ho
  rcases List.mem_append.1 ho with h | h
  · exact ha o h
  · exact hb o h

theorem outsBc_toFdt (fdt : List FdtEntry) (m : Bvll) (h : m.isBc = true) : OutsBc (toFdt fdt m) := by
  intro o ho dd m' hm
  simp only [toFdt, List.mem_map] at ho
  obtain ⟨f, _, rfl⟩ := ho
  cases hm; exact h

theorem outsBc_toPeers (b : Bbmd) (m : Bvll) (h : m.isBc = true) : OutsBc (toPeers b m) := by
  intro o ho dd m' hm
  simp only [toPeers, List.mem_map] at ho
  obtain ⟨f, _, rfl⟩ := ho
  cases hm; exact h

theorem outsBc_toPeersAndSelf (b : Bbmd) (m : Bvll) (h : m.isBc = true) :
    OutsBc (toPeersAndSelf b m) := by
  intro o ho dd m' hm
  simp only [toPeersAndSelf, List.mem_map] at ho
  obtain ⟨f, _, hf⟩ := ho
  split at hf <;> (subst hf; cases hm; exact h)

theorem outsBc_upIf (b : Bbmd) (s : Addr) (dd : Dest) (x : Data) : OutsBc (upIf b (.up s dd x)) := by
  intro o ho dd' m hm
  unfold upIf at ho
  split at ho
  · simp at ho; subst ho; cases hm
  · cases ho

/-- a broadcast-carrying message makes every kind of node emit only Forwarded-NPDUs -/
theorem up_outs_bc (now : Nat) (k : Kind) (s : Addr) (dd : Dest) (m : Bvll) (h : m.isBc = true) :
    OutsBc (k.up now s dd m).2 := by
  cases m <;> simp [Bvll.isBc] at h
  · -- forwarded
    next o x =>
    cases k with
    | simple => intro o' ho' _ _ hm; simp [Kind.up, simpleUp] at ho'; subst ho'; cases hm
    | foreign f =>
      intro o' ho' _ _ hm
      simp only [Kind.up, foreignUp] at ho'
      split at ho'
      · cases ho'
      · split at ho'
        · cases ho'
        · simp at ho'; subst ho'; cases hm
    | bbmd b =>
      simp only [Kind.up, bbmdUp]
      refine outsBc_append (outsBc_append (outsBc_upIf _ _ _ _) ?_) (outsBc_toFdt _ _ rfl)
      intro o' ho' _ _ hm
      cases dd with
      | station _ =>
        simp only at ho'
        split at ho'
        · simp at ho'; subst ho'; cases hm; rfl
        · cases ho'
      | bcast => cases ho'
      | other => simp at ho'; subst ho'; cases hm
  · -- origBroadcast
    next x =>
    cases k with
    | simple => intro o' ho' _ _ hm; simp [Kind.up, simpleUp] at ho'; subst ho'; cases hm
    | foreign f => intro o' ho' _ _ hm; simp [Kind.up, foreignUp] at ho'
    | bbmd b =>
      simp only [Kind.up, bbmdUp]
      exact outsBc_append (outsBc_append (outsBc_upIf _ _ _ _) (outsBc_toPeers _ _ rfl)) (outsBc_toFdt _ _ rfl)

/-- a BBMD turns a Distribute-Broadcast into Forwarded-NPDUs only -/
theorem up_outs_dist_bbmd (now : Nat) (b : Bbmd) (s : Addr) (dd : Dest) (x : Data) :
    OutsBc ((Kind.bbmd b).up now s dd (.distribute x)).2 := by
  simp only [Kind.up, bbmdUp]
  exact outsBc_append (outsBc_append (outsBc_upIf _ _ _ _) (outsBc_toPeersAndSelf _ _ rfl)) (outsBc_toFdt _ _ rfl)

/-! ### `recvNodes` / `netRecv` / `process` on a state-preserving datagram -/

theorem recvNodes_static (now : Nat) (n : Net) (d : Dgram) (nodes : List Node)
    (h : ∀ nd ∈ nodes, hits n d nd.addr = true → (nd.st.up now d.src (seenDst n d) d.msg).1 = nd.st) :
    recvNodes now n d nodes =
      (nodes, nodes.flatMap (reactObs now n d), nodes.flatMap (reactOut now n d)) := by
  induction nodes with
  | nil => simp [recvNodes]
  | cons nd rest ih =>
    have ih' := ih (fun x hx => h x (List.mem_cons_of_mem _ hx))
    unfold recvNodes
    rw [ih']
    by_cases hh : hits n d nd.addr = true
    · have hs := h nd (List.mem_cons_self ..) hh
      simp only [hh, if_true, List.flatMap_cons, reactObs, reactOut, hs]
    · simp only [hh, List.flatMap_cons, reactObs, reactOut]
      simp

/-- the state of every node a Good datagram can hit is left alone -/
theorem good_static_nodes (w : World) (d : Dgram) (hg : Good w d) (n : Net) (hn : n ∈ w.nets) :
    ∀ nd ∈ n.nodes, hits n d nd.addr = true →
      (nd.st.up w.now d.src (seenDst n d) d.msg).1 = nd.st := by
  intro nd _ _
  rcases hg with h | ⟨h, _, _⟩
  · exact up_state_bc _ _ _ _ _ h
  · exact up_state_dist _ _ _ _ _ h

theorem processNets_static (w : World) (d : Dgram) (hg : Good w d) (nets : List Net)
    (hsub : ∀ n ∈ nets, n ∈ w.nets) :
    processNets w.now w.nets d nets =
      (nets, nets.flatMap (fun n => if n.id = d.net then netObs w.now n d else []),
       nets.flatMap (fun n => if n.id = d.net then netOut w.now w.nets n d else [])) := by
  induction nets with
  | nil => simp [processNets]
  | cons n rest ih =>
    have ih' := ih (fun x hx => hsub x (List.mem_cons_of_mem _ hx))
    unfold processNets
    rw [ih']
    by_cases hid : n.id = d.net
    · have hr := recvNodes_static w.now n d n.nodes
        (good_static_nodes w d hg n (hsub n (List.mem_cons_self ..)))
      rw [if_pos hid]
      simp only [netRecv, hr, List.flatMap_cons, netObs, netOut, if_pos hid]
    · rw [if_neg hid]
      simp only [List.flatMap_cons, if_neg hid, List.nil_append]

theorem process_static (w : World) (d : Dgram) (hg : Good w d) :
    w.process d = (w, obsS w d, outS w d) := by
  unfold World.process
  rw [processNets_static w d hg w.nets (fun _ h => h)]
  rfl

/-! ### Good is closed under `outS` -/

theorem good_router (w : World) (d : Dgram) (hg : Good w d) (i : Nat) : Good w { d with net := i } := hg

theorem good_of_bc {w : World} {d : Dgram} (h : d.msg.isBc = true) : Good w d := Or.inl h

theorem reactOut_good (w : World) (d : Dgram) (hg : Good w d) (n : Net) (hn : n ∈ w.nets)
    (nd : Node) (hnd : nd ∈ n.nodes) : ∀ d' ∈ reactOut w.now n d nd, Good w d' := by
  intro d' hd'
  unfold reactOut at hd'
  split at hd'
  · next hh =>
    apply good_of_bc
    refine outDgrams_bc n nd.addr _ ?_ d' hd'
    rcases hg with h | ⟨h, hnb, hb⟩
    · exact up_outs_bc _ _ _ _ _ h
    · -- a Distribute-Broadcast hits only the BBMD it is addressed to
      have hne : d.dst ≠ n.bcast := hnb n hn
      have haddr : nd.addr = d.dst := by
        simpa [hits, hne] using hh
      have hk := hb n hn nd hnd haddr
      cases hst : nd.st with
      | bbmd b =>
        cases hm : d.msg <;> simp [Bvll.isDist, hm] at h
        exact up_outs_dist_bbmd _ _ _ _ _
      | simple => simp [hst, Kind.isBbmd] at hk
      | foreign f => simp [hst, Kind.isBbmd] at hk
  · cases hd'

theorem outS_good (w : World) (d : Dgram) (hg : Good w d) : ∀ d' ∈ outS w d, Good w d' := by
  intro d' hd'
  simp only [outS, List.mem_flatMap] at hd'
  obtain ⟨n, hn, hd'⟩ := hd'
  split at hd'
  · simp only [netOut, List.mem_append, List.mem_flatMap] at hd'
    rcases hd' with h | ⟨nd, hnd, h⟩
    · split at h
      · simp only [routerOuts, List.mem_map] at h
        obtain ⟨n', _, rfl⟩ := h
        exact good_router w d hg _
      · cases h
    · exact reactOut_good w d hg n hn nd hnd d' h
  · cases hd'

/-! ### `gen` and `run` on Good queues -/

theorem gen_static (w : World) (q : List Dgram) (hq : ∀ d ∈ q, Good w d) :
    w.gen q = (w, q.flatMap (obsS w), q.flatMap (outS w)) := by
  induction q with
  | nil => simp [World.gen]
  | cons d q ih =>
    unfold World.gen
    rw [process_static w d (hq d (List.mem_cons_self ..))]
    simp only
    rw [ih (fun x hx => hq x (List.mem_cons_of_mem _ hx))]
    simp

theorem flatMap_outS_good (w : World) (q : List Dgram) (hq : ∀ d ∈ q, Good w d) :
    ∀ d ∈ q.flatMap (outS w), Good w d := by
  intro d hd
  obtain ⟨d0, h0, hd⟩ := List.mem_flatMap.1 hd
  exact outS_good w d0 (hq d0 h0) d hd

theorem runObs_nil (f : Nat) (w : World) : runObs f w [] = [] := by
  induction f with
  | zero => rfl
  | succ f ih => simp [runObs, ih]

theorem run_static (f : Nat) (w : World) (q : List Dgram) (hq : ∀ d ∈ q, Good w d) :
    World.run f w q = (w, runObs f w q, quietS f w q) := by
  induction f generalizing q with
  | zero =>
    cases q with
    | nil => simp [World.run, runObs, quietS]
    | cons d q => simp [World.run, runObs, quietS]
  | succ f ih =>
    cases q with
    | nil => simp [World.run, runObs_nil, quietS]
    | cons d q =>
      simp only [World.run]
      rw [gen_static w (d :: q) hq]
      simp only
      rw [ih _ (flatMap_outS_good w _ hq)]
      simp [runObs, quietS]

/-! ### additivity -/

def cnt (p : Obs → Bool) (f : Nat) (w : World) (q : List Dgram) : Nat := (runObs f w q).countP p

theorem runObs_append (f : Nat) (w : World) (q1 q2 : List Dgram) (p : Obs → Bool) :
    cnt p f w (q1 ++ q2) = cnt p f w q1 + cnt p f w q2 := by
  induction f generalizing q1 q2 with
  | zero => simp [cnt, runObs]
  | succ f ih =>
    have := ih (q1.flatMap (outS w)) (q2.flatMap (outS w))
    simp only [cnt] at this ⊢
    simp only [runObs, List.flatMap_append, List.countP_append, this]
    omega

theorem cnt_nil (p : Obs → Bool) (f : Nat) (w : World) : cnt p f w [] = 0 := by
  simp [cnt, runObs_nil]

theorem cnt_cons (p : Obs → Bool) (f : Nat) (w : World) (d : Dgram) (q : List Dgram) :
    cnt p f w (d :: q) = cnt p f w [d] + cnt p f w q := by
  have := runObs_append f w [d] q p
  simpa using this

/-- the tree recursion: one datagram = what it causes now + what its children cause -/
theorem cnt_single (p : Obs → Bool) (f : Nat) (w : World) (d : Dgram) :
    cnt p (f + 1) w [d] = (obsS w d).countP p + cnt p f w (outS w d) := by
  simp [cnt, runObs]

theorem cnt_map {α} (p : Obs → Bool) (f : Nat) (w : World) (l : List α) (g : α → Dgram) :
    cnt p f w (l.map g) = (l.map fun a => cnt p f w [g a]).sum := by
  induction l with
  | nil => simp [cnt_nil]
  | cons a l ih => rw [List.map_cons, cnt_cons, ih]; simp

theorem cnt_flatMap {α} (p : Obs → Bool) (f : Nat) (w : World) (l : List α) (g : α → List Dgram) :
    cnt p f w (l.flatMap g) = (l.map fun a => cnt p f w (g a)).sum := by
  induction l with
  | nil => simp [cnt_nil]
  | cons a l ih => rw [List.flatMap_cons, runObs_append, ih]; simp

/-- quiescence is monotone along the same unfolding -/
theorem quietS_nil (f : Nat) (w : World) : quietS f w [] = true := by
  cases f <;> rfl

/-- every observation of a run stems from some generation's `obsS` -/
theorem mem_runObs {P : Obs → Prop} (w : World) (I : Dgram → Prop)
    (hstep : ∀ d, I d → (∀ ob ∈ obsS w d, P ob) ∧ (∀ d' ∈ outS w d, I d'))
    (f : Nat) (q : List Dgram) (hq : ∀ d ∈ q, I d) : ∀ ob ∈ runObs f w q, P ob := by
  induction f generalizing q with
  | zero => intro ob h; cases h
  | succ f ih =>
    intro ob h
    simp only [runObs, List.mem_append, List.mem_flatMap] at h
    rcases h with ⟨d, hd, h⟩ | h
    · exact (hstep d (hq d hd)).1 ob h
    · refine ih (q.flatMap (outS w)) ?_ ob h
      intro d' hd'
      obtain ⟨d, hd, h'⟩ := List.mem_flatMap.1 hd'
      exact (hstep d (hq d hd)).2 d' h'

end BacVerif.Bip
