/-
  Lemmas.TsmC04LiveStep — `CliLive` for every listed client transaction is an
  invariant of every event sequence; with an encodable configuration no expiry
  of a client timer lets an exception out of the access point.
-/
import BacVerif.Lemmas.TsmC04Live
namespace BacVerif.Tsm
set_option linter.unusedSimpArgs false
set_option linter.unusedVariables false
variable {cfg : Cfg}

def LiveInv (cfg : Cfg) (s : Sap) : Prop := ∀ t ∈ s.clients, CliLive cfg t.body

theorem LiveInv.init : LiveInv cfg Sap.init := by
  intro t ht; simp [Sap.init] at ht

theorem LiveInv.congr {s s' : Sap} (h : LiveInv cfg s) (hc : s'.clients = s.clients) : LiveInv cfg s' := by
  intro t ht; rw [hc] at ht; exact h t ht

theorem LiveInv.updClient {s : Sap} (h : LiveInv cfg s) {k : Key} {r : Option Body}
    (hr : ∀ b', r = some b' → CliLive cfg b') :
    LiveInv cfg { s with clients := updFirst k r s.clients } := by
  intro t' ht'
  rcases mem_updFirst ht' with h1 | ⟨b', hb', _, hbody⟩
  · exact h t' h1
  · rw [hbody]; exact hr b' hb'

theorem LiveInv.appClient {s : Sap} (h : LiveInv cfg s) {k : Key} {b' : Body} (hb : CliLive cfg b') :
    LiveInv cfg { s with clients := s.clients ++ [Txn.mk k b'] } := by
  intro t' ht'
  simp only [List.mem_append, List.mem_singleton] at ht'
  rcases ht' with h1 | h1
  · exact h t' h1
  · subst h1; exact hb

theorem toClient_live {s : Sap} (h : LiveInv cfg s) (k : Key) (a : Apdu) :
    LiveInv cfg (toClient cfg s k a).1 := by
  unfold toClient
  cases hf : findTxn k s.clients with
  | none => exact h
  | some t =>
    obtain ⟨hmem, _⟩ := findTxn_some hf
    apply h.updClient
    intro b' hb'
    exact clientConfirmation_live (h t hmem) (Prod.ext hb' rfl)

theorem smapTimeout_live {s : Sap} (h : LiveInv cfg s) (srv : Bool) (k : Key) :
    LiveInv cfg (smapTimeout cfg s srv k).1 := by
  cases srv with
  | true => exact h.congr (smapTimeout_srv_clients s k)
  | false =>
    rcases smapTimeout_client_cases (cfg := cfg) s k with ⟨_, heq⟩ | ⟨t, d, hf, _, _, _, heq⟩
    · rw [heq]; exact h
    · rw [heq]
      obtain ⟨hmem, _⟩ := findTxn_some hf
      have hl := h t hmem
      apply h.updClient
      intro b' hb'
      exact clientTimeout_live (b := { t.body with timer := none })
        ⟨hl.apdu, hl.segs, hl.cap, hl.idx⟩ (Prod.ext hb' rfl)

theorem clientCreate_live {s : Sap} (h : LiveInv cfg s) (k : Key) (service : Nat) (data : Bytes) :
    LiveInv cfg (clientCreate cfg s k service data).1 := by
  unfold clientCreate
  dsimp only
  split
  · rename_i b' outs hind
    apply h.appClient
    exact clientIndication_live (cfg := cfg) rfl rfl rfl hind
  · exact h

theorem smapRequest_live {s : Sap} (h : LiveInv cfg s) (peer : Peer) (service : Nat) (data : Bytes)
    (chosen : Option Nat) : LiveInv cfg (smapRequest cfg s peer service data chosen).1 := by
  unfold smapRequest
  split
  · exact h
  · cases chosen with
    | some id =>
      dsimp only
      split
      · exact h
      · exact clientCreate_live h _ _ _
    | none =>
      dsimp only
      split
      · exact h.congr rfl
      · refine clientCreate_live ?_ _ _ _
        exact h.congr rfl

theorem smapConfirmation_live (hpos : cfg.TimeoutsPos) {s : Sap} (hinv : Inv s) (h : LiveInv cfg s)
    (peer : Peer) (a : Apdu) : LiveInv cfg (smapConfirmation cfg s peer a).1 := by
  by_cases hc : C11.clientSide a = true
  · rw [C11.smapConfirmation_clientSide hc]
    split
    · exact h
    · exact toClient_live h _ _
  · by_cases hs : C11.serverSide a = true
    · exact h.congr (C11.smapConfirmation_serverSide_clients hpos hinv hs)
    · have := (C11.smapConfirmation_noSide (cfg := cfg) (s := s) (peer := peer)
        (by simpa using hc) (by simpa using hs)).1
      rw [this]; exact h

/-- **one event of any kind** keeps `CliLive` for every listed client transaction -/
theorem live_step (hpos : cfg.TimeoutsPos) {s : Sap} (hinv : Inv s) (h : LiveInv cfg s) (e : Event) :
    LiveInv cfg (step cfg s e).1 := by
  rw [step_eq]
  apply LiveInv.congr _ (asapPass_clients _ _)
  cases e with
  | request peer service data chosen => exact smapRequest_live h peer service data chosen
  | unconfirmed peer service data =>
    simp only [smapStep]
    split <;> exact h
  | response peer a =>
    simp only [smapStep]
    split
    · exact h.congr (smapResponse_clients s peer a)
    · exact h
  | frame peer a => exact smapConfirmation_live hpos hinv h peer a
  | timeout srv peer id => exact smapTimeout_live h srv ⟨peer, id⟩
  | tick dt => exact h.congr rfl
  | learn peer info => exact h.congr rfl
  | setDcc d => exact h.congr rfl

theorem live_run (hpos : cfg.TimeoutsPos) : ∀ (es : List Event) {s : Sap}, Inv s → LiveInv cfg s →
    LiveInv cfg (run cfg s es).1 := by
  intro es
  induction es with
  | nil => intro s _ h; exact h
  | cons e es ih =>
    intro s hinv h
    simp only [run]
    exact ih (C11.inv_step hpos hinv e) (live_step hpos hinv h e)

/-! ### no exception from a client timer -/

theorem asapPass_noRaise : ∀ (outs : List Out) (s : Sap), NoInd outs →
    outs.any Out.isRaised = false → (asapPass cfg s outs).2.any Out.isRaised = false := by
  intro outs
  induction outs with
  | nil => intro s _ _; rfl
  | cons o os ih =>
    intro s hni hnr
    have hni' := (NoInd_cons o os).1 hni
    simp only [List.any_cons, Bool.or_eq_false_iff] at hnr
    simp only [asapPass, List.any_append, Bool.or_eq_false_iff]
    refine ⟨?_, ih _ hni'.2 hnr.2⟩
    cases o with
    | indicate p a => simp [Out.isInd] at hni'
    | confirm p a =>
      unfold asapUp
      dsimp only
      repeat' split
      all_goals simp [Out.isRaised]
    | send p a => simp [asapUp, Out.isRaised]
    | confirmAnon c e => simp [asapUp, Out.isRaised]
    | raised r => simp [Out.isRaised] at hnr

/-- **with an encodable configuration the expiry of a client timer raises nothing** -/
theorem client_timeout_noRaise (hok : cfgOk cfg = true) {s : Sap} (hinv : Inv s) (hlive : LiveInv cfg s)
    (p : Peer) (i : Nat) : (step cfg s (.timeout false p i)).2.any Out.isRaised = false := by
  rw [C11.step_timeout]
  rcases smapTimeout_client_cases (cfg := cfg) s ⟨p, i⟩ with ⟨_, heq⟩ | ⟨t, d, hf, _, _, _, heq⟩
  · rw [heq]; rfl
  · rw [heq]
    simp only [Sap.setClient]
    obtain ⟨hmem, _⟩ := findTxn_some hf
    have hl := hlive t hmem
    obtain ⟨hst, _, _⟩ := hinv.cOk t hmem
    apply asapPass_noRaise _ _ (clientTimeout_noInd _ _ _ _)
    exact clientTimeout_noRaise hok (b := { t.body with timer := none }) hst
      ⟨hl.apdu, hl.segs, hl.cap, hl.idx⟩

end BacVerif.Tsm
