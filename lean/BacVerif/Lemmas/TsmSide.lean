/-
  Lemmas.TsmSide — client-side handlers never hand an indication upward, hence
  the ASAP pass above them cannot touch a server transaction: a PDU addressed
  to the client side leaves the whole server list untouched (and vice versa).
-/
import BacVerif.Lemmas.TsmStep
namespace BacVerif.Tsm
set_option linter.unusedSimpArgs false
variable {cfg : Cfg}

def Out.isInd : Out → Bool
  | .indicate _ _ => true
  | _ => false

/-- no output of the list is an indication -/
def NoInd (outs : List Out) : Prop := ∀ o ∈ outs, o.isInd = false

@[simp] theorem NoInd_nil : NoInd [] := by intro o ho; cases ho
@[simp] theorem NoInd_cons (o : Out) (os : List Out) : NoInd (o :: os) ↔ o.isInd = false ∧ NoInd os := by
  simp [NoInd]
@[simp] theorem NoInd_append (l1 l2 : List Out) : NoInd (l1 ++ l2) ↔ NoInd l1 ∧ NoInd l2 := by
  simp only [NoInd, List.mem_append]
  constructor
  · intro h; exact ⟨fun o ho => h o (Or.inl ho), fun o ho => h o (Or.inr ho)⟩
  · rintro ⟨h1, h2⟩ o (ho | ho)
    · exact h1 o ho
    · exact h2 o ho
@[simp] theorem NoInd_sends (p : Peer) (l : List Apdu) : NoInd (sends p l) := by
  intro o ho
  simp only [sends, List.mem_map] at ho
  rcases ho with ⟨a, _, rfl⟩
  rfl
@[simp] theorem NoInd_raisedOf (r : Option Raise) : NoInd (raisedOf r) := by
  cases r <;> simp [raisedOf, Out.isInd]
@[simp] theorem isInd_send (p : Peer) (a : Apdu) : (Out.send p a).isInd = false := rfl
@[simp] theorem isInd_confirm (p : Peer) (a : Apdu) : (Out.confirm p a).isInd = false := rfl
@[simp] theorem isInd_raised (r : Raise) : (Out.raised r).isInd = false := rfl
@[simp] theorem isInd_confirmAnon (c e : Nat) : (Out.confirmAnon c e).isInd = false := rfl

theorem asapUp_noInd (s : Sap) {o : Out} (h : o.isInd = false) : (asapUp cfg s o).1 = s := by
  cases o with
  | indicate p a => simp [Out.isInd] at h
  | confirm p a =>
    unfold asapUp
    dsimp only
    repeat' split
    all_goals rfl
  | send p a => rfl
  | confirmAnon c e => rfl
  | raised r => rfl

theorem asapPass_noInd : ∀ (outs : List Out) (s : Sap), NoInd outs → (asapPass cfg s outs).1 = s := by
  intro outs
  induction outs with
  | nil => intro s _; rfl
  | cons o os ih =>
    intro s h
    have h' := (NoInd_cons o os).1 h
    simp only [asapPass]
    rw [asapUp_noInd s h'.1]
    exact ih s h'.2

theorem clientIndication_noInd (now : Nat) (di : Option DeviceInfo) (k : Key) (b : Body) (req : Apdu) :
    NoInd (clientIndication cfg now di k b req).2 := by
  unfold clientIndication
  simp only [clientAbortApp]
  gsplit
  all_goals simp

theorem clientConfirmation_noInd (now : Nat) (k : Key) (b : Body) (a : Apdu) :
    NoInd (clientConfirmation cfg now k b a).2 := by
  unfold clientConfirmation
  split
  · unfold clientSegmentedRequest
    simp only [clientAbortBoth]
    gsplit
    all_goals simp
  · unfold clientAwaitConfirmation
    simp only [clientAbortBoth, clientAbortApp]
    gsplit
    all_goals simp
  · unfold clientSegmentedConfirmation
    simp only [clientAbortBoth]
    gsplit
    all_goals simp
  · simp

theorem clientTimeout_noInd (now : Nat) (di : Option DeviceInfo) (k : Key) (b : Body) :
    NoInd (clientTimeout cfg now di k b).2 := by
  unfold clientTimeout
  simp only [clientAbortApp]
  split
  · gsplit
    all_goals simp
  · split
    · split
      · simp
      · rename_i req _
        have := clientIndication_noInd (cfg := cfg) now di k { b with retry := b.retry + 1 } req
        split
        · rename_i b1 outs1 hind
          rw [hind] at this
          split <;> exact this
        · rename_i outs1 hind
          rw [hind] at this
          exact this
    · simp
  · simp
  · simp

theorem toClient_noInd (s : Sap) (k : Key) (a : Apdu) : NoInd (toClient cfg s k a).2 := by
  unfold toClient
  split
  · simp
  · exact clientConfirmation_noInd _ _ _ _

end BacVerif.Tsm
