/-
  Lemmas.C03Basic — patterns, the follow-set condition and the leaf layer
  (helper lemmas for Props.C03; core Lean only)
-/
import BacVerif.Model.SchemaWF
namespace BacVerif.C03
open BacVerif BacVerif.Schema BacVerif.Codec BacVerif.SchemaWF

/-! ### patterns -/

theorem Pat.disj_sound {p q : Pat} {t : Tag} (hd : Pat.disj p q = true) (hq : q.matches t = true) :
    p.matches t = false := by
  cases p <;> cases q <;>
    simp_all [Pat.disj, Pat.matches, isApp, isCtx, isOpen] <;> (try (intros; simp_all)) <;> omega

theorem disjAll_sound {ps qs : List Pat} {t : Tag} (hd : disjAll ps qs = true)
    {q : Pat} (hq : q ∈ qs) (hm : q.matches t = true) : ∀ p ∈ ps, p.matches t = false := by
  intro p hp
  unfold disjAll at hd
  rw [List.all_eq_true] at hd
  have := hd p hp
  rw [List.all_eq_true] at this
  exact Pat.disj_sound (this q hq) hm

/-! ### the follow-set condition -/

/-- what follows an encoding: the end, a closing tag, or a tag no pattern of `S` matches -/
def Safe (S : List Pat) (rest : List Tag) : Prop := safe S rest = true

theorem Safe.nil (S : List Pat) : Safe S [] := rfl

theorem Safe.closing (S : List Pat) {t : Tag} (r : List Tag) (h : t.cls = .closing) : Safe S (t :: r) := by
  simp [Safe, safe, h]

theorem Safe.mono {S S' : List Pat} {rest : List Tag} (h : Safe S rest) (hs : ∀ p ∈ S', p ∈ S) :
    Safe S' rest := by
  cases rest with
  | nil => rfl
  | cons t r =>
    simp only [Safe, safe, Bool.or_eq_true, beq_iff_eq, List.all_eq_true, Bool.not_eq_eq_eq_not,
      Bool.not_true] at h ⊢
    rcases h with h | h
    · exact Or.inl h
    · exact Or.inr fun p hp => h p (hs p hp)

theorem Safe.cons_iff {S : List Pat} {t : Tag} {r : List Tag} :
    Safe S (t :: r) ↔ t.cls = .closing ∨ ∀ p ∈ S, p.matches t = false := by
  simp [Safe, safe]

theorem Safe.of_nomatch {S : List Pat} {t : Tag} {r : List Tag} (h : ∀ p ∈ S, p.matches t = false) :
    Safe S (t :: r) := Safe.cons_iff.mpr (Or.inr h)

/-- with `anyTag` in the set only the end or a closing tag may follow -/
theorem Safe.anyTag {S : List Pat} {rest : List Tag} (h : Safe S rest) (hm : Pat.anyTag ∈ S) :
    rest = [] ∨ ∃ t r, rest = t :: r ∧ t.cls = .closing := by
  cases rest with
  | nil => exact Or.inl rfl
  | cons t r =>
    right
    refine ⟨t, r, rfl, ?_⟩
    rcases Safe.cons_iff.mp h with h | h
    · exact h
    · have := h _ hm
      simpa [Pat.matches] using this

/-- first tag of an encoding: none only if nullable, otherwise not a closing tag and matched by `first` -/
def HeadOK (first : List Pat) (nullable : Bool) : List Tag → Prop
  | [] => nullable = true
  | t :: _ => t.cls ≠ .closing ∧ ∃ p ∈ first, p.matches t = true

/-! ### leaves -/

theorem leafOK_check {a lvt : Nat} {data : Bytes} (h : leafOK a lvt data = true) :
    leafCheck a ⟨.app, a, lvt, data⟩ = .ok () := by
  unfold leafOK at h
  simp only [Bool.and_eq_true] at h
  obtain ⟨⟨h1, _⟩, _⟩ := h
  split at h1
  · assumption
  · simp at h1

theorem leafOK_le {a lvt : Nat} {data : Bytes} (h : leafOK a lvt data = true) : a ≤ 12 := by
  have := leafOK_check h
  unfold leafCheck at this
  simp only [ne_eq, not_true_eq_false, or_self, ↓reduceIte] at this
  split at this <;> first | omega | simp at this

theorem leafOK_bool {lvt : Nat} {data : Bytes} (h : leafOK 1 lvt data = true) : lvt ≤ 1 ∧ data = [] := by
  have hc := leafOK_check h
  unfold leafOK at h
  simp only [Bool.and_eq_true, ↓reduceIte, List.isEmpty_iff] at h
  refine ⟨?_, h.1.2⟩
  simp only [leafCheck, ne_eq, not_true_eq_false, or_self, ↓reduceIte] at hc
  split at hc
  · simp at hc
  · omega

theorem leafOK_len {a lvt : Nat} {data : Bytes} (h : leafOK a lvt data = true) (ha : a ≠ 1) :
    lvt = data.length := by
  unfold leafOK at h
  simp only [Bool.and_eq_true, ha, ↓reduceIte, beq_iff_eq] at h
  exact h.1.2

theorem leafOK_fits {a lvt : Nat} {data : Bytes} (h : leafOK a lvt data = true) : lvt < 4294967296 := by
  unfold leafOK at h
  simp only [Bool.and_eq_true, decide_eq_true_eq] at h
  exact h.2

/-- application-tagged leaf: `klass(tag).value` gives the payload back -/
theorem prim_app_roundtrip {a lvt : Nat} {data : Bytes} (h : leafOK a lvt data = true) :
    primOfTag a ⟨.app, a, lvt, data⟩ = .ok (.prim lvt data) := by
  simp [primOfTag, leafOK_check h]

/-- context-tagged leaf: app_to_context, then context_to_app and `klass(tag).value` -/
theorem prim_ctx_roundtrip {a lvt : Nat} {data : Bytes} (c : Nat) (h : leafOK a lvt data = true) :
    ∃ t, appToContext c ⟨.app, a, lvt, data⟩ = .ok t ∧ t.cls = .ctx ∧ t.num = c ∧
      ∃ t', contextToApp a t = .ok t' ∧ primOfTag a t' = .ok (.prim lvt data) := by
  by_cases ha : a = 1
  · subst ha
    obtain ⟨hl, hd⟩ := leafOK_bool h
    subst hd
    refine ⟨⟨.ctx, c, 1, [UInt8.ofNat lvt]⟩, ?_, rfl, rfl, ⟨.app, 1, lvt, []⟩, ?_, prim_app_roundtrip h⟩
    · have : lvt < 256 := by omega
      simp [appToContext, this]
    · have : (UInt8.ofNat lvt).toNat = lvt := by
        rw [UInt8.toNat_ofNat']; omega
      simp [contextToApp, this]
  · have hl := leafOK_len h ha
    subst hl
    refine ⟨⟨.ctx, c, data.length, data⟩, ?_, rfl, rfl, ⟨.app, a, data.length, data⟩, ?_, prim_app_roundtrip h⟩
    · simp [appToContext, ha]
    · simp [contextToApp, ha]

theorem atom_roundtrip {a lvt : Nat} {data : Bytes} (ha : a ≤ 12) (h : leafOK a lvt data = true) :
    atomOfTag ⟨.app, a, lvt, data⟩ = .ok (some (.atom a lvt data)) := by
  simp [atomOfTag, ha, leafOK_check h]

end BacVerif.C03
