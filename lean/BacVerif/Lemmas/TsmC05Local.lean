/-
  Lemmas.TsmC05Local — lifting of per-transaction facts to the access point.

  `step` touches one transaction per handler call.  A `Local` specification
  names an invariant for every listed client / server transaction, what is
  assumed about inbound frames and application calls, and a guarantee for
  every output; `Local.Sound` states the handler-level obligations (one per
  handler of Model/Tsm/Ssm.lean); `Local.step` concludes that `step` keeps
  the invariants of ALL listed transactions and that EVERY output (after the
  ASAP filter) satisfies the guarantee.  Used three times by C05 (sender,
  receiver, wire lemmas).

  The device-information cache is a parameter `dev`: the theorem is about
  steps that leave it unchanged (no `learn` event; a record that exists
  already states that the peer receives segments, so `ServerSSM.idle` has
  nothing to promote) — the property's standing assumption "device
  information does not change during the transfer".
-/
import BacVerif.Lemmas.TsmList
namespace BacVerif.Tsm
set_option linter.unusedSimpArgs false
set_option linter.unusedVariables false

variable {cfg : Cfg} {dev : List (Peer × DeviceInfo)}

/-- `heldDI` as a function of the cache alone -/
def heldOf (dev : List (Peer × DeviceInfo)) (k : Key) (b : Body) : Option DeviceInfo :=
  if b.hasDI then lookupDI dev k.peer else none

/-- the `maxNpduLength` `smapResponse` reads -/
def npduOf (dev : List (Peer × DeviceInfo)) (k : Key) (b : Body) : Option Nat :=
  match heldOf dev k b with
  | some d => d.maxNpdu
  | none => none

/-- `newBody` as a function of the cache alone -/
def newBodyD (cfg : Cfg) (dev : List (Peer × DeviceInfo)) (peer : Peer) : Body :=
  { hasDI := (lookupDI dev peer).isSome, maxApdu := cfg.maxApdu, maxSegs := cfg.maxSegs }

structure Local (cfg : Cfg) (dev : List (Peer × DeviceInfo)) where
  /-- invariant of every listed client transaction -/
  CI : Key → Body → Prop
  /-- invariant of every listed server transaction -/
  SI : Key → Body → Prop
  /-- assumption on a frame dispatched to an existing client transaction -/
  FC : Key → Body → Apdu → Prop
  /-- … to an existing server transaction -/
  FS : Key → Body → Apdu → Prop
  /-- … on a ConfirmedRequest that opens a server transaction -/
  FN : Key → Apdu → Prop
  /-- assumption on an application answer for an existing server transaction -/
  RS : Key → Body → Apdu → Prop
  /-- assumption on an application request that opens a client transaction -/
  QN : Key → Nat → Bytes → Prop
  /-- guarantee for every output -/
  OO : Out → Prop

/-- result of a handler: the surviving body keeps the invariant, outputs are fine -/
def Local.HRes (I : Key → Body → Prop) (OO : Out → Prop) (k : Key) (x : Res) : Prop :=
  (∀ b', x.1 = some b' → I k b') ∧ ∀ o ∈ x.2, OO o

structure Local.Sound (L : Local cfg dev) : Prop where
  cConf : ∀ now k b a, L.CI k b → a.invokeId = k.id → L.FC k b a →
    Local.HRes L.CI L.OO k (clientConfirmation cfg now k b a)
  cTime : ∀ now k b, L.CI k b →
    Local.HRes L.CI L.OO k
      (clientTimeout cfg now (heldOf dev k { b with timer := none }) k { b with timer := none })
  cNew : ∀ now k service data, L.QN k service data →
    Local.HRes L.CI L.OO k
      (clientIndication cfg now (heldOf dev k (newBodyD cfg dev k.peer)) k (newBodyD cfg dev k.peer)
        { ty := 0, service := service, invokeId := k.id, data := data })
  sInd : ∀ now k b a, L.SI k b → a.invokeId = k.id → L.FS k b a →
    Local.HRes L.SI L.OO k (serverIndication cfg now k b a)
  sNew : ∀ now k a, a.ty = 0 → a.invokeId = k.id → L.FN k a →
    Local.HRes L.SI L.OO k
      (serverIdle cfg now (promote a.sa (heldOf dev k (newBodyD cfg dev k.peer))) k
        (newBodyD cfg dev k.peer) a)
  sConf : ∀ now k b a, L.SI k b → a.invokeId = k.id → L.RS k b a →
    Local.HRes L.SI L.OO k (serverConfirmation cfg now (npduOf dev k b) k b a)
  sTime : ∀ now k b, L.SI k b →
    Local.HRes L.SI L.OO k (serverTimeout cfg now k { b with timer := none })
  /-- the reject / abort the ASAP sends down when a request does not decode -/
  rsAsap : ∀ k b id r, L.RS k b { ty := 6, invokeId := id, reason := r } ∧
                       L.RS k b { ty := 7, invokeId := id, reason := r }
  oAnon : ∀ c e, L.OO (.confirmAnon c e)
  oRaised : ∀ x, L.OO (.raised x)
  oUnconfSend : ∀ p service data, L.OO (.send p { ty := 1, service := service, data := data })
  oUnconfInd : ∀ p a, a.ty = 1 → L.OO (.indicate p a)

/-- what is assumed about the event -/
def Local.EvOk (L : Local cfg dev) (s : Sap) : Event → Prop
  | .frame p a =>
    (∀ t, findTxn ⟨p, a.invokeId⟩ s.clients = some t → L.FC t.key t.body a) ∧
    (∀ t, findTxn ⟨p, a.invokeId⟩ s.servers = some t → L.FS t.key t.body a) ∧
    (a.ty = 0 → findTxn ⟨p, a.invokeId⟩ s.servers = none →
        L.FN ⟨p, a.invokeId⟩ a ∧ ∀ d, lookupDI dev p = some d → promote a.sa (some d) = some d)
  | .response p a => ∀ t, findTxn ⟨p, a.invokeId⟩ s.servers = some t → L.RS t.key t.body a
  | .request p service data _ => ∀ id, L.QN ⟨p, id⟩ service data
  | .learn _ _ => False
  | _ => True

/-- the invariants of all listed transactions, and the cache is `dev` -/
structure Local.Holds (L : Local cfg dev) (s : Sap) : Prop where
  dev : s.devInfo = dev
  cli : ∀ t ∈ s.clients, L.CI t.key t.body
  srv : ∀ t ∈ s.servers, L.SI t.key t.body

def Local.Good (L : Local cfg dev) (x : Sap × List Out) : Prop :=
  L.Holds x.1 ∧ ∀ o ∈ x.2, L.OO o

theorem upd_all {I : Key → Body → Prop} {k : Key} {r : Option Body} {l : List Txn}
    (hl : ∀ t ∈ l, I t.key t.body) (hr : ∀ b', r = some b' → I k b') :
    ∀ t ∈ updFirst k r l, I t.key t.body := by
  intro t ht
  rcases mem_updFirst ht with h | ⟨b', hb', hk, hb⟩
  · exact hl t h
  · rw [hk, hb]; exact hr b' hb'

theorem app_all {I : Key → Body → Prop} {k : Key} {b : Body} {l : List Txn}
    (hl : ∀ t ∈ l, I t.key t.body) (hb : I k b) : ∀ t ∈ l ++ [Txn.mk k b], I t.key t.body := by
  intro t ht
  simp only [List.mem_append, List.mem_singleton] at ht
  rcases ht with h | h
  · exact hl t h
  · subst h; exact hb

theorem heldDI_eq (s : Sap) (k : Key) (b : Body) : heldDI s k b = heldOf s.devInfo k b := rfl

theorem newBody_eq (cfg : Cfg) (s : Sap) (p : Peer) : newBody cfg s p = newBodyD cfg s.devInfo p := rfl

theorem heldOf_new (cfg : Cfg) (dev : List (Peer × DeviceInfo)) (k : Key) :
    heldOf dev k (newBodyD cfg dev k.peer) = lookupDI dev k.peer := by
  unfold heldOf newBodyD
  cases h : lookupDI dev k.peer <;> simp [h]

theorem setDI_same {l : List (Peer × DeviceInfo)} {p : Peer} {d : DeviceInfo}
    (h : lookupDI l p = some d) : setDI l p d = l := by
  induction l with
  | nil => simp [lookupDI] at h
  | cons x xs ih =>
    obtain ⟨q, e⟩ := x
    simp only [lookupDI] at h
    simp only [setDI]
    split at h
    · rename_i hq
      simp only [Option.some.injEq] at h
      simp [hq, h]
    · rename_i hq
      simp [hq, ih h]

namespace Local

theorem good_nil (L : Local cfg dev) {s : Sap} (h : L.Holds s) : L.Good (s, []) :=
  ⟨h, by intro o ho; cases ho⟩

variable (L : Local cfg dev) (hs : L.Sound)
include hs

theorem toClient_good {s : Sap} (h : L.Holds s) {k : Key} {a : Apdu} (hid : a.invokeId = k.id)
    (hf : ∀ t, findTxn k s.clients = some t → L.FC t.key t.body a) :
    L.Good (toClient cfg s k a) := by
  unfold toClient
  cases hfind : findTxn k s.clients with
  | none => exact ⟨h, by intro o ho; cases ho⟩
  | some t =>
    obtain ⟨hmem, hkey⟩ := findTxn_some hfind
    have hr := hs.cConf s.now t.key t.body a (h.cli t hmem) (by rw [hkey]; exact hid) (hf t hfind)
    refine ⟨⟨h.dev, ?_, h.srv⟩, hr.2⟩
    exact upd_all h.cli (by rw [← hkey]; exact hr.1)

theorem toServer_good {s : Sap} (h : L.Holds s) {k : Key} {a : Apdu} (hid : a.invokeId = k.id)
    (hf : ∀ t, findTxn k s.servers = some t → L.FS t.key t.body a) :
    L.Good (toServer cfg s k a) := by
  unfold toServer
  cases hfind : findTxn k s.servers with
  | none => exact ⟨h, by intro o ho; cases ho⟩
  | some t =>
    obtain ⟨hmem, hkey⟩ := findTxn_some hfind
    have hr := hs.sInd s.now t.key t.body a (h.srv t hmem) (by rw [hkey]; exact hid) (hf t hfind)
    refine ⟨⟨h.dev, h.cli, ?_⟩, hr.2⟩
    exact upd_all h.srv (by rw [← hkey]; exact hr.1)

theorem serverCreate_good {s : Sap} (h : L.Holds s) {k : Key} {a : Apdu} (hty : a.ty = 0)
    (hid : a.invokeId = k.id) (hn : L.FN k a)
    (hp : ∀ d, lookupDI dev k.peer = some d → promote a.sa (some d) = some d) :
    L.Good (serverCreate cfg s k a) := by
  have hr := hs.sNew s.now k a hty hid hn
  have hdev := h.dev
  -- the cache does not move
  have hkeep : (s.withDI k.peer (promote a.sa (heldDI s k (newBody cfg s k.peer)))) = s := by
    rw [heldDI_eq, newBody_eq, hdev, heldOf_new]
    cases hl : lookupDI dev k.peer with
    | none => simp [promote, Sap.withDI]
    | some d =>
      rw [hp d hl]
      simp only [Sap.withDI]
      rw [hdev, setDI_same hl, ← hdev]
  unfold serverCreate
  simp only [hkeep]
  rw [heldDI_eq, newBody_eq, hdev]
  generalize hx : serverIdle cfg s.now (promote a.sa (heldOf dev k (newBodyD cfg dev k.peer))) k
      (newBodyD cfg dev k.peer) a = x at hr
  obtain ⟨r, outs⟩ := x
  cases r with
  | none => exact ⟨h, hr.2⟩
  | some b' =>
    dsimp only
    exact ⟨⟨rfl, h.cli, app_all h.srv (hr.1 b' rfl)⟩, hr.2⟩

theorem clientCreate_good {s : Sap} (h : L.Holds s) {k : Key} {service : Nat} {data : Bytes}
    (hq : L.QN k service data) : L.Good (clientCreate cfg s k service data) := by
  have hr := hs.cNew s.now k service data hq
  have hdev := h.dev
  unfold clientCreate
  simp only []
  rw [heldDI_eq, newBody_eq, hdev]
  generalize hx : clientIndication cfg s.now (heldOf dev k (newBodyD cfg dev k.peer)) k
      (newBodyD cfg dev k.peer) { ty := 0, service := service, invokeId := k.id, data := data } = x at hr
  obtain ⟨r, outs⟩ := x
  cases r with
  | none => exact ⟨h, hr.2⟩
  | some b' =>
    dsimp only
    exact ⟨⟨rfl, app_all h.cli (hr.1 b' rfl), h.srv⟩, hr.2⟩

theorem smapConfirmation_good {s : Sap} (h : L.Holds s) (p : Peer) (a : Apdu)
    (he : L.EvOk s (.frame p a)) : L.Good (smapConfirmation cfg s p a) := by
  obtain ⟨hc, hsv, hn⟩ := he
  unfold smapConfirmation
  split
  · exact good_nil L h
  · dsimp only
    split
    · -- ConfirmedRequest
      rename_i h0
      split
      · rename_i t hfind
        obtain ⟨hmem, hkey⟩ := findTxn_some hfind
        have hr := hs.sInd s.now t.key t.body a (h.srv t hmem) (by rw [hkey]) (hsv t hfind)
        exact ⟨⟨h.dev, h.cli, upd_all h.srv (by rw [← hkey]; exact hr.1)⟩, hr.2⟩
      · rename_i hfind
        have := hn h0 hfind
        exact serverCreate_good L hs h h0 rfl this.1 this.2
    · rename_i h1
      refine ⟨h, ?_⟩
      intro o ho
      simp only [List.mem_singleton] at ho
      subst ho
      exact hs.oUnconfInd p a h1
    all_goals first
      | exact toClient_good L hs h rfl hc
      | exact good_nil L h
      | (split
         · exact toClient_good L hs h rfl hc
         · exact toServer_good L hs h rfl hsv)

theorem smapRequest_good {s : Sap} (h : L.Holds s) (p : Peer) (service : Nat) (data : Bytes)
    (chosen : Option Nat) (he : L.EvOk s (.request p service data chosen)) :
    L.Good (smapRequest cfg s p service data chosen) := by
  unfold smapRequest
  split
  · exact good_nil L h
  · split
    · rename_i id
      split
      · refine ⟨h, ?_⟩
        intro o ho
        simp only [List.mem_singleton] at ho
        subst ho
        exact hs.oRaised _
      · exact clientCreate_good L hs h (he id)
    · split
      · rename_i next hnx
        refine ⟨⟨h.dev, h.cli, h.srv⟩, ?_⟩
        intro o ho
        simp only [List.mem_singleton] at ho
        subst ho
        exact hs.oRaised _
      · rename_i id next hnx
        exact clientCreate_good L hs (s := { s with nextId := next }) ⟨h.dev, h.cli, h.srv⟩ (he id)

theorem smapResponse_good {s : Sap} (h : L.Holds s) (p : Peer) (a : Apdu)
    (he : ∀ t, findTxn ⟨p, a.invokeId⟩ s.servers = some t → L.RS t.key t.body a) :
    L.Good (smapResponse cfg s p a) := by
  unfold smapResponse
  split
  · dsimp only
    split
    · exact good_nil L h
    · rename_i t hfind
      obtain ⟨hmem, hkey⟩ := findTxn_some hfind
      have hr := hs.sConf s.now t.key t.body a (h.srv t hmem) (by rw [hkey]) (he t hfind)
      have hx : heldDI s t.key t.body = heldOf dev t.key t.body := by rw [heldDI_eq, h.dev]
      unfold npduOf at hr
      rw [← hx] at hr
      have fin : ∀ x, Local.HRes L.SI L.OO t.key (serverConfirmation cfg s.now x t.key t.body a) →
          L.Good (s.setServer ⟨p, a.invokeId⟩ (serverConfirmation cfg s.now x t.key t.body a)) := by
        intro x hr
        exact ⟨⟨h.dev, h.cli, upd_all h.srv (by rw [← hkey]; exact hr.1)⟩, hr.2⟩
      cases hh : heldDI s t.key t.body with
      | none => rw [hh] at hr; exact fin _ hr
      | some d => rw [hh] at hr; exact fin _ hr
  · refine ⟨h, ?_⟩
    intro o ho
    simp only [List.mem_singleton] at ho
    subst ho
    exact hs.oRaised _

theorem smapTimeout_good {s : Sap} (h : L.Holds s) (srv : Bool) (k : Key) :
    L.Good (smapTimeout cfg s srv k) := by
  unfold smapTimeout
  split
  · exact good_nil L h
  · rename_i t hfind
    split
    · exact good_nil L h
    · split
      · dsimp only
        cases srv with
        | true =>
          simp only [if_true] at hfind ⊢
          obtain ⟨hmem, hkey⟩ := findTxn_some hfind
          have hr := hs.sTime s.now t.key t.body (h.srv t hmem)
          exact ⟨⟨h.dev, h.cli, upd_all h.srv (by rw [← hkey]; exact hr.1)⟩, hr.2⟩
        | false =>
          simp only [Bool.false_eq_true, if_false] at hfind ⊢
          obtain ⟨hmem, hkey⟩ := findTxn_some hfind
          have hr := hs.cTime s.now t.key t.body (h.cli t hmem)
          rw [heldDI_eq, h.dev]
          exact ⟨⟨h.dev, upd_all h.cli (by rw [← hkey]; exact hr.1), h.srv⟩, hr.2⟩
      · exact good_nil L h

theorem asapUp_good {s : Sap} (h : L.Holds s) {o : Out} (ho : L.OO o) : L.Good (asapUp cfg s o) := by
  have single : L.Good (s, [o]) := ⟨h, by intro o' h'; simp only [List.mem_singleton] at h'; subst h'; exact ho⟩
  have anon : ∀ c e, L.Good (s, [Out.confirmAnon c e]) := by
    intro c e
    exact ⟨h, by intro o' h'; simp only [List.mem_singleton] at h'; subst h'; exact hs.oAnon c e⟩
  unfold asapUp
  split
  · rename_i peer a
    split
    · split
      · exact single
      · exact smapResponse_good L hs h _ _ (fun t _ => (hs.rsAsap t.key t.body _ _).1)
      · exact smapResponse_good L hs h _ _ (fun t _ => (hs.rsAsap t.key t.body _ _).2)
    · split
      · split
        · exact single
        · exact good_nil L h
      · exact good_nil L h
  · split
    · exact single
    · split
      · split
        · exact single
        · exact good_nil L h
        · exact anon _ _
      · split
        · split
          · exact single
          · exact anon _ _
        · exact good_nil L h
  · exact single

theorem asapPass_good : ∀ (outs : List Out) {s : Sap}, L.Holds s → (∀ o ∈ outs, L.OO o) →
    L.Good (asapPass cfg s outs) := by
  intro outs
  induction outs with
  | nil => intro s h _; exact good_nil L h
  | cons o os ih =>
    intro s h ho
    simp only [asapPass]
    have g1 := asapUp_good L hs h (ho o List.mem_cons_self)
    have g2 := ih g1.1 (fun o' h' => ho o' (List.mem_cons_of_mem _ h'))
    refine ⟨g2.1, ?_⟩
    intro o' h'
    simp only [List.mem_append] at h'
    rcases h' with h' | h'
    · exact g1.2 o' h'
    · exact g2.2 o' h'

/-- **lifting.**  One step of the access point keeps the invariant of every
    listed transaction, leaves the cache alone, and every output satisfies
    the guarantee. -/
theorem step_good {s : Sap} (h : L.Holds s) (e : Event) (he : L.EvOk s e) :
    L.Good (step cfg s e) := by
  unfold step
  have key : L.Good (smapStep cfg s e) := by
    cases e with
    | request p service data chosen => exact smapRequest_good L hs h p service data chosen he
    | unconfirmed p service data =>
      simp only [smapStep]
      split
      · refine ⟨h, ?_⟩
        intro o ho
        simp only [List.mem_singleton] at ho
        subst ho
        exact hs.oUnconfSend _ _ _
      · exact good_nil L h
    | response p a =>
      simp only [smapStep]
      split
      · exact smapResponse_good L hs h p a he
      · exact good_nil L h
    | frame p a => exact smapConfirmation_good L hs h p a he
    | timeout srv p id => exact smapTimeout_good L hs h srv ⟨p, id⟩
    | tick dt => exact ⟨⟨h.dev, h.cli, h.srv⟩, by intro o ho; cases ho⟩
    | learn p info => exact absurd he (by simp [Local.EvOk])
    | setDcc d => exact ⟨⟨h.dev, h.cli, h.srv⟩, by intro o ho; cases ho⟩
  generalize smapStep cfg s e = x at key
  obtain ⟨s1, outs⟩ := x
  exact asapPass_good L hs outs key.1 key.2

end Local
end BacVerif.Tsm
