/-
  Lemmas.TsmC04Step — one event of the access point, seen from one client key:

      confirmations for k emitted  +  [k listed afterwards]  =  [k listed before]

  at the boundary SMAP → ASAP (`smapStep`, equality for every event that is
  not a new request for k), and `≤` at the boundary ASAP → application
  (`step`): the ASAP never adds a confirmation, it can only drop one.
-/
import BacVerif.Lemmas.TsmC04Conf
namespace BacVerif.Tsm
set_option linter.unusedSimpArgs false
set_option linter.unusedVariables false
variable {cfg : Cfg}

/-- 1 if a client transaction with key `k` is listed, else 0 -/
def liveC (s : Sap) (k : Key) : Nat := if (findTxn k s.clients).isSome then 1 else 0

theorem liveC_le_one (s : Sap) (k : Key) : liveC s k ≤ 1 := by
  unfold liveC; split <;> omega

theorem liveC_congr {s s' : Sap} (h : s'.clients = s.clients) (k : Key) : liveC s' k = liveC s k := by
  unfold liveC; rw [h]

theorem liveC_zero {s : Sap} {k : Key} : liveC s k = 0 ↔ findTxn k s.clients = none := by
  unfold liveC
  cases findTxn k s.clients <;> simp

theorem liveC_one {s : Sap} {k : Key} : liveC s k = 1 ↔ ∃ t, findTxn k s.clients = some t := by
  unfold liveC
  cases findTxn k s.clients <;> simp

/-! ### list facts -/

theorem findTxn_updFirst_none {k : Key} {l : List Txn} (h : (l.map Txn.key).Nodup) :
    findTxn k (updFirst k none l) = none := by
  induction l with
  | nil => rfl
  | cons x xs ih =>
    simp only [List.map_cons, List.nodup_cons] at h
    simp only [updFirst]
    split
    · rename_i hx
      have hk := (Txn.is_iff k x).1 hx
      apply findTxn_none.2
      intro t ht hkt
      apply h.1
      rw [hk, ← hkt]
      exact List.mem_map_of_mem ht
    · rename_i hx
      simp only [findTxn, hx]
      exact ih h.2

theorem findTxn_updFirst_some {k : Key} {l : List Txn} {t : Txn} (b : Body)
    (h : findTxn k l = some t) : findTxn k (updFirst k (some b) l) = some { t with body := b } := by
  induction l with
  | nil => simp [findTxn] at h
  | cons x xs ih =>
    simp only [findTxn] at h
    simp only [updFirst]
    split at h
    · rename_i hx
      have hxt := Option.some.inj h
      subst hxt
      have : Txn.is k { x with body := b } = true := by simpa [Txn.is] using hx
      simp [hx, findTxn, this]
    · rename_i hx
      simp [hx, findTxn, ih h]

theorem findTxn_filter_ne {k kt : Key} (hne : k ≠ kt) (l : List Txn) :
    findTxn k (l.filter (fun t => !t.is kt)) = findTxn k l := by
  induction l with
  | nil => rfl
  | cons x xs ih =>
    by_cases hx : x.is kt = true
    · have hk := (Txn.is_iff kt x).1 hx
      have hxk : x.is k = false := (Txn.is_false_iff k x).2 (by rw [hk]; exact fun h => hne h.symm)
      simp [List.filter, hx, findTxn, hxk, ih]
    · have hx' : x.is kt = false := by simpa using hx
      simp only [List.filter, hx', Bool.not_false, findTxn]
      split
      · rfl
      · exact ih

theorem findTxn_sameExcept {k kt : Key} {l l' : List Txn} (h : SameExcept kt l l') (hne : k ≠ kt) :
    findTxn k l' = findTxn k l := by
  rw [← findTxn_filter_ne hne l', ← findTxn_filter_ne hne l, h]

theorem findTxn_append_key (k : Key) (b : Body) (l : List Txn) :
    (findTxn k (l ++ [Txn.mk k b])).isSome = true := by
  induction l with
  | nil =>
    have : Txn.is k (Txn.mk k b) = true := (Txn.is_iff k _).2 rfl
    simp [findTxn, this]
  | cons x xs ih =>
    simp only [List.cons_append, findTxn]
    split
    · rfl
    · exact ih

theorem liveC_touch {kt k : Key} {s s' : Sap} {outs : List Out} (h : Touch kt s s' outs) (hne : k ≠ kt) :
    liveC s' k = liveC s k := by
  unfold liveC
  rw [findTxn_sameExcept h.clients hne]

/-! ### the ASAP pass does not touch the client list -/

theorem smapResponse_clients (s : Sap) (p : Peer) (a : Apdu) :
    (smapResponse cfg s p a).1.clients = s.clients := by
  unfold smapResponse
  split
  · dsimp only
    split <;> rfl
  · rfl

theorem asapUp_clients (s : Sap) (o : Out) : (asapUp cfg s o).1.clients = s.clients := by
  cases o with
  | indicate p a =>
    unfold asapUp
    dsimp only
    repeat' split
    all_goals first
      | rfl
      | exact smapResponse_clients _ _ _
  | confirm p a => rw [asapUp_noInd s (by rfl)]
  | send p a => rfl
  | confirmAnon c e => rfl
  | raised r => rfl

theorem asapPass_clients : ∀ (outs : List Out) (s : Sap), (asapPass cfg s outs).1.clients = s.clients := by
  intro outs
  induction outs with
  | nil => intro s; rfl
  | cons o os ih =>
    intro s
    simp only [asapPass]
    rw [ih, asapUp_clients]

/-! ### entry points, own key -/

theorem conf_of_same {s s' : Sap} {outs : List Out} (h1 : s'.clients = s.clients) (h2 : nConf outs = 0)
    (k : Key) : nConf outs + liveC s' k = liveC s k := by
  rw [h2, liveC_congr h1]; omega

theorem setClient_conf {s : Sap} (hinv : Inv s) {k : Key} {t : Txn} (hf : findTxn k s.clients = some t)
    (r : Res) (hr : nConf r.2 + kept r.1 = 1) :
    nConf (s.setClient k r).2 + liveC (s.setClient k r).1 k = liveC s k := by
  have h1 : liveC s k = 1 := liveC_one.2 ⟨t, hf⟩
  obtain ⟨rb, ro⟩ := r
  simp only [Sap.setClient]
  cases rb with
  | none =>
    have : liveC { s with clients := updFirst k none s.clients } k = 0 :=
      liveC_zero.2 (findTxn_updFirst_none hinv.cKeys)
    simp only [kept_none] at hr
    rw [this, h1]; omega
  | some b =>
    have : liveC { s with clients := updFirst k (some b) s.clients } k = 1 :=
      liveC_one.2 ⟨_, findTxn_updFirst_some b hf⟩
    simp only [kept_some] at hr
    rw [this, h1]; omega

theorem toClient_conf {s : Sap} (hinv : Inv s) (k : Key) (a : Apdu) :
    nConf (toClient cfg s k a).2 + liveC (toClient cfg s k a).1 k = liveC s k := by
  unfold toClient
  cases hf : findTxn k s.clients with
  | none => simp
  | some t => exact setClient_conf hinv hf _ (clientConfirmation_conf _ _ _ _)

theorem toServer_conf (s : Sap) (k k' : Key) (a : Apdu) :
    nConf (toServer cfg s k a).2 + liveC (toServer cfg s k a).1 k' = liveC s k' := by
  unfold toServer
  cases hf : findTxn k s.servers with
  | none => simp
  | some t => exact conf_of_same rfl (serverIndication_noConf _ _ _ _) k'

theorem serverCreate_conf (s : Sap) (k k' : Key) (a : Apdu) :
    nConf (serverCreate cfg s k a).2 + liveC (serverCreate cfg s k a).1 k' = liveC s k' := by
  unfold serverCreate
  dsimp only
  have hn := serverIdle_noConf (cfg := cfg) s.now
    (promote a.sa (heldDI s k (newBody cfg s k.peer))) k (newBody cfg s k.peer) a
  split
  · rename_i b' outs hidle
    rw [hidle] at hn
    exact conf_of_same (by simp) hn k'
  · rename_i outs hidle
    rw [hidle] at hn
    exact conf_of_same (by simp) hn k'

theorem smapConfirmation_conf {s : Sap} (hinv : Inv s) (peer : Peer) (a : Apdu) :
    nConf (smapConfirmation cfg s peer a).2 + liveC (smapConfirmation cfg s peer a).1 ⟨peer, a.invokeId⟩
      = liveC s ⟨peer, a.invokeId⟩ := by
  unfold smapConfirmation
  split
  · simp
  · dsimp only
    split
    · cases hf : findTxn ⟨peer, a.invokeId⟩ s.servers with
      | some t => exact conf_of_same rfl (serverIndication_noConf _ _ _ _) _
      | none => exact serverCreate_conf _ _ _ _
    · simp
    · exact toClient_conf hinv _ _
    · exact toClient_conf hinv _ _
    · exact toClient_conf hinv _ _
    · exact toClient_conf hinv _ _
    · split
      · exact toClient_conf hinv _ _
      · exact toServer_conf _ _ _ _
    · split
      · exact toClient_conf hinv _ _
      · exact toServer_conf _ _ _ _
    · simp

theorem smapTimeout_conf {s : Sap} (hinv : Inv s) (srv : Bool) (k : Key) :
    nConf (smapTimeout cfg s srv k).2 + liveC (smapTimeout cfg s srv k).1 k = liveC s k := by
  unfold smapTimeout
  cases hf : findTxn k (if srv = true then s.servers else s.clients) with
  | none => simp
  | some t =>
    dsimp only
    split
    · simp
    · split
      · cases srv with
        | true => exact conf_of_same rfl (serverTimeout_noConf _ _ _) k
        | false =>
          simp only [Bool.false_eq_true, if_false] at hf ⊢
          exact setClient_conf hinv hf _ (clientTimeout_conf _ _ _ _)
      · simp

theorem smapResponse_conf (s : Sap) (peer : Peer) (a : Apdu) (k : Key) :
    nConf (smapResponse cfg s peer a).2 + liveC (smapResponse cfg s peer a).1 k = liveC s k :=
  conf_of_same (smapResponse_clients s peer a) (smapResponse_noConf s peer a) k

theorem clientCreate_conf (s : Sap) (k : Key) (service : Nat) (data : Bytes)
    (hfresh : findTxn k s.clients = none) :
    nConf (clientCreate cfg s k service data).2 + liveC (clientCreate cfg s k service data).1 k = 1 := by
  unfold clientCreate
  dsimp only
  have hc := clientIndication_conf (cfg := cfg) s.now (heldDI s k (newBody cfg s k.peer)) k
    (newBody cfg s k.peer) { ty := 0, service := service, invokeId := k.id, data := data }
  split
  · rename_i b' outs hind
    rw [hind] at hc
    simp only [kept_some] at hc
    have : liveC { s with clients := s.clients ++ [Txn.mk k b'] } k = 1 := by
      unfold liveC; simp [findTxn_append_key]
    rw [this]; omega
  · rename_i outs hind
    rw [hind] at hc
    simp only [kept_none] at hc
    have : liveC s k = 0 := liveC_zero.2 hfresh
    rw [this]; omega

/-- a request event, its own key: at most one of "confirmed at once" / "listed" -/
theorem smapRequest_conf {s : Sap} (hinv : Inv s) (peer : Peer) (service : Nat) (data : Bytes)
    (chosen : Option Nat) :
    nConf (smapRequest cfg s peer service data chosen).2 +
      liveC (smapRequest cfg s peer service data chosen).1 (requestKey s peer chosen) ≤ 1 := by
  unfold smapRequest
  split
  · simpa using liveC_le_one _ _
  · cases chosen with
    | some id =>
      dsimp only [requestKey]
      split
      · simpa using liveC_le_one _ _
      · rename_i hlive
        have hfresh : findTxn ⟨peer, id⟩ s.clients = none :=
          findTxn_none.2 (idLive_false.1 (by simpa using hlive))
        exact Nat.le_of_eq (clientCreate_conf s ⟨peer, id⟩ service data hfresh)
    | none =>
      dsimp only [requestKey]
      have hspec := getNextInvokeId_spec s peer hinv.nextLt
      cases hg : getNextInvokeId s peer with
      | mk r next =>
        rw [hg] at hspec
        cases r with
        | none => simpa using liveC_le_one _ _
        | some id =>
          dsimp only at hspec ⊢
          simp only [Option.getD_some]
          have hfresh : findTxn ⟨peer, id⟩ ({ s with nextId := next } : Sap).clients = none :=
            findTxn_none.2 (idLive_false.1 hspec.2.1)
          exact Nat.le_of_eq (clientCreate_conf { s with nextId := next } ⟨peer, id⟩ service data hfresh)

/-! ### every key -/

/-- from the own-key equation of a keyed entry point to every key -/
theorem conf_all_keys {kt : Key} {s s' : Sap} {outs : List Out} (ht : Touch kt s s' outs)
    (hown : nConf outs + liveC s' kt = liveC s kt) (k : Key) :
    nConfFor k outs + liveC s' k = liveC s k := by
  by_cases hk : k = kt
  · subst hk
    rw [nConfFor_attr ht.attr]; exact hown
  · rw [nConfFor_other ht.attr hk, liveC_touch ht hk]; omega

/-- **SMAP boundary, exact.**  Any event that is not a new request for `k`:
    the state machines call `sap_response` for `k` exactly when the client
    transaction `k` leaves the list in this very step, and then exactly once. -/
theorem smap_conf_step (hpos : cfg.TimeoutsPos) {s : Sap} (hinv : Inv s) (e : Event) (k : Key)
    (hreq : ∀ p svc d ch, e = .request p svc d ch → requestKey s p ch ≠ k) :
    nConfFor k (smapStep cfg s e).2 + liveC (smapStep cfg s e).1 k = liveC s k := by
  cases e with
  | request peer service data chosen =>
    have hne : k ≠ requestKey s peer chosen := fun h => hreq _ _ _ _ rfl h.symm
    have hs := (smapRequest_spec (cfg := cfg) hpos hinv peer service data chosen).1.touch
    simp only [smapStep]
    rw [nConfFor_other hs.attr hne, liveC_touch hs hne]; omega
  | unconfirmed peer service data =>
    simp only [smapStep]
    split <;> simp [nConfFor, List.countP_cons, Out.isConfFor]
  | response peer a =>
    simp only [smapStep]
    split
    · have := smapResponse_conf (cfg := cfg) s peer a k
      have hle := nConfFor_le k (smapResponse cfg s peer a).2
      rw [smapResponse_noConf] at hle this
      omega
    · simp
  | frame peer a =>
    exact conf_all_keys (smapConfirmation_spec hpos hinv peer a).1.touch
      (smapConfirmation_conf hinv peer a) k
  | timeout srv peer id =>
    exact conf_all_keys (smapTimeout_spec hpos hinv srv ⟨peer, id⟩).1.touch
      (smapTimeout_conf hinv srv ⟨peer, id⟩) k
  | tick dt =>
    simp only [smapStep, nConfFor_nil, Nat.zero_add]
    exact liveC_congr rfl k
  | learn peer info =>
    simp only [smapStep, nConfFor_nil, Nat.zero_add]
    exact liveC_congr rfl k
  | setDcc d =>
    simp only [smapStep, nConfFor_nil, Nat.zero_add]
    exact liveC_congr rfl k

theorem step_eq (s : Sap) (e : Event) :
    step cfg s e = asapPass cfg (smapStep cfg s e).1 (smapStep cfg s e).2 := rfl

/-- **application boundary.**  The same with `≤`: the ASAP adds nothing. -/
theorem conf_step (hpos : cfg.TimeoutsPos) {s : Sap} (hinv : Inv s) (e : Event) (k : Key)
    (hreq : ∀ p svc d ch, e = .request p svc d ch → requestKey s p ch ≠ k) :
    nConfFor k (step cfg s e).2 + liveC (step cfg s e).1 k ≤ liveC s k := by
  have h := smap_conf_step hpos hinv e k hreq
  have h1 := asapPass_confFor (cfg := cfg) k (smapStep cfg s e).2 (smapStep cfg s e).1
  have h2 := liveC_congr (asapPass_clients (cfg := cfg) (smapStep cfg s e).2 (smapStep cfg s e).1) k
  rw [step_eq, h2]
  omega

/-- a request event, any key: at most one of "confirmed" / "listed afterwards" -/
theorem request_conf_step (hpos : cfg.TimeoutsPos) {s : Sap} (hinv : Inv s) (peer : Peer)
    (service : Nat) (data : Bytes) (chosen : Option Nat) (k : Key) :
    nConfFor k (step cfg s (.request peer service data chosen)).2 +
      liveC (step cfg s (.request peer service data chosen)).1 k ≤ 1 := by
  have h1 := asapPass_confFor (cfg := cfg) k (smapStep cfg s (.request peer service data chosen)).2
    (smapStep cfg s (.request peer service data chosen)).1
  have h2 := liveC_congr (asapPass_clients (cfg := cfg)
    (smapStep cfg s (.request peer service data chosen)).2
    (smapStep cfg s (.request peer service data chosen)).1) k
  rw [step_eq, h2]
  simp only [smapStep] at h1 ⊢
  by_cases hk : k = requestKey s peer chosen
  · subst hk
    have := smapRequest_conf (cfg := cfg) hinv peer service data chosen
    have hle := nConfFor_le (requestKey s peer chosen) (smapRequest cfg s peer service data chosen).2
    omega
  · have hs := (smapRequest_spec (cfg := cfg) hpos hinv peer service data chosen).1.touch
    have := nConfFor_other hs.attr hk
    have := liveC_le_one (smapRequest cfg s peer service data chosen).1 k
    omega

end BacVerif.Tsm
