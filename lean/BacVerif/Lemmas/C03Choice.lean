/-
  Lemmas.C03Choice — Choice.encode / Choice.decode: the alternative that was
  encoded is the first one whose tag test passes (pairwise disjoint first tags).
-/
import BacVerif.Lemmas.C03Field
namespace BacVerif.C03
open BacVerif BacVerif.Schema BacVerif.Codec BacVerif.SchemaWF

section
variable (env : Env) (I : Table) (enc : Enc) (dec : Dec) (conf : Nat → Val → Bool)

/-- the alternative that is set: its encoding starts with a tag only it matches, and
    `decodeAlts` standing at this alternative decodes it -/
theorem alt_here (τ : Nat) (a : Field)
    (hgood : ∀ j, j < τ → Good I enc dec conf j)
    (hsane : altSane env τ a = true)
    (v : Val) (hc : conformsRef env conf a.ref v = true) :
    ∃ t r, encodeAlt env enc a v = .ok (t :: r) ∧ t.cls ≠ .closing ∧
      (∃ p ∈ fieldFirst env I a, p.matches t = true) ∧
      ∀ k as rest, decodeAlts env dec t (r ++ rest) k (a :: as) = .ok (.choice k v, rest) := by
  obtain ⟨ref, ctx, opt⟩ := a
  simp only at hc
  unfold altSane at hsane
  cases hk : kindOf env ref with
  | prim a0 =>
    have hr : ref = .prim a0 := by
      cases ref with
      | prim b => simp [kindOf] at hk; subst hk; rfl
      | anyAtomic => simp [kindOf] at hk
      | ty i => simp only [kindOf] at hk; split at hk <;> simp at hk
    subst hr
    unfold conformsRef at hc
    rw [hk] at hc
    cases v with
    | prim lvt data =>
      simp only at hc
      cases ctx with
      | none =>
        refine ⟨⟨.app, a0, lvt, data⟩, [], ?_, by simp, ?_, ?_⟩
        · simp [encodeAlt, hk, encodeLeaf, leafTag]
        · simp [fieldFirst, hk, Pat.matches, isApp]
        · intro k as rest
          simp [decodeAlts, hk, isApp, prim_app_roundtrip hc]
      | some c =>
        obtain ⟨t, ht, hcls, hnum, t', ht', hp⟩ := prim_ctx_roundtrip c hc
        refine ⟨t, [], ?_, by simp [hcls], ?_, ?_⟩
        · simp [encodeAlt, hk, encodeLeaf, leafTag, ht]
        · simp [fieldFirst, hk, Pat.matches, isCtx, hcls, hnum]
        · intro k as rest
          simp [decodeAlts, hk, isCtx, hcls, hnum, ht', hp]
    | _ => simp at hc
  | anyAtomic => rw [hk] at hsane; simp at hsane
  | bad => rw [hk] at hsane; simp at hsane
  | seqOf j =>
    rw [hk] at hsane
    cases ctx with
    | none => simp at hsane
    | some c =>
      simp only [Bool.and_eq_true, decide_eq_true_eq] at hsane
      have hcj : conf j v = true := by unfold conformsRef at hc; rw [hk] at hc; simpa using hc
      obtain ⟨ts, he, _, hrt⟩ := hgood j hsane.2 v hcj
      refine ⟨openTag c, ts ++ [closeTag c], ?_, by simp [openTag], ?_, ?_⟩
      · simp [encodeAlt, hk, he, wrap]
      · simp [fieldFirst, hk, Pat.matches, isOpen_openTag]
      · intro k as rest
        have hdec : dec j (ts ++ closeTag c :: rest) = .ok (v, closeTag c :: rest) :=
          hrt (closeTag c :: rest) (Safe.closing _ _ (by simp [closeTag]))
        simp [decodeAlts, hk, isOpen_openTag, hdec, expectClose_closeTag]
  | listOf j =>
    rw [hk] at hsane
    cases ctx with
    | none => simp at hsane
    | some c =>
      simp only [Bool.and_eq_true, decide_eq_true_eq] at hsane
      have hcj : conf j v = true := by unfold conformsRef at hc; rw [hk] at hc; simpa using hc
      obtain ⟨ts, he, _, hrt⟩ := hgood j hsane.2 v hcj
      refine ⟨openTag c, ts ++ [closeTag c], ?_, by simp [openTag], ?_, ?_⟩
      · simp [encodeAlt, hk, he, wrap]
      · simp [fieldFirst, hk, Pat.matches, isOpen_openTag]
      · intro k as rest
        have hdec : dec j (ts ++ closeTag c :: rest) = .ok (v, closeTag c :: rest) :=
          hrt (closeTag c :: rest) (Safe.closing _ _ (by simp [closeTag]))
        simp [decodeAlts, hk, isOpen_openTag, hdec, expectClose_closeTag]
  | struct j =>
    rw [hk] at hsane
    cases ctx with
    | none => simp at hsane
    | some c =>
      simp only [Bool.and_eq_true, decide_eq_true_eq] at hsane
      have hcj : conf j v = true := by unfold conformsRef at hc; rw [hk] at hc; simpa using hc
      obtain ⟨ts, he, _, hrt⟩ := hgood j hsane.2 v hcj
      refine ⟨openTag c, ts ++ [closeTag c], ?_, by simp [openTag], ?_, ?_⟩
      · simp [encodeAlt, hk, he, wrap]
      · simp [fieldFirst, hk, Pat.matches, isOpen_openTag]
      · intro k as rest
        have hdec : dec j (ts ++ closeTag c :: rest) = .ok (v, closeTag c :: rest) :=
          hrt (closeTag c :: rest) (Safe.closing _ _ (by simp [closeTag]))
        simp [decodeAlts, hk, isOpen_openTag, hdec, expectClose_closeTag]

/-- an alternative whose test does not match is skipped (`continue`) -/
theorem alt_skip (τ : Nat) (b : Field) (hsane : altSane env τ b = true) (t : Tag)
    (h : ∀ p ∈ fieldFirst env I b, p.matches t = false) (rest : List Tag) (k : Nat) (as : List Field) :
    decodeAlts env dec t rest k (b :: as) = decodeAlts env dec t rest (k + 1) as := by
  obtain ⟨ref, ctx, opt⟩ := b
  unfold altSane at hsane
  unfold fieldFirst at h
  cases hk : kindOf env ref <;> rw [hk] at hsane h <;> cases ctx <;>
    simp_all [decodeAlts, Pat.matches]

theorem goodAlts (τ : Nat)
    (hgood : ∀ j, j < τ → Good I enc dec conf j) :
    ∀ (alts : List Field) (k i : Nat) (a : Field) (v : Val),
      alts.all (altSane env τ) = true → altsDisj env I alts = true →
      alts[i]? = some a → conformsRef env conf a.ref v = true →
      ∃ t r, encodeAlt env enc a v = .ok (t :: r) ∧ t.cls ≠ .closing ∧
        (∃ p ∈ alts.flatMap (fieldFirst env I), p.matches t = true) ∧
        ∀ rest, decodeAlts env dec t (r ++ rest) k alts = .ok (.choice (k + i) v, rest) := by
  intro alts
  induction alts with
  | nil => intro k i a v _ _ hi; simp at hi
  | cons b as ih =>
    intro k i a v hsane hdisj hi hc
    simp only [List.all_cons, Bool.and_eq_true] at hsane
    simp only [altsDisj, Bool.and_eq_true] at hdisj
    cases i with
    | zero =>
      simp only [List.getElem?_cons_zero, Option.some.injEq] at hi
      subst hi
      obtain ⟨t, r, he, hcl, ⟨p, hp, hm⟩, hd⟩ := alt_here env I enc dec conf τ b hgood hsane.1 v hc
      exact ⟨t, r, he, hcl, ⟨p, by simp [hp], hm⟩, fun rest => by simpa using hd k as rest⟩
    | succ i =>
      simp only [List.getElem?_cons_succ] at hi
      obtain ⟨t, r, he, hcl, ⟨p, hp, hm⟩, hd⟩ := ih (k + 1) i a v hsane.2 hdisj.2 hi hc
      refine ⟨t, r, he, hcl, ⟨p, by simp only [List.flatMap_cons, List.mem_append]; exact Or.inr hp, hm⟩, ?_⟩
      intro rest
      -- `p` belongs to some later alternative `a'`, disjoint from `b`
      obtain ⟨a', ha', hpa'⟩ := List.mem_flatMap.mp hp
      have hdab : disjAll (fieldFirst env I b) (fieldFirst env I a') = true := by
        have := hdisj.1
        rw [List.all_eq_true] at this
        exact this a' ha'
      rw [alt_skip env I dec τ b hsane.1 t (disjAll_sound hdab hpa' hm)]
      rw [hd rest]
      have : k + 1 + i = k + (i + 1) := by omega
      rw [this]

/-- no alternative matches: `InvalidTag` (fix C03-decode-error-classes) -/
theorem alts_failfast (τ : Nat) (t : Tag) (rest : List Tag) :
    ∀ (alts : List Field) (k : Nat), alts.all (altSane env τ) = true →
      (∀ p ∈ alts.flatMap (fieldFirst env I), p.matches t = false) →
      decodeAlts env dec t rest k alts = .error .invalidTag := by
  intro alts
  induction alts with
  | nil => intro k _ _; simp [decodeAlts]
  | cons b as ih =>
    intro k hsane hn
    simp only [List.all_cons, Bool.and_eq_true] at hsane
    rw [alt_skip env I dec τ b hsane.1 t (fun p hp => hn p (by simp [hp]))]
    exact ih (k + 1) hsane.2 (fun p hp => hn p (by
      simp only [List.flatMap_cons, List.mem_append]; exact Or.inr hp))
end

end BacVerif.C03
