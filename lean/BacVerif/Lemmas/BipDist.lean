/-
  Lemmas.BipDist — the receiver multiset of a broadcast, for an arbitrary BDT relation:
  the total at a target node `x` for a Forwarded-NPDU sent to a peer BBMD, for an
  Original-Broadcast on a subnet, for a BBMD's own broadcast and for a foreign device's
  Distribute-Broadcast.  (`c` is the weight: 1 counts deliveries, 0 shows quiescence.)
-/
import BacVerif.Lemmas.BipCount
namespace BacVerif.Bip

/-! ### looking a BBMD up by address -/

def nodesOf (w : World) : List (Net × Node) := w.nets.flatMap fun n => n.nodes.map fun nd => (n, nd)

/-- the subnet and state of the BBMD with address `a` -/
def World.bbmdAt (w : World) (a : Addr) : Option (Net × Bbmd) :=
  (nodesOf w).findSome? fun p =>
    if p.2.addr = a then (match p.2.st with | .bbmd b => some (p.1, b) | _ => none) else none

theorem mem_nodesOf {w : World} {p : Net × Node} : p ∈ nodesOf w ↔ p.1 ∈ w.nets ∧ p.2 ∈ p.1.nodes := by
  unfold nodesOf
  simp only [List.mem_flatMap, List.mem_map]
  constructor
  · rintro ⟨n, hn, nd, hnd, rfl⟩; exact ⟨hn, hnd⟩
  · rintro ⟨h1, h2⟩; exact ⟨p.1, h1, p.2, h2, rfl⟩

theorem findSome_unique {α β} (g : α → Option β) (v : β) : ∀ (l : List α),
    (∀ p ∈ l, g p = some v ∨ g p = none) → (∃ p ∈ l, g p = some v) → l.findSome? g = some v := by
  intro l
  induction l with
  | nil => intro _ ⟨p, hp, _⟩; cases hp
  | cons a r ih =>
    intro h ⟨p, hp, hv⟩
    rw [List.findSome?_cons]
    rcases h a (List.mem_cons_self ..) with h1 | h1
    · rw [h1]
    · rw [h1]
      rcases List.mem_cons.1 hp with rfl | hp'
      · rw [h1] at hv; cases hv
      · exact ih (fun q hq => h q (List.mem_cons_of_mem _ hq)) ⟨p, hp', hv⟩

theorem bbmdAt_eq {w : World} (hw : WF w) {nc : Net} (hnc : nc ∈ w.nets) {cn : Node}
    (hcn : cn ∈ nc.nodes) {cb : Bbmd} (hst : cn.st = .bbmd cb) : w.bbmdAt cn.addr = some (nc, cb) := by
  unfold World.bbmdAt
  apply findSome_unique
  · intro p hp
    obtain ⟨h1, h2⟩ := mem_nodesOf.1 hp
    by_cases ha : p.2.addr = cn.addr
    · have hnode : p.2 = cn := hw.node_eq h1 hnc h2 hcn ha
      have hnet : p.1 = nc := hw.node_net h1 hnc h2 hcn ha
      left
      simp only [ha, if_true]
      rw [hnode, hst, hnet]
    · right; simp [ha]
  · exact ⟨(nc, cn), mem_nodesOf.2 ⟨hnc, hcn⟩, by simp [hst]⟩

/-! ### the closed forms -/

/-- copies at `x` when the BBMD `cb` of subnet `nc` gets a Forwarded-NPDU by unicast (two-hop):
    itself, the ordinary nodes of its subnet if it lists itself, its registered foreign devices -/
def viaPeer (nc : Net) (cb : Bbmd) (nx : Net) (x : Node) (c : Nat) : Nat :=
  hit x.addr cb.addr c
  + (if cb.selfListed = true ∧ nx.id = nc.id ∧ x.addr ≠ cb.addr ∧ x.isSimple = true then c else 0)
  + (if x.addr ∈ cb.fdt.map (·.addr) ∧ x.accepts cb.addr = true then c else 0)

/-- copies at `x` when a Forwarded-NPDU is sent to the broadcast address of subnet `nc` (one-hop):
    every node there that is not a foreign device, and the registered foreign devices of its BBMD -/
def viaHop (nc : Net) (cb : Bbmd) (nx : Net) (x : Node) (c : Nat) : Nat :=
  (if nx.id = nc.id ∧ x.isForeign = false then c else 0)
  + (if x.addr ∈ cb.fdt.map (·.addr) ∧ x.accepts cb.addr = true then c else 0)

/-- EXTRA copy: a foreign device inside subnet `nc` registered with `nc`'s own BBMD hears that
    BBMD's local re-broadcast (besides its FDT copy) -/
def extraLocal (nc : Net) (cb : Bbmd) (nx : Net) (x : Node) (c : Nat) : Nat :=
  if nx.id = nc.id ∧ x.accepts cb.addr = true then c else 0

/-- EXTRA copy: a foreign device inside subnet `nc` registered with the remote BBMD `sa` hears
    `sa`'s one-hop directed broadcast into `nc` (besides its FDT copy) -/
def extraHop (nc : Net) (sa : Addr) (nx : Net) (x : Node) (c : Nat) : Nat :=
  if nx.id = nc.id ∧ x.accepts sa = true then c else 0

/-- regular copies through the BDT entry `e` of the forwarding BBMD -/
def peerVal (w : World) (nx : Net) (x : Node) (c : Nat) (e : BdtEntry) : Nat :=
  match w.bbmdAt e.addr with
  | some (nc, cb) => if dirBcast e = e.addr then viaPeer nc cb nx x c else viaHop nc cb nx x c
  | none => 0

/-- extra copies through the BDT entry `e` of the forwarding BBMD `sa` -/
def peerExtra (w : World) (nx : Net) (x : Node) (c : Nat) (sa : Addr) (e : BdtEntry) : Nat :=
  match w.bbmdAt e.addr with
  | some (nc, cb) =>
      if dirBcast e = e.addr then (if cb.selfListed = true then extraLocal nc cb nx x c else 0)
      else extraHop nc sa nx x c
  | none => 0

/-- copies at `x` caused by BBMD `b` acting as the FIRST BBMD of a broadcast:
    every OTHER BDT entry, and its own foreign device table -/
def fwdFrom (w : World) (nx : Net) (x : Node) (c : Nat) (b : Bbmd) : Nat :=
  ((b.bdt.filter fun e => e.addr ≠ b.addr).map (peerVal w nx x c)).sum
  + (if x.addr ∈ b.fdt.map (·.addr) ∧ x.accepts b.addr = true then c else 0)

def fwdExtra (w : World) (nx : Net) (x : Node) (c : Nat) (b : Bbmd) : Nat :=
  ((b.bdt.filter fun e => e.addr ≠ b.addr).map (peerExtra w nx x c b.addr)).sum

/-- the forwarding part of every BBMD of subnet `n` that hears a broadcast of source `s` -/
def firstBbmds (w : World) (nx : Net) (x : Node) (c : Nat) (n : Net) (s : Addr) : Nat :=
  (n.nodes.map fun nd => if nd.addr ≠ s then
      (match nd.st with | .bbmd b => fwdFrom w nx x c b | _ => 0) else 0).sum

def firstExtras (w : World) (nx : Net) (x : Node) (c : Nat) (n : Net) (s : Addr) : Nat :=
  (n.nodes.map fun nd => if nd.addr ≠ s then
      (match nd.st with | .bbmd b => fwdExtra w nx x c b | _ => 0) else 0).sum

/-- same subnet, not the originator, not a foreign device -/
def sameSubnet (nx : Net) (x : Node) (c : Nat) (n : Net) (s : Addr) : Nat :=
  if nx.id = n.id ∧ x.addr ≠ s ∧ x.isForeign = false then c else 0

/-- the local re-broadcast of the BBMD `cb` of subnet `nc`, regular part -/
def viaLocal (nc : Net) (cb : Bbmd) (nx : Net) (x : Node) (c : Nat) : Nat :=
  if nx.id = nc.id ∧ x.addr ≠ cb.addr ∧ x.isSimple = true then c else 0

/-- copies at `x` of a foreign device's broadcast, distributed by its BBMD `cb` of subnet `nc` -/
def distFrom (w : World) (nx : Net) (x : Node) (c : Nat) (nc : Net) (cb : Bbmd) (fd : Addr) : Nat :=
  hit x.addr cb.addr c
  + (cb.bdt.map fun e => if e.addr = cb.addr then viaLocal nc cb nx x c else peerVal w nx x c e).sum
  + (if x.addr ∈ (cb.fdt.filter fun e => e.addr ≠ fd).map (·.addr) ∧ x.accepts cb.addr = true then c else 0)

def distExtra (w : World) (nx : Net) (x : Node) (c : Nat) (nc : Net) (cb : Bbmd) : Nat :=
  (cb.bdt.map fun e => if e.addr = cb.addr then extraLocal nc cb nx x c
    else peerExtra w nx x c cb.addr e).sum

section dist
variable {w : World} (hw : WF w) (hp : Pop w) (pd : Dgram → Nat) (c : Nat)
variable {nx : Net} (hnx : nx ∈ w.nets) {x : Node} (hx : x ∈ nx.nodes)
include hw hp hnx hx

theorem bbmdOk_of {n : Net} (hn : n ∈ w.nets) {ya : Addr} {b : Bbmd} (hy : (⟨ya, .bbmd b⟩ : Node) ∈ n.nodes) :
    b.addr = ya ∧ b.hasUpper = true ∧ (b.bdt.map (·.addr)).Nodup ∧ FdtNodup b.fdt ∧
      (∀ e ∈ b.bdt, ∃ nc ∈ w.nets, ∃ cn ∈ nc.nodes, cn.addr = e.addr ∧ cn.isBbmd = true ∧
          (dirBcast e = e.addr ∨ (dirBcast e = nc.bcast ∧ nc.covers nc.bcast = true))) ∧
      (∀ e ∈ b.fdt, ∃ nf ∈ w.nets, ∃ y ∈ nf.nodes, y.addr = e.addr ∧ y.isForeign = true) := by
  have := hp.1 n hn _ hy
  simp only [BbmdOk, and_true] at this
  exact this

/-- **unicast Forwarded-NPDU to a peer BBMD** (two-hop distribution) -/
theorem tot_peer {n : Net} (hn : n ∈ w.nets) {B : Node} (hB : B ∈ n.nodes)
    {nc : Net} (hnc : nc ∈ w.nets) {ca : Addr} {cb : Bbmd} (hC : (⟨ca, .bbmd cb⟩ : Node) ∈ nc.nodes)
    (o : Addr) (data : Data) (f : Nat) :
    tot (poAt x.addr c) pd (f + 4) w [⟨n.id, B.addr, ca, .forwarded o data⟩] =
      viaPeer nc cb nx x c + (if cb.selfListed = true then extraLocal nc cb nx x c else 0) := by
  obtain ⟨hca, hup, _, hfn, _, hfd⟩ := bbmdOk_of hw hp hnx hx hnc hC
  obtain ⟨g, hg, h⟩ := tot_unicast hw (poAt x.addr c) pd hn hnc hB hC B.addr (.forwarded o data) (f + 2)
  have hCb : (⟨ca, .bbmd cb⟩ : Node).isBbmd = true := rfl
  rw [show f + 4 = (f + 2) + 2 from rfl]
  simp only at h
  rw [h, nodeT_bbmd_fwd_unicast _ _ _ _ _ _ _ _ _ _ _ _ hup]
  unfold viaPeer extraLocal
  subst hca
  rcases hg with rfl | rfl
  · rw [show f + 2 = (f + 1) + 1 from rfl, tot_local_fwd hw hp pd c hnx hx hnc hC hCb]
    rw [show (f + 1) + 1 = f + 2 from rfl, tot_fdt_sum hw hp pd c hnx hx hnc hC cb.fdt hfn hfd]
    by_cases hs : cb.selfListed = true <;> simp [hs] <;> omega
  · rw [show f + 2 + 1 = (f + 2) + 1 from rfl, tot_local_fwd hw hp pd c hnx hx hnc hC hCb]
    rw [show (f + 2) + 1 = (f + 1) + 2 from rfl, tot_fdt_sum hw hp pd c hnx hx hnc hC cb.fdt hfn hfd]
    by_cases hs : cb.selfListed = true <;> simp [hs] <;> omega

/-- … addressed through the BDT entry `e` (two-hop or one-hop) of the sending BBMD `B` -/
theorem tot_peer_entry {n : Net} (hn : n ∈ w.nets) {B : Node} (hB : B ∈ n.nodes) (hBb : B.isBbmd = true)
    (e : BdtEntry) (hne : e.addr ≠ B.addr)
    (hent : ∃ nc ∈ w.nets, ∃ cn ∈ nc.nodes, cn.addr = e.addr ∧ cn.isBbmd = true ∧
        (dirBcast e = e.addr ∨ (dirBcast e = nc.bcast ∧ nc.covers nc.bcast = true)))
    (o : Addr) (data : Data) (f : Nat) :
    tot (poAt x.addr c) pd (f + 4) w [⟨n.id, B.addr, dirBcast e, .forwarded o data⟩] =
      peerVal w nx x c e + peerExtra w nx x c B.addr e := by
  obtain ⟨nc, hnc, cn, hcn, hce, hcb, hkind⟩ := hent
  obtain ⟨ca, cst⟩ := cn
  cases cst with
  | bbmd cb =>
    simp only at hce
    subst hce
    unfold peerVal peerExtra
    rw [bbmdAt_eq hw hnc hcn rfl]
    simp only
    rcases hkind with h2 | ⟨h1, hcov⟩
    · rw [h2, tot_peer hw hp pd c hnx hx hn hB hnc hcn]
      simp
    · have hnb : nc.bcast ≠ e.addr := fun h => (hw.2.2.1 nc hnc nc hnc _ hcn) h.symm
      obtain ⟨hca, hup, _, hfn, _, hfd⟩ := bbmdOk_of hw hp hnx hx hnc hcn
      have hnn : n.id ≠ nc.id := by
        intro hid
        have : n = nc := hw.net_eq hn hnc hid
        subst this
        have := hp.2 n hn _ hcn B hB rfl hBb
        exact hne (congrArg Node.addr this)
      rw [h1, tot_directed_fwd hw hp pd c hnx hx hn hB hnc hnn hcov hcn hup hfn hfd]
      simp only [hnb, if_false, viaHop, extraHop, hca]
  | simple => simp [Node.isBbmd, Kind.isBbmd] at hcb
  | foreign _ => simp [Node.isBbmd, Kind.isBbmd] at hcb

/-- everything the BBMD `b` (node `ya` of subnet `n`) sends out as first BBMD -/
theorem tot_fwdFrom {n : Net} (hn : n ∈ w.nets) {ya : Addr} {b : Bbmd}
    (hB : (⟨ya, .bbmd b⟩ : Node) ∈ n.nodes) (o : Addr) (data : Data) (f : Nat) :
    ((b.bdt.filter fun e => e.addr ≠ b.addr).map fun e =>
        tot (poAt x.addr c) pd (f + 4) w [⟨n.id, ya, dirBcast e, .forwarded o data⟩]).sum
    + (b.fdt.map fun e => tot (poAt x.addr c) pd (f + 4) w [⟨n.id, ya, e.addr, .forwarded o data⟩]).sum
    = fwdFrom w nx x c b + fwdExtra w nx x c b := by
  obtain ⟨hca, _, _, hfn, hbd, hfd⟩ := bbmdOk_of hw hp hnx hx hn hB
  subst hca
  unfold fwdFrom fwdExtra
  have h1 : ((b.bdt.filter fun e => e.addr ≠ b.addr).map fun e =>
        tot (poAt x.addr c) pd (f + 4) w [⟨n.id, b.addr, dirBcast e, .forwarded o data⟩]) =
      (b.bdt.filter fun e => e.addr ≠ b.addr).map fun e =>
        peerVal w nx x c e + peerExtra w nx x c b.addr e := by
    apply List.map_congr_left
    intro e he
    obtain ⟨heb, hne⟩ := List.mem_filter.1 he
    exact tot_peer_entry hw hp pd c hnx hx hn hB rfl e (by simpa using hne) (hbd e heb) o data f
  have h2 := tot_fdt_sum hw hp pd c hnx hx hn hB b.fdt hfn hfd o data (f + 2)
  simp only at h2
  rw [h1, sum_map_add, show f + 4 = (f + 2) + 2 from rfl, h2]
  omega

/-- **Original-Broadcast on a subnet** from source address `s`: same subnet ∪ what the
    subnet's BBMD forwards -/
theorem tot_orig_bcast {n : Net} (hn : n ∈ w.nets) (s : Addr) (data : Data) (f : Nat) :
    tot (poAt x.addr c) pd (f + 5) w [⟨n.id, s, n.bcast, .origBroadcast data⟩] =
      sameSubnet nx x c n s + firstBbmds w nx x c n s + firstExtras w nx x c n s := by
  rw [show f + 5 = (f + 4) + 1 from rfl, tot_bcast hw _ pd hn]
  have h1 : (n.nodes.map fun nd => if nd.addr ≠ s then
        nodeT (poAt x.addr c) pd (f + 4) w n s .bcast (.origBroadcast data) nd else 0) =
      n.nodes.map fun nd =>
        ((if nd.addr = x.addr then (if nd.addr ≠ s ∧ nd.isForeign = false then c else 0) else 0)
        + (if nd.addr ≠ s then (match nd.st with | .bbmd b => fwdFrom w nx x c b | _ => 0) else 0))
        + (if nd.addr ≠ s then (match nd.st with | .bbmd b => fwdExtra w nx x c b | _ => 0) else 0) := by
    apply List.map_congr_left
    intro nd hnd
    by_cases hne : nd.addr = s
    · simp [hne]
    · simp only [ne_eq, hne, not_false_eq_true, if_true, true_and]
      obtain ⟨ya, yst⟩ := nd
      cases yst with
      | simple => rw [nodeT_simple_ob]; simp [hit, Node.isForeign]
      | foreign fs => rw [nodeT_foreign_ob]; simp [Node.isForeign]
      | bbmd b =>
        obtain ⟨_, hup, _⟩ := bbmdOk_of hw hp hnx hx hn hnd
        rw [nodeT_bbmd_ob _ _ _ _ _ _ _ _ _ _ _ hup, Nat.add_assoc,
          tot_fwdFrom hw hp pd c hnx hx hn hnd s data f]
        simp only [hit, Node.isForeign]
        by_cases hya : ya = x.addr <;> simp [hya] <;> omega
  rw [h1, sum_map_add, sum_map_add, sum_nodes_at hw hnx hx hn]
  unfold sameSubnet firstBbmds firstExtras
  congr 2
  by_cases hid : nx.id = n.id <;> simp [hid]

/-- **a BBMD's own broadcast** (`indication` with a broadcast destination) -/
theorem tot_bbmd_origin {n : Net} (hn : n ∈ w.nets) {ya : Addr} {b : Bbmd}
    (hB : (⟨ya, .bbmd b⟩ : Node) ∈ n.nodes) (data : Data) (f : Nat) :
    tot (poAt x.addr c) pd (f + 5) w (outDgrams n ya (bbmdDown b .bcast data)) =
      sameSubnet nx x c n ya + firstBbmds w nx x c n ya + firstExtras w nx x c n ya
      + (fwdFrom w nx x c b + fwdExtra w nx x c b) := by
  obtain ⟨hca, _, _, _, _, _⟩ := bbmdOk_of hw hp hnx hx hn hB
  subst hca
  simp only [bbmdDown, outDgrams, outDgrams_append, outDgrams_toFdt, outDgrams_toPeers]
  rw [tot_cons, tot_append, tot_map, tot_map, tot_orig_bcast hw hp pd c hnx hx hn]
  have := tot_fwdFrom hw hp pd c hnx hx hn hB b.addr data (f + 1)
  simp only [Nat.add_assoc, Nat.reduceAdd] at this
  rw [← this]

/-- **a foreign device's broadcast**: Distribute-Broadcast-To-Network to its BBMD -/
theorem tot_foreign_origin {nf : Net} (hnf : nf ∈ w.nets) {F : Node} (hF : F ∈ nf.nodes)
    {nc : Net} (hnc : nc ∈ w.nets) {ca : Addr} {cb : Bbmd} (hC : (⟨ca, .bbmd cb⟩ : Node) ∈ nc.nodes)
    (data : Data) (f : Nat) :
    tot (poAt x.addr c) pd (f + 6) w [⟨nf.id, F.addr, ca, .distribute data⟩] =
      distFrom w nx x c nc cb F.addr + distExtra w nx x c nc cb := by
  obtain ⟨hca, hup, _, hfn, hbd, hfd⟩ := bbmdOk_of hw hp hnx hx hnc hC
  have hCb : (⟨ca, .bbmd cb⟩ : Node).isBbmd = true := rfl
  obtain ⟨g, hg, h⟩ := tot_unicast hw (poAt x.addr c) pd hnf hnc hF hC F.addr (.distribute data) (f + 4)
  rw [show f + 6 = (f + 4) + 2 from rfl]
  simp only at h
  rw [h, nodeT_bbmd_dist _ _ _ _ _ _ _ _ _ _ _ hup]
  unfold distFrom distExtra
  subst hca
  -- the value of every child is the same for both possible fuels
  have hbdt : ∀ g', (g' = f + 4 ∨ g' = f + 4 + 1) →
      (cb.bdt.map fun e => tot (poAt x.addr c) pd g' w
          [if e.addr = cb.addr then ⟨nc.id, cb.addr, nc.bcast, .forwarded F.addr data⟩
           else ⟨nc.id, cb.addr, dirBcast e, .forwarded F.addr data⟩]) =
      cb.bdt.map fun e =>
        (if e.addr = cb.addr then viaLocal nc cb nx x c else peerVal w nx x c e)
        + (if e.addr = cb.addr then extraLocal nc cb nx x c else peerExtra w nx x c cb.addr e) := by
    intro g' hg'
    apply List.map_congr_left
    intro e he
    by_cases hself : e.addr = cb.addr
    · simp only [hself, if_true]
      unfold viaLocal extraLocal
      rcases hg' with rfl | rfl
      · exact tot_local_fwd hw hp pd c hnx hx hnc hC hCb F.addr data (f + 3)
      · exact tot_local_fwd hw hp pd c hnx hx hnc hC hCb F.addr data (f + 4)
    · simp only [hself, if_false]
      rcases hg' with rfl | rfl
      · exact tot_peer_entry hw hp pd c hnx hx hnc hC hCb e hself (hbd e he) F.addr data f
      · exact tot_peer_entry hw hp pd c hnx hx hnc hC hCb e hself (hbd e he) F.addr data (f + 1)
  have hfdt : ∀ g', (g' = f + 4 ∨ g' = f + 4 + 1) →
      ((cb.fdt.filter fun e => e.addr ≠ F.addr).map fun e =>
        tot (poAt x.addr c) pd g' w [⟨nc.id, cb.addr, e.addr, .forwarded F.addr data⟩]).sum =
      (if x.addr ∈ (cb.fdt.filter fun e => e.addr ≠ F.addr).map (·.addr) ∧ x.accepts cb.addr = true
        then c else 0) := by
    intro g' hg'
    have hnd' : FdtNodup (cb.fdt.filter fun e => e.addr ≠ F.addr) := filter_nodup cb.fdt F.addr hfn
    have hent' : ∀ e ∈ (cb.fdt.filter fun e => e.addr ≠ F.addr), ∃ nf' ∈ w.nets,
        ∃ y ∈ nf'.nodes, y.addr = e.addr ∧ y.isForeign = true :=
      fun e he => hfd e (List.mem_filter.1 he).1
    rcases hg' with rfl | rfl
    · exact tot_fdt_sum hw hp pd c hnx hx hnc hC _ hnd' hent' F.addr data (f + 2)
    · exact tot_fdt_sum hw hp pd c hnx hx hnc hC _ hnd' hent' F.addr data (f + 3)
  rw [hbdt g hg, hfdt g hg, sum_map_add]
  omega

end dist

end BacVerif.Bip
