/-
  Lemmas.Cov — the invariant of the COV model and its preservation by every event.
  Core Lean only.
-/
import BacVerif.Model.Cov
namespace BacVerif.Cov

/-! ## the invariant -/

/-- the (subscriber address, process id) part of a subscription key; the object is the
    one whose detection object holds the record -/
def key (c : Sub) : Nat × Nat := (c.addr, c.pid)

/-- one subscription record is coherent: timed ⇔ armed, armed deadline not before `lo`,
    identity already handed out -/
structure SubOk (lo nextSid : Nat) (c : Sub) : Prop where
  life_due : c.lifetime = 0 ↔ c.due = none
  due_future : ∀ t q, c.due = some (t, q) → lo ≤ t
  sid_lt : c.sid < nextSid

structure DetOk (lo nextSid nextGen period : Nat) (d : Det) : Prop where
  keys : (d.subs.map key).Nodup
  sids : (d.subs.map (·.sid)).Nodup
  subs : ∀ c ∈ d.subs, SubOk lo nextSid c
  gen : d.gen < nextGen
  ptask : ∀ t q, d.ptask = some (t, q) → lo ≤ t ∧ period ≠ 0

/-- invariant on the components the events touch -/
def InvC (lo : Nat) (objs : List Obj) (nextSid nextGen : Nat) : Prop :=
  (objs.map (·.id)).Nodup ∧
  ∀ ob ∈ objs, ∀ d, ob.det = some d → DetOk lo nextSid nextGen ob.period d

def InvAt (lo : Nat) (s : State) : Prop := InvC lo s.objs s.nextSid s.nextGen

/-- between events every armed deadline is strictly in the future -/
def Inv (s : State) : Prop := InvAt (s.now + 1) s

theorem SubOk.mono {lo lo' n n' : Nat} {c : Sub} (h : SubOk lo n c) (hl : lo' ≤ lo) (hn : n ≤ n') :
    SubOk lo' n' c :=
  ⟨h.life_due, fun t q e => Nat.le_trans hl (h.due_future t q e), Nat.lt_of_lt_of_le h.sid_lt hn⟩

theorem DetOk.mono {lo lo' n n' g g' p : Nat} {d : Det} (h : DetOk lo n g p d)
    (hl : lo' ≤ lo) (hn : n ≤ n') (hg : g ≤ g') : DetOk lo' n' g' p d :=
  ⟨h.keys, h.sids, fun c hc => (h.subs c hc).mono hl hn, Nat.lt_of_lt_of_le h.gen hg,
   fun t q e => ⟨Nat.le_trans hl (h.ptask t q e).1, (h.ptask t q e).2⟩⟩

theorem InvC.mono {lo lo' n n' g g' : Nat} {objs : List Obj} (h : InvC lo objs n g)
    (hl : lo' ≤ lo) (hn : n ≤ n') (hg : g ≤ g') : InvC lo' objs n' g' :=
  ⟨h.1, fun ob hob d hd => (h.2 ob hob d hd).mono hl hn hg⟩

/-! ## objects by identifier -/

theorem find_mem {objs : List Obj} {o : Nat} {ob : Obj}
    (h : objs.find? (fun ob => ob.id == o) = some ob) : ob ∈ objs ∧ ob.id = o := by
  have h1 := List.mem_of_find?_eq_some h
  have h2 := List.find?_some h
  exact ⟨h1, by simpa using h2⟩

theorem find_of_mem {objs : List Obj} {o : Nat} {ob : Obj} (hn : (objs.map (·.id)).Nodup)
    (hm : ob ∈ objs) (hid : ob.id = o) : objs.find? (fun ob => ob.id == o) = some ob := by
  induction objs with
  | nil => cases hm
  | cons x rest ih =>
    simp only [List.map_cons, List.nodup_cons, List.mem_map, not_exists, not_and] at hn
    rcases List.mem_cons.mp hm with rfl | hm'
    · simp [List.find?_cons, hid]
    · have : x.id ≠ o := by
        intro hx
        exact hn.1 ob hm' (by rw [hid, hx])
      simp only [List.find?_cons]
      have hb : (x.id == o) = false := by simpa using this
      rw [hb]
      exact ih hn.2 hm'

theorem findObj_mem {s : State} {o : Nat} {ob : Obj} (h : findObj s o = some ob) :
    ob ∈ s.objs ∧ ob.id = o := find_mem h

/-- generic preservation: replacing the object `o` by `f ob` where `f` keeps the identifier -/
theorem invC_map {lo n g n' g' : Nat} {objs : List Obj} {o : Nat} {f : Obj → Obj}
    (h : InvC lo objs n g) (hn : n ≤ n') (hg : g ≤ g')
    (hid : ∀ ob, (f ob).id = ob.id)
    (hf : ∀ ob ∈ objs, ob.id = o → ∀ d, (f ob).det = some d → DetOk lo n' g' (f ob).period d) :
    InvC lo (objs.map (fun ob => if ob.id == o then f ob else ob)) n' g' := by
  constructor
  · have : (objs.map (fun ob => if ob.id == o then f ob else ob)).map (·.id) = objs.map (·.id) := by
      rw [List.map_map]
      apply List.map_congr_left
      intro ob _
      simp only [Function.comp]
      split <;> simp [hid]
    rw [this]; exact h.1
  · intro ob' hob' d hd
    obtain ⟨ob, hob, rfl⟩ := List.mem_map.mp hob'
    by_cases hc : ob.id = o
    · have hb : (ob.id == o) = true := by simpa using hc
      simp only [hb, if_true] at hd ⊢
      exact hf ob hob hc d hd
    · have hb : (ob.id == o) = false := by simpa using hc
      simp only [hb] at hd ⊢
      exact (h.2 ob hob d hd).mono (Nat.le_refl _) hn hg

/-! ## changes that keep the subscription list, identity and periodic task of a detection object -/

def SameCore (d d' : Det) : Prop := d'.subs = d.subs ∧ d'.gen = d.gen ∧ d'.ptask = d.ptask

theorem SameCore.refl (d : Det) : SameCore d d := ⟨rfl, rfl, rfl⟩

theorem SameCore.trans {a b c : Det} (h1 : SameCore a b) (h2 : SameCore b c) : SameCore a c :=
  ⟨h2.1.trans h1.1, h2.2.1.trans h1.2.1, h2.2.2.trans h1.2.2⟩

theorem DetOk.congr {lo n g p : Nat} {d d' : Det} (h : DetOk lo n g p d) (hs : SameCore d d') :
    DetOk lo n g p d' := by
  obtain ⟨h1, h2, h3⟩ := hs
  exact ⟨h1 ▸ h.keys, h1 ▸ h.sids, h1 ▸ h.subs, h2 ▸ h.gen, h3 ▸ h.ptask⟩

theorem sameCore_plainChange (d : Det) (b : Bool) : SameCore d (plainChange d b).1 := by
  unfold plainChange; split <;> exact ⟨rfl, rfl, rfl⟩

theorem sameCore_pvChange (ob : Obj) (c : Crit) (d : Det) (v : Int) : SameCore d (pvChange ob c d v).1 := by
  unfold pvChange
  split; · exact SameCore.refl d
  split; · exact SameCore.refl d
  split
  · exact ⟨rfl, rfl, rfl⟩
  · exact sameCore_plainChange d _

theorem sameCore_flagsChange (ob : Obj) (c : Crit) (d : Det) (f : Nat) :
    SameCore d (flagsChange ob c d f).1 := by
  unfold flagsChange; split
  · exact SameCore.refl d
  · exact sameCore_plainChange d _

theorem sameCore_incChange (ob : Obj) (c : Crit) (d : Det) (v : Int) :
    SameCore d (incChange ob c d v).1 := by
  unfold incChange; split
  · exact SameCore.refl d
  · exact sameCore_plainChange d _

theorem send_fst (now : Nat) (ob : Obj) (d : Det) (only : Option Nat) :
    (sendNotifications now ob d only).1 =
      if (ob.incr && sendMoves d only) = true then { d with prev := some ob.pv } else d := by
  unfold sendNotifications
  simp only
  generalize (if (ob.incr && sendMoves d only) = true then { d with prev := some ob.pv } else d) = d1
  repeat' split
  all_goals rfl

theorem sameCore_send (now : Nat) (ob : Obj) (d : Det) (only : Option Nat) :
    SameCore d (sendNotifications now ob d only).1 := by
  rw [send_fst]
  split <;> exact ⟨rfl, rfl, rfl⟩

/-- replacing the detection object of `o` by one with the same core keeps the invariant -/
theorem invC_setDet {lo n g : Nat} {objs : List Obj} {o : Nat} {ob0 : Obj} {f : Obj → Obj} {d d' : Det}
    (h : InvC lo objs n g) (hfind : objs.find? (fun ob => ob.id == o) = some ob0)
    (hd : ob0.det = some d) (hsc : SameCore d d')
    (hid : ∀ x, (f x).id = x.id) (hper : ∀ x, (f x).period = x.period)
    (hdet : ∀ x, (f x).det = some d') :
    InvC lo (objs.map (fun ob => if ob.id == o then f ob else ob)) n g := by
  apply invC_map h (Nat.le_refl _) (Nat.le_refl _) hid
  intro ob hob hido d'' hd''
  have := find_of_mem h.1 hob hido
  rw [hfind] at this
  cases this
  rw [hdet] at hd''
  cases hd''
  rw [hper]
  exact (h.2 ob0 (find_mem hfind).1 d hd).congr hsc

/-- changing only value fields of the object keeps the invariant -/
theorem invC_setVal {lo n g : Nat} {objs : List Obj} {o : Nat} {f : Obj → Obj}
    (h : InvC lo objs n g)
    (hid : ∀ x, (f x).id = x.id) (hper : ∀ x, (f x).period = x.period)
    (hdet : ∀ x, (f x).det = x.det) :
    InvC lo (objs.map (fun ob => if ob.id == o then f ob else ob)) n g := by
  apply invC_map h (Nat.le_refl _) (Nat.le_refl _) hid
  intro ob hob _ d hd
  rw [hdet] at hd
  rw [hper]
  exact h.2 ob hob d hd

theorem invAt_applyChange {lo : Nat} {s : State} {o : Nat} {ob0 : Obj} (h : InvAt lo s)
    (hfind : findObj s o = some ob0) (upd : Obj → Obj)
    (hid : ∀ x, (upd x).id = x.id) (hper : ∀ x, (upd x).period = x.period)
    (hdet : ∀ x, (upd x).det = x.det)
    (r : Option (Det × Bool))
    (hr : ∀ d' e, r = some (d', e) → ∃ d, ob0.det = some d ∧ SameCore d d') :
    InvAt lo (applyChange s o upd r) := by
  unfold applyChange
  cases r with
  | none => exact invC_setVal h hid hper hdet
  | some p =>
    obtain ⟨d', e⟩ := p
    obtain ⟨d, hd, hsc⟩ := hr d' e rfl
    exact invC_setDet (f := fun x => { upd x with det := some d' }) h hfind hd hsc
      (fun x => hid x) (fun x => hper x) (fun _ => rfl)

theorem invAt_writePv {lo : Nat} {s : State} (h : InvAt lo s) (o : Nat) (v : Int) :
    InvAt lo (writePv s o v) := by
  unfold writePv
  split
  · exact h
  · rename_i ob hfind
    refine invAt_applyChange h hfind _ ?_ ?_ ?_ _ ?_
    · intro _; rfl
    · intro _; rfl
    · intro _; rfl
    intro d' e hr
    split at hr
    · rename_i d c hd _
      simp only [Option.some.injEq] at hr
      have hsc := sameCore_pvChange ob c d v
      rw [hr] at hsc
      exact ⟨d, hd, hsc⟩
    · cases hr

theorem invAt_writeFlags {lo : Nat} {s : State} (h : InvAt lo s) (o : Nat) (f : Nat) :
    InvAt lo (writeFlags s o f) := by
  unfold writeFlags
  split
  · exact h
  · rename_i ob hfind
    refine invAt_applyChange h hfind _ ?_ ?_ ?_ _ ?_
    · intro _; rfl
    · intro _; rfl
    · intro _; rfl
    intro d' e hr
    split at hr
    · rename_i d c hd _
      simp only [Option.some.injEq] at hr
      have hsc := sameCore_flagsChange ob c d f
      rw [hr] at hsc
      exact ⟨d, hd, hsc⟩
    · cases hr

theorem invAt_writeInc {lo : Nat} {s : State} (h : InvAt lo s) (o : Nat) (v : Int) :
    InvAt lo (writeInc s o v) := by
  unfold writeInc
  split
  · exact h
  · rename_i ob hfind
    refine invAt_applyChange h hfind _ ?_ ?_ ?_ _ ?_
    · intro _; rfl
    · intro _; rfl
    · intro _; rfl
    intro d' e hr
    split at hr
    · rename_i d c hd _
      simp only [Option.some.injEq] at hr
      have hsc := sameCore_incChange ob c d v
      rw [hr] at hsc
      exact ⟨d, hd, hsc⟩
    · cases hr

/-! ## "quiet" transitions: only `prev` / `triggered` of detection objects change -/

def DetCore : Option Det → Option Det → Prop
  | none, none => True
  | some d, some d' => SameCore d d'
  | _, _ => False

structure ObjCore (ob ob' : Obj) : Prop where
  id : ob'.id = ob.id
  supportsCov : ob'.supportsCov = ob.supportsCov
  crit : ob'.crit = ob.crit
  pv : ob'.pv = ob.pv
  flags : ob'.flags = ob.flags
  inc : ob'.inc = ob.inc
  period : ob'.period = ob.period
  det : DetCore ob.det ob'.det

theorem DetCore.refl : ∀ a : Option Det, DetCore a a
  | none => trivial
  | some d => SameCore.refl d

theorem DetCore.trans : ∀ {a b c : Option Det}, DetCore a b → DetCore b c → DetCore a c
  | none, none, none, _, _ => trivial
  | some _, some _, some _, h1, h2 => SameCore.trans h1 h2
  | none, none, some _, _, h2 => h2.elim
  | none, some _, _, h1, _ => h1.elim
  | some _, none, _, h1, _ => h1.elim
  | some _, some _, none, _, h2 => h2.elim

theorem ObjCore.refl (ob : Obj) : ObjCore ob ob := ⟨rfl, rfl, rfl, rfl, rfl, rfl, rfl, DetCore.refl _⟩

theorem ObjCore.trans {a b c : Obj} (h1 : ObjCore a b) (h2 : ObjCore b c) : ObjCore a c :=
  ⟨h2.id.trans h1.id, h2.supportsCov.trans h1.supportsCov, h2.crit.trans h1.crit, h2.pv.trans h1.pv,
   h2.flags.trans h1.flags, h2.inc.trans h1.inc, h2.period.trans h1.period, h1.det.trans h2.det⟩

structure Quiet (s s' : State) : Prop where
  now : s'.now = s.now
  seq : s'.seq = s.seq
  nextGen : s'.nextGen = s.nextGen
  nextSid : s'.nextSid = s.nextSid
  objs : ∃ g : Obj → Obj, s'.objs = s.objs.map g ∧ ∀ ob ∈ s.objs, ObjCore ob (g ob)

theorem Quiet.refl (s : State) : Quiet s s :=
  ⟨rfl, rfl, rfl, rfl, ⟨fun x => x, by simp, fun ob _ => ObjCore.refl ob⟩⟩

theorem Quiet.trans {a b c : State} (h1 : Quiet a b) (h2 : Quiet b c) : Quiet a c := by
  obtain ⟨g1, e1, c1⟩ := h1.objs
  obtain ⟨g2, e2, c2⟩ := h2.objs
  refine ⟨h2.now.trans h1.now, h2.seq.trans h1.seq, h2.nextGen.trans h1.nextGen,
          h2.nextSid.trans h1.nextSid, ⟨g2 ∘ g1, ?_, ?_⟩⟩
  · rw [e2, e1, List.map_map]
  · intro ob hob
    have hb : g1 ob ∈ b.objs := by rw [e1]; exact List.mem_map_of_mem hob
    exact (c1 ob hob).trans (c2 (g1 ob) hb)

theorem objTasks_core {ob ob' : Obj} (h : ObjCore ob ob') : objTasks ob' = objTasks ob := by
  unfold objTasks
  have hd := h.det
  rw [h.id]
  cases hdo : ob.det with
  | none =>
    cases hdo' : ob'.det with
    | none => rfl
    | some d' => rw [hdo, hdo'] at hd; exact hd.elim
  | some d =>
    cases hdo' : ob'.det with
    | none => rw [hdo, hdo'] at hd; exact hd.elim
    | some d' =>
      rw [hdo, hdo'] at hd
      obtain ⟨h1, h2, h3⟩ := hd
      simp only [detTasks, h1, h2, h3]

theorem flatMap_congr' {α β : Type} {l : List α} {f g : α → List β} (h : ∀ a ∈ l, f a = g a) :
    l.flatMap f = l.flatMap g := by
  induction l with
  | nil => rfl
  | cons a l ih =>
    simp only [List.flatMap_cons]
    rw [h a (by simp), ih (fun b hb => h b (by simp [hb]))]

theorem Quiet.armedTasks {s s' : State} (h : Quiet s s') : armedTasks s' = armedTasks s := by
  obtain ⟨g, e, c⟩ := h.objs
  unfold Cov.armedTasks
  rw [e, List.flatMap_map]
  apply flatMap_congr'
  intro ob hob
  exact objTasks_core (c ob hob)

theorem Quiet.invAt {lo : Nat} {s s' : State} (h : Quiet s s') (hi : InvAt lo s) : InvAt lo s' := by
  obtain ⟨g, e, c⟩ := h.objs
  unfold InvAt InvC at *
  rw [e, h.nextSid, h.nextGen]
  constructor
  · have : (s.objs.map g).map (·.id) = s.objs.map (·.id) := by
      rw [List.map_map]
      apply List.map_congr_left
      intro ob hob
      exact (c ob hob).id
    rw [this]; exact hi.1
  · intro ob' hob' d' hd'
    obtain ⟨ob, hob, rfl⟩ := List.mem_map.mp hob'
    have hc := c ob hob
    have hdc := hc.det
    rw [hd'] at hdc
    cases hdo : ob.det with
    | none => rw [hdo] at hdc; exact hdc.elim
    | some d =>
      rw [hdo] at hdc
      rw [hc.period]
      exact (hi.2 ob hob d hdo).congr hdc

/-- the object with identifier `o` gets a detection object with the same core -/
theorem quiet_setDet {lo : Nat} {s : State} {o : Nat} {ob0 : Obj} {d d' : Det} (hi : InvAt lo s)
    (hfind : findObj s o = some ob0) (hd : ob0.det = some d) (hsc : SameCore d d') :
    Quiet s (setObj s o (fun ob => { ob with det := some d' })) := by
  refine ⟨rfl, rfl, rfl, rfl, ⟨_, rfl, ?_⟩⟩
  intro ob hob
  by_cases hc : ob.id = o
  · have hb : (ob.id == o) = true := by simpa using hc
    simp only [hb, if_true]
    have := find_of_mem hi.1 hob hc
    have hfind' : s.objs.find? (fun ob => ob.id == o) = some ob0 := hfind
    rw [hfind'] at this
    cases this
    refine ⟨rfl, rfl, rfl, rfl, rfl, rfl, rfl, ?_⟩
    rw [hd]; exact hsc
  · have hb : (ob.id == o) = false := by simpa using hc
    simp only [hb]
    exact ObjCore.refl ob

theorem quiet_runItem {lo : Nat} {s : State} (hi : InvAt lo s) (it : Deferred) :
    Quiet s (runItem s it).1 := by
  cases it with
  | exec o g =>
    simp only [runItem]
    split
    · exact Quiet.refl s
    · rename_i ob hfind
      split
      · exact Quiet.refl s
      · rename_i d hd
        split
        · exact Quiet.refl s
        · simp only
          apply quiet_setDet hi hfind hd
          exact SameCore.trans (sameCore_send s.now ob d none) ⟨rfl, rfl, rfl⟩
  | initial o g sid =>
    simp only [runItem]
    split
    · exact Quiet.refl s
    · rename_i ob hfind
      split
      · exact Quiet.refl s
      · rename_i d hd
        split
        · exact Quiet.refl s
        · simp only
          exact quiet_setDet hi hfind hd (sameCore_send s.now ob d (some sid))

theorem quiet_runItems {lo : Nat} (its : List Deferred) :
    ∀ {s : State}, InvAt lo s → Quiet s (runItems s its).1 := by
  induction its with
  | nil => intro s _; exact Quiet.refl s
  | cons it rest ih =>
    intro s hi
    simp only [runItems]
    have h1 := quiet_runItem hi it
    have h2 := ih (h1.invAt hi)
    exact h1.trans h2

theorem quiet_run {lo : Nat} {s : State} (hi : InvAt lo s) : Quiet s (run s).1 := by
  unfold run
  have h0 : Quiet s { s with deferred := [] } := ⟨rfl, rfl, rfl, rfl, ⟨fun x => x, by simp, fun ob _ => ObjCore.refl ob⟩⟩
  exact h0.trans (quiet_runItems s.deferred (h0.invAt hi))

theorem invAt_run {lo : Nat} {s : State} (hi : InvAt lo s) : InvAt lo (run s).1 :=
  (quiet_run hi).invAt hi

end BacVerif.Cov
