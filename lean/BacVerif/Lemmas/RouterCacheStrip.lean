/-
  Lemmas.RouterCacheStrip — the invariant `Coherent` and the effect of the
  "remove destinations from routers" loops shared by update_router_info and
  delete_router_info.
-/
import BacVerif.Lemmas.RouterCacheDict
namespace BacVerif.RouterCache
variable {α : Type} [DecidableEq α]

/-- router `a` on source network `s` is credited with destination `d`:
    `a in routers[s] and d in routers[s][a].dnets` -/
def Credits (c : Cache α) (s : Net) (a : α) (d : Nat) : Prop :=
  ∃ ri, rget c s a = some ri ∧ has d ri.dnets = true

/-- the two indexes agree: the path table names `a` for `(s, d)` exactly when the
    routers index credits `a` on `s` with `d` -/
def Coherent (c : Cache α) : Prop :=
  ∀ s d a, pget c s d = some a ↔ Credits c s a d

/-! the three abstract steps on a map `(snet, dnet) ↦ router`, as plain functions
    (Props/C19.lean names them `AMap.learn/forget/renumber`) -/

/-- learn: overwrite -/
def learnMap (m : Net → Nat → Option α) (s : Net) (a : α) (ds : List Nat) : Net → Nat → Option α :=
  fun s' d' => if s' = s ∧ d' ∈ ds then some a else m s' d'

/-- forget: remove exactly what is named -/
def forgetMap (m : Net → Nat → Option α) (s : Net) (a : Option α) (ds : Option (List Nat)) :
    Net → Nat → Option α :=
  fun s' d' =>
    match a, ds with
    | some a, some (x :: xs) => if s' = s ∧ d' ∈ (x :: xs) ∧ m s d' = some a then none else m s' d'
    | some a, _ => if s' = s ∧ m s d' = some a then none else m s' d'
    | none, some ds => if s' = s ∧ d' ∈ ds then none else m s' d'
    | none, none => m s' d'

/-- renumber: move, the moved entry wins -/
def renumberMap (m : Net → Nat → Option α) (old new : Net) : Net → Nat → Option α :=
  fun s' d' =>
    if old = new then m s' d'
    else if s' = old then none
    else if s' = new then (match m old d' with | some a => some a | none => m new d')
    else m s' d'

theorem Coherent.unique {c : Cache α} (h : Coherent c) {s : Net} {a b : α} {d : Nat}
    (ha : Credits c s a d) (hb : Credits c s b d) : a = b := by
  have h1 := (h s d a).mpr ha
  have h2 := (h s d b).mpr hb
  rw [h1] at h2; exact Option.some.inj h2

/-! ### stripLoop -/

omit [DecidableEq α] in
theorem stripLoop_spec (s : Net) (ds : List Nat) :
    ∀ (dn : List (Nat × Nat)) (p : List ((Net × Nat) × α)),
      (∀ d, has d dn = true → has (s, d) p = true) →
      ∃ dn' p', stripLoop s ds dn p = .ok (dn', p') ∧
        (∀ d, aget d dn' = if d ∈ ds then none else aget d dn) ∧
        (∀ k, aget k p' = if k.1 = s ∧ k.2 ∈ ds ∧ has k.2 dn = true then none else aget k p) := by
  induction ds with
  | nil => intro dn p _; exact ⟨dn, p, rfl, by simp, by simp⟩
  | cons d ds ih =>
    intro dn p h
    unfold stripLoop
    by_cases hd : has d dn = true
    · have hp := h d hd
      simp only [hd, hp, ↓reduceIte]
      have h' : ∀ d', has d' (adel d dn) = true → has (s, d') (adel (s, d) p) = true := by
        intro d' hd'
        rw [has_adel] at hd'
        rw [has_adel]
        simp only [Bool.and_eq_true, Bool.not_eq_eq_eq_not, Bool.not_true, decide_eq_false_iff_not] at hd'
        have := h d' hd'.2
        simp [this, hd'.1]
      obtain ⟨dn', p', e, h1, h2⟩ := ih (adel d dn) (adel (s, d) p) h'
      refine ⟨dn', p', e, ?_, ?_⟩
      · intro d'
        rw [h1, aget_adel]
        by_cases e1 : d' = d <;> by_cases e2 : d' ∈ ds <;> simp [e1, e2]
      · intro k
        rw [h2, aget_adel, has_adel]
        obtain ⟨ks, kd⟩ := k
        by_cases e0 : ks = s
        · subst e0
          by_cases e1 : kd = d
          · subst e1; simp [hd]
          · by_cases e2 : kd ∈ ds <;> simp [e1, e2]
        · simp [e0]
    · simp only [hd, Bool.false_eq_true, ↓reduceIte]
      obtain ⟨dn', p', e, h1, h2⟩ := ih dn p h
      refine ⟨dn', p', e, ?_, ?_⟩
      · intro d'
        rw [h1]
        by_cases e1 : d' = d
        · subst e1
          have : aget d' dn = none := by
            have := (has_false_iff d' dn).mp (by simpa using hd)
            exact this
          simp [this]
        · simp [e1]
      · intro k
        rw [h2]
        obtain ⟨ks, kd⟩ := k
        by_cases e1 : kd = d
        · subst e1
          have hf : has kd dn = false := by simpa using hd
          simp [hf]
        · simp [e1]

/-! ### stripRouter -/

theorem stripRouter_spec (s : Net) (ds : List Nat) (r : α) (c : Cache α) (ri : RouterInfo)
    (hc : Coherent c) (hr : rget c s r = some ri) :
    ∃ c', stripRouter s ds r c = .ok c' ∧
      (∀ s' d', pget c' s' d' =
          if s' = s ∧ d' ∈ ds ∧ pget c s d' = some r then none else pget c s' d') ∧
      (∀ s' a', (s' ≠ s ∨ a' ≠ r) → rget c' s' a' = rget c s' a') ∧
      (∀ d', Credits c' s r d' ↔ (Credits c s r d' ∧ d' ∉ ds)) := by
  have hcred : ∀ d, has d ri.dnets = true ↔ pget c s d = some r := by
    intro d
    rw [hc s d r]
    constructor
    · intro h; exact ⟨ri, hr, h⟩
    · rintro ⟨ri', h1, h2⟩
      rw [hr] at h1; cases h1; exact h2
  have hpre : ∀ d, has d ri.dnets = true → has (s, d) c.pathInfo = true := by
    intro d hd
    have := (hcred d).mp hd
    simp [has, pget] at this ⊢
    simp [this]
  obtain ⟨dn', p', e, h1, h2⟩ := stripLoop_spec s ds ri.dnets c.pathInfo hpre
  have hP : ∀ s' d', aget (s', d') p' =
      if s' = s ∧ d' ∈ ds ∧ pget c s d' = some r then none else pget c s' d' := by
    intro s' d'
    rw [h2]
    simp only [pget]
    by_cases e0 : s' = s
    · subst e0
      by_cases e1 : d' ∈ ds
      · by_cases e2 : has d' ri.dnets = true
        · have := (hcred d').mp e2
          simp only [pget] at this
          simp [e1, e2, this]
        · have e3 : ¬ (aget (s', d') c.pathInfo = some r) := fun h => e2 ((hcred d').mpr h)
          simp [e1, e2, e3]
      · simp [e1]
    · simp [e0]
  unfold stripRouter
  simp only [hr, e]
  by_cases hem : dn'.isEmpty = true
  · simp only [hem, ↓reduceIte]
    obtain ⟨c', e', hp, hrg⟩ := rdel_spec { c with pathInfo := p' } s r ri (by simpa using hr)
    refine ⟨c', e', ?_, ?_, ?_⟩
    · intro s' d'
      have : pget c' s' d' = aget (s', d') p' := by simp [pget, hp]
      rw [this, hP]
    · intro s' a' hne
      rw [hrg]
      have : ¬ (s' = s ∧ a' = r) := by
        rintro ⟨rfl, rfl⟩; rcases hne with h | h <;> exact h rfl
      simp [this]
    · intro d'
      constructor
      · rintro ⟨ri', hri', _⟩
        rw [hrg] at hri'; simp at hri'
      · rintro ⟨⟨ri', hri', hd'⟩, hnot⟩
        rw [hr] at hri'; cases hri'
        have := h1 d'
        rw [aget_none_of_isEmpty d' dn' hem] at this
        simp only [hnot, ↓reduceIte] at this
        rw [has_iff] at hd'
        obtain ⟨v, hv⟩ := hd'
        rw [hv] at this; cases this
  · simp only [hem, Bool.false_eq_true, ↓reduceIte]
    refine ⟨_, rfl, ?_, ?_, ?_⟩
    · intro s' d'
      rw [pget_rset, pget_setPath, hP]
    · intro s' a' hne
      rw [rget_rset]
      have : ¬ (s' = s ∧ a' = r) := by
        rintro ⟨rfl, rfl⟩; rcases hne with h | h <;> exact h rfl
      simp [this]
    · intro d'
      unfold Credits
      rw [rget_rset]
      simp only [and_self, ↓reduceIte, Option.some.injEq, exists_eq_left', hr]
      simp only [has, h1 d']
      by_cases e1 : d' ∈ ds <;> simp [e1]

theorem stripRouter_coherent (s : Net) (ds : List Nat) (r : α) (c c' : Cache α) (ri : RouterInfo)
    (hc : Coherent c) (hr : rget c s r = some ri)
    (hP : ∀ s' d', pget c' s' d' =
          if s' = s ∧ d' ∈ ds ∧ pget c s d' = some r then none else pget c s' d')
    (hR : ∀ s' a', (s' ≠ s ∨ a' ≠ r) → rget c' s' a' = rget c s' a')
    (hC : ∀ d', Credits c' s r d' ↔ (Credits c s r d' ∧ d' ∉ ds)) : Coherent c' := by
  intro s' d' a'
  by_cases e : s' = s ∧ a' = r
  · obtain ⟨rfl, rfl⟩ := e
    rw [hC, hP, ← hc s' d' a']
    by_cases e1 : d' ∈ ds <;> by_cases e2 : pget c s' d' = some a' <;> simp [e1, e2]
  · have hne : s' ≠ s ∨ a' ≠ r := by
      by_cases e1 : s' = s
      · right; intro e2; exact e ⟨e1, e2⟩
      · left; exact e1
    have : Credits c' s' a' d' ↔ Credits c s' a' d' := by
      unfold Credits; rw [hR s' a' hne]
    rw [this, ← hc s' d' a', hP]
    by_cases e1 : s' = s ∧ d' ∈ ds ∧ pget c s d' = some r
    · obtain ⟨rfl, _, e3⟩ := e1
      have : a' ≠ r := fun h => e ⟨rfl, h⟩
      simp only [*, and_self, ↓reduceIte, reduceCtorEq, Option.some.injEq, false_iff]
      intro h; exact this h.symm
    · simp [e1]

/-! ### otherRouters -/

theorem mem_otherRouters (c : Cache α) (s : Net) (ex : Option α) (ds : List Nat) (x : α) :
    x ∈ otherRouters c s ex ds ↔ ∃ d ∈ ds, pget c s d = some x ∧ some x ≠ ex := by
  induction ds with
  | nil => simp [otherRouters]
  | cons d ds ih =>
    unfold otherRouters
    cases hp : pget c s d with
    | none => simp [ih, hp]
    | some r =>
      simp only
      by_cases e : some r = ex
      · simp only [e, ↓reduceIte, ih, List.mem_cons, exists_eq_or_imp, hp]
        constructor
        · intro h; exact Or.inr h
        · rintro (⟨h1, h2⟩ | h)
          · rw [← e] at h2; rw [← e] at h1; exact absurd h1.symm h2
          · exact h
      · simp only [e, ↓reduceIte, List.mem_cons, List.mem_filter, ih, decide_eq_true_eq,
          exists_eq_or_imp, hp, Option.some.injEq]
        constructor
        · rintro (rfl | ⟨h, _⟩)
          · exact Or.inl ⟨rfl, e⟩
          · exact Or.inr h
        · rintro (⟨rfl, _⟩ | h)
          · exact Or.inl rfl
          · by_cases e2 : x = r
            · exact Or.inl e2
            · exact Or.inr ⟨h, e2⟩

theorem nodup_otherRouters (c : Cache α) (s : Net) (ex : Option α) (ds : List Nat) :
    (otherRouters c s ex ds).Nodup := by
  induction ds with
  | nil => simp [otherRouters]
  | cons d ds ih =>
    unfold otherRouters
    cases hp : pget c s d with
    | none => simpa using ih
    | some r =>
      simp only
      by_cases e : some r = ex
      · simpa [e] using ih
      · simp only [e, ↓reduceIte]
        refine List.nodup_cons.mpr ⟨?_, ?_⟩
        · simp [List.mem_filter]
        · exact List.Nodup.sublist List.filter_sublist ih

/-! ### stripAll -/

theorem stripAll_spec (s : Net) (ds : List Nat) (rs : List α) :
    ∀ (c : Cache α), Coherent c → rs.Nodup → (∀ r ∈ rs, (rget c s r).isSome = true) →
    ∃ c', stripAll s ds rs c = .ok c' ∧ Coherent c' ∧
      (∀ s' d', pget c' s' d' =
          if s' = s ∧ d' ∈ ds ∧ (∃ r ∈ rs, pget c s d' = some r) then none else pget c s' d') ∧
      (∀ s' a', (s' ≠ s ∨ a' ∉ rs) → rget c' s' a' = rget c s' a') := by
  induction rs with
  | nil => intro c hc _ _; exact ⟨c, rfl, hc, by simp, by simp⟩
  | cons r rs ih =>
    intro c hc hnd hall
    obtain ⟨hrn, hnd'⟩ := List.nodup_cons.mp hnd
    obtain ⟨ri, hri⟩ := Option.isSome_iff_exists.mp (hall r (List.mem_cons_self))
    obtain ⟨c1, e1, hP1, hR1, hC1⟩ := stripRouter_spec s ds r c ri hc hri
    have hc1 := stripRouter_coherent s ds r c c1 ri hc hri hP1 hR1 hC1
    have hall1 : ∀ r' ∈ rs, (rget c1 s r').isSome = true := by
      intro r' hr'
      have : r' ≠ r := fun h => hrn (h ▸ hr')
      rw [hR1 s r' (Or.inr this)]
      exact hall r' (List.mem_cons_of_mem _ hr')
    obtain ⟨c2, e2, hc2, hP2, hR2⟩ := ih c1 hc1 hnd' hall1
    refine ⟨c2, ?_, hc2, ?_, ?_⟩
    · unfold stripAll; simp only [e1, e2]
    · intro s' d'
      rw [hP2, hP1 s' d', hP1 s d']
      by_cases e0 : s' = s
      · subst e0
        by_cases ed : d' ∈ ds
        · by_cases er : pget c s' d' = some r
          · simp [ed, er]
          · simp only [true_and, ed, er, and_false, ↓reduceIte, List.mem_cons, exists_eq_or_imp,
              false_or]
        · simp [ed]
      · simp [e0]
    · intro s' a' hne
      have h1 : s' ≠ s ∨ a' ∉ rs := by
        rcases hne with h | h
        · exact Or.inl h
        · exact Or.inr (fun hm => h (List.mem_cons_of_mem _ hm))
      have h2 : s' ≠ s ∨ a' ≠ r := by
        rcases hne with h | h
        · exact Or.inl h
        · exact Or.inr (fun hm => h (hm ▸ List.mem_cons_self))
      rw [hR2 s' a' h1, hR1 s' a' h2]

end BacVerif.RouterCache
