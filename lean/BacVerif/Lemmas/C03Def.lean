/-
  Lemmas.C03Def — one class definition (`encodeDef` / `decodeDef`) given the
  classes below it, and `Any` as a balanced run.
-/
import BacVerif.Lemmas.C03Seq
import BacVerif.Lemmas.C03Choice
import BacVerif.Lemmas.C03List
namespace BacVerif.C03
open BacVerif BacVerif.Schema BacVerif.Codec BacVerif.SchemaWF

/-- `Any.decode` takes exactly a balanced run and stops at the end / the unmatched closing tag -/
theorem anyTake_balanced : ∀ (ts : List Tag) (d : Nat) (rest : List Tag),
    balancedFrom d ts = true → Stop rest → anyTake d (ts ++ rest) = .ok (ts, rest) := by
  intro ts
  induction ts with
  | nil =>
    intro d rest hb hs
    simp only [balancedFrom, beq_iff_eq] at hb
    subst hb
    rcases hs with rfl | ⟨t, r, rfl, hc⟩
    · simp [anyTake]
    · simp [anyTake, hc]
  | cons t ts ih =>
    intro d rest hb hs
    simp only [balancedFrom] at hb
    simp only [List.cons_append, anyTake]
    cases hcls : t.cls with
    | opening =>
      rw [hcls] at hb
      simp only at hb ⊢
      rw [ih (d + 1) rest hb hs]; rfl
    | closing =>
      rw [hcls] at hb
      simp only at hb ⊢
      cases d with
      | zero => simp at hb
      | succ d' =>
        simp only at hb
        simp only [Nat.add_one_ne_zero, ↓reduceIte, Nat.add_sub_cancel]
        rw [ih d' rest hb hs]; rfl
    | app =>
      rw [hcls] at hb
      simp only at hb ⊢
      rw [ih d rest hb hs]; rfl
    | ctx =>
      rw [hcls] at hb
      simp only at hb ⊢
      rw [ih d rest hb hs]; rfl

theorem balanced_head {t : Tag} {ts : List Tag} (h : balancedFrom 0 (t :: ts) = true) : t.cls ≠ .closing := by
  intro hc
  simp [balancedFrom, hc] at h

section
variable (env : Env) (I : Table) (enc : Enc) (dec : Dec) (conf : Nat → Val → Bool)

/-- ONE CLASS, given everything below it -/
theorem goodDef (τ : Nat) (d : TyDef)
    (hinfo : look I τ = infoOf env I d) (hok : defOK env I τ d = true) (hsup : (look I τ).sup = true)
    (hgood : ∀ j, j < τ → (look I j).sup = true → Good I enc dec conf j)
    (hstop : ∀ r j, (kindOf env r = .seqOf j ∨ kindOf env r = .listOf j) → ListStop dec j)
    (v : Val) (hc : conformsDef env conf d v = true) :
    ∃ ts, encodeDef env enc d v = .ok ts ∧
      HeadOK (look I τ).first (look I τ).nullable ts ∧
      ∀ rest, Safe (look I τ).confus rest → decodeDef env dec d (ts ++ rest) = .ok (v, rest) := by
  rw [hinfo] at hsup ⊢
  cases d with
  | seq fs =>
    cases v with
    | seq vs =>
      simp only [conformsDef] at hc
      simp only [defOK, Bool.and_eq_true] at hok
      simp only [infoOf] at hsup ⊢
      obtain ⟨ts, he, hh, hd⟩ := goodFields env I enc dec conf τ hgood hstop fs vs hok.1 hsup hok.2 hc
      exact ⟨ts, by simpa [encodeDef] using he, hh, fun rest hs => by simp [decodeDef, hd rest hs]⟩
    | _ => simp [conformsDef] at hc
  | choice alts =>
    cases v with
    | choice i x =>
      simp only [conformsDef] at hc
      simp only [defOK, Bool.and_eq_true] at hok
      simp only [infoOf] at hsup ⊢
      cases hi : alts[i]? with
      | none => simp [hi] at hc
      | some a =>
        rw [hi] at hc
        simp only at hc
        obtain ⟨t, r, he, hcl, hp, hd⟩ :=
          goodAlts env I enc dec conf τ hgood alts 0 i a x hok.1 hsup hok.2 hi hc
        refine ⟨t :: r, by simp [encodeDef, hi, he], ⟨hcl, hp⟩, ?_⟩
        intro rest _
        have := hd rest
        simp only [Nat.zero_add] at this
        simp [decodeDef, decodeChoice, hcl, this]
    | _ => simp [conformsDef] at hc
  | list k elem fixed =>
    cases v with
    | list vs =>
      simp only [conformsDef, Bool.and_eq_true] at hc
      simp only [defOK] at hok
      simp only [infoOf] at hsup ⊢
      obtain ⟨ts, he, hnil, hhd, hd⟩ := goodElems env I enc dec conf τ elem hgood hok hsup vs hc.1
      have hfix : ∀ n, fixed = some n → vs.length = n := by
        intro n hn; have := hc.2; rw [hn] at this; simpa using this
      refine ⟨ts, ?_, ?_, ?_⟩
      · cases fixed with
        | none => simpa [encodeDef] using he
        | some n => simp [encodeDef, hfix n rfl, he]
      · cases ts with
        | nil =>
          have hvs := hnil rfl
          subst hvs
          simp only [HeadOK]
          cases fixed with
          | none => rfl
          | some n =>
            have := hfix n rfl
            simp only [List.length_nil] at this
            subst this; rfl
        | cons t r => exact hhd t r rfl
      · intro rest hs
        have hstop' : Stop rest := Safe.anyTag hs (by simp)
        have := hd rest (ts.length + rest.length) hstop' (by simp)
        cases fixed with
        | none => simp [decodeDef, this]
        | some n => simp [decodeDef, this, hfix n rfl]
    | _ => simp [conformsDef] at hc
  | any =>
    cases v with
    | tags ts =>
      simp only [conformsDef] at hc
      simp only [infoOf]
      refine ⟨ts, by simp [encodeDef], ?_, ?_⟩
      · cases ts with
        | nil => rfl
        | cons t r =>
          have := balanced_head hc
          exact ⟨this, .anyTag, by simp, by simp [Pat.matches, this]⟩
      · intro rest hs
        have hstop' : Stop rest := Safe.anyTag hs (by simp)
        simp [decodeDef, anyDecode, anyTake_balanced ts 0 rest hc hstop']
    | _ => simp [conformsDef] at hc
  | nameValue dt => simp [infoOf] at hsup
end

end BacVerif.C03
