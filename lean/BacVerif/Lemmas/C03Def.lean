/-
  Lemmas.C03Def — one class definition (`encodeDef` / `decodeDef`) given the
  classes below it, and `Any` as a balanced run.
-/
import BacVerif.Lemmas.C03Seq
import BacVerif.Lemmas.C03Choice
import BacVerif.Lemmas.C03List
namespace BacVerif.C03
open BacVerif BacVerif.Schema BacVerif.Codec BacVerif.SchemaWF

/-- `Any.decode` takes exactly a balanced run and stops at the end / the unmatched closing tag -/
theorem anyTake_balanced : ∀ (ts : List Tag) (d : Nat) (rest : List Tag),
    balancedFrom d ts = true → Stop rest → anyTake d (ts ++ rest) = .ok (ts, rest) := by
  intro ts
  induction ts with
  | nil =>
    intro d rest hb hs
    simp only [balancedFrom, beq_iff_eq] at hb
    subst hb
    rcases hs with rfl | ⟨t, r, rfl, hc⟩
    · simp [anyTake]
    · simp [anyTake, hc]
  | cons t ts ih =>
    intro d rest hb hs
    simp only [balancedFrom] at hb
    simp only [List.cons_append, anyTake]
    cases hcls : t.cls with
    | opening =>
      rw [hcls] at hb
      simp only at hb ⊢
      rw [ih (d + 1) rest hb hs]; rfl
    | closing =>
      rw [hcls] at hb
      simp only at hb ⊢
      cases d with
      | zero => simp at hb
      | succ d' =>
        simp only at hb
        simp only [Nat.add_one_ne_zero, ↓reduceIte, Nat.add_sub_cancel]
        rw [ih d' rest hb hs]; rfl
    | app =>
      rw [hcls] at hb
      simp only at hb ⊢
      rw [ih d rest hb hs]; rfl
    | ctx =>
      rw [hcls] at hb
      simp only at hb ⊢
      rw [ih d rest hb hs]; rfl

theorem balanced_head {t : Tag} {ts : List Tag} (h : balancedFrom 0 (t :: ts) = true) : t.cls ≠ .closing := by
  intro hc
  simp [balancedFrom, hc] at h

section
variable (env : Env) (I : Table) (enc : Enc) (dec : Dec) (conf : Nat → Val → Bool)

/-- what `NameValue` needs to know about the `DateTime` class it embeds: two
    application-tagged elements, date then time -/
def DateTimeOK (dt : Nat) : Prop :=
  ∀ v, conf dt v = true → ∃ l1 d1 l2 d2, v = .seq [some (.prim l1 d1), some (.prim l2 d2)] ∧
    enc dt v = .ok [⟨.app, 10, l1, d1⟩, ⟨.app, 11, l2, d2⟩] ∧
    ∀ rest, dec dt (⟨.app, 10, l1, d1⟩ :: ⟨.app, 11, l2, d2⟩ :: rest) = .ok (v, rest)

/-- the hand-written `NameValue` codec -/
theorem goodNameValue (dt : Nat) (hdt : DateTimeOK enc dec conf dt)
    (v : Val) (hc : conformsDef env conf (.nameValue dt) v = true) :
    ∃ ts, encodeNameValue enc dt v = .ok ts ∧ HeadOK [.ctx 0] false ts ∧
      ∀ rest, Safe [.anyApp] rest → decodeNameValue dec dt (ts ++ rest) = .ok (v, rest) := by
  -- the value has the shape `.seq [some (.prim lvt data), value]`
  have hshape : ∃ lvt data value, v = .seq [some (.prim lvt data), value] := by
    cases v with
    | seq fs =>
      cases fs with
      | nil => simp [conformsDef] at hc
      | cons x fs1 =>
        cases x with
        | none => simp [conformsDef] at hc
        | some nm =>
          cases nm with
          | prim lvt data =>
            cases fs1 with
            | nil => simp [conformsDef] at hc
            | cons value fs2 =>
              cases fs2 with
              | cons _ _ => simp [conformsDef] at hc
              | nil => exact ⟨lvt, data, value, rfl⟩
          | _ => simp [conformsDef] at hc
    | _ => simp [conformsDef] at hc
  obtain ⟨lvt, data, value, rfl⟩ := hshape
  simp only [conformsDef] at hc
  simp only [Bool.and_eq_true] at hc
  obtain ⟨hname, hval⟩ := hc
  obtain ⟨t, ht, hcls, hnum, t', ht', hp⟩ := prim_ctx_roundtrip 0 hname
  have hctx : isCtx 0 t = true := by simp [isCtx, hcls, hnum]
  have hnotapp : ∀ (rest : List Tag), Safe [.anyApp] rest → ∀ n r, rest = n :: r → n.cls ≠ .app := by
    intro rest hs n r hr
    subst hr
    rcases Safe.cons_iff.mp hs with h | h
    · rw [h]; simp
    · have := h .anyApp (by simp)
      simpa [Pat.matches] using this
  cases value with
  | none =>
    refine ⟨[t], by simp [encodeNameValue, ht], ⟨by simp [hcls], .ctx 0, by simp, by simpa [Pat.matches] using hctx⟩, ?_⟩
    intro rest hs
    cases rest with
    | nil => simp [decodeNameValue, hctx, ht', hp]
    | cons n r =>
      have := hnotapp _ hs n r rfl
      simp [decodeNameValue, hctx, ht', hp, this]
  | some x =>
    cases x with
    | atom a l d =>
      simp only [Bool.and_eq_true, decide_eq_true_eq] at hval
      refine ⟨[t, ⟨.app, a, l, d⟩], by simp [encodeNameValue, ht],
        ⟨by simp [hcls], .ctx 0, by simp, by simpa [Pat.matches] using hctx⟩, ?_⟩
      intro rest hs
      cases rest with
      | nil => simp [decodeNameValue, hctx, ht', hp, atom_roundtrip hval.1 hval.2]
      | cons n r =>
        have := hnotapp _ hs n r rfl
        simp [decodeNameValue, hctx, ht', hp, isApp, this, atom_roundtrip hval.1 hval.2]
    | seq fs =>
      simp only at hval
      obtain ⟨l1, d1, l2, d2, hv, he, hd⟩ := hdt (.seq fs) hval
      refine ⟨t :: [⟨.app, 10, l1, d1⟩, ⟨.app, 11, l2, d2⟩], by simp [encodeNameValue, ht, he],
        ⟨by simp [hcls], .ctx 0, by simp, by simpa [Pat.matches] using hctx⟩, ?_⟩
      intro rest _
      simp [decodeNameValue, hctx, ht', hp, isApp, hd rest]
    | prim _ _ => simp at hval
    | tags _ => simp at hval
    | choice _ _ => simp at hval
    | list _ => simp at hval

/-- ONE CLASS, given everything below it -/
theorem goodDef (τ : Nat) (d : TyDef)
    (hinfo : look I τ = infoOf env I d) (hok : defOK env I τ d = true)
    (hgood : ∀ j, j < τ → Good I enc dec conf j)
    (hff : ∀ j, j < τ → FailFast I dec j)
    (hstop : ∀ r j, (kindOf env r = .seqOf j ∨ kindOf env r = .listOf j) → ListStop dec j)
    (hdt : ∀ dt, dt < τ →
      env[dt]? = some (.seq [⟨.prim 10, none, false⟩, ⟨.prim 11, none, false⟩]) → DateTimeOK enc dec conf dt)
    (v : Val) (hc : conformsDef env conf d v = true) :
    ∃ ts, encodeDef env enc d v = .ok ts ∧
      HeadOK (look I τ).first (look I τ).nullable ts ∧
      ∀ rest, Safe (look I τ).confus rest → decodeDef env dec d (ts ++ rest) = .ok (v, rest) := by
  rw [hinfo]
  cases d with
  | seq fs =>
    cases v with
    | seq vs =>
      simp only [conformsDef] at hc
      simp only [defOK, Bool.and_eq_true] at hok
      simp only [infoOf]
      obtain ⟨ts, he, hh, hd⟩ := goodFields env I enc dec conf τ hgood hff hstop fs vs hok.1 hok.2 hc
      exact ⟨ts, by simpa [encodeDef] using he, hh, fun rest hs => by simp [decodeDef, hd rest hs]⟩
    | _ => simp [conformsDef] at hc
  | choice alts =>
    cases v with
    | choice i x =>
      simp only [conformsDef] at hc
      simp only [defOK, Bool.and_eq_true] at hok
      simp only [infoOf]
      cases hi : alts[i]? with
      | none => simp [hi] at hc
      | some a =>
        rw [hi] at hc
        simp only at hc
        obtain ⟨t, r, he, hcl, hp, hd⟩ :=
          goodAlts env I enc dec conf τ hgood alts 0 i a x hok.1 hok.2 hi hc
        refine ⟨t :: r, by simp [encodeDef, hi, he], ⟨hcl, hp⟩, ?_⟩
        intro rest _
        have := hd rest
        simp only [Nat.zero_add] at this
        simp [decodeDef, decodeChoice, hcl, this]
    | _ => simp [conformsDef] at hc
  | list k elem fixed =>
    cases v with
    | list vs =>
      simp only [conformsDef, Bool.and_eq_true] at hc
      simp only [defOK] at hok
      simp only [infoOf]
      obtain ⟨ts, he, hnil, hhd, hd⟩ := goodElems env I enc dec conf τ elem hgood hok vs hc.1
      have hfix : ∀ n, fixed = some n → vs.length = n := by
        intro n hn; have := hc.2; rw [hn] at this; simpa using this
      refine ⟨ts, ?_, ?_, ?_⟩
      · cases fixed with
        | none => simpa [encodeDef] using he
        | some n => simp [encodeDef, hfix n rfl, he]
      · cases ts with
        | nil =>
          have hvs := hnil rfl
          subst hvs
          simp only [HeadOK]
          cases fixed with
          | none => rfl
          | some n =>
            have := hfix n rfl
            simp only [List.length_nil] at this
            subst this; rfl
        | cons t r => exact hhd t r rfl
      · intro rest hs
        have hstop' : Stop rest := Safe.anyTag hs (by simp)
        have := hd rest (ts.length + rest.length) hstop' (by simp)
        cases fixed with
        | none => simp [decodeDef, this]
        | some n => simp [decodeDef, this, hfix n rfl]
    | _ => simp [conformsDef] at hc
  | any =>
    cases v with
    | tags ts =>
      simp only [conformsDef, Bool.and_eq_true] at hc
      replace hc := hc.1
      simp only [infoOf]
      refine ⟨ts, by simp [encodeDef], ?_, ?_⟩
      · cases ts with
        | nil => rfl
        | cons t r =>
          have := balanced_head hc
          exact ⟨this, .anyTag, by simp, by simp [Pat.matches, this]⟩
      · intro rest hs
        have hstop' : Stop rest := Safe.anyTag hs (by simp)
        simp [decodeDef, anyDecode, anyTake_balanced ts 0 rest hc hstop']
    | _ => simp [conformsDef] at hc
  | nameValue dt =>
    simp only [defOK, Bool.and_eq_true, decide_eq_true_eq] at hok
    have henv : env[dt]? = some (.seq [⟨.prim 10, none, false⟩, ⟨.prim 11, none, false⟩]) := by
      have := hok.2
      split at this
      · assumption
      · simp at this
    obtain ⟨ts, he, hh, hd⟩ := goodNameValue env enc dec conf dt (hdt dt hok.1 henv) v hc
    simp only [infoOf]
    refine ⟨ts, ?_, hh, fun rest hs => ?_⟩
    · cases v <;> simpa [encodeDef] using he
    · simpa [decodeDef] using hd rest hs

/-- a class that announces it (`Info.ff`) refuses every other first tag with a caught error -/
theorem failFastDef (τ : Nat) (d : TyDef)
    (hinfo : look I τ = infoOf env I d) (hok : defOK env I τ d = true)
    (hff : ∀ j, j < τ → FailFast I dec j)
    (h : (look I τ).ff = true) (t : Tag) (r : List Tag) (hcl : t.cls ≠ .closing)
    (hn : ∀ p ∈ (look I τ).first, p.matches t = false) :
    ∃ e, decodeDef env dec d (t :: r) = .error e ∧ (e = .decoding ∨ e = .invalidTag) := by
  rw [hinfo] at h hn
  cases d with
  | seq fs =>
    simp only [infoOf] at h hn
    simp only [defOK, Bool.and_eq_true] at hok
    cases fs with
    | nil => simp at h
    | cons f fs' =>
      simp only at h
      simp only [List.all_cons, Bool.and_eq_true] at hok
      obtain ⟨e, he, hee⟩ := fields_failfast env I dec τ f fs' hff hok.1.1 h t r hcl
        (fun p hp => hn p (by simp [firstFields, hp]))
      exact ⟨e, by simp [decodeDef, he], hee⟩
  | choice alts =>
    simp only [infoOf] at hn
    simp only [defOK, Bool.and_eq_true] at hok
    exact ⟨.invalidTag, by simp [decodeDef, decodeChoice, hcl, alts_failfast env I dec τ t r alts 0 hok.1 hn], Or.inr rfl⟩
  | list k elem fixed => simp [infoOf] at h
  | any => simp [infoOf] at h
  | nameValue dt => simp [infoOf] at h
end

end BacVerif.C03
