/-
  Lemmas.SchedSpec — the INDEPENDENT, declarative side of C20: what a date
  pattern denotes and which value BACnet prescribes.  Nothing here mentions
  the model's matchers, slots or scans; `Props/C20.lean` proves the model
  equal to it.
-/
import BacVerif.Lemmas.SchedCal
namespace BacVerif.Sched

/-! ## what a pattern denotes -/

/-- the tuples the matchers are asked about: a real calendar date with a
    weekday number 1..7 (the weekday need not even be the right one) -/
def ValidTuple (d : Date) : Prop := ValidYMD d ∧ 1 ≤ d.w ∧ d.w ≤ 7

instance (d : Date) : Decidable (ValidTuple d) := by unfold ValidTuple; exact inferInstance

theorem ValidDate.tuple {d : Date} (h : ValidDate d) : ValidTuple d := ⟨h.1, dow_range d h⟩

/-- month field: 255 any, 13 odd months, 14 even months, 1..12 that month -/
def DenMonth (mp m : Nat) : Prop :=
  mp = 255 ∨ (mp = 13 ∧ m % 2 = 1) ∨ (mp = 14 ∧ m % 2 = 0) ∨ (1 ≤ mp ∧ mp ≤ 12 ∧ m = mp)

/-- day field: 255 any, 32 last day of the month, 33 odd days, 34 even days, 1..31 that day -/
def DenDay (dp : Nat) (d : Date) : Prop :=
  dp = 255 ∨ (dp = 32 ∧ d.d = SpecMonthLen (1900 + d.y) d.m) ∨ (dp = 33 ∧ d.d % 2 = 1) ∨
    (dp = 34 ∧ d.d % 2 = 0) ∨ (1 ≤ dp ∧ dp ≤ 31 ∧ d.d = dp)

/-- weekday field: 255 any, 1..7 that weekday -/
def DenDow (wp w : Nat) : Prop := wp = 255 ∨ (1 ≤ wp ∧ wp ≤ 7 ∧ w = wp)

/-- a Date pattern (year-1900 | 255, month, day, weekday) -/
def DenotesDate (p d : Date) : Prop :=
  (p.y = 255 ∨ p.y = d.y) ∧ DenMonth p.m d.m ∧ DenDay p.d d ∧ DenDow p.w d.w

/-- week-of-month field of a WeekNDay: 255 any; 1..5 the n-th block of seven
    days counted from the first; 6..9 the (n−5)-th block of seven days counted
    back from the last day of the month -/
def DenWeek (wp : Nat) (d : Date) : Prop :=
  wp = 255 ∨ (1 ≤ wp ∧ wp ≤ 5 ∧ (d.d - 1) / 7 + 1 = wp) ∨
    (6 ≤ wp ∧ wp ≤ 9 ∧ (SpecMonthLen (1900 + d.y) d.m - d.d) / 7 + 6 = wp)

def DenotesWND (mp wp dp : Nat) (d : Date) : Prop := DenMonth mp d.m ∧ DenWeek wp d ∧ DenDow dp d.w

/-- week values the standard defines -/
def ValidWeek (wp : Nat) : Prop := wp = 255 ∨ (1 ≤ wp ∧ wp ≤ 9)

def Open3 (p : Date) : Prop := p.y = 255 ∧ p.m = 255 ∧ p.d = 255

/-- an end of a DateRange: unspecified, or a real date -/
def RangeEnd (p : Date) : Prop := Open3 p ∨ ValidYMD p

/-- a DateRange denotes the days whose ORDINAL lies between the ordinals of
    its ends; an unspecified end is open -/
def DenotesRange (s e d : Date) : Prop :=
  (Open3 s ∨ dayNum s.y s.m s.d ≤ dayNum d.y d.m d.d) ∧
  (Open3 e ∨ dayNum d.y d.m d.d ≤ dayNum e.y e.m e.d)

def DenotesEntry : CalEntry → Date → Prop
  | .date p, d => DenotesDate p d
  | .range s e, d => DenotesRange s e d
  | .weekNDay mp wp dp, d => DenotesWND mp wp dp d
  | .empty, _ => False

/-- entries the standard gives a meaning to -/
def WFEntry : CalEntry → Prop
  | .date _ => True
  | .range s e => RangeEnd s ∧ RangeEnd e
  | .weekNDay _ wp _ => ValidWeek wp
  | .empty => False

def DenotesPeriod : Period → Date → Prop
  | .entry e, d => DenotesEntry e d
  | .ref (some es), d => ∃ e ∈ es, DenotesEntry e d
  | .ref none, _ => False
  | .missing, _ => False

def WFPeriod : Period → Prop
  | .entry e => WFEntry e
  | .ref (some es) => ∀ e ∈ es, WFEntry e
  | .ref none => False
  | .missing => False

instance (mp m : Nat) : Decidable (DenMonth mp m) := by unfold DenMonth; exact inferInstance
instance (dp : Nat) (d : Date) : Decidable (DenDay dp d) := by unfold DenDay; exact inferInstance
instance (wp w : Nat) : Decidable (DenDow wp w) := by unfold DenDow; exact inferInstance
instance (p d : Date) : Decidable (DenotesDate p d) := by unfold DenotesDate; exact inferInstance
instance (wp : Nat) (d : Date) : Decidable (DenWeek wp d) := by unfold DenWeek; exact inferInstance
instance (a b c : Nat) (d : Date) : Decidable (DenotesWND a b c d) := by
  unfold DenotesWND; exact inferInstance
instance (wp : Nat) : Decidable (ValidWeek wp) := by unfold ValidWeek; exact inferInstance
instance (p : Date) : Decidable (Open3 p) := by unfold Open3; exact inferInstance
instance (p : Date) : Decidable (RangeEnd p) := by unfold RangeEnd; exact inferInstance
instance (s e d : Date) : Decidable (DenotesRange s e d) := by unfold DenotesRange; exact inferInstance
instance (e : CalEntry) (d : Date) : Decidable (DenotesEntry e d) := by
  cases e <;> unfold DenotesEntry <;> exact inferInstance
instance (e : CalEntry) : Decidable (WFEntry e) := by
  cases e <;> unfold WFEntry <;> exact inferInstance
instance (p : Period) (d : Date) : Decidable (DenotesPeriod p d) := by
  cases p with
  | entry e => unfold DenotesPeriod; exact inferInstance
  | ref l => cases l <;> unfold DenotesPeriod <;> exact inferInstance
  | missing => unfold DenotesPeriod; exact inferInstance
instance (p : Period) : Decidable (WFPeriod p) := by
  cases p with
  | entry e => unfold WFPeriod; exact inferInstance
  | ref l => cases l <;> unfold WFPeriod <;> exact inferInstance
  | missing => unfold WFPeriod; exact inferInstance

/-! ## the value BACnet prescribes -/

def Val.toOption : Val → Option Nat
  | .null => none
  | .v x => some x

/-- the entry in effect at time `t`: the last of those whose time has come
    (in a list ordered by time: the latest one, `latest_is_greatest`) -/
def latest (l : List TV) (t : Time) : Option TV := (l.filter fun e => e.time.le t).getLast?

/-- what a list of time-values says at `t`: nothing before its first entry
    and nothing after a relinquish (Null) -/
def listValue (l : List TV) (t : Time) : Option Nat := (latest l t).bind fun e => e.value.toOption

/-- exceptions in force on day `d` with priority `p`, in array order -/
def inForce (excs : List SpecialEvent) (d : Date) (p : Nat) : List SpecialEvent :=
  excs.filter fun se => decide (se.prio = p) && decide (DenotesPeriod se.period d)

/-- the value of the highest-priority (1 = highest) exception in force that
    has one; among equal priorities the lowest array index -/
def specExc (excs : List SpecialEvent) (d : Date) (t : Time) : Option Nat :=
  (List.range 16).findSome? fun i => (inForce excs d (i + 1)).findSome? fun se => listValue se.tvs t

/-- the weekly schedule's say: latest entry of that weekday's list -/
def specWeekly (weekly : Option (List (List TV))) (d : Date) (t : Time) : Option Nat :=
  match weekly with
  | none => none
  | some wk => match wk[d.w - 1]? with
    | none => none
    | some day => listValue day t

/-- `none` = the schedule is not in its effective period -/
def specValue (cfg : Cfg) (d : Date) (t : Time) : Option Nat :=
  if DenotesRange cfg.effStart cfg.effEnd d then
    some (((specExc (cfg.exc.getD []) d t).orElse fun _ => specWeekly cfg.weekly d t).getD cfg.dflt)
  else none

/-! ## the configurations the theorems are about -/

def SortedTVs (l : List TV) : Prop := l.Pairwise fun a b => a.time.le b.time = true

/-- every time list is ordered by time (BACnet requires it) -/
def SortedCfg (cfg : Cfg) : Prop :=
  (∀ se ∈ cfg.exc.getD [], SortedTVs se.tvs) ∧ (∀ day ∈ cfg.weekly.getD [], SortedTVs day)

/-- a time of day -/
def Time.Proper (t : Time) : Prop := t.h < 24 ∧ t.mi < 60 ∧ t.s < 60 ∧ t.hs < 100

/-- well-formed configuration: effective period ends unspecified or real
    dates, seven daily lists (or none), every exception has a meaningful
    period and a priority 1..16 -/
def WeeklyOk : Option (List (List TV)) → Prop
  | none => True
  | some wk => wk.length = 7

def ValidCfg (cfg : Cfg) : Prop :=
  RangeEnd cfg.effStart ∧ RangeEnd cfg.effEnd ∧ WeeklyOk cfg.weekly ∧
  (∀ se ∈ cfg.exc.getD [], WFPeriod se.period ∧ 1 ≤ se.prio ∧ se.prio ≤ 16)

/-- every entry time is a time of day (no wildcard) -/
def ProperCfg (cfg : Cfg) : Prop :=
  (∀ se ∈ cfg.exc.getD [], ∀ tv ∈ se.tvs, tv.time.Proper) ∧
  (∀ day ∈ cfg.weekly.getD [], ∀ tv ∈ day, tv.time.Proper)

instance (l : List TV) : Decidable (SortedTVs l) := by unfold SortedTVs; exact inferInstance
instance (cfg : Cfg) : Decidable (SortedCfg cfg) := by unfold SortedCfg; exact inferInstance
instance (t : Time) : Decidable t.Proper := by unfold Time.Proper; exact inferInstance
instance (w : Option (List (List TV))) : Decidable (WeeklyOk w) := by
  cases w <;> unfold WeeklyOk <;> exact inferInstance
instance (cfg : Cfg) : Decidable (ValidCfg cfg) := by unfold ValidCfg; exact inferInstance
instance (cfg : Cfg) : Decidable (ProperCfg cfg) := by unfold ProperCfg; exact inferInstance

end BacVerif.Sched
