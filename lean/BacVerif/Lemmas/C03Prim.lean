/-
  Lemmas.C03Prim — the bridge between C03's opaque leaves and C01's primitive
  codec (`Model.Prim`, `Props.C01`): every tag a primitive encoder emits for a
  representable value is a conforming leaf payload of C03 (`leafOK`), and what
  C03's decoder hands back for that leaf is, by C01's `prim_roundtrip`, the
  value.  So `codec_roundtrip` composes with C01 leaf by leaf.
-/
import BacVerif.Model.SchemaWF
import BacVerif.Props.C01
namespace BacVerif.C03
open BacVerif BacVerif.Schema BacVerif.Codec BacVerif.SchemaWF

/-- a tag that C01's decoder of type `ty` accepts passes C03's `leafCheck` -/
theorem leafCheck_of_decodePrim (ty : PrimTy) (t : Tag) (v : PrimVal)
    (h : decodePrim ty t = .ok v) : leafCheck ty.appTag t = .ok () := by
  unfold decodePrim at h
  unfold checkApp at h
  unfold leafCheck
  by_cases hc : t.cls ≠ .app ∨ t.num ≠ ty.appTag
  · simp [hc] at h
  · simp only [hc, ↓reduceIte] at h ⊢
    have quad : ∀ (f : Int × Int × Int × Int → PrimVal) (x : PrimVal),
        Except.map f (decodeQuad t.data) = .ok x → t.data.length = 4 := by
      intro f x hx
      cases hq : decodeQuad t.data with
      | error e => rw [hq] at hx; simp [Except.map] at hx
      | ok q =>
        unfold decodeQuad at hq
        split at hq
        · rename_i a b c d heq; simp [heq]
        · simp at hq
    cases ty with
    | null => simp only [PrimTy.appTag] at h ⊢; split at h <;> simp_all
    | bool => simp only [PrimTy.appTag] at h ⊢; split at h <;> simp_all
    | unsigned => simp only [PrimTy.appTag] at h ⊢; split at h <;> simp_all
    | integer =>
      simp only [PrimTy.appTag] at h ⊢
      cases hd : t.data with
      | nil => rw [hd] at h; simp [decodeIntegerData, Except.map] at h
      | cons b bs => simp
    | real => simp only [PrimTy.appTag] at h ⊢; split at h <;> simp_all
    | double => simp only [PrimTy.appTag] at h ⊢; split at h <;> simp_all
    | octets => simp only [PrimTy.appTag]
    | charstr =>
      simp only [PrimTy.appTag] at h ⊢
      cases hd : t.data with
      | nil => rw [hd] at h; simp at h
      | cons b bs => simp
    | bits =>
      simp only [PrimTy.appTag] at h ⊢
      cases hd : t.data with
      | nil => rw [hd] at h; simp [decodeBitsData, Except.map] at h
      | cons b bs => simp
    | enum => simp only [PrimTy.appTag] at h ⊢; split at h <;> simp_all
    | date =>
      simp only [PrimTy.appTag] at h ⊢
      simp [quad _ _ h]
    | time =>
      simp only [PrimTy.appTag] at h ⊢
      simp [quad _ _ h]
    | oid => simp only [PrimTy.appTag] at h ⊢; split at h <;> simp_all

/-- **leaf_of_prim**: the payload C01's encoder produces for a representable
    value is a structurally valid leaf of C03, and C01's decoder recovers the
    value from the very tag C03's leaf stands for. -/
theorem leaf_of_prim (v : PrimVal) (hv : C01.Valid v) (hf : C01.Fits v) :
    ∃ t, encodePrim v = .ok t ∧ t.cls = .app ∧ t.num = (tyOf v).appTag ∧
      leafOK (tyOf v).appTag t.lvt t.data = true ∧
      decodePrim (tyOf v) ⟨.app, (tyOf v).appTag, t.lvt, t.data⟩ = .ok v := by
  obtain ⟨t, he, hd⟩ := C01.prim_roundtrip v hv
  obtain ⟨hcls, hnum, hshape⟩ := C01.encodePrim_shape v t he
  have hlen : t.data.length < 4294967296 := by simpa [C01.Fits, he] using hf
  have ht : t = ⟨.app, (tyOf v).appTag, t.lvt, t.data⟩ := by
    cases t; simp_all
  refine ⟨t, he, hcls, hnum, ?_, by rw [← ht]; exact hd⟩
  have hchk := leafCheck_of_decodePrim (tyOf v) t v hd
  rw [ht] at hchk
  unfold leafOK
  rw [hchk]
  simp only [Bool.true_and]
  rw [hnum] at hshape
  split at hshape
  · rename_i h1
    have : t.lvt < 4294967296 := by omega
    simp [h1, hshape.1, this]
  · rename_i h1
    have : t.lvt < 4294967296 := by omega
    have h2 : (tyOf v).appTag ≠ 1 := h1
    simp [h2, hshape, hlen]

end BacVerif.C03
