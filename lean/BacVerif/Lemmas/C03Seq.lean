/-
  Lemmas.C03Seq — Sequence.encode / Sequence.decode over a whole element list
  (the LL(1) argument: `seqOK` keeps every element's follow set apart from the
  first tags of what may come next).
-/
import BacVerif.Lemmas.C03Field
namespace BacVerif.C03
open BacVerif BacVerif.Schema BacVerif.Codec BacVerif.SchemaWF

section
variable (env : Env) (I : Table) (enc : Enc) (dec : Dec) (conf : Nat → Val → Bool)

theorem goodFields (τ : Nat)
    (hgood : ∀ j, j < τ → Good I enc dec conf j)
    (hff : ∀ j, j < τ → FailFast I dec j)
    (hstop : ∀ r j, (kindOf env r = .seqOf j ∨ kindOf env r = .listOf j) → ListStop dec j) :
    ∀ (fs : List Field) (vs : List (Option Val)),
      fs.all (fieldSane env I τ) = true → seqOK env I fs = true →
      conformsFields env conf fs vs = true →
      ∃ ts, encodeFields env enc fs vs = .ok ts ∧
        HeadOK (firstFields env I fs) (nullableFields env I fs) ts ∧
        ∀ rest, Safe (confusFields env I fs) rest →
          decodeFields env dec fs (ts ++ rest) = .ok (vs, rest) := by
  intro fs
  induction fs with
  | nil =>
    intro vs _ _ hc
    cases vs with
    | nil => exact ⟨[], rfl, by simp [HeadOK, nullableFields], fun rest _ => by simp [decodeFields]⟩
    | cons v vs => simp [conformsFields] at hc
  | cons f fs ih =>
    intro vs hsane hok hc
    simp only [List.all_cons, Bool.and_eq_true] at hsane
    simp only [seqOK, Bool.and_eq_true] at hok
    cases vs with
    | nil => simp [conformsFields] at hc
    | cons ov vs =>
      have hcf : confField env conf f ov = true ∧ conformsFields env conf fs vs = true := by
        cases ov with
        | none => simpa [conformsFields, confField] using hc
        | some v => simpa [conformsFields, confField] using hc
      obtain ⟨ts1, he1, hh1, hd1⟩ := goodField env I enc dec conf τ f hgood hff hstop hsane.1 ov hcf.1
      obtain ⟨ts2, he2, hh2, hd2⟩ := ih vs hsane.2 hok.2 hcf.2
      refine ⟨ts1 ++ ts2, by simp [encodeFields, he1, he2], ?_, ?_⟩
      · -- first tag
        cases ts1 with
        | cons t r =>
          obtain ⟨hcl, p, hp, hm⟩ := hh1
          exact ⟨hcl, p, by simp [firstFields, hp], hm⟩
        | nil =>
          simp only [HeadOK] at hh1
          simp only [List.nil_append]
          cases ts2 with
          | nil =>
            simp only [HeadOK] at hh2 ⊢
            simp only [nullableFields] at hh2
            simp [nullableFields, hh1, hh2]
          | cons t r =>
            obtain ⟨hcl, p, hp, hm⟩ := hh2
            exact ⟨hcl, p, by simp [firstFields, hh1, hp], hm⟩
      · intro rest hs
        have hs2 : Safe (confusFields env I fs) rest :=
          Safe.mono hs (by intro p hp; simp [confusFields, hp])
        have hs1 : Safe (fieldConfus env I f) (ts2 ++ rest) := by
          cases ts2 with
          | nil =>
            simp only [HeadOK] at hh2
            simp only [List.nil_append]
            exact Safe.mono hs (by intro p hp; simp [confusFields, hh2, hp])
          | cons t r =>
            obtain ⟨_, p, hp, hm⟩ := hh2
            exact Safe.of_nomatch (disjAll_sound hok.1 hp hm)
        have h1 := hd1 (ts2 ++ rest) hs1
        have h2 := hd2 rest hs2
        simp [decodeFields, List.append_assoc, h1, h2]

/-- a sequence whose first element is required and announces its tag refuses any
    other first tag with InvalidTag (or the caught error of the structure inside) -/
theorem fields_failfast (τ : Nat) (f : Field) (fs : List Field)
    (hff : ∀ j, j < τ → FailFast I dec j)
    (hsane : fieldSane env I τ f = true) (hf : fieldFF env I f = true)
    (t : Tag) (r : List Tag) (hcl : t.cls ≠ .closing)
    (hn : ∀ p ∈ fieldFirst env I f, p.matches t = false) :
    ∃ e, decodeFields env dec (f :: fs) (t :: r) = .error e ∧ (e = .decoding ∨ e = .invalidTag) := by
  obtain ⟨ref, ctx, opt⟩ := f
  unfold fieldFF at hf
  unfold fieldSane at hsane
  unfold fieldFirst at hn
  simp only [Bool.and_eq_true, Bool.not_eq_eq_eq_not, Bool.not_true] at hf
  obtain ⟨hopt, hf⟩ := hf
  subst hopt
  have key : ∃ e, decodeField env dec ⟨ref, ctx, false⟩ (t :: r) = .error e ∧ (e = .decoding ∨ e = .invalidTag) := by
    unfold decodeField
    simp only [hcl, ↓reduceIte]
    cases hk : kindOf env ref with
    | prim a =>
      rw [hk] at hf hn
      cases ctx with
      | none => simp at hf
      | some c => simp_all [Pat.matches]
    | listOf j =>
      rw [hk] at hf hn
      cases ctx with
      | none => simp at hf
      | some c => simp_all [Pat.matches]
    | struct j =>
      rw [hk] at hf hn hsane
      cases ctx with
      | some c => simp_all [Pat.matches]
      | none =>
        simp only [Bool.and_eq_true, decide_eq_true_eq] at hsane
        simp only at hf hn
        obtain ⟨e, he, hee⟩ := hff j hsane.2.1.1 hf t r hcl hn
        exact ⟨e, by simp [he], hee⟩
    | anyAtomic => rw [hk] at hf; simp at hf
    | seqOf j => rw [hk] at hf; cases ctx <;> simp at hf
    | bad => rw [hk] at hf; simp at hf
  obtain ⟨e, he, hee⟩ := key
  exact ⟨e, by simp [decodeFields, he], hee⟩
end

end BacVerif.C03
