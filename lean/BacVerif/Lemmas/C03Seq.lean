/-
  Lemmas.C03Seq — Sequence.encode / Sequence.decode over a whole element list
  (the LL(1) argument: `seqOK` keeps every element's follow set apart from the
  first tags of what may come next).
-/
import BacVerif.Lemmas.C03Field
namespace BacVerif.C03
open BacVerif BacVerif.Schema BacVerif.Codec BacVerif.SchemaWF

section
variable (env : Env) (I : Table) (enc : Enc) (dec : Dec) (conf : Nat → Val → Bool)

theorem goodFields (τ : Nat)
    (hgood : ∀ j, j < τ → (look I j).sup = true → Good I enc dec conf j)
    (hstop : ∀ r j, (kindOf env r = .seqOf j ∨ kindOf env r = .listOf j) → ListStop dec j) :
    ∀ (fs : List Field) (vs : List (Option Val)),
      fs.all (fieldSane env I τ) = true → fs.all (fieldSup env I) = true → seqOK env I fs = true →
      conformsFields env conf fs vs = true →
      ∃ ts, encodeFields env enc fs vs = .ok ts ∧
        HeadOK (firstFields env I fs) (nullableFields env I fs) ts ∧
        ∀ rest, Safe (confusFields env I fs) rest →
          decodeFields env dec fs (ts ++ rest) = .ok (vs, rest) := by
  intro fs
  induction fs with
  | nil =>
    intro vs _ _ _ hc
    cases vs with
    | nil => exact ⟨[], rfl, by simp [HeadOK, nullableFields], fun rest _ => by simp [decodeFields]⟩
    | cons v vs => simp [conformsFields] at hc
  | cons f fs ih =>
    intro vs hsane hsup hok hc
    simp only [List.all_cons, Bool.and_eq_true] at hsane hsup
    simp only [seqOK, Bool.and_eq_true] at hok
    cases vs with
    | nil => simp [conformsFields] at hc
    | cons ov vs =>
      have hcf : confField env conf f ov = true ∧ conformsFields env conf fs vs = true := by
        cases ov with
        | none => simpa [conformsFields, confField] using hc
        | some v => simpa [conformsFields, confField] using hc
      obtain ⟨ts1, he1, hh1, hd1⟩ := goodField env I enc dec conf τ f hgood hstop hsane.1 hsup.1 ov hcf.1
      obtain ⟨ts2, he2, hh2, hd2⟩ := ih vs hsane.2 hsup.2 hok.2 hcf.2
      refine ⟨ts1 ++ ts2, by simp [encodeFields, he1, he2], ?_, ?_⟩
      · -- first tag
        cases ts1 with
        | cons t r =>
          obtain ⟨hcl, p, hp, hm⟩ := hh1
          exact ⟨hcl, p, by simp [firstFields, hp], hm⟩
        | nil =>
          simp only [HeadOK] at hh1
          simp only [List.nil_append]
          cases ts2 with
          | nil =>
            simp only [HeadOK] at hh2 ⊢
            simp only [nullableFields] at hh2
            simp [nullableFields, hh1, hh2]
          | cons t r =>
            obtain ⟨hcl, p, hp, hm⟩ := hh2
            exact ⟨hcl, p, by simp [firstFields, hh1, hp], hm⟩
      · intro rest hs
        have hs2 : Safe (confusFields env I fs) rest :=
          Safe.mono hs (by intro p hp; simp [confusFields, hp])
        have hs1 : Safe (fieldConfus env I f) (ts2 ++ rest) := by
          cases ts2 with
          | nil =>
            simp only [HeadOK] at hh2
            simp only [List.nil_append]
            exact Safe.mono hs (by intro p hp; simp [confusFields, hh2, hp])
          | cons t r =>
            obtain ⟨_, p, hp, hm⟩ := hh2
            exact Safe.of_nomatch (disjAll_sound hok.1 hp hm)
        have h1 := hd1 (ts2 ++ rest) hs1
        have h2 := hd2 rest hs2
        simp [decodeFields, List.append_assoc, h1, h2]
end

end BacVerif.C03
