/-
  Lemmas.TsmC05Retry — C05: the sender's lexicographic measure
  (segments acknowledged, retries left), handler level.

  For a transaction that is SENDING segments (client: SEGMENTED_REQUEST,
  server: SEGMENTED_RESPONSE):
  * its timer with a retry left keeps it sending, spends exactly one retry,
    leaves the window where it is and re-emits the outstanding window
    (segment 0 alone while nothing is acknowledged, else `fill_window`);
  * it gives up on a timer iff no retry is left;
  * a SegmentAck inside the window that is not the final one moves the window
    start strictly forward (past the acknowledged segment), restores all
    retries and fills the new window; the final one ends the sending phase;
    one outside the window changes nothing but the timer.
  These are the steps a recovery from a lost frame consists of; that they
  compose to success under one fault is decided by the sweeps
  (Lemmas/TsmC05Sweep.lean, harness/c05_impl.py), not proved.
-/
import BacVerif.Lemmas.TsmC05Seg
namespace BacVerif.Tsm
set_option linter.unusedSimpArgs false
set_option linter.unusedVariables false

variable {cfg : Cfg}

/-- what a retransmission puts on the wire -/
def retransmit (cfg : Cfg) (k : Key) (b : Body) : List Out :=
  if b.initSeq = 0 then
    match getSegment cfg k b 0 0 with
    | .ok seg => [.send k.peer seg]
    | .error r => [.raised r]
  else
    sends k.peer (fillWindow cfg k b b.initSeq).sent ++ raisedOf (fillWindow cfg k b b.initSeq).err

/-- the body a sender works with after its timer fired with a retry left -/
def retryBody (cfg : Cfg) (now : Nat) (b : Body) : Body :=
  { b with segRetry := b.segRetry + 1, timer := arm now cfg.segTimeout }

theorem client_retry {now : Nat} {di : Option DeviceInfo} {k : Key} {b : Body} (hst : b.st = .segReq)
    (hr : b.segRetry < cfg.retries) :
    ∃ b', clientTimeout cfg now di k b = (some b', retransmit cfg k (retryBody cfg now b)) ∧
      b'.st = .segReq ∧ b'.segRetry = b.segRetry + 1 ∧ b'.initSeq = b.initSeq ∧ b'.ctx = b.ctx ∧
      b'.window = b.window ∧ b'.segCount = b.segCount ∧ b'.segSize = b.segSize := by
  unfold clientTimeout
  split
  all_goals first
    | (rename_i h; rw [hst] at h; cases h; done)
    | (exfalso; rename_i h1 h2 h3; first | exact h1 hst | exact h2 hst | exact h3 hst)
    | skip
  rw [if_pos hr]
  unfold retransmit retryBody
  dsimp only
  by_cases h0 : b.initSeq = 0
  · rw [if_pos h0, if_pos h0]
    split
    · rename_i seg hg
      simp only [hg]
      exact ⟨_, rfl, hst, rfl, rfl, rfl, rfl, rfl, rfl⟩
    · rename_i r hg
      simp only [hg]
      exact ⟨_, rfl, hst, rfl, rfl, rfl, rfl, rfl, rfl⟩
  · rw [if_neg h0, if_neg h0]
    exact ⟨_, rfl, hst, rfl, rfl, rfl, rfl, rfl, rfl⟩

theorem client_gives_up_iff {now : Nat} {di : Option DeviceInfo} {k : Key} {b : Body} (hst : b.st = .segReq) :
    (clientTimeout cfg now di k b).1 = none ↔ ¬ b.segRetry < cfg.retries := by
  constructor
  · intro h hr
    obtain ⟨b', hb, _⟩ := client_retry (cfg := cfg) (now := now) (di := di) (k := k) hst hr
    rw [hb] at h; cases h
  · intro hr
    unfold clientTimeout
    simp only [hst, hr, if_false, clientAbortApp]

theorem server_retry {now : Nat} {k : Key} {b : Body} (hst : b.st = .segResp) (hr : b.segRetry < cfg.retries) :
    ∃ b', serverTimeout cfg now k b = (some b', retransmit cfg k (retryBody cfg now b)) ∧
      b'.st = .segResp ∧ b'.segRetry = b.segRetry + 1 ∧ b'.initSeq = b.initSeq ∧ b'.ctx = b.ctx ∧
      b'.window = b.window ∧ b'.segCount = b.segCount ∧ b'.segSize = b.segSize := by
  unfold serverTimeout
  split
  all_goals first
    | (rename_i h; rw [hst] at h; cases h; done)
    | (exfalso; rename_i h1 h2 h3; first | exact h1 hst | exact h2 hst | exact h3 hst)
    | skip
  rw [if_pos hr]
  unfold retransmit retryBody
  dsimp only
  by_cases h0 : b.initSeq = 0
  · rw [if_pos h0, if_pos h0]
    split
    · rename_i seg hg
      simp only [hg]
      exact ⟨_, rfl, hst, rfl, rfl, rfl, rfl, rfl, rfl⟩
    · rename_i r hg
      simp only [hg]
      exact ⟨_, rfl, hst, rfl, rfl, rfl, rfl, rfl, rfl⟩
  · rw [if_neg h0, if_neg h0]
    exact ⟨_, rfl, hst, rfl, rfl, rfl, rfl, rfl, rfl⟩

theorem server_gives_up_iff {now : Nat} {k : Key} {b : Body} (hst : b.st = .segResp) :
    (serverTimeout cfg now k b).1 = none ↔ ¬ b.segRetry < cfg.retries := by
  constructor
  · intro h hr
    obtain ⟨b', hb, _⟩ := server_retry (cfg := cfg) (now := now) (k := k) hst hr
    rw [hb] at h; cases h
  · intro hr
    unfold serverTimeout
    simp only [hst, hr, if_false]

/-- the three things a SegmentAck can do to a sending client -/
theorem client_ack {now : Nat} {k : Key} {b : Body} {a : Apdu} (hst : b.st = .segReq) (h4 : a.ty = 4) :
    let x := clientConfirmation cfg now k b a
    (inWindow a.seq b.initSeq a.win = false →
        ∃ b', x = (some b', []) ∧ b'.st = .segReq ∧ b'.initSeq = b.initSeq ∧ b'.segRetry = b.segRetry) ∧
    (inWindow a.seq b.initSeq a.win = true → ackedIndex b a.seq + 1 ≥ b.segCount →
        ∃ b', x = (some b', []) ∧ b'.st = .awaitConf) ∧
    (inWindow a.seq b.initSeq a.win = true → ackedIndex b a.seq + 1 < b.segCount →
        ∃ b', x.1 = some b' ∧ b'.st = .segReq ∧ b'.initSeq = ackedIndex b a.seq + 1 ∧
          b.initSeq < b'.initSeq ∧ b'.segRetry = 0 ∧ b'.window = some a.win) := by
  intro x
  have hx : x = clientSegmentedRequest cfg now k b a := by
    show clientConfirmation cfg now k b a = _
    unfold clientConfirmation; rw [hst]
  have hai : ∀ w, ackedIndex { b with window := w } a.seq = ackedIndex b a.seq := fun _ => rfl
  refine ⟨?_, ?_, ?_⟩
  · intro hw
    rw [hx]; unfold clientSegmentedRequest
    simp only [h4, if_true, hw, Bool.not_false]
    exact ⟨_, rfl, hst, rfl, rfl⟩
  · intro hw hfin
    rw [hx]; unfold clientSegmentedRequest
    simp only [h4, if_true, hw, Bool.not_true, Bool.false_eq_true, if_false, hai, hfin]
    exact ⟨_, rfl, rfl⟩
  · intro hw hnf
    have hnf' : ¬ ackedIndex b a.seq + 1 ≥ b.segCount := by omega
    have hlt : b.initSeq < ackedIndex b a.seq + 1 := by unfold ackedIndex; omega
    rw [hx]; unfold clientSegmentedRequest
    simp only [h4, if_true, hw, Bool.not_true, Bool.false_eq_true, if_false, hai, hnf']
    split
    · exact ⟨_, rfl, hst, rfl, hlt, rfl, rfl⟩
    · exact ⟨_, rfl, hst, rfl, hlt, rfl, rfl⟩

/-- … and to a sending server (the final ack ends the transaction) -/
theorem server_ack {now : Nat} {k : Key} {b : Body} {a : Apdu} (hst : b.st = .segResp) (h4 : a.ty = 4) :
    let x := serverIndication cfg now k b a
    (inWindow a.seq b.initSeq a.win = false →
        ∃ b', x = (some b', []) ∧ b'.st = .segResp ∧ b'.initSeq = b.initSeq ∧ b'.segRetry = b.segRetry) ∧
    (inWindow a.seq b.initSeq a.win = true → ackedIndex b a.seq + 1 ≥ b.segCount → x = (none, [])) ∧
    (inWindow a.seq b.initSeq a.win = true → ackedIndex b a.seq + 1 < b.segCount →
        ∃ b', x.1 = some b' ∧ b'.st = .segResp ∧ b'.initSeq = ackedIndex b a.seq + 1 ∧
          b.initSeq < b'.initSeq ∧ b'.segRetry = 0 ∧ b'.window = some a.win) := by
  intro x
  have hx : x = serverSegmentedResponse cfg now k b a := by
    show serverIndication cfg now k b a = _
    unfold serverIndication; rw [hst]
  have hai : ∀ w, ackedIndex { b with window := w } a.seq = ackedIndex b a.seq := fun _ => rfl
  refine ⟨?_, ?_, ?_⟩
  · intro hw
    rw [hx]; unfold serverSegmentedResponse
    simp only [h4, if_true, hw, Bool.not_false]
    exact ⟨_, rfl, hst, rfl, rfl⟩
  · intro hw hfin
    rw [hx]; unfold serverSegmentedResponse
    simp only [h4, if_true, hw, Bool.not_true, Bool.false_eq_true, if_false, hai, hfin]
  · intro hw hnf
    have hnf' : ¬ ackedIndex b a.seq + 1 ≥ b.segCount := by omega
    have hlt : b.initSeq < ackedIndex b a.seq + 1 := by unfold ackedIndex; omega
    rw [hx]; unfold serverSegmentedResponse
    simp only [h4, if_true, hw, Bool.not_true, Bool.false_eq_true, if_false, hai, hnf']
    split
    · exact ⟨_, rfl, hst, rfl, hlt, rfl, rfl⟩
    · exact ⟨_, rfl, hst, rfl, hlt, rfl, rfl⟩

end BacVerif.Tsm
