/-
  Lemmas.TsmC05Win — C05, the window clause at handler level, JOINTLY with the
  state the handler leaves behind:

  every segment frame a handler emits is segment `idx` of the context of the
  body the handler RETURNS, with `initialSequenceNumber ≤ idx` and either
  `idx = 0 = initialSequenceNumber` (nothing acknowledged yet: the first
  segment alone) or `idx < initialSequenceNumber + actualWindowSize`; and a
  handler that emits a segment frame hands nothing up to the application in
  the same call.
-/
import BacVerif.Lemmas.TsmC05Seg
import BacVerif.Lemmas.TsmSide
namespace BacVerif.Tsm
set_option linter.unusedSimpArgs false
set_option linter.unusedVariables false

variable {cfg : Cfg}

/-- a segment of a ConfirmedRequest or ComplexAck -/
def DataSeg (f : Apdu) : Prop := f.seg = true ∧ (f.ty = 0 ∨ f.ty = 3)

/-- frame `f` is segment `idx` of the context of body `b` and lies in `b`'s window -/
def InWin (b : Body) (f : Apdu) : Prop :=
  ∃ c idx, b.ctx = some c ∧ idx < b.segCount ∧ f.seq = idx % 256 ∧
    f.mor = decide (idx + 1 < b.segCount) ∧ f.data = sliceOf c.data b.segSize idx ∧
    b.initSeq ≤ idx ∧ ((idx = 0 ∧ b.initSeq = 0) ∨ ∃ w, b.window = some w ∧ idx < b.initSeq + w)

/-- what a handler for key `k` returning `r` guarantees for one output -/
def WinOut (k : Key) (r : Option Body) (o : Out) : Prop :=
  ∀ q f, o = .send q f → DataSeg f → q = k.peer ∧ f.invokeId = k.id ∧ ∃ b', r = some b' ∧ InWin b' f

/-- no output is a segment frame -/
def NoData (outs : List Out) : Prop := ∀ q f, Out.send q f ∈ outs → ¬ DataSeg f

/-- all outputs are fine, and a call that emits a segment hands nothing up to the application -/
def WinRes (k : Key) (x : Res) : Prop :=
  (∀ o ∈ x.2, WinOut k x.1 o) ∧ (NoInd x.2 ∨ NoData x.2)

theorem winOut_of_not_data {k : Key} {r : Option Body} {q : Peer} {f : Apdu} (h : ¬ DataSeg f) :
    WinOut k r (.send q f) := by
  intro q' f' e hd; cases e; exact absurd hd h

theorem winOut_nonsend {k : Key} {r : Option Body} {o : Out} (h : ∀ q f, o ≠ .send q f) : WinOut k r o := by
  intro q f e; exact absurd e (h q f)

theorem not_data_ack (nak srv : Bool) (id seq win : Nat) : ¬ DataSeg (mkSegAck nak srv id seq win) := by
  rintro ⟨_, h | h⟩ <;> simp [mkSegAck] at h

theorem not_data_abort (srv : Bool) (id r : Nat) : ¬ DataSeg (mkAbort srv id r) := by
  rintro ⟨_, h | h⟩ <;> simp [mkAbort] at h

theorem not_data_ty {f : Apdu} (h0 : f.ty ≠ 0) (h3 : f.ty ≠ 3) : ¬ DataSeg f := by
  rintro ⟨_, h | h⟩ <;> omega

theorem not_data_unseg {f : Apdu} (h : f.seg = false) : ¬ DataSeg f := by
  rintro ⟨h', _⟩; rw [h] at h'; cases h'

/-- the first segment, sent alone while nothing is acknowledged -/
theorem inWin_first {k : Key} {B Bp : Body} {c f : Apdu} {w0 : Nat}
    (hseg : getSegment cfg k B 0 w0 = .ok f) (hctx : B.ctx = some c) (hid : c.invokeId = k.id)
    (hd : DataSeg f) (h1 : Bp.ctx = B.ctx) (h2 : Bp.segSize = B.segSize) (h3 : Bp.segCount = B.segCount)
    (h0 : Bp.initSeq = 0) : f.invokeId = k.id ∧ InWin Bp f := by
  obtain ⟨g1, g2, g3, g4, g5, _⟩ := getSegment_genuine hctx hid hseg
  have hn1 : B.segCount ≠ 1 := by
    intro h; have := (g4 h).1; rw [hd.1] at this; cases this
  obtain ⟨_, hs, _, _⟩ := g5 hn1
  refine ⟨g2, c, 0, h1.trans hctx, by rw [h3]; exact g3, hs.seq, ?_, ?_, by omega, Or.inl ⟨rfl, h0⟩⟩
  · rw [h3]; exact hs.mor
  · rw [h2]; exact hs.data

/-- a frame of `fill_window(start)` lies in the window that starts at `start` -/
theorem inWin_fill {k : Key} {B Bp : Body} {c f : Apdu} {start : Nat}
    (hmem : f ∈ (fillWindow cfg k B start).sent) (hctx : B.ctx = some c) (hid : c.invokeId = k.id)
    (hd : DataSeg f) (h1 : Bp.ctx = B.ctx) (h2 : Bp.segSize = B.segSize) (h3 : Bp.segCount = B.segCount)
    (h0 : Bp.initSeq = start) (h4 : Bp.window = B.window) : f.invokeId = k.id ∧ InWin Bp f := by
  cases hw : B.window with
  | none => rw [fillWindow_none hw] at hmem; cases hmem
  | some w =>
    obtain ⟨j, hj1, hj2, hj⟩ := fillWindow_index hw f hmem
    obtain ⟨g1, g2, g3, g4, g5, _⟩ := getSegment_genuine hctx hid hj
    have hn1 : B.segCount ≠ 1 := by
      intro h; have := (g4 h).1; rw [hd.1] at this; cases this
    obtain ⟨_, hs, _, _⟩ := g5 hn1
    refine ⟨g2, c, j, h1.trans hctx, by rw [h3]; exact g3, hs.seq, ?_, ?_, by omega,
      Or.inr ⟨w, h4.trans hw, by omega⟩⟩
    · rw [h3]; exact hs.mor
    · rw [h2]; exact hs.data

/-- `sends p l` are all sends to `p` -/
theorem mem_sends {p : Peer} {l : List Apdu} {o : Out} (h : o ∈ sends p l) : ∃ f, f ∈ l ∧ o = .send p f := by
  simp only [sends, List.mem_map] at h
  obtain ⟨f, hf, rfl⟩ := h
  exact ⟨f, hf, rfl⟩

theorem all1 {P : Out → Prop} {o : Out} (h : P o) : ∀ o' ∈ [o], P o' := by
  intro o' h'; simp only [List.mem_singleton] at h'; subst h'; exact h
theorem all0 {P : Out → Prop} : ∀ o' ∈ ([] : List Out), P o' := by intro o' h'; cases h'
theorem all2 {P : Out → Prop} {o1 o2 : Out} (h1 : P o1) (h2 : P o2) : ∀ o' ∈ [o1, o2], P o' := by
  intro o' h'
  simp only [List.mem_cons, List.mem_singleton, List.not_mem_nil, or_false] at h'
  rcases h' with h' | h' <;> (subst h'; assumption)
theorem allApp {P : Out → Prop} {l1 l2 : List Out} (h1 : ∀ o ∈ l1, P o) (h2 : ∀ o ∈ l2, P o) :
    ∀ o ∈ l1 ++ l2, P o := by
  intro o h; simp only [List.mem_append] at h; rcases h with h | h
  · exact h1 o h
  · exact h2 o h

theorem winOut_raised {k : Key} {r : Option Body} (x : Raise) : WinOut k r (.raised x) :=
  winOut_nonsend (by intro q f e; cases e)
theorem winOut_confirm {k : Key} {r : Option Body} (q : Peer) (a : Apdu) : WinOut k r (.confirm q a) :=
  winOut_nonsend (by intro q f e; cases e)
theorem winOut_indicate {k : Key} {r : Option Body} (q : Peer) (a : Apdu) : WinOut k r (.indicate q a) :=
  winOut_nonsend (by intro q f e; cases e)
theorem winOut_raisedOf {k : Key} {r : Option Body} (x : Option Raise) : ∀ o ∈ raisedOf x, WinOut k r o := by
  cases x with
  | none => exact all0
  | some y => exact all1 (winOut_raised y)

/-- the outputs of a `fill_window` whose body (up to bookkeeping) is what the handler returns -/
theorem winOut_fill {k : Key} {B Bp : Body} {c : Apdu} {start : Nat} (hctx : B.ctx = some c)
    (hid : c.invokeId = k.id) (h1 : Bp.ctx = B.ctx) (h2 : Bp.segSize = B.segSize)
    (h3 : Bp.segCount = B.segCount) (h0 : Bp.initSeq = start) (h4 : Bp.window = B.window) :
    ∀ o ∈ sends k.peer (fillWindow cfg k B start).sent, WinOut k (some Bp) o := by
  intro o ho
  obtain ⟨f, hf, rfl⟩ := mem_sends ho
  intro q f' e hd
  cases e
  obtain ⟨g1, g2⟩ := inWin_fill hf hctx hid hd h1 h2 h3 h0 h4
  exact ⟨rfl, g1, Bp, rfl, g2⟩

theorem winOut_first {k : Key} {B Bp : Body} {c f : Apdu} {w0 : Nat}
    (hseg : getSegment cfg k B 0 w0 = .ok f) (hctx : B.ctx = some c) (hid : c.invokeId = k.id)
    (h1 : Bp.ctx = B.ctx) (h2 : Bp.segSize = B.segSize) (h3 : Bp.segCount = B.segCount)
    (h0 : Bp.initSeq = 0) : WinOut k (some Bp) (.send k.peer f) := by
  intro q f' e hd
  cases e
  obtain ⟨g1, g2⟩ := inWin_first hseg hctx hid hd h1 h2 h3 h0
  exact ⟨rfl, g1, Bp, rfl, g2⟩

/-! ### client handlers -/

theorem clientIndication_win {now : Nat} {di : Option DeviceInfo} {k : Key} {b : Body} {req : Apdu}
    (hid : req.invokeId = k.id) : WinRes k (clientIndication cfg now di k b req) := by
  refine ⟨?_, Or.inl (clientIndication_noInd now di k b req)⟩
  unfold clientIndication
  simp only [clientAbortApp]
  split
  · exact all1 (winOut_confirm _ _)
  · rename_i size count hcut
    split
    · exact all1 (winOut_confirm _ _)
    · split
      · exact all1 (winOut_confirm _ _)
      · split
        · exact all1 (winOut_confirm _ _)
        · by_cases hc1 : count = 1
          · simp only [hc1, if_true]
            split
            · rename_i seg hseg
              refine all1 (winOut_of_not_data (not_data_unseg ?_))
              obtain ⟨_, _, _, g4, _⟩ := getSegment_genuine (c := req) rfl hid hseg
              exact (g4 rfl).1
            · exact all1 (winOut_raised _)
          · simp only [hc1, if_false]
            split
            · rename_i seg hseg
              exact all1 (winOut_first hseg rfl hid rfl rfl rfl rfl)
            · exact all1 (winOut_raised _)

/-- closes the goals `∀ o ∈ outs, WinOut k r o` whose outputs are control frames, callbacks and fills -/
macro "win_close" hc:ident hcid:ident : tactic =>
  `(tactic| first
    | exact all0
    | exact all1 (winOut_raised _)
    | exact all1 (winOut_confirm _ _)
    | exact all1 (winOut_indicate _ _)
    | exact all1 (winOut_of_not_data (not_data_ack _ _ _ _ _))
    | exact all1 (winOut_of_not_data (not_data_abort _ _ _))
    | exact all2 (winOut_of_not_data (not_data_abort _ _ _)) (winOut_confirm _ _)
    | exact all2 (winOut_of_not_data (not_data_ack _ _ _ _ _)) (winOut_confirm _ _)
    | exact all2 (winOut_indicate _ _) (winOut_of_not_data (not_data_abort _ _ _))
    | exact all2 (winOut_of_not_data (not_data_ack _ _ _ _ _)) (winOut_indicate _ _)
    | exact allApp (winOut_fill $hc $hcid rfl rfl rfl rfl rfl) (all1 (winOut_raised _))
    | exact allApp (winOut_fill $hc $hcid rfl rfl rfl rfl rfl) (winOut_raisedOf _)
    | exact winOut_fill $hc $hcid rfl rfl rfl rfl rfl)

theorem clientConfirmation_win {now : Nat} {k : Key} {b : Body} {a c : Apdu}
    (hc : b.ctx = some c) (hcid : c.invokeId = k.id) : WinRes k (clientConfirmation cfg now k b a) := by
  refine ⟨?_, Or.inl (clientConfirmation_noInd now k b a)⟩
  unfold clientConfirmation
  split
  · unfold clientSegmentedRequest
    simp only [clientAbortBoth]
    gsplit
    all_goals win_close hc hcid
  · unfold clientAwaitConfirmation
    simp only [clientAbortBoth, clientAbortApp]
    gsplit
    all_goals win_close hc hcid
  · unfold clientSegmentedConfirmation
    simp only [clientAbortBoth]
    gsplit
    all_goals win_close hc hcid
  · exact all1 (winOut_raised _)

theorem inWin_congr {b1 b2 : Body} {f : Apdu} (h1 : b2.ctx = b1.ctx) (h2 : b2.segSize = b1.segSize)
    (h3 : b2.segCount = b1.segCount) (h4 : b2.initSeq = b1.initSeq) (h5 : b2.window = b1.window)
    (h : InWin b1 f) : InWin b2 f := by
  obtain ⟨c, idx, e1, e2, e3, e4, e5, e6, e7⟩ := h
  refine ⟨c, idx, h1.trans e1, by rw [h3]; exact e2, e3, by rw [h3]; exact e4, by rw [h2]; exact e5,
    by rw [h4]; exact e6, ?_⟩
  rcases e7 with ⟨e, e'⟩ | ⟨w, e, e'⟩
  · exact Or.inl ⟨e, h4.trans e'⟩
  · exact Or.inr ⟨w, h5.trans e, by rw [h4]; exact e'⟩

theorem winOut_congr {k : Key} {b1 b2 : Body} {o : Out} (h1 : b2.ctx = b1.ctx)
    (h2 : b2.segSize = b1.segSize) (h3 : b2.segCount = b1.segCount) (h4 : b2.initSeq = b1.initSeq)
    (h5 : b2.window = b1.window) (h : WinOut k (some b1) o) : WinOut k (some b2) o := by
  intro q f e hd
  obtain ⟨g1, g2, b', hb', g3⟩ := h q f e hd
  cases hb'
  exact ⟨g1, g2, b2, rfl, inWin_congr h1 h2 h3 h4 h5 g3⟩

theorem clientTimeout_win {now : Nat} {di : Option DeviceInfo} {k : Key} {b : Body} {c : Apdu}
    (hc : b.ctx = some c) (hcid : c.invokeId = k.id) :
    WinRes k (clientTimeout cfg now di k { b with timer := none }) := by
  refine ⟨?_, Or.inl (clientTimeout_noInd now di k _)⟩
  unfold clientTimeout
  simp only [clientAbortApp]
  split
  · split
    · split
      · rename_i h0
        split
        · rename_i seg hseg
          exact all1 (winOut_first hseg hc hcid rfl rfl rfl h0)
        · exact all1 (winOut_raised _)
      · win_close hc hcid
    · exact all1 (winOut_confirm _ _)
  · split
    · have hc' : ({ b with timer := none } : Body).ctx = some c := hc
      rw [hc']
      dsimp only
      have hr := clientIndication_win (cfg := cfg) (now := now) (di := di) (k := k)
        (b := { b with timer := none, ctx := some c, retry := b.retry + 1 }) (req := c) hcid
      generalize clientIndication cfg now di k _ c = x at hr ⊢
      obtain ⟨r, outs⟩ := x
      cases r with
      | none => exact hr.1
      | some b' =>
        dsimp only
        split
        · exact hr.1
        · intro o ho
          have h1 : WinOut k (some b') o := hr.1 o ho
          exact winOut_congr (b1 := b') rfl rfl rfl rfl rfl h1
    · exact all1 (winOut_confirm _ _)
  · exact all1 (winOut_confirm _ _)
  · exact all1 (winOut_raised _)

/-! ### server handlers -/

theorem fillLoop_noctx {k : Key} {b : Body} {w : Nat} (h : b.ctx = none) :
    ∀ n idx, (fillLoop cfg k b w n idx).sent = [] := by
  intro n idx
  cases n with
  | zero => rfl
  | succ n =>
    simp only [fillLoop]
    have : getSegment cfg k b idx w = .error .noContext := by unfold getSegment; rw [h]
    rw [this]

theorem fillWindow_noctx {k : Key} {b : Body} {start : Nat} (h : b.ctx = none) :
    (fillWindow cfg k b start).sent = [] := by
  unfold fillWindow
  split
  · rfl
  · exact fillLoop_noctx h _ _

theorem getSegment_noctx {k : Key} {b : Body} {i w : Nat} {f : Apdu} (h : b.ctx = none)
    (hs : getSegment cfg k b i w = .ok f) : False := by
  unfold getSegment at hs; rw [h] at hs; cases hs

theorem winOut_fill_noctx {k : Key} {B : Body} {r : Option Body} {start : Nat} (h : B.ctx = none) :
    ∀ o ∈ sends k.peer (fillWindow cfg k B start).sent, WinOut k r o := by
  rw [fillWindow_noctx h]; exact all0

theorem noData1 {o : Out} (h : ∀ q f, o = .send q f → ¬ DataSeg f) : NoData [o] := by
  intro q f hm; simp only [List.mem_singleton] at hm; exact h q f hm.symm
theorem noData2 {o1 o2 : Out} (h1 : ∀ q f, o1 = .send q f → ¬ DataSeg f)
    (h2 : ∀ q f, o2 = .send q f → ¬ DataSeg f) : NoData [o1, o2] := by
  intro q f hm
  simp only [List.mem_cons, List.mem_singleton, List.not_mem_nil, or_false] at hm
  rcases hm with hm | hm
  · exact h1 q f hm.symm
  · exact h2 q f hm.symm
theorem nd_ack (p : Peer) (nak srv : Bool) (id seq win : Nat) :
    ∀ q f, Out.send p (mkSegAck nak srv id seq win) = .send q f → ¬ DataSeg f := by
  intro q f e; cases e; exact not_data_ack _ _ _ _ _
theorem nd_abort (p : Peer) (srv : Bool) (id r : Nat) :
    ∀ q f, Out.send p (mkAbort srv id r) = .send q f → ¬ DataSeg f := by
  intro q f e; cases e; exact not_data_abort _ _ _
theorem nd_ind (p : Peer) (a : Apdu) : ∀ q f, Out.indicate p a = .send q f → ¬ DataSeg f := by
  intro q f e; cases e

/-- second half of `WinRes`: either nothing goes up, or nothing is a segment -/
macro "updown_close" : tactic =>
  `(tactic| first
    | (left; simp [NoInd, Out.isInd]; done)
    | (left; simp; done)
    | (right; exact noData2 (nd_ack _ _ _ _ _ _) (nd_ind _ _))
    | (right; exact noData2 (nd_ind _ _) (nd_abort _ _ _ _))
    | (right; exact noData1 (nd_ind _ _))
    | (right; exact noData1 (nd_ack _ _ _ _ _ _))
    | (right; exact noData1 (nd_abort _ _ _ _)))

theorem serverIndication_win {now : Nat} {k : Key} {b : Body} {a : Apdu} (hctx : CtxOk k b) :
    WinRes k (serverIndication cfg now k b a) := by
  cases hc : b.ctx with
  | none =>
    constructor
    · unfold serverIndication
      split
      · unfold serverSegmentedRequest
        simp only [serverAbortBoth, hc]
        gsplit
        all_goals first
          | exact all1 (winOut_of_not_data (not_data_ty (by omega) (by omega)))
          | exact all0
          | exact all1 (winOut_raised _)
          | exact all1 (winOut_of_not_data (not_data_ack _ _ _ _ _))
          | exact all2 (winOut_indicate _ _) (winOut_of_not_data (not_data_abort _ _ _))
          | exact all2 (winOut_of_not_data (not_data_ack _ _ _ _ _)) (winOut_indicate _ _)
      · unfold serverAwaitResponse
        gsplit
        all_goals first
          | exact all0
          | exact all1 (winOut_raised _)
          | exact all1 (winOut_indicate _ _)
      · unfold serverSegmentedResponse
        gsplit
        all_goals first
          | exact all1 (winOut_of_not_data (not_data_ty (by omega) (by omega)))
          | exact all0
          | exact all1 (winOut_raised _)
          | exact allApp (winOut_fill_noctx hc) (all1 (winOut_raised _))
          | exact winOut_fill_noctx hc
      · exact all0
    · unfold serverIndication
      split
      · unfold serverSegmentedRequest
        simp only [serverAbortBoth, hc]
        gsplit
        all_goals updown_close
      · unfold serverAwaitResponse
        gsplit
        all_goals updown_close
      · unfold serverSegmentedResponse
        gsplit
        all_goals updown_close
      · left; simp
  | some c =>
    have hcid := hctx c hc
    constructor
    · unfold serverIndication
      split
      · unfold serverSegmentedRequest
        simp only [serverAbortBoth]
        gsplit
        all_goals first
          | exact all1 (winOut_of_not_data (not_data_ty (by omega) (by omega)))
          | win_close hc hcid
      · unfold serverAwaitResponse
        gsplit
        all_goals win_close hc hcid
      · unfold serverSegmentedResponse
        gsplit
        all_goals first
          | exact all1 (winOut_of_not_data (not_data_ty (by omega) (by omega)))
          | win_close hc hcid
      · exact all0
    · unfold serverIndication
      split
      · unfold serverSegmentedRequest
        simp only [serverAbortBoth]
        gsplit
        all_goals updown_close
      · unfold serverAwaitResponse
        gsplit
        all_goals updown_close
      · unfold serverSegmentedResponse
        gsplit
        all_goals updown_close
      · left; simp

theorem serverIdle_win {now : Nat} {di : Option DeviceInfo} {k : Key} {b : Body} {a : Apdu} :
    WinRes k (serverIdle cfg now di k b a) := by
  constructor
  · unfold serverIdle
    simp only [serverAbortNet]
    gsplit
    all_goals first
      | exact all1 (winOut_indicate _ _)
      | exact all1 (winOut_of_not_data (not_data_ack _ _ _ _ _))
      | exact all1 (winOut_of_not_data (not_data_abort _ _ _))
  · unfold serverIdle
    simp only [serverAbortNet]
    gsplit
    all_goals updown_close

theorem serverConfirmation_win {now : Nat} {npdu : Option Nat} {k : Key} {b : Body} {a : Apdu}
    (hid : a.invokeId = k.id) (hresp : a.ty = 3 → a.seg = false) :
    WinRes k (serverConfirmation cfg now npdu k b a) := by
  constructor
  · unfold serverConfirmation
    simp only [serverAbortNet]
    split
    · exact all1 (winOut_of_not_data (not_data_ty (by omega) (by omega)))
    · split
      · rename_i h256
        have : a.ty = 2 ∨ a.ty = 5 ∨ a.ty = 6 := by simp at h256; omega
        exact all1 (winOut_of_not_data (not_data_ty (by omega) (by omega)))
      · split
        · rename_i h3
          gsplit
          all_goals first
            | exact all1 (winOut_of_not_data (not_data_abort _ _ _))
            | exact all1 (winOut_of_not_data (not_data_unseg (hresp h3)))
            | exact all1 (winOut_raised _)
            | (rename_i seg hseg; exact all1 (winOut_first hseg rfl hid rfl rfl rfl rfl))
        · exact all1 (winOut_raised _)
  · left
    unfold serverConfirmation
    simp only [serverAbortNet]
    gsplit
    all_goals simp [NoInd, Out.isInd]

theorem serverTimeout_win {now : Nat} {k : Key} {b : Body} (hctx : CtxOk k b) :
    WinRes k (serverTimeout cfg now k { b with timer := none }) := by
  constructor
  · by_cases hn : b.ctx = none
    · unfold serverTimeout
      gsplit
      all_goals first
        | exact all0
        | exact all1 (winOut_indicate _ _)
        | exact all1 (winOut_raised _)
        | (rename_i seg hseg; exact absurd (getSegment_noctx (cfg := cfg) hn hseg) id)
        | exact allApp (winOut_fill_noctx hn) (winOut_raisedOf _)
    · obtain ⟨c, hc⟩ := Option.ne_none_iff_exists'.1 hn
      have hcid := hctx c hc
      unfold serverTimeout
      split
      · exact all0
      · exact all1 (winOut_indicate _ _)
      · split
        · dsimp only
          split
          · rename_i h0
            split
            · rename_i seg hseg
              exact all1 (winOut_first hseg hc hcid rfl rfl rfl h0)
            · exact all1 (winOut_raised _)
          · win_close hc hcid
        · exact all0
      · exact all1 (winOut_raised _)
  · unfold serverTimeout
    gsplit
    all_goals updown_close

end BacVerif.Tsm
