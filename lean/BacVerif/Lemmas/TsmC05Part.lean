/-
  Lemmas.TsmC05Part — C05, list arithmetic of segmentation:
  the slices `get_segment` cuts out of a payload partition it.

  `sliceOf P size i` is definitionally the slice the model's `segSlice`
  (appservice.py: `pduData[offset:offset+segmentSize]`) takes.
-/
import BacVerif.Model.Tsm
namespace BacVerif.Tsm
set_option linter.unusedSimpArgs false
set_option linter.unusedVariables false

/-- octets `[i*size, (i+1)*size)` of `P` -/
def sliceOf (P : Bytes) (size i : Nat) : Bytes := (P.drop (i * size)).take size

theorem segSlice_eq (b : Body) (c : Apdu) (i : Nat) : segSlice b c i = sliceOf c.data b.segSize i := rfl

/-- the first `n` slices, concatenated -/
def slicesUpTo (P : Bytes) (size n : Nat) : Bytes := ((List.range n).map (sliceOf P size)).flatten

/-- number of slices `set_segment_size` computes for the segmented case -/
def ceilDiv (len size : Nat) : Nat := len / size + (if len % size = 0 then 0 else 1)

theorem slicesUpTo_succ (P : Bytes) (size n : Nat) :
    slicesUpTo P size (n + 1) = slicesUpTo P size n ++ sliceOf P size n := by
  simp [slicesUpTo, List.range_succ, List.map_append, List.flatten_append]

/-- concatenating the first `n` slices gives the first `n * size` octets -/
theorem slicesUpTo_eq_take (P : Bytes) (size : Nat) : ∀ n, slicesUpTo P size n = P.take (n * size) := by
  intro n
  induction n with
  | zero => simp [slicesUpTo]
  | succ n ih =>
    rw [slicesUpTo_succ, ih, sliceOf, Nat.succ_mul, List.take_add]

theorem sliceOf_length (P : Bytes) (size i : Nat) :
    (sliceOf P size i).length = min size (P.length - i * size) := by
  simp [sliceOf, List.length_take, List.length_drop]

theorem ceilDiv_mul_ge {len size : Nat} (h : 0 < size) : len ≤ ceilDiv len size * size := by
  unfold ceilDiv
  have hdm := Nat.div_add_mod len size
  have hml := Nat.mod_lt len h
  split
  · rename_i h0
    rw [Nat.add_zero, Nat.mul_comm]; omega
  · rw [Nat.add_mul, Nat.one_mul, Nat.mul_comm]; omega

theorem ceilDiv_pred_mul_lt {len size : Nat} (h : 0 < size) (hl : 0 < len) :
    (ceilDiv len size - 1) * size < len := by
  unfold ceilDiv
  have hdm := Nat.div_add_mod len size
  have hml := Nat.mod_lt len h
  split
  · rename_i h0
    have hq : 0 < len / size := by
      rcases Nat.eq_zero_or_pos (len / size) with hz | hp
      · rw [hz] at hdm; omega
      · exact hp
    rw [Nat.add_zero, Nat.sub_mul, Nat.one_mul, Nat.mul_comm]
    have : size ≤ size * (len / size) := Nat.le_mul_of_pos_right _ hq
    omega
  · rw [Nat.add_sub_cancel, Nat.mul_comm]; omega

theorem ceilDiv_eq {len size : Nat} (h : 0 < size) : ceilDiv len size = (len + size - 1) / size := by
  unfold ceilDiv
  have hdm := Nat.div_add_mod len size
  have hml := Nat.mod_lt len h
  symm
  split
  · apply Nat.div_eq_of_lt_le
    · rw [Nat.add_zero, Nat.mul_comm]; omega
    · rw [Nat.add_zero, Nat.add_mul, Nat.one_mul, Nat.mul_comm]; omega
  · apply Nat.div_eq_of_lt_le
    · rw [Nat.add_mul, Nat.one_mul, Nat.mul_comm]; omega
    · rw [Nat.add_mul, Nat.add_mul, Nat.one_mul, Nat.mul_comm]; omega

/-- **segment_partition (pure form).**  For every payload and every segment
    size ≥ 1, with `count = max 1 ⌈len/size⌉`: the slices 0..count−1
    concatenated are the payload; every slice has at most `size` octets, all
    but the last exactly `size`; and no slice is empty unless the payload is. -/
theorem slices_partition (P : Bytes) {size : Nat} (h : 0 < size) :
    let count := max 1 (ceilDiv P.length size)
    slicesUpTo P size count = P ∧
    (∀ i, i < count → (sliceOf P size i).length ≤ size) ∧
    (∀ i, i + 1 < count → (sliceOf P size i).length = size) ∧
    (P ≠ [] → ∀ i, i < count → sliceOf P size i ≠ []) ∧
    (∀ i, count ≤ i → sliceOf P size i = []) := by
  intro count
  have hge : P.length ≤ count * size := by
    have := ceilDiv_mul_ge (len := P.length) h
    have hm : ceilDiv P.length size ≤ count := Nat.le_max_right _ _
    exact Nat.le_trans this (Nat.mul_le_mul_right _ hm)
  refine ⟨?_, ?_, ?_, ?_, ?_⟩
  · rw [slicesUpTo_eq_take]; exact List.take_of_length_le hge
  · intro i _; rw [sliceOf_length]; exact Nat.min_le_left _ _
  · intro i hi
    rw [sliceOf_length]
    have hP : 0 < P.length := by
      rcases Nat.eq_zero_or_pos P.length with hz | hp
      · have : ceilDiv P.length size = 0 := by simp [ceilDiv, hz]
        have : count = 1 := by simp [count, this]
        omega
      · exact hp
    have hc : count = ceilDiv P.length size := by
      have := ceilDiv_pred_mul_lt h hP
      have h1 : 1 ≤ ceilDiv P.length size := by
        rcases Nat.eq_zero_or_pos (ceilDiv P.length size) with hz | hp
        · have := ceilDiv_mul_ge (len := P.length) h; rw [hz] at this; omega
        · exact hp
      exact Nat.max_eq_right h1
    have hlt := ceilDiv_pred_mul_lt h hP
    rw [← hc] at hlt
    have : (i + 1) * size ≤ (count - 1) * size := Nat.mul_le_mul_right _ (by omega)
    rw [Nat.succ_mul] at this
    omega
  · intro hne i hi hnil
    have hP : 0 < P.length := List.length_pos_iff.2 hne
    have hlen : (sliceOf P size i).length = 0 := by rw [hnil]; rfl
    rw [sliceOf_length] at hlen
    have h1 : 1 ≤ ceilDiv P.length size := by
      rcases Nat.eq_zero_or_pos (ceilDiv P.length size) with hz | hp
      · have := ceilDiv_mul_ge (len := P.length) h; rw [hz] at this; omega
      · exact hp
    have hc : count = ceilDiv P.length size := Nat.max_eq_right h1
    have hlt := ceilDiv_pred_mul_lt h hP
    rw [← hc] at hlt
    have : i * size ≤ (count - 1) * size := Nat.mul_le_mul_right _ (by omega)
    omega
  · intro i hi
    have : (sliceOf P size i).length = 0 := by
      rw [sliceOf_length]
      have : count * size ≤ i * size := Nat.mul_le_mul_right _ hi
      omega
    exact List.eq_nil_of_length_eq_zero this

/-- **segment_partition.**  Whatever `set_segment_size` decides for a payload
    (`uh`/`sh` = unsegmented / segmented header of the PDU kind, maximum APDU
    `M`): the `count` slices of `size` octets that `get_segment` cuts are a
    partition of the payload, `count = max 1 ⌈len/size⌉`, and no slice is
    empty unless the payload is. -/
theorem segment_partition (P : Bytes) {M uh sh size count : Nat} (hle : uh ≤ sh)
    (h : setSegmentSize P.length M uh sh = some (size, count)) :
    slicesUpTo P size count = P ∧
    count = max 1 ((P.length + size - 1) / size) ∧
    (∀ i, i < count → (sliceOf P size i).length ≤ size) ∧
    (P ≠ [] → ∀ i, i < count → sliceOf P size i ≠ []) ∧
    (count = 1 ↔ P.length + uh ≤ M) := by
  unfold setSegmentSize at h
  split at h
  · -- fits unsegmented: one slice holding everything
    rename_i hfit
    simp only [Option.some.injEq, Prod.mk.injEq] at h
    obtain ⟨hs, hc⟩ := h
    subst hc
    have hlen : P.length ≤ size := by omega
    refine ⟨?_, ?_, ?_, ?_, by simp [hfit]⟩
    · rw [slicesUpTo_eq_take]; exact List.take_of_length_le (by omega)
    · rcases Nat.eq_zero_or_pos size with hz | hp
      · simp [hz]
      · have : (P.length + size - 1) / size ≤ 1 := by
          apply Nat.le_of_lt_succ
          exact (Nat.div_lt_iff_lt_mul hp).2 (by omega)
        omega
    · intro i _; rw [sliceOf_length]; exact Nat.min_le_left _ _
    · intro hne i hi hnil
      have hP : 0 < P.length := List.length_pos_iff.2 hne
      have hl : (sliceOf P size i).length = 0 := by rw [hnil]; rfl
      rw [sliceOf_length] at hl
      have : i = 0 := by omega
      subst this
      omega
  · rename_i hnofit
    split at h
    · cases h
    · rename_i hroom
      simp only [Option.some.injEq, Prod.mk.injEq] at h
      obtain ⟨hs, hc⟩ := h
      have hpos : 0 < size := by omega
      have hcd : count = ceilDiv P.length size := by rw [← hc, ← hs]; rfl
      have hPpos : 0 < P.length := by omega
      have h1 : 1 ≤ ceilDiv P.length size := by
        rcases Nat.eq_zero_or_pos (ceilDiv P.length size) with hz | hp
        · have := ceilDiv_mul_ge (len := P.length) hpos; rw [hz] at this; omega
        · exact hp
      have hmax : max 1 (ceilDiv P.length size) = count := by rw [hcd]; exact Nat.max_eq_right h1
      have hp := slices_partition P hpos
      simp only [hmax] at hp
      obtain ⟨p1, p2, _, p4, _⟩ := hp
      refine ⟨p1, ?_, p2, p4, ?_⟩
      · rw [← ceilDiv_eq hpos, hmax]
      · constructor
        · intro hc1
          -- one slice of `size = M - sh` octets would hold the payload: contradiction with "does not fit"
          have := ceilDiv_mul_ge (len := P.length) hpos
          rw [← hcd, hc1] at this
          omega
        · intro hfit; omega

end BacVerif.Tsm
