/-
  Lemmas.C01Distinct — a kernel-friendly `Nodup` checker.

  `List.Nodup` decided naively costs n²/2 comparisons; the kernel needs ~1 min
  for the 477 names of PropertyIdentifier that way.  Here: a fuel-bounded merge
  sort (structural recursion only, so the kernel evaluates it directly),
  followed by a linear "strictly increasing" scan.  Soundness
  (`distinctBy_nodup`) needs only that the sort returns a permutation and that
  the order is transitive and irreflexive; if the fuel ran out the list would
  merely fail the scan.  Core Lean only.
-/
namespace BacVerif.Distinct

variable {α : Type}

/-- deal the elements alternately into two lists -/
def splitAlt : List α → List α × List α
  | [] => ([], [])
  | [a] => ([a], [])
  | a :: b :: rest => let p := splitAlt rest; (a :: p.1, b :: p.2)

/-- merge with fuel (out of fuel: concatenate — still a permutation) -/
def mergeF (lt : α → α → Bool) : Nat → List α → List α → List α
  | 0, xs, ys => xs ++ ys
  | _ + 1, [], ys => ys
  | _ + 1, x :: xs, [] => x :: xs
  | f + 1, x :: xs, y :: ys =>
      if lt y x then y :: mergeF lt f (x :: xs) ys else x :: mergeF lt f xs (y :: ys)

/-- merge sort with fuel (out of fuel: identity — still a permutation) -/
def msortF (lt : α → α → Bool) : Nat → List α → List α
  | 0, l => l
  | _ + 1, [] => []
  | _ + 1, [a] => [a]
  | f + 1, a :: b :: rest =>
      let p := splitAlt (a :: b :: rest)
      mergeF lt (rest.length + 2) (msortF lt f p.1) (msortF lt f p.2)

/-- linear scan: every element strictly below its successor -/
def strictSorted (lt : α → α → Bool) : List α → Bool
  | a :: b :: rest => lt a b && strictSorted lt (b :: rest)
  | _ => true

/-- the checker -/
def distinctBy (lt : α → α → Bool) (l : List α) : Bool := strictSorted lt (msortF lt 64 l)

theorem splitAlt_perm : ∀ l : List α, ((splitAlt l).1 ++ (splitAlt l).2).Perm l
  | [] => by simp [splitAlt]
  | [a] => by simp [splitAlt]
  | a :: b :: rest => by
      have ih := splitAlt_perm rest
      simp only [splitAlt, List.cons_append]
      refine List.Perm.cons a ?_
      have h1 : ((splitAlt rest).1 ++ b :: (splitAlt rest).2).Perm
          (b :: ((splitAlt rest).1 ++ (splitAlt rest).2)) := List.perm_middle
      exact h1.trans (List.Perm.cons b ih)

theorem mergeF_perm (lt : α → α → Bool) : ∀ (f : Nat) (xs ys : List α),
    (mergeF lt f xs ys).Perm (xs ++ ys) := by
  intro f
  induction f with
  | zero => intro xs ys; simp [mergeF]
  | succ f ih =>
    intro xs ys
    cases xs with
    | nil => simp [mergeF]
    | cons x xs =>
      cases ys with
      | nil => simp [mergeF]
      | cons y ys =>
        simp only [mergeF]
        split
        · have h := ih (x :: xs) ys
          have h2 : (y :: (x :: xs ++ ys)).Perm (x :: xs ++ y :: ys) := List.perm_middle.symm
          exact (List.Perm.cons y h).trans h2
        · exact List.Perm.cons x (ih xs (y :: ys))

theorem msortF_perm (lt : α → α → Bool) : ∀ (f : Nat) (l : List α), (msortF lt f l).Perm l := by
  intro f
  induction f with
  | zero => intro l; simp [msortF]
  | succ f ih =>
    intro l
    match l with
    | [] => simp [msortF]
    | [a] => simp [msortF]
    | a :: b :: rest =>
      simp only [msortF]
      refine (mergeF_perm lt _ _ _).trans ?_
      exact (List.Perm.append (ih _) (ih _)).trans (splitAlt_perm (a :: b :: rest))

theorem strictSorted_pairwise (lt : α → α → Bool)
    (htrans : ∀ a b c, lt a b = true → lt b c = true → lt a c = true) :
    ∀ l : List α, strictSorted lt l = true → l.Pairwise (fun a b => lt a b = true)
  | [] => by intro _; exact List.Pairwise.nil
  | [a] => by intro _; simp
  | a :: b :: rest => by
      intro h
      simp only [strictSorted, Bool.and_eq_true] at h
      have ih := strictSorted_pairwise lt htrans (b :: rest) h.2
      refine List.Pairwise.cons ?_ ih
      intro c hc
      rcases List.mem_cons.mp hc with rfl | hc
      · exact h.1
      · exact htrans a b c h.1 (List.rel_of_pairwise_cons ih hc)

/-- **soundness of the checker** -/
theorem distinctBy_nodup (lt : α → α → Bool)
    (htrans : ∀ a b c, lt a b = true → lt b c = true → lt a c = true)
    (hirr : ∀ a, lt a a = false) (l : List α) (h : distinctBy lt l = true) : l.Nodup := by
  have hp := strictSorted_pairwise lt htrans _ h
  have hn : (msortF lt 64 l).Nodup := by
    refine List.Pairwise.imp ?_ hp
    intro a b hab heq
    subst heq
    rw [hirr a] at hab
    exact Bool.false_ne_true hab
  exact (msortF_perm lt 64 l).nodup_iff.mp hn

/-! ### the two orders used -/

def natLt (a b : Nat) : Bool := decide (a < b)

theorem natLt_trans (a b c : Nat) (h1 : natLt a b = true) (h2 : natLt b c = true) :
    natLt a c = true := by
  simp only [natLt, decide_eq_true_eq] at *; omega

theorem natLt_irrefl (a : Nat) : natLt a a = false := by
  simp [natLt]

/-- lexicographic order on code-point lists -/
def lexLt : List Nat → List Nat → Bool
  | [], [] => false
  | [], _ :: _ => true
  | _ :: _, [] => false
  | a :: as, b :: bs => decide (a < b) || (decide (a = b) && lexLt as bs)

theorem lexLt_irrefl : ∀ a, lexLt a a = false
  | [] => rfl
  | a :: as => by simp [lexLt, lexLt_irrefl as]

theorem lexLt_trans : ∀ a b c, lexLt a b = true → lexLt b c = true → lexLt a c = true
  | [], [], _ => by simp [lexLt]
  | [], _ :: _, [] => by simp [lexLt]
  | [], _ :: _, _ :: _ => by simp [lexLt]
  | _ :: _, [], _ => by simp [lexLt]
  | _ :: _, _ :: _, [] => by simp [lexLt]
  | a :: as, b :: bs, c :: cs => by
      intro h1 h2
      simp only [lexLt, Bool.or_eq_true, Bool.and_eq_true, decide_eq_true_eq] at *
      rcases h1 with h1 | ⟨h1, h1'⟩
      · rcases h2 with h2 | ⟨h2, _⟩
        · left; omega
        · left; omega
      · rcases h2 with h2 | ⟨h2, h2'⟩
        · left; omega
        · right; exact ⟨by omega, lexLt_trans as bs cs h1' h2'⟩

/-- names pairwise different -/
def distinctNames (l : List (List Nat)) : Bool := distinctBy lexLt l
/-- numbers pairwise different -/
def distinctNats (l : List Nat) : Bool := distinctBy natLt l

theorem distinctNames_nodup (l : List (List Nat)) (h : distinctNames l = true) : l.Nodup :=
  distinctBy_nodup lexLt lexLt_trans lexLt_irrefl l h

theorem distinctNats_nodup (l : List Nat) (h : distinctNats l = true) : l.Nodup :=
  distinctBy_nodup natLt natLt_trans natLt_irrefl l h

end BacVerif.Distinct
