/-
  Lemmas.TsmCap — capability arithmetic and per-handler capability facts (C12).

  * `setSegmentSize_spec`: how a message of `len` octets is cut for a maximum
    APDU `M` with unsegmented / segmented header sizes `uh ≤ sh`;
  * `getSegment_wire`: length and flags of every segment `get_segment` builds;
  * `SrvCap` / `CliCap`: what a listed server / client transaction remembers
    about the limits it is working under (established when the message is cut,
    kept by every later step);
  * `SrvSend` / `CliSend`: what every frame a handler emits satisfies.
-/
import BacVerif.Lemmas.TsmSide
namespace BacVerif.Tsm
set_option linter.unusedSimpArgs false
set_option linter.unusedVariables false
variable {cfg : Cfg}

/-! ### arithmetic of the cut -/

theorem setSegmentSize_spec {len M uh sh size count : Nat} (hle : uh ≤ sh)
    (h : setSegmentSize len M uh sh = some (size, count)) :
    (count = 1 ∧ len + uh ≤ M ∧ size = M - uh) ∨
    (2 ≤ count ∧ M < len + uh ∧ 0 < size ∧ size + sh = M ∧
      count = len / size + (if len % size = 0 then 0 else 1)) := by
  unfold setSegmentSize at h
  split at h
  · left
    simp only [Option.some.injEq, Prod.mk.injEq] at h
    omega
  · split at h
    · cases h
    · right
      rename_i h1 h2
      simp only [Option.some.injEq, Prod.mk.injEq] at h
      obtain ⟨hs, hc⟩ := h
      have hpos : 0 < M - sh := by omega
      subst hs
      have hdm := Nat.div_add_mod len (M - sh)
      have hml := Nat.mod_lt len hpos
      have hq1 : 0 < len / (M - sh) := Nat.div_pos (by omega) hpos
      refine ⟨?_, by omega, hpos, by omega, hc.symm⟩
      split at hc
      · rename_i h0
        rcases Nat.lt_or_ge (len / (M - sh)) 2 with hlt | hge
        · have hq : len / (M - sh) = 1 := by omega
          rw [hq, h0] at hdm
          omega
        · omega
      · omega

/-- no cut exists exactly when not even the header of a segment fits -/
theorem setSegmentSize_none {len M uh sh : Nat} (h : setSegmentSize len M uh sh = none) :
    M < len + uh ∧ M ≤ sh := by
  unfold setSegmentSize at h
  split at h
  · cases h
  · split at h
    · omega
    · cases h

theorem decodeMaxApdu_ge {code m : Nat} (h : decodeMaxApdu code = some m) : 50 ≤ m := by
  unfold decodeMaxApdu at h
  split at h <;> first | (cases h; omega) | cases h

theorem decodeMaxSegs_le {code n : Nat} (h : decodeMaxSegs code = some n) : 2 ≤ n ∧ n ≤ 64 := by
  unfold decodeMaxSegs at h
  split at h <;> first | (cases h; omega) | cases h

/-- the value the server works with never exceeds what the request announced -/
theorem announcedMax_le (di : Option DeviceInfo) (m : Nat) : announcedMax di m ≤ m := by
  unfold announcedMax
  split
  · split
    · split <;> omega
    · omega
  · omega

/-- it is the request's value, or a smaller cached one -/
theorem announcedMax_cases (di : Option DeviceInfo) (m : Nat) :
    announcedMax di m = m ∨ ∃ d dm, di = some d ∧ d.maxApdu = some dm ∧ dm < m ∧ announcedMax di m = dm := by
  unfold announcedMax
  split
  · rename_i d
    split
    · rename_i dm hdm
      split
      · rename_i hlt
        exact Or.inr ⟨d, dm, rfl, hdm, hlt, rfl⟩
      · exact Or.inl rfl
    · exact Or.inl rfl
  · exact Or.inl rfl

theorem serverMaxApdu_le (npdu : Option Nat) (m : Nat) : serverMaxApdu npdu m ≤ m := by
  unfold serverMaxApdu
  split
  · omega
  · exact Nat.min_le_right _ _

/-! ### segments -/

theorem segHeader_ty {k : Key} {b : Body} {c hdr : Apdu} (h : segHeader cfg k b c = .ok hdr) :
    hdr.ty = c.ty ∧ (c.ty = 0 ∨ c.ty = 3) ∧ hdr.seg = false := by
  unfold segHeader at h
  split at h
  · rename_i h0
    split at h
    · cases h
    · split at h
      · cases h
      · injection h with h; subst h; exact ⟨h0.symm, Or.inl h0, rfl⟩
  · split at h
    · rename_i h3
      injection h with h; subst h; exact ⟨h3.symm, Or.inr h3, rfl⟩
    · cases h

theorem segSlice_len (b : Body) (c : Apdu) (i : Nat) : (segSlice b c i).length ≤ b.segSize := by
  unfold segSlice
  exact List.length_take_le _ _

/-- every segment `get_segment(i)` builds: its type is the context's, it is
    flagged segmented exactly when the message has more than one segment, it
    carries the sequence number `i % 256` with `i < segmentCount`, the first
    one offers the configured window, and its encoded length is at most
    `segmentSize` + the header of its kind -/
theorem getSegment_wire {k : Key} {b : Body} {i w : Nat} {seg c : Apdu}
    (hctx : b.ctx = some c) (h : getSegment cfg k b i w = .ok seg) :
    seg.ty = c.ty ∧ (c.ty = 0 ∨ c.ty = 3) ∧ i < b.segCount ∧
    seg.seg = decide (b.segCount ≠ 1) ∧ (seg.seg = true → seg.seq = i % 256) ∧
    (seg.seg = true → i = 0 → seg.win = cfg.window) ∧
    (seg.seg = true → i ≠ 0 → seg.win = w) ∧
    seg.wireLen ≤ b.segSize +
      (if c.ty = 0 then (if b.segCount ≠ 1 then 6 else 4) else (if b.segCount ≠ 1 then 5 else 3)) := by
  unfold getSegment at h
  rw [hctx] at h
  dsimp only at h
  split at h
  · cases h
  · rename_i hlt
    split at h
    · cases h
    · rename_i hdr hh
      obtain ⟨hty, hc03, hseg⟩ := segHeader_ty hh
      injection h with h
      subst h
      have hl := segSlice_len b c i
      refine ⟨?_, hc03, by omega, ?_, ?_, ?_, ?_, ?_⟩
      · unfold segFlags; split <;> exact hty
      · unfold segFlags; split <;> simp_all
      · unfold segFlags; split <;> simp_all
      · unfold segFlags; split <;> simp_all
      · unfold segFlags; split <;> simp_all
      · unfold segFlags
        rcases hc03 with h0 | h3
        · split <;> simp_all [Apdu.wireLen, Apdu.hdrLen] <;> omega
        · split <;> simp_all [Apdu.wireLen, Apdu.hdrLen] <;> omega

/-- all segments a `fill_window` call sends satisfy `P` if every single
    `get_segment` result does -/
theorem fillLoop_all {k : Key} {b : Body} {w : Nat} {P : Apdu → Prop}
    (hP : ∀ i seg, getSegment cfg k b i w = .ok seg → P seg) :
    ∀ (n idx : Nat) (seg : Apdu), seg ∈ (fillLoop cfg k b w n idx).sent → P seg := by
  intro n
  induction n with
  | zero => intro idx seg h; simp [fillLoop] at h
  | succ n ih =>
    intro idx seg h
    simp only [fillLoop] at h
    split at h
    · simp at h
    · rename_i s hs
      split at h
      · simp at h; subst h; exact hP _ _ hs
      · simp only [List.mem_cons] at h
        rcases h with h | h
        · subst h; exact hP _ _ hs
        · exact ih _ _ h

theorem fillWindow_all {k : Key} {b : Body} {start : Nat} {P : Apdu → Prop}
    (hP : ∀ i w seg, getSegment cfg k b i w = .ok seg → P seg) :
    ∀ seg ∈ (fillWindow cfg k b start).sent, P seg := by
  intro seg h
  unfold fillWindow at h
  split at h
  · simp at h
  · exact fillLoop_all (fun i s hs => hP i _ s hs) _ _ _ h

/-- `fill_window` never sends more segments than the window it was given -/
theorem fillLoop_length (k : Key) (b : Body) (w : Nat) :
    ∀ (n idx : Nat), (fillLoop cfg k b w n idx).sent.length ≤ n := by
  intro n
  induction n with
  | zero => intro idx; simp [fillLoop]
  | succ n ih =>
    intro idx
    simp only [fillLoop]
    split
    · simp
    · split
      · simp
      · have := ih (idx + 1)
        simp only [List.length_cons]
        omega

theorem fillWindow_length (k : Key) (b : Body) (start : Nat) {w : Nat} (hw : b.window = some w) :
    (fillWindow cfg k b start).sent.length ≤ w := by
  unfold fillWindow
  rw [hw]
  exact fillLoop_length k b w w start

/-! ### what the transactions remember, what the handlers send -/

/-- every frame in the list satisfies `P` -/
def AllSend (P : Apdu → Prop) (outs : List Out) : Prop := ∀ p a, Out.send p a ∈ outs → P a

@[simp] theorem AllSend_nil (P : Apdu → Prop) : AllSend P [] := by intro p a h; cases h
theorem AllSend_cons_send (P : Apdu → Prop) (p : Peer) (a : Apdu) (os : List Out) :
    AllSend P (.send p a :: os) ↔ P a ∧ AllSend P os := by
  constructor
  · intro h
    exact ⟨h p a List.mem_cons_self, fun q x hx => h q x (List.mem_cons_of_mem _ hx)⟩
  · rintro ⟨h1, h2⟩ q x hx
    simp only [List.mem_cons, Out.send.injEq] at hx
    rcases hx with ⟨_, rfl⟩ | hx
    · exact h1
    · exact h2 q x hx
theorem AllSend_cons_other (P : Apdu → Prop) (o : Out) (os : List Out)
    (ho : ∀ p a, o ≠ .send p a) : AllSend P (o :: os) ↔ AllSend P os := by
  constructor
  · intro h q x hx; exact h q x (List.mem_cons_of_mem _ hx)
  · intro h q x hx
    simp only [List.mem_cons] at hx
    rcases hx with hx | hx
    · exact absurd hx.symm (ho q x)
    · exact h q x hx
@[simp] theorem AllSend_cons_indicate (P : Apdu → Prop) (p : Peer) (a : Apdu) (os : List Out) :
    AllSend P (.indicate p a :: os) ↔ AllSend P os :=
  AllSend_cons_other P _ os (by intro q x h; cases h)
@[simp] theorem AllSend_cons_confirm (P : Apdu → Prop) (p : Peer) (a : Apdu) (os : List Out) :
    AllSend P (.confirm p a :: os) ↔ AllSend P os :=
  AllSend_cons_other P _ os (by intro q x h; cases h)
@[simp] theorem AllSend_cons_raised (P : Apdu → Prop) (r : Raise) (os : List Out) :
    AllSend P (.raised r :: os) ↔ AllSend P os :=
  AllSend_cons_other P _ os (by intro q x h; cases h)
@[simp] theorem AllSend_cons_anon (P : Apdu → Prop) (c e : Nat) (os : List Out) :
    AllSend P (.confirmAnon c e :: os) ↔ AllSend P os :=
  AllSend_cons_other P _ os (by intro q x h; cases h)
@[simp] theorem AllSend_append (P : Apdu → Prop) (l1 l2 : List Out) :
    AllSend P (l1 ++ l2) ↔ AllSend P l1 ∧ AllSend P l2 := by
  simp only [AllSend, List.mem_append]
  constructor
  · intro h; exact ⟨fun p a ha => h p a (Or.inl ha), fun p a ha => h p a (Or.inr ha)⟩
  · rintro ⟨h1, h2⟩ p a (ha | ha)
    · exact h1 p a ha
    · exact h2 p a ha
@[simp] theorem AllSend_raisedOf (P : Apdu → Prop) (r : Option Raise) : AllSend P (raisedOf r) := by
  cases r <;> simp [raisedOf]
theorem AllSend_sends {P : Apdu → Prop} {p : Peer} {l : List Apdu} (h : ∀ a ∈ l, P a) :
    AllSend P (sends p l) := by
  intro q a ha
  simp only [sends, List.mem_map, Out.send.injEq] at ha
  rcases ha with ⟨x, hx, _, rfl⟩
  exact h x hx
theorem AllSend.mono {P Q : Apdu → Prop} {outs : List Out} (h : AllSend P outs)
    (hPQ : ∀ a, P a → Q a) : AllSend Q outs := fun p a ha => hPQ a (h p a ha)

/-- a control frame: not a request, not a ComplexAck, at most 50 octets (the
    smallest maximum a peer can announce) -/
def Control (a : Apdu) : Prop := a.ty ≠ 0 ∧ a.ty ≠ 1 ∧ a.ty ≠ 3 ∧ a.wireLen ≤ 50

theorem control_abort (srv : Bool) (i r : Nat) : Control (mkAbort srv i r) := by
  simp [Control, mkAbort, Apdu.wireLen, Apdu.hdrLen]
theorem control_segack (n srv : Bool) (i s w : Nat) : Control (mkSegAck n srv i s w) := by
  simp [Control, mkSegAck, Apdu.wireLen, Apdu.hdrLen]

/-- what a server transaction remembers of the client's limits -/
def SrvCap (cfg : Cfg) (b : Body) : Prop :=
  (b.maxApdu ≤ b.announced ∧ 50 ≤ b.announced) ∧
  (b.st = .segResp → ∃ c, b.ctx = some c ∧ c.ty = 3 ∧ b.segCount ≠ 1 ∧
     b.segSize + 5 ≤ b.maxApdu ∧ b.sra = true ∧ cfg.seg.canTx = true ∧
     ∀ n, b.maxSegs = some n → b.segCount ≤ n)

/-- a frame a server transaction with (pre-state) body `b` may emit -/
def SrvSend (cfg : Cfg) (b : Body) (a : Apdu) : Prop :=
  Control a ∨
  (a.ty = 3 ∧ a.wireLen ≤ b.maxApdu ∧
   (a.seg = true → b.sra = true ∧ cfg.seg.canTx = true ∧ ∀ n, b.maxSegs = some n → a.seq < n))

/-- the application's answer is well-formed: only a ComplexAck carries a
    payload worth cutting (and is handed over unsegmented) -/
def RespOk (a : Apdu) : Prop := (a.ty ≠ 3 → a.wireLen ≤ 50) ∧ (a.ty = 3 → a.seg = false)

/-- an inbound frame is well-formed for the purposes of C12: an Abort has (next to) no payload -/
def FrameOk (a : Apdu) : Prop := a.ty = 7 → a.wireLen ≤ 50

theorem srvSegment {k : Key} {b : Body} {c : Apdu} (hctx : b.ctx = some c) (hty : c.ty = 3)
    (hcnt : b.segCount ≠ 1) (hsz : b.segSize + 5 ≤ b.maxApdu) (hsra : b.sra = true)
    (htx : cfg.seg.canTx = true) (hms : ∀ n, b.maxSegs = some n → b.segCount ≤ n)
    {i w : Nat} {seg : Apdu} (h : getSegment cfg k b i w = .ok seg) : SrvSend cfg b seg := by
  obtain ⟨h1, _, h3, h4, h5, _, _, h8⟩ := getSegment_wire hctx h
  right
  refine ⟨by rw [h1, hty], ?_, ?_⟩
  · simp [hty, hcnt] at h8; omega
  · intro hs
    refine ⟨hsra, htx, ?_⟩
    intro n hn
    have := hms n hn
    rw [h5 hs]
    have : i % 256 ≤ i := Nat.mod_le _ _
    omega

theorem serverIdle_sends {now : Nat} {di : Option DeviceInfo} {k : Key} {b : Body} {a : Apdu} :
    AllSend Control (serverIdle cfg now di k b a).2 := by
  unfold serverIdle
  simp only [serverAbortNet]
  gsplit
  all_goals simp [AllSend_cons_send, control_abort, control_segack]

theorem serverIdle_body {now : Nat} {di : Option DeviceInfo} {k : Key} {b b' : Body} {a : Apdu}
    {outs : List Out} (h : serverIdle cfg now di k b a = (some b', outs)) :
    SrvCap cfg b' ∧
    ∃ m, decodeMaxApdu a.maxResp = some m ∧ b'.maxApdu = announcedMax di m ∧
         b'.sra = a.sa ∧ b'.maxSegs = decodeMaxSegs a.maxSegs ∧ b'.announced = m := by
  cases hm : decodeMaxApdu a.maxResp with
  | none => simp [serverIdle, hm, serverAbortNet] at h
  | some m =>
    have h1 := decodeMaxApdu_ge hm
    have h2 := announcedMax_le di m
    simp only [serverIdle, hm, serverAbortNet] at h
    hsplit h
    all_goals first
      | (simp only [Prod.mk.injEq, reduceCtorEq, false_and] at h; done)
      | (simp only [Prod.mk.injEq, Option.some.injEq] at h
         obtain ⟨rfl, _⟩ := h
         exact ⟨⟨⟨h2, h1⟩, by simp⟩, m, rfl, rfl, rfl, rfl, rfl⟩)

theorem serverIndication_sends {now : Nat} {k : Key} {b : Body} {a : Apdu}
    (hcap : SrvCap cfg b) (ha : FrameOk a) :
    AllSend (SrvSend cfg b) (serverIndication cfg now k b a).2 := by
  obtain ⟨h50, hseg⟩ := hcap
  have hecho : a.ty = 7 → SrvSend cfg b a := fun h7 =>
    Or.inl ⟨by omega, by omega, by omega, ha h7⟩
  unfold serverIndication
  split
  · unfold serverSegmentedRequest
    simp only [serverAbortBoth]
    gsplit
    all_goals first
      | (simp [AllSend_cons_send, SrvSend, control_abort, control_segack]; done)
      | (simp only [AllSend_cons_send, AllSend_nil, and_true]; apply hecho; assumption)
  · unfold serverAwaitResponse
    gsplit
    all_goals simp
  · rename_i hst
    obtain ⟨c, hctx, hty, hcnt, hsz, hsra, htx, hms⟩ := hseg hst
    unfold serverSegmentedResponse
    gsplit
    all_goals first
      | (simp; done)
      | (simp only [AllSend_cons_send, AllSend_nil, and_true]; apply hecho; assumption)
      | (simp only [AllSend_append, AllSend_cons_raised, AllSend_nil, and_true]
         apply AllSend_sends
         apply fillWindow_all
         intro i w seg hs
         exact srvSegment (b := { b with window := some a.win, initSeq := _, segRetry := 0 })
           hctx hty hcnt hsz hsra htx hms hs)
  · simp

theorem serverIndication_body {now : Nat} {k : Key} {b b' : Body} {a : Apdu} {outs : List Out}
    (hcap : SrvCap cfg b) (h : serverIndication cfg now k b a = (some b', outs)) :
    SrvCap cfg b' ∧ b'.maxApdu = b.maxApdu ∧ b'.sra = b.sra ∧ b'.maxSegs = b.maxSegs := by
  obtain ⟨h50, hseg⟩ := hcap
  unfold serverIndication at h
  split at h
  · rename_i hst
    unfold serverSegmentedRequest at h
    simp only [serverAbortBoth] at h
    hsplit h
    all_goals first
      | (simp only [Prod.mk.injEq, reduceCtorEq, false_and] at h; done)
      | (simp only [Prod.mk.injEq, Option.some.injEq] at h
         obtain ⟨rfl, _⟩ := h
         exact ⟨⟨h50, by simp_all⟩, rfl, rfl, rfl⟩)
  · unfold serverAwaitResponse at h
    hsplit h
    all_goals first
      | (simp only [Prod.mk.injEq, reduceCtorEq, false_and] at h; done)
      | (simp only [Prod.mk.injEq, Option.some.injEq] at h
         obtain ⟨rfl, _⟩ := h
         exact ⟨⟨h50, hseg⟩, rfl, rfl, rfl⟩)
  · rename_i hst
    obtain ⟨c, hctx, hty, hcnt, hsz, hsra, htx, hms⟩ := hseg hst
    unfold serverSegmentedResponse at h
    hsplit h
    all_goals first
      | (simp only [Prod.mk.injEq, reduceCtorEq, false_and] at h; done)
      | (simp only [Prod.mk.injEq, Option.some.injEq] at h
         obtain ⟨rfl, _⟩ := h
         exact ⟨⟨h50, fun _ => ⟨c, hctx, hty, hcnt, hsz, hsra, htx, hms⟩⟩, rfl, rfl, rfl⟩)
  · simp only [Prod.mk.injEq, Option.some.injEq] at h
    obtain ⟨rfl, _⟩ := h
    exact ⟨⟨h50, hseg⟩, rfl, rfl, rfl⟩


/-- the decision `ServerSSM.confirmation` takes for a ComplexAck of `len`
    octets, as a function of what the transaction knows -/
theorem serverCut_facts {npdu : Option Nat} {m len size count : Nat}
    (h : setSegmentSize len (serverMaxApdu npdu m) 3 5 = some (size, count)) :
    (count = 1 ∧ len + 3 ≤ m) ∨ (2 ≤ count ∧ size + 5 ≤ m) := by
  have hle := serverMaxApdu_le npdu m
  rcases setSegmentSize_spec (by omega) h with ⟨h1, h2, _⟩ | ⟨h1, _, _, h4, _⟩
  · left; exact ⟨h1, by omega⟩
  · right; exact ⟨h1, by omega⟩

theorem serverConfirmation_sends {now : Nat} {npdu : Option Nat} {k : Key} {b : Body} {a : Apdu}
    (ha : RespOk a) :
    AllSend (SrvSend cfg b) (serverConfirmation cfg now npdu k b a).2 := by
  have hctl : a.ty ≠ 3 → a.ty ≠ 0 → a.ty ≠ 1 → SrvSend cfg b a := fun h3 h0 h1 =>
    Or.inl ⟨h0, h1, h3, ha.1 h3⟩
  unfold serverConfirmation
  split
  · rename_i h7
    simp only [AllSend_cons_send, AllSend_nil, and_true]
    exact hctl (by omega) (by omega) (by omega)
  · split
    · rename_i h256
      simp only [AllSend_cons_send, AllSend_nil, and_true]
      simp only [Bool.or_eq_true, decide_eq_true_eq] at h256
      exact hctl (by omega) (by omega) (by omega)
    · split
      · rename_i h3
        try dsimp only
        split
        · simp [serverAbortNet, AllSend_cons_send, SrvSend, control_abort]
        · rename_i size count hcut
          have hfacts := serverCut_facts (m := b.maxApdu) hcut
          try dsimp only
          split
          · simp [serverAbortNet, AllSend_cons_send, SrvSend, control_abort]
          · rename_i hntx
            split
            · simp [serverAbortNet, AllSend_cons_send, SrvSend, control_abort]
            · rename_i hnsra
              split
              · simp [serverAbortNet, AllSend_cons_send, SrvSend, control_abort]
              · rename_i hnex
                try dsimp only
                split
                · -- unsegmented: the application's PDU goes out as it is
                  rename_i hc1
                  simp only [AllSend_cons_send, AllSend_nil, and_true]
                  right
                  have hseg := ha.2 h3
                  rcases hfacts with ⟨_, hlen⟩ | ⟨h2, _⟩
                  · refine ⟨h3, ?_, by simp [hseg]⟩
                    simp only [Apdu.wireLen, Apdu.hdrLen, h3, hseg] at hlen ⊢
                    simp at hlen ⊢
                    omega
                  · omega
                · rename_i hc1
                  split
                  · rename_i seg hseg
                    simp only [AllSend_cons_send, AllSend_nil, and_true]
                    rcases hfacts with ⟨h1, _⟩ | ⟨h2, hsz⟩
                    · exact absurd h1 hc1
                    · have hgt : decide (count > 1) = true := by simp; omega
                      simp only [hgt, Bool.true_and, Bool.not_eq_true, Bool.not_eq_true'] at hntx hnsra hnex
                      have htx : cfg.seg.canTx = true := by simpa using hntx
                      have hsra : b.sra = true := by simpa using hnsra
                      exact srvSegment (b := { b with ctx := some a, segSize := size, segCount := count,
                                                      segRetry := 0, initSeq := 0, window := none })
                        rfl h3 hc1 hsz hsra htx (by
                          intro n hn
                          simp only at hn
                          simp only [exceeds, hn] at hnex
                          simp at hnex
                          simpa using hnex) hseg
                  · simp
      · simp

theorem serverConfirmation_body {now : Nat} {npdu : Option Nat} {k : Key} {b b' : Body} {a : Apdu}
    {outs : List Out} (hcap : SrvCap cfg b)
    (h : serverConfirmation cfg now npdu k b a = (some b', outs)) :
    SrvCap cfg b' ∧ b'.maxApdu = b.maxApdu ∧ b'.sra = b.sra ∧ b'.maxSegs = b.maxSegs := by
  obtain ⟨h50, hsegr⟩ := hcap
  unfold serverConfirmation at h
  split at h
  · simp only [Prod.mk.injEq, reduceCtorEq, false_and] at h
  · split at h
    · simp only [Prod.mk.injEq, reduceCtorEq, false_and] at h
    · split at h
      · rename_i h3
        try dsimp only at h
        split at h
        · simp [serverAbortNet] at h
        · rename_i size count hcut
          have hfacts := serverCut_facts (m := b.maxApdu) hcut
          try try dsimp only at h
          split at h
          · simp [serverAbortNet] at h
          · rename_i hntx
            split at h
            · simp [serverAbortNet] at h
            · rename_i hnsra
              split at h
              · simp [serverAbortNet] at h
              · rename_i hnex
                try dsimp only at h
                split at h
                · simp at h
                · rename_i hc1
                  have hcap' : ∃ c, (some a) = some c ∧ c.ty = 3 ∧ count ≠ 1 ∧ size + 5 ≤ b.maxApdu ∧
                      b.sra = true ∧ cfg.seg.canTx = true ∧ ∀ n, b.maxSegs = some n → count ≤ n := by
                    rcases hfacts with ⟨h1, _⟩ | ⟨h2, hsz⟩
                    · exact absurd h1 hc1
                    · have hgt : decide (count > 1) = true := by simp; omega
                      simp only [hgt, Bool.true_and, Bool.not_eq_true, Bool.not_eq_true'] at hntx hnsra hnex
                      refine ⟨a, rfl, h3, hc1, hsz, by simpa using hnsra, by simpa using hntx, ?_⟩
                      intro n hn
                      simp only [exceeds, hn] at hnex
                      simpa using hnex
                  split at h
                  · simp only [Prod.mk.injEq, Option.some.injEq] at h
                    obtain ⟨rfl, _⟩ := h
                    exact ⟨⟨h50, fun _ => hcap'⟩, rfl, rfl, rfl⟩
                  · simp only [Prod.mk.injEq, Option.some.injEq] at h
                    obtain ⟨rfl, _⟩ := h
                    exact ⟨⟨h50, fun _ => hcap'⟩, rfl, rfl, rfl⟩
      · simp only [Prod.mk.injEq, Option.some.injEq] at h
        obtain ⟨rfl, _⟩ := h
        exact ⟨⟨h50, hsegr⟩, rfl, rfl, rfl⟩

theorem serverTimeout_sends {now : Nat} {k : Key} {b : Body} (hcap : SrvCap cfg b) :
    AllSend (SrvSend cfg b) (serverTimeout cfg now k b).2 := by
  obtain ⟨h50, hseg⟩ := hcap
  unfold serverTimeout
  split
  · simp
  · simp
  · rename_i hst
    obtain ⟨c, hctx, hty, hcnt, hsz, hsra, htx, hms⟩ := hseg hst
    gsplit
    all_goals first
      | (simp; done)
      | (simp only [AllSend_cons_send, AllSend_nil, and_true]
         exact srvSegment (b := { b with segRetry := b.segRetry + 1, timer := _ })
           hctx hty hcnt hsz hsra htx hms (by assumption))
      | (simp only [AllSend_append, AllSend_raisedOf, and_true]
         apply AllSend_sends
         apply fillWindow_all
         intro i w seg hs
         exact srvSegment (b := { b with segRetry := b.segRetry + 1, timer := _ })
           hctx hty hcnt hsz hsra htx hms hs)
  · simp

theorem serverTimeout_body {now : Nat} {k : Key} {b b' : Body} {outs : List Out}
    (hcap : SrvCap cfg b) (h : serverTimeout cfg now k b = (some b', outs)) :
    SrvCap cfg b' ∧ b'.maxApdu = b.maxApdu ∧ b'.sra = b.sra ∧ b'.maxSegs = b.maxSegs := by
  obtain ⟨h50, hseg⟩ := hcap
  unfold serverTimeout at h
  split at h
  · simp at h
  · simp at h
  · rename_i hst
    obtain ⟨c, hctx, hty, hcnt, hsz, hsra, htx, hms⟩ := hseg hst
    hsplit h
    all_goals first
      | (simp only [Prod.mk.injEq, reduceCtorEq, false_and] at h; done)
      | (simp only [Prod.mk.injEq, Option.some.injEq] at h
         obtain ⟨rfl, _⟩ := h
         exact ⟨⟨h50, fun _ => ⟨c, hctx, hty, hcnt, hsz, hsra, htx, hms⟩⟩, rfl, rfl, rfl⟩)
  · simp only [Prod.mk.injEq, Option.some.injEq] at h
    obtain ⟨rfl, _⟩ := h
    exact ⟨⟨h50, hseg⟩, rfl, rfl, rfl⟩


/-! ### client side -/

/-- the maximum APDU a client transaction was cut for: `segmentSize` plus the
    header of the kind of request it sends (4 octets unsegmented, 6 segmented) -/
def cutMax (b : Body) : Nat := b.segSize + (if b.segCount = 1 then 4 else 6)

/-- what a client transaction remembers while its request is on its way -/
def CliCap (cfg : Cfg) (b : Body) : Prop :=
  (b.st = .segReq ∨ b.st = .awaitConf) →
    ∃ c, b.ctx = some c ∧ c.ty = 0

/-- a frame a client handler may emit; `r` is the body it leaves behind -/
def CliSend (cfg : Cfg) (r : Option Body) (a : Apdu) : Prop :=
  Control a ∨
  (a.ty = 0 ∧ ∃ b1, r = some b1 ∧ a.wireLen ≤ cutMax b1)

theorem cliSegment {k : Key} {b : Body} {c : Apdu} (hctx : b.ctx = some c) (hty : c.ty = 0)
    {i w : Nat} {seg : Apdu} (h : getSegment cfg k b i w = .ok seg) :
    seg.ty = 0 ∧ seg.wireLen ≤ cutMax b ∧ (seg.seg = true → b.segCount ≠ 1) := by
  obtain ⟨h1, _, _, h4, _, _, _, h8⟩ := getSegment_wire hctx h
  refine ⟨by rw [h1, hty], ?_, ?_⟩
  · unfold cutMax
    simp only [hty, if_true] at h8
    split at h8 <;> split <;> omega
  · intro hs
    rw [hs] at h4
    simpa using h4.symm

/-- **the cut** (`ClientSSM.indication`): everything C12 says about a request,
    as a function of the local configuration, the record held for the peer and
    the payload length -/
theorem clientIndication_cut {now : Nat} {di : Option DeviceInfo} {k : Key} {b : Body} {req : Apdu}
    (hty : req.ty = 0) :
    let M := clientMaxApdu di b.maxApdu
    let r := clientIndication cfg now di k b req
    -- it fits: one unsegmented APDU of at most M octets
    (req.data.length + 4 ≤ M →
      ∃ b' seg, r.1 = some b' ∧ b'.segCount = 1 ∧ cutMax b' = M ∧
        (r.2 = [.send k.peer seg] ∧ seg.ty = 0 ∧ seg.seg = false ∧ seg.wireLen ≤ M ∨
         ∃ e, r.2 = [.raised e])) ∧
    -- it does not fit
    (M < req.data.length + 4 →
      -- … and may not be segmented: exactly one abort to the application, nothing sent
      ((M ≤ 6 ∨ cfg.seg.canTx = false ∨ diCannotRx di = true ∨
          (∃ size count, setSegmentSize req.data.length M 4 6 = some (size, count) ∧
            diTooMany di count = true)) →
        r.1 = none ∧ ∃ reason, (reason = abortSegmentationNotSupported ∨ reason = abortApduTooLong) ∧
          r.2 = [.confirm k.peer (mkAbort false k.id reason)]) ∧
      -- … and may: the first segment, cut for M
      (6 < M → cfg.seg.canTx = true → diCannotRx di = false →
        (∀ size count, setSegmentSize req.data.length M 4 6 = some (size, count) →
            diTooMany di count = false) →
        ∃ b' seg, r.1 = some b' ∧ 2 ≤ b'.segCount ∧ cutMax b' = M ∧ b'.st = .segReq ∧
          (r.2 = [.send k.peer seg] ∧ seg.ty = 0 ∧ seg.seg = true ∧ seg.wireLen ≤ M ∧
             seg.win = cfg.window ∨
           ∃ e, r.2 = [.raised e]))) := by
  intro M r
  have hM : clientMaxApdu di b.maxApdu = M := rfl
  cases hcut : setSegmentSize req.data.length M 4 6 with
  | none =>
    obtain ⟨h1, h2⟩ := setSegmentSize_none hcut
    refine ⟨fun h => by omega, fun _ => ⟨?_, fun h => by omega⟩⟩
    intro _
    refine ⟨?_, abortApduTooLong, Or.inr rfl, ?_⟩ <;>
      simp [r, clientIndication, hM, hcut, clientAbortApp]
  | some sc =>
    obtain ⟨size, count⟩ := sc
    have hspec := setSegmentSize_spec (by omega) hcut
    refine ⟨?_, ?_⟩
    · intro hfit
      rcases hspec with ⟨hc1, _, hsz⟩ | ⟨h2, hgt, _⟩
      · subst hc1
        have hseg0 : ∀ seg, getSegment cfg k
            { b with ctx := some req, segSize := size, segCount := 1, sentAll := true, retry := 0,
                     st := .awaitConf, timer := stateTimer now cfg.apduTimeout } 0 0 = .ok seg →
            seg.ty = 0 ∧ seg.seg = false ∧ seg.wireLen ≤ M := by
          intro seg hs
          obtain ⟨h1, h2, h3⟩ := cliSegment (c := req) rfl hty hs
          refine ⟨h1, ?_, ?_⟩
          · cases hsg : seg.seg with
            | false => rfl
            | true => exact absurd rfl (h3 hsg)
          · simp only [cutMax] at h2
            simp at h2
            omega
        simp only [r, clientIndication, hM, hcut]
        simp only [show ¬(1 > 1) by omega, decide_false, Bool.false_and, Bool.false_eq_true, if_false,
          if_true]
        cases hg : getSegment cfg k
            { b with ctx := some req, segSize := size, segCount := 1, sentAll := true, retry := 0,
                     st := .awaitConf, timer := stateTimer now cfg.apduTimeout } 0 0 with
        | ok seg =>
          obtain ⟨h1, h2, h3⟩ := hseg0 seg hg
          refine ⟨_, seg, rfl, rfl, ?_, Or.inl ⟨rfl, h1, h2, h3⟩⟩
          simp [cutMax]; omega
        | error e =>
          refine ⟨_, default, rfl, rfl, ?_, Or.inr ⟨e, rfl⟩⟩
          simp [cutMax]; omega
      · omega
    · intro hnofit
      rcases hspec with ⟨_, hfit, _⟩ | ⟨h2, _, hpos, hsz, _⟩
      · omega
      · have hgt : decide (count > 1) = true := by simp; omega
        have hc1 : count ≠ 1 := by omega
        refine ⟨?_, ?_⟩
        · intro hbad
          have hM6 : ¬ M ≤ 6 := by omega
          by_cases htx : cfg.seg.canTx = true
          · by_cases hrx : diCannotRx di = true
            · refine ⟨?_, abortSegmentationNotSupported, Or.inl rfl, ?_⟩ <;>
                simp [r, clientIndication, hM, hcut, clientAbortApp, hgt, htx, hrx]
            · have htm : diTooMany di count = true := by
                rcases hbad with h | h | h | ⟨s', c', hsc, htm⟩
                · exact absurd h hM6
                · rw [htx] at h; cases h
                · exact absurd h hrx
                · cases hsc; exact htm
              refine ⟨?_, abortApduTooLong, Or.inr rfl, ?_⟩ <;>
                simp [r, clientIndication, hM, hcut, clientAbortApp, hgt, htx, hrx, htm]
          · refine ⟨?_, abortSegmentationNotSupported, Or.inl rfl, ?_⟩ <;>
              simp [r, clientIndication, hM, hcut, clientAbortApp, hgt, htx]
        · intro _ htx hrx htm
          have htm' := htm size count rfl
          have hseg0 : ∀ seg, getSegment cfg k
              { b with ctx := some req, segSize := size, segCount := count, sentAll := false, retry := 0,
                       segRetry := 0, initSeq := 0, window := none, st := .segReq,
                       timer := stateTimer now cfg.segTimeout } 0 0 = .ok seg →
              seg.ty = 0 ∧ seg.seg = true ∧ seg.wireLen ≤ M ∧ seg.win = cfg.window := by
            intro seg hs
            obtain ⟨h1, h2', h3⟩ := cliSegment (c := req) rfl hty hs
            obtain ⟨_, _, _, g4, _, g6, _, _⟩ := getSegment_wire (c := req) rfl hs
            have hsg : seg.seg = true := by rw [g4]; simpa using hc1
            refine ⟨h1, hsg, ?_, g6 hsg rfl⟩
            simp only [cutMax] at h2'
            simp [hc1] at h2'
            omega
          simp only [r, clientIndication, hM, hcut]
          simp only [hgt, htx, hrx, htm', Bool.not_true, Bool.and_false, Bool.and_true, Bool.true_and,
            Bool.false_eq_true, if_false, hc1]
          cases hg : getSegment cfg k
              { b with ctx := some req, segSize := size, segCount := count, sentAll := false, retry := 0,
                       segRetry := 0, initSeq := 0, window := none, st := .segReq,
                       timer := stateTimer now cfg.segTimeout } 0 0 with
          | ok seg =>
            obtain ⟨h1, h2', h3, h4⟩ := hseg0 seg hg
            refine ⟨_, seg, rfl, h2, ?_, rfl, Or.inl ⟨rfl, h1, h2', h3, h4⟩⟩
            simp [cutMax, hc1]; omega
          | error e =>
            refine ⟨_, default, rfl, h2, ?_, rfl, Or.inr ⟨e, rfl⟩⟩
            simp [cutMax, hc1]; omega


/-- **cannot send ⇒ abort** (`ServerSSM.confirmation`): a ComplexAck that does
    not fit the client's maximum and may not be segmented (no room for a
    segment, local device does not transmit segments, the request did not
    accept a segmented response, or more segments than the request allows)
    produces exactly one abort toward the requester and ends the transaction -/
theorem serverConfirmation_cannot_send {now : Nat} {npdu : Option Nat} {k : Key} {b : Body}
    {a : Apdu} (h3 : a.ty = 3) :
    let M := serverMaxApdu npdu b.maxApdu
    let r := serverConfirmation cfg now npdu k b a
    M < a.data.length + 3 →
    (M ≤ 5 ∨ cfg.seg.canTx = false ∨ b.sra = false ∨
      (∃ size count, setSegmentSize a.data.length M 3 5 = some (size, count) ∧
        exceeds b.maxSegs count = true)) →
    r.1 = none ∧ ∃ reason, (reason = abortSegmentationNotSupported ∨ reason = abortApduTooLong) ∧
      r.2 = [.send k.peer (mkAbort true k.id reason)] := by
  intro M r hnofit hbad
  have hM : serverMaxApdu npdu b.maxApdu = M := rfl
  have h7 : ¬ a.ty = 7 := by omega
  have h256 : (decide (a.ty = 2) || decide (a.ty = 5) || decide (a.ty = 6)) = false := by
    simp; omega
  cases hcut : setSegmentSize a.data.length M 3 5 with
  | none =>
    refine ⟨?_, abortApduTooLong, Or.inr rfl, ?_⟩ <;>
      simp [r, serverConfirmation, h7, h256, h3, hM, hcut, serverAbortNet]
  | some sc =>
    obtain ⟨size, count⟩ := sc
    rcases setSegmentSize_spec (by omega) hcut with ⟨_, hfit, _⟩ | ⟨h2, _, hpos, hsz, _⟩
    · omega
    · have hgt : decide (count > 1) = true := by simp; omega
      have hM5 : ¬ M ≤ 5 := by omega
      by_cases htx : cfg.seg.canTx = true
      · by_cases hsra : b.sra = true
        · have hex : exceeds b.maxSegs count = true := by
            rcases hbad with h | h | h | ⟨s', c', hsc, hex⟩
            · exact absurd h hM5
            · rw [htx] at h; cases h
            · rw [hsra] at h; cases h
            · have := hcut.symm.trans hsc; cases this; exact hex
          refine ⟨?_, abortApduTooLong, Or.inr rfl, ?_⟩ <;>
            simp [r, serverConfirmation, h7, h256, h3, hM, hcut, serverAbortNet, hgt, htx, hsra, hex]
        · refine ⟨?_, abortSegmentationNotSupported, Or.inl rfl, ?_⟩ <;>
            simp [r, serverConfirmation, h7, h256, h3, hM, hcut, serverAbortNet, hgt, htx, hsra]
      · refine ⟨?_, abortSegmentationNotSupported, Or.inl rfl, ?_⟩ <;>
          simp [r, serverConfirmation, h7, h256, h3, hM, hcut, serverAbortNet, hgt, htx]

/-! ### client handlers: every later frame -/

theorem clientIndication_sends {now : Nat} {di : Option DeviceInfo} {k : Key} {b : Body} {req : Apdu}
    (hty : req.ty = 0) :
    AllSend (CliSend cfg (clientIndication cfg now di k b req).1) (clientIndication cfg now di k b req).2 := by
  unfold clientIndication
  simp only [clientAbortApp]
  gsplit
  all_goals (try (simp; done))
  all_goals
    rename_i size count hcut hA hB hC _ seg hs hc
    try dsimp only at hcut
    have hspec := setSegmentSize_spec (by omega) hcut
    simp only [AllSend_cons_send, AllSend_nil, and_true]
    right
    first
      | (rw [if_pos hc] at hs
         obtain ⟨h1, h2, h3⟩ := cliSegment (c := req) rfl hty hs
         exact ⟨h1, _, rfl, h2⟩)
      | (rw [if_neg hc] at hs
         obtain ⟨h1, h2, h3⟩ := cliSegment (c := req) rfl hty hs
         exact ⟨h1, _, rfl, h2⟩)

theorem clientIndication_sends' {now : Nat} {di : Option DeviceInfo} {k : Key} {b : Body} {req : Apdu}
    {x : Option Body} {outs : List Out} (hty : req.ty = 0)
    (h : clientIndication cfg now di k b req = (x, outs)) : AllSend (CliSend cfg x) outs := by
  have := clientIndication_sends (cfg := cfg) (now := now) (di := di) (k := k) (b := b) hty
  rw [h] at this
  exact this

theorem clientIndication_body {now : Nat} {di : Option DeviceInfo} {k : Key} {b b' : Body}
    {req : Apdu} {outs : List Out} (hty : req.ty = 0)
    (h : clientIndication cfg now di k b req = (some b', outs)) :
    CliCap cfg b' ∧ cutMax b' = clientMaxApdu di b.maxApdu := by
  unfold clientIndication at h
  simp only [clientAbortApp] at h
  split at h
  · simp at h
  · rename_i size count hcut
    try dsimp only at hcut
    have hspec := setSegmentSize_spec (by omega) hcut
    hsplit h
    all_goals first
      | (simp only [Prod.mk.injEq, reduceCtorEq, false_and] at h; done)
      | (simp only [Prod.mk.injEq, Option.some.injEq] at h
         obtain ⟨rfl, _⟩ := h
         refine ⟨fun _ => ⟨req, rfl, hty⟩, ?_⟩
         · simp only [cutMax]
           rcases hspec with ⟨h1, h2, h3⟩ | ⟨h1, h2, h3, h4, h5⟩
           · first | (simp_all; done) | (simp_all; omega)
           · have : count ≠ 1 := by omega
             first | (simp_all; done) | (simp_all; omega))

theorem clientConfirmation_sends {now : Nat} {k : Key} {b : Body} {a : Apdu}
    (hcap : CliCap cfg b) :
    AllSend (CliSend cfg (clientConfirmation cfg now k b a).1) (clientConfirmation cfg now k b a).2 := by
  have habort : ∀ r i x, CliSend cfg r (mkAbort false i x) := fun _ _ _ => Or.inl (control_abort _ _ _)
  have hack : ∀ r n s i q w, CliSend cfg r (mkSegAck n s i q w) := fun _ _ _ _ _ _ =>
    Or.inl (control_segack _ _ _ _ _)
  unfold clientConfirmation
  split
  · rename_i hst
    obtain ⟨c, hctx, hty⟩ := hcap (Or.inl hst)
    unfold clientSegmentedRequest
    simp only [clientAbortBoth]
    gsplit
    all_goals first
      | (simp [AllSend_cons_send, habort, hack]; done)
      | (simp only [AllSend_append, AllSend_cons_raised, AllSend_nil, and_true]
         apply AllSend_sends
         apply fillWindow_all
         intro i w seg hs
         obtain ⟨h1, h2, h3⟩ := cliSegment (b := { b with window := some a.win, initSeq := _, segRetry := 0 })
           hctx hty hs
         exact Or.inr ⟨h1, _, rfl, h2⟩)
  · unfold clientAwaitConfirmation
    simp only [clientAbortBoth, clientAbortApp]
    gsplit
    all_goals (simp [AllSend_cons_send, habort, hack])
  · unfold clientSegmentedConfirmation
    simp only [clientAbortBoth]
    gsplit
    all_goals (simp [AllSend_cons_send, habort, hack])
  · simp

theorem clientConfirmation_body {now : Nat} {k : Key} {b b' : Body} {a : Apdu} {outs : List Out}
    (hcap : CliCap cfg b) (h : clientConfirmation cfg now k b a = (some b', outs)) :
    CliCap cfg b' ∧ ((b'.st = .segReq ∨ b'.st = .awaitConf) → cutMax b' = cutMax b) := by
  unfold clientConfirmation at h
  split at h
  · rename_i hst
    have hc := hcap (Or.inl hst)
    unfold clientSegmentedRequest at h
    simp only [clientAbortBoth] at h
    hsplit h
    all_goals first
      | (simp only [Prod.mk.injEq, reduceCtorEq, false_and] at h; done)
      | (simp only [Prod.mk.injEq, Option.some.injEq] at h
         obtain ⟨rfl, _⟩ := h
         exact ⟨fun _ => hc, fun _ => rfl⟩)
      | (simp only [Prod.mk.injEq, Option.some.injEq] at h
         obtain ⟨rfl, _⟩ := h
         exact ⟨fun hh => by simp at hh, fun hh => by simp at hh⟩)
  · rename_i hst
    have hc := hcap (Or.inr hst)
    unfold clientAwaitConfirmation at h
    simp only [clientAbortBoth, clientAbortApp] at h
    hsplit h
    all_goals first
      | (simp only [Prod.mk.injEq, reduceCtorEq, false_and] at h; done)
      | (simp only [Prod.mk.injEq, Option.some.injEq] at h
         obtain ⟨rfl, _⟩ := h
         exact ⟨fun _ => hc, fun _ => rfl⟩)
      | (simp only [Prod.mk.injEq, Option.some.injEq] at h
         obtain ⟨rfl, _⟩ := h
         exact ⟨fun hh => by simp at hh, fun hh => by simp at hh⟩)
  · rename_i hst
    unfold clientSegmentedConfirmation at h
    simp only [clientAbortBoth] at h
    hsplit h
    all_goals first
      | (simp only [Prod.mk.injEq, reduceCtorEq, false_and] at h; done)
      | (simp only [Prod.mk.injEq, Option.some.injEq] at h
         obtain ⟨rfl, _⟩ := h
         exact ⟨fun hh => by simp_all, fun hh => by simp_all⟩)
  · simp only [Prod.mk.injEq, Option.some.injEq] at h
    obtain ⟨rfl, _⟩ := h
    exact ⟨hcap, fun _ => rfl⟩

theorem clientTimeout_sends {now : Nat} {di : Option DeviceInfo} {k : Key} {b : Body}
    (hcap : CliCap cfg b) :
    AllSend (CliSend cfg (clientTimeout cfg now di k b).1) (clientTimeout cfg now di k b).2 := by
  unfold clientTimeout
  simp only [clientAbortApp]
  split
  · rename_i hst
    obtain ⟨c, hctx, hty⟩ := hcap (Or.inl hst)
    gsplit
    all_goals first
      | (simp; done)
      | (rename_i seg hs
         simp only [AllSend_cons_send, AllSend_nil, and_true]
         obtain ⟨h1, h2, h3⟩ := cliSegment (b := { b with segRetry := b.segRetry + 1, timer := _ })
           hctx hty hs
         exact Or.inr ⟨h1, _, rfl, h2⟩)
      | (simp only [AllSend_append, AllSend_raisedOf, and_true]
         apply AllSend_sends
         apply fillWindow_all
         intro i w seg hs
         obtain ⟨h1, h2, h3⟩ := cliSegment (b := { b with segRetry := b.segRetry + 1, timer := _ })
           hctx hty hs
         exact Or.inr ⟨h1, _, rfl, h2⟩)
  · rename_i hst
    obtain ⟨c, hctx, hty⟩ := hcap (Or.inr hst)
    split
    · rw [hctx]
      dsimp only
      split
      · rename_i b1 outs1 hind
        have := clientIndication_sends' hty hind
        split
        · exact this
        · intro p a ha
          rcases this p a ha with h | ⟨h0, b2, hb2, hlen⟩
          · exact Or.inl h
          · simp only [Option.some.injEq] at hb2
            subst hb2
            exact Or.inr ⟨h0, _, rfl, hlen⟩
      · rename_i outs1 hind
        exact clientIndication_sends' hty hind
    · simp
  · simp
  · simp

theorem clientTimeout_body {now : Nat} {di : Option DeviceInfo} {k : Key} {b b' : Body}
    {outs : List Out} (hcap : CliCap cfg b) (h : clientTimeout cfg now di k b = (some b', outs)) :
    CliCap cfg b' := by
  unfold clientTimeout at h
  simp only [clientAbortApp] at h
  split at h
  · rename_i hst
    have hc := hcap (Or.inl hst)
    hsplit h
    all_goals first
      | (simp only [Prod.mk.injEq, reduceCtorEq, false_and] at h; done)
      | (simp only [Prod.mk.injEq, Option.some.injEq] at h
         obtain ⟨rfl, _⟩ := h
         exact fun _ => hc)
  · rename_i hst
    obtain ⟨c, hctx, hty⟩ := hcap (Or.inr hst)
    split at h
    · rw [hctx] at h
      dsimp only at h
      split at h
      · rename_i b1 outs1 hind
        have hb1 := (clientIndication_body hty hind).1
        split at h
        all_goals
          simp only [Prod.mk.injEq, Option.some.injEq] at h
          obtain ⟨rfl, _⟩ := h
        · exact hb1
        · exact hb1
      · simp at h
    · simp at h
  · simp at h
  · simp only [Prod.mk.injEq, Option.some.injEq] at h
    obtain ⟨rfl, _⟩ := h
    exact hcap


/-! ### the history variable `announced` is never touched after creation -/

theorem serverIndication_announced {now : Nat} {k : Key} {b b' : Body} {a : Apdu} {outs : List Out}
    (h : serverIndication cfg now k b a = (some b', outs)) : b'.announced = b.announced := by
  unfold serverIndication at h
  split at h
  · unfold serverSegmentedRequest at h
    simp only [serverAbortBoth] at h
    hsplit h
    all_goals first
      | (simp only [Prod.mk.injEq, reduceCtorEq, false_and] at h; done)
      | (simp only [Prod.mk.injEq, Option.some.injEq] at h; obtain ⟨rfl, _⟩ := h; rfl)
  · unfold serverAwaitResponse at h
    hsplit h
    all_goals first
      | (simp only [Prod.mk.injEq, reduceCtorEq, false_and] at h; done)
      | (simp only [Prod.mk.injEq, Option.some.injEq] at h; obtain ⟨rfl, _⟩ := h; rfl)
  · unfold serverSegmentedResponse at h
    hsplit h
    all_goals first
      | (simp only [Prod.mk.injEq, reduceCtorEq, false_and] at h; done)
      | (simp only [Prod.mk.injEq, Option.some.injEq] at h; obtain ⟨rfl, _⟩ := h; rfl)
  · simp only [Prod.mk.injEq, Option.some.injEq] at h
    obtain ⟨rfl, _⟩ := h
    rfl

theorem serverConfirmation_announced {now : Nat} {npdu : Option Nat} {k : Key} {b b' : Body}
    {a : Apdu} {outs : List Out} (h : serverConfirmation cfg now npdu k b a = (some b', outs)) :
    b'.announced = b.announced := by
  unfold serverConfirmation at h
  simp only [serverAbortNet] at h
  hsplit h
  all_goals first
    | (simp only [Prod.mk.injEq, reduceCtorEq, false_and] at h; done)
    | (simp only [Prod.mk.injEq, Option.some.injEq] at h; obtain ⟨rfl, _⟩ := h; rfl)

theorem serverTimeout_announced {now : Nat} {k : Key} {b b' : Body} {outs : List Out}
    (h : serverTimeout cfg now k b = (some b', outs)) : b'.announced = b.announced := by
  unfold serverTimeout at h
  hsplit h
  all_goals first
    | (simp only [Prod.mk.injEq, reduceCtorEq, false_and] at h; done)
    | (simp only [Prod.mk.injEq, Option.some.injEq] at h; obtain ⟨rfl, _⟩ := h; rfl)

end BacVerif.Tsm
