/-
  Lemmas.IocbOnce — every operation of the IOCB layer, seen from one IOCB `id`:

      callbacks of `id` fired  +  [id finished before]  =  [id finished afterwards]

  and a finished IOCB (COMPLETED / ABORTED) keeps its state, response and
  error for ever.  No invariant is needed: the two guards of
  `IOController.complete_io` / `abort_io` are all there is to it.

  RE-ENTRANCY: every lemma is stated for an arbitrary callback behaviour `F`
  that itself satisfies the equation (`CbKeeps F`) — the operations a callback
  issues are operations of this very layer, so `cb0` (nothing) and `cb1` (the
  armed script, run at level 0) do.
-/
import BacVerif.Model.Iocb
namespace BacVerif.Iocb
set_option linter.unusedSimpArgs false
set_option linter.unusedVariables false

def Out.isCbFor (id : Nat) : Out → Bool
  | .callback j _ _ _ => j == id
  | _ => false

/-- callbacks of IOCB `id` among the outputs -/
def nCb (id : Nat) (outs : List Out) : Nat := outs.countP (Out.isCbFor id)

@[simp] theorem nCb_nil (id : Nat) : nCb id [] = 0 := rfl
@[simp] theorem nCb_append (id : Nat) (l1 l2 : List Out) : nCb id (l1 ++ l2) = nCb id l1 + nCb id l2 := by
  simp [nCb, List.countP_append]
@[simp] theorem nCb_cons_sent (id j : Nat) (os : List Out) : nCb id (.sent j :: os) = nCb id os := by
  simp [nCb, List.countP_cons, Out.isCbFor]
@[simp] theorem nCb_cons_raised (id : Nat) (r : Raise) (os : List Out) : nCb id (.raised r :: os) = nCb id os := by
  simp [nCb, List.countP_cons, Out.isCbFor]
theorem nCb_cb_self (id : Nat) (st : IoSt) (r e : Option Nat) : nCb id [.callback id st r e] = 1 := by
  simp [nCb, List.countP_cons, Out.isCbFor]
theorem nCb_cb_other {id j : Nat} (h : j ≠ id) (st : IoSt) (r e : Option Nat) :
    nCb id [.callback j st r e] = 0 := by
  simp [nCb, List.countP_cons, Out.isCbFor, h]

/-- 1 if IOCB `id` exists and is finished -/
def fin (l : List Iocb) (id : Nat) : Nat :=
  match l[id]? with
  | some io => if io.st.terminal then 1 else 0
  | none => 0

theorem fin_le_one (l : List Iocb) (id : Nat) : fin l id ≤ 1 := by
  unfold fin; split <;> (try split) <;> omega

/-- a finished IOCB shows the same state, response and error afterwards -/
def Frozen (l l' : List Iocb) (id : Nat) : Prop :=
  ∀ io, l[id]? = some io → io.st.terminal = true →
    ∃ io', l'[id]? = some io' ∧ io'.st = io.st ∧ io'.resp = io.resp ∧ io'.err = io.err

structure Keeps (id : Nat) (l l' : List Iocb) (outs : List Out) : Prop where
  once : nCb id outs + fin l id = fin l' id
  frozen : Frozen l l' id

theorem Keeps.refl (id : Nat) (l : List Iocb) : Keeps id l l [] :=
  ⟨by simp, fun io h _ => ⟨io, h, rfl, rfl, rfl⟩⟩

theorem Keeps.of_eq {id : Nat} {l l' : List Iocb} (h : l' = l) : Keeps id l l' [] := by
  subst h; exact Keeps.refl id _

theorem Keeps.trans {id : Nat} {l1 l2 l3 : List Iocb} {o1 o2 : List Out}
    (h1 : Keeps id l1 l2 o1) (h2 : Keeps id l2 l3 o2) : Keeps id l1 l3 (o1 ++ o2) := by
  refine ⟨?_, ?_⟩
  · have := h1.once; have := h2.once
    rw [nCb_append]; omega
  · intro io hio ht
    obtain ⟨io2, h2a, h2b, h2c, h2d⟩ := h1.frozen io hio ht
    obtain ⟨io3, h3a, h3b, h3c, h3d⟩ := h2.frozen io2 h2a (by rw [h2b]; exact ht)
    exact ⟨io3, h3a, h3b.trans h2b, h3c.trans h2c, h3d.trans h2d⟩

theorem Keeps.trans_nil {id : Nat} {l1 l2 l3 : List Iocb} {o : List Out}
    (h1 : Keeps id l1 l2 []) (h2 : Keeps id l2 l3 o) : Keeps id l1 l3 o := by
  have := h1.trans h2
  simpa using this

/-- outputs that are not callbacks of `id` may be put in front -/
theorem Keeps.cons_sent {id j : Nat} {l l' : List Iocb} {outs : List Out} (h : Keeps id l l' outs) :
    Keeps id l l' (.sent j :: outs) :=
  ⟨by rw [nCb_cons_sent]; exact h.once, h.frozen⟩

/-! ### in-place updates -/

theorem getElem?_updI (l : List Iocb) (j : Nat) (f : Iocb → Iocb) (id : Nat) :
    (updI l j f)[id]? = if j = id then l[id]?.map f else l[id]? := by
  unfold updI
  cases hj : l[j]? with
  | none =>
    dsimp only
    split
    · rename_i h; subst h; rw [hj]; rfl
    · rfl
  | some io =>
    dsimp only
    rw [List.getElem?_set]
    split
    · rename_i h
      subst h
      obtain ⟨hlt, he⟩ := List.getElem?_eq_some_iff.1 hj
      simp [hlt, he]
    · rfl

/-- an update that neither finishes nor revives anything and leaves finished IOCBs alone -/
theorem keeps_updI (l : List Iocb) (j : Nat) (f : Iocb → Iocb) (id : Nat)
    (h : ∀ x, l[j]? = some x → (f x).st.terminal = x.st.terminal ∧
      (x.st.terminal = true → (f x).st = x.st ∧ (f x).resp = x.resp ∧ (f x).err = x.err)) :
    Keeps id l (updI l j f) [] := by
  refine ⟨?_, ?_⟩
  · simp only [nCb_nil, Nat.zero_add, fin, getElem?_updI]
    by_cases hji : j = id
    · subst hji
      simp only [if_true]
      cases hx : l[j]? with
      | none => rfl
      | some x => simp [(h x hx).1]
    · simp only [hji, if_false]
  · intro io hio ht
    rw [getElem?_updI]
    by_cases hji : j = id
    · subst hji
      simp only [if_true]
      rw [hio]
      obtain ⟨_, h2⟩ := h io hio
      exact ⟨f io, rfl, (h2 ht).1, (h2 ht).2.1, (h2 ht).2.2⟩
    · simp only [hji, if_false]
      exact ⟨io, hio, rfl, rfl, rfl⟩

/-- the update that finishes IOCB `j` and fires its callback -/
theorem keeps_finish (l : List Iocb) (j : Nat) (f : Iocb → Iocb) (id : Nat) {io : Iocb}
    (hj : l[j]? = some io) (hnt : io.st.terminal = false) (hf : (f io).st.terminal = true)
    (st : IoSt) (r e : Option Nat) :
    Keeps id l (updI l j f) [.callback j st r e] := by
  refine ⟨?_, ?_⟩
  · simp only [fin, getElem?_updI]
    by_cases hji : j = id
    · subst hji
      simp [hj, hnt, hf, nCb_cb_self]
    · simp [hji, nCb_cb_other hji]
  · intro io' hio ht
    rw [getElem?_updI]
    by_cases hji : j = id
    · subst hji
      rw [hj] at hio; cases hio
      rw [hnt] at ht; cases ht
    · simp only [hji, if_false]
      exact ⟨io', hio, rfl, rfl, rfl⟩

/-! ### the operations, for any callback behaviour that keeps the equation -/

/-- the callback behaviour `F` satisfies the equation for every IOCB -/
def CbKeeps (F : Cb) : Prop :=
  ∀ (s : St) (j id : Nat), Keeps id s.iocbs (F s j).1.iocbs (F s j).2

theorem dequeue_iocbs (s : St) (io : Iocb) (j : Nat) : (dequeue s io j).iocbs = s.iocbs := by
  unfold dequeue; split <;> rfl

theorem nonterminal_of_ne {st : IoSt} (h1 : st ≠ .completed) (h2 : st ≠ .aborted) : st.terminal = false := by
  cases st <;> simp [IoSt.terminal] at h1 h2 ⊢

/-- the callback fires for an IOCB that has just been finished by the update `f` -/
theorem fire_finish {F : Cb} (hF : CbKeeps F) (s : St) (j : Nat) (f : Iocb → Iocb) (id : Nat) {io : Iocb}
    (hj : s.iocbs[j]? = some io) (hnt : io.st.terminal = false) (hf : (f io).st.terminal = true) :
    Keeps id s.iocbs (fire F { s with iocbs := updI s.iocbs j f } j).1.iocbs
      (fire F { s with iocbs := updI s.iocbs j f } j).2 := by
  have hnew : ({ s with iocbs := updI s.iocbs j f } : St).iocbs[j]? = some (f io) := by
    simp [getElem?_updI, hj]
  unfold fire
  rw [hnew]
  dsimp only
  have h1 := keeps_finish s.iocbs j f id hj hnt hf (f io).st (f io).resp (f io).err
  have h2 := hF (dequeue { s with iocbs := updI s.iocbs j f } (f io) j) j id
  rw [dequeue_iocbs] at h2
  exact h1.trans h2

variable {F : Cb}

theorem baseComplete_keeps (hF : CbKeeps F) (s : St) (j : Nat) (msg : Option Nat) (id : Nat) :
    Keeps id s.iocbs (baseComplete F s j msg).1.iocbs (baseComplete F s j msg).2 := by
  unfold baseComplete
  cases hj : s.iocbs[j]? with
  | none => exact Keeps.refl _ _
  | some io =>
    dsimp only
    split
    · exact Keeps.refl _ _
    · split
      · exact Keeps.refl _ _
      · rename_i h1 h2
        exact fire_finish hF s j _ id hj (nonterminal_of_ne h1 h2) rfl

theorem baseAbort_keeps (hF : CbKeeps F) (s : St) (j err : Nat) (id : Nat) :
    Keeps id s.iocbs (baseAbort F s j err).1.iocbs (baseAbort F s j err).2 := by
  unfold baseAbort
  cases hj : s.iocbs[j]? with
  | none => exact Keeps.refl _ _
  | some io =>
    dsimp only
    split
    · exact Keeps.refl _ _
    · split
      · exact Keeps.refl _ _
      · rename_i h1 h2
        exact fire_finish hF s j _ id hj (nonterminal_of_ne h1 h2) rfl

theorem release_iocbs (s : St) (q : Nat) : (release s q).iocbs = s.iocbs := rfl

theorem qComplete_keeps (hF : CbKeeps F) (s : St) (q j : Nat) (msg : Option Nat) (id : Nat) :
    Keeps id s.iocbs (qComplete F s q j msg).1.iocbs (qComplete F s q j msg).2 := by
  unfold qComplete
  exact baseComplete_keeps hF s j msg id

theorem qAbort_keeps (hF : CbKeeps F) (s : St) (q j err : Nat) (id : Nat) :
    Keeps id s.iocbs (qAbort F s q j err).1.iocbs (qAbort F s q j err).2 := by
  unfold qAbort
  have := baseAbort_keeps hF s j err id
  dsimp only
  split
  · exact this
  · split
    · exact this
    · exact this

theorem appComplete_keeps (hF : CbKeeps F) (s : St) (addr : Addr) (kind : Conf) (msg : Option Nat)
    (id : Nat) :
    Keeps id s.iocbs (appComplete F s addr kind msg).1.iocbs (appComplete F s addr kind msg).2 := by
  unfold appComplete
  split
  · exact Keeps.refl _ _
  · rename_i q _
    split
    · exact Keeps.refl _ _
    · rename_i j _
      cases kind with
      | other =>
        dsimp only
        exact ⟨by simp, (Keeps.refl id s.iocbs).frozen⟩
      | ack =>
        dsimp only
        have := qComplete_keeps hF s q.qid j msg id
        split
        · exact this
        · split <;> exact this
      | err =>
        dsimp only
        have := qAbort_keeps hF s q.qid j (msg.getD 0) id
        split
        · exact this
        · split <;> exact this

theorem launch_keeps (hF : CbKeeps F) (s : St) (q j : Nat) (id : Nat) :
    Keeps id s.iocbs (launch F s q j).1.iocbs (launch F s q j).2 := by
  unfold launch
  cases hj : s.iocbs[j]? with
  | none => exact Keeps.refl _ _
  | some io =>
    dsimp only
    split
    · exact qAbort_keeps hF s q j tokInvalidTransition id
    · rename_i hst
      have hnt : io.st.terminal = false := by
        cases hs : io.st <;> simp [hs] at hst <;> rfl
      have h1 : Keeps id s.iocbs (updI s.iocbs j fun x => { x with st := .active }) [] := by
        apply keeps_updI
        intro x hx
        rw [hj] at hx; cases hx
        refine ⟨by rw [hnt]; rfl, ?_⟩
        intro ht; rw [hnt] at ht; cases ht
      split
      · have h2 := qAbort_keeps hF
          { s with iocbs := updI s.iocbs j fun x => { x with st := .active },
                   queues := updQ s.queues q fun x => { x with busy := true, active := some j } }
          q j tokRequestFailed id
        exact (h1.trans h2).cons_sent
      · split
        · have h2 := appComplete_keeps hF
            { s with iocbs := updI s.iocbs j fun x => { x with st := .active },
                     queues := updQ s.queues q fun x => { x with busy := true, active := some j } }
            io.dest .ack none id
          exact (h1.trans h2).cons_sent
        · exact h1.cons_sent

theorem launch_keeps' (hF : CbKeeps F) (s : St) (q j : Nat) (id : Nat) {l : List Iocb} (hl : s.iocbs = l) :
    Keeps id l (launch F s q j).1.iocbs (launch F s q j).2 := by
  subst hl; exact launch_keeps hF s q j id

theorem keeps_append_new (l : List Iocb) (io : Iocb) (id : Nat) (h : io.st.terminal = false) :
    Keeps id l (l ++ [io]) [] := by
  refine ⟨?_, ?_⟩
  · simp only [nCb_nil, Nat.zero_add, fin]
    by_cases hlt : id < l.length
    · rw [List.getElem?_append_left hlt]
    · have hle : l.length ≤ id := by omega
      have hnone : l[id]? = none := List.getElem?_eq_none hle
      rw [hnone, List.getElem?_append_right hle]
      by_cases he : id - l.length = 0
      · simp [he, h]
      · have : [io][id - l.length]? = none := by
          apply List.getElem?_eq_none
          simp; omega
        rw [this]
  · intro io' hio _
    have hlt : id < l.length := by
      rcases List.getElem?_eq_some_iff.1 hio with ⟨h, _⟩; exact h
    exact ⟨io', by rw [List.getElem?_append_left hlt]; exact hio, rfl, rfl, rfl⟩

theorem submit_keeps (hF : CbKeeps F) (s : St) (dest prio : Nat) (unconf fails : Bool) (id : Nat) :
    Keeps id s.iocbs (submit F s dest prio unconf fails).1.iocbs (submit F s dest prio unconf fails).2 := by
  unfold submit
  dsimp only
  have h0 := keeps_append_new s.iocbs
    { dest := dest, prio := prio, unconf := unconf, fails := fails, st := .pending } id rfl
  have hctrl : ∀ (l : List Iocb) (c : Option Nat),
      Keeps id l (updI l s.iocbs.length fun x => { x with ctrl := c }) [] := by
    intro l c
    apply keeps_updI
    intro x _
    exact ⟨rfl, fun _ => ⟨rfl, rfl, rfl⟩⟩
  cases hq : lookupQ s.queues dest with
  | some q =>
    dsimp only
    have h1 := h0.trans (hctrl _ (some q.qid))
    split
    · refine h1.trans ?_
      apply keeps_updI
      intro x hx
      simp only [getElem?_updI, if_true] at hx
      simp at hx
      obtain ⟨y, hy, rfl⟩ := hx
      exact ⟨rfl, fun ht => by cases ht⟩
    · refine h1.trans_nil ?_
      exact launch_keeps' hF _ _ _ id rfl
  | none =>
    dsimp only
    have h1 := h0.trans (hctrl _ (some s.nextQ))
    split
    · refine h1.trans ?_
      apply keeps_updI
      intro x hx
      simp only [getElem?_updI, if_true] at hx
      simp at hx
      obtain ⟨y, hy, rfl⟩ := hx
      exact ⟨rfl, fun ht => by cases ht⟩
    · refine h1.trans_nil ?_
      exact launch_keeps' hF _ _ _ id rfl

theorem appAbort_keeps (hF : CbKeeps F) (s : St) (j tok : Nat) (id : Nat) :
    Keeps id s.iocbs (appAbort F s j tok).1.iocbs (appAbort F s j tok).2 := by
  unfold appAbort
  split
  · exact Keeps.refl _ _
  · split
    · exact qAbort_keeps hF _ _ _ _ _
    · exact baseAbort_keeps hF _ _ _ _

theorem trigger_keeps (hF : CbKeeps F) (s : St) (q : Nat) (id : Nat) :
    Keeps id s.iocbs (trigger F s q).1.iocbs (trigger F s q).2 := by
  unfold trigger
  split
  · exact Keeps.refl _ _
  · split
    · exact Keeps.refl _ _
    · split
      · exact Keeps.refl _ _
      · rename_i p j rest _
        dsimp only
        have h1 : Keeps id s.iocbs (updI s.iocbs j fun x => { x with inq := none }) [] := by
          apply keeps_updI
          intro x _
          exact ⟨rfl, fun _ => ⟨rfl, rfl, rfl⟩⟩
        have h2 := launch_keeps hF
          { s with queues := updQ s.queues q fun x => { x with queue := rest },
                   iocbs := updI s.iocbs j fun x => { x with inq := none } } q j id
        have h := h1.trans h2
        simp only [List.nil_append] at h
        repeat' split
        all_goals exact h

/-! ### the two callback behaviours -/

theorem cb0_keeps : CbKeeps cb0 := fun s _ id => Keeps.refl id s.iocbs

theorem runOp0_keeps (caller : Nat) (s : St) (op : CbOp) (id : Nat) :
    Keeps id s.iocbs (runOp0 caller s op).1.iocbs (runOp0 caller s op).2 := by
  cases op with
  | submit dest prio unconf fails => exact submit_keeps cb0_keeps s dest prio unconf fails id
  | abort j tok =>
    simp only [runOp0]
    split
    · exact Keeps.refl _ _
    · exact appAbort_keeps cb0_keeps s j tok id

theorem runScript0_keeps (caller : Nat) (id : Nat) : ∀ (ops : List CbOp) (s : St),
    Keeps id s.iocbs (runScript0 caller s ops).1.iocbs (runScript0 caller s ops).2 := by
  intro ops
  induction ops with
  | nil => intro s; exact Keeps.refl _ _
  | cons op ops ih =>
    intro s
    simp only [runScript0]
    exact (runOp0_keeps caller s op id).trans (ih _)

theorem cb1_keeps : CbKeeps cb1 := fun s j id => runScript0_keeps j id s.script { s with script := [] }

/-- **one event of the IOCB layer**, seen from IOCB `id` -/
theorem step_keeps (s : St) (e : Ev) (id : Nat) : Keeps id s.iocbs (step s e).1.iocbs (step s e).2 := by
  cases e with
  | submit dest prio unconf fails => exact submit_keeps cb1_keeps s dest prio unconf fails id
  | abort j tok => exact appAbort_keeps cb1_keeps s j tok id
  | confirm addr kind tok => exact appComplete_keeps cb1_keeps s addr kind (some tok) id
  | runDeferred =>
    simp only [step]
    split
    · exact Keeps.refl _ _
    · rename_i q rest _
      exact trigger_keeps cb1_keeps { s with deferred := rest } q id
  | arm sc => exact Keeps.refl _ _

end BacVerif.Iocb
