/-
  Lemmas.SchedThm — `eval` as a whole: stability before the reported
  transition, the transition is in the future, the value is the prescribed one.
-/
import BacVerif.Lemmas.SchedEval
import BacVerif.Lemmas.SchedMatch
namespace BacVerif.Sched

theorem findSome?_congr {α β} {f g : α → Option β} : ∀ {l : List α}, (∀ x ∈ l, f x = g x) →
    l.findSome? f = l.findSome? g
  | [], _ => rfl
  | a :: l, h => by
    rw [List.findSome?_cons, List.findSome?_cons, h a (by simp)]
    cases g a with
    | some b => rfl
    | none => exact findSome?_congr fun x hx => h x (by simp [hx])

theorem excList_eq (cfg : Cfg) : excList cfg = cfg.exc.getD [] := by
  unfold excList; cases cfg.exc <;> rfl

/-! ## nothing changes before the reported transition -/

theorem evalWeekly_stable {cfg : Cfg} {d : Date} {t t' : Time} {e : Time} {v : Nat} {n : Time}
    (htt : t.le t' = true) (h : evalWeekly cfg d t e = .ok (v, n)) (hn : t'.lt n = true) :
    evalWeekly cfg d t' e = .ok (v, n) ∧ n.le e = true := by
  unfold evalWeekly at h ⊢
  cases hw : cfg.weekly with
  | none => rw [hw] at h; simp only [] at h ⊢; cases h; exact ⟨rfl, Time.le_refl _⟩
  | some wk =>
    rw [hw] at h; simp only [] at h ⊢
    by_cases he : wk.isEmpty = true
    · rw [if_pos he] at h ⊢; cases h; exact ⟨rfl, Time.le_refl _⟩
    · rw [if_neg he] at h ⊢
      cases hl : weeklyLookup wk d.w with
      | error x => rw [hl] at h; cases h
      | ok day =>
        rw [hl] at h; simp only [] at h ⊢
        have h' : scanDaily t cfg.dflt day cfg.dflt e = (v, n) := Except.ok.inj h
        have hs := scanDaily_stable htt cfg.dflt day cfg.dflt e (by rw [h']; exact hn)
        have hle := scanDaily_le t cfg.dflt day cfg.dflt e
        rw [h'] at hle
        exact ⟨by rw [hs, h'], hle⟩

/-- **no change before next** (strong form): between the evaluated instant and
    the reported transition `eval` returns the very same (value, transition) -/
theorem eval_stable {cfg : Cfg} {d : Date} {t t' : Time} {v : Nat} {n : Time}
    (h : evalSchedule cfg d t = .ok (some (v, n))) (htt : t.le t' = true) (hn : t'.lt n = true) :
    evalSchedule cfg d t' = .ok (some (v, n)) := by
  unfold evalSchedule at h ⊢
  by_cases hr : (!matchRange d cfg.effStart cfg.effEnd) = true
  · rw [if_pos hr] at h; cases h
  · rw [if_neg hr] at h ⊢
    cases hex : evalExceptions d t (excList cfg) (fun _ => Slot.none) with
    | error e => rw [hex] at h; cases h
    | ok sl =>
      rw [hex] at h; simp only [] at h
      obtain ⟨c1, c2⟩ := evalExceptions_char d t _ _ _ hex
      obtain ⟨sl', hex'⟩ := c2 t' (fun _ => Slot.none)
      obtain ⟨c1', _⟩ := evalExceptions_char d t' _ _ _ hex'
      rw [hex']; simp only []
      have hR : ∀ i, (∀ k, (sl i).nxt = some k → t'.lt k = true) → sl' i = sl i := by
        intro i hk
        rw [c1' i, c1 i]
        apply foldSlot_stable htt
        rw [← c1 i]; exact hk
      have key : t'.lt (scanSlots (slotList sl) nextDay).2 = true →
          scanSlots (slotList sl') nextDay = scanSlots (slotList sl) nextDay :=
        scanSlots_stable sl sl' hR (List.range 16) nextDay
      cases hv : (scanSlots (slotList sl) nextDay).1 with
      | some v0 =>
        rw [hv] at h; simp only [] at h
        have e2 : (scanSlots (slotList sl) nextDay).2 = n := by cases h; rfl
        have e1 : v0 = v := by cases h; rfl
        rw [key (by rw [e2]; exact hn), hv]; simp only []
        rw [e1, e2]
      | none =>
        rw [hv] at h; simp only [] at h
        cases hwk : evalWeekly cfg d t (scanSlots (slotList sl) nextDay).2 with
        | error x => rw [hwk] at h; cases h
        | ok p =>
          rw [hwk] at h; simp only [] at h
          have ep : p = (v, n) := by cases h; rfl
          subst ep
          obtain ⟨w1, w2⟩ := evalWeekly_stable htt hwk hn
          rw [key (Time.lt_of_lt_of_le hn w2), hv]; simp only []
          rw [w1]

/-! ## the reported transition -/

/-- what `eval` reports as next transition has every property that `nextDay`
    and all entry times of the configuration have -/
theorem eval_next_P (P : Time → Prop) (hP : P nextDay) {cfg : Cfg} {d : Date} {t : Time} {v : Nat}
    {n : Time} (hexc : ∀ se ∈ excList cfg, ∀ tv ∈ se.tvs, P tv.time)
    (hwk : ∀ day ∈ cfg.weekly.getD [], ∀ tv ∈ day, P tv.time)
    (h : evalSchedule cfg d t = .ok (some (v, n))) : P n := by
  unfold evalSchedule at h
  by_cases hr : (!matchRange d cfg.effStart cfg.effEnd) = true
  · rw [if_pos hr] at h; cases h
  · rw [if_neg hr] at h
    cases hex : evalExceptions d t (excList cfg) (fun _ => Slot.none) with
    | error e => rw [hex] at h; cases h
    | ok sl =>
      rw [hex] at h; simp only [] at h
      obtain ⟨c1, _⟩ := evalExceptions_char d t _ _ _ hex
      have hs : ∀ i k, (sl i).nxt = some k → P k := by
        intro i k hk
        rw [c1 i] at hk
        exact foldSlot_next_P P hP _ _
          (fun se hse => hexc se (List.mem_filter.mp hse).1) (by intro k hk; cases hk) k hk
      have he : P (scanSlots (slotList sl) nextDay).2 :=
        scanSlots_next_P P sl hs (List.range 16) nextDay hP
      cases hv : (scanSlots (slotList sl) nextDay).1 with
      | some v0 =>
        rw [hv] at h; simp only [] at h
        have e2 : (scanSlots (slotList sl) nextDay).2 = n := by cases h; rfl
        rw [← e2]; exact he
      | none =>
        rw [hv] at h; simp only [] at h
        unfold evalWeekly at h
        cases hw : cfg.weekly with
        | none => rw [hw] at h; simp only [] at h; cases h; exact he
        | some wk =>
          rw [hw] at h; simp only [] at h
          by_cases hem : wk.isEmpty = true
          · rw [if_pos hem] at h; cases h; exact he
          · rw [if_neg hem] at h
            cases hl : weeklyLookup wk d.w with
            | error x => rw [hl] at h; cases h
            | ok day =>
              rw [hl] at h; simp only [] at h
              have hday : day ∈ wk := by
                unfold weeklyLookup at hl
                split at hl
                · cases hl
                · split at hl
                  · cases hl
                  · split at hl
                    · rename_i l hget; cases hl; exact List.mem_of_getElem? hget
                    · cases hl
              have := scanDaily_next_P P t cfg.dflt day cfg.dflt _
                (hwk day (by rw [hw]; exact hday)) he
              rw [Option.some.inj (Except.ok.inj h)] at this; exact this

/-- **next after now**: the reported transition is strictly later than the
    evaluated time of day -/
theorem eval_next_later {cfg : Cfg} {d : Date} {t : Time} {v : Nat} {n : Time}
    (ht : t.lt nextDay = true) (h : evalSchedule cfg d t = .ok (some (v, n))) : t.lt n = true := by
  unfold evalSchedule at h
  by_cases hr : (!matchRange d cfg.effStart cfg.effEnd) = true
  · rw [if_pos hr] at h; cases h
  · rw [if_neg hr] at h
    cases hex : evalExceptions d t (excList cfg) (fun _ => Slot.none) with
    | error e => rw [hex] at h; cases h
    | ok sl =>
      rw [hex] at h; simp only [] at h
      obtain ⟨c1, _⟩ := evalExceptions_char d t _ _ _ hex
      have hs : ∀ i k, (sl i).nxt = some k → t.lt k = true := by
        intro i k hk
        rw [c1 i] at hk
        exact foldSlot_next_later ht _ _ (by intro k hk; cases hk) k hk
      have he : t.lt (scanSlots (slotList sl) nextDay).2 = true :=
        scanSlots_next_later sl hs (List.range 16) nextDay ht
      cases hv : (scanSlots (slotList sl) nextDay).1 with
      | some v0 =>
        rw [hv] at h; simp only [] at h
        have e2 : (scanSlots (slotList sl) nextDay).2 = n := by cases h; rfl
        rw [← e2]; exact he
      | none =>
        rw [hv] at h; simp only [] at h
        unfold evalWeekly at h
        cases hw : cfg.weekly with
        | none => rw [hw] at h; simp only [] at h; cases h; exact he
        | some wk =>
          rw [hw] at h; simp only [] at h
          by_cases hem : wk.isEmpty = true
          · rw [if_pos hem] at h; cases h; exact he
          · rw [if_neg hem] at h
            cases hl : weeklyLookup wk d.w with
            | error x => rw [hl] at h; cases h
            | ok day =>
              rw [hl] at h; simp only [] at h
              have := scanDaily_next_later (t := t) cfg.dflt day cfg.dflt _ he
              rw [Option.some.inj (Except.ok.inj h)] at this; exact this


/-! ## the value is the prescribed one -/

theorem slotIndex_ok {p : Nat} (h1 : 1 ≤ p) (h16 : p ≤ 16) : slotIndex p = .ok (p - 1) := by
  unfold slotIndex; rw [if_neg (by omega), if_pos h16]

theorem evalExceptions_ok (d : Date) (t : Time) (hd : ValidTuple d) :
    ∀ (ses : List SpecialEvent) (sl : Slots),
    (∀ se ∈ ses, WFPeriod se.period ∧ 1 ≤ se.prio ∧ se.prio ≤ 16) →
    ∃ sl', evalExceptions d t ses sl = .ok sl'
  | [], sl, _ => ⟨sl, rfl⟩
  | se :: rest, sl, h => by
    obtain ⟨hw, h1, h16⟩ := h se (by simp)
    unfold evalExceptions
    rw [periodMatch_eq d se.period hd hw, slotIndex_ok h1 h16]
    cases decide (DenotesPeriod se.period d) <;> simp only [] <;>
      exact evalExceptions_ok d t hd rest _ (fun x hx => h x (by simp [hx]))

theorem hits_eq (d : Date) (i : Nat) (se : SpecialEvent) (hd : ValidTuple d)
    (h : WFPeriod se.period ∧ 1 ≤ se.prio ∧ se.prio ≤ 16) :
    hits d i se = (decide (se.prio = i + 1) && decide (DenotesPeriod se.period d)) := by
  obtain ⟨hw, h1, h16⟩ := h
  unfold hits
  rw [periodMatch_eq d se.period hd hw, slotIndex_ok h1 h16]
  cases decide (DenotesPeriod se.period d)
  · simp
  · simp only [Bool.and_true]
    apply bool_eq_decide
    simp only [beq_iff_eq]
    omega

theorem weeklyLookup_ok {wk : List (List TV)} {w : Nat} (hl : wk.length = 7) (h1 : 1 ≤ w) (h7 : w ≤ 7) :
    ∃ day, wk[w - 1]? = some day ∧ weeklyLookup wk w = .ok day ∧ day ∈ wk := by
  have hlt : w - 1 < wk.length := by omega
  refine ⟨wk[w - 1], List.getElem?_eq_getElem hlt, ?_, List.getElem_mem hlt⟩
  unfold weeklyLookup
  rw [if_neg (by omega), if_neg (by omega), List.getElem?_eq_getElem hlt]

/-- **eval is spec**: on a well-formed configuration with time-ordered lists
    `eval` succeeds and its value is the one BACnet prescribes -/
theorem eval_spec (cfg : Cfg) (d : Date) (t : Time) (hv : ValidCfg cfg) (hs : SortedCfg cfg)
    (hd : ValidTuple d) :
    ∃ r, evalSchedule cfg d t = .ok r ∧ r.map Prod.fst = specValue cfg d t := by
  obtain ⟨hs1, hs2, hwk, hex⟩ := hv
  have hm := matchRange_iff d _ _ hd.1 hs1 hs2
  unfold evalSchedule specValue
  by_cases hr : matchRange d cfg.effStart cfg.effEnd = true
  · rw [if_neg (by simp [hr]), if_pos (hm.mp hr)]
    rw [← excList_eq] at hex
    obtain ⟨sl, hsl⟩ := evalExceptions_ok d t hd (excList cfg) (fun _ => Slot.none) hex
    obtain ⟨c1, _⟩ := evalExceptions_char d t _ _ _ hsl
    rw [hsl]; simp only []
    have hval : (scanSlots (slotList sl) nextDay).1 = specExc (cfg.exc.getD []) d t := by
      unfold slotList specExc
      rw [scanSlots_val]
      apply findSome?_congr
      intro i _
      rw [c1 i, foldSlot_val]
      simp only [Slot.none]
      have hf : (excList cfg).filter (hits d i) = inForce (cfg.exc.getD []) d (i + 1) := by
        unfold inForce; rw [← excList_eq]
        exact List.filter_congr fun se hse => hits_eq d i se hd (hex se hse)
      rw [hf]
      apply findSome?_congr
      intro se hse
      have : se ∈ cfg.exc.getD [] := (List.mem_filter.mp hse).1
      exact scanTVs_listValue se.tvs (hs.1 se this)
    rw [← hval]
    cases hv : (scanSlots (slotList sl) nextDay).1 with
    | some v0 => exact ⟨_, rfl, by simp [Option.orElse]⟩
    | none =>
      simp only []
      unfold evalWeekly specWeekly
      cases hw : cfg.weekly with
      | none => exact ⟨_, rfl, by simp [Option.orElse]⟩
      | some wk =>
        simp only []
        have hl : wk.length = 7 := by rw [hw] at hwk; exact hwk
        have hne : wk.isEmpty = false := by
          cases wk with
          | nil => simp at hl
          | cons a as => rfl
        obtain ⟨day, hget, hlook, hmem⟩ := weeklyLookup_ok hl hd.2.1 hd.2.2
        rw [hne, hlook, hget]
        simp only [Bool.false_eq_true, ↓reduceIte]
        refine ⟨_, rfl, ?_⟩
        have hsd : SortedTVs day := hs.2 day (by rw [hw]; exact hmem)
        simp only [Option.map, Option.orElse]
        rw [scanDaily_value cfg.dflt day cfg.dflt _ hsd]
        unfold listValue
        cases latest day t with
        | none => rfl
        | some x => cases x.value.toOption <;> rfl
  · have : ¬ DenotesRange cfg.effStart cfg.effEnd d := fun c => hr (hm.mpr c)
    rw [if_pos (by simp [hr]), if_neg this]
    exact ⟨none, rfl, rfl⟩

end BacVerif.Sched
