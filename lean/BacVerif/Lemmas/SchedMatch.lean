/-
  Lemmas.SchedMatch — the three matchers decide exactly what the patterns denote.
-/
import BacVerif.Lemmas.SchedSpec
namespace BacVerif.Sched

theorem bool_eq_decide {b : Bool} {P : Prop} [Decidable P] (h : b = true ↔ P) : b = decide P := by
  cases b <;> simp_all

theorem monthOk_iff (m mp : Nat) (h1 : 1 ≤ m) (h12 : m ≤ 12) :
    monthOk m mp = true ↔ DenMonth mp m := by
  unfold monthOk DenMonth
  by_cases a : mp = 255
  · simp [a]
  by_cases b : mp = 13
  · simp [b] <;> omega
  by_cases c : mp = 14
  · simp [c] <;> omega
  simp [a, b, c] <;> omega

theorem daysInMonth_ok (y m : Nat) (h1 : 1 ≤ m) (h12 : m ≤ 12) :
    daysInMonth y m = .ok (SpecMonthLen (1900 + y) m) := by
  unfold daysInMonth
  rw [if_neg (by omega), monthLen_spec y m h1 h12]

theorem dayOk_iff (d : Date) (dp : Nat) (h : ValidYMD d) :
    ∃ b, dayOk d.y d.m d.d dp = .ok b ∧ (b = true ↔ DenDay dp d) := by
  obtain ⟨h1, h12, hd1, hdl⟩ := h
  have hle := monthLen_le d.y d.m
  unfold dayOk DenDay
  rw [daysInMonth_ok d.y d.m h1 h12]
  by_cases a : dp = 255
  · simp [a]
  by_cases b : dp = 32
  · simp [b]
  by_cases c : dp = 33
  · simp [c] <;> omega
  by_cases e : dp = 34
  · simp [e] <;> omega
  simp [a, b, c, e] <;> omega

theorem dowOk_iff (w wp : Nat) (h1 : 1 ≤ w) (h7 : w ≤ 7) :
    (wp == 255 || w == wp) = true ↔ DenDow wp w := by
  unfold DenDow
  simp <;> omega


theorem matchDate_iff (d p : Date) (h : ValidTuple d) :
    ∃ r, matchDate d p = .ok r ∧ (r = true ↔ DenotesDate p d) := by
  obtain ⟨hy, hw1, hw7⟩ := h
  obtain ⟨b, hb, hbi⟩ := dayOk_iff d p.d hy
  have hm := monthOk_iff d.m p.m hy.1 hy.2.1
  have hw := dowOk_iff d.w p.w hw1 hw7
  unfold matchDate DenotesDate
  rw [hb]
  by_cases c1 : p.y ≠ 255 ∧ d.y ≠ p.y
  · refine ⟨false, by rw [if_pos c1], ?_⟩
    simp; omega
  · rw [if_neg c1]
    cases hmo : monthOk d.m p.m
    · refine ⟨false, by simp, ?_⟩
      have : ¬ DenMonth p.m d.m := fun c => by rw [hm.mpr c] at hmo; cases hmo
      simp [this]
    · have hM : DenMonth p.m d.m := hm.mp hmo
      cases b
      · refine ⟨false, by simp, ?_⟩
        have : ¬ DenDay p.d d := fun c => by have := hbi.mpr c; cases this
        simp [this]
      · have hD : DenDay p.d d := hbi.mp rfl
        refine ⟨_, by simp; rfl, ?_⟩
        rw [hw]
        have hY : p.y = 255 ∨ p.y = d.y := by omega
        simp [hM, hD, hY]

/-- `match_date` decides `DenotesDate`, for every real date and EVERY pattern -/
theorem matchDate_eq (d p : Date) (h : ValidTuple d) :
    matchDate d p = .ok (decide (DenotesDate p d)) := by
  obtain ⟨r, h1, h2⟩ := matchDate_iff d p h
  rw [h1, bool_eq_decide h2]


theorem weekOk_iff (d : Date) (wp : Nat) (h : ValidYMD d) (hv : ValidWeek wp) :
    weekOk d.d (SpecMonthLen (1900 + d.y) d.m) wp = true ↔ DenWeek wp d := by
  obtain ⟨h1, h12, hd1, hdl⟩ := h
  have hle := monthLen_le d.y d.m
  have hge := monthLen_ge d.y d.m h1 h12
  rw [monthLen_spec d.y d.m h1 h12] at hdl hle hge
  unfold DenWeek
  generalize SpecMonthLen (1900 + d.y) d.m = L at *
  have hw : wp = 255 ∨ wp = 1 ∨ wp = 2 ∨ wp = 3 ∨ wp = 4 ∨ wp = 5 ∨ wp = 6 ∨ wp = 7 ∨ wp = 8 ∨
      wp = 9 := by unfold ValidWeek at hv; omega
  rcases hw with e | e | e | e | e | e | e | e | e | e <;> subst e <;> simp [weekOk] <;> omega

theorem matchWeekNDay_iff (d : Date) (mp wp dp : Nat) (h : ValidTuple d) (hv : ValidWeek wp) :
    ∃ r, matchWeekNDay d mp wp dp = .ok r ∧ (r = true ↔ DenotesWND mp wp dp d) := by
  obtain ⟨hy, hw1, hw7⟩ := h
  have hm := monthOk_iff d.m mp hy.1 hy.2.1
  have hk := weekOk_iff d wp hy hv
  have hw := dowOk_iff d.w dp hw1 hw7
  unfold matchWeekNDay DenotesWND
  rw [daysInMonth_ok d.y d.m hy.1 hy.2.1]
  cases hmo : monthOk d.m mp
  · refine ⟨false, by simp, ?_⟩
    have : ¬ DenMonth mp d.m := fun c => by rw [hm.mpr c] at hmo; cases hmo
    simp [this]
  · have hM : DenMonth mp d.m := hm.mp hmo
    cases hko : weekOk d.d (SpecMonthLen (1900 + d.y) d.m) wp
    · refine ⟨false, by simp [hko], ?_⟩
      have : ¬ DenWeek wp d := fun c => by rw [hk.mpr c] at hko; cases hko
      simp [this]
    · have hK : DenWeek wp d := hk.mp hko
      refine ⟨_, by simp [hko]; rfl, ?_⟩
      rw [hw]; simp [hM, hK]

/-- `match_weeknday` decides `DenotesWND` for every real date and every
    pattern whose week field the standard defines -/
theorem matchWeekNDay_eq (d : Date) (mp wp dp : Nat) (h : ValidTuple d) (hv : ValidWeek wp) :
    matchWeekNDay d mp wp dp = .ok (decide (DenotesWND mp wp dp d)) := by
  obtain ⟨r, h1, h2⟩ := matchWeekNDay_iff d mp wp dp h hv
  rw [h1, bool_eq_decide h2]

theorem open3_iff (p : Date) : p.open3 = true ↔ Open3 p := by
  simp [Date.open3, Open3, and_assoc]

theorem validYMD_not_open {p : Date} (h : ValidYMD p) : ¬ Open3 p := by
  intro c; obtain ⟨_, h12, _, _⟩ := h; have := c.2.1; omega

/-- `match_date_range` (repaired) decides `DenotesRange`: tuple comparison is
    ordinal comparison on real dates, an unspecified end is open -/
theorem matchRange_iff (d s e : Date) (hd : ValidYMD d) (hs : RangeEnd s) (he : RangeEnd e) :
    matchRange d s e = true ↔ DenotesRange s e d := by
  unfold matchRange DenotesRange
  have key : ∀ q : Date, RangeEnd q →
      ((!q.open3 && d.lt3 q) = true ↔ ¬ (Open3 q ∨ dayNum q.y q.m q.d ≤ dayNum d.y d.m d.d)) ∧
      ((!q.open3 && q.lt3 d) = true ↔ ¬ (Open3 q ∨ dayNum d.y d.m d.d ≤ dayNum q.y q.m q.d)) := by
    intro q hq
    rcases hq with ho | hv
    · have := (open3_iff q).mpr ho
      simp [this, ho]
    · have hn := validYMD_not_open hv
      have hb : q.open3 = false := by
        cases hq : q.open3
        · rfl
        · exact absurd ((open3_iff q).mp hq) hn
      have l1 := lt3_iff_dayNum d q hd hv
      have l2 := lt3_iff_dayNum q d hv hd
      simp [hb, hn, l1, l2]
  have ks := (key s hs).1
  have ke := (key e he).2
  by_cases c1 : (!s.open3 && d.lt3 s) = true
  · rw [if_pos c1]; have := ks.mp c1; simp [this]
  · rw [if_neg c1]
    have h1 : Open3 s ∨ dayNum s.y s.m s.d ≤ dayNum d.y d.m d.d := by
      by_cases x : (Open3 s ∨ dayNum s.y s.m s.d ≤ dayNum d.y d.m d.d)
      · exact x
      · exact absurd (ks.mpr x) c1
    by_cases c2 : (!e.open3 && e.lt3 d) = true
    · rw [if_pos c2]; have := ke.mp c2; simp [this]
    · rw [if_neg c2]
      have h2 : Open3 e ∨ dayNum d.y d.m d.d ≤ dayNum e.y e.m e.d := by
        by_cases x : (Open3 e ∨ dayNum d.y d.m d.d ≤ dayNum e.y e.m e.d)
        · exact x
        · exact absurd (ke.mpr x) c2
      simp [h1, h2]

theorem dateInEntry_eq (d : Date) (e : CalEntry) (h : ValidTuple d) (hw : WFEntry e) :
    dateInEntry d e = .ok (decide (DenotesEntry e d)) := by
  cases e with
  | date p => exact matchDate_eq d p h
  | range s e =>
    have h2 : matchRange d s e = true ↔ DenotesEntry (.range s e) d :=
      matchRange_iff d s e h.1 hw.1 hw.2
    show Except.ok (matchRange d s e) = _
    rw [bool_eq_decide h2]
  | weekNDay mp wp dp => exact matchWeekNDay_eq d mp wp dp h hw
  | empty => exact absurd hw (by simp [WFEntry])

theorem anyEntry_eq (d : Date) (es : List CalEntry) (h : ValidTuple d) (hw : ∀ e ∈ es, WFEntry e) :
    anyEntry d es = .ok (decide (∃ e ∈ es, DenotesEntry e d)) := by
  induction es with
  | nil => simp [anyEntry]
  | cons e es ih =>
    unfold anyEntry
    rw [dateInEntry_eq d e h (hw e (by simp))]
    by_cases c : DenotesEntry e d
    · simp [c]
    · simp [c]
      rw [ih (fun x hx => hw x (by simp [hx]))]

/-- a special event's period (calendar entry, or any entry of the referenced
    calendar) is decided exactly -/
theorem periodMatch_eq (d : Date) (p : Period) (h : ValidTuple d) (hw : WFPeriod p) :
    periodMatch d p = .ok (decide (DenotesPeriod p d)) := by
  cases p with
  | entry e => exact dateInEntry_eq d e h hw
  | ref l =>
    cases l with
    | none => exact absurd hw (by simp [WFPeriod])
    | some es => exact anyEntry_eq d es h hw
  | missing => exact absurd hw (by simp [WFPeriod])

end BacVerif.Sched
