/-
  Lemmas.IocbQueue — the per-destination queue of the IOCB layer:
  what a confirmation does to the queue object of its source address
  (released, trigger deferred, forgotten when empty) and what the deferred
  trigger does (the head of the queue becomes active and is sent).
-/
import BacVerif.Lemmas.IocbOnce
namespace BacVerif.Iocb
set_option linter.unusedSimpArgs false
set_option linter.unusedVariables false

theorem findQ_qid {l : List (Addr × Q)} {b : Nat} {q : Q} (hq : findQ l b = some q) : q.qid = b := by
  induction l with
  | nil => simp [findQ] at hq
  | cons x xs ih =>
    obtain ⟨a, y⟩ := x
    simp only [findQ] at hq
    split at hq
    · rename_i h; cases hq; exact h
    · exact ih hq

/-- in-place mutation of queue objects by a function that keeps the serial -/
theorem findQ_updQ (l : List (Addr × Q)) (a b : Nat) (f : Q → Q) (hf : ∀ x, (f x).qid = x.qid) :
    findQ (updQ l a f) b = (findQ l b).map (fun q => if q.qid = a then f q else q) := by
  induction l with
  | nil => rfl
  | cons x xs ih =>
    obtain ⟨ad, q⟩ := x
    have hc : updQ ((ad, q) :: xs) a f = (if q.qid = a then (ad, f q) else (ad, q)) :: updQ xs a f := rfl
    rw [hc]
    by_cases ha : q.qid = a
    · rw [if_pos ha]
      by_cases hb : q.qid = b
      · have hfb : (f q).qid = b := by rw [hf]; exact hb
        simp only [findQ, if_pos hfb, if_pos hb, Option.map_some, if_pos ha]
      · have hfb : ¬ (f q).qid = b := by rw [hf]; exact hb
        simp only [findQ, if_neg hfb, if_neg hb]
        exact ih
    · rw [if_neg ha]
      by_cases hb : q.qid = b
      · simp only [findQ, if_pos hb, Option.map_some, if_neg ha]
      · simp only [findQ, if_neg hb]
        exact ih

theorem lookupQ_delQ (l : List (Addr × Q)) (a : Addr) : lookupQ (delQ l a) a = none := by
  induction l with
  | nil => rfl
  | cons x xs ih =>
    obtain ⟨b, q⟩ := x
    show lookupQ (List.filter (fun x => decide (x.fst ≠ a)) ((b, q) :: xs)) a = none
    rw [List.filter_cons]
    by_cases hb : b = a
    · have : decide (b ≠ a) = false := by simp [hb]
      simp only [this, Bool.false_eq_true, if_false]
      exact ih
    · have : decide (b ≠ a) = true := by simp [hb]
      simp only [this, if_true, lookupQ, if_neg hb]
      exact ih

/-- the queues after an operation are the queues before, up to one IOCB
    having left the waiting list of one queue object -/
def QSame (l l' : List (Addr × Q)) : Prop :=
  l' = l ∨ ∃ a j, l' = updQ l a (fun x => { x with queue := removeId x.queue j })

theorem removeId_nil (j : Nat) : removeId [] j = [] := rfl

theorem QSame.find {l l' : List (Addr × Q)} (h : QSame l l') {b : Nat} {q : Q} (hq : findQ l b = some q) :
    ∃ q', findQ l' b = some q' ∧ q'.qid = q.qid ∧ q'.active = q.active ∧ q'.busy = q.busy ∧
      (q.queue = [] → q'.queue = []) := by
  rcases h with h | ⟨a, j, h⟩
  · subst h; exact ⟨q, hq, rfl, rfl, rfl, id⟩
  · subst h
    rw [findQ_updQ l a b (fun x => { x with queue := removeId x.queue j }) (fun _ => rfl), hq]
    simp only [Option.map_some]
    by_cases ha : q.qid = a
    · simp only [ha, if_true]
      exact ⟨_, rfl, rfl, rfl, rfl, fun h => by simp [h, removeId_nil]⟩
    · simp only [ha, if_false]
      exact ⟨q, rfl, rfl, rfl, rfl, id⟩

theorem fire_q (s : St) (j : Nat) :
    QSame s.queues (fire s j).1.queues ∧ (fire s j).1.deferred = s.deferred := by
  unfold fire
  split
  · exact ⟨Or.inl rfl, rfl⟩
  · dsimp only
    split
    · exact ⟨Or.inr ⟨_, _, rfl⟩, rfl⟩
    · exact ⟨Or.inl rfl, rfl⟩

theorem baseComplete_q (s : St) (j : Nat) (msg : Option Nat) :
    QSame s.queues (baseComplete s j msg).1.queues ∧ (baseComplete s j msg).1.deferred = s.deferred := by
  unfold baseComplete
  split
  · exact ⟨Or.inl rfl, rfl⟩
  · split
    · exact ⟨Or.inl rfl, rfl⟩
    · split
      · exact ⟨Or.inl rfl, rfl⟩
      · exact fire_q _ _

theorem baseAbort_q (s : St) (j err : Nat) :
    QSame s.queues (baseAbort s j err).1.queues ∧ (baseAbort s j err).1.deferred = s.deferred := by
  unfold baseAbort
  split
  · exact ⟨Or.inl rfl, rfl⟩
  · split
    · exact ⟨Or.inl rfl, rfl⟩
    · split
      · exact ⟨Or.inl rfl, rfl⟩
      · exact fire_q _ _

/-- after `release`: the queue object is idle without active IOCB, its trigger is deferred -/
theorem release_find {s : St} {b : Nat} {q : Q} (hq : findQ s.queues b = some q) :
    findQ (release s b).queues b = some { q with active := none, busy := false } ∧
    (release s b).deferred = s.deferred ++ [b] := by
  have hb : q.qid = b := findQ_qid hq
  refine ⟨?_, rfl⟩
  simp only [release]
  rw [findQ_updQ s.queues b b (fun x => { x with active := none, busy := false }) (fun _ => rfl), hq]
  simp [hb]

/-- what a confirmation (ack or error class) does to the queue object of its
    source address, `q`, whose active IOCB is `id` -/
theorem appComplete_released {s : St} {addr : Addr} {q : Q} {id : Nat} (kind : Conf) (msg : Option Nat)
    (hq : lookupQ s.queues addr = some q) (ha : q.active = some id) (hk : kind ≠ .other)
    (hfirst : findQ s.queues q.qid = some q) :
    q.qid ∈ (appComplete s addr kind msg).1.deferred ∧
    (q.queue = [] → lookupQ (appComplete s addr kind msg).1.queues addr = none) ∧
    (∀ q', findQ (appComplete s addr kind msg).1.queues q.qid = some q' →
        q'.active = none ∧ q'.busy = false) := by
  unfold appComplete
  rw [hq]
  simp only [ha]
  -- the state after complete_io / abort_io of the active IOCB: released
  have key : ∀ (s1 : St) (o : List Out), QSame s.queues s1.queues → s1.deferred = s.deferred →
      q.qid ∈ (match findQ (release s1 q.qid).queues q.qid with
        | none => (release s1 q.qid, o)
        | some q' => if (q'.queue.isEmpty && q'.active.isNone) = true then
            ({ release s1 q.qid with queues := delQ (release s1 q.qid).queues addr }, o)
          else (release s1 q.qid, o)).1.deferred ∧
      (q.queue = [] → lookupQ (match findQ (release s1 q.qid).queues q.qid with
        | none => (release s1 q.qid, o)
        | some q' => if (q'.queue.isEmpty && q'.active.isNone) = true then
            ({ release s1 q.qid with queues := delQ (release s1 q.qid).queues addr }, o)
          else (release s1 q.qid, o)).1.queues addr = none) ∧
      (∀ q'', findQ (match findQ (release s1 q.qid).queues q.qid with
        | none => (release s1 q.qid, o)
        | some q' => if (q'.queue.isEmpty && q'.active.isNone) = true then
            ({ release s1 q.qid with queues := delQ (release s1 q.qid).queues addr }, o)
          else (release s1 q.qid, o)).1.queues q.qid = some q'' → q''.active = none ∧ q''.busy = false) := by
    intro s1 o hsame hdef
    obtain ⟨q1, hq1, _, _, _, hempty⟩ := hsame.find hfirst
    obtain ⟨hr1, hr2⟩ := release_find hq1
    rw [hr1]
    dsimp only
    split
    · refine ⟨by simp [release], fun _ => lookupQ_delQ _ _, ?_⟩
      intro q'' hq''
      -- whatever is left under that serial after the deletion was released too
      have : ∀ (l : List (Addr × Q)) (x : Q), findQ (delQ l addr) q.qid = some x →
          (∀ a y, (a, y) ∈ l → y.qid = q.qid → y.active = none ∧ y.busy = false) →
          x.active = none ∧ x.busy = false := by
        intro l
        induction l with
        | nil => intro x hx; simp [delQ, findQ] at hx
        | cons z zs ih =>
          obtain ⟨a, y⟩ := z
          intro x hx hall
          simp only [delQ, List.filter] at hx ih
          by_cases haa : a = addr
          · simp only [haa, ne_eq, not_true_eq_false, decide_false] at hx
            exact ih x hx (fun a' y' hm => hall a' y' (List.mem_cons_of_mem _ hm))
          · simp only [haa, ne_eq, not_false_eq_true, decide_true, findQ] at hx
            split at hx
            · rename_i hy
              cases hx
              exact hall a y List.mem_cons_self hy
            · exact ih x hx (fun a' y' hm => hall a' y' (List.mem_cons_of_mem _ hm))
      apply this _ _ hq''
      intro a y hm hy
      simp only [release, updQ, List.mem_map] at hm
      obtain ⟨⟨a0, y0⟩, _, h0⟩ := hm
      dsimp only at h0
      split at h0
      · cases h0; exact ⟨rfl, rfl⟩
      · rename_i hne
        cases h0
        exact absurd hy hne
    · rename_i hne
      refine ⟨by simp [release], ?_, ?_⟩
      · intro he
        simp [hempty he] at hne
      · intro q'' hq''
        rw [hr1] at hq''
        cases hq''
        exact ⟨rfl, rfl⟩
  cases kind with
  | other => exact absurd rfl hk
  | ack =>
    dsimp only
    unfold qComplete
    obtain ⟨h1, h2⟩ := baseComplete_q s id msg
    exact key _ _ h1 h2
  | err =>
    dsimp only
    unfold qAbort
    obtain ⟨h1, h2⟩ := baseAbort_q s id (msg.getD 0)
    obtain ⟨q1, hq1, _, hact, _, _⟩ := h1.find hfirst
    dsimp only
    rw [hq1]
    simp only [hact, ha, ne_eq, not_true_eq_false, if_false]
    exact key _ _ h1 h2

/-- **the deferred trigger launches the head of the queue** -/
theorem trigger_launches {s : St} {qid : Nat} {q : Q} {p id : Nat} {rest : List (Nat × Nat)} {io : Iocb}
    (hq : findQ s.queues qid = some q) (hb : q.busy = false) (hqueue : q.queue = (p, id) :: rest)
    (hio : s.iocbs[id]? = some io) (hst : io.st = .pending) (hf : io.fails = false)
    (hu : io.unconf = false) :
    (trigger s qid).2 = [.sent id] ∧
    findQ (trigger s qid).1.queues qid = some { q with busy := true, active := some id, queue := rest } ∧
    (trigger s qid).1.iocbs[id]? = some { io with inq := none, st := .active } := by
  have hqq : q.qid = qid := findQ_qid hq
  have hio' : (updI s.iocbs id fun x => { x with inq := none })[id]? = some { io with inq := none } := by
    simp [getElem?_updI, hio]
  have hfq : findQ (updQ (updQ s.queues qid fun x => { x with queue := rest }) qid
      fun x => { x with busy := true, active := some id }) qid
      = some { q with busy := true, active := some id, queue := rest } := by
    rw [findQ_updQ _ qid qid (fun x => { x with busy := true, active := some id }) (fun _ => rfl),
      findQ_updQ _ qid qid (fun x => { x with queue := rest }) (fun _ => rfl), hq]
    simp [hqq]
  unfold trigger
  rw [hq]
  simp only [hb, hqueue, Bool.false_eq_true, if_false]
  unfold launch
  simp only [hio']
  simp [hst, hf, hu, hfq, getElem?_updI, hio]

end BacVerif.Iocb
