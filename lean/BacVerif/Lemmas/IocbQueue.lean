/-
  Lemmas.IocbQueue — the per-destination queue of the IOCB layer:
  what a confirmation does to the queue object of its source address
  (released, trigger deferred, forgotten when empty) and what the deferred
  trigger does (the head of the queue becomes active and is sent).
-/
import BacVerif.Lemmas.IocbOnce
import BacVerif.Lemmas.IocbInv
namespace BacVerif.Iocb
set_option linter.unusedSimpArgs false
set_option linter.unusedVariables false

theorem findQ_qid {l : List (Addr × Q)} {b : Nat} {q : Q} (hq : findQ l b = some q) : q.qid = b := by
  induction l with
  | nil => simp [findQ] at hq
  | cons x xs ih =>
    obtain ⟨a, y⟩ := x
    simp only [findQ] at hq
    split at hq
    · rename_i h; cases hq; exact h
    · exact ih hq

/-- in-place mutation of queue objects by a function that keeps the serial -/
theorem findQ_updQ (l : List (Addr × Q)) (a b : Nat) (f : Q → Q) (hf : ∀ x, (f x).qid = x.qid) :
    findQ (updQ l a f) b = (findQ l b).map (fun q => if q.qid = a then f q else q) := by
  induction l with
  | nil => rfl
  | cons x xs ih =>
    obtain ⟨ad, q⟩ := x
    have hc : updQ ((ad, q) :: xs) a f = (if q.qid = a then (ad, f q) else (ad, q)) :: updQ xs a f := rfl
    rw [hc]
    by_cases ha : q.qid = a
    · rw [if_pos ha]
      by_cases hb : q.qid = b
      · have hfb : (f q).qid = b := by rw [hf]; exact hb
        simp only [findQ, if_pos hfb, if_pos hb, Option.map_some, if_pos ha]
      · have hfb : ¬ (f q).qid = b := by rw [hf]; exact hb
        simp only [findQ, if_neg hfb, if_neg hb]
        exact ih
    · rw [if_neg ha]
      by_cases hb : q.qid = b
      · simp only [findQ, if_pos hb, Option.map_some, if_neg ha]
      · simp only [findQ, if_neg hb]
        exact ih

theorem lookupQ_delQ (l : List (Addr × Q)) (a : Addr) : lookupQ (delQ l a) a = none := by
  induction l with
  | nil => rfl
  | cons x xs ih =>
    obtain ⟨b, q⟩ := x
    show lookupQ (List.filter (fun x => decide (x.fst ≠ a)) ((b, q) :: xs)) a = none
    rw [List.filter_cons]
    by_cases hb : b = a
    · have : decide (b ≠ a) = false := by simp [hb]
      simp only [this, Bool.false_eq_true, if_false]
      exact ih
    · have : decide (b ≠ a) = true := by simp [hb]
      simp only [this, if_true, lookupQ, if_neg hb]
      exact ih

/-- after `release`: every queue object with that serial is idle without active IOCB -/
theorem release_entries (s : St) (a : Nat) :
    ∀ e ∈ (release s a).queues, e.2.qid = a → e.2.active = none ∧ e.2.busy = false := by
  intro e he hea
  simp only [release] at he
  obtain ⟨e0, _, rfl⟩ := mem_updQ he
  by_cases h0 : e0.2.qid = a
  · rw [if_pos h0]; exact ⟨rfl, rfl⟩
  · rw [if_neg h0] at hea; exact absurd hea h0

/-- what an ack-class confirmation does to the queue object `q` of its source
    address, whose active IOCB is `id` — for ANY callback behaviour that keeps
    the invariant (re-entrant submissions and aborts included): afterwards
      * its `_trigger` is deferred,
      * whatever object carries its serial is idle without active IOCB,
      * the address still maps to this object only if IOCBs are waiting in it
        (otherwise `del queue_by_address[addr]`: forgotten). -/
theorem appComplete_released {F : Cb} (hF : CbGood F) {x : Option Nat} {s : St} (hgood : Good x s)
    {addr : Addr} {q : Q} {id : Nat} (msg : Option Nat)
    (hq : lookupQ s.queues addr = some q) (ha : q.active = some id) :
    q.qid ∈ (appComplete F s addr .ack msg).1.deferred ∧
    (∀ q', findQ (appComplete F s addr .ack msg).1.queues q.qid = some q' →
        q'.active = none ∧ q'.busy = false) ∧
    (∀ q'', lookupQ (appComplete F s addr .ack msg).1.queues addr = some q'' → q''.qid = q.qid →
        q''.queue ≠ []) := by
  unfold appComplete
  rw [hq]
  simp only [ha]
  unfold qComplete
  have hg1 := baseComplete_good hF hgood id msg
  cases hbc : baseComplete F s id msg with
  | mk s1 o =>
  rw [hbc] at hg1
  dsimp only at hg1 ⊢
  have hg2 := release_good hg1 q.qid
  have hrel := release_entries s1 q.qid
  have hdef : q.qid ∈ (release s1 q.qid).deferred := by simp [release]
  cases hf : findQ (release s1 q.qid).queues q.qid with
  | none =>
    refine ⟨hdef, ?_, ?_⟩
    · intro q' hq'; rw [hf] at hq'; cases hq'
    · intro q'' hl hqq
      exact absurd hqq (findQ_none_iff.1 hf _ (mem_of_lookupQ hl))
  | some q1 =>
    obtain ⟨a1, hm1, hq1⟩ := mem_of_findQ hf
    have hq1r : q1.active = none ∧ q1.busy = false := hrel (a1, q1) hm1 hq1
    dsimp only
    split
    · refine ⟨hdef, ?_, ?_⟩
      · intro q' hq'
        obtain ⟨a', hm', hqq'⟩ := mem_of_findQ hq'
        exact hrel (a', q') (mem_delQ hm') hqq'
      · intro q'' hl _
        rw [lookupQ_delQ] at hl; cases hl
    · rename_i hne
      refine ⟨hdef, ?_, ?_⟩
      · intro q' hq'
        rw [hf] at hq'; cases hq'; exact hq1r
      · intro q'' hl hqq
        have : q'' = q1 := findQ_unique hg2.ub hf (mem_of_lookupQ hl) hqq
        subst this
        intro hempty
        apply hne
        simp [hempty, hq1r.1]

/-- **the deferred trigger launches the head of the queue** -/
theorem trigger_launches (F : Cb) {s : St} {qid : Nat} {q : Q} {p id : Nat} {rest : List (Nat × Nat)} {io : Iocb}
    (hq : findQ s.queues qid = some q) (hb : q.busy = false) (hqueue : q.queue = (p, id) :: rest)
    (hio : s.iocbs[id]? = some io) (hst : io.st = .pending) (hf : io.fails = false)
    (hu : io.unconf = false) :
    (trigger F s qid).2 = [.sent id] ∧
    findQ (trigger F s qid).1.queues qid = some { q with busy := true, active := some id, queue := rest } ∧
    (trigger F s qid).1.iocbs[id]? = some { io with inq := none, st := .active } := by
  have hqq : q.qid = qid := findQ_qid hq
  have hio' : (updI s.iocbs id fun x => { x with inq := none })[id]? = some { io with inq := none } := by
    simp [getElem?_updI, hio]
  have hfq : findQ (updQ (updQ s.queues qid fun x => { x with queue := rest }) qid
      fun x => { x with busy := true, active := some id }) qid
      = some { q with busy := true, active := some id, queue := rest } := by
    rw [findQ_updQ _ qid qid (fun x => { x with busy := true, active := some id }) (fun _ => rfl),
      findQ_updQ _ qid qid (fun x => { x with queue := rest }) (fun _ => rfl), hq]
    simp [hqq]
  unfold trigger
  rw [hq]
  simp only [hb, hqueue, Bool.false_eq_true, if_false]
  unfold launch
  simp only [hio']
  simp [hst, hf, hu, hfq, getElem?_updI, hio]

end BacVerif.Iocb
