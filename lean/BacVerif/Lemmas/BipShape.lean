/-
  Lemmas.BipShape — whatever a broadcast-carrying datagram causes, every PDU handed upward
  is the original payload, addressed to "broadcast", with the ORIGINATOR as source.
  No hypothesis on the topology or the tables.
-/
import BacVerif.Lemmas.BipStatic
namespace BacVerif.Bip

/-- the datagram carries the broadcast `data` of originator `o` -/
def Carries (o : Addr) (data : Data) (d : Dgram) : Prop :=
  d.msg = .forwarded o data ∨ (d.msg = .origBroadcast data ∧ d.src = o) ∨
  (d.msg = .distribute data ∧ d.src = o)

def OutsCarry (o : Addr) (data : Data) (l : List Out) : Prop :=
  ∀ out ∈ l, out = .up o .bcast data ∨ out = .warn ∨
    ∃ dd, dd ≠ .other ∧ out = .send dd (.forwarded o data)

theorem outsCarry_append {o : Addr} {data : Data} {a b : List Out}
    (ha : OutsCarry o data a) (hb : OutsCarry o data b) : OutsCarry o data (a ++ b) := by
  intro out ho
  rcases List.mem_append.1 ho with h | h
  · exact ha out h
  · exact hb out h

theorem outsCarry_nil (o : Addr) (data : Data) : OutsCarry o data [] := by
  intro out ho; cases ho

theorem outsCarry_toFdt (o : Addr) (data : Data) (fdt : List FdtEntry) :
    OutsCarry o data (toFdt fdt (.forwarded o data)) := by
  intro out ho
  simp only [toFdt, List.mem_map] at ho
  obtain ⟨f, _, rfl⟩ := ho
  exact Or.inr (Or.inr ⟨_, by simp, rfl⟩)

theorem outsCarry_toPeers (o : Addr) (data : Data) (b : Bbmd) :
    OutsCarry o data (toPeers b (.forwarded o data)) := by
  intro out ho
  simp only [toPeers, List.mem_map] at ho
  obtain ⟨f, _, rfl⟩ := ho
  exact Or.inr (Or.inr ⟨_, by simp, rfl⟩)

theorem outsCarry_toPeersAndSelf (o : Addr) (data : Data) (b : Bbmd) :
    OutsCarry o data (toPeersAndSelf b (.forwarded o data)) := by
  intro out ho
  simp only [toPeersAndSelf, List.mem_map] at ho
  obtain ⟨f, _, hf⟩ := ho
  split at hf
  · exact Or.inr (Or.inr ⟨.bcast, by simp, hf.symm⟩)
  · exact Or.inr (Or.inr ⟨_, by simp, hf.symm⟩)

theorem outsCarry_upIf (o : Addr) (data : Data) (b : Bbmd) :
    OutsCarry o data (upIf b (.up o .bcast data)) := by
  intro out ho
  unfold upIf at ho
  split at ho
  · simp at ho; exact Or.inl ho
  · cases ho

theorem up_carry_fwd (now : Nat) (k : Kind) (s o : Addr) (dd : Dest) (data : Data) :
    OutsCarry o data (k.up now s dd (.forwarded o data)).2 := by
  cases k with
  | simple => intro out ho; simp [Kind.up, simpleUp] at ho; exact Or.inl ho
  | foreign f =>
    intro out ho
    simp only [Kind.up, foreignUp] at ho
    split at ho
    · cases ho
    · split at ho
      · cases ho
      · simp at ho; exact Or.inl ho
  | bbmd b =>
    simp only [Kind.up, bbmdUp]
    refine outsCarry_append (outsCarry_append (outsCarry_upIf o data b) ?_) (outsCarry_toFdt o data _)
    intro out ho
    cases dd with
    | station _ =>
      simp only at ho
      split at ho
      · simp at ho; exact Or.inr (Or.inr ⟨.bcast, by simp, ho⟩)
      · cases ho
    | bcast => cases ho
    | other => simp at ho; exact Or.inr (Or.inl ho)

theorem up_carry_ob (now : Nat) (k : Kind) (o : Addr) (dd : Dest) (data : Data) :
    OutsCarry o data (k.up now o dd (.origBroadcast data)).2 := by
  cases k with
  | simple => intro out ho; simp [Kind.up, simpleUp] at ho; exact Or.inl ho
  | foreign f => intro out ho; simp [Kind.up, foreignUp] at ho
  | bbmd b =>
    simp only [Kind.up, bbmdUp]
    exact outsCarry_append (outsCarry_append (outsCarry_upIf o data b) (outsCarry_toPeers o data b))
      (outsCarry_toFdt o data _)

theorem up_carry_dist (now : Nat) (b : Bbmd) (o : Addr) (dd : Dest) (data : Data) :
    OutsCarry o data ((Kind.bbmd b).up now o dd (.distribute data)).2 := by
  simp only [Kind.up, bbmdUp]
  exact outsCarry_append (outsCarry_append (outsCarry_upIf o data b) (outsCarry_toPeersAndSelf o data b))
    (outsCarry_toFdt o data _)

theorem outObs_carry (o : Addr) (data : Data) (a : Addr) (l : List Out) (h : OutsCarry o data l) :
    ∀ ob ∈ outObs a l, ob = .up a o .bcast data := by
  induction l with
  | nil => intro ob hob; cases hob
  | cons out r ih =>
    have hr : OutsCarry o data r := fun x hx => h x (List.mem_cons_of_mem _ hx)
    intro ob hob
    rcases h out (List.mem_cons_self ..) with h1 | h1 | ⟨dd, hdd, h1⟩
    · subst h1
      simp only [outObs, List.mem_cons] at hob
      rcases hob with rfl | hob
      · rfl
      · exact ih hr ob hob
    · subst h1
      exact ih hr ob (by simpa [outObs] using hob)
    · subst h1
      cases dd with
      | other => exact absurd rfl hdd
      | bcast => exact ih hr ob (by simpa [outObs] using hob)
      | station _ => exact ih hr ob (by simpa [outObs] using hob)

theorem outDgrams_carry (o : Addr) (data : Data) (n : Net) (a : Addr) (l : List Out)
    (h : OutsCarry o data l) : ∀ d ∈ outDgrams n a l, d.msg = .forwarded o data := by
  induction l with
  | nil => intro d hd; cases hd
  | cons out r ih =>
    have hr : OutsCarry o data r := fun x hx => h x (List.mem_cons_of_mem _ hx)
    intro d hd
    rcases h out (List.mem_cons_self ..) with h1 | h1 | ⟨dd, hdd, h1⟩
    · subst h1; exact ih hr d (by simpa [outDgrams] using hd)
    · subst h1; exact ih hr d (by simpa [outDgrams] using hd)
    · subst h1
      cases dd with
      | other => exact absurd rfl hdd
      | bcast =>
        simp only [outDgrams, List.mem_cons] at hd
        rcases hd with rfl | hd
        · rfl
        · exact ih hr d hd
      | station _ =>
        simp only [outDgrams, List.mem_cons] at hd
        rcases hd with rfl | hd
        · rfl
        · exact ih hr d hd

/-- the reaction of any node hit by a Good carrying datagram -/
theorem react_carry (w : World) (o : Addr) (data : Data) (d : Dgram) (hg : Good w d)
    (hc : Carries o data d) (n : Net) (hn : n ∈ w.nets) (nd : Node) (hnd : nd ∈ n.nodes)
    (hh : hits n d nd.addr = true) :
    OutsCarry o data (nd.st.up w.now d.src (seenDst n d) d.msg).2 := by
  rcases hc with h | ⟨h, hs⟩ | ⟨h, hs⟩
  · rw [h]; exact up_carry_fwd _ _ _ _ _ _
  · rw [h, hs]; exact up_carry_ob _ _ _ _ _
  · rcases hg with hb | ⟨_, hnb, hb⟩
    · rw [h] at hb; simp [Bvll.isBc] at hb
    · have hne : d.dst ≠ n.bcast := hnb n hn
      have haddr : nd.addr = d.dst := by simpa [hits, hne] using hh
      have hk := hb n hn nd hnd haddr
      cases hst : nd.st with
      | bbmd b => rw [h, hs]; exact up_carry_dist _ _ _ _ _
      | simple => simp [hst, Kind.isBbmd] at hk
      | foreign f => simp [hst, Kind.isBbmd] at hk

/-- **true originator as source**: every observation of the run of a queue of Good datagrams
    carrying `(o, data)` is `data` handed up with source `o` and a broadcast destination -/
theorem runObs_shape (w : World) (o : Addr) (data : Data) (f : Nat) (q : List Dgram)
    (hq : ∀ d ∈ q, Good w d ∧ Carries o data d) :
    ∀ ob ∈ runObs f w q, ∃ a, ob = .up a o .bcast data := by
  refine mem_runObs (P := fun ob => ∃ a, ob = .up a o .bcast data) w
    (fun d => Good w d ∧ Carries o data d) ?_ f q hq
  intro d ⟨hg, hc⟩
  constructor
  · intro ob hob
    simp only [obsS, List.mem_flatMap] at hob
    obtain ⟨n, hn, hob⟩ := hob
    split at hob
    · simp only [netObs, List.mem_flatMap] at hob
      obtain ⟨nd, hnd, hob⟩ := hob
      unfold reactObs at hob
      split at hob
      · next hh =>
        exact ⟨nd.addr, outObs_carry o data nd.addr _ (react_carry w o data d hg hc n hn nd hnd hh) ob hob⟩
      · cases hob
    · cases hob
  · intro d' hd'
    refine ⟨outS_good w d hg d' hd', ?_⟩
    simp only [outS, List.mem_flatMap] at hd'
    obtain ⟨n, hn, hd'⟩ := hd'
    split at hd'
    · simp only [netOut, List.mem_append, List.mem_flatMap] at hd'
      rcases hd' with h | ⟨nd, hnd, h⟩
      · split at h
        · simp only [routerOuts, List.mem_map] at h
          obtain ⟨n', _, rfl⟩ := h
          exact hc
        · cases h
      · unfold reactOut at h
        split at h
        · next hh =>
          exact Or.inl (outDgrams_carry o data n nd.addr _ (react_carry w o data d hg hc n hn nd hnd hh) d' h)
        · cases h
    · cases hd'

end BacVerif.Bip
