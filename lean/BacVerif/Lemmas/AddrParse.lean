/-
  Lemmas.AddrParse — how the recogniser of Model.Addr evaluates on texts of
  each notation (any digit strings / hex strings, not only printed ones).
-/
import BacVerif.Lemmas.AddrScan
namespace BacVerif.Addr
open BacVerif

theorem isDig_star : isDig '*' = false := by decide
theorem isDig_dot : isDig '.' = false := by decide
theorem isDig_colon : isDig ':' = false := by decide
theorem isDig_slash : isDig '/' = false := by decide
theorem isDig_x : isDig 'x' = false := by decide
theorem isDig_X : isDig 'X' = false := by decide

theorem head_isDig {c : Char} {t : List Char} (h : allDigits (c :: t) = true) : isDig c = true := by
  simp [allDigits] at h; exact h.1

theorem ne_star_of_isDig {c : Char} (h : isDig c = true) : c ≠ '*' := by
  intro e; subst e; simp [isDig_star] at h

/-! ## bodies -/

theorem matchBody_star : matchBody ['*'] = some .star := by decide

theorem matchBody_dec (ds : List Char) (hne : ds ≠ []) (hd : allDigits ds = true) :
    matchBody ds = some (.dec ds) := by
  have h1 : ds ≠ ['*'] := by intro e; subst e; revert hd; decide
  simp [matchBody, h1, digits_self ds hd, hne]

theorem digits_0x (hs : List Char) : digits ('0' :: 'x' :: hs) = (['0'], 'x' :: hs) := by
  have h0 : isDig '0' = true := by decide
  simp [digits, h0, isDig_x]

theorem matchBody_hex (hs : List Char) (bs : Bytes) (h : hexBytes hs = some bs) (hne : bs ≠ []) :
    matchBody ('0' :: 'x' :: hs) = some (.hex bs) := by
  have h1 : ('0' :: 'x' :: hs) ≠ ['*'] := by simp
  cases bs with
  | nil => exact absurd rfl hne
  | cons b r => simp [matchBody, digits_0x, h]

/-- an optional `SEP digits` group -/
def optSuffix (sep : Char) : Option (List Char) → List Char
  | none => []
  | some ds => sep :: ds

/-- the optional group, when present, is a non-empty digit string -/
def optDigits : Option (List Char) → Bool
  | none => true
  | some ds => !ds.isEmpty && allDigits ds

/-- the text of IPMP -/
def ipText (a b c d : List Char) (mask port : Option (List Char)) : List Char :=
  a ++ '.' :: (b ++ '.' :: (c ++ '.' :: (d ++ (optSuffix '/' mask ++ optSuffix ':' port))))

theorem optNum_colon (port : Option (List Char)) (hp : optDigits port = true) :
    optNum ':' (optSuffix ':' port) = some (port, []) := by
  cases port with
  | none => rfl
  | some ds =>
    simp [optDigits] at hp
    simp [optSuffix, optNum, digits_self ds hp.2, hp.1]

theorem noDigHead_colon (port : Option (List Char)) : noDigHead (optSuffix ':' port) = true := by
  cases port <;> simp [optSuffix, noDigHead, isDig_colon]

theorem noDigHead_tail (mask port : Option (List Char)) :
    noDigHead (optSuffix '/' mask ++ optSuffix ':' port) = true := by
  cases mask with
  | none => simpa [optSuffix] using noDigHead_colon port
  | some ms => simp [optSuffix, noDigHead, isDig_slash]

theorem optNum_slash (mask port : Option (List Char)) (hm : optDigits mask = true) :
    optNum '/' (optSuffix '/' mask ++ optSuffix ':' port) = some (mask, optSuffix ':' port) := by
  cases mask with
  | none =>
    cases port with
    | none => rfl
    | some ps => simp [optSuffix, optNum]
  | some ms =>
    simp [optDigits] at hm
    have e := digits_append ms (optSuffix ':' port) hm.2 (noDigHead_colon port)
    show optNum '/' ('/' :: (ms ++ optSuffix ':' port)) = _
    simp [optNum, e, hm.1]

theorem matchBody_ip (a b c d : List Char) (mask port : Option (List Char))
    (ha : a ≠ [] ∧ allDigits a = true) (hb : b ≠ [] ∧ allDigits b = true)
    (hc : c ≠ [] ∧ allDigits c = true) (hd : d ≠ [] ∧ allDigits d = true)
    (hm : optDigits mask = true) (hp : optDigits port = true) :
    matchBody (ipText a b c d mask port) = some (.ip a b c d mask port) := by
  have hdot : ∀ r, noDigHead ('.' :: r) = true := by intro r; simp [noDigHead, isDig_dot]
  have h1 : ipText a b c d mask port ≠ ['*'] := by
    obtain ⟨hne, hall⟩ := ha
    cases a with
    | nil => exact absurd rfl hne
    | cons x t =>
      have := ne_star_of_isDig (head_isDig hall)
      simp [ipText, this]
  unfold matchBody
  rw [if_neg h1]
  have e1 : digits (ipText a b c d mask port) = (a, '.' :: (b ++ '.' :: (c ++ '.' :: (d ++
      (optSuffix '/' mask ++ optSuffix ':' port))))) := digits_append _ _ ha.2 (hdot _)
  simp only [e1, if_neg ha.1]
  unfold matchIPTail
  have e2 := digits_append b ('.' :: (c ++ '.' :: (d ++ (optSuffix '/' mask ++ optSuffix ':' port))))
    hb.2 (hdot _)
  have e3 := digits_append c ('.' :: (d ++ (optSuffix '/' mask ++ optSuffix ':' port))) hc.2 (hdot _)
  have e4 := digits_append d (optSuffix '/' mask ++ optSuffix ':' port) hd.2 (noDigHead_tail mask port)
  simp only [e2, e3, e4, optNum_slash mask port hm, optNum_colon port hp]
  simp [hb.1, hc.1, hd.1]

/-! ## prefixes -/

theorem matchCombined_plain (s : List Char) (b : Body) (hb : matchBody s = some b)
    (h1 : ∀ r, s ≠ '*' :: ':' :: r) (h2 : ∀ r, (digits s).2 ≠ ':' :: r) :
    matchCombined s = some (.none, b) := by
  unfold matchCombined
  split
  · exact absurd rfl (h1 _)
  · split
    · rename_i _ _ _ heq; exact absurd heq (h2 _)
    · simp [hb]

theorem matchCombined_net (ns r : List Char) (b : Option Body) (hne : ns ≠ [])
    (hd : allDigits ns = true) (hb : matchBody r = b) :
    matchCombined (ns ++ ':' :: r) = b.map (fun b => (Pfx.net ns, b)) := by
  cases ns with
  | nil => exact absurd rfl hne
  | cons c t =>
    have hc := ne_star_of_isDig (head_isDig hd)
    have e := digits_append (c :: t) (':' :: r) hd (by simp [noDigHead, isDig_colon])
    unfold matchCombined
    split
    · rename_i r' heq
      simp at heq
      exact absurd heq.1 hc
    · simp only [e]
      simp [hb]

/-! ## the whole string -/

theorem parse_of_combined (s : List Char) (pb : Pfx × Body) (h1 : s ≠ ['*'])
    (h2 : s ≠ ['*', ':', '*']) (hnl : noNl s = true) (hc : matchCombined s = some pb) :
    parse s = interp pb := by
  simp [parse, h1, h2, stripNl_id s hnl, hc]

theorem net_text_ne (ns r : List Char) (hne : ns ≠ []) (hd : allDigits ns = true) :
    ns ++ ':' :: r ≠ ['*'] ∧ ns ++ ':' :: r ≠ ['*', ':', '*'] := by
  cases ns with
  | nil => exact absurd rfl hne
  | cons c t =>
    have hc := ne_star_of_isDig (head_isDig hd)
    constructor <;> simp [hc]

/-- `net:BODY` -/
theorem parse_net (ns r : List Char) (b : Body) (hne : ns ≠ []) (hd : allDigits ns = true)
    (hnl : noNl r = true) (hb : matchBody r = some b) :
    parse (ns ++ ':' :: r) = interp (.net ns, b) := by
  obtain ⟨h1, h2⟩ := net_text_ne ns r hne hd
  have hc := matchCombined_net ns r (some b) hne hd hb
  apply parse_of_combined _ _ h1 h2 _ hc
  simp [noNl_append, noNl_cons, noNl_of_allDigits ns hd, hnl]

/-- a bare BODY -/
theorem parse_plain (s : List Char) (b : Body) (hs : s ≠ ['*']) (hnl : noNl s = true)
    (hb : matchBody s = some b) (h1 : ∀ r, s ≠ '*' :: ':' :: r)
    (h2 : ∀ r, (digits s).2 ≠ ':' :: r) :
    parse s = interp (.none, b) := by
  have hc := matchCombined_plain s b hb h1 h2
  apply parse_of_combined _ _ hs _ hnl hc
  intro e; exact h1 _ e

end BacVerif.Addr
