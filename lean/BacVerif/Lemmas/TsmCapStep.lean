/-
  Lemmas.TsmCapStep — the capability invariant `CapInv` (every listed server
  transaction satisfies `SrvCap`, every listed client transaction `CliCap`) is
  preserved by every entry point of the access point, and every frame an entry
  point emits satisfies `SendOk`.
-/
import BacVerif.Lemmas.TsmCap
namespace BacVerif.Tsm
set_option linter.unusedSimpArgs false
set_option linter.unusedVariables false
variable {cfg : Cfg}

structure CapInv (cfg : Cfg) (s : Sap) : Prop where
  srv : ∀ t ∈ s.servers, SrvCap cfg t.body
  cli : ∀ t ∈ s.clients, CliCap cfg t.body

theorem CapInv.init : CapInv cfg Sap.init := ⟨by simp [Sap.init], by simp [Sap.init]⟩

/-- what C12 says about one frame `a` sent toward peer `p` by a step `s → s'` -/
def SendOk (cfg : Cfg) (s s' : Sap) (p : Peer) (a : Apdu) : Prop :=
  Control a ∨ a.ty = 1 ∨
  (a.ty = 3 ∧ ∃ t ∈ s.servers, t.key = ⟨p, a.invokeId⟩ ∧ a.wireLen ≤ t.body.maxApdu ∧
     (a.seg = true → t.body.sra = true ∧ cfg.seg.canTx = true ∧
        ∀ n, t.body.maxSegs = some n → a.seq < n)) ∨
  (a.ty = 0 ∧ ∃ t ∈ s'.clients, t.key = ⟨p, a.invokeId⟩ ∧ a.wireLen ≤ cutMax t.body)

def AllOk (cfg : Cfg) (s s' : Sap) (outs : List Out) : Prop :=
  ∀ p a, Out.send p a ∈ outs → SendOk cfg s s' p a

theorem mem_updFirst_self {k : Key} {l : List Txn} {t : Txn} {b1 : Body}
    (h : findTxn k l = some t) : Txn.mk t.key b1 ∈ updFirst k (some b1) l := by
  induction l with
  | nil => simp [findTxn] at h
  | cons x xs ih =>
    simp only [findTxn] at h
    simp only [updFirst]
    split at h
    · rename_i hx
      have := Option.some.inj h
      subst this
      simp [hx]
    · rename_i hx
      simp only [hx]
      exact List.mem_cons_of_mem _ (ih h)

theorem CapInv.updServer {s : Sap} (h : CapInv cfg s) {k : Key} {r : Option Body}
    (hr : ∀ b', r = some b' → SrvCap cfg b') :
    CapInv cfg { s with servers := updFirst k r s.servers } := by
  refine ⟨?_, h.cli⟩
  intro t' ht'
  rcases mem_updFirst ht' with h' | ⟨b', hb', _, hbody⟩
  · exact h.srv t' h'
  · rw [hbody]; exact hr b' hb'

theorem CapInv.updClient {s : Sap} (h : CapInv cfg s) {k : Key} {r : Option Body}
    (hr : ∀ b', r = some b' → CliCap cfg b') :
    CapInv cfg { s with clients := updFirst k r s.clients } := by
  refine ⟨h.srv, ?_⟩
  intro t' ht'
  rcases mem_updFirst ht' with h' | ⟨b', hb', _, hbody⟩
  · exact h.cli t' h'
  · rw [hbody]; exact hr b' hb'

theorem CapInv.congr {s s' : Sap} (h : CapInv cfg s) (h2 : s'.clients = s.clients)
    (h3 : s'.servers = s.servers) : CapInv cfg s' :=
  ⟨by rw [h3]; exact h.srv, by rw [h2]; exact h.cli⟩

/-- frames of a server handler for the found transaction `t` -/
theorem allOk_of_srv {s s' : Sap} {t : Txn} {outs : List Out} (hmem : t ∈ s.servers)
    (hattr : AllAttr t.key outs) (hs : AllSend (SrvSend cfg t.body) outs) : AllOk cfg s s' outs := by
  intro p a ha
  obtain ⟨hp, hi⟩ := hattr _ ha
  rcases hs p a ha with hc | ⟨h3, hlen, hseg⟩
  · exact Or.inl hc
  · refine Or.inr (Or.inr (Or.inl ⟨h3, t, hmem, ?_, hlen, hseg⟩))
    cases hk : t.key
    rw [hk] at hp hi
    simp_all

/-- frames of a client handler whose surviving body (if any) is listed in `s'` under key `k` -/
theorem allOk_of_cli {s s' : Sap} {k : Key} {r : Option Body} {outs : List Out}
    (hattr : AllAttr k outs) (hs : AllSend (CliSend cfg r) outs)
    (hmem : ∀ b1, r = some b1 → Txn.mk k b1 ∈ s'.clients) : AllOk cfg s s' outs := by
  intro p a ha
  obtain ⟨hp, hi⟩ := hattr _ ha
  rcases hs p a ha with hc | ⟨h0, b1, hb1, hlen⟩
  · exact Or.inl hc
  · refine Or.inr (Or.inr (Or.inr ⟨h0, _, hmem b1 hb1, ?_, hlen⟩))
    cases k
    simp_all

theorem AllOk.nil (s s' : Sap) : AllOk cfg s s' [] := by intro p a h; cases h

theorem AllOk.control {s s' : Sap} {outs : List Out} (h : AllSend Control outs) : AllOk cfg s s' outs :=
  fun p a ha => Or.inl (h p a ha)

/-! ### entry points -/

theorem toClient_cap {s : Sap} (hinv : Inv s) (hcap : CapInv cfg s) {k : Key} {a : Apdu}
    (hid : a.invokeId = k.id) :
    CapInv cfg (toClient cfg s k a).1 ∧ AllOk cfg s (toClient cfg s k a).1 (toClient cfg s k a).2 := by
  unfold toClient
  cases hf : findTxn k s.clients with
  | none => exact ⟨hcap, AllOk.nil _ _⟩
  | some t =>
    obtain ⟨hmem, hkey⟩ := findTxn_some hf
    have hok := hinv.cOk t hmem
    have hc := hcap.cli t hmem
    subst hkey
    refine ⟨?_, ?_⟩
    · apply hcap.updClient
      intro b' hb'
      exact (clientConfirmation_body hc (Prod.ext hb' rfl)).1
    · apply allOk_of_cli (k := t.key) (clientConfirmation_attr hok hid) (clientConfirmation_sends hc)
      intro b1 hb1
      show _ ∈ updFirst _ _ _
      rw [hb1]
      exact mem_updFirst_self hf

theorem toServer_cap {s : Sap} (hinv : Inv s) (hcap : CapInv cfg s) {k : Key} {a : Apdu}
    (hid : a.invokeId = k.id) (ha : FrameOk a) :
    CapInv cfg (toServer cfg s k a).1 ∧ AllOk cfg s (toServer cfg s k a).1 (toServer cfg s k a).2 := by
  unfold toServer
  cases hf : findTxn k s.servers with
  | none => exact ⟨hcap, AllOk.nil _ _⟩
  | some t =>
    obtain ⟨hmem, hkey⟩ := findTxn_some hf
    have hok := hinv.sOk t hmem
    have hc := hcap.srv t hmem
    subst hkey
    refine ⟨?_, ?_⟩
    · apply hcap.updServer
      intro b' hb'
      exact (serverIndication_body hc (Prod.ext hb' rfl)).1
    · exact allOk_of_srv hmem (serverIndication_attr hok hid) (serverIndication_sends hc ha)

theorem smapResponse_cap {s : Sap} (hinv : Inv s) (hcap : CapInv cfg s) (peer : Peer) {a : Apdu}
    (ha : RespOk a) :
    CapInv cfg (smapResponse cfg s peer a).1 ∧
    AllOk cfg s (smapResponse cfg s peer a).1 (smapResponse cfg s peer a).2 := by
  unfold smapResponse
  split
  · dsimp only
    cases hf : findTxn ⟨peer, a.invokeId⟩ s.servers with
    | none => exact ⟨hcap, AllOk.nil _ _⟩
    | some t =>
      obtain ⟨hmem, hkey⟩ := findTxn_some hf
      have hc := hcap.srv t hmem
      have hid : a.invokeId = t.key.id := by rw [hkey]
      dsimp only
      refine ⟨?_, ?_⟩
      · apply hcap.updServer
        intro b' hb'
        exact (serverConfirmation_body hc (Prod.ext hb' rfl)).1
      · exact allOk_of_srv hmem (serverConfirmation_attr hid) (serverConfirmation_sends ha)
  · refine ⟨hcap, ?_⟩
    intro p x hx
    simp at hx

theorem serverCreate_cap {s : Sap} (hcap : CapInv cfg s) {k : Key} {a : Apdu} :
    CapInv cfg (serverCreate cfg s k a).1 ∧
    AllOk cfg s (serverCreate cfg s k a).1 (serverCreate cfg s k a).2 := by
  unfold serverCreate
  dsimp only
  generalize promote a.sa (heldDI s k (newBody cfg s k.peer)) = di
  have hc1 : CapInv cfg (s.withDI k.peer di) := hcap.congr (by simp) (by simp)
  have hsend := serverIdle_sends (cfg := cfg) (now := s.now) (di := di) (k := k)
    (b := newBody cfg s k.peer) (a := a)
  cases hidle : serverIdle cfg s.now di k (newBody cfg s k.peer) a with
  | mk r outs =>
    rw [hidle] at hsend
    cases r with
    | none => exact ⟨hc1, AllOk.control hsend⟩
    | some b' =>
      have hb := (serverIdle_body hidle).1
      refine ⟨⟨?_, ?_⟩, AllOk.control hsend⟩
      · intro t ht
        simp only [withDI_servers, List.mem_append, List.mem_singleton] at ht
        rcases ht with ht | ht
        · exact hcap.srv t ht
        · subst ht; exact hb
      · intro t ht
        simp only [withDI_clients] at ht
        exact hcap.cli t ht

theorem clientCreate_cap {s : Sap} (hcap : CapInv cfg s) {k : Key} (service : Nat) (data : Bytes) :
    CapInv cfg (clientCreate cfg s k service data).1 ∧
    AllOk cfg s (clientCreate cfg s k service data).1 (clientCreate cfg s k service data).2 := by
  unfold clientCreate
  dsimp only
  have hty : ({ ty := 0, service := service, invokeId := k.id, data := data } : Apdu).ty = 0 := rfl
  have hattr := clientIndication_attr (cfg := cfg) (now := s.now)
    (di := heldDI s k (newBody cfg s k.peer)) (k := k) (b := newBody cfg s k.peer)
    (req := { ty := 0, service := service, invokeId := k.id, data := data }) rfl
  cases hind : clientIndication cfg s.now (heldDI s k (newBody cfg s k.peer)) k
      (newBody cfg s k.peer) { ty := 0, service := service, invokeId := k.id, data := data } with
  | mk r outs =>
    have hsend := clientIndication_sends' hty hind
    rw [hind] at hattr
    cases r with
    | none =>
      refine ⟨hcap, allOk_of_cli (k := k) hattr hsend ?_⟩
      intro b1 hb1; cases hb1
    | some b' =>
      have hb := (clientIndication_body hty hind).1
      refine ⟨⟨hcap.srv, ?_⟩, allOk_of_cli (k := k) hattr hsend ?_⟩
      · intro t ht
        simp only [List.mem_append, List.mem_singleton] at ht
        rcases ht with ht | ht
        · exact hcap.cli t ht
        · subst ht; exact hb
      · intro b1 hb1
        simp only [Option.some.injEq] at hb1
        subst hb1
        simp

theorem smapConfirmation_cap {s : Sap} (hinv : Inv s) (hcap : CapInv cfg s) (peer : Peer) {a : Apdu}
    (ha : FrameOk a) :
    CapInv cfg (smapConfirmation cfg s peer a).1 ∧
    AllOk cfg s (smapConfirmation cfg s peer a).1 (smapConfirmation cfg s peer a).2 := by
  have hC := toClient_cap hinv hcap (k := ⟨peer, a.invokeId⟩) (a := a) rfl
  have hS := toServer_cap hinv hcap (k := ⟨peer, a.invokeId⟩) (a := a) rfl ha
  unfold smapConfirmation
  split
  · exact ⟨hcap, AllOk.nil _ _⟩
  · dsimp only
    split
    · cases hf : findTxn ⟨peer, a.invokeId⟩ s.servers with
      | some t =>
        obtain ⟨hmem, hkey⟩ := findTxn_some hf
        have hok := hinv.sOk t hmem
        have hc := hcap.srv t hmem
        have hid : a.invokeId = t.key.id := by rw [hkey]
        dsimp only
        refine ⟨?_, ?_⟩
        · apply hcap.updServer
          intro b' hb'
          exact (serverIndication_body hc (Prod.ext hb' rfl)).1
        · exact allOk_of_srv hmem (serverIndication_attr hok hid) (serverIndication_sends hc ha)
      | none => exact serverCreate_cap hcap
    · refine ⟨hcap, ?_⟩
      intro p x hx
      simp at hx
    · exact hC
    · exact hC
    · exact hC
    · exact hC
    · split
      · exact hC
      · exact hS
    · split
      · exact hC
      · exact hS
    · exact ⟨hcap, AllOk.nil _ _⟩

theorem smapTimeout_cap {s : Sap} (hinv : Inv s) (hcap : CapInv cfg s) (srv : Bool) (k : Key) :
    CapInv cfg (smapTimeout cfg s srv k).1 ∧
    AllOk cfg s (smapTimeout cfg s srv k).1 (smapTimeout cfg s srv k).2 := by
  unfold smapTimeout
  cases hf : findTxn k (if srv = true then s.servers else s.clients) with
  | none => exact ⟨hcap, AllOk.nil _ _⟩
  | some t =>
    dsimp only
    split
    · exact ⟨hcap, AllOk.nil _ _⟩
    · split
      · cases srv with
        | true =>
          simp only [if_true] at hf ⊢
          obtain ⟨hmem, hkey⟩ := findTxn_some hf
          obtain ⟨hst, _, hctx⟩ := hinv.sOk t hmem
          have hc : SrvCap cfg { t.body with timer := none } := hcap.srv t hmem
          subst hkey
          refine ⟨?_, ?_⟩
          · apply hcap.updServer
            intro b' hb'
            exact (serverTimeout_body hc (Prod.ext hb' rfl)).1
          · exact allOk_of_srv hmem (serverTimeout_attr (b := { t.body with timer := none }) hctx)
              (serverTimeout_sends hc)
        | false =>
          simp only [Bool.false_eq_true, if_false] at hf ⊢
          obtain ⟨hmem, hkey⟩ := findTxn_some hf
          obtain ⟨hst, _, hctx⟩ := hinv.cOk t hmem
          have hc : CliCap cfg { t.body with timer := none } := hcap.cli t hmem
          subst hkey
          refine ⟨?_, ?_⟩
          · apply hcap.updClient
            intro b' hb'
            exact clientTimeout_body hc (Prod.ext hb' rfl)
          · apply allOk_of_cli (k := t.key)
              (clientTimeout_attr (b := { t.body with timer := none }) hctx) (clientTimeout_sends hc)
            intro b1 hb1
            show _ ∈ updFirst _ _ _
            rw [hb1]
            exact mem_updFirst_self hf
      · exact ⟨hcap, AllOk.nil _ _⟩

theorem smapRequest_cap {s : Sap} (hcap : CapInv cfg s) (peer : Peer) (service : Nat) (data : Bytes)
    (chosen : Option Nat) :
    CapInv cfg (smapRequest cfg s peer service data chosen).1 ∧
    AllOk cfg s (smapRequest cfg s peer service data chosen).1
      (smapRequest cfg s peer service data chosen).2 := by
  unfold smapRequest
  split
  · exact ⟨hcap, AllOk.nil _ _⟩
  · cases chosen with
    | some id =>
      dsimp only
      split
      · refine ⟨hcap, ?_⟩
        intro p x hx; simp at hx
      · exact clientCreate_cap hcap service data
    | none =>
      dsimp only
      split
      · refine ⟨hcap.congr rfl rfl, ?_⟩
        intro p x hx; simp at hx
      · rename_i id next _
        have hc1 : CapInv cfg { s with nextId := next } := hcap.congr rfl rfl
        have := clientCreate_cap hc1 (k := ⟨peer, id⟩) service data
        exact ⟨this.1, fun p a ha => this.2 p a ha⟩

/-! ### the ASAP pass -/

theorem respOk_reject (i r : Nat) : RespOk { ty := 6, invokeId := i, reason := r } := by
  simp [RespOk, Apdu.wireLen, Apdu.hdrLen]
theorem respOk_abort (i r : Nat) : RespOk { ty := 7, invokeId := i, reason := r } := by
  simp [RespOk, Apdu.wireLen, Apdu.hdrLen]

theorem serverConfirmation_control {now : Nat} {npdu : Option Nat} {k : Key} {b : Body} {a : Apdu}
    (h3 : a.ty ≠ 3) (ha : RespOk a) : AllSend Control (serverConfirmation cfg now npdu k b a).2 := by
  unfold serverConfirmation
  split
  · rename_i h7
    simp only [AllSend_cons_send, AllSend_nil, and_true]
    exact ⟨by omega, by omega, h3, ha.1 h3⟩
  · split
    · rename_i h256
      simp only [Bool.or_eq_true, decide_eq_true_eq] at h256
      simp only [AllSend_cons_send, AllSend_nil, and_true]
      exact ⟨by omega, by omega, h3, ha.1 h3⟩
    · first
        | (simp; done)
        | (split
           · rename_i hx3; exact absurd hx3 h3
           · simp)

/-- the frames the ASAP feedback (reject / abort of an undecodable request)
    adds are control frames; frames already emitted pass through unchanged -/
theorem asapUp_cap (hpos : cfg.TimeoutsPos) {s : Sap} (hinv : Inv s) (hcap : CapInv cfg s) (o : Out) :
    CapInv cfg (asapUp cfg s o).1 ∧
    ∀ p a, Out.send p a ∈ (asapUp cfg s o).2 → o = .send p a ∨ Control a := by
  have hctl : ∀ peer (x : Apdu), RespOk x → x.ty ≠ 3 →
      CapInv cfg (smapResponse cfg s peer x).1 ∧
      ∀ p a, Out.send p a ∈ (smapResponse cfg s peer x).2 → o = .send p a ∨ Control a := by
    intro peer x hx h3
    have h := smapResponse_cap hinv hcap peer hx
    refine ⟨h.1, ?_⟩
    intro p a ha
    right
    -- every frame of a non-ComplexAck answer is a control frame
    have hall : AllSend Control (smapResponse cfg s peer x).2 := by
      unfold smapResponse
      split
      · dsimp only
        split
        · simp
        · exact serverConfirmation_control h3 hx
      · simp
    exact hall p a ha
  cases o with
  | indicate peer a =>
    unfold asapUp
    dsimp only
    split
    · split
      · exact ⟨hcap, fun p x hx => by simp at hx⟩
      · exact hctl peer _ (respOk_reject _ _) (by simp)
      · exact hctl peer _ (respOk_abort _ _) (by simp)
    · split
      · split
        · exact ⟨hcap, fun p x hx => by simp at hx⟩
        · exact ⟨hcap, fun p x hx => by simp at hx⟩
      · exact ⟨hcap, fun p x hx => by simp at hx⟩
  | confirm peer a =>
    unfold asapUp
    dsimp only
    gsplit
    all_goals exact ⟨hcap, fun p x hx => by simp at hx⟩
  | send peer a =>
    refine ⟨hcap, ?_⟩
    intro p x hx
    left
    simp only [asapUp, List.mem_singleton] at hx
    exact hx.symm
  | confirmAnon c e => exact ⟨hcap, fun p x hx => by simp [asapUp] at hx⟩
  | raised r => exact ⟨hcap, fun p x hx => by simp [asapUp] at hx⟩

theorem asapPass_cap (hpos : cfg.TimeoutsPos) {k : Key} :
    ∀ (outs : List Out) {s : Sap}, Inv s → CapInv cfg s → AllAttr k outs →
      CapInv cfg (asapPass cfg s outs).1 ∧
      ∀ p a, Out.send p a ∈ (asapPass cfg s outs).2 → Out.send p a ∈ outs ∨ Control a := by
  intro outs
  induction outs with
  | nil =>
    intro s _ hcap _
    exact ⟨hcap, fun p a h => by simp [asapPass] at h⟩
  | cons o os ih =>
    intro s hinv hcap hall
    have ho := (AllAttr_cons k o os).1 hall
    have h1 := asapUp_cap hpos hinv hcap o
    have hi1 := (asapUp_spec (cfg := cfg) hpos hinv ho.1).1.inv
    have h2 := ih hi1 h1.1 ho.2
    simp only [asapPass]
    refine ⟨h2.1, ?_⟩
    intro p a ha
    simp only [List.mem_append] at ha
    rcases ha with ha | ha
    · rcases h1.2 p a ha with h | h
      · left; rw [h]; exact List.mem_cons_self
      · exact Or.inr h
    · rcases h2.2 p a ha with h | h
      · left; exact List.mem_cons_of_mem _ h
      · exact Or.inr h

end BacVerif.Tsm
