/-
  Lemmas.DeviceQuiesce — draining the transaction timers terminates with an
  empty server list: `fire_spec` (one expiry keeps the invariant, never asks the
  application, and costs budget: SEGMENTED_REQUEST and AWAIT_RESPONSE end at
  their first timeout, SEGMENTED_RESPONSE after at most `retries` more
  retransmissions), `quiesceLoop_done`, `quiesce_done`.
-/
import BacVerif.Lemmas.DeviceInv
namespace BacVerif.Device
open BacVerif BacVerif.Tsm
set_option linter.unusedSimpArgs false

/-! ### the next deadline -/

theorem nextDue_none {l : List Txn} (h : nextDue l = none) : ∀ t ∈ l, t.body.timer = none := by
  induction l with
  | nil => intro t ht; cases ht
  | cons x xs ih =>
    simp only [nextDue] at h
    cases hx : x.body.timer with
    | none =>
      cases hr : nextDue xs with
      | none =>
        intro t hmem
        rcases List.mem_cons.1 hmem with rfl | hm
        · exact hx
        · exact ih hr t hm
      | some kd => rw [hx, hr] at h; cases h
    | some d =>
      cases hr : nextDue xs with
      | none => rw [hx, hr] at h; cases h
      | some kd =>
        obtain ⟨k', d'⟩ := kd
        rw [hx, hr] at h
        dsimp only at h
        split at h <;> cases h

theorem nextDue_some {l : List Txn} {k : Key} {d : Nat} (h : nextDue l = some (k, d)) :
    ∃ t ∈ l, t.key = k ∧ t.body.timer = some d := by
  induction l generalizing k d with
  | nil => simp [nextDue] at h
  | cons x xs ih =>
    simp only [nextDue] at h
    cases hx : x.body.timer with
    | none =>
      rw [hx] at h
      dsimp only at h
      obtain ⟨t, htm, hk, hd⟩ := ih h
      exact ⟨t, List.mem_cons_of_mem _ htm, hk, hd⟩
    | some d0 =>
      cases hr : nextDue xs with
      | none =>
        rw [hx, hr] at h
        simp only [Option.some.injEq, Prod.mk.injEq] at h
        exact ⟨x, List.mem_cons_self, h.1, by rw [hx, h.2]⟩
      | some kd =>
        obtain ⟨k', d'⟩ := kd
        rw [hx, hr] at h
        dsimp only at h
        split at h
        · simp only [Option.some.injEq, Prod.mk.injEq] at h
          exact ⟨x, List.mem_cons_self, h.1, by rw [hx, h.2]⟩
        · simp only [Option.some.injEq, Prod.mk.injEq] at h
          obtain ⟨t, htm, hk, hd⟩ := ih hr
          exact ⟨t, List.mem_cons_of_mem _ htm, by rw [hk, h.1], by rw [hd, h.2]⟩

/-- with unique keys `findTxn` finds THE transaction of that key -/
theorem findTxn_of_mem_nodup {l : List Txn} (hn : (l.map Txn.key).Nodup) {t : Txn} (ht : t ∈ l) :
    findTxn t.key l = some t := by
  induction l with
  | nil => cases ht
  | cons x xs ih =>
    simp only [List.map_cons, List.nodup_cons] at hn
    rcases List.mem_cons.1 ht with rfl | hm
    · simp [findTxn, Txn.is]
    · have hne : x.key ≠ t.key := by
        intro he
        exact hn.1 (by rw [he]; exact List.mem_map_of_mem hm)
      have : x.is t.key = false := (Txn.is_false_iff t.key x).2 hne
      simp only [findTxn, this]
      exact ih hn.2 hm

/-! ### one timer expiry costs budget -/

theorem NoReq_of_NoInd {outs : List Out} (h : NoInd outs) : NoReq outs := by
  intro o ho p a he
  have := h o ho
  subst he
  simp [Out.isInd] at this

theorem serverTimeout_budget {cfg : Cfg} {now : Nat} {k : Key} {b : Body} (hst : ServerSt b) :
    NoReq (serverTimeout cfg now k b).2 ∧
    ((serverTimeout cfg now k b).1 = none ∨
     ∃ b', (serverTimeout cfg now k b).1 = some b' ∧
       txnBudget cfg.retries ⟨k, b'⟩ < txnBudget cfg.retries ⟨k, b⟩) := by
  unfold serverTimeout
  rcases hst with h | h | h
  · simp only [h]
    exact ⟨noReq_nil, Or.inl trivial⟩
  · simp only [h]
    refine ⟨?_, Or.inl trivial⟩
    intro o ho p a he
    simp only [List.mem_singleton] at ho
    subst ho
    cases he
    simp [mkAbort]
  · simp only [h]
    split
    · rename_i hlt
      split
      · split
        · refine ⟨noReq_single (fun _ _ he => by cases he), Or.inr ⟨_, rfl, ?_⟩⟩
          simp only [txnBudget, h]; omega
        · refine ⟨noReq_single (fun _ _ he => by cases he), Or.inr ⟨_, rfl, ?_⟩⟩
          simp only [txnBudget, h]; omega
      · refine ⟨NoReq_of_NoInd (by simp), Or.inr ⟨_, rfl, ?_⟩⟩
        simp only [txnBudget, h]; omega
    · exact ⟨noReq_nil, Or.inl rfl⟩

theorem txnBudget_pos (retries : Nat) (t : Txn) : 1 ≤ txnBudget retries t := by
  unfold txnBudget; split <;> omega

theorem budget_nil_of_zero {retries : Nat} {l : List Txn} (h : budget retries l = 0) : l = [] := by
  cases l with
  | nil => rfl
  | cons t ts =>
    have := txnBudget_pos retries t
    simp only [budget, List.map_cons, List.sum_cons] at h
    omega

theorem budget_updFirst {retries : Nat} {k : Key} {l : List Txn} {t : Txn}
    (hf : findTxn k l = some t) (r : Option Body) :
    budget retries (updFirst k r l) + txnBudget retries t =
      budget retries l + (match r with | some b' => txnBudget retries ⟨t.key, b'⟩ | none => 0) := by
  induction l with
  | nil => simp [findTxn] at hf
  | cons x xs ih =>
    simp only [findTxn] at hf
    split at hf
    · rename_i hx
      cases hf
      simp only [updFirst, hx, if_true]
      cases r with
      | none => simp [budget]; omega
      | some b' => simp [budget]; omega
    · rename_i hx
      simp only [updFirst, hx, Bool.false_eq_true, if_false]
      have := ih hf
      simp only [budget, List.map_cons, List.sum_cons] at this ⊢
      omega

@[simp] theorem tsm_retries {σ} (cfg : DevCfg σ) : cfg.tsm.retries = cfg.base.retries := rfl

/-- one firing: nothing armed means nothing listed; otherwise the invariant is
    kept, the application is not consulted and the budget drops -/
theorem fire_spec {σ} {cfg : DevCfg σ} (hpos : cfg.tsm.TimeoutsPos) {s : DevState σ} (hg : Good s) :
    match fire cfg s with
    | none => s.sap.servers = []
    | some (s1, _) => Good s1 ∧ s1.routes = s.routes ∧ s1.app = s.app ∧
        budget cfg.base.retries s1.sap.servers < budget cfg.base.retries s.sap.servers := by
  unfold fire
  cases hn : nextDue s.sap.servers with
  | none =>
    dsimp only
    cases hs : s.sap.servers with
    | nil => rfl
    | cons t ts =>
      have hmem : t ∈ s.sap.servers := by rw [hs]; exact List.mem_cons_self
      have h1 := nextDue_none hn t hmem
      have h2 := (hg.1.sOk t hmem).2.1
      rw [h1] at h2
      cases h2
  | some kd =>
    obtain ⟨k, d⟩ := kd
    dsimp only
    obtain ⟨t, htm, hk, hd⟩ := nextDue_some hn
    generalize hsap0 : (if s.sap.now < d then { s.sap with now := d } else s.sap) = sap0
    have hsv0 : sap0.servers = s.sap.servers := by subst hsap0; split <;> rfl
    have hcl0 : sap0.clients = s.sap.clients := by subst hsap0; split <;> rfl
    have hnx0 : sap0.nextId = s.sap.nextId := by subst hsap0; split <;> rfl
    have hnow : d ≤ sap0.now := by
      subst hsap0
      split
      · exact Nat.le_refl d
      · omega
    have hg0 : Good ({ s with sap := sap0 } : DevState σ) :=
      ⟨hg.1.congr hnx0 hcl0 hsv0, by show sap0.clients = []; rw [hcl0]; exact hg.2⟩
    have hkeq : (⟨k.peer, k.id⟩ : Key) = k := by cases k; rfl
    have hfind : findTxn k sap0.servers = some t := by
      rw [hsv0, ← hk]; exact findTxn_of_mem_nodup hg.1.sKeys htm
    have hst : ServerSt ({ t.body with timer := none } : Body) := (hg.1.sOk t htm).1
    obtain ⟨hnr, hbud⟩ := serverTimeout_budget (cfg := cfg.tsm) (now := sap0.now) (k := t.key) hst
    have hstep : step cfg.tsm sap0 (.timeout true k.peer k.id) =
        asapPass cfg.tsm
          { sap0 with servers := updFirst k (serverTimeout cfg.tsm sap0.now t.key { t.body with timer := none }).1 sap0.servers }
          (serverTimeout cfg.tsm sap0.now t.key { t.body with timer := none }).2 := by
      simp only [step, smapStep, hkeq]
      unfold smapTimeout
      simp only [if_true, hfind, hd, hnow, Sap.setServer]
    obtain ⟨hp1, hp2⟩ := asapPass_noReq (cfg := cfg.tsm) _
      ({ sap0 with servers := updFirst k (serverTimeout cfg.tsm sap0.now t.key { t.body with timer := none }).1 sap0.servers }) hnr
    rw [hstep]
    have happ := appPass_noReq cfg _ ({ s with sap := (asapPass cfg.tsm
          { sap0 with servers := updFirst k (serverTimeout cfg.tsm sap0.now t.key { t.body with timer := none }).1 sap0.servers }
          (serverTimeout cfg.tsm sap0.now t.key { t.body with timer := none }).2).1 } : DevState σ) hp2
    refine ⟨?_, ?_, ?_, ?_⟩
    · have := (hg0.step hpos (.timeout true k.peer k.id) rfl)
      rw [hstep] at this
      exact appPass_good hpos _ _ this
    · rw [happ]
    · rw [happ]
    · rw [happ]
      show budget _ (asapPass cfg.tsm _ _).1.servers < _
      rw [hp1]
      dsimp only
      rw [hsv0]
      have hb := budget_updFirst (retries := cfg.base.retries) (k := k) (l := s.sap.servers) (t := t)
        (by rw [← hsv0]; exact hfind)
        (serverTimeout cfg.tsm sap0.now t.key { t.body with timer := none }).1
      have hpos' := txnBudget_pos cfg.base.retries t
      rcases hbud with hnone | ⟨b', hsome, hlt⟩
      · rw [hnone] at hb ⊢
        dsimp only at hb
        omega
      · rw [hsome] at hb ⊢
        dsimp only at hb
        have hlt' : txnBudget cfg.base.retries ⟨t.key, b'⟩ < txnBudget cfg.base.retries t := by
          have : txnBudget cfg.base.retries ⟨t.key, { t.body with timer := none }⟩ = txnBudget cfg.base.retries t := rfl
          rw [← this]; exact hlt
        omega

/-- enough fuel: the loop ends with an empty server list (hence with no timer armed) -/
theorem quiesceLoop_done {σ} {cfg : DevCfg σ} (hpos : cfg.tsm.TimeoutsPos) :
    ∀ (n : Nat) (s : DevState σ), Good s → budget cfg.base.retries s.sap.servers ≤ n →
      Good (quiesceLoop cfg n s).1 ∧ (quiesceLoop cfg n s).1.sap.servers = [] ∧
      (quiesceLoop cfg n s).1.routes = s.routes ∧ (quiesceLoop cfg n s).1.app = s.app := by
  intro n
  induction n with
  | zero =>
    intro s hg hb
    have : s.sap.servers = [] := budget_nil_of_zero (Nat.le_zero.1 hb)
    exact ⟨hg, this, rfl, rfl⟩
  | succ n ih =>
    intro s hg hb
    have hf := fire_spec hpos hg
    simp only [quiesceLoop]
    cases hfire : fire cfg s with
    | none =>
      rw [hfire] at hf
      exact ⟨hg, hf, rfl, rfl⟩
    | some r =>
      obtain ⟨s1, o1⟩ := r
      rw [hfire] at hf
      obtain ⟨hg1, hr1, ha1, hlt⟩ := hf
      obtain ⟨h1, h2, h3, h4⟩ := ih s1 hg1 (by omega)
      exact ⟨h1, h2, by rw [h3, hr1], by rw [h4, ha1]⟩

/-- the re-enable task touches the DCC gate only -/
theorem dccFire_spec {σ} (s : DevState σ) :
    (dccFire s).sap.servers = s.sap.servers ∧ (dccFire s).sap.clients = s.sap.clients ∧
    (dccFire s).sap.nextId = s.sap.nextId ∧ (dccFire s).routes = s.routes ∧ (dccFire s).app = s.app ∧
    (dccFire s).nniPending = s.nniPending ∧ (dccFire s).dccTimer = none := by
  unfold dccFire
  cases h : s.dccTimer <;> simp [h]

theorem dccFire_good {σ} {s : DevState σ} (hg : Good s) : Good (dccFire s) := by
  obtain ⟨h1, h2, h3, _⟩ := dccFire_spec s
  exact ⟨hg.1.congr h3 h2 h1, by rw [h2]; exact hg.2⟩

theorem quiesce_done {σ} {cfg : DevCfg σ} (hpos : cfg.tsm.TimeoutsPos) {s : DevState σ} (hg : Good s) :
    Good (quiesce cfg s).1 ∧ (quiesce cfg s).1.sap.servers = [] ∧
    (quiesce cfg s).1.routes = s.routes ∧ (quiesce cfg s).1.app = s.app ∧
    (quiesce cfg s).1.nniPending = false ∧ (quiesce cfg s).1.dccTimer = none := by
  obtain ⟨h1, h2, h3, h4⟩ := quiesceLoop_done hpos _ s hg (Nat.le_refl (budget cfg.base.retries s.sap.servers))
  unfold quiesce
  dsimp only
  split
  · obtain ⟨f1, _, _, f4, f5, f6, f7⟩ := dccFire_spec
      ({ (quiesceLoop cfg (budget cfg.base.retries s.sap.servers) s).1 with nniPending := false } : DevState σ)
    exact ⟨dccFire_good (h1.congr rfl), by rw [f1]; exact h2, by rw [f4]; exact h3, by rw [f5]; exact h4,
      by rw [f6], f7⟩
  · rename_i hp
    obtain ⟨f1, _, _, f4, f5, f6, f7⟩ := dccFire_spec (quiesceLoop cfg (budget cfg.base.retries s.sap.servers) s).1
    exact ⟨dccFire_good h1, by rw [f1]; exact h2, by rw [f4]; exact h3, by rw [f5]; exact h4,
      by rw [f6]; simpa using hp, f7⟩

end BacVerif.Device
