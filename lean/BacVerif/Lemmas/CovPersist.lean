/-
  Lemmas.CovPersist — a listed record stays listed until it is cancelled, replaced or due.
-/
import BacVerif.Lemmas.CovOut
namespace BacVerif.Cov

/-- a record that is listed for object `o` -/
def Listed (s : State) (o : Nat) (c : Sub) : Prop :=
  ∃ ob ∈ s.objs, ob.id = o ∧ ∃ d, ob.det = some d ∧ c ∈ d.subs

def subsOf : Option Det → List Sub
  | some d => d.subs
  | none => []

theorem listed_iff {s : State} {o : Nat} {c : Sub} :
    Listed s o c ↔ ∃ ob ∈ s.objs, ob.id = o ∧ c ∈ subsOf ob.det := by
  constructor
  · rintro ⟨ob, hob, hid, d, hd, hc⟩
    exact ⟨ob, hob, hid, by rw [hd]; exact hc⟩
  · rintro ⟨ob, hob, hid, hc⟩
    cases hd : ob.det with
    | none => rw [hd] at hc; cases hc
    | some d => rw [hd] at hc; exact ⟨ob, hob, hid, d, hd, hc⟩

/-- objects mapped one by one, identifiers kept: listing transfers along the map -/
theorem listed_map {s s' : State} {g : Obj → Obj} (he : s'.objs = s.objs.map g)
    (hid : ∀ ob ∈ s.objs, (g ob).id = ob.id) {o : Nat} {c : Sub}
    (hkeep : ∀ ob ∈ s.objs, ob.id = o → c ∈ subsOf ob.det → c ∈ subsOf (g ob).det)
    (hl : Listed s o c) : Listed s' o c := by
  rw [listed_iff] at hl ⊢
  obtain ⟨ob, hob, hido, hc⟩ := hl
  refine ⟨g ob, ?_, ?_, hkeep ob hob hido hc⟩
  · rw [he]; exact List.mem_map_of_mem hob
  · rw [hid ob hob]; exact hido

theorem Quiet.listed {s s' : State} (h : Quiet s s') {o : Nat} {c : Sub} (hl : Listed s o c) :
    Listed s' o c := by
  obtain ⟨g, e, hc⟩ := h.objs
  apply listed_map e (fun ob hob => (hc ob hob).id) _ hl
  intro ob hob _ hm
  have hdc := (hc ob hob).det
  cases hd : ob.det with
  | none => rw [hd] at hm; cases hm
  | some d =>
    rw [hd] at hdc hm
    cases hd' : (g ob).det with
    | none => rw [hd'] at hdc; exact hdc.elim
    | some d' =>
      rw [hd'] at hdc
      simp only [subsOf] at hm ⊢
      rw [hdc.1]; exact hm

theorem Covers.listed {s s' : State} (h : Covers s s') {o : Nat} {c : Sub} (hl : Listed s' o c) :
    Listed s o c := by
  obtain ⟨ob', hob', hid, d', hd', hc⟩ := hl
  obtain ⟨ob, hob, e1, _, _, d, hd, hs⟩ := h ob' hob' d' hd'
  exact ⟨ob, hob, e1.trans hid, d, hd, hs c hc⟩

theorem sid_inj_of_nodup {l : List Sub} (hn : (l.map (·.sid)).Nodup) {x y : Sub} (hx : x ∈ l) (hy : y ∈ l)
    (e : x.sid = y.sid) : x = y := by
  induction l with
  | nil => cases hx
  | cons z rest ih =>
    simp only [List.map_cons, List.nodup_cons, List.mem_map, not_exists, not_and] at hn
    rcases List.mem_cons.mp hx with rfl | hx' <;> rcases List.mem_cons.mp hy with rfl | hy'
    · rfl
    · exact (hn.1 y hy' e.symm).elim
    · exact (hn.1 x hx' e).elim
    · exact ih hn.2 hx' hy'

/-- a record that is not due survives the processing of a task that is due -/
theorem fireTask_persists {now' : Nat} {s : State} {k : Task} (hi : InvAt now' s)
    (hk : k ∈ armedTasks s) (hkt : k.t ≤ now') {o : Nat} {c : Sub} (hl : Listed s o c)
    (halive : c.due = none ∨ ∃ t q, c.due = some (t, q) ∧ now' < t) :
    Listed (fireTask s k).1 o c := by
  obtain ⟨ob0, hob0, d0, hd0, hk0⟩ := mem_armed.mp hk
  have hfind0 : findObj s ob0.id = some ob0 := find_of_mem hi.1 hob0 rfl
  have huniq := uniq_of_find hi hfind0
  have hok0 := hi.2 ob0 hob0 d0 hd0
  rcases mem_detTasks.mp hk0 with ⟨c', hc', hdue', href⟩ | ⟨hp, href⟩
  · unfold fireTask
    rw [href]
    simp only [hfind0, hd0]
    refine listed_map (s' := setObj s ob0.id _) rfl ?_ ?_ hl
    · intro x _; split <;> rfl
    · intro x hx hxo hm
      by_cases hxo0 : x.id = ob0.id
      · have hb : (x.id == ob0.id) = true := by simpa using hxo0
        simp only [hb, if_true]
        cases huniq x hx hxo0
        rw [hd0] at hm
        simp only [subsOf] at hm
        have hne : c.sid ≠ c'.sid := by
          intro e
          have := sid_inj_of_nodup hok0.sids hm hc' e
          subst this
          rcases halive with h | ⟨t, q, h, hlt⟩
          · rw [h] at hdue'; cases hdue'
          · rw [h] at hdue'
            simp only [Option.some.injEq, Prod.mk.injEq] at hdue'
            omega
        have hmem : c ∈ removeSid d0.subs c'.sid := by
          simp only [removeSid, List.mem_filter, bne_iff_ne, ne_eq]
          exact ⟨hm, hne⟩
        split
        · rename_i he
          have : removeSid d0.subs c'.sid = [] := by simpa using he
          rw [this] at hmem; cases hmem
        · exact hmem
      · have hb : (x.id == ob0.id) = false := by simpa using hxo0
        simp only [hb, Bool.false_eq_true, if_false]
        exact hm
  · unfold fireTask
    rw [href]
    simp only [hfind0, hd0, bne_self_eq_false, Bool.false_eq_true, if_false]
    have hsc := sameCore_send s.now ob0 d0 none
    refine listed_map (s' := setObj s ob0.id _) rfl ?_ ?_ hl
    · intro x _; split <;> rfl
    · intro x hx hxo hm
      by_cases hxo0 : x.id = ob0.id
      · have hb : (x.id == ob0.id) = true := by simpa using hxo0
        simp only [hb, if_true]
        cases huniq x hx hxo0
        rw [hd0] at hm
        simp only [subsOf] at hm ⊢
        rw [hsc.1]; exact hm
      · have hb : (x.id == ob0.id) = false := by simpa using hxo0
        simp only [hb, Bool.false_eq_true, if_false]
        exact hm

theorem fireAll_persists {now' : Nat} {o : Nat} {c : Sub}
    (halive : c.due = none ∨ ∃ t q, c.due = some (t, q) ∧ now' < t) :
    ∀ (l : List Task) {s : State}, InvAt now' s → s.now = now' → (∀ k ∈ l, k.t ≤ now') →
      Listed s o c → Listed (fireAll s l).1 o c
  | [], _, _, _, _, hl => hl
  | k :: rest, s, hi, hnow, hle, hl => by
    simp only [fireAll]
    split
    · rename_i hc
      have hk : k ∈ armedTasks s := by simpa using hc
      obtain ⟨h1, h2, _, _, _⟩ := fireTask_spec hi hnow hk
      have hq := quiet_run h1
      have hl1 := fireTask_persists hi hk (hle k (List.mem_cons_self ..)) hl halive
      have hl2 := hq.listed hl1
      exact fireAll_persists halive rest (hq.invAt h1) (by rw [hq.now, h2])
        (fun k' hk' => hle k' (List.mem_cons_of_mem _ hk')) hl2
    · exact fireAll_persists halive rest hi hnow
        (fun k' hk' => hle k' (List.mem_cons_of_mem _ hk')) hl

end BacVerif.Cov
