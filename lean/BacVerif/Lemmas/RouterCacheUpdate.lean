/-
  Lemmas.RouterCacheUpdate — update_router_info and delete_router_info on a
  coherent cache: they succeed, their effect on the path table is the obvious
  one, and the result is coherent.
-/
import BacVerif.Lemmas.RouterCacheStrip
namespace BacVerif.RouterCache
variable {α : Type} [DecidableEq α]

omit [DecidableEq α] in
theorem addLoopNew_spec (s : Net) (a : α) (st : Nat) (ds : List Nat) :
    ∀ (dn : List (Nat × Nat)) (p : List ((Net × Nat) × α)),
      (∀ d, aget d (addLoopNew s a st ds dn p).1 = if d ∈ ds then some st else aget d dn) ∧
      (∀ k, aget k (addLoopNew s a st ds dn p).2 =
          if k.1 = s ∧ k.2 ∈ ds then some a else aget k p) := by
  induction ds with
  | nil => intro dn p; simp [addLoopNew]
  | cons d ds ih =>
    intro dn p
    unfold addLoopNew
    obtain ⟨h1, h2⟩ := ih (aset d st dn) (aset (s, d) a p)
    refine ⟨?_, ?_⟩
    · intro d'
      rw [h1, aget_aset]
      by_cases e1 : d' = d <;> by_cases e2 : d' ∈ ds <;> simp [e1, e2]
    · intro k
      rw [h2, aget_aset]
      obtain ⟨ks, kd⟩ := k
      by_cases e0 : ks = s
      · subst e0
        by_cases e1 : kd = d <;> by_cases e2 : kd ∈ ds <;> simp [e1, e2]
      · simp [e0]

omit [DecidableEq α] in
theorem addLoopOld_spec (s : Net) (a : α) (st : Nat) (ds : List Nat) :
    ∀ (dn : List (Nat × Nat)) (p : List ((Net × Nat) × α)),
      (∀ d, aget d (addLoopOld s a st ds dn p).1 = if d ∈ ds then some st else aget d dn) ∧
      (∀ k, aget k (addLoopOld s a st ds dn p).2 =
          if k.1 = s ∧ k.2 ∈ ds ∧ has k.2 dn = false then some a else aget k p) := by
  induction ds with
  | nil => intro dn p; simp [addLoopOld]
  | cons d ds ih =>
    intro dn p
    unfold addLoopOld
    by_cases hd : has d dn = true
    · simp only [hd, ↓reduceIte]
      obtain ⟨h1, h2⟩ := ih (aset d st dn) p
      refine ⟨?_, ?_⟩
      · intro d'
        rw [h1, aget_aset]
        by_cases e1 : d' = d <;> by_cases e2 : d' ∈ ds <;> simp [e1, e2]
      · intro k
        rw [h2, has_aset]
        obtain ⟨ks, kd⟩ := k
        by_cases e0 : ks = s
        · subst e0
          by_cases e1 : kd = d
          · subst e1; simp [hd]
          · by_cases e2 : kd ∈ ds <;> simp [e1, e2]
        · simp [e0]
    · have hd' : has d dn = false := by simpa using hd
      simp only [hd', Bool.false_eq_true, ↓reduceIte]
      obtain ⟨h1, h2⟩ := ih (aset d st dn) (aset (s, d) a p)
      refine ⟨?_, ?_⟩
      · intro d'
        rw [h1, aget_aset]
        by_cases e1 : d' = d <;> by_cases e2 : d' ∈ ds <;> simp [e1, e2]
      · intro k
        rw [h2, has_aset, aget_aset]
        obtain ⟨ks, kd⟩ := k
        by_cases e0 : ks = s
        · subst e0
          by_cases e1 : kd = d
          · subst e1; by_cases e2 : kd ∈ ds <;> simp [e2, hd']
          · by_cases e2 : kd ∈ ds <;> simp [e1, e2]
        · simp [e0]

/-- `update_router_info` on a coherent cache -/
theorem update_spec (c : Cache α) (s : Net) (a : α) (ds : List Nat) (st : Nat) (hc : Coherent c) :
    ∃ c', updateRouterInfo c s a ds st = .ok c' ∧ Coherent c' ∧
      ∀ s' d', pget c' s' d' = if s' = s ∧ d' ∈ ds then some a else pget c s' d' := by
  unfold updateRouterInfo
  -- the strip phase
  have hall : ∀ r ∈ otherRouters c s ((rget c s a).map fun _ => a) ds, (rget c s r).isSome = true := by
    intro r hr
    obtain ⟨d, _, hp, _⟩ := (mem_otherRouters _ _ _ _ _).mp hr
    obtain ⟨ri, hri, _⟩ := (hc s d r).mp hp
    simp [hri]
  obtain ⟨c1, e1, hc1, hP1, hR1⟩ :=
    stripAll_spec s ds _ c hc (nodup_otherRouters c s ((rget c s a).map fun _ => a) ds) hall
  simp only [e1]
  cases hex : rget c s a with
  | none =>
    simp only [hex, Option.map_none] at hP1 hR1 ⊢
    -- nothing on `s` names `a` before
    have hna : ∀ d, pget c s d ≠ some a := by
      intro d h
      obtain ⟨ri, hri, _⟩ := (hc s d a).mp h
      rw [hex] at hri; cases hri
    have ha1 : rget c1 s a = none := by
      rw [hR1 s a (Or.inr ?_), hex]
      intro hm
      obtain ⟨d, _, hp, _⟩ := (mem_otherRouters _ _ _ _ _).mp hm
      exact hna d hp
    have hP1' : ∀ s' d', pget c1 s' d' = if s' = s ∧ d' ∈ ds then none else pget c s' d' := by
      intro s' d'
      rw [hP1]
      by_cases e0 : s' = s ∧ d' ∈ ds
      · obtain ⟨rfl, ed⟩ := e0
        cases hp : pget c s' d' with
        | none => simp
        | some r =>
          have : r ∈ otherRouters c s' none ds :=
            (mem_otherRouters _ _ _ _ _).mpr ⟨d', ed, hp, by simp⟩
          simp [ed, this]
      · have : ¬ (s' = s ∧ d' ∈ ds ∧ ∃ r ∈ otherRouters c s none ds, pget c s d' = some r) :=
          fun h => e0 ⟨h.1, h.2.1⟩
        simp only [this, e0, ↓reduceIte]
    obtain ⟨hA1, hA2⟩ := addLoopNew_spec s a st ds [] c1.pathInfo
    refine ⟨_, rfl, ?_, ?_⟩
    · -- coherent
      intro s' d' a'
      unfold Credits
      rw [pget_rset, pget_setPath, hA2, rget_rset]
      simp only [rget_setPath]
      by_cases e0 : s' = s
      · subst e0
        by_cases ea : a' = a
        · subst ea
          simp only [true_and, and_self, ↓reduceIte, Option.some.injEq, exists_eq_left', has, hA1]
          by_cases ed : d' ∈ ds
          · simp [ed]
          · have : aget (s', d') c1.pathInfo ≠ some a' := by
              have := hP1' s' d'
              simp only [pget] at this
              rw [this]; simp only [ed, and_false, ↓reduceIte]; exact hna d'
            simp [ed, this]
        · simp only [true_and, ea, and_false, ↓reduceIte]
          have h1 := hc1 s' d' a'
          unfold Credits at h1
          rw [← h1]
          by_cases ed : d' ∈ ds
          · have := hP1' s' d'
            simp only [ed, and_self, ↓reduceIte] at this
            simp only [ed, ↓reduceIte, Option.some.injEq, this, reduceCtorEq, iff_false]
            exact fun h => ea h.symm
          · simp [ed, pget]
      · simp only [e0, false_and, ↓reduceIte]
        have h1 := hc1 s' d' a'
        unfold Credits at h1
        rw [← h1]; rfl
    · intro s' d'
      rw [pget_rset, pget_setPath, hA2]
      by_cases e0 : s' = s ∧ d' ∈ ds
      · simp [e0]
      · have := hP1' s' d'
        simp only [pget] at this
        simp only [e0, ↓reduceIte, this, pget]
  | some ri =>
    simp only [hex, Option.map_some] at hP1 hR1 ⊢
    have ha1 : rget c1 s a = some ri := by
      rw [hR1 s a (Or.inr ?_), hex]
      intro hm
      obtain ⟨d, _, _, hne⟩ := (mem_otherRouters _ _ _ _ _).mp hm
      exact hne rfl
    have hcred : ∀ d, has d ri.dnets = true ↔ pget c s d = some a := by
      intro d
      rw [hc s d a]
      constructor
      · intro h; exact ⟨ri, hex, h⟩
      · rintro ⟨ri', h1, h2⟩
        rw [hex] at h1; cases h1; exact h2
    -- after the strip phase, a destination of `ds` on `s` is either unknown or already `a`'s
    have hP1' : ∀ s' d', pget c1 s' d' =
        if s' = s ∧ d' ∈ ds ∧ pget c s d' ≠ some a then none else pget c s' d' := by
      intro s' d'
      rw [hP1]
      by_cases e0 : s' = s ∧ d' ∈ ds
      · obtain ⟨rfl, ed⟩ := e0
        cases hp : pget c s' d' with
        | none => simp
        | some r =>
          by_cases er : r = a
          · subst er
            have : ¬ r ∈ otherRouters c s' (some r) ds := by
              intro hm
              obtain ⟨_, _, _, hne⟩ := (mem_otherRouters _ _ _ _ _).mp hm
              exact hne rfl
            simp [ed, this]
          · have : r ∈ otherRouters c s' (some a) ds :=
              (mem_otherRouters _ _ _ _ _).mpr ⟨d', ed, hp, by simpa using er⟩
            simp [ed, this, er]
      · have h1 : ¬ (s' = s ∧ d' ∈ ds ∧ ∃ r ∈ otherRouters c s (some a) ds, pget c s d' = some r) :=
          fun h => e0 ⟨h.1, h.2.1⟩
        have h2 : ¬ (s' = s ∧ d' ∈ ds ∧ pget c s d' ≠ some a) := fun h => e0 ⟨h.1, h.2.1⟩
        simp only [h1, h2, ↓reduceIte]
    obtain ⟨hA1, hA2⟩ := addLoopOld_spec s a st ds ri.dnets c1.pathInfo
    have hPfinal : ∀ s' d',
        aget (s', d') (addLoopOld s a st ds ri.dnets c1.pathInfo).2 =
          if s' = s ∧ d' ∈ ds then some a else pget c s' d' := by
      intro s' d'
      rw [hA2]
      have h1 := hP1' s' d'
      simp only [pget] at h1
      by_cases e0 : s' = s ∧ d' ∈ ds
      · obtain ⟨rfl, ed⟩ := e0
        by_cases hh : has d' ri.dnets = true
        · have := (hcred d').mp hh
          simp only [pget] at this
          simp [ed, hh, h1, this]
        · have hh' : has d' ri.dnets = false := by simpa using hh
          simp [ed, hh']
      · have h2 : ¬ (s' = s ∧ d' ∈ ds ∧ has d' ri.dnets = false) := fun h => e0 ⟨h.1, h.2.1⟩
        have h3 : ¬ (s' = s ∧ d' ∈ ds ∧ ¬ aget (s, d') c.pathInfo = some a) := fun h => e0 ⟨h.1, h.2.1⟩
        simp only [h2, e0, ↓reduceIte, h1, pget, ne_eq, h3]
    refine ⟨_, rfl, ?_, ?_⟩
    · intro s' d' a'
      unfold Credits
      rw [pget_rset, pget_setPath, hPfinal, rget_rset]
      simp only [rget_setPath]
      by_cases e0 : s' = s
      · subst e0
        by_cases ea : a' = a
        · subst ea
          simp only [true_and, and_self, ↓reduceIte, Option.some.injEq, exists_eq_left', has, hA1]
          by_cases ed : d' ∈ ds
          · simp [ed]
          · have := hcred d'
            simp only [has] at this
            simp [ed, this]
        · simp only [true_and, ea, and_false, ↓reduceIte]
          have h1 := hc1 s' d' a'
          unfold Credits at h1
          rw [← h1, hP1']
          by_cases ed : d' ∈ ds
          · simp only [ed, ↓reduceIte, Option.some.injEq, true_and, ne_eq]
            constructor
            · intro h; exact absurd h.symm ea
            · by_cases hp : pget c s' d' = some a
              · simp only [hp, not_true_eq_false, ↓reduceIte, Option.some.injEq]
                intro h; exact absurd h.symm ea
              · simp [hp]
          · simp [ed]
      · simp only [e0, false_and, ↓reduceIte]
        have h1 := hc1 s' d' a'
        unfold Credits at h1
        rw [← h1, hP1']
        simp [e0]
    · intro s' d'
      rw [pget_rset, pget_setPath, hPfinal]

/-- `delete_router_info` on a coherent cache -/
theorem delete_spec (c : Cache α) (s : Net) (a : Option α) (ds : Option (List Nat))
    (hc : Coherent c) (hne : ¬ (a = none ∧ ds = none)) :
    ∃ c', deleteRouterInfo c s a ds = .ok c' ∧ Coherent c' ∧
      ∀ s' d', pget c' s' d' = forgetMap (pget c) s a ds s' d' := by
  unfold deleteRouterInfo
  cases a with
  | none =>
    cases ds with
    | none => exact absurd ⟨rfl, rfl⟩ hne
    | some ds =>
      simp only
      have hall : ∀ r ∈ otherRouters c s none ds, (rget c s r).isSome = true := by
        intro r hr
        obtain ⟨d, _, hp, _⟩ := (mem_otherRouters _ _ _ _ _).mp hr
        obtain ⟨ri, hri, _⟩ := (hc s d r).mp hp
        simp [hri]
      obtain ⟨c1, e1, hc1, hP1, _⟩ :=
        stripAll_spec s ds _ c hc (nodup_otherRouters c s none ds) hall
      refine ⟨c1, e1, hc1, ?_⟩
      intro s' d'
      simp only [forgetMap]
      rw [hP1]
      by_cases e0 : s' = s ∧ d' ∈ ds
      · obtain ⟨rfl, ed⟩ := e0
        cases hp : pget c s' d' with
        | none => simp
        | some r =>
          have : r ∈ otherRouters c s' none ds :=
            (mem_otherRouters _ _ _ _ _).mpr ⟨d', ed, hp, by simp⟩
          simp [ed, this]
      · have : ¬ (s' = s ∧ d' ∈ ds ∧ ∃ r ∈ otherRouters c s none ds, pget c s d' = some r) :=
          fun h => e0 ⟨h.1, h.2.1⟩
        simp only [this, e0, ↓reduceIte]
  | some a =>
    simp only
    cases hex : rget c s a with
    | none =>
      refine ⟨c, rfl, hc, ?_⟩
      intro s' d'
      have hna : ∀ d, pget c s d ≠ some a := by
        intro d h
        obtain ⟨ri, hri, _⟩ := (hc s d a).mp h
        rw [hex] at hri; cases hri
      cases ds with
      | none => simp [forgetMap, hna]
      | some l => cases l <;> simp [forgetMap, hna]
    | some ri =>
      simp only
      obtain ⟨c1, e1, hP1, hR1, hC1⟩ := stripRouter_spec s (effectiveDnets ds ri) a c ri hc hex
      have hc1 := stripRouter_coherent s _ a c c1 ri hc hex hP1 hR1 hC1
      refine ⟨c1, e1, hc1, ?_⟩
      intro s' d'
      rw [hP1]
      have hcred : ∀ d, has d ri.dnets = true ↔ pget c s d = some a := by
        intro d
        rw [hc s d a]
        constructor
        · intro h; exact ⟨ri, hex, h⟩
        · rintro ⟨ri', h1, h2⟩
          rw [hex] at h1; cases h1; exact h2
      have hall : ∀ d', (d' ∈ (items ri.dnets).map (·.1) ∧ pget c s d' = some a) ↔ pget c s d' = some a := by
        intro d'
        rw [mem_keys_items, hcred]; simp
      cases ds with
      | none => simp only [effectiveDnets, hall, forgetMap]
      | some l =>
        cases l with
        | nil => simp only [effectiveDnets, hall, forgetMap]
        | cons x xs => rfl

end BacVerif.RouterCache
