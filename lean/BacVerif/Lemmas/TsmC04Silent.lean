/-
  Lemmas.TsmC04Silent — one SILENT event (a timer expiry or the passage of
  time: nothing arrives, the application does nothing) seen from one client
  key `k`: either it is not a due expiry of k's own timer and k's transaction
  is untouched, or it is — and then the transaction is removed with exactly
  one locally generated Abort handed to the application, or it is kept with a
  freshly armed timer and a strictly smaller rank (or an exception escaped).
-/
import BacVerif.Lemmas.TsmC04Rank
import BacVerif.Props.C11
namespace BacVerif.Tsm
set_option linter.unusedSimpArgs false
set_option linter.unusedVariables false
variable {cfg : Cfg}

/-- nothing arrives, the application is idle: only the scheduler acts -/
def Silent : Event → Bool
  | .timeout _ _ _ => true
  | .tick _ => true
  | _ => false

/-- virtual time an event lets pass -/
def elapsed : Event → Nat
  | .tick dt => dt
  | _ => 0

/-- the client transaction `k` is listed and its timer is due -/
def dueK (s : Sap) (k : Key) : Bool :=
  match findTxn k s.clients with
  | none => false
  | some t =>
    match t.body.timer with
    | none => false
    | some d => decide (d ≤ s.now)

/-- `e` is an expiry of k's own (client) timer that really fires -/
def isDue (s : Sap) (k : Key) : Event → Bool
  | .timeout false p i => (p == k.peer && i == k.id) && dueK s k
  | _ => false

/-- the scheduler's view of a client timer event -/
theorem smapTimeout_client_cases (s : Sap) (k : Key) :
    (dueK s k = false ∧ smapTimeout cfg s false k = (s, [])) ∨
    (∃ t d, findTxn k s.clients = some t ∧ t.body.timer = some d ∧ d ≤ s.now ∧ dueK s k = true ∧
      smapTimeout cfg s false k =
        s.setClient k (clientTimeout cfg s.now (heldDI s t.key { t.body with timer := none }) t.key
          { t.body with timer := none })) := by
  unfold smapTimeout dueK
  simp only [Bool.false_eq_true, if_false]
  cases hf : findTxn k s.clients with
  | none => left; exact ⟨rfl, rfl⟩
  | some t =>
    dsimp only
    cases ht : t.body.timer with
    | none => left; exact ⟨rfl, rfl⟩
    | some d =>
      dsimp only
      by_cases hd : d ≤ s.now
      · right
        refine ⟨t, d, rfl, ht, hd, by simp [hd], ?_⟩
        simp [hd]
      · left
        simp [hd]

theorem smapTimeout_srv_clients (s : Sap) (k : Key) :
    (smapTimeout cfg s true k).1.clients = s.clients := by
  unfold smapTimeout
  simp only [if_true]
  cases findTxn k s.servers with
  | none => rfl
  | some t =>
    repeat' split
    all_goals rfl

/-- outcome of a silent event for key `k` -/
theorem silent_step_cases (hpos : cfg.TimeoutsPos) {s : Sap} (hinv : Inv s) {e : Event}
    (he : Silent e = true) (k : Key) :
    (step cfg s e).1.now = s.now + elapsed e ∧
    ((isDue s k e = false ∧ findTxn k (step cfg s e).1.clients = findTxn k s.clients) ∨
     (isDue s k e = true ∧ ∃ t d, findTxn k s.clients = some t ∧ t.body.timer = some d ∧ d ≤ s.now ∧
       ((findTxn k (step cfg s e).1.clients = none ∧
          ∃ reason, (step cfg s e).2 = [.confirm k.peer (mkAbort false k.id reason)]) ∨
        (∃ b', findTxn k (step cfg s e).1.clients = some ⟨t.key, b'⟩ ∧ ArmedAt cfg s.now b'.timer ∧
          (rank cfg b' < rank cfg t.body ∨ ∃ r, Out.raised r ∈ (step cfg s e).2))))) := by
  cases e with
  | tick dt =>
    refine ⟨rfl, Or.inl ⟨rfl, rfl⟩⟩
  | timeout srv p i =>
    have htouch := (C11.timeout_touch (cfg := cfg) hpos hinv srv p i).1
    refine ⟨by rw [htouch.now]; rfl, ?_⟩
    by_cases hk : k = ⟨p, i⟩
    · subst hk
      cases srv with
      | true =>
        left
        refine ⟨rfl, ?_⟩
        rw [C11.step_timeout, asapPass_clients, smapTimeout_srv_clients]
      | false =>
        rcases smapTimeout_client_cases (cfg := cfg) s ⟨p, i⟩ with ⟨hd, heq⟩ | ⟨t, d, hf, ht, hd, hdue, heq⟩
        · left
          refine ⟨by simp [isDue, hd], ?_⟩
          rw [C11.step_timeout, heq]
          rfl
        · right
          refine ⟨by simp [isDue, hdue], t, d, hf, ht, hd, ?_⟩
          obtain ⟨hmem, hkey⟩ := findTxn_some hf
          obtain ⟨hst, _, c, hc, hcid⟩ := hinv.cOk t hmem
          have hnoInd := clientTimeout_noInd (cfg := cfg) s.now
            (heldDI s t.key { t.body with timer := none }) t.key { t.body with timer := none }
          rw [C11.step_timeout, heq]
          simp only [Sap.setClient]
          rw [asapPass_noInd _ _ hnoInd]
          cases hr : clientTimeout cfg s.now (heldDI s t.key { t.body with timer := none }) t.key
              { t.body with timer := none } with
          | mk rb ro =>
            cases rb with
            | none =>
              left
              refine ⟨findTxn_updFirst_none hinv.cKeys, ?_⟩
              obtain ⟨reason, hro⟩ := clientTimeout_none hr
              refine ⟨reason, ?_⟩
              subst hro
              rw [hkey]
              simp [asapPass, asapUp, mkAbort]
            | some b' =>
              right
              refine ⟨b', findTxn_updFirst_some b' hf, ?_, ?_⟩
              · exact clientTimeout_timer hpos (b := { t.body with timer := none }) hst ⟨c, hc⟩ hr
              · rcases clientTimeout_rank hpos hr with hlt | hra
                · exact Or.inl hlt
                · right
                  obtain ⟨o, ho, hio⟩ := List.any_eq_true.1 hra
                  cases o with
                  | raised r => exact ⟨r, asapPass_raised _ _ r ho⟩
                  | send _ _ => simp [Out.isRaised] at hio
                  | indicate _ _ => simp [Out.isRaised] at hio
                  | confirm _ _ => simp [Out.isRaised] at hio
                  | confirmAnon _ _ => simp [Out.isRaised] at hio
    · left
      refine ⟨?_, findTxn_sameExcept htouch.clients hk⟩
      cases srv with
      | true => rfl
      | false =>
        have : (p == k.peer && i == k.id) = false := by
          cases hb : (p == k.peer && i == k.id) with
          | false => rfl
          | true =>
            simp only [Bool.and_eq_true, beq_iff_eq] at hb
            exact absurd (by cases k; simp_all) hk
        simp [isDue, this]
  | request _ _ _ _ => simp [Silent] at he
  | unconfirmed _ _ _ => simp [Silent] at he
  | response _ _ => simp [Silent] at he
  | frame _ _ => simp [Silent] at he
  | learn _ _ => simp [Silent] at he
  | setDcc _ => simp [Silent] at he

end BacVerif.Tsm
