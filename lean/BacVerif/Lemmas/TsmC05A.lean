/-
  Lemmas.TsmC05A — `specA` (the client side of the C05 exchange) is sound:
  every ClientSSM handler keeps the invariant of a listed client transaction,
  emits only genuine request frames with the constant capability header, and
  confirms only the exact response payload.
-/
import BacVerif.Lemmas.TsmC05B
namespace BacVerif.Tsm
set_option linter.unusedSimpArgs false
set_option linter.unusedVariables false

variable {p : Params} {cfg cfgB : Cfg} {dev devB : List (Peer × DeviceInfo)}

/-! ### outputs that are always fine -/

theorem OA_send_ctl {q : Peer} {a : Apdu} (h : a.ty = 4 ∨ a.ty = 7) :
    (specA p cfg dev).OO (.send q a) := by
  refine ⟨?_, ?_, ?_⟩
  · intro q' a' e; cases e; omega
  · intro q' a' e _; cases e; intro h0; omega
  · intro q' a' e; cases e

theorem OA_confirm {q : Peer} {a : Apdu} (h3 : a.ty ≠ 3) : (specA p cfg dev).OO (.confirm q a) := by
  refine ⟨?_, ?_, ?_⟩
  · intro q' a' e; cases e
  · intro q' a' e; cases e
  · intro q' a' e _ h; cases e; exact absurd h h3

theorem OA_raised (x : Raise) : (specA p cfg dev).OO (.raised x) := by
  refine ⟨?_, ?_, ?_⟩ <;> (intro q' a' h; cases h)

theorem OA_anon (c e : Nat) : (specA p cfg dev).OO (.confirmAnon c e) := by
  refine ⟨?_, ?_, ?_⟩ <;> (intro q' a' h; cases h)

theorem OA_indicate (q : Peer) (a : Apdu) : (specA p cfg dev).OO (.indicate q a) := by
  refine ⟨?_, ?_, ?_⟩ <;> (intro q' a' h; cases h)

theorem abortApp_A (k : Key) (r : Nat) :
    Local.HRes (specA p cfg dev).CI (specA p cfg dev).OO k (clientAbortApp k r) :=
  none_res (all_one (OA_confirm (by simp [mkAbort])))

theorem abortBoth_A (k : Key) (r : Nat) :
    Local.HRes (specA p cfg dev).CI (specA p cfg dev).OO k (clientAbortBoth k r) :=
  none_res (all_two (OA_send_ctl (by simp [mkAbort])) (OA_confirm (by simp [mkAbort])))

theorem key_is_kA {k : Key} (hq : k.peer = p.peerB) (hi : k.id = p.id) : k = p.kA := by
  cases k; simp only [Params.kA, Key.mk.injEq]; exact ⟨hq, hi⟩

/-! ### the invariant, state by state -/

/-- the context of a transaction that is sending its request -/
def SendCtx (p : Params) (cfg : Cfg) (dev : List (Peer × DeviceInfo)) (k : Key) (b : Body) : Prop :=
  ∃ c, b.ctx = some c ∧ c.ty = 0 ∧ c.invokeId = k.id ∧ b.maxApdu = cfg.maxApdu ∧
    b.maxSegs = cfg.maxSegs ∧ b.hasDI = (lookupDI dev k.peer).isSome ∧
    (k = p.kA → c.data = p.P ∧ c.service = p.svc ∧ b.segSize = p.sizeP ∧ b.segCount = p.countP)

theorem CIA_send {k : Key} {b : Body} (hst : b.st = .segReq ∨ b.st = .awaitConf)
    (hc : SendCtx p cfg dev k b) : (specA p cfg dev).CI k b := by
  refine ⟨fun _ => hc, ?_⟩
  intro h; rw [h] at hst; rcases hst with h | h <;> cases h

theorem CIA_recv {k : Key} {b : Body} (hst : b.st = .segConf)
    (hc : ∃ c, b.ctx = some c ∧ c.invokeId = k.id ∧ (k = p.kA → RecvBuf p.TR b)) :
    (specA p cfg dev).CI k b := by
  refine ⟨?_, fun _ => hc⟩
  intro h; rw [hst] at h; rcases h with h | h <;> cases h

/-- a frame `get_segment` / `fill_window` builds from a request context -/
theorem OA_segment (g : p.Geo cfg cfgB dev devB) {k : Key} {b : Body} {seg : Apdu} {i w : Nat}
    (hc : SendCtx p cfg dev k b) (h : getSegment cfg k b i w = .ok seg) :
    (specA p cfg dev).OO (.send k.peer seg) := by
  obtain ⟨c, hctx, hty, hid, hma, hms, _, hk⟩ := hc
  obtain ⟨g1, g2, g3, g4, g5, g6⟩ := getSegment_genuine hctx hid h
  refine ⟨?_, ?_, ?_⟩
  · intro q' a' e; cases e; left; rw [g1, hty]
  · intro q' a' e hq; cases e
    intro _ hid'
    have hkA : k = p.kA := key_is_kA hq (g2.symm.trans hid')
    obtain ⟨e1, e2, e3, e4⟩ := hk hkA
    have hT : (⟨c.ty, k.id, c.data, b.segSize, b.segCount⟩ : Xfer) = p.TP := by
      simp [Params.TP, hty, e1, e3, e4, hkA, Params.kA]
    refine ⟨?_, ?_⟩
    · intro _ _
      refine ⟨?_, ?_⟩
      · intro h1
        have h1' : b.segCount = 1 := e4.trans h1
        obtain ⟨s1, s2⟩ := g4 h1'
        refine ⟨s1, ?_⟩
        have hi0 : i = 0 := by omega
        rw [s2, hi0, e1, e3]
        exact g.wfP.one h1
      · intro hn1
        have hn1' : b.segCount ≠ 1 := fun h => hn1 (e4.symm.trans h)
        obtain ⟨s1, s2, _⟩ := g5 hn1'
        rw [hT] at s2
        exact ⟨s1, i, s2⟩
    · have := g6 hty p.mr p.ms (by rw [hma]; exact g.encMr) (by rw [hms]; exact g.encMs)
      rw [← g.sa, e2] at this
      exact this
  · intro q' a' e; cases e

theorem OA_sends (g : p.Geo cfg cfgB dev devB) {k : Key} {b : Body} {start : Nat}
    (hc : SendCtx p cfg dev k b) :
    ∀ o ∈ sends k.peer (fillWindow cfg k b start).sent, (specA p cfg dev).OO o := by
  intro o ho
  simp only [sends, List.mem_map] at ho
  obtain ⟨seg, hseg, rfl⟩ := ho
  cases hw : b.window with
  | none => rw [fillWindow_none hw] at hseg; cases hseg
  | some w =>
    obtain ⟨j, _, _, hj⟩ := fillWindow_index hw seg hseg
    exact OA_segment g hc hj

theorem OA_raisedOf (r : Option Raise) : ∀ o ∈ raisedOf r, (specA p cfg dev).OO o := by
  cases r with
  | none => exact all_nil
  | some x => exact all_one (OA_raised x)

/-! ### `ClientSSM.indication`: first transmission and the retry of the whole request -/

theorem A_indication (g : p.Geo cfg cfgB dev devB) {now : Nat} {k : Key} {b0 : Body} {req : Apdu}
    (hma : b0.maxApdu = cfg.maxApdu) (hms : b0.maxSegs = cfg.maxSegs)
    (hdi : b0.hasDI = (lookupDI dev k.peer).isSome) (hty : req.ty = 0) (hid : req.invokeId = k.id)
    (hk : k = p.kA → req.data = p.P ∧ req.service = p.svc) :
    Local.HRes (specA p cfg dev).CI (specA p cfg dev).OO k
      (clientIndication cfg now (lookupDI dev k.peer) k b0 req) := by
  unfold clientIndication
  dsimp only
  split
  · exact abortApp_A _ _
  · rename_i size count hcut
    split
    · exact abortApp_A _ _
    · split
      · exact abortApp_A _ _
      · split
        · exact abortApp_A _ _
        · -- the context both resulting bodies share
          have hctx : ∀ b : Body, b.ctx = some req → b.maxApdu = b0.maxApdu → b.maxSegs = b0.maxSegs →
              b.hasDI = b0.hasDI → b.segSize = size → b.segCount = count → SendCtx p cfg dev k b := by
            intro b h1 h2 h3 h4 h5 h6
            refine ⟨req, h1, hty, hid, h2.trans hma, h3.trans hms, h4.trans hdi, ?_⟩
            intro hkA
            obtain ⟨e1, e2⟩ := hk hkA
            have hpeer : k.peer = p.peerB := by rw [hkA]; rfl
            rw [e1, hpeer, hma] at hcut
            have := g.cutP
            rw [hcut] at this
            simp only [Option.some.injEq, Prod.mk.injEq] at this
            exact ⟨e1, e2, h5.trans this.1, h6.trans this.2⟩
          by_cases hc1 : count = 1
          · simp only [hc1, if_true]
            have hc := hctx { b0 with ctx := some req, segSize := size, segCount := count, sentAll := true,
                                      retry := 0, st := .awaitConf,
                                      timer := stateTimer now cfg.apduTimeout } rfl rfl rfl rfl rfl rfl
            simp only [hc1] at hc
            split
            · rename_i seg hseg
              exact some_res (CIA_send (Or.inr rfl) hc) (all_one (OA_segment g hc hseg))
            · exact some_res (CIA_send (Or.inr rfl) hc) (all_one (OA_raised _))
          · simp only [hc1, if_false]
            have hc := hctx { b0 with ctx := some req, segSize := size, segCount := count, sentAll := false,
                                      retry := 0, segRetry := 0, initSeq := 0, window := none,
                                      st := .segReq, timer := stateTimer now cfg.segTimeout }
                        rfl rfl rfl rfl rfl rfl
            split
            · rename_i seg hseg
              exact some_res (CIA_send (Or.inl rfl) hc) (all_one (OA_segment g hc hseg))
            · exact some_res (CIA_send (Or.inl rfl) hc) (all_one (OA_raised _))

/-! ### a ComplexAck arrives while the request is (being) sent -/

/-- an unsegmented ComplexAck for the tracked exchange carries the whole response -/
theorem OA_confirm_whole {k : Key} {a : Apdu} (hid : a.invokeId = k.id) (hns : a.seg = false)
    (hf : k = p.kA → a.ty = 3 → Genuine p.TR a) : (specA p cfg dev).OO (.confirm k.peer a) := by
  refine ⟨?_, ?_, ?_⟩
  · intro q' a' e; cases e
  · intro q' a' e; cases e
  · intro q' a' e hq h3 hi; cases e
    have hg := hf (key_is_kA hq (hid.symm.trans hi)) h3 h3 hi
    by_cases h1 : p.TR.count = 1
    · exact (hg.1 h1).2
    · have := (hg.2 h1).1; rw [hns] at this; cases this

/-- the first segment of the response opens the reassembly buffer -/
theorem recvBuf_first (g : p.Geo cfg cfgB dev devB) {a : Apdu} {b : Body} {w : Nat}
    (h3 : a.ty = 3) (hi : a.invokeId = p.id) (hseg : a.seg = true) (hseq : a.seq = 0)
    (hg : GenuineN p.TR (fun i => i < 256) a) (hctx : b.ctx = some a) (hl : b.lastSeq = 0)
    (hw : b.window = some w) : RecvBuf p.TR b := by
  have hg' := hg h3 hi
  have hn1 : p.TR.count ≠ 1 := by
    intro h1; have := (hg'.1 h1).1; rw [hseg] at this; cases this
  obtain ⟨_, i, his, hlt⟩ := hg'.2 hn1
  have hi0 : i = 0 := first_index his hlt hseq
  subst hi0
  have hpos := g.wfR.pos
  refine ⟨0, a, w, hctx, by omega, hl, ?_, hw⟩
  rw [his.data]; simp [slicesUpTo]

/-- before the transaction receives, what it is handed is one of the first 256 segments -/
theorem genuine_first {b : Body} {a : Apdu} (hst : b.st ≠ .segConf)
    (h : GenuineN p.TR (NearC p.TR b) a) : GenuineN p.TR (fun i => i < 256) a := by
  intro h1 h2
  obtain ⟨g1, g2⟩ := h h1 h2
  refine ⟨g1, fun hn => ?_⟩
  obtain ⟨s1, i, hi, hN⟩ := g2 hn
  exact ⟨s1, i, hi, hN.2 hst⟩

/-! ### SEGMENTED_REQUEST -/

theorem A_segReq (g : p.Geo cfg cfgB dev devB) {now : Nat} {k : Key} {b : Body} {a : Apdu}
    (hci : (specA p cfg dev).CI k b) (hst : b.st = .segReq) (hid : a.invokeId = k.id)
    (hf : (specA p cfg dev).FC k b a) :
    Local.HRes (specA p cfg dev).CI (specA p cfg dev).OO k (clientSegmentedRequest cfg now k b a) := by
  have hc : SendCtx p cfg dev k b := hci.1 (Or.inl hst)
  have hgen : k = p.kA → a.ty = 3 → Genuine p.TR a := fun hk h3 => (hf hk h3).genuine
  unfold clientSegmentedRequest
  split
  · dsimp only
    split
    · exact some_res (CIA_send (Or.inl hst) hc) all_nil
    · split
      · exact some_res (CIA_send (Or.inr rfl) hc) all_nil
      · split
        · exact some_res (CIA_send (Or.inl hst) hc) (all_app (OA_sends g (b := _) hc) (all_one (OA_raised _)))
        · exact some_res (CIA_send (Or.inl hst) hc) (OA_sends g (b := _) hc)
  · split
    · rename_i h2
      split
      · exact abortBoth_A _ _
      · exact none_res (all_one (OA_confirm (by omega)))
    · split
      · rename_i h3
        split
        · exact abortBoth_A _ _
        · split
          · rename_i hns
            exact none_res (all_one (OA_confirm_whole hid (by simpa using hns) hgen))
          · rename_i hns
            have hseg : a.seg = true := by simpa using hns
            split
            · exact abortBoth_A _ _
            · rename_i hseq
              have hseq' : a.seq = 0 := by omega
              refine some_res (CIA_recv rfl ⟨a, rfl, hid, ?_⟩) all_nil
              intro hk
              have hi : a.invokeId = p.id := by rw [hid, hk]; rfl
              exact recvBuf_first g h3 hi hseg hseq'
                (genuine_first (by rw [hst]; decide) (hf hk h3)) rfl rfl rfl
      · split
        · rename_i h567
          have : a.ty = 5 ∨ a.ty = 6 ∨ a.ty = 7 := by simp at h567; omega
          exact none_res (all_one (OA_confirm (by omega)))
        · exact some_res hci (all_one (OA_raised _))

/-! ### AWAIT_CONFIRMATION -/

theorem A_awaitConf (g : p.Geo cfg cfgB dev devB) {now : Nat} {k : Key} {b : Body} {a : Apdu}
    (hci : (specA p cfg dev).CI k b) (hst : b.st = .awaitConf) (hid : a.invokeId = k.id)
    (hf : (specA p cfg dev).FC k b a) :
    Local.HRes (specA p cfg dev).CI (specA p cfg dev).OO k (clientAwaitConfirmation cfg now k b a) := by
  have hc : SendCtx p cfg dev k b := hci.1 (Or.inr hst)
  have hgen : k = p.kA → a.ty = 3 → Genuine p.TR a := fun hk h3 => (hf hk h3).genuine
  unfold clientAwaitConfirmation
  split
  · exact none_res (all_one (OA_confirm (by omega)))
  · split
    · rename_i h256
      have : a.ty = 2 ∨ a.ty = 5 ∨ a.ty = 6 := by simp at h256; omega
      exact none_res (all_one (OA_confirm (by omega)))
    · split
      · rename_i h3
        split
        · rename_i hns
          exact none_res (all_one (OA_confirm_whole hid (by simpa using hns) hgen))
        · rename_i hns
          have hseg : a.seg = true := by simpa using hns
          split
          · exact abortApp_A _ _
          · split
            · rename_i hseq
              refine some_res (CIA_recv rfl ⟨a, rfl, hid, ?_⟩)
                (all_one (OA_send_ctl (by simp [mkSegAck])))
              intro hk
              have hi : a.invokeId = p.id := by rw [hid, hk]; rfl
              exact recvBuf_first g h3 hi hseg hseq
                (genuine_first (by rw [hst]; decide) (hf hk h3)) rfl rfl rfl
            · exact abortBoth_A _ _
      · split
        · exact some_res (CIA_send (Or.inr hst) hc) all_nil
        · exact some_res hci (all_one (OA_raised _))

/-! ### SEGMENTED_CONFIRMATION -/

theorem A_segConf (g : p.Geo cfg cfgB dev devB) {now : Nat} {k : Key} {b : Body} {a : Apdu}
    (hci : (specA p cfg dev).CI k b) (hst : b.st = .segConf) (hid : a.invokeId = k.id)
    (hf : (specA p cfg dev).FC k b a) :
    Local.HRes (specA p cfg dev).CI (specA p cfg dev).OO k
      (clientSegmentedConfirmation cfg now k b a) := by
  obtain ⟨c, hctx, hcid, hbuf⟩ := hci.2 hst
  by_cases h4 : a.ty = 4
  · unfold clientSegmentedConfirmation; rw [if_pos h4]; exact some_res hci all_nil
  by_cases h3n : a.ty ≠ 3
  · unfold clientSegmentedConfirmation; rw [if_neg h4, if_pos h3n]; exact abortBoth_A _ _
  have h3 : a.ty = 3 := by omega
  by_cases hsegn : a.seg = false
  · unfold clientSegmentedConfirmation
    rw [if_neg h4, if_neg (fun hne => hne h3)]
    simp only [hsegn, Bool.not_false, if_true]
    exact abortBoth_A _ _
  have hseg : a.seg = true := by simpa using hsegn
  cases hw : b.window with
  | none =>
    unfold clientSegmentedConfirmation
    rw [if_neg h4, if_neg (fun hne => hne h3)]
    simp only [hseg, hw, Bool.not_true, Bool.false_eq_true, if_false]
    exact some_res hci (all_one (OA_raised _))
  | some w =>
    generalize hx : clientSegmentedConfirmation cfg now k b a = x
    obtain ⟨r, outs⟩ := x
    obtain ⟨hin, hout⟩ := client_append_in_order h3 hseg hw hctx hx
    have hack : ∀ nak s, (specA p cfg dev).OO (.send k.peer (mkSegAck nak false k.id s w)) :=
      fun nak s => OA_send_ctl (by simp [mkSegAck])
    by_cases hs : a.seq = (b.lastSeq + 1) % 256
    · obtain ⟨hmore, hlast⟩ := hin hs
      by_cases hk : k = p.kA
      · have hi' : a.invokeId = p.id := by rw [hid, hk]; rfl
        have hgen := hf hk h3 h3 hi'
        have hwf := g.wfR
        have hn1 : p.TR.count ≠ 1 := by
          intro h1; have := (hgen.1 h1).1; rw [hseg] at this; cases this
        obtain ⟨_, i, hi, hnear⟩ := hgen.2 hn1
        obtain ⟨j, c', w', hc', hj, hl, hd, hw'⟩ := hbuf hk
        have hnj := hnear.1 hst j ⟨c', w', hc', hj, hl, hd, hw'⟩
        rw [hctx] at hc'; cases hc'
        have hij : i = j + 1 := next_index hi hnj (by rw [hs, hl])
        subst hij
        cases hm : a.mor with
        | false =>
          obtain ⟨hr, ho⟩ := hlast hm
          subst hr; subst ho
          refine none_res (all_two (hack _ _) ⟨?_, ?_, ?_⟩)
          · intro q' a' e; cases e
          · intro q' a' e; cases e
          · intro q' a' e _ _ _; cases e
            show c.data ++ a.data = p.R
            rw [hd]; exact buf_complete hwf hi hm
        | true =>
          obtain ⟨b', hr, hb1, hb2, hb3, hb4, hcap, ho⟩ := hmore hm
          subst hr
          refine some_res (CIA_recv (hb3.trans hst) ⟨_, hb1, hcid, ?_⟩) ?_
          · intro _
            have hm' := hi.mor
            rw [hm] at hm'
            have hlt : j + 1 + 1 < p.TR.count := by simpa using hm'.symm
            refine ⟨j + 1, _, w, hb1, hlt, ?_, ?_, hb4.trans hw⟩
            · rw [hb2, hl]; omega
            · show c.data ++ a.data = _
              rw [hd]; exact buf_append hi
          · intro o ho'; rw [ho o ho']; exact hack _ _
      · cases hm : a.mor with
        | false =>
          obtain ⟨hr, ho⟩ := hlast hm
          subst hr; subst ho
          refine none_res (all_two (hack _ _) ⟨?_, ?_, ?_⟩)
          · intro q' a' e; cases e
          · intro q' a' e; cases e
          · intro q' a' e hq _ hi'; cases e
            exact absurd (key_is_kA hq (hcid.symm.trans hi')) hk
        | true =>
          obtain ⟨b', hr, hb1, hb2, hb3, hb4, hcap, ho⟩ := hmore hm
          subst hr
          refine some_res (CIA_recv (hb3.trans hst) ⟨_, hb1, hcid, fun h => absurd h hk⟩) ?_
          intro o ho'; rw [ho o ho']; exact hack _ _
    · obtain ⟨b', hr, hb1, hb2, hb3, hb4, hcap, ho⟩ := hout hs
      subst hr; subst ho
      refine some_res (CIA_recv (hb3.trans hst) ⟨c, hb1.trans hctx, hcid, ?_⟩) (all_one (hack _ _))
      intro hk
      obtain ⟨j, c', w', hc', hj, hl, hd, hw'⟩ := hbuf hk
      exact ⟨j, c', w', hb1.trans hc', hj, hb2.trans hl, hd, hb4.trans hw'⟩

theorem A_confirmation (g : p.Geo cfg cfgB dev devB) {now : Nat} {k : Key} {b : Body} {a : Apdu}
    (hci : (specA p cfg dev).CI k b) (hid : a.invokeId = k.id) (hf : (specA p cfg dev).FC k b a) :
    Local.HRes (specA p cfg dev).CI (specA p cfg dev).OO k (clientConfirmation cfg now k b a) := by
  unfold clientConfirmation
  split
  · rename_i hst; exact A_segReq g hci hst hid hf
  · rename_i hst; exact A_awaitConf g hci hst hid hf
  · rename_i hst; exact A_segConf g hci hst hid hf
  · exact some_res hci (all_one (OA_raised _))

/-! ### the transaction's timer -/

theorem A_timeout (g : p.Geo cfg cfgB dev devB) {now : Nat} {k : Key} {b : Body}
    (hci : (specA p cfg dev).CI k b) :
    Local.HRes (specA p cfg dev).CI (specA p cfg dev).OO k
      (clientTimeout cfg now (heldOf dev k { b with timer := none }) k { b with timer := none }) := by
  unfold clientTimeout
  split
  · rename_i hst
    have hst' : b.st = .segReq := hst
    have hc : SendCtx p cfg dev k b := hci.1 (Or.inl hst')
    split
    · dsimp only
      split
      · split
        · rename_i seg hseg
          exact some_res (CIA_send (Or.inl hst') hc)
            (all_one (OA_segment g (b := { b with timer := arm now cfg.segTimeout, segRetry := b.segRetry + 1 })
              hc hseg))
        · exact some_res (CIA_send (Or.inl hst') hc) (all_one (OA_raised _))
      · exact some_res (CIA_send (Or.inl hst') hc) (all_app (OA_sends g (b := _) hc) (OA_raisedOf _))
    · exact abortApp_A _ _
  · rename_i hst
    have hst' : b.st = .awaitConf := hst
    have hc : SendCtx p cfg dev k b := hci.1 (Or.inr hst')
    obtain ⟨c, hctx, hty, hid, hma, hms, hdi, hk⟩ := hc
    split
    · dsimp only
      have hheld : heldOf dev k { b with timer := none } = lookupDI dev k.peer :=
        heldOf_of_hasDI (b := { b with timer := none }) hdi
      rw [hheld]
      have hctx' : ({ b with timer := none } : Body).ctx = some c := hctx
      rw [hctx']
      dsimp only
      generalize hx : clientIndication cfg now (lookupDI dev k.peer) k _ c = x
      have hr := A_indication g (now := now) (k := k)
        (b0 := { b with timer := none, ctx := some c, retry := b.retry + 1 }) (req := c) hma hms hdi hty hid
        (fun h => ⟨(hk h).1, (hk h).2.1⟩)
      rw [hx] at hr
      obtain ⟨r, outs⟩ := x
      cases r with
      | none => exact none_res hr.2
      | some b' =>
        dsimp only
        have hb' := hr.1 b' rfl
        split
        · exact some_res hb' hr.2
        · refine some_res ?_ hr.2
          exact hb'
    · exact abortApp_A _ _
  · exact abortApp_A _ _
  · exact some_res hci (all_one (OA_raised _))

/-! ### `specA` is sound -/

theorem specA_sound (g : p.Geo cfg cfgB dev devB) : (specA p cfg dev).Sound where
  cConf := by intro now k b a h hid hf; exact A_confirmation g h hid hf
  cTime := by intro now k b h; exact A_timeout g h
  cNew := by
    intro now k service data hq
    rw [heldOf_new]
    exact A_indication g rfl rfl rfl rfl rfl hq
  sInd := by intro now k b a h; exact absurd h (by simp [specA])
  sNew := by intro now k a _ _ h; exact absurd h (by simp [specA])
  sConf := by intro now k b a h; exact absurd h (by simp [specA])
  sTime := by intro now k b h; exact absurd h (by simp [specA])
  rsAsap := by intro k b id r; exact ⟨trivial, trivial⟩
  oAnon := OA_anon
  oRaised := OA_raised
  oUnconfSend := by
    intro q service data
    refine ⟨?_, ?_, ?_⟩
    · intro q' a' e; cases e; right; left; rfl
    · intro q' a' e _; cases e; intro h0; simp at h0
    · intro q' a' e; cases e
  oUnconfInd := by intro q a _; exact OA_indicate q a

end BacVerif.Tsm
