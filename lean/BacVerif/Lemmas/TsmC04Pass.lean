/-
  Lemmas.TsmC04Pass — confirmations the ASAP hands to the application
  unchanged: SimpleAck, Reject, Abort always; a ComplexAck whose service
  decoder succeeds; an Error whose decoder succeeds.  If every confirmation the
  state machines produce in a step is of that kind, the application sees
  exactly the confirmations the state machines produced.
-/
import BacVerif.Lemmas.TsmC04Step
namespace BacVerif.Tsm
set_option linter.unusedSimpArgs false
set_option linter.unusedVariables false
variable {cfg : Cfg}

/-- `ASAP.confirmation(apdu)` forwards this PDU as it is -/
def Passes (cfg : Cfg) (a : Apdu) : Bool :=
  a.ty = 2 || a.ty = 6 || a.ty = 7 ||
  (a.ty = 3 && cfg.ackDecode a.service a.data == .ok) ||
  (a.ty = 5 && cfg.errDecode a.service a.data)

def Out.passes (cfg : Cfg) : Out → Bool
  | .confirm _ a => Passes cfg a
  | _ => true

theorem asapUp_pass (s : Sap) (p : Peer) (a : Apdu) (h : Passes cfg a = true) :
    asapUp cfg s (.confirm p a) = (s, [.confirm p a]) := by
  unfold asapUp
  dsimp only
  unfold Passes at h
  by_cases h2 : a.ty = 2
  · simp [h2]
  by_cases h6 : a.ty = 6
  · simp [h6]
  by_cases h7 : a.ty = 7
  · simp [h7]
  by_cases h3 : a.ty = 3
  · simp only [h3] at h ⊢
    cases hd : cfg.ackDecode a.service a.data <;> simp [hd] at h ⊢
  by_cases h5 : a.ty = 5
  · simp only [h5] at h ⊢
    by_cases he : cfg.errDecode a.service a.data = true <;> simp [he] at h ⊢
  · simp [h2, h6, h7, h3, h5] at h

theorem asapUp_confFor_eq (k : Key) (s : Sap) (o : Out) (h : o.passes cfg = true) :
    nConfFor k (asapUp cfg s o).2 = nConfFor k [o] := by
  cases o with
  | confirm p a => rw [asapUp_pass s p a h]
  | indicate p a =>
    have := asapUp_confFor (cfg := cfg) k s (.indicate p a)
    have h0 : nConfFor k [Out.indicate p a] = 0 := by simp [nConfFor, List.countP_cons, Out.isConfFor]
    omega
  | send p a => rfl
  | confirmAnon c e => rfl
  | raised r => rfl

theorem asapPass_confFor_eq (k : Key) : ∀ (outs : List Out) (s : Sap),
    outs.all (Out.passes cfg) = true →
    nConfFor k (asapPass cfg s outs).2 = nConfFor k outs := by
  intro outs
  induction outs with
  | nil => intro s _; rfl
  | cons o os ih =>
    intro s h
    simp only [List.all_cons, Bool.and_eq_true] at h
    simp only [asapPass]
    have h1 := asapUp_confFor_eq (cfg := cfg) k s o h.1
    have h2 := ih (asapUp cfg s o).1 h.2
    have : nConfFor k (o :: os) = nConfFor k [o] + nConfFor k os := by
      rw [← nConfFor_append]; rfl
    rw [nConfFor_append, this]
    omega

/-- **application boundary, exact** — when every confirmation produced in this
    step is one the ASAP forwards unchanged -/
theorem app_conf_step_exact (hpos : cfg.TimeoutsPos) {s : Sap} (hinv : Inv s) (e : Event) (k : Key)
    (hreq : ∀ p svc d ch, e = .request p svc d ch → requestKey s p ch ≠ k)
    (hpass : (smapStep cfg s e).2.all (Out.passes cfg) = true) :
    nConfFor k (step cfg s e).2 + liveC (step cfg s e).1 k = liveC s k := by
  have h := smap_conf_step hpos hinv e k hreq
  have h1 := asapPass_confFor_eq (cfg := cfg) k (smapStep cfg s e).2 (smapStep cfg s e).1 hpass
  have h2 := liveC_congr (asapPass_clients (cfg := cfg) (smapStep cfg s e).2 (smapStep cfg s e).1) k
  rw [step_eq, h2, h1]
  exact h

end BacVerif.Tsm
