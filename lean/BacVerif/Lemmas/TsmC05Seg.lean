/-
  Lemmas.TsmC05Seg — C05: genuine segment frames.

  * `Xfer`: a transfer (PDU type, invoke ID, payload, geometry);
    `IsSeg T i a`: frame `a` is segment `i` of it (sequence number `i % 256`,
    more-follows `i + 1 < count`, the `i`-th slice); `Genuine T a`: a data
    frame of the transfer's type and invoke ID is the whole payload
    (one-slice transfer) or one of its segments;
  * `getSegment_genuine`: everything `get_segment` builds is genuine for the
    transaction's own context and geometry — with the wire facts (window
    field, capability header of a request);
  * `fillWindow_genuine`: the same for every frame of `fill_window`, whose
    indices are consecutive from the start of the window;
  * receiver side: `RecvBuf` (the buffer is the concatenation of slices
    0..j, `lastSequenceNumber = j`) is extended by exactly the genuine
    segment `j+1` (`recvBuf_next`), and a complete buffer is the payload.
-/
import BacVerif.Lemmas.TsmC05Part
import BacVerif.Lemmas.TsmCap
namespace BacVerif.Tsm
set_option linter.unusedSimpArgs false
set_option linter.unusedVariables false

variable {cfg : Cfg}

/-- a transfer: PDU type (0 = request, 3 = response), invoke ID, payload, slice size, slice count -/
structure Xfer where
  ty : Nat
  id : Nat
  P : Bytes
  size : Nat
  count : Nat

/-- geometry that really cuts the payload (what `set_segment_size` produces, `segment_partition`) -/
structure Xfer.WF (T : Xfer) : Prop where
  pos : 1 ≤ T.count
  whole : slicesUpTo T.P T.size T.count = T.P

/-- frame `a` is segment `i` of the transfer -/
structure IsSeg (T : Xfer) (i : Nat) (a : Apdu) : Prop where
  lt : i < T.count
  seq : a.seq = i % 256
  mor : a.mor = decide (i + 1 < T.count)
  data : a.data = sliceOf T.P T.size i

/-- a data frame with the transfer's PDU type and invoke ID is genuine: the
    unsegmented whole when the transfer is one slice, otherwise a segment -/
def Genuine (T : Xfer) (a : Apdu) : Prop :=
  a.ty = T.ty → a.invokeId = T.id →
    (T.count = 1 → a.seg = false ∧ a.data = T.P) ∧
    (T.count ≠ 1 → a.seg = true ∧ ∃ i, IsSeg T i a)

/-- `Genuine`, with a constraint `N` on the index of the segment (the receiver
    theorems need "not 256 or more segments away from what I expect") -/
def GenuineN (T : Xfer) (N : Nat → Prop) (a : Apdu) : Prop :=
  a.ty = T.ty → a.invokeId = T.id →
    (T.count = 1 → a.seg = false ∧ a.data = T.P) ∧
    (T.count ≠ 1 → a.seg = true ∧ ∃ i, IsSeg T i a ∧ N i)

theorem GenuineN.genuine {T : Xfer} {N : Nat → Prop} {a : Apdu} (h : GenuineN T N a) : Genuine T a := by
  intro h1 h2
  obtain ⟨g1, g2⟩ := h h1 h2
  refine ⟨g1, fun hn => ?_⟩
  obtain ⟨s1, i, hi, _⟩ := g2 hn
  exact ⟨s1, i, hi⟩

/-- a genuine frame all of whose possible indices satisfy `N` -/
theorem Genuine.toN {T : Xfer} {N : Nat → Prop} {a : Apdu} (h : Genuine T a)
    (hN : ∀ i, IsSeg T i a → N i) : GenuineN T N a := by
  intro h1 h2
  obtain ⟨g1, g2⟩ := h h1 h2
  refine ⟨g1, fun hn => ?_⟩
  obtain ⟨s1, i, hi⟩ := g2 hn
  exact ⟨s1, i, hi, hN i hi⟩

theorem Xfer.WF.one {T : Xfer} (h : T.WF) (h1 : T.count = 1) : sliceOf T.P T.size 0 = T.P := by
  have := h.whole
  rw [h1] at this
  simpa [slicesUpTo] using this

/-- the capability header of a ConfirmedRequest (constant over all frames of a request) -/
structure ReqHdr (mr ms : Nat) (sa : Bool) (svc : Nat) (a : Apdu) : Prop where
  maxResp : a.maxResp = mr
  maxSegs : a.maxSegs = ms
  sa : a.sa = sa
  service : a.service = svc

/-! ### the sender: `get_segment`, `fill_window` -/

theorem getSegment_full {k : Key} {b : Body} {i w : Nat} {a c : Apdu}
    (hctx : b.ctx = some c) (h : getSegment cfg k b i w = .ok a) :
    ∃ hdr, segHeader cfg k b c = .ok hdr ∧ i < b.segCount ∧
      a = { segFlags cfg b i w hdr with data := sliceOf c.data b.segSize i } := by
  unfold getSegment at h
  rw [hctx] at h
  dsimp only at h
  split at h
  · cases h
  · rename_i hlt
    split at h
    · cases h
    · rename_i hdr hh
      injection h with h
      exact ⟨hdr, hh, by omega, h.symm⟩

theorem segHeader_req {k : Key} {b : Body} {c hdr : Apdu} (h : segHeader cfg k b c = .ok hdr)
    (h0 : c.ty = 0) :
    encodeMaxApdu b.maxApdu = .ok hdr.maxResp ∧ encodeMaxSegs b.maxSegs = .ok hdr.maxSegs ∧
    hdr.sa = cfg.seg.canRx ∧ hdr.service = c.service := by
  unfold segHeader at h
  rw [if_pos h0] at h
  split at h
  · cases h
  · rename_i ms hms
    split at h
    · cases h
    · rename_i mr hmr
      injection h with h
      subst h
      exact ⟨hmr, hms, rfl, rfl⟩

/-- **wire lemma (one segment).**  Segment `i` as `get_segment` builds it from
    the context `c`: type and invoke ID of the context; for a one-slice message
    the unsegmented whole slice, otherwise flagged segmented with sequence
    number `i % 256`, more-follows `= (i + 1 < count)`, the `i`-th slice; the
    first segment carries the proposed window, later ones the window passed
    in (the actual window, see `fillWindow_genuine`). -/
theorem getSegment_genuine {k : Key} {b : Body} {i w : Nat} {a c : Apdu}
    (hctx : b.ctx = some c) (hid : c.invokeId = k.id) (h : getSegment cfg k b i w = .ok a) :
    a.ty = c.ty ∧ a.invokeId = k.id ∧ i < b.segCount ∧
    (b.segCount = 1 → a.seg = false ∧ a.data = sliceOf c.data b.segSize i) ∧
    (b.segCount ≠ 1 → a.seg = true ∧ IsSeg ⟨c.ty, k.id, c.data, b.segSize, b.segCount⟩ i a ∧
        (i = 0 → a.win = cfg.window) ∧ (i ≠ 0 → a.win = w)) ∧
    (c.ty = 0 → ∀ mr ms, encodeMaxApdu b.maxApdu = .ok mr → encodeMaxSegs b.maxSegs = .ok ms →
        ReqHdr mr ms cfg.seg.canRx c.service a) := by
  obtain ⟨hdr, hh, hlt, ha⟩ := getSegment_full hctx h
  obtain ⟨hty, _, hsegf⟩ := segHeader_ty hh
  have hidh := segHeader_id hid hh
  subst ha
  refine ⟨?_, ?_, hlt, ?_, ?_, ?_⟩
  · unfold segFlags; split <;> exact hty
  · simp only [segFlags_id]; exact hidh
  · intro h1
    unfold segFlags
    simp [h1, hsegf]
  · intro h1
    unfold segFlags
    rw [if_pos h1]
    refine ⟨rfl, ⟨hlt, rfl, ?_, rfl⟩, ?_, ?_⟩
    · show decide (i < b.segCount - 1) = decide (i + 1 < b.segCount)
      apply decide_eq_decide.2; omega
    · intro h0; show (if i = 0 then cfg.window else w) = cfg.window; rw [if_pos h0]
    · intro h0; show (if i = 0 then cfg.window else w) = w; rw [if_neg h0]
  · intro h0 mr ms hmr hms
    obtain ⟨e1, e2, e3, e4⟩ := segHeader_req hh h0
    rw [hmr] at e1; rw [hms] at e2
    injection e1 with e1; injection e2 with e2
    unfold segFlags
    split <;> exact ⟨e1.symm, e2.symm, e3, e4⟩

/-- every frame of the `fill_window` loop is `get_segment(j)` for a `j` in the window -/
theorem fillLoop_index {k : Key} {b : Body} {w : Nat} :
    ∀ (n idx : Nat) (seg : Apdu), seg ∈ (fillLoop cfg k b w n idx).sent →
      ∃ j, idx ≤ j ∧ j < idx + n ∧ getSegment cfg k b j w = .ok seg := by
  intro n
  induction n with
  | zero => intro idx seg h; simp [fillLoop] at h
  | succ n ih =>
    intro idx seg h
    simp only [fillLoop] at h
    split at h
    · simp at h
    · rename_i s hs
      split at h
      · simp at h; subst h; exact ⟨idx, Nat.le_refl _, by omega, hs⟩
      · simp only [List.mem_cons] at h
        rcases h with h | h
        · subst h; exact ⟨idx, Nat.le_refl _, by omega, hs⟩
        · obtain ⟨j, h1, h2, h3⟩ := ih _ _ h
          exact ⟨j, by omega, by omega, h3⟩

/-- **wire lemma (`fill_window`).**  Every frame of one `fill_window(start)` is
    `get_segment(j)` with the actual window `w`, for a `j` with
    `start ≤ j < start + w`: never more than the agreed window in flight
    (`window_bound`). -/
theorem fillWindow_index {k : Key} {b : Body} {start w : Nat} (hw : b.window = some w) :
    ∀ seg ∈ (fillWindow cfg k b start).sent,
      ∃ j, start ≤ j ∧ j < start + w ∧ getSegment cfg k b j w = .ok seg := by
  intro seg h
  unfold fillWindow at h
  rw [hw] at h
  exact fillLoop_index _ _ _ h

theorem fillWindow_none {k : Key} {b : Body} {start : Nat} (hw : b.window = none) :
    (fillWindow cfg k b start).sent = [] := by
  unfold fillWindow; rw [hw]

/-! ### the receiver: the reassembly buffer -/

/-- the reassembly buffer of a receiving transaction at position `j`: segments
    0..j accepted in order, more to come, `lastSequenceNumber = j % 256`, a
    window agreed -/
def RecvAt (T : Xfer) (b : Body) (j : Nat) : Prop :=
  ∃ c w, b.ctx = some c ∧ j + 1 < T.count ∧ b.lastSeq = j % 256 ∧
    c.data = slicesUpTo T.P T.size (j + 1) ∧ b.window = some w

def RecvBuf (T : Xfer) (b : Body) : Prop := ∃ j, RecvAt T b j

/-- index `i` is less than 256 segments away from the segment the receiver
    expects next (with modulo-256 sequence numbers anything farther away is
    indistinguishable from the expected one) -/
def NearIdx (T : Xfer) (b : Body) (i : Nat) : Prop :=
  ∀ j, RecvAt T b j → i ≤ j + 256 ∧ j + 1 ≤ i + 255

/-- a near genuine segment whose sequence number is the next expected one IS the next segment -/
theorem next_index {T : Xfer} {i j : Nat} {a : Apdu} (hs : IsSeg T i a)
    (hnear : i ≤ j + 256 ∧ j + 1 ≤ i + 255) (hseq : a.seq = (j % 256 + 1) % 256) : i = j + 1 := by
  have h2 := hs.seq
  rw [h2] at hseq
  omega

/-- … and one of the first 256 segments with sequence number 0 is the first -/
theorem first_index {T : Xfer} {i : Nat} {a : Apdu} (hs : IsSeg T i a) (h256 : i < 256)
    (hseq : a.seq = 0) : i = 0 := by
  have h2 := hs.seq
  rw [h2] at hseq
  omega

/-- in a transfer of at most 256 segments every index is near -/
theorem near_of_le256 {T : Xfer} (h256 : T.count ≤ 256) {b : Body} {i : Nat} (hi : i < T.count) :
    NearIdx T b i := by
  intro j hj
  obtain ⟨_, _, _, hlt, _⟩ := hj
  omega

/-- appending the next genuine segment extends the concatenation by one slice -/
theorem buf_append {T : Xfer} {j : Nat} {a : Apdu} (hs : IsSeg T (j + 1) a) :
    slicesUpTo T.P T.size (j + 1) ++ a.data = slicesUpTo T.P T.size (j + 2) := by
  rw [hs.data, ← slicesUpTo_succ]

/-- the last segment completes the payload -/
theorem buf_complete {T : Xfer} (hwf : T.WF) {j : Nat} {a : Apdu} (hs : IsSeg T (j + 1) a)
    (hm : a.mor = false) : slicesUpTo T.P T.size (j + 1) ++ a.data = T.P := by
  rw [buf_append hs]
  have := hs.mor
  rw [hm] at this
  have hlt := hs.lt
  have : ¬ (j + 1 + 1 < T.count) := by
    intro hc
    simp [hc] at this
  have : T.count = j + 2 := by omega
  rw [← this]; exact hwf.whole

/-! ### in-order acceptance (any frame, genuine or not) -/

/-- what the peer announced and what the transaction holds of the cache stay as they are -/
def Body.sameCaps (b b' : Body) : Prop :=
  b'.maxApdu = b.maxApdu ∧ b'.hasDI = b.hasDI ∧ b'.maxSegs = b.maxSegs ∧ b'.sra = b.sra

/-- **append_in_order (client, SEGMENTED_CONFIRMATION).**  A segment frame of a
    ComplexAck is appended iff its sequence number is `(last+1) % 256`; any
    other one leaves buffer, last sequence number, state and window unchanged
    and is answered by exactly one negative ack naming the last accepted
    segment.  The last segment (more-follows clear) hands the reassembled
    message to the application. -/
theorem client_append_in_order {now : Nat} {k : Key} {b : Body} {a c : Apdu} {w : Nat}
    {r : Option Body} {outs : List Out} (hty : a.ty = 3) (hseg : a.seg = true)
    (hw : b.window = some w) (hc : b.ctx = some c)
    (h : clientSegmentedConfirmation cfg now k b a = (r, outs)) :
    (a.seq = (b.lastSeq + 1) % 256 →
      (a.mor = true → ∃ b', r = some b' ∧ b'.ctx = some { c with data := c.data ++ a.data } ∧
          b'.lastSeq = (b.lastSeq + 1) % 256 ∧ b'.st = b.st ∧ b'.window = b.window ∧ b.sameCaps b' ∧
          ∀ o ∈ outs, o = .send k.peer (mkSegAck false false k.id ((b.lastSeq + 1) % 256) w)) ∧
      (a.mor = false → r = none ∧
          outs = [.send k.peer (mkSegAck false false k.id ((b.lastSeq + 1) % 256) w),
                  .confirm k.peer { c with data := c.data ++ a.data }])) ∧
    (a.seq ≠ (b.lastSeq + 1) % 256 →
      ∃ b', r = some b' ∧ b'.ctx = b.ctx ∧ b'.lastSeq = b.lastSeq ∧ b'.st = b.st ∧
        b'.window = b.window ∧ b.sameCaps b' ∧
        outs = [.send k.peer (mkSegAck true false k.id b.lastSeq w)]) := by
  unfold clientSegmentedConfirmation at h
  simp only [hty, hseg, hw, hc] at h
  simp at h
  split at h
  · rename_i hs
    split at h
    · rename_i hm
      simp only [Prod.mk.injEq] at h; obtain ⟨rfl, rfl⟩ := h; simp [hs, hm, Body.sameCaps]
    · split at h <;> (simp only [Prod.mk.injEq] at h; obtain ⟨rfl, rfl⟩ := h; simp_all [Body.sameCaps])
  · rename_i hs
    simp only [Prod.mk.injEq] at h; obtain ⟨rfl, rfl⟩ := h; simp [hs, hw, hc, Body.sameCaps]

/-- **append_in_order (server, SEGMENTED_REQUEST).**  The same for the segments
    of a ConfirmedRequest; the negative ack names the start of the window
    (`initialSequenceNumber`: the last segment acknowledged), the complete
    request is indicated to the application. -/
theorem server_append_in_order {now : Nat} {k : Key} {b : Body} {a c : Apdu} {w : Nat}
    {r : Option Body} {outs : List Out} (hty : a.ty = 0) (hseg : a.seg = true)
    (hw : b.window = some w) (hc : b.ctx = some c)
    (h : serverSegmentedRequest cfg now k b a = (r, outs)) :
    (a.seq = (b.lastSeq + 1) % 256 →
      (a.mor = true → ∃ b', r = some b' ∧ b'.ctx = some { c with data := c.data ++ a.data } ∧
          b'.lastSeq = (b.lastSeq + 1) % 256 ∧ b'.st = b.st ∧ b'.window = b.window ∧ b.sameCaps b' ∧
          ∀ o ∈ outs, o = .send k.peer (mkSegAck false true k.id ((b.lastSeq + 1) % 256) w)) ∧
      (a.mor = false → (∃ b', r = some b' ∧ b'.st = .awaitResp ∧ b.sameCaps b') ∧
          outs = [.send k.peer (mkSegAck false true k.id ((b.lastSeq + 1) % 256) w),
                  .indicate k.peer { c with data := c.data ++ a.data }])) ∧
    (a.seq ≠ (b.lastSeq + 1) % 256 →
      ∃ b', r = some b' ∧ b'.ctx = b.ctx ∧ b'.lastSeq = b.lastSeq ∧ b'.st = b.st ∧
        b'.window = b.window ∧ b.sameCaps b' ∧
        outs = [.send k.peer (mkSegAck true true k.id b.initSeq w)]) := by
  unfold serverSegmentedRequest at h
  simp only [hty, hseg, hw, hc] at h
  simp at h
  split at h
  · rename_i hs
    split at h
    · rename_i hm
      simp only [Prod.mk.injEq] at h; obtain ⟨rfl, rfl⟩ := h; simp [hs, hm, Body.sameCaps]
    · split at h <;> (simp only [Prod.mk.injEq] at h; obtain ⟨rfl, rfl⟩ := h; simp_all [Body.sameCaps])
  · rename_i hs
    simp only [Prod.mk.injEq] at h; obtain ⟨rfl, rfl⟩ := h; simp [hs, hw, hc, Body.sameCaps]

/-- duplicates never extend the buffer: a frame repeating the last accepted
    sequence number (or any earlier one of the window) is not the next one -/
theorem duplicate_not_next {last seq : Nat} (hl : last < 256) (hd : seq = last) :
    seq ≠ (last + 1) % 256 := by
  subst hd
  intro h
  rcases Nat.lt_or_ge (seq + 1) 256 with h1 | h1
  · rw [Nat.mod_eq_of_lt h1] at h; omega
  · have : seq + 1 = 256 := by omega
    rw [this] at h; simp at h; omega

end BacVerif.Tsm
