/-
  Lemmas.C03Field — one element of Sequence.encode / Sequence.decode:
  encoding then decoding an element gives the value back and leaves exactly
  what followed, provided what follows satisfies the element's follow condition.
-/
import BacVerif.Lemmas.C03Basic
namespace BacVerif.C03
open BacVerif BacVerif.Schema BacVerif.Codec BacVerif.SchemaWF

section
variable (env : Env) (I : Table) (enc : Enc) (dec : Dec) (conf : Nat → Val → Bool)

/-- what the induction provides for a class index `j` below the current one -/
def Good (j : Nat) : Prop :=
  ∀ v, conf j v = true → ∃ ts, enc j v = .ok ts ∧
    HeadOK (look I j).first (look I j).nullable ts ∧
    ∀ rest, Safe (look I j).confus rest → dec j (ts ++ rest) = .ok (v, rest)

/-- a list class decodes to `[]` at the end / before a closing tag -/
def ListStop (j : Nat) : Prop :=
  ∀ tags v r, (tags = [] ∨ ∃ t r', tags = t :: r' ∧ t.cls = .closing) →
    dec j tags = .ok (v, r) → v = .list []

/-- a first tag the class does not announce makes its decoder raise InvalidTag /
    DecodingError — what `except (DecodingError, InvalidTag)` in Sequence.decode relies on -/
def FailFast (j : Nat) : Prop :=
  (look I j).ff = true → ∀ t r, t.cls ≠ .closing → (∀ p ∈ (look I j).first, p.matches t = false) →
    ∃ e, dec j (t :: r) = .error e ∧ (e = .decoding ∨ e = .invalidTag)

/-- structural validity of the attribute value of one element -/
def confField (f : Field) (ov : Option Val) : Bool :=
  match ov with
  | none => f.opt
  | some v => conformsRef env conf f.ref v

/-- an omitted optional element -/
theorem field_absent (τ : Nat) (f : Field)
    (hff : ∀ j, j < τ → FailFast I dec j)
    (hsane : fieldSane env I τ f = true) (hopt : f.opt = true)
    (tail : List Tag) (hs : Safe (fieldConfus env I f) tail) :
    decodeField env dec f tail = .ok (none, tail) := by
  obtain ⟨ref, ctx, opt⟩ := f
  simp only at hopt
  subst hopt
  cases tail with
  | nil => simp [decodeField]
  | cons t r =>
    by_cases hcl : t.cls = .closing
    · simp [decodeField, hcl]
    · rcases Safe.cons_iff.mp hs with h | h
      · exact absurd h hcl
      · unfold decodeField
        simp only [hcl, ↓reduceIte]
        unfold fieldConfus fieldFirst at h
        unfold fieldSane at hsane
        cases hk : kindOf env ref with
        | struct j =>
          cases ctx with
          | some c => simp_all [Pat.matches]
          | none =>
            -- try / restore: the structure inside refuses the tag with a caught error
            rw [hk] at hsane h
            simp only [Bool.and_eq_true, decide_eq_true_eq, Bool.not_eq_eq_eq_not, Bool.not_true,
              Bool.not_true, Bool.or_eq_true, Bool.true_and] at hsane
            have hffj : (look I j).ff = true := by
              rcases hsane.2 with h' | h'
              · simp at h'
              · exact h'
            obtain ⟨e, he, hee⟩ := hff j hsane.1.1 hffj t r hcl
              (fun p hp => h p (by simp [hp]))
            simp [he, hee]
        | prim a => cases ctx <;> simp_all [Pat.matches]
        | anyAtomic => cases ctx <;> simp_all [Pat.matches]
        | seqOf j => cases ctx <;> simp_all [Pat.matches]
        | listOf j => cases ctx <;> simp_all [Pat.matches]
        | bad => cases ctx <;> simp_all [Pat.matches]

/-- `expectClose` right after the content -/
theorem expectClose_closeTag (c : Nat) (tail : List Tag) : expectClose c (closeTag c :: tail) = .ok tail := by
  simp [expectClose, isClose, closeTag]

/-- an atomic element that is present -/
theorem field_present_prim (f : Field) (a : Nat) (hk : kindOf env f.ref = .prim a)
    (v : Val) (hc : conformsRef env conf f.ref v = true) :
    ∃ ts, encodeField env enc f (some v) = .ok ts ∧
      HeadOK (fieldFirst env I f) (fieldNullable env I f) ts ∧
      ∀ tail, decodeField env dec f (ts ++ tail) = .ok (some v, tail) := by
  obtain ⟨ref, ctx, opt⟩ := f
  simp only at hk hc
  have hr : ref = .prim a := by
    cases ref with
    | prim b => simp [kindOf] at hk; subst hk; rfl
    | anyAtomic => simp [kindOf] at hk
    | ty i => simp only [kindOf] at hk; split at hk <;> simp at hk
  subst hr
  unfold conformsRef at hc
  rw [hk] at hc
  cases v with
  | prim lvt data =>
    simp only at hc
    cases ctx with
    | none =>
      refine ⟨[⟨.app, a, lvt, data⟩], ?_, ?_, ?_⟩
      · simp [encodeField, hk, encodeLeaf, leafTag]
      · simp [HeadOK, fieldFirst, hk, Pat.matches, isApp]
      · intro tail
        simp [decodeField, hk, isApp, prim_app_roundtrip hc]
    | some c =>
      obtain ⟨t, ht, hcls, hnum, t', ht', hp⟩ := prim_ctx_roundtrip c hc
      refine ⟨[t], ?_, ?_, ?_⟩
      · simp [encodeField, hk, encodeLeaf, leafTag, ht]
      · simp [HeadOK, fieldFirst, hk, Pat.matches, isCtx, hcls, hnum]
      · intro tail
        simp [decodeField, hk, isCtx, hcls, hnum, ht', hp]
  | _ => simp at hc

/-- an `AnyAtomic` element that is present -/
theorem field_present_atom (τ : Nat) (f : Field) (hk : kindOf env f.ref = .anyAtomic)
    (hsane : fieldSane env I τ f = true)
    (v : Val) (hc : conformsRef env conf f.ref v = true) :
    ∃ ts, encodeField env enc f (some v) = .ok ts ∧
      HeadOK (fieldFirst env I f) (fieldNullable env I f) ts ∧
      ∀ tail, decodeField env dec f (ts ++ tail) = .ok (some v, tail) := by
  obtain ⟨ref, ctx, opt⟩ := f
  simp only at hk hc
  have hr : ref = .anyAtomic := by
    cases ref with
    | prim b => simp [kindOf] at hk
    | anyAtomic => rfl
    | ty i => simp only [kindOf] at hk; split at hk <;> simp at hk
  subst hr
  unfold conformsRef at hc
  rw [hk] at hc
  unfold fieldSane at hsane
  rw [hk] at hsane
  cases ctx with
  | some c => simp at hsane
  | none =>
    cases v with
    | atom a lvt data =>
      simp only [Bool.and_eq_true, decide_eq_true_eq] at hc
      refine ⟨[⟨.app, a, lvt, data⟩], ?_, ?_, ?_⟩
      · simp [encodeField, hk, encodeLeaf, leafTag]
      · simp [HeadOK, fieldFirst, hk, Pat.matches]
      · intro tail
        simp [decodeField, hk, atom_roundtrip hc.1 hc.2]
    | _ => simp at hc

theorem isOpen_openTag (c : Nat) : isOpen c (openTag c) = true := by simp [isOpen, openTag]

/-- a constructed element (SequenceOf / ListOf / structure) that is present -/
theorem field_present_ty (τ : Nat) (f : Field) (j : Nat)
    (hk : kindOf env f.ref = .seqOf j ∨ kindOf env f.ref = .listOf j ∨ kindOf env f.ref = .struct j)
    (hgood : Good I enc dec conf j)
    (hstop : kindOf env f.ref ≠ .struct j → ListStop dec j)
    (hsane : fieldSane env I τ f = true)
    (v : Val) (hc : conformsRef env conf f.ref v = true) :
    ∃ ts, encodeField env enc f (some v) = .ok ts ∧
      HeadOK (fieldFirst env I f) (fieldNullable env I f) ts ∧
      ∀ tail, Safe (fieldConfus env I f) tail → decodeField env dec f (ts ++ tail) = .ok (some v, tail) := by
  obtain ⟨ref, ctx, opt⟩ := f
  simp only at hk hc hstop
  have hcj : conf j v = true := by
    unfold conformsRef at hc
    rcases hk with hk | hk | hk <;> rw [hk] at hc <;> simpa using hc
  obtain ⟨ts, he, hh, hrt⟩ := hgood v hcj
  cases ctx with
  | some c =>
    refine ⟨openTag c :: (ts ++ [closeTag c]), ?_, ?_, ?_⟩
    · rcases hk with hk | hk | hk <;> simp [encodeField, hk, he, wrap]
    · rcases hk with hk | hk | hk <;>
        simp [HeadOK, fieldFirst, hk, Pat.matches, isOpen_openTag] <;> simp [openTag]
    · intro tail _
      have hdec : dec j (ts ++ closeTag c :: tail) = .ok (v, closeTag c :: tail) :=
        hrt (closeTag c :: tail) (Safe.closing _ _ (by simp [closeTag]))
      have hne : (openTag c).cls ≠ .closing := by simp [openTag]
      rcases hk with hk | hk | hk <;>
        simp [decodeField, hk, hne, isOpen_openTag, hdec, expectClose_closeTag]
  | none =>
    -- a list without context cannot be optional
    have hopt : kindOf env ref ≠ .struct j → opt = false := by
      intro hns
      unfold fieldSane at hsane
      rcases hk with hk | hk | hk
      · rw [hk] at hsane; simp at hsane; exact hsane.2
      · rw [hk] at hsane; simp at hsane; exact hsane.2
      · exact absurd hk hns
    have hconfus : ∀ p ∈ (look I j).confus, p ∈ fieldConfus env I ⟨ref, none, opt⟩ := by
      intro p hp
      unfold fieldConfus
      rcases hk with hk | hk | hk <;> simp [hk, hp]
    refine ⟨ts, ?_, ?_, ?_⟩
    · rcases hk with hk | hk | hk <;> simp [encodeField, hk, he, wrap]
    · have h1 : fieldFirst env I ⟨ref, none, opt⟩ = (look I j).first := by
        unfold fieldFirst
        rcases hk with hk | hk | hk <;> simp [hk]
      have h2 : fieldNullable env I ⟨ref, none, opt⟩ = (opt || (look I j).nullable) := by
        unfold fieldNullable
        rcases hk with hk | hk | hk <;> simp [hk]
      rw [h1, h2]
      cases ts with
      | nil => simp only [HeadOK] at hh ⊢; simp [hh]
      | cons t r => exact hh
    · intro tail hs
      have hdec := hrt tail (Safe.mono hs hconfus)
      -- a structure that may be empty is excluded by `fieldSane`
      have hstruct : kindOf env ref = .struct j → ts ≠ [] := by
        intro hk' hts
        subst hts
        unfold fieldSane at hsane
        rw [hk'] at hsane
        simp only [HeadOK] at hh
        simp [hh] at hsane
      cases hall : ts ++ tail with
      | nil =>
        have hts : ts = [] := (List.append_eq_nil_iff.mp hall).1
        have htl : tail = [] := (List.append_eq_nil_iff.mp hall).2
        subst hts htl
        rcases hk with hk | hk | hk
        · have := hstop (by simp [hk]) [] v [] (Or.inl rfl) (by simpa using hdec)
          subst this
          have := hopt (by simp [hk]); subst this
          simp [decodeField, hk]
        · have := hstop (by simp [hk]) [] v [] (Or.inl rfl) (by simpa using hdec)
          subst this
          have := hopt (by simp [hk]); subst this
          simp [decodeField, hk]
        · exact absurd rfl (hstruct hk)
      | cons t r =>
        rw [hall] at hdec
        by_cases hcl : t.cls = .closing
        · -- the encoding itself is empty: its first tag would not be a closing tag
          have hts : ts = [] := by
            cases ts with
            | nil => rfl
            | cons t' r' =>
              simp only [List.cons_append, List.cons.injEq] at hall
              obtain ⟨rfl, _⟩ := hall
              exact absurd hcl hh.1
          subst hts
          simp only [List.nil_append] at hall
          subst hall
          rcases hk with hk | hk | hk
          · have := hstop (by simp [hk]) (t :: r) v (t :: r) (Or.inr ⟨t, r, rfl, hcl⟩) hdec
            subst this
            have := hopt (by simp [hk]); subst this
            simp [decodeField, hk, hcl]
          · have := hstop (by simp [hk]) (t :: r) v (t :: r) (Or.inr ⟨t, r, rfl, hcl⟩) hdec
            subst this
            have := hopt (by simp [hk]); subst this
            simp [decodeField, hk, hcl]
          · exact absurd rfl (hstruct hk)
        · rcases hk with hk | hk | hk <;> simp [decodeField, hk, hcl, hdec]

/-- the references of a sane element point below `τ` -/
theorem field_ref_ok (τ : Nat) (f : Field) (j : Nat)
    (hk : kindOf env f.ref = .seqOf j ∨ kindOf env f.ref = .listOf j ∨ kindOf env f.ref = .struct j)
    (hsane : fieldSane env I τ f = true) : j < τ := by
  obtain ⟨ref, ctx, opt⟩ := f
  unfold fieldSane at hsane
  simp only at hk
  rcases hk with hk | hk | hk <;> rw [hk] at hsane <;> cases ctx <;> simp_all

/-- ONE ELEMENT: encode, then decode in front of anything satisfying the follow condition -/
theorem goodField (τ : Nat) (f : Field)
    (hgood : ∀ j, j < τ → Good I enc dec conf j)
    (hff : ∀ j, j < τ → FailFast I dec j)
    (hstop : ∀ r j, (kindOf env r = .seqOf j ∨ kindOf env r = .listOf j) → ListStop dec j)
    (hsane : fieldSane env I τ f = true)
    (ov : Option Val) (hc : confField env conf f ov = true) :
    ∃ ts, encodeField env enc f ov = .ok ts ∧
      HeadOK (fieldFirst env I f) (fieldNullable env I f) ts ∧
      ∀ tail, Safe (fieldConfus env I f) tail → decodeField env dec f (ts ++ tail) = .ok (ov, tail) := by
  cases ov with
  | none =>
    simp only [confField] at hc
    refine ⟨[], by simp [encodeField, hc], by simp [HeadOK, fieldNullable, hc], ?_⟩
    intro tail hs
    exact field_absent env I dec τ f hff hsane hc tail hs
  | some v =>
    simp only [confField] at hc
    cases hk : kindOf env f.ref with
    | prim a =>
      obtain ⟨ts, h1, h2, h3⟩ := field_present_prim env I enc dec conf f a hk v hc
      exact ⟨ts, h1, h2, fun tail _ => h3 tail⟩
    | anyAtomic =>
      obtain ⟨ts, h1, h2, h3⟩ := field_present_atom env I enc dec conf τ f hk hsane v hc
      exact ⟨ts, h1, h2, fun tail _ => h3 tail⟩
    | seqOf j =>
      have hr := field_ref_ok env I τ f j (Or.inl hk) hsane
      exact field_present_ty env I enc dec conf τ f j (Or.inl hk) (hgood j hr)
        (fun _ => hstop f.ref j (Or.inl hk)) hsane v hc
    | listOf j =>
      have hr := field_ref_ok env I τ f j (Or.inr (Or.inl hk)) hsane
      exact field_present_ty env I enc dec conf τ f j (Or.inr (Or.inl hk)) (hgood j hr)
        (fun _ => hstop f.ref j (Or.inr hk)) hsane v hc
    | struct j =>
      have hr := field_ref_ok env I τ f j (Or.inr (Or.inr hk)) hsane
      exact field_present_ty env I enc dec conf τ f j (Or.inr (Or.inr hk)) (hgood j hr)
        (fun h => absurd hk h) hsane v hc
    | bad =>
      unfold fieldSane at hsane
      rw [hk] at hsane
      simp at hsane
end

end BacVerif.C03
