/-
  Lemmas.AddrIP — the bitwise IP arithmetic of `decode_address`
  (`(_long_mask << (32-n)) & _long_mask`, `ip & mask`, `ip & ~mask`,
  `(subnet | ~mask) & _long_mask`) equals the arithmetic the notation denotes,
  for every 32-bit address and each of the 33 mask lengths.
-/
import BacVerif.Model.Addr
namespace BacVerif.Addr
open BacVerif

/-- the 33 masks, by kernel evaluation of the shift-and-mask expression -/
theorem maskOf_eq (n : Nat) (h : n ≤ 32) : maskOf n = 2 ^ 32 - 2 ^ (32 - n) := by
  have : ∀ n : Fin 33, maskOf n = 2 ^ 32 - 2 ^ (32 - n.val) := by decide
  exact this ⟨n, by omega⟩

theorem not32_maskOf (n : Nat) (h : n ≤ 32) : not32 (maskOf n) = 2 ^ (32 - n) - 1 := by
  have : ∀ n : Fin 33, not32 (maskOf n) = 2 ^ (32 - n.val) - 1 := by decide
  exact this ⟨n, by omega⟩

/-- `ip & ~mask` is the remainder modulo the block size -/
theorem hostOf_eq (ip n : Nat) (h : n ≤ 32) : hostOf ip (maskOf n) = ip % 2 ^ (32 - n) := by
  rw [hostOf, not32_maskOf n h, Nat.and_two_pow_sub_one_eq_mod]

/-- bit `i` of `2^32 - 2^k` -/
theorem testBit_blockMask (k i : Nat) (hk : k ≤ 32) :
    (2 ^ 32 - 2 ^ k).testBit i = (decide (i < 32) && !decide (i < k)) := by
  have hpos : 0 < 2 ^ k := Nat.two_pow_pos _
  have hlt : 2 ^ k - 1 < 2 ^ 32 := by
    have : 2 ^ k ≤ 2 ^ 32 := Nat.pow_le_pow_right (by decide) hk
    omega
  have := Nat.testBit_two_pow_sub_succ hlt i
  rw [show 2 ^ 32 - (2 ^ k - 1 + 1) = 2 ^ 32 - 2 ^ k by omega] at this
  rw [this, Nat.testBit_two_pow_sub_one]

/-- `ip & mask` clears the low `32-n` bits: test-bit argument -/
theorem and_blockMask (ip k : Nat) (hip : ip < 2 ^ 32) (hk : k ≤ 32) :
    ip &&& (2 ^ 32 - 2 ^ k) = 2 ^ k * (ip / 2 ^ k) := by
  apply Nat.eq_of_testBit_eq
  intro i
  rw [Nat.testBit_and, testBit_blockMask k i hk, Nat.testBit_two_pow_mul, Nat.testBit_div_two_pow]
  by_cases h1 : i < k
  · simp [h1]; omega
  · have h2 : k ≤ i := by omega
    by_cases h3 : i < 32
    · simp [h1, h2, h3, Nat.sub_add_cancel h2]
    · have : ip.testBit i = false := by
        apply Nat.testBit_lt_two_pow
        exact Nat.lt_of_lt_of_le hip (Nat.pow_le_pow_right (by decide) (by omega))
      simp [h1, h2, h3, Nat.sub_add_cancel h2, this]

theorem subnetOf_eq (ip n : Nat) (hip : ip < 2 ^ 32) (h : n ≤ 32) :
    subnetOf ip (maskOf n) = ip - ip % 2 ^ (32 - n) := by
  rw [subnetOf, maskOf_eq n h, and_blockMask ip (32 - n) hip (by omega)]
  have := Nat.div_add_mod ip (2 ^ (32 - n))
  omega

theorem bcastOf_eq (ip n : Nat) (hip : ip < 2 ^ 32) (h : n ≤ 32) :
    bcastOf ip (maskOf n) = ip - ip % 2 ^ (32 - n) + (2 ^ (32 - n) - 1) := by
  have hpos : 0 < 2 ^ (32 - n) := Nat.two_pow_pos _
  have hs : subnetOf ip (maskOf n) = 2 ^ (32 - n) * (ip / 2 ^ (32 - n)) := by
    rw [subnetOf, maskOf_eq n h, and_blockMask ip (32 - n) hip (by omega)]
  have hor := Nat.two_pow_add_eq_or_of_lt (i := 32 - n) (b := 2 ^ (32 - n) - 1) (by omega)
    (ip / 2 ^ (32 - n))
  have hdm := Nat.div_add_mod ip (2 ^ (32 - n))
  -- the value stays below 2^32, so the final `& _long_mask` changes nothing
  have hq : ip / 2 ^ (32 - n) < 2 ^ n := by
    rw [Nat.div_lt_iff_lt_mul hpos, ← Nat.pow_add]
    rw [show n + (32 - n) = 32 by omega]; exact hip
  have hbound : 2 ^ (32 - n) * (ip / 2 ^ (32 - n)) + (2 ^ (32 - n) - 1) < 2 ^ 32 := by
    have h1 : 2 ^ (32 - n) * (ip / 2 ^ (32 - n) + 1) ≤ 2 ^ (32 - n) * 2 ^ n :=
      Nat.mul_le_mul_left _ hq
    rw [← Nat.pow_add, show 32 - n + n = 32 by omega, Nat.mul_add] at h1
    omega
  rw [bcastOf, hs, not32_maskOf n h, ← hor]
  rw [show longMask = 2 ^ 32 - 1 by decide, Nat.and_two_pow_sub_one_eq_mod, Nat.mod_eq_of_lt hbound]
  omega

/-- subnet and host split the address; the host part is below the block size;
    the directed broadcast is the last address of the block -/
theorem ip_split (ip n : Nat) (hip : ip < 2 ^ 32) (h : n ≤ 32) :
    subnetOf ip (maskOf n) + hostOf ip (maskOf n) = ip ∧
    hostOf ip (maskOf n) < 2 ^ (32 - n) ∧
    subnetOf ip (maskOf n) % 2 ^ (32 - n) = 0 ∧
    bcastOf ip (maskOf n) = subnetOf ip (maskOf n) + (2 ^ (32 - n) - 1) ∧
    subnetOf ip (maskOf n) ≤ ip ∧ ip ≤ bcastOf ip (maskOf n) ∧ bcastOf ip (maskOf n) < 2 ^ 32 := by
  have hpos : 0 < 2 ^ (32 - n) := Nat.two_pow_pos _
  have hm := Nat.mod_lt ip hpos
  have hle := Nat.mod_le ip (2 ^ (32 - n))
  have hs : subnetOf ip (maskOf n) = 2 ^ (32 - n) * (ip / 2 ^ (32 - n)) := by
    rw [subnetOf, maskOf_eq n h, and_blockMask ip (32 - n) hip (by omega)]
  have hq : ip / 2 ^ (32 - n) < 2 ^ n := by
    rw [Nat.div_lt_iff_lt_mul hpos, ← Nat.pow_add]
    rw [show n + (32 - n) = 32 by omega]; exact hip
  have h1 : 2 ^ (32 - n) * (ip / 2 ^ (32 - n) + 1) ≤ 2 ^ (32 - n) * 2 ^ n :=
    Nat.mul_le_mul_left _ hq
  rw [← Nat.pow_add, show 32 - n + n = 32 by omega, Nat.mul_add] at h1
  have hdm := Nat.div_add_mod ip (2 ^ (32 - n))
  rw [bcastOf_eq ip n hip h, hostOf_eq ip n h, subnetOf_eq ip n hip h]
  refine ⟨by omega, hm, ?_, by omega, by omega, by omega, by omega⟩
  have : ip - ip % 2 ^ (32 - n) = 2 ^ (32 - n) * (ip / 2 ^ (32 - n)) := by omega
  rw [this, Nat.mul_mod_right]

end BacVerif.Addr
