/-
  Lemmas.SchedCal — the model's Gregorian arithmetic is a calendar:
  the successor day advances the ordinal by exactly one, `civil` inverts
  `dayNum`, the ordinal orders dates like the (y, m, d) tuples, and the clock
  decomposition `dateOf`/`timeOf` recombines through `datetimeToTime`.
-/
import BacVerif.Model.Schedule
namespace BacVerif.Sched

/-! ## declarative calendar facts -/

/-- Gregorian leap year, as the rule is usually said -/
def Leap (Y : Nat) : Prop := (Y % 4 = 0 ∧ Y % 100 ≠ 0) ∨ Y % 400 = 0

theorem isLeap_iff (y : Nat) : isLeap y = true ↔ Leap (1900 + y) := by
  simp [isLeap, Leap]

instance (Y : Nat) : Decidable (Leap Y) := by unfold Leap; exact inferInstance

/-- "thirty days hath September, April, June and November; all the rest have
    thirty-one, excepting February alone" -/
def SpecMonthLen (Y m : Nat) : Nat :=
  if m = 9 ∨ m = 4 ∨ m = 6 ∨ m = 11 then 30
  else if m = 2 then (if Leap Y then 29 else 28) else 31

theorem monthLen_spec (y m : Nat) (h1 : 1 ≤ m) (h12 : m ≤ 12) :
    monthLen y m = SpecMonthLen (1900 + y) m := by
  have hm : m = 1 ∨ m = 2 ∨ m = 3 ∨ m = 4 ∨ m = 5 ∨ m = 6 ∨ m = 7 ∨ m = 8 ∨ m = 9 ∨ m = 10 ∨
      m = 11 ∨ m = 12 := by omega
  rcases hm with h | h | h | h | h | h | h | h | h | h | h | h <;> subst h <;>
    simp [monthLen, SpecMonthLen]
  by_cases hl : isLeap y = true
  · simp [hl, (isLeap_iff y).mp hl]
  · have : ¬ Leap (1900 + y) := fun c => hl ((isLeap_iff y).mpr c)
    simp [hl, this]

theorem monthLen_ge (y m : Nat) (h1 : 1 ≤ m) (h12 : m ≤ 12) : 28 ≤ monthLen y m := by
  have hm : m = 1 ∨ m = 2 ∨ m = 3 ∨ m = 4 ∨ m = 5 ∨ m = 6 ∨ m = 7 ∨ m = 8 ∨ m = 9 ∨ m = 10 ∨
      m = 11 ∨ m = 12 := by omega
  rcases hm with h | h | h | h | h | h | h | h | h | h | h | h <;> subst h <;>
    simp [monthLen] <;> split <;> omega

theorem monthLen_le (y m : Nat) : monthLen y m ≤ 31 := by
  unfold monthLen; split <;> try omega
  split <;> omega

/-- a real calendar date (month 1..12, day within the month); the weekday
    field is not constrained here -/
def ValidYMD (d : Date) : Prop := 1 ≤ d.m ∧ d.m ≤ 12 ∧ 1 ≤ d.d ∧ d.d ≤ monthLen d.y d.m

/-- … whose weekday field is the right one -/
def ValidDate (d : Date) : Prop := ValidYMD d ∧ d.w = dowOf (dayNum d.y d.m d.d)

instance (d : Date) : Decidable (ValidYMD d) := by unfold ValidYMD; exact inferInstance
instance (d : Date) : Decidable (ValidDate d) := by unfold ValidDate; exact inferInstance

def yearLen (y : Nat) : Nat := if isLeap y then 366 else 365

theorem daysBeforeYear_succ (y : Nat) : daysBeforeYear (y + 1) = daysBeforeYear y + yearLen y := rfl

theorem daysBeforeMonth_succ (y m : Nat) (h1 : 1 ≤ m) (h11 : m ≤ 11) :
    daysBeforeMonth y (m + 1) = daysBeforeMonth y m + monthLen y m := by
  have hm : m = 1 ∨ m = 2 ∨ m = 3 ∨ m = 4 ∨ m = 5 ∨ m = 6 ∨ m = 7 ∨ m = 8 ∨ m = 9 ∨ m = 10 ∨
      m = 11 := by omega
  rcases hm with h | h | h | h | h | h | h | h | h | h | h <;> subst h <;>
    simp [daysBeforeMonth, monthLen] <;> split <;> omega

theorem daysBeforeMonth_dec (y : Nat) :
    daysBeforeMonth y 12 + 31 = yearLen y := by
  simp [daysBeforeMonth, yearLen]; split <;> omega

/-- the successor day is the next ordinal -/
theorem dayNum_succDay (d : Date) (h : ValidYMD d) :
    dayNum (succDay d).y (succDay d).m (succDay d).d = dayNum d.y d.m d.d + 1 := by
  obtain ⟨h1, h12, hd1, hdl⟩ := h
  by_cases hlt : d.d < monthLen d.y d.m
  · simp only [succDay, hlt, if_true, dayNum]; omega
  · by_cases hm : d.m < 12
    · have := daysBeforeMonth_succ d.y d.m h1 (by omega)
      simp only [succDay, hlt, hm, if_true, if_false, dayNum]; omega
    · have hm12 : d.m = 12 := by omega
      have hdec := daysBeforeMonth_dec d.y
      have hl : monthLen d.y 12 = 31 := rfl
      have e1 : daysBeforeMonth (d.y + 1) 1 = 0 := rfl
      rw [hm12] at hdl hlt
      simp only [succDay, hm12, hlt, Nat.lt_irrefl, ↓reduceIte, dayNum, daysBeforeYear_succ, e1]
      omega

theorem validYMD_succDay (d : Date) (h : ValidYMD d) : ValidYMD (succDay d) := by
  obtain ⟨h1, h12, hd1, hdl⟩ := h
  unfold succDay
  split
  · exact ⟨h1, h12, by simp, by simp; omega⟩
  · split
    · refine ⟨by simp, by simp; omega, by simp, ?_⟩
      have := monthLen_ge d.y (d.m + 1) (by omega) (by omega)
      simp; omega
    · refine ⟨by simp, by simp, by simp, ?_⟩
      simp [monthLen]

theorem validDate_succDay (d : Date) (h : ValidDate d) : ValidDate (succDay d) := by
  refine ⟨validYMD_succDay d h.1, ?_⟩
  rw [dayNum_succDay d h.1]
  have hw := h.2
  have : (succDay d).w = d.w % 7 + 1 := by unfold succDay; split <;> (try split) <;> rfl
  rw [this, hw]; unfold dowOf; omega

theorem validDate_civil (n : Nat) : ValidDate (civil n) := by
  induction n with
  | zero => decide
  | succ n ih => exact validDate_succDay _ ih

/-- `civil` inverts `dayNum`: the model of localtime and the model of mktime agree -/
theorem dayNum_civil (n : Nat) : dayNum (civil n).y (civil n).m (civil n).d = n := by
  induction n with
  | zero => decide
  | succ n ih =>
    show dayNum (succDay (civil n)).y (succDay (civil n)).m (succDay (civil n)).d = n + 1
    rw [dayNum_succDay _ (validDate_civil n).1, ih]

theorem dow_civil (n : Nat) : (civil n).w = n % 7 + 1 := by
  have := (validDate_civil n).2
  rw [dayNum_civil] at this; exact this

theorem dow_range (d : Date) (h : ValidDate d) : 1 ≤ d.w ∧ d.w ≤ 7 := by
  rw [h.2]; unfold dowOf; omega

/-! ## the ordinal orders dates like the tuples -/

theorem daysBeforeYear_mono {a b : Nat} (h : a ≤ b) : daysBeforeYear a ≤ daysBeforeYear b := by
  induction b with
  | zero => have : a = 0 := by omega
            subst this; exact Nat.le_refl _
  | succ b ih =>
    by_cases hb : a ≤ b
    · have := ih hb; rw [daysBeforeYear_succ]; omega
    · have : a = b + 1 := by omega
      subst this; exact Nat.le_refl _

theorem daysBeforeMonth_mono (y : Nat) {a b : Nat} (ha : 1 ≤ a) (hab : a < b) (hb : b ≤ 12) :
    daysBeforeMonth y a + monthLen y a ≤ daysBeforeMonth y b := by
  induction b with
  | zero => omega
  | succ b ih =>
    have hs := daysBeforeMonth_succ y b (by omega) (by omega)
    by_cases h : a < b
    · have := ih h (by omega); omega
    · have : a = b := by omega
      subst this; omega

theorem dayOfYear_le (d : Date) (h : ValidYMD d) : daysBeforeMonth d.y d.m + d.d ≤ yearLen d.y := by
  obtain ⟨h1, h12, hd1, hdl⟩ := h
  by_cases hm : d.m = 12
  · have := daysBeforeMonth_dec d.y
    rw [hm] at hdl ⊢
    have hl : monthLen d.y 12 = 31 := rfl
    omega
  · have := daysBeforeMonth_mono d.y h1 (show d.m < 12 by omega) (Nat.le_refl _)
    have := daysBeforeMonth_dec d.y
    omega

theorem dayNum_lt_of_lt3 (a b : Date) (ha : ValidYMD a) (hb : ValidYMD b) (h : a.lt3 b = true) :
    dayNum a.y a.m a.d < dayNum b.y b.m b.d := by
  have hya := dayOfYear_le a ha
  obtain ⟨a1, a12, ad1, adl⟩ := ha
  obtain ⟨b1, b12, bd1, bdl⟩ := hb
  simp [Date.lt3] at h
  unfold dayNum
  rcases h with h | ⟨hy, h | ⟨hm, hd⟩⟩
  · have := daysBeforeYear_mono (show a.y + 1 ≤ b.y by omega)
    rw [daysBeforeYear_succ] at this
    omega
  · have := daysBeforeMonth_mono b.y a1 h b12
    rw [hy] at adl ⊢; omega
  · rw [hy, hm]; omega

theorem lt3_total (a b : Date) :
    a.lt3 b = true ∨ b.lt3 a = true ∨ (a.y = b.y ∧ a.m = b.m ∧ a.d = b.d) := by
  simp [Date.lt3]; omega

/-- tuple order = ordinal order on real dates -/
theorem lt3_iff_dayNum (a b : Date) (ha : ValidYMD a) (hb : ValidYMD b) :
    a.lt3 b = true ↔ dayNum a.y a.m a.d < dayNum b.y b.m b.d := by
  constructor
  · exact dayNum_lt_of_lt3 a b ha hb
  · intro h
    rcases lt3_total a b with h1 | h2 | ⟨e1, e2, e3⟩
    · exact h1
    · have := dayNum_lt_of_lt3 b a hb ha h2; omega
    · rw [e1, e2, e3] at h; omega

/-! ## the clock -/

theorem timeOf_us_le (now : Nat) : (timeOf now).us ≤ now % usPerDay ∧
    now % usPerDay < (timeOf now).us + usPerHs := by
  simp only [timeOf, Time.us, usPerDay, usPerHs]
  omega

theorem timeOf_lt_day (now : Nat) : (timeOf now).h < 24 ∧ (timeOf now).mi < 60 ∧
    (timeOf now).s < 60 ∧ (timeOf now).hs < 100 := by
  simp only [timeOf, usPerDay, usPerHs]
  omega

end BacVerif.Sched
