/-
  Lemmas.DeviceInv — the invariant a device keeps under ANY datagram:
  `Good s` = the transaction-list invariant `Tsm.Inv` (keys unique, every listed
  transaction in a live state with its timer armed) + no client transaction.
  `recv_good` / `recvAll_good`; outputs that cannot reach the application
  (`NoReq`) leave the ASAP and the application untouched.
-/
import BacVerif.Lemmas.DeviceReply
import BacVerif.Lemmas.TsmSide
namespace BacVerif.Device
open BacVerif BacVerif.Tsm
set_option linter.unusedSimpArgs false

/-- one event of any kind preserves the invariant of `Model.Tsm` (this is C11 `inv_step`,
    re-derived here from the step-level specifications of Lemmas.TsmStep so that the C10
    lemma library does not depend on another property's theorem file) -/
theorem inv_step' {cfg : Cfg} (hpos : cfg.TimeoutsPos) {s : Sap} (hinv : Inv s) (e : Event) :
    Inv (step cfg s e).1 := by
  have pass : ∀ {k : Key} {s1 : Sap} {outs : List Out}, Spec k s s1 outs →
      Inv (asapPass cfg s1 outs).1 :=
    fun h => (asapPass_spec hpos _ h.inv h.touch.attr).1.inv
  unfold step
  cases e with
  | request peer service data chosen =>
    exact pass (smapRequest_spec hpos hinv peer service data chosen).1
  | unconfirmed peer service data =>
    simp only [smapStep]
    split
    · exact hinv
    · exact hinv
  | response peer a =>
    simp only [smapStep]
    split
    · exact pass (smapResponse_spec hpos hinv peer a).1
    · exact hinv
  | frame peer a => exact pass (smapConfirmation_spec hpos hinv peer a).1
  | timeout srv peer id => exact pass (smapTimeout_spec hpos hinv srv ⟨peer, id⟩).1
  | tick dt => exact hinv.congr rfl rfl rfl
  | learn peer info => exact hinv.congr rfl rfl rfl
  | setDcc d => exact hinv.congr rfl rfl rfl

/-- the transaction-list invariant of `Model.Tsm`, on a device that has no client side -/
def Good {σ} (s : DevState σ) : Prop := Inv s.sap ∧ s.sap.clients = []

theorem setServer_clients (s : Sap) (k : Key) (r : Res) : (s.setServer k r).1.clients = s.clients := rfl

theorem smapResponse_clients (cfg : Cfg) (s : Sap) (p : Peer) (a : Apdu) :
    (smapResponse cfg s p a).1.clients = s.clients := by
  unfold smapResponse
  split
  · dsimp only
    split <;> rfl
  · rfl

theorem asapUp_clients (cfg : Cfg) (s : Sap) (o : Out) : (asapUp cfg s o).1.clients = s.clients := by
  unfold asapUp
  repeat' split
  all_goals first | rfl | exact smapResponse_clients _ _ _ _

theorem asapPass_clients (cfg : Cfg) : ∀ (outs : List Out) (s : Sap),
    (asapPass cfg s outs).1.clients = s.clients := by
  intro outs
  induction outs with
  | nil => intro s; rfl
  | cons o os ih =>
    intro s
    simp only [asapPass]
    rw [ih, asapUp_clients]

theorem toClient_nil (cfg : Cfg) (s : Sap) (k : Key) (a : Apdu) (h : s.clients = []) :
    toClient cfg s k a = (s, []) := by
  simp [toClient, h, findTxn]

theorem toServer_clients (cfg : Cfg) (s : Sap) (k : Key) (a : Apdu) :
    (toServer cfg s k a).1.clients = s.clients := by
  unfold toServer
  split <;> rfl

theorem serverCreate_clients (cfg : Cfg) (s : Sap) (k : Key) (a : Apdu) :
    (serverCreate cfg s k a).1.clients = s.clients := by
  unfold serverCreate
  dsimp only
  split <;> simp

theorem smapConfirmation_clients_nil (cfg : Cfg) (s : Sap) (p : Peer) (a : Apdu) (h : s.clients = []) :
    (smapConfirmation cfg s p a).1.clients = [] := by
  unfold smapConfirmation
  split
  · exact h
  · dsimp only
    split
    · split
      · exact h
      · rw [serverCreate_clients]; exact h
    · exact h
    · rw [toClient_nil _ _ _ _ h]; exact h
    · rw [toClient_nil _ _ _ _ h]; exact h
    · rw [toClient_nil _ _ _ _ h]; exact h
    · rw [toClient_nil _ _ _ _ h]; exact h
    · split
      · rw [toClient_nil _ _ _ _ h]; exact h
      · rw [toServer_clients]; exact h
    · split
      · rw [toClient_nil _ _ _ _ h]; exact h
      · rw [toServer_clients]; exact h
    · exact h

theorem smapTimeout_srv_clients (cfg : Cfg) (s : Sap) (k : Key) :
    (smapTimeout cfg s true k).1.clients = s.clients := by
  unfold smapTimeout
  simp only [if_true]
  split
  · rfl
  · split
    · rfl
    · split <;> rfl

/-- events a device without client side sees -/
def Event.serverSide : Event → Bool
  | .request _ _ _ _ => false
  | .timeout srv _ _ => srv
  | _ => true

theorem step_clients_nil (cfg : Cfg) (s : Sap) (e : Event) (he : Event.serverSide e = true)
    (h : s.clients = []) : (step cfg s e).1.clients = [] := by
  unfold step
  dsimp only
  rw [asapPass_clients]
  cases e with
  | request p svc d c => simp [Event.serverSide] at he
  | unconfirmed p svc d => simp only [smapStep]; split <;> exact h
  | response p a =>
    simp only [smapStep]
    split
    · rw [smapResponse_clients]; exact h
    · exact h
  | frame p a => exact smapConfirmation_clients_nil cfg s p a h
  | timeout srv p i =>
    simp only [Event.serverSide] at he
    subst he
    simp only [smapStep]
    rw [smapTimeout_srv_clients]; exact h
  | tick dt => exact h
  | learn p i => exact h
  | setDcc d => exact h

theorem Good.step {σ} {cfg : DevCfg σ} (hpos : cfg.tsm.TimeoutsPos) {s : DevState σ} (hg : Good s)
    (e : Event) (he : Event.serverSide e = true) :
    Good { s with sap := (step cfg.tsm s.sap e).1 } :=
  ⟨inv_step' hpos hg.1 e, step_clients_nil cfg.tsm s.sap e he hg.2⟩

theorem Good.applyDcc {σ} {s : DevState σ} (hg : Good s) (d : Option Dcc) :
    Good { s with sap := applyDcc s.sap d } := by
  cases d with
  | none => exact hg
  | some d => exact ⟨hg.1.congr rfl rfl rfl, hg.2⟩

theorem Good.congr {σ} {s s' : DevState σ} (hg : Good s) (h : s'.sap = s.sap) : Good s' := by
  unfold Good; rw [h]; exact hg

theorem sendUnconf_good {σ} {cfg : DevCfg σ} (hpos : cfg.tsm.TimeoutsPos) :
    ∀ (reqs : List (Peer × Nat × Bytes)) (s : DevState σ), Good s →
      Good { s with sap := (sendUnconf cfg.tsm s.sap reqs).1 } := by
  intro reqs
  induction reqs with
  | nil => intro s hg; exact hg
  | cons r rest ih =>
    intro s hg
    obtain ⟨p, svc, d⟩ := r
    simp only [sendUnconf]
    have h1 := hg.step hpos (.unconfirmed p svc d) rfl
    exact (ih _ h1).congr rfl

theorem appPass_good {σ} {cfg : DevCfg σ} (hpos : cfg.tsm.TimeoutsPos) :
    ∀ (outs : List Out) (s : DevState σ), Good s → Good (appPass cfg s outs).1 := by
  intro outs
  induction outs with
  | nil => intro s hg; rw [appPass]; exact hg
  | cons o os ih =>
    intro s hg
    cases o with
    | indicate p a =>
      rw [appPass]
      split
      · dsimp only
        refine ih _ ?_
        have h1 := (hg.applyDcc (cfg.serve s.app p a).2.dcc)
        cases hans : (cfg.serve s.app p a).2.answer with
        | none => exact h1.congr rfl
        | some ans =>
          have h2 := h1.step hpos (.response p (respApdu a ans)) rfl
          exact h2.congr rfl
      · split
        · dsimp only
          refine ih _ ?_
          exact (sendUnconf_good hpos _ s hg).congr rfl
        · exact ih s hg
    | confirm p a => rw [appPass]; exact ih s hg
    | confirmAnon c e => rw [appPass]; exact ih s hg
    | send p a =>
      rw [appPass]
      · exact ih s hg
      all_goals (intro _ _ h; cases h)
    | raised r =>
      rw [appPass]
      · exact ih s hg
      all_goals (intro _ _ h; cases h)

/-! ### recv keeps the invariant -/

theorem deliver_good {σ} {cfg : DevCfg σ} (hpos : cfg.tsm.TimeoutsPos) {s : DevState σ} (hg : Good s)
    (p : Peer) (a : Apdu) : Good (deliver cfg s p a).1 := by
  unfold deliver
  dsimp only
  exact appPass_good hpos _ _ ((hg.step hpos (.frame p a) rfl).congr rfl)

theorem recv_good {σ} {cfg : DevCfg σ} (hpos : cfg.tsm.TimeoutsPos) {s : DevState σ} (hg : Good s)
    (src : Bytes) (bcast : Bool) (f : Bytes) : Good (recv cfg s src bcast f).1 := by
  unfold recv
  split
  · exact hg
  · split
    · exact hg
    · dsimp only
      split
      · exact hg.congr rfl
      · split
        · split
          · exact hg.congr rfl
          · split
            · exact hg.congr rfl
            · exact hg.congr rfl
        · split
          · exact hg.congr rfl
          · dsimp only
            refine deliver_good hpos ?_ _ _
            exact hg.congr rfl

theorem recvAll_good {σ} {cfg : DevCfg σ} (hpos : cfg.tsm.TimeoutsPos) :
    ∀ (fs : List Dgram) {s : DevState σ}, Good s → Good (recvAll cfg s fs).1 := by
  intro fs
  induction fs with
  | nil => intro s hg; exact hg
  | cons x xs ih =>
    intro s hg
    simp only [recvAll]
    exact ih (recv_good hpos hg x.src x.bcast x.octets)

/-! ### outputs that never reach the application -/

/-- no indication of a confirmed or unconfirmed request among the outputs -/
def NoReq (outs : List Out) : Prop := ∀ o ∈ outs, ∀ p a, o = .indicate p a → a.ty ≠ 0 ∧ a.ty ≠ 1

theorem NoReq.tail {o : Out} {os : List Out} (h : NoReq (o :: os)) : NoReq os :=
  fun o' ho' => h o' (List.mem_cons_of_mem _ ho')

theorem NoReq.append {l1 l2 : List Out} (h1 : NoReq l1) (h2 : NoReq l2) : NoReq (l1 ++ l2) := by
  intro o ho
  rcases List.mem_append.1 ho with h | h
  · exact h1 o h
  · exact h2 o h

theorem noReq_nil : NoReq [] := fun o ho => by cases ho

theorem noReq_single {o : Out} (h : ∀ p a, o ≠ .indicate p a) : NoReq [o] := by
  intro o' ho' p a he
  simp only [List.mem_singleton] at ho'
  subst ho'
  exact absurd he (h p a)

theorem asapUp_noReq {cfg : Cfg} (s : Sap) {o : Out} (h : NoReq [o]) :
    (asapUp cfg s o).1 = s ∧ NoReq (asapUp cfg s o).2 := by
  cases o with
  | indicate p a =>
    obtain ⟨h0, h1⟩ := h _ (List.mem_singleton.2 rfl) p a rfl
    have : asapUp cfg s (.indicate p a) = (s, []) := by simp [asapUp, h0, h1]
    rw [this]
    exact ⟨rfl, noReq_nil⟩
  | confirm p a =>
    unfold asapUp
    dsimp only
    repeat' split
    all_goals first
      | exact ⟨rfl, noReq_nil⟩
      | exact ⟨rfl, noReq_single (fun _ _ he => by cases he)⟩
  | send p a => exact ⟨rfl, noReq_single (fun _ _ he => by cases he)⟩
  | confirmAnon c e => exact ⟨rfl, noReq_single (fun _ _ he => by cases he)⟩
  | raised r => exact ⟨rfl, noReq_single (fun _ _ he => by cases he)⟩

theorem asapPass_noReq {cfg : Cfg} : ∀ (outs : List Out) (s : Sap), NoReq outs →
    (asapPass cfg s outs).1 = s ∧ NoReq (asapPass cfg s outs).2 := by
  intro outs
  induction outs with
  | nil => intro s _; exact ⟨rfl, fun o ho => by cases ho⟩
  | cons o os ih =>
    intro s h
    have ho : NoReq [o] := fun o' ho' => h o' (by simp only [List.mem_singleton] at ho'; subst ho'; exact List.mem_cons_self)
    obtain ⟨h1, h2⟩ := asapUp_noReq (cfg := cfg) s ho
    simp only [asapPass]
    rw [h1]
    obtain ⟨h3, h4⟩ := ih s h.tail
    exact ⟨h3, h2.append h4⟩

theorem appPass_noReq {σ} (cfg : DevCfg σ) : ∀ (outs : List Out) (s : DevState σ), NoReq outs →
    (appPass cfg s outs).1 = s := by
  intro outs
  induction outs with
  | nil => intro s _; rw [appPass]
  | cons o os ih =>
    intro s h
    cases o with
    | indicate p a =>
      obtain ⟨h0, h1⟩ := h _ List.mem_cons_self p a rfl
      rw [appPass, if_neg h0, if_neg h1]
      exact ih s h.tail
    | confirm p a => rw [appPass]; exact ih s h.tail
    | confirmAnon c e => rw [appPass]; exact ih s h.tail
    | send p a =>
      rw [appPass]
      · exact ih s h.tail
      all_goals (intro _ _ h; cases h)
    | raised r =>
      rw [appPass]
      · exact ih s h.tail
      all_goals (intro _ _ h; cases h)
