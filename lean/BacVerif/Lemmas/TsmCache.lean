/-
  Lemmas.TsmCache — the device-information cache after an I-Am:
  `iam_lookup`: whatever the cache held and whatever references are outstanding,
  after `iam_device_info(I-Am of instance i from address a with caps)` the
  lookups by `a` and by `i` return one and the same record, and it carries the
  announced capabilities; `wf_iam`: well-formedness is preserved, so the
  statement holds after ANY history of I-Ams, acquires and releases.
-/
import BacVerif.Model.Tsm.Cache
namespace BacVerif.Tsm.Cache

theorem get_put_same (m : List (CKey × Nat)) (k : CKey) (j : Nat) : get (put m k j) k = some j := by
  induction m with
  | nil => simp [put, get]
  | cons x xs ih =>
    obtain ⟨k', j'⟩ := x
    simp only [put]
    split
    · simp [get]
    · rename_i h
      simp [get, h, ih]

theorem get_put_other (m : List (CKey × Nat)) {k k' : CKey} (j : Nat) (h : k' ≠ k) :
    get (put m k j) k' = get m k' := by
  induction m with
  | nil => simp [put, get, Ne.symm h]
  | cons x xs ih =>
    obtain ⟨k0, j0⟩ := x
    simp only [put]
    split
    · rename_i h0
      subst h0
      simp [get, Ne.symm h]
    · simp only [get]
      split
      · rfl
      · exact ih

theorem get_mem {m : List (CKey × Nat)} {k : CKey} {j : Nat} (h : get m k = some j) : (k, j) ∈ m := by
  induction m with
  | nil => simp [get] at h
  | cons x xs ih =>
    obtain ⟨k0, j0⟩ := x
    simp only [get] at h
    split at h
    · rename_i h0
      cases h
      subst h0
      exact List.mem_cons_self
    · exact List.mem_cons_of_mem _ (ih h)

theorem mem_put {m : List (CKey × Nat)} {k : CKey} {j : Nat} {p : CKey × Nat} (h : p ∈ put m k j) :
    p ∈ m ∨ p = (k, j) := by
  induction m with
  | nil => simp [put] at h; exact Or.inr h
  | cons x xs ih =>
    obtain ⟨k0, j0⟩ := x
    simp only [put] at h
    split at h
    · simp only [List.mem_cons] at h
      rcases h with h | h
      · exact Or.inr h
      · exact Or.inl (List.mem_cons_of_mem _ h)
    · simp only [List.mem_cons] at h
      rcases h with h | h
      · exact Or.inl (by simp [h])
      · rcases ih h with h' | h'
        · exact Or.inl (List.mem_cons_of_mem _ h')
        · exact Or.inr h'

theorem mem_del {m : List (CKey × Nat)} {k : CKey} {p : CKey × Nat} (h : p ∈ del m k) : p ∈ m := by
  induction m with
  | nil => simp [del] at h
  | cons x xs ih =>
    obtain ⟨k0, j0⟩ := x
    simp only [del] at h
    split at h
    · exact List.mem_cons_of_mem _ h
    · simp only [List.mem_cons] at h
      rcases h with h | h
      · simp [h]
      · exact List.mem_cons_of_mem _ (ih h)

theorem mem_dropOld {m : List (CKey × Nat)} {j : Nat} {o n : CKey} {p : CKey × Nat}
    (h : p ∈ dropOld m j o n) : p ∈ m := by
  unfold dropOld at h
  split at h
  · exact mem_del h
  · exact h

/-- the record `iam_device_info` picks exists -/
theorem findOrNew_lt {c : Cache} (hwf : WF c) (i : Nat) (a : Peer) :
    (findOrNew c i a).2 < (findOrNew c i a).1.recs.length ∧ WF (findOrNew c i a).1 := by
  unfold findOrNew
  split
  · rename_i j hj
    exact ⟨hwf _ (get_mem hj), hwf⟩
  · split
    · rename_i j hj
      exact ⟨hwf _ (get_mem hj), hwf⟩
    · refine ⟨by simp, ?_⟩
      intro p hp
      have := hwf p hp
      simp only [List.length_append, List.length_cons, List.length_nil]
      omega

/-- what `update_device_info` leaves behind for record `j` -/
theorem updateDeviceInfo_spec {c : Cache} {j : Nat} {r : Rec} (hr : c.recs[j]? = some r) :
    (updateDeviceInfo c j).lookup (.inst r.id) = some { r with keys := some (r.id, r.addr) } ∧
    (updateDeviceInfo c j).lookup (.addr r.addr) = some { r with keys := some (r.id, r.addr) } := by
  have hj : j < c.recs.length := by
    rcases Nat.lt_or_ge j c.recs.length with h | h
    · exact h
    · rw [List.getElem?_eq_none h] at hr; cases hr
  unfold updateDeviceInfo
  rw [hr]
  simp only [Cache.lookup]
  constructor
  · rw [get_put_other _ _ (by simp), get_put_same]
    simp [hj]
  · rw [get_put_same]
    simp [hj]

theorem wf_updateDeviceInfo {c : Cache} (hwf : WF c) (j : Nat) (hj : j < c.recs.length) :
    WF (updateDeviceInfo c j) := by
  unfold updateDeviceInfo
  split
  · exact hwf
  · rename_i r hr
    intro p hp
    simp only [List.length_set]
    simp only at hp
    rcases mem_put hp with hp | hp
    · rcases mem_put hp with hp | hp
      · split at hp
        · exact hwf p hp
        · exact hwf p (mem_dropOld (mem_dropOld hp))
      · rw [hp]; exact hj
    · rw [hp]; exact hj

/-- **iam_lookup.**  For every well-formed cache — whatever it holds, whatever
    reference counts are outstanding — after the I-Am of instance `i` from
    address `a` announcing (`maxApdu`, `seg`): the lookup by the address and the
    lookup by the instance return the same record, it is the record of `i` at
    `a`, and it carries exactly the announced capabilities. -/
theorem iam_lookup {c : Cache} (hwf : WF c) (i : Nat) (a : Peer) (maxApdu : Nat) (seg : SegSup) :
    ∃ r, (iam c i a maxApdu seg).lookup (.addr a) = some r ∧
         (iam c i a maxApdu seg).lookup (.inst i) = some r ∧
         r.id = i ∧ r.addr = a ∧ r.info.maxApdu = some maxApdu ∧ r.info.seg = seg := by
  obtain ⟨hlt, _⟩ := findOrNew_lt hwf i a
  unfold iam
  generalize findOrNew c i a = fn at hlt
  obtain ⟨c1, j⟩ := fn
  simp only at hlt ⊢
  have hsome : c1.recs[j]? = some c1.recs[j] := List.getElem?_eq_getElem hlt
  rw [hsome]
  simp only
  have hset : ∀ r' : Rec, ({ c1 with recs := c1.recs.set j r' } : Cache).recs[j]? = some r' := by
    intro r'; simp [hlt]
  have := updateDeviceInfo_spec (hset (c1.recs[j].announce i a maxApdu seg))
  exact ⟨_, this.2, this.1, rfl, rfl, rfl, rfl⟩

/-- well-formedness survives an I-Am -/
theorem wf_iam {c : Cache} (hwf : WF c) (i : Nat) (a : Peer) (maxApdu : Nat) (seg : SegSup) :
    WF (iam c i a maxApdu seg) := by
  obtain ⟨hlt, hwf1⟩ := findOrNew_lt hwf i a
  unfold iam
  generalize findOrNew c i a = fn at hlt hwf1
  obtain ⟨c1, j⟩ := fn
  simp only at hlt hwf1 ⊢
  have hsome : c1.recs[j]? = some c1.recs[j] := List.getElem?_eq_getElem hlt
  rw [hsome]
  simp only
  apply wf_updateDeviceInfo
  · intro p hp
    simp only [List.length_set]
    exact hwf1 p hp
  · simp [hlt]

theorem wf_acquire {c : Cache} (hwf : WF c) (k : CKey) : WF (acquire c k).1 := by
  unfold acquire
  split
  · exact hwf
  · split
    · exact hwf
    · intro p hp
      simp only [List.length_set]
      exact hwf p hp

theorem wf_release {c c' : Cache} (hwf : WF c) {j : Nat} (h : release c j = some c') : WF c' := by
  unfold release at h
  split at h
  · cases h
  · split at h
    · cases h
    · cases h
      intro p hp
      simp only [List.length_set]
      exact hwf p hp

/-- acquiring and releasing change reference counts only: no lookup result
    changes in anything but `refs` — in particular not the capabilities -/
theorem acquire_keeps_map (c : Cache) (k : CKey) : (acquire c k).1.map = c.map := by
  unfold acquire
  split
  · rfl
  · split <;> rfl


/-! ### any history -/

/-- what can happen to the cache: an I-Am, a state machine taking a reference
    by key, a state machine giving back the reference on record `j` -/
inductive Op
  | iam (i : Nat) (a : Peer) (maxApdu : Nat) (seg : SegSup)
  | acquire (k : CKey)
  | release (j : Nat)
deriving Repr, Inhabited

def step (c : Cache) : Op → Cache
  | .iam i a m g => iam c i a m g
  | .acquire k => (acquire c k).1
  | .release j => match release c j with | some c' => c' | none => c   -- RuntimeError: unchanged

def runOps (c : Cache) (ops : List Op) : Cache := ops.foldl step c

theorem wf_step {c : Cache} (hwf : WF c) (o : Op) : WF (step c o) := by
  cases o with
  | iam i a m g => exact wf_iam hwf i a m g
  | acquire k => exact wf_acquire hwf k
  | release j =>
    simp only [step]
    split
    · rename_i c' h; exact wf_release hwf h
    · exact hwf

theorem wf_runOps : ∀ (ops : List Op) {c : Cache}, WF c → WF (runOps c ops) := by
  intro ops
  induction ops with
  | nil => intro c h; exact h
  | cons o os ih => intro c h; exact ih (wf_step h o)

theorem wf_empty : WF {} := by intro p hp; cases hp

/-- **iam_after_any_history.**  From the empty cache, after ANY sequence of
    I-Ams (any instances, any addresses, devices moving, addresses taken over),
    acquires and releases (any references outstanding), the next I-Am of
    instance `i` from address `a` makes the lookups by `a` and by `i` return the
    record carrying exactly the capabilities it announces. -/
theorem iam_after_any_history (ops : List Op) (i : Nat) (a : Peer) (maxApdu : Nat) (seg : SegSup) :
    ∃ r, (iam (runOps {} ops) i a maxApdu seg).lookup (.addr a) = some r ∧
         (iam (runOps {} ops) i a maxApdu seg).lookup (.inst i) = some r ∧
         r.id = i ∧ r.addr = a ∧ r.info.maxApdu = some maxApdu ∧ r.info.seg = seg :=
  iam_lookup (wf_runOps ops wf_empty) i a maxApdu seg

/-- non-vacuous, and the history of defect Tsm-11: device 1 at address 10,
    device 2 at 11; device 1 moves to 11; device 2 shows up at 12 (its stale
    key 11 must NOT be removed: it is device 1's now); device 1 announces 50
    octets from 11 while a reference on its record is outstanding → address 11
    answers with 50 -/
example :
    let c := runOps {} [.iam 1 10 1024 .both, .iam 2 11 480 .both, .iam 1 11 206 .both,
                        .iam 2 12 128 .both, .acquire (.addr 11), .iam 1 11 50 .no]
    (c.lookup (.addr 11)).map (fun r => (r.id, r.info.maxApdu, r.info.seg, r.refs)) = some (1, some 50, .no, 1) ∧
    (c.lookup (.addr 12)).map (fun r => (r.id, r.info.maxApdu)) = some (2, some 128) ∧
    (c.lookup (.addr 10)).isNone := by decide

end BacVerif.Tsm.Cache
