/-
  Lemmas.SchedEval — tuple order facts and the scan loops of `eval`.
-/
import BacVerif.Lemmas.SchedSpec
namespace BacVerif.Sched

/-! ## Python tuple order on times -/

theorem Time.le_def (a b : Time) : a.le b = true ↔
    (a.h < b.h ∨ (a.h = b.h ∧ (a.mi < b.mi ∨ (a.mi = b.mi ∧ (a.s < b.s ∨ (a.s = b.s ∧ a.hs ≤ b.hs)))))) := by
  simp [Time.le]

theorem Time.lt_def (a b : Time) : a.lt b = true ↔
    (a.h < b.h ∨ (a.h = b.h ∧ (a.mi < b.mi ∨ (a.mi = b.mi ∧ (a.s < b.s ∨ (a.s = b.s ∧ a.hs < b.hs)))))) := by
  simp [Time.lt]

theorem Time.le_refl (a : Time) : a.le a = true := by rw [Time.le_def]; omega

theorem Time.le_trans {a b c : Time} (h1 : a.le b = true) (h2 : b.le c = true) : a.le c = true := by
  rw [Time.le_def] at *; omega

theorem Time.lt_of_le_of_lt {a b c : Time} (h1 : a.le b = true) (h2 : b.lt c = true) :
    a.lt c = true := by
  rw [Time.le_def] at h1; rw [Time.lt_def] at *; omega

theorem Time.lt_of_lt_of_le {a b c : Time} (h1 : a.lt b = true) (h2 : b.le c = true) :
    a.lt c = true := by
  rw [Time.le_def] at h2; rw [Time.lt_def] at *; omega

theorem Time.le_of_lt {a b : Time} (h : a.lt b = true) : a.le b = true := by
  rw [Time.lt_def] at h; rw [Time.le_def]; omega

theorem Time.not_le_iff {a b : Time} : a.le b = false ↔ b.lt a = true := by
  rw [← Bool.not_eq_true, Time.le_def, Time.lt_def]; omega

theorem Time.not_lt_iff {a b : Time} : a.lt b = false ↔ b.le a = true := by
  rw [← Bool.not_eq_true, Time.le_def, Time.lt_def]; omega

theorem Time.lt_min {t a b : Time} : t.lt (Time.min a b) = true ↔ t.lt a = true ∧ t.lt b = true := by
  unfold Time.min
  cases h : b.lt a
  · simp only [Bool.false_eq_true, ↓reduceIte]
    have := Time.not_lt_iff.mp h
    constructor
    · intro x; exact ⟨x, Time.lt_of_lt_of_le x this⟩
    · intro x; exact x.1
  · simp only [↓reduceIte]
    constructor
    · intro x; exact ⟨Time.lt_of_lt_of_le x (Time.le_of_lt h), x⟩
    · intro x; exact x.2

theorem Time.min_le_left (a b : Time) : (Time.min a b).le a = true := by
  unfold Time.min
  cases h : b.lt a
  · simp [Time.le_refl]
  · simp [Time.le_of_lt h]

theorem Time.min_le_right (a b : Time) : (Time.min a b).le b = true := by
  unfold Time.min
  cases h : b.lt a
  · simp [Time.not_lt_iff.mp h]
  · simp [Time.le_refl]

theorem Time.min_cases (a b : Time) : Time.min a b = a ∨ Time.min a b = b := by
  unfold Time.min; split <;> simp


/-! ## the time-value scan of one special event -/

/-- nothing changes before the transition a scan reports -/
theorem scanTVs_stable {t t' : Time} (htt : t.le t' = true) :
    ∀ (l : List TV) (acc : Option Nat × Option Time),
    (∀ n, (scanTVs t l acc).2 = some n → t'.lt n = true) → scanTVs t' l acc = scanTVs t l acc
  | [], _, _ => rfl
  | tv :: rest, acc, h => by
    cases hle : tv.time.le t
    · have hb : scanTVs t (tv :: rest) acc = (acc.1, some tv.time) := by simp [scanTVs, hle]
      rw [hb] at h ⊢
      have : t'.lt tv.time = true := h _ rfl
      have : tv.time.le t' = false := Time.not_le_iff.mpr this
      simp [scanTVs, this]
    · have hle' : tv.time.le t' = true := Time.le_trans hle htt
      cases hv : tv.value with
      | null =>
        have e1 : scanTVs t (tv :: rest) acc = scanTVs t rest (none, none) := by
          simp [scanTVs, hle, hv]
        have e2 : scanTVs t' (tv :: rest) acc = scanTVs t' rest (none, none) := by
          simp [scanTVs, hle', hv]
        rw [e1] at h; rw [e1, e2]; exact scanTVs_stable htt rest _ h
      | v x =>
        have e1 : scanTVs t (tv :: rest) acc = scanTVs t rest (some x, some nextDay) := by
          simp [scanTVs, hle, hv]
        have e2 : scanTVs t' (tv :: rest) acc = scanTVs t' rest (some x, some nextDay) := by
          simp [scanTVs, hle', hv]
        rw [e1] at h; rw [e1, e2]; exact scanTVs_stable htt rest _ h

/-- the transition a scan reports is later than the evaluated time (or the
    accumulator's) -/
theorem scanTVs_next_later {t : Time} (ht : t.lt nextDay = true) :
    ∀ (l : List TV) (acc : Option Nat × Option Time),
    (∀ n, acc.2 = some n → t.lt n = true) → ∀ n, (scanTVs t l acc).2 = some n → t.lt n = true
  | [], _, h => h
  | tv :: rest, acc, h => by
    cases hle : tv.time.le t
    · intro n hn
      have hb : scanTVs t (tv :: rest) acc = (acc.1, some tv.time) := by simp [scanTVs, hle]
      rw [hb] at hn; cases hn
      exact Time.not_le_iff.mp hle
    · cases hv : tv.value with
      | null =>
        have e1 : scanTVs t (tv :: rest) acc = scanTVs t rest (none, none) := by
          simp [scanTVs, hle, hv]
        rw [e1]; exact scanTVs_next_later ht rest _ (by intro n hn; cases hn)
      | v x =>
        have e1 : scanTVs t (tv :: rest) acc = scanTVs t rest (some x, some nextDay) := by
          simp [scanTVs, hle, hv]
        rw [e1]; exact scanTVs_next_later ht rest _ (by intro n hn; cases hn; exact ht)

/-- … and not later than the start of the next day -/
theorem scanTVs_next_le (P : Time → Prop) (hP : P nextDay) {t : Time} :
    ∀ (l : List TV) (acc : Option Nat × Option Time), (∀ tv ∈ l, P tv.time) →
    (∀ n, acc.2 = some n → P n) → ∀ n, (scanTVs t l acc).2 = some n → P n
  | [], _, _, h => h
  | tv :: rest, acc, hl, h => by
    cases hle : tv.time.le t
    · intro n hn
      have hb : scanTVs t (tv :: rest) acc = (acc.1, some tv.time) := by simp [scanTVs, hle]
      rw [hb] at hn; cases hn
      exact hl tv (by simp)
    · have hl' : ∀ x ∈ rest, P x.time := fun x hx => hl x (by simp [hx])
      cases hv : tv.value with
      | null =>
        have e1 : scanTVs t (tv :: rest) acc = scanTVs t rest (none, none) := by
          simp [scanTVs, hle, hv]
        rw [e1]; exact scanTVs_next_le P hP rest _ hl' (by intro n hn; cases hn)
      | v x =>
        have e1 : scanTVs t (tv :: rest) acc = scanTVs t rest (some x, some nextDay) := by
          simp [scanTVs, hle, hv]
        rw [e1]; exact scanTVs_next_le P hP rest _ hl' (by intro n hn; cases hn; exact hP)

theorem sorted_tail {tv : TV} {rest : List TV} (h : SortedTVs (tv :: rest)) : SortedTVs rest := by
  unfold SortedTVs at *; exact (List.pairwise_cons.mp h).2

theorem sorted_head {tv : TV} {rest : List TV} (h : SortedTVs (tv :: rest)) :
    ∀ x ∈ rest, tv.time.le x.time = true := by
  unfold SortedTVs at *; exact (List.pairwise_cons.mp h).1

/-- in a sorted list nothing after an entry that is still in the future has come -/
theorem filter_nil_of_sorted {t : Time} {tv : TV} {rest : List TV} (h : SortedTVs (tv :: rest))
    (hle : tv.time.le t = false) : (rest.filter fun e => e.time.le t) = [] := by
  rw [List.filter_eq_nil_iff]
  intro x hx
  have h1 := sorted_head h x hx
  have h2 := Time.not_le_iff.mp hle
  have := Time.lt_of_lt_of_le h2 h1
  simp [Time.not_le_iff.mpr this]

/-- the value a scan ends with is the value of the latest entry (sorted list) -/
theorem scanTVs_value {t : Time} : ∀ (l : List TV) (acc : Option Nat × Option Time), SortedTVs l →
    (scanTVs t l acc).1 = match latest l t with
      | none => acc.1
      | some e => e.value.toOption
  | [], _, _ => by simp [scanTVs, latest]
  | tv :: rest, acc, hs => by
    cases hle : tv.time.le t
    · have hb : scanTVs t (tv :: rest) acc = (acc.1, some tv.time) := by simp [scanTVs, hle]
      have : latest (tv :: rest) t = none := by
        simp [latest, hle, filter_nil_of_sorted hs hle]
      rw [hb, this]
    · have hl : latest (tv :: rest) t = match latest rest t with
          | none => some tv
          | some e => some e := by
        unfold latest
        rw [List.filter_cons, if_pos hle]
        cases hf : (rest.filter fun e => e.time.le t) with
        | nil => simp
        | cons a as =>
          rw [List.getLast?_cons_cons]
          cases hg : (a :: as).getLast? with
          | none => simp at hg
          | some e => rfl
      have ih := fun acc' => scanTVs_value (t := t) rest acc' (sorted_tail hs)
      cases hv : tv.value with
      | null =>
        have e1 : scanTVs t (tv :: rest) acc = scanTVs t rest (none, none) := by
          simp [scanTVs, hle, hv]
        rw [e1, ih, hl]
        cases latest rest t <;> simp [hv, Val.toOption]
      | v x =>
        have e1 : scanTVs t (tv :: rest) acc = scanTVs t rest (some x, some nextDay) := by
          simp [scanTVs, hle, hv]
        rw [e1, ih, hl]
        cases latest rest t <;> simp [hv, Val.toOption]

theorem scanTVs_listValue {t : Time} (l : List TV) (hs : SortedTVs l) :
    (scanTVs t l (none, none)).1 = listValue l t := by
  rw [scanTVs_value l _ hs]; unfold listValue
  cases latest l t <;> rfl


/-! ## one priority slot = a fold over the special events that land in it -/

def scanE (t : Time) (se : SpecialEvent) : Option Nat × Option Time := scanTVs t se.tvs (none, none)

def foldSlot (t : Time) (L : List SpecialEvent) (s : Slot) : Slot :=
  L.foldl (fun s se => mergeSlot s (scanE t se).1 (scanE t se).2) s

theorem mergeSlot_of_some {s : Slot} {x : Nat} (h : s.val = some x) (v : Option Nat) (n : Option Time) :
    mergeSlot s v n = s := by
  unfold mergeSlot; rw [h]

theorem foldSlot_of_some (t : Time) (L : List SpecialEvent) {s : Slot} {x : Nat} (h : s.val = some x) :
    foldSlot t L s = s := by
  induction L with
  | nil => rfl
  | cons se rest ih => unfold foldSlot at *; rw [List.foldl_cons, mergeSlot_of_some h]; exact ih

theorem mergeSlot_val {s : Slot} (h : s.val = none) (v : Option Nat) (n : Option Time) :
    (mergeSlot s v n).val = v := by
  unfold mergeSlot; rw [h]

/-- whoever waits for the merged slot's transition also waits for both parts -/
theorem mergeSlot_nxt_lt {s : Slot} (h : s.val = none) (v : Option Nat) (n : Option Time) {t' : Time}
    (hm : ∀ k, (mergeSlot s v n).nxt = some k → t'.lt k = true) :
    (∀ k, s.nxt = some k → t'.lt k = true) ∧ (∀ k, n = some k → t'.lt k = true) := by
  unfold mergeSlot at hm; rw [h] at hm
  cases hs : s.nxt with
  | none =>
    rw [hs] at hm
    exact ⟨(by intro k hk; cases hk), hm⟩
  | some a =>
    rw [hs] at hm
    cases n with
    | none => exact ⟨(by intro k hk; cases hk; exact hm a rfl), (by intro k hk; cases hk)⟩
    | some b =>
      have := Time.lt_min.mp (hm _ rfl)
      exact ⟨(by intro k hk; cases hk; exact this.1), (by intro k hk; cases hk; exact this.2)⟩

theorem foldSlot_nxt_lt (t : Time) {t' : Time} : ∀ (L : List SpecialEvent) (s : Slot),
    (∀ k, (foldSlot t L s).nxt = some k → t'.lt k = true) → ∀ k, s.nxt = some k → t'.lt k = true
  | [], _, h => h
  | se :: rest, s, h => by
    cases hv : s.val with
    | some x => rw [foldSlot_of_some t _ hv] at h; exact h
    | none =>
      have h1 : foldSlot t (se :: rest) s = foldSlot t rest (mergeSlot s (scanE t se).1 (scanE t se).2) := by
        unfold foldSlot; rw [List.foldl_cons]
      rw [h1] at h
      exact (mergeSlot_nxt_lt hv _ _ (foldSlot_nxt_lt t rest _ h)).1

/-- a slot does not change before its own transition -/
theorem foldSlot_stable {t t' : Time} (htt : t.le t' = true) : ∀ (L : List SpecialEvent) (s : Slot),
    (∀ k, (foldSlot t L s).nxt = some k → t'.lt k = true) → foldSlot t' L s = foldSlot t L s
  | [], _, _ => rfl
  | se :: rest, s, h => by
    cases hv : s.val with
    | some x => rw [foldSlot_of_some t _ hv, foldSlot_of_some t' _ hv]
    | none =>
      have h1 : ∀ u, foldSlot u (se :: rest) s = foldSlot u rest (mergeSlot s (scanE u se).1 (scanE u se).2) := by
        intro u; unfold foldSlot; rw [List.foldl_cons]
      rw [h1] at h
      have hse := (mergeSlot_nxt_lt hv _ _ (foldSlot_nxt_lt t rest _ h)).2
      have : scanE t' se = scanE t se := scanTVs_stable htt se.tvs _ hse
      rw [h1, h1, this]
      exact foldSlot_stable htt rest _ h

theorem foldSlot_val (t : Time) : ∀ (L : List SpecialEvent) (s : Slot),
    (foldSlot t L s).val = match s.val with
      | some x => some x
      | none => L.findSome? fun se => (scanE t se).1
  | [], s => by cases h : s.val <;> simp [foldSlot, h]
  | se :: rest, s => by
    cases hv : s.val with
    | some x => rw [foldSlot_of_some t _ hv, hv]
    | none =>
      have h1 : foldSlot t (se :: rest) s = foldSlot t rest (mergeSlot s (scanE t se).1 (scanE t se).2) := by
        unfold foldSlot; rw [List.foldl_cons]
      rw [h1, foldSlot_val t rest, mergeSlot_val hv, List.findSome?_cons]
      cases (scanE t se).1 <;> rfl

/-- every transition a slot reports is later than the evaluated time -/
theorem foldSlot_next_later {t : Time} (ht : t.lt nextDay = true) : ∀ (L : List SpecialEvent) (s : Slot),
    (∀ k, s.nxt = some k → t.lt k = true) → ∀ k, (foldSlot t L s).nxt = some k → t.lt k = true
  | [], _, h => h
  | se :: rest, s, h => by
    have h1 : foldSlot t (se :: rest) s = foldSlot t rest (mergeSlot s (scanE t se).1 (scanE t se).2) := by
      unfold foldSlot; rw [List.foldl_cons]
    rw [h1]
    apply foldSlot_next_later ht rest
    have hn := scanTVs_next_later ht se.tvs (none, none) (by intro n hn; cases hn)
    intro k hk
    unfold mergeSlot at hk
    cases hv : s.val with
    | some x => rw [hv] at hk; exact h k hk
    | none =>
      rw [hv] at hk
      cases hs : s.nxt with
      | none => rw [hs] at hk; exact hn k hk
      | some a =>
        rw [hs] at hk
        cases hb : (scanE t se).2 with
        | none => rw [hb] at hk; cases hk; exact h _ hs
        | some b =>
          rw [hb] at hk; cases hk
          exact Time.lt_min.mpr ⟨h _ hs, hn _ hb⟩

/-- every transition a slot reports satisfies whatever all entry times and
    `nextDay` satisfy -/
theorem foldSlot_next_P (P : Time → Prop) (hP : P nextDay) {t : Time} :
    ∀ (L : List SpecialEvent) (s : Slot), (∀ se ∈ L, ∀ tv ∈ se.tvs, P tv.time) →
    (∀ k, s.nxt = some k → P k) → ∀ k, (foldSlot t L s).nxt = some k → P k
  | [], _, _, h => h
  | se :: rest, s, hl, h => by
    have h1 : foldSlot t (se :: rest) s = foldSlot t rest (mergeSlot s (scanE t se).1 (scanE t se).2) := by
      unfold foldSlot; rw [List.foldl_cons]
    rw [h1]
    apply foldSlot_next_P P hP rest _ (fun x hx => hl x (by simp [hx]))
    have hn := scanTVs_next_le P hP (t := t) se.tvs (none, none) (hl se (by simp))
      (by intro n hn; cases hn)
    intro k hk
    unfold mergeSlot at hk
    cases hv : s.val with
    | some x => rw [hv] at hk; exact h k hk
    | none =>
      rw [hv] at hk
      cases hs : s.nxt with
      | none => rw [hs] at hk; exact hn k hk
      | some a =>
        rw [hs] at hk
        cases hb : (scanE t se).2 with
        | none => rw [hb] at hk; cases hk; exact h _ hs
        | some b =>
          rw [hb] at hk; cases hk
          rcases Time.min_cases a b with e | e <;> rw [e]
          · exact h _ hs
          · exact hn _ hb


/-! ## the exception loop, slot by slot -/

/-- the special event is in force on `d` and lands in slot `i` -/
def hits (d : Date) (i : Nat) (se : SpecialEvent) : Bool :=
  match periodMatch d se.period, slotIndex se.prio with
  | .ok true, .ok j => j == i
  | _, _ => false

theorem evalExceptions_char (d : Date) (t : Time) : ∀ (ses : List SpecialEvent) (sl sl' : Slots),
    evalExceptions d t ses sl = .ok sl' →
    (∀ i, sl' i = foldSlot t (ses.filter (hits d i)) (sl i)) ∧
    (∀ (t' : Time) (sl₂ : Slots), ∃ sl₂', evalExceptions d t' ses sl₂ = .ok sl₂')
  | [], sl, sl', h => by
    simp [evalExceptions] at h; subst h
    exact ⟨fun i => rfl, fun t' sl₂ => ⟨sl₂, rfl⟩⟩
  | se :: rest, sl, sl', h => by
    unfold evalExceptions at h
    cases hp : periodMatch d se.period with
    | error e => rw [hp] at h; cases h
    | ok b =>
      cases b with
      | false =>
        rw [hp] at h
        obtain ⟨ih1, ih2⟩ := evalExceptions_char d t rest sl sl' h
        refine ⟨fun i => ?_, fun t' sl₂ => ?_⟩
        · have : hits d i se = false := by simp [hits, hp]
          rw [List.filter_cons, this]; exact ih1 i
        · obtain ⟨x, hx⟩ := ih2 t' sl₂
          exact ⟨x, by unfold evalExceptions; rw [hp]; exact hx⟩
      | true =>
        rw [hp] at h
        cases hi : slotIndex se.prio with
        | error e => rw [hi] at h; cases h
        | ok j =>
          rw [hi] at h
          obtain ⟨ih1, ih2⟩ := evalExceptions_char d t rest _ sl' h
          refine ⟨fun i => ?_, fun t' sl₂ => ?_⟩
          · rw [ih1 i, List.filter_cons]
            by_cases hij : i = j
            · subst hij
              have : hits d i se = true := by simp [hits, hp, hi]
              rw [this]
              simp only [Slots.update, ↓reduceIte, foldSlot, List.foldl_cons, scanE]
            · have : hits d i se = false := by
                simp [hits, hp, hi]; omega
              rw [this]
              simp only [Slots.update, hij, ↓reduceIte, Bool.false_eq_true]
          · obtain ⟨x, hx⟩ := ih2 t' (sl₂.update j fun s =>
              mergeSlot s (scanTVs t' se.tvs (none, none)).1 (scanTVs t' se.tvs (none, none)).2)
            exact ⟨x, by unfold evalExceptions; rw [hp, hi]; exact hx⟩

/-! ## the priority scan -/

theorem scanSlots_le : ∀ (S : List Slot) (e : Time), (scanSlots S e).2.le e = true
  | [], e => Time.le_refl e
  | s :: rest, e => by
    unfold scanSlots
    have he : (match s.nxt with | some n => Time.min e n | none => e).le e = true := by
      cases s.nxt with
      | none => exact Time.le_refl e
      | some n => exact Time.min_le_left e n
    cases s.val with
    | some v => exact he
    | none => exact Time.le_trans (scanSlots_le rest _) he

theorem scanSlots_stable (sl sl' : Slots) {t' : Time}
    (hR : ∀ i, (∀ k, (sl i).nxt = some k → t'.lt k = true) → sl' i = sl i) :
    ∀ (l : List Nat) (e : Time), t'.lt (scanSlots (l.map sl) e).2 = true →
      scanSlots (l.map sl') e = scanSlots (l.map sl) e
  | [], _, _ => rfl
  | i :: rest, e, h => by
    simp only [List.map_cons] at h ⊢
    have hle := scanSlots_le (sl i :: rest.map sl) e
    -- the transition of this slot is not before the final answer
    have h2 : t'.lt (match (sl i).nxt with | some n => Time.min e n | none => e) = true := by
      unfold scanSlots at h
      cases hv : (sl i).val with
      | some v => rw [hv] at h; exact h
      | none => rw [hv] at h; exact Time.lt_of_lt_of_le h (scanSlots_le _ _)
    have hi : sl' i = sl i := by
      apply hR; intro k hk; rw [hk] at h2; exact (Time.lt_min.mp h2).2
    unfold scanSlots
    rw [hi]
    cases hv : (sl i).val with
    | some v => rfl
    | none =>
      simp only []
      apply scanSlots_stable sl sl' hR rest
      unfold scanSlots at h; rw [hv] at h; exact h

theorem scanSlots_val (sl : Slots) : ∀ (l : List Nat) (e : Time),
    (scanSlots (l.map sl) e).1 = l.findSome? fun i => (sl i).val
  | [], _ => rfl
  | i :: rest, e => by
    simp only [List.map_cons, List.findSome?_cons]
    unfold scanSlots
    cases hv : (sl i).val with
    | some v => rfl
    | none => exact scanSlots_val sl rest _

/-- the result's transition satisfies any property closed under `min` that
    the start value and all slot transitions have -/
theorem scanSlots_next_P (P : Time → Prop) (sl : Slots) (hs : ∀ i k, (sl i).nxt = some k → P k) :
    ∀ (l : List Nat) (e : Time), P e → P (scanSlots (l.map sl) e).2
  | [], _, he => he
  | i :: rest, e, he => by
    simp only [List.map_cons]
    unfold scanSlots
    have he' : P (match (sl i).nxt with | some n => Time.min e n | none => e) := by
      cases hn : (sl i).nxt with
      | none => exact he
      | some n => rcases Time.min_cases e n with x | x <;> simp only [x]
                  · exact he
                  · exact hs i n hn
    cases (sl i).val with
    | some v => exact he'
    | none => exact scanSlots_next_P P sl hs rest _ he'

theorem scanSlots_next_later (sl : Slots) {t : Time} (hs : ∀ i k, (sl i).nxt = some k → t.lt k = true) :
    ∀ (l : List Nat) (e : Time), t.lt e = true → t.lt (scanSlots (l.map sl) e).2 = true
  | [], _, he => he
  | i :: rest, e, he => by
    simp only [List.map_cons]
    unfold scanSlots
    have he' : t.lt (match (sl i).nxt with | some n => Time.min e n | none => e) = true := by
      cases hn : (sl i).nxt with
      | none => exact he
      | some n => exact Time.lt_min.mpr ⟨he, hs i n hn⟩
    cases (sl i).val with
    | some v => exact he'
    | none => exact scanSlots_next_later sl hs rest _ he'

/-! ## the daily scan -/

theorem scanDaily_le (t : Time) (dflt : Nat) : ∀ (l : List TV) (dv : Nat) (e : Time),
    (scanDaily t dflt l dv e).2.le e = true
  | [], _, e => Time.le_refl e
  | tv :: rest, dv, e => by
    unfold scanDaily
    cases hle : tv.time.le t
    · simp only [Bool.false_eq_true, ↓reduceIte]; exact Time.min_le_left e _
    · simp only [↓reduceIte]
      cases tv.value <;> exact scanDaily_le t dflt rest _ e

theorem scanDaily_stable {t t' : Time} (htt : t.le t' = true) (dflt : Nat) :
    ∀ (l : List TV) (dv : Nat) (e : Time), t'.lt (scanDaily t dflt l dv e).2 = true →
      scanDaily t' dflt l dv e = scanDaily t dflt l dv e
  | [], _, _, _ => rfl
  | tv :: rest, dv, e, h => by
    cases hle : tv.time.le t
    · have hb : scanDaily t dflt (tv :: rest) dv e = (dv, Time.min e tv.time) := by
        simp [scanDaily, hle]
      rw [hb] at h ⊢
      have : tv.time.le t' = false := Time.not_le_iff.mpr (Time.lt_min.mp h).2
      simp [scanDaily, this]
    · have hle' : tv.time.le t' = true := Time.le_trans hle htt
      cases hv : tv.value with
      | null =>
        have e1 : ∀ u, tv.time.le u = true →
            scanDaily u dflt (tv :: rest) dv e = scanDaily u dflt rest dflt e := by
          intro u hu; simp [scanDaily, hu, hv]
        rw [e1 t hle] at h; rw [e1 t hle, e1 t' hle']; exact scanDaily_stable htt dflt rest _ e h
      | v x =>
        have e1 : ∀ u, tv.time.le u = true →
            scanDaily u dflt (tv :: rest) dv e = scanDaily u dflt rest x e := by
          intro u hu; simp [scanDaily, hu, hv]
        rw [e1 t hle] at h; rw [e1 t hle, e1 t' hle']; exact scanDaily_stable htt dflt rest _ e h

theorem scanDaily_value {t : Time} (dflt : Nat) : ∀ (l : List TV) (dv : Nat) (e : Time), SortedTVs l →
    (scanDaily t dflt l dv e).1 = match latest l t with
      | none => dv
      | some x => x.value.toOption.getD dflt
  | [], _, _, _ => by simp [scanDaily, latest]
  | tv :: rest, dv, e, hs => by
    cases hle : tv.time.le t
    · have hb : scanDaily t dflt (tv :: rest) dv e = (dv, Time.min e tv.time) := by
        simp [scanDaily, hle]
      have : latest (tv :: rest) t = none := by
        simp [latest, hle, filter_nil_of_sorted hs hle]
      rw [hb, this]
    · have hl : latest (tv :: rest) t = match latest rest t with
          | none => some tv
          | some e => some e := by
        unfold latest
        rw [List.filter_cons, if_pos hle]
        cases hf : (rest.filter fun e => e.time.le t) with
        | nil => simp
        | cons a as =>
          rw [List.getLast?_cons_cons]
          cases hg : (a :: as).getLast? with
          | none => simp at hg
          | some e => rfl
      have ih := fun dv' => scanDaily_value (t := t) dflt rest dv' e (sorted_tail hs)
      cases hv : tv.value with
      | null =>
        have e1 : scanDaily t dflt (tv :: rest) dv e = scanDaily t dflt rest dflt e := by
          simp [scanDaily, hle, hv]
        rw [e1, ih, hl]
        cases latest rest t <;> simp [hv, Val.toOption]
      | v x =>
        have e1 : scanDaily t dflt (tv :: rest) dv e = scanDaily t dflt rest x e := by
          simp [scanDaily, hle, hv]
        rw [e1, ih, hl]
        cases latest rest t <;> simp [hv, Val.toOption]

theorem scanDaily_next_P (P : Time → Prop) (t : Time) (dflt : Nat) :
    ∀ (l : List TV) (dv : Nat) (e : Time), (∀ tv ∈ l, P tv.time) → P e →
      P (scanDaily t dflt l dv e).2
  | [], _, _, _, he => he
  | tv :: rest, dv, e, hl, he => by
    unfold scanDaily
    cases hle : tv.time.le t
    · simp only [Bool.false_eq_true, ↓reduceIte]
      rcases Time.min_cases e tv.time with x | x <;> rw [x]
      · exact he
      · exact hl tv (by simp)
    · simp only [↓reduceIte]
      cases tv.value <;> exact scanDaily_next_P P t dflt rest _ e (fun x hx => hl x (by simp [hx])) he

theorem scanDaily_next_later {t : Time} (dflt : Nat) :
    ∀ (l : List TV) (dv : Nat) (e : Time), t.lt e = true → t.lt (scanDaily t dflt l dv e).2 = true
  | [], _, _, he => he
  | tv :: rest, dv, e, he => by
    unfold scanDaily
    cases hle : tv.time.le t
    · simp only [Bool.false_eq_true, ↓reduceIte]
      exact Time.lt_min.mpr ⟨he, Time.not_le_iff.mp hle⟩
    · simp only [↓reduceIte]
      cases tv.value <;> exact scanDaily_next_later dflt rest _ e he

end BacVerif.Sched
