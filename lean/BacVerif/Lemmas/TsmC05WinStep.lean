/-
  Lemmas.TsmC05WinStep — the window clause of C05 for every step of the access
  point, jointly with the state the step leaves behind: every segment frame
  in the outputs of `step` is segment `idx` of a transaction LISTED AFTER the
  step under the frame's (peer, invoke ID), with
  `initialSequenceNumber ≤ idx < initialSequenceNumber + actualWindowSize`
  (or `idx = 0 = initialSequenceNumber`: the first segment, sent alone).
-/
import BacVerif.Lemmas.TsmC05Win
import BacVerif.Lemmas.TsmCapStep
namespace BacVerif.Tsm
set_option linter.unusedSimpArgs false
set_option linter.unusedVariables false

variable {cfg : Cfg}

/-- the frame belongs to a transaction listed in `s'` and lies in its window -/
def WinOk (s' : Sap) (q : Peer) (f : Apdu) : Prop :=
  DataSeg f →
    (∃ t ∈ s'.clients, t.key = ⟨q, f.invokeId⟩ ∧ InWin t.body f) ∨
    (∃ t ∈ s'.servers, t.key = ⟨q, f.invokeId⟩ ∧ InWin t.body f)

def StepWin (x : Sap × List Out) : Prop :=
  (∀ q f, Out.send q f ∈ x.2 → WinOk x.1 q f) ∧ (NoInd x.2 ∨ NoData x.2)

theorem stepWin_nil (s : Sap) : StepWin (s, []) := by
  refine ⟨?_, Or.inl ?_⟩
  · intro q f h; cases h
  · intro o h; cases h

theorem key_eta (k : Key) : (⟨k.peer, k.id⟩ : Key) = k := by cases k; rfl

/-- a client handler result written back into the list -/
theorem stepWin_client {s : Sap} {k : Key} {t : Txn} {x : Res} (hf : findTxn k s.clients = some t)
    (hw : WinRes t.key x) : StepWin (s.setClient k x) := by
  obtain ⟨hmem, hkey⟩ := findTxn_some hf
  refine ⟨?_, hw.2⟩
  intro q f hm hd
  obtain ⟨h1, h2, b', hb', h3⟩ := hw.1 _ hm q f rfl hd
  left
  refine ⟨⟨t.key, b'⟩, ?_, ?_, h3⟩
  · show _ ∈ updFirst k x.1 s.clients
    rw [hb']; exact mem_updFirst_self hf
  · rw [h1, h2]

theorem stepWin_server {s : Sap} {k : Key} {t : Txn} {x : Res} (hf : findTxn k s.servers = some t)
    (hw : WinRes t.key x) : StepWin (s.setServer k x) := by
  obtain ⟨hmem, hkey⟩ := findTxn_some hf
  refine ⟨?_, hw.2⟩
  intro q f hm hd
  obtain ⟨h1, h2, b', hb', h3⟩ := hw.1 _ hm q f rfl hd
  right
  refine ⟨⟨t.key, b'⟩, ?_, ?_, h3⟩
  · show _ ∈ updFirst k x.1 s.servers
    rw [hb']; exact mem_updFirst_self hf
  · rw [h1, h2]

theorem toClient_win {s : Sap} (hinv : Inv s) (k : Key) (a : Apdu) : StepWin (toClient cfg s k a) := by
  unfold toClient
  cases hf : findTxn k s.clients with
  | none => exact stepWin_nil s
  | some t =>
    obtain ⟨hmem, _⟩ := findTxn_some hf
    obtain ⟨_, _, c, hc, hcid⟩ := hinv.cOk t hmem
    exact stepWin_client hf (clientConfirmation_win hc hcid)

theorem toServer_win {s : Sap} (hinv : Inv s) (k : Key) (a : Apdu) : StepWin (toServer cfg s k a) := by
  unfold toServer
  cases hf : findTxn k s.servers with
  | none => exact stepWin_nil s
  | some t =>
    obtain ⟨hmem, _⟩ := findTxn_some hf
    exact stepWin_server hf (serverIndication_win (hinv.sOk t hmem).2.2)

theorem serverCreate_win {s : Sap} (k : Key) (a : Apdu) : StepWin (serverCreate cfg s k a) := by
  unfold serverCreate
  dsimp only
  have hw := serverIdle_win (cfg := cfg) (now := s.now)
    (di := promote a.sa (heldDI s k (newBody cfg s k.peer))) (k := k) (b := newBody cfg s k.peer) (a := a)
  generalize serverIdle cfg s.now _ k (newBody cfg s k.peer) a = x at hw ⊢
  obtain ⟨r, outs⟩ := x
  have hnd : ∀ q f, Out.send q f ∈ outs → WinOk (match r with
      | some b' => ({ (s.withDI k.peer (promote a.sa (heldDI s k (newBody cfg s k.peer)))) with
          servers := (s.withDI k.peer (promote a.sa (heldDI s k (newBody cfg s k.peer)))).servers ++ [⟨k, b'⟩] })
      | none => s.withDI k.peer (promote a.sa (heldDI s k (newBody cfg s k.peer)))) q f := by
    intro q f hm hd
    obtain ⟨h1, h2, b', hb', h3⟩ := hw.1 _ hm q f rfl hd
    cases hb'
    right
    exact ⟨⟨k, b'⟩, by simp, by rw [h1, h2], h3⟩
  cases r with
  | none => exact ⟨hnd, hw.2⟩
  | some b' => exact ⟨hnd, hw.2⟩

theorem clientCreate_win {s : Sap} (k : Key) (service : Nat) (data : Bytes) :
    StepWin (clientCreate cfg s k service data) := by
  unfold clientCreate
  dsimp only
  have hw := clientIndication_win (cfg := cfg) (now := s.now) (di := heldDI s k (newBody cfg s k.peer))
    (k := k) (b := newBody cfg s k.peer)
    (req := { ty := 0, service := service, invokeId := k.id, data := data }) rfl
  generalize clientIndication cfg s.now _ k (newBody cfg s k.peer) _ = x at hw ⊢
  obtain ⟨r, outs⟩ := x
  cases r with
  | none =>
    refine ⟨?_, hw.2⟩
    intro q f hm hd
    obtain ⟨_, _, b', hb', _⟩ := hw.1 _ hm q f rfl hd
    cases hb'
  | some b' =>
    refine ⟨?_, hw.2⟩
    intro q f hm hd
    obtain ⟨h1, h2, b'', hb', h3⟩ := hw.1 _ hm q f rfl hd
    cases hb'
    left
    exact ⟨⟨k, b'⟩, by simp, by rw [h1, h2], h3⟩

theorem stepWin_one {s : Sap} {o : Out} (h : ∀ q f, o = .send q f → ¬ DataSeg f) : StepWin (s, [o]) := by
  refine ⟨?_, Or.inr (noData1 h)⟩
  intro q f hm hd
  simp only [List.mem_singleton] at hm
  exact absurd hd (h q f hm.symm)

theorem smapConfirmation_win {s : Sap} (hinv : Inv s) (p : Peer) (a : Apdu) :
    StepWin (smapConfirmation cfg s p a) := by
  unfold smapConfirmation
  split
  · exact stepWin_nil s
  · dsimp only
    split
    · split
      · rename_i t hf
        obtain ⟨hmem, _⟩ := findTxn_some hf
        exact stepWin_server hf (serverIndication_win (hinv.sOk t hmem).2.2)
      · exact serverCreate_win _ _
    · exact stepWin_one (by intro q f e; cases e)
    all_goals first
      | exact toClient_win hinv _ _
      | exact stepWin_nil s
      | (split
         · exact toClient_win hinv _ _
         · exact toServer_win hinv _ _)

theorem smapRequest_win {s : Sap} (p : Peer) (service : Nat) (data : Bytes) (chosen : Option Nat) :
    StepWin (smapRequest cfg s p service data chosen) := by
  unfold smapRequest
  split
  · exact stepWin_nil s
  · split
    · split
      · exact stepWin_one (by intro q f e; cases e)
      · exact clientCreate_win _ _ _
    · split
      · exact stepWin_one (by intro q f e; cases e)
      · exact clientCreate_win _ _ _

theorem smapResponse_win {s : Sap} (p : Peer) (a : Apdu) (hresp : a.ty = 3 → a.seg = false) :
    StepWin (smapResponse cfg s p a) := by
  unfold smapResponse
  split
  · dsimp only
    split
    · exact stepWin_nil s
    · rename_i t hf
      obtain ⟨_, hkey⟩ := findTxn_some hf
      exact stepWin_server hf (serverConfirmation_win (by rw [hkey]) hresp)
  · exact stepWin_one (by intro q f e; cases e)

theorem smapTimeout_win {s : Sap} (hinv : Inv s) (srv : Bool) (k : Key) :
    StepWin (smapTimeout cfg s srv k) := by
  unfold smapTimeout
  split
  · exact stepWin_nil s
  · rename_i t hf
    split
    · exact stepWin_nil s
    · split
      · dsimp only
        cases srv with
        | true =>
          simp only [if_true] at hf ⊢
          obtain ⟨hmem, _⟩ := findTxn_some hf
          exact stepWin_server hf (serverTimeout_win (hinv.sOk t hmem).2.2)
        | false =>
          simp only [Bool.false_eq_true, if_false] at hf ⊢
          obtain ⟨hmem, _⟩ := findTxn_some hf
          obtain ⟨_, _, c, hc, hcid⟩ := hinv.cOk t hmem
          exact stepWin_client hf (clientTimeout_win hc hcid)
      · exact stepWin_nil s

/-! ### the ASAP pass adds no segment frame and, above a call that emitted one, does nothing -/

theorem smapResponse_nodata {s : Sap} (p : Peer) (a : Apdu) (h : a.ty = 6 ∨ a.ty = 7) :
    NoData (smapResponse cfg s p a).2 := by
  have hw := (smapResponse_win (cfg := cfg) (s := s) p a (by intro h3; omega))
  intro q f hm hd
  unfold smapResponse at hm
  split at hm
  · dsimp only at hm
    split at hm
    · cases hm
    · unfold serverConfirmation at hm
      rcases h with h | h
      · have h7 : a.ty ≠ 7 := by omega
        simp [Sap.setServer, h, h7] at hm
        obtain ⟨_, rfl⟩ := hm
        exact not_data_ty (by omega) (by omega) hd
      · simp [Sap.setServer, h] at hm
        obtain ⟨_, rfl⟩ := hm
        exact not_data_ty (by omega) (by omega) hd
  · simp at hm

theorem asapUp_data {s : Sap} {o : Out} {q : Peer} {f : Apdu} (hm : Out.send q f ∈ (asapUp cfg s o).2)
    (hd : DataSeg f) : o = .send q f := by
  unfold asapUp at hm
  split at hm
  · split at hm
    · split at hm
      · simp at hm
      · exact absurd hd (smapResponse_nodata _ _ (Or.inl rfl) q f hm)
      · exact absurd hd (smapResponse_nodata _ _ (Or.inr rfl) q f hm)
    · split at hm
      · split at hm <;> simp at hm
      · simp at hm
  · repeat' split at hm
    all_goals simp at hm
  · simp only [List.mem_singleton] at hm; exact hm.symm

theorem asapPass_data : ∀ (outs : List Out) (s : Sap) {q : Peer} {f : Apdu},
    Out.send q f ∈ (asapPass cfg s outs).2 → DataSeg f → Out.send q f ∈ outs := by
  intro outs
  induction outs with
  | nil => intro s q f hm _; simp [asapPass] at hm
  | cons o os ih =>
    intro s q f hm hd
    simp only [asapPass, List.mem_append] at hm
    rcases hm with hm | hm
    · rw [asapUp_data hm hd]; exact List.mem_cons_self
    · exact List.mem_cons_of_mem _ (ih _ hm hd)

theorem asapPass_win {x : Sap × List Out} (h : StepWin x) : 
    ∀ q f, Out.send q f ∈ (asapPass cfg x.1 x.2).2 → WinOk (asapPass cfg x.1 x.2).1 q f := by
  intro q f hm hd
  have hm' := asapPass_data _ _ hm hd
  rcases h.2 with hn | hn
  · rw [asapPass_noInd _ _ hn]
    exact h.1 q f hm' hd
  · exact absurd hd (hn q f hm')

/-- what is assumed about the event: a ComplexAck is handed over unsegmented -/
def EvResp : Event → Prop
  | .response _ a => a.ty = 3 → a.seg = false
  | _ => True

/-- **window_step.**  Every segment frame any step emits belongs to a
    transaction that is listed after the step under the frame's (peer,
    invoke ID), is segment `idx` of its context, and lies in its window:
    `initialSequenceNumber ≤ idx`, and `idx < initialSequenceNumber +
    actualWindowSize` unless it is the first segment sent alone. -/
theorem window_step_sap {s : Sap} (hinv : Inv s) (e : Event) (he : EvResp e) :
    ∀ q f, Out.send q f ∈ (step cfg s e).2 → WinOk (step cfg s e).1 q f := by
  have key : StepWin (smapStep cfg s e) := by
    cases e with
    | request p service data chosen => exact smapRequest_win p service data chosen
    | unconfirmed p service data =>
      simp only [smapStep]
      split
      · exact stepWin_one (by intro q f e hd; cases e; exact not_data_ty (by simp) (by simp) hd)
      · exact stepWin_nil s
    | response p a =>
      simp only [smapStep]
      split
      · exact smapResponse_win p a he
      · exact stepWin_nil s
    | frame p a => exact smapConfirmation_win hinv p a
    | timeout srv p id => exact smapTimeout_win hinv srv ⟨p, id⟩
    | tick dt => exact stepWin_nil _
    | learn p info => exact stepWin_nil _
    | setDcc d => exact stepWin_nil _
  exact asapPass_win key

end BacVerif.Tsm
