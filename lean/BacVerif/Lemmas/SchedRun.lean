/-
  Lemmas.SchedRun — the interpreter task: `process_task` always re-arms
  strictly in the future, the chain of firings never ends and the present
  value is never stale.
-/
import BacVerif.Lemmas.SchedThm
namespace BacVerif.Sched

/-! ## tuple order = offset order on normalised times -/

/-- minutes, seconds and hundredths within their radix (the hour is free: 24 = next day) -/
def Time.Norm (t : Time) : Prop := t.mi < 60 ∧ t.s < 60 ∧ t.hs < 100

theorem Time.Proper.norm {t : Time} (h : t.Proper) : t.Norm := h.2

theorem nextDay_norm : nextDay.Norm := by unfold Time.Norm nextDay; simp

theorem Time.lt_iff_us {a b : Time} (ha : a.Norm) (hb : b.Norm) : a.lt b = true ↔ a.us < b.us := by
  rw [Time.lt_def]; unfold Time.us usPerHs; unfold Time.Norm at ha hb; omega

theorem Time.le_iff_us {a b : Time} (ha : a.Norm) (hb : b.Norm) : a.le b = true ↔ a.us ≤ b.us := by
  rw [Time.le_def]; unfold Time.us usPerHs; unfold Time.Norm at ha hb; omega

theorem timeOf_proper (now : Nat) : (timeOf now).Proper := timeOf_lt_day now

theorem timeOf_lt_nextDay (now : Nat) : (timeOf now).lt nextDay = true := by
  rw [Time.lt_def]; have := timeOf_lt_day now; simp only [nextDay]; omega

theorem timeOf_us (now : Nat) : (timeOf now).us = now % usPerDay / usPerHs * usPerHs := by
  simp only [timeOf, Time.us, usPerDay, usPerHs]; omega

/-- the horizon: 2155-01-01, where the year field becomes the wildcard 255 -/
def horizon : Nat := daysBeforeYear 255 * usPerDay

theorem civil_year_lt {n : Nat} (h : n < daysBeforeYear 255) : (civil n).y < 255 := by
  have hv := (validDate_civil n).1
  have hn := dayNum_civil n
  by_cases c : (civil n).y < 255
  · exact c
  · have := daysBeforeYear_mono (show 255 ≤ (civil n).y by omega)
    unfold dayNum at hn
    obtain ⟨_, _, hd1, _⟩ := hv
    omega

theorem dateOf_year_lt {now : Nat} (h : now < horizon) : (dateOf now).y < 255 := by
  apply civil_year_lt
  unfold horizon at h
  unfold usPerDay at *
  omega

theorem dateOf_no255 {now : Nat} (h : now < horizon) : (dateOf now).has255 = false := by
  have hy := dateOf_year_lt h
  have hv := validDate_civil (now / usPerDay)
  have hw := dow_range _ hv
  obtain ⟨⟨_, h12, _, hdl⟩, _⟩ := hv
  have := monthLen_le (dateOf now).y (dateOf now).m
  unfold dateOf at *
  simp [Date.has255]
  omega

theorem no255_of_proper {t : Time} (h : t = nextDay ∨ t.Proper) : t.has255 = false := by
  rcases h with h | h
  · subst h; decide
  · unfold Time.Proper at h; simp [Time.has255]; omega


/-! ## `process_task` -/

theorem eval_ok (cfg : Cfg) (d : Date) (t : Time) (hv : ValidCfg cfg) (hd : ValidTuple d) :
    ∃ r, evalSchedule cfg d t = .ok r := by
  obtain ⟨_, _, hwk, hex⟩ := hv
  unfold evalSchedule
  by_cases hr : (!matchRange d cfg.effStart cfg.effEnd) = true
  · rw [if_pos hr]; exact ⟨none, rfl⟩
  · rw [if_neg hr]
    rw [← excList_eq] at hex
    obtain ⟨sl, hsl⟩ := evalExceptions_ok d t hd (excList cfg) (fun _ => Slot.none) hex
    rw [hsl]; simp only []
    cases (scanSlots (slotList sl) nextDay).1 with
    | some v0 => exact ⟨_, rfl⟩
    | none =>
      simp only []
      unfold evalWeekly
      cases hw : cfg.weekly with
      | none => exact ⟨_, rfl⟩
      | some wk =>
        simp only []
        have hl : wk.length = 7 := by rw [hw] at hwk; exact hwk
        have hne : wk.isEmpty = false := by
          cases wk with
          | nil => simp at hl
          | cons a as => rfl
        obtain ⟨day, _, hlook, _⟩ := weeklyLookup_ok hl hd.2.1 hd.2.2
        rw [hne, hlook]
        exact ⟨_, rfl⟩

/-- the transition `process_task` waits for: the one `eval` reports, or the
    start of the next day when the schedule is outside its effective period -/
def waitFor (r : Option (Nat × Time)) : Time := (r.map Prod.snd).getD nextDay

theorem waitFor_facts {cfg : Cfg} {now : Nat} {r : Option (Nat × Time)} (hp : ProperCfg cfg)
    (hr : evalSchedule cfg (dateOf now) (timeOf now) = .ok r) :
    (waitFor r = nextDay ∨ (waitFor r).Proper) ∧ (timeOf now).lt (waitFor r) = true := by
  cases r with
  | none => exact ⟨Or.inl rfl, timeOf_lt_nextDay now⟩
  | some p =>
    obtain ⟨v, n⟩ := p
    refine ⟨?_, eval_next_later (timeOf_lt_nextDay now) hr⟩
    exact eval_next_P (fun k => k = nextDay ∨ k.Proper) (Or.inl rfl)
      (by rw [excList_eq]; exact fun se hse tv htv => Or.inr (hp.1 se hse tv htv))
      (fun day hday tv htv => Or.inr (hp.2 day hday tv htv)) hr

/-- **re-arming**: whatever the state and the instant (inside, before, after
    or at an edge of the effective period), `process_task` installs the task
    again, strictly in the future and not beyond the next midnight -/
theorem processTask_rearms (cfg : Cfg) (st : IState) (now : Nat) (hf : cfg.fault = false)
    (hv : ValidCfg cfg) (hp : ProperCfg cfg) (hh : now < horizon) :
    ∃ r, evalSchedule cfg (dateOf now) (timeOf now) = .ok r ∧
      processTask cfg st now =
        ({ pv := (r.map Prod.fst).getD st.pv,
           deadline := some (now / usPerDay * usPerDay + (waitFor r).us) }, none) ∧
      now < now / usPerDay * usPerDay + (waitFor r).us ∧
      now / usPerDay * usPerDay + (waitFor r).us ≤ (now / usPerDay + 1) * usPerDay := by
  have hd : ValidTuple (dateOf now) := (validDate_civil _).tuple
  obtain ⟨r, hr⟩ := eval_ok cfg (dateOf now) (timeOf now) hv hd
  obtain ⟨hw1, hw2⟩ := waitFor_facts hp hr
  have hdn : dayNum (dateOf now).y (dateOf now).m (dateOf now).d = now / usPerDay := dayNum_civil _
  have hnorm : (waitFor r).Norm := by
    rcases hw1 with h | h
    · rw [h]; exact nextDay_norm
    · exact h.norm
  have hus := (Time.lt_iff_us (timeOf_proper now).norm hnorm).mp hw2
  have hle : (waitFor r).us ≤ usPerDay := by
    rcases hw1 with h | h
    · rw [h]; decide
    · unfold Time.Proper at h; unfold Time.us usPerHs usPerDay; omega
  have htl := timeOf_us_le now
  refine ⟨r, hr, ?_, ?_, ?_⟩
  · have e : datetimeToTime (dateOf now) (waitFor r) =
        .ok (now / usPerDay * usPerDay + (waitFor r).us) := by
      unfold datetimeToTime
      rw [dateOf_no255 hh, no255_of_proper hw1, hdn]
      rfl
    cases r with
    | none =>
      simp only [processTask, hf, Bool.false_eq_true, ↓reduceIte, hr]
      have : waitFor none = nextDay := rfl
      rw [this] at e
      rw [e]; rfl
    | some p =>
      obtain ⟨v, n⟩ := p
      simp only [processTask, hf, Bool.false_eq_true, ↓reduceIte, hr]
      have : waitFor (some (v, n)) = n := rfl
      rw [this] at e
      rw [e]; rfl
  · have hm : (timeOf now).us + usPerHs ≤ (waitFor r).us := by
      unfold Time.us at hus ⊢; unfold usPerHs at *; omega
    have := Nat.div_add_mod now usPerDay
    have hmul : usPerDay * (now / usPerDay) = now / usPerDay * usPerDay := Nat.mul_comm _ _
    omega
  · have : (now / usPerDay + 1) * usPerDay = now / usPerDay * usPerDay + usPerDay := by
      rw [Nat.add_mul]; omega
    omega


/-! ## the chain of firings -/

/-- a schedule created at `t0` and driven by its own timer, each firing exactly
    at the installed deadline: (instant, state after it) of the k-th evaluation -/
def trajectory (cfg : Cfg) (st0 : IState) (t0 : Nat) : Nat → Nat × IState
  | 0 => (t0, (processTask cfg st0 t0).1)
  | k + 1 =>
    match (trajectory cfg st0 t0 k).2.deadline with
    | some w => (w, (fire cfg (trajectory cfg st0 t0 k).2 w).1)
    | none => trajectory cfg st0 t0 k

theorem trajectory_is_processTask (cfg : Cfg) (st0 : IState) (t0 : Nat) : ∀ k, ∃ s,
    (trajectory cfg st0 t0 k).2 = (processTask cfg s (trajectory cfg st0 t0 k).1).1
  | 0 => ⟨st0, rfl⟩
  | k + 1 => by
    unfold trajectory
    cases h : (trajectory cfg st0 t0 k).2.deadline with
    | some w => exact ⟨_, rfl⟩
    | none => exact trajectory_is_processTask cfg st0 t0 k

theorem eval_none_date {cfg : Cfg} {d : Date} {t t' : Time}
    (h : evalSchedule cfg d t = .ok none) : evalSchedule cfg d t' = .ok none := by
  unfold evalSchedule at h ⊢
  by_cases hr : (!matchRange d cfg.effStart cfg.effEnd) = true
  · rw [if_pos hr]
  · rw [if_neg hr] at h
    cases hex : evalExceptions d t (excList cfg) (fun _ => Slot.none) with
    | error e => rw [hex] at h; cases h
    | ok sl =>
      rw [hex] at h; simp only [] at h
      cases hv : (scanSlots (slotList sl) nextDay).1 with
      | some v0 => rw [hv] at h; cases h
      | none =>
        rw [hv] at h; simp only [] at h
        cases hwk : evalWeekly cfg d t (scanSlots (slotList sl) nextDay).2 with
        | error x => rw [hwk] at h; cases h
        | ok p => rw [hwk] at h; cases h

section chain
variable (cfg : Cfg) (st0 : IState) (t0 : Nat)
variable (hf : cfg.fault = false) (hv : ValidCfg cfg) (hp : ProperCfg cfg)
include hf hv hp

/-- **runs forever**: every evaluation before the horizon leaves the task
    installed strictly later, and the next evaluation happens exactly then -/
theorem runs_forever_step (k : Nat) (hh : (trajectory cfg st0 t0 k).1 < horizon) :
    ∃ w, (trajectory cfg st0 t0 k).2.deadline = some w ∧ (trajectory cfg st0 t0 k).1 < w ∧
      w ≤ ((trajectory cfg st0 t0 k).1 / usPerDay + 1) * usPerDay ∧
      (trajectory cfg st0 t0 (k + 1)).1 = w := by
  obtain ⟨s, hs⟩ := trajectory_is_processTask cfg st0 t0 k
  obtain ⟨r, _, hpt, hlt, hle⟩ := processTask_rearms cfg s _ hf hv hp hh
  rw [hpt] at hs
  refine ⟨_, by rw [hs], hlt, hle, ?_⟩
  show (match (trajectory cfg st0 t0 k).2.deadline with
    | some w => (w, (fire cfg (trajectory cfg st0 t0 k).2 w).1)
    | none => trajectory cfg st0 t0 k).1 = _
  rw [hs]

theorem chain (τ : Nat) (h0 : t0 ≤ τ) (hτ : τ < horizon) : ∀ k,
    (∃ j w, (trajectory cfg st0 t0 j).1 ≤ τ ∧ (trajectory cfg st0 t0 j).2.deadline = some w ∧ τ < w ∧
       (trajectory cfg st0 t0 (j + 1)).1 = w) ∨
    ((trajectory cfg st0 t0 (k + 1)).1 ≤ τ ∧ t0 + (k + 1) ≤ (trajectory cfg st0 t0 (k + 1)).1)
  | 0 => by
    have h00 : (trajectory cfg st0 t0 0).1 = t0 := rfl
    obtain ⟨w, h1, h2, _, h4⟩ := runs_forever_step cfg st0 t0 hf hv hp 0 (by rw [h00]; omega)
    by_cases c : τ < w
    · exact Or.inl ⟨0, w, by rw [h00]; exact h0, h1, c, h4⟩
    · exact Or.inr ⟨by rw [h4]; omega, by rw [h4]; rw [h00] at h2; omega⟩
  | k + 1 => by
    rcases chain τ h0 hτ k with l | ⟨r1, r2⟩
    · exact Or.inl l
    · obtain ⟨w, h1, h2, _, h4⟩ := runs_forever_step cfg st0 t0 hf hv hp (k + 1) (by omega)
      by_cases c : τ < w
      · exact Or.inl ⟨k + 1, w, r1, h1, c, h4⟩
      · exact Or.inr ⟨by rw [h4]; omega, by rw [h4]; omega⟩

/-- **never stale**: at every instant `τ` after the creation (and before
    2155) there is a last evaluation at or before `τ`, the task is installed
    for later than `τ`, and whatever `eval` would say at `τ` is what the
    present value has been since that evaluation -/
theorem never_stale_eval (τ : Nat) (h0 : t0 ≤ τ) (hτ : τ < horizon) :
    ∃ k w, (trajectory cfg st0 t0 k).1 ≤ τ ∧ (trajectory cfg st0 t0 k).2.deadline = some w ∧ τ < w ∧
      (trajectory cfg st0 t0 (k + 1)).1 = w ∧
      ∀ v n, evalSchedule cfg (dateOf τ) (timeOf τ) = .ok (some (v, n)) →
        (trajectory cfg st0 t0 k).2.pv = v := by
  rcases chain cfg st0 t0 hf hv hp τ h0 hτ (τ - t0) with ⟨j, w, h1, h2, h3, h4⟩ | ⟨r1, r2⟩
  · refine ⟨j, w, h1, h2, h3, h4, ?_⟩
    intro v n hev
    obtain ⟨s, hs⟩ := trajectory_is_processTask cfg st0 t0 j
    generalize (trajectory cfg st0 t0 j).1 = now at *
    obtain ⟨r, hr, hpt, hlt, hle⟩ := processTask_rearms cfg s now hf hv hp (by omega)
    rw [hpt] at hs
    rw [hs] at h2 ⊢
    simp only [Option.some.injEq] at h2
    -- same day
    have hday : τ / usPerDay = now / usPerDay := by
      unfold usPerDay at *; omega
    have hdate : dateOf τ = dateOf now := by unfold dateOf; rw [hday]
    rw [hdate] at hev
    cases r with
    | none =>
      have := eval_none_date (t' := timeOf τ) hr
      rw [this] at hev; cases hev
    | some p =>
      obtain ⟨v0, n0⟩ := p
      have hw : waitFor (some (v0, n0)) = n0 := rfl
      rw [hw] at h2 hlt hle
      obtain ⟨hw1, _⟩ := waitFor_facts hp hr
      rw [hw] at hw1
      have hnorm : n0.Norm := by
        rcases hw1 with h | h
        · rw [h]; exact nextDay_norm
        · exact h.norm
      have hle' : (timeOf now).le (timeOf τ) = true := by
        rw [Time.le_iff_us (timeOf_proper now).norm (timeOf_proper τ).norm, timeOf_us, timeOf_us]
        have hday' : τ / 86400000000 = now / 86400000000 := hday
        show now % 86400000000 / 10000 * 10000 ≤ τ % 86400000000 / 10000 * 10000
        omega
      have hlt' : (timeOf τ).lt n0 = true := by
        rw [Time.lt_iff_us (timeOf_proper τ).norm hnorm]
        have h7 : (timeOf τ).us ≤ τ % 86400000000 := (timeOf_us_le τ).1
        have hday' : τ / 86400000000 = now / 86400000000 := hday
        have h3' : τ < now / 86400000000 * 86400000000 + n0.us := by rw [← h2] at h3; exact h3
        omega
      have := eval_stable hr hle' hlt'
      rw [this] at hev
      simp only [Except.ok.injEq, Option.some.injEq, Prod.mk.injEq] at hev
      simp only [Option.map, Option.getD]
      exact hev.1
  · omega

/-- **never stale**, against the declarative rule (time-ordered lists) -/
theorem never_stale_spec (hs : SortedCfg cfg) (τ : Nat) (h0 : t0 ≤ τ) (hτ : τ < horizon) :
    ∃ k w, (trajectory cfg st0 t0 k).1 ≤ τ ∧ (trajectory cfg st0 t0 k).2.deadline = some w ∧ τ < w ∧
      (trajectory cfg st0 t0 (k + 1)).1 = w ∧
      ∀ v, specValue cfg (dateOf τ) (timeOf τ) = some v → (trajectory cfg st0 t0 k).2.pv = v := by
  obtain ⟨k, w, h1, h2, h3, h4, h5⟩ := never_stale_eval cfg st0 t0 hf hv hp τ h0 hτ
  refine ⟨k, w, h1, h2, h3, h4, ?_⟩
  intro v hvs
  obtain ⟨r, hr, hrs⟩ := eval_spec cfg (dateOf τ) (timeOf τ) hv hs (validDate_civil _).tuple
  rw [hvs] at hrs
  cases r with
  | none => cases hrs
  | some p =>
    obtain ⟨v1, n1⟩ := p
    simp only [Option.map, Option.some.injEq] at hrs
    subst hrs
    exact h5 _ _ hr

end chain

end BacVerif.Sched
