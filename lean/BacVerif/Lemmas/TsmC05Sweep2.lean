/-
  Lemmas.TsmC05Sweep2 — more model-side single-fault sweeps (TESTS, see TsmC05Sweep.lean).
-/
import BacVerif.Lemmas.TsmC05Sweep
namespace BacVerif.Tsm

/-- TEST: windows 1 against 8 and 8 against 1 -/
theorem sweep_6x6_w18 : Sched.sweep (swParams 240 240) (swCfg 50 1) (swCfg 50 8) swKinds 600 = (true, 20) ∧
    Sched.sweep (swParams 240 240) (swCfg 50 8) (swCfg 50 1) swKinds 600 = (true, 24) := by
  decide +kernel

end BacVerif.Tsm
