/-
  Lemmas.CovStep — a sleep of the run loop keeps the invariant: after `step` no armed
  deadline is at or before the clock (every lifetime that has elapsed has been processed).
-/
import BacVerif.Lemmas.CovSub
namespace BacVerif.Cov

/-! ## earliest task -/

theorem minTime_none : ∀ {l : List Task}, minTime l = none → l = []
  | [], _ => rfl
  | x :: rest, h => by
    simp only [minTime] at h
    split at h <;> cases h

theorem minTime_le : ∀ {l : List Task} {m : Nat}, minTime l = some m → ∀ k ∈ l, m ≤ k.t
  | [], _, h, _, _ => by cases h
  | x :: rest, m, h, k, hk => by
    simp only [minTime] at h
    split at h
    · rename_i hr
      have := minTime_none hr
      subst this
      simp only [List.mem_singleton] at hk
      cases h; subst hk; exact Nat.le_refl _
    · rename_i m' hr
      have ih := minTime_le hr
      simp only [Option.some.injEq] at h
      rcases List.mem_cons.mp hk with rfl | hk'
      · split at h <;> omega
      · have := ih k hk'
        split at h <;> omega

/-! ## what is armed -/

theorem mem_detTasks {o : Nat} {d : Det} {k : Task} :
    k ∈ detTasks o d ↔
      (∃ c ∈ d.subs, c.due = some (k.t, k.q) ∧ k.ref = .expiry o c.sid) ∨
      (d.ptask = some (k.t, k.q) ∧ k.ref = .periodic o d.gen) := by
  unfold detTasks
  rw [List.mem_append]
  constructor
  · rintro (h | h)
    · left
      obtain ⟨c, hc, hk⟩ := List.mem_filterMap.mp h
      refine ⟨c, hc, ?_⟩
      unfold subTask at hk
      split at hk
      · rename_i t q hdue
        simp only [Option.some.injEq] at hk
        subst hk
        exact ⟨hdue, rfl⟩
      · cases hk
    · right
      split at h
      · rename_i t q hp
        simp only [List.mem_singleton] at h
        subst h
        exact ⟨hp, rfl⟩
      · cases h
  · rintro (⟨c, hc, hdue, href⟩ | ⟨hp, href⟩)
    · left
      apply List.mem_filterMap.mpr
      refine ⟨c, hc, ?_⟩
      unfold subTask
      rw [hdue]
      simp only [Option.some.injEq]
      cases k; simp_all
    · right
      rw [hp]
      simp only [List.mem_singleton]
      cases k; simp_all

theorem mem_armed {s : State} {k : Task} :
    k ∈ armedTasks s ↔ ∃ ob ∈ s.objs, ∃ d, ob.det = some d ∧ k ∈ detTasks ob.id d := by
  unfold armedTasks
  rw [List.mem_flatMap]
  constructor
  · rintro ⟨ob, hob, hk⟩
    unfold objTasks at hk
    split at hk
    · rename_i d hd
      exact ⟨ob, hob, d, hd, hk⟩
    · cases hk
  · rintro ⟨ob, hob, d, hd, hk⟩
    refine ⟨ob, hob, ?_⟩
    unfold objTasks
    rw [hd]; exact hk

/-- every armed deadline is at least `lo'` ⇒ the invariant holds with bound `lo'` -/
theorem invAt_of_armed {lo lo' : Nat} {s : State} (h : InvAt lo s)
    (ha : ∀ k ∈ armedTasks s, lo' ≤ k.t) : InvAt lo' s := by
  refine ⟨h.1, ?_⟩
  intro ob hob d hd
  have hok := h.2 ob hob d hd
  refine ⟨hok.keys, hok.sids, ?_, hok.gen, ?_⟩
  · intro c hc
    have hc' := hok.subs c hc
    refine ⟨hc'.life_due, ?_, hc'.sid_lt⟩
    intro t q hdue
    have : (⟨t, q, .expiry ob.id c.sid⟩ : Task) ∈ armedTasks s :=
      mem_armed.mpr ⟨ob, hob, d, hd, mem_detTasks.mpr (Or.inl ⟨c, hc, hdue, rfl⟩)⟩
    exact ha _ this
  · intro t q hp
    have : (⟨t, q, .periodic ob.id d.gen⟩ : Task) ∈ armedTasks s :=
      mem_armed.mpr ⟨ob, hob, d, hd, mem_detTasks.mpr (Or.inr ⟨hp, rfl⟩)⟩
    exact ⟨ha _ this, (hok.ptask t q hp).2⟩

theorem armed_ge {lo : Nat} {s : State} (h : InvAt lo s) : ∀ k ∈ armedTasks s, lo ≤ k.t := by
  intro k hk
  obtain ⟨ob, hob, d, hd, hkd⟩ := mem_armed.mp hk
  have hok := h.2 ob hob d hd
  rcases mem_detTasks.mp hkd with ⟨c, hc, hdue, _⟩ | ⟨hp, _⟩
  · exact (hok.subs c hc).due_future _ _ hdue
  · exact (hok.ptask _ _ hp).1

/-! ## the clock moves to the next deadline -/

theorem advance_objs (s : State) (dt : Nat) : (advance s dt).objs = s.objs := rfl
theorem advance_armed (s : State) (dt : Nat) : armedTasks (advance s dt) = armedTasks s := rfl

theorem advance_now_ge (s : State) (dt : Nat) : s.now ≤ (advance s dt).now := by
  unfold advance
  generalize hT : s.now + dt = target
  simp only
  split
  · split
    · split <;> omega
    · omega
  · omega

theorem advance_weak {s : State} (h : Inv s) (dt : Nat) :
    InvAt (advance s dt).now (advance s dt) := by
  have h' : InvAt (s.now + 1) (advance s dt) := h
  apply invAt_of_armed h'
  intro k hk
  rw [advance_armed] at hk
  have hgt := armed_ge h k hk
  unfold advance
  generalize hT : s.now + dt = target
  simp only
  split
  · rename_i m hm
    have := minTime_le hm k hk
    split
    · split <;> omega
    · omega
  · rename_i hm
    have := minTime_none hm
    rw [this] at hk
    cases hk

/-! ## processing one task -/

theorem uniq_of_find {lo : Nat} {s : State} {o : Nat} {ob : Obj} (h : InvAt lo s)
    (hfind : findObj s o = some ob) : ∀ x ∈ s.objs, x.id = o → x = ob := by
  intro x hx hxo
  have := find_of_mem h.1 hx hxo
  have hfind' : s.objs.find? (fun ob => ob.id == o) = some ob := hfind
  rw [hfind'] at this
  cases this; rfl

/-- what is armed after replacing the detection object of `o` -/
theorem mem_armed_setObj {lo : Nat} {s s' : State} {o : Nat} {ob : Obj} {det' : Option Det} {k : Task}
    (_h : InvAt lo s) (_hfind : findObj s o = some ob)
    (hobjs : s'.objs = s.objs.map (fun x => if x.id == o then { x with det := det' } else x))
    (hk : k ∈ armedTasks s') :
    (∃ x ∈ s.objs, x.id ≠ o ∧ ∃ d, x.det = some d ∧ k ∈ detTasks x.id d) ∨
    (∃ d', det' = some d' ∧ k ∈ detTasks o d') := by
  obtain ⟨ob1, hob1, d1, hd1, hk1⟩ := mem_armed.mp hk
  rw [hobjs] at hob1
  simp only [List.mem_map] at hob1
  obtain ⟨x, hx, rfl⟩ := hob1
  by_cases hc : x.id = o
  · have hb : (x.id == o) = true := by simpa using hc
    simp only [hb, if_true] at hd1 hk1
    right
    exact ⟨d1, hd1, hc ▸ hk1⟩
  · have hb : (x.id == o) = false := by simpa using hc
    simp only [hb] at hd1 hk1
    left
    exact ⟨x, hx, hc, d1, hd1, hk1⟩

theorem fireTask_spec {now' : Nat} {s : State} {k : Task} (hi : InvAt now' s) (hnow : s.now = now')
    (hk : k ∈ armedTasks s) :
    InvAt now' (fireTask s k).1 ∧ (fireTask s k).1.now = now' ∧
    (fireTask s k).1.nextSid = s.nextSid ∧ (fireTask s k).1.nextGen = s.nextGen ∧
    ∀ k' ∈ armedTasks (fireTask s k).1, k'.t ≤ now' → k' ∈ armedTasks s ∧ k' ≠ k := by
  obtain ⟨ob0, hob0, d0, hd0, hk0⟩ := mem_armed.mp hk
  have hfind0 : findObj s ob0.id = some ob0 := find_of_mem hi.1 hob0 rfl
  have huniq := uniq_of_find hi hfind0
  have hok0 := hi.2 ob0 hob0 d0 hd0
  rcases mem_detTasks.mp hk0 with ⟨c, hc, hdue, href⟩ | ⟨hp, href⟩
  · -- expiry of subscription c
    unfold fireTask
    rw [href]
    simp only [hfind0, hd0]
    refine ⟨?_, hnow, rfl, rfl, ?_⟩
    · unfold InvAt setObj; dsimp only
      refine invC_map hi (Nat.le_refl _) (Nat.le_refl _) (by intro _; rfl) ?_
      intro x hx hxo d' hd'
      cases huniq x hx hxo
      simp only at hd' ⊢
      split at hd'
      · cases hd'
      · cases hd'
        exact detOk_removeSid hok0 c.sid
    · intro k' hk' _
      rcases mem_armed_setObj hi hfind0 rfl hk' with ⟨x, hx, hxo, d, hd, hkx⟩ | ⟨d', hd', hkd'⟩
      · refine ⟨mem_armed.mpr ⟨x, hx, d, hd, hkx⟩, ?_⟩
        intro e
        subst e
        rcases mem_detTasks.mp hkx with ⟨_, _, _, hr⟩ | ⟨_, hr⟩
        · rw [href] at hr
          simp only [TaskRef.expiry.injEq] at hr
          exact hxo hr.1.symm
        · rw [href] at hr
          cases hr
      · split at hd'
        · cases hd'
        · cases hd'
          have hsub : List.Sublist (removeSid d0.subs c.sid) d0.subs := List.filter_sublist
          rcases mem_detTasks.mp hkd' with ⟨c', hc', hdue', hr'⟩ | ⟨hp', hr'⟩
          · refine ⟨mem_armed.mpr ⟨ob0, hob0, d0, hd0,
              mem_detTasks.mpr (Or.inl ⟨c', hsub.subset hc', hdue', hr'⟩)⟩, ?_⟩
            intro e
            subst e
            rw [href] at hr'
            simp only [TaskRef.expiry.injEq, true_and] at hr'
            simp only [removeSid, List.mem_filter, bne_iff_ne, ne_eq] at hc'
            exact hc'.2 hr'.symm
          · refine ⟨mem_armed.mpr ⟨ob0, hob0, d0, hd0,
              mem_detTasks.mpr (Or.inr ⟨hp', hr'⟩)⟩, ?_⟩
            intro e
            subst e
            rw [href] at hr'
            cases hr'
  · -- the periodic task of d0
    unfold fireTask
    rw [href]
    simp only [hfind0, hd0, bne_self_eq_false, Bool.false_eq_true, if_false]
    have hper := (hok0.ptask _ _ hp).2
    have hsc := sameCore_send s.now ob0 d0 none
    refine ⟨?_, hnow, rfl, rfl, ?_⟩
    · unfold InvAt setObj; dsimp only
      refine invC_map hi (Nat.le_refl _) (Nat.le_refl _) (by intro _; rfl) ?_
      intro x hx hxo d' hd'
      cases huniq x hx hxo
      simp only [Option.some.injEq] at hd'
      subst hd'
      have hok1 := hok0.congr hsc
      refine ⟨hok1.keys, hok1.sids, hok1.subs, hok1.gen, ?_⟩
      intro t q e
      simp only [Option.some.injEq, Prod.mk.injEq] at e
      have := nextPeriodic_gt (now := s.now) hper
      exact ⟨by omega, hper⟩
    · intro k' hk' hle
      rcases mem_armed_setObj hi hfind0 rfl hk' with ⟨x, hx, hxo, d, hd, hkx⟩ | ⟨d', hd', hkd'⟩
      · refine ⟨mem_armed.mpr ⟨x, hx, d, hd, hkx⟩, ?_⟩
        intro e
        subst e
        rcases mem_detTasks.mp hkx with ⟨_, _, _, hr⟩ | ⟨_, hr⟩
        · rw [href] at hr
          cases hr
        · rw [href] at hr
          simp only [TaskRef.periodic.injEq] at hr
          exact hxo hr.1.symm
      · simp only [Option.some.injEq] at hd'
        subst hd'
        rcases mem_detTasks.mp hkd' with ⟨c', hc', hdue', hr'⟩ | ⟨hp', hr'⟩
        · simp only [hsc.1] at hc'
          refine ⟨mem_armed.mpr ⟨ob0, hob0, d0, hd0,
            mem_detTasks.mpr (Or.inl ⟨c', hc', hdue', hr'⟩)⟩, ?_⟩
          intro e
          subst e
          rw [href] at hr'
          cases hr'
        · simp only [Option.some.injEq, Prod.mk.injEq] at hp'
          have := nextPeriodic_gt (now := s.now) hper
          omega

/-! ## all tasks due at this instant -/

theorem fireAll_spec {now' : Nat} : ∀ (l : List Task) {s : State}, InvAt now' s → s.now = now' →
    (∀ k ∈ armedTasks s, k.t ≤ now' → k ∈ l) →
    InvAt (now' + 1) (fireAll s l).1 ∧ (fireAll s l).1.now = now'
  | [], s, hi, hnow, hall => by
    simp only [fireAll]
    refine ⟨?_, hnow⟩
    apply invAt_of_armed hi
    intro k hk
    by_cases hle : k.t ≤ now'
    · cases hall k hk hle
    · omega
  | k :: rest, s, hi, hnow, hall => by
    simp only [fireAll]
    split
    · rename_i hc
      have hk : k ∈ armedTasks s := by simpa using hc
      obtain ⟨h1, h2, _, _, h5⟩ := fireTask_spec hi hnow hk
      have hq := quiet_run h1
      have hi2 := hq.invAt h1
      have hnow2 : (run (fireTask s k).1).1.now = now' := by rw [hq.now, h2]
      have hall2 : ∀ k' ∈ armedTasks (run (fireTask s k).1).1, k'.t ≤ now' → k' ∈ rest := by
        intro k' hk' hle
        rw [hq.armedTasks] at hk'
        obtain ⟨ha, hne⟩ := h5 k' hk' hle
        rcases List.mem_cons.mp (hall k' ha hle) with e | hr
        · exact (hne e).elim
        · exact hr
      exact fireAll_spec rest hi2 hnow2 hall2
    · rename_i hc
      have hk : k ∉ armedTasks s := by simpa using hc
      apply fireAll_spec rest hi hnow
      intro k' hk' hle
      rcases List.mem_cons.mp (hall k' hk' hle) with e | hr
      · subst e; exact (hk hk').elim
      · exact hr

theorem mem_insertTask {x k : Task} : ∀ {l : List Task}, k ∈ insertTask x l ↔ k = x ∨ k ∈ l
  | [] => by simp [insertTask]
  | y :: rest => by
    simp only [insertTask]
    split
    · simp
    · simp only [List.mem_cons, mem_insertTask (l := rest)]
      constructor
      · rintro (h | h | h) <;> simp [h]
      · rintro (h | h | h) <;> simp [h]

theorem mem_sortTasks {k : Task} : ∀ {l : List Task}, k ∈ sortTasks l ↔ k ∈ l
  | [] => by simp [sortTasks]
  | x :: rest => by
    simp only [sortTasks, mem_insertTask, mem_sortTasks (l := rest), List.mem_cons]

/-- `step` re-establishes the strict invariant: nothing whose time has come is left armed -/
theorem inv_step {s : State} (h : Inv s) (dt : Nat) : Inv (step s dt).1 := by
  unfold step
  simp only
  have hq := quiet_run h
  have h0 : Inv (run s).1 := by
    have := hq.invAt h
    unfold Inv
    rw [hq.now]; exact this
  have hw := advance_weak h0 dt
  have hspec := fireAll_spec (now' := (advance (run s).1 dt).now)
    (sortTasks ((armedTasks (advance (run s).1 dt)).filter (fun k => k.t ≤ (advance (run s).1 dt).now)))
    hw rfl (by
      intro k hk hle
      rw [mem_sortTasks, List.mem_filter]
      exact ⟨hk, by simpa using hle⟩)
  unfold Inv
  rw [hspec.2]
  exact hspec.1

end BacVerif.Cov
