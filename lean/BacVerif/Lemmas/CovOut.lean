/-
  Lemmas.CovOut — what is emitted: every notification is justified by a listed, unexpired
  subscription and carries the current values; time remaining.
-/
import BacVerif.Lemmas.CovStep
namespace BacVerif.Cov

/-! ## time remaining -/

/-- the remaining lifetime the property asks for: 0 for an indefinite subscription,
    otherwise whole seconds until the deadline, at least 1 -/
def remainingSpec (now : Nat) (c : Sub) : Nat :=
  match c.due with
  | none => 0
  | some (t, _) => max 1 ((t - now) / usPerSec)

theorem remaining_ok {lo n now : Nat} {c : Sub} (h : SubOk lo n c) (hlo : now ≤ lo) :
    remaining now c = some (remainingSpec now c : Int) := by
  unfold remaining remainingSpec
  cases hdue : c.due with
  | none =>
    have : c.lifetime = 0 := h.life_due.mpr hdue
    simp [this]
  | some tq =>
    obtain ⟨t, q⟩ := tq
    have hl : c.lifetime ≠ 0 := fun e => by
      have := h.life_due.mp e
      rw [hdue] at this; cases this
    have hge := h.due_future t q hdue
    have hnn : (0 : Int) ≤ (t : Int) - (now : Int) := by omega
    have hkey : Int.tdiv ((t : Int) - (now : Int)) ((usPerSec : Nat) : Int)
        = (((t - now) / 1000000 : Nat) : Int) := by
      rw [Int.tdiv_eq_ediv_of_nonneg hnn]; unfold usPerSec; omega
    simp only [hl, if_false, hkey]
    unfold usPerSec
    congr 1
    split <;> omega

theorem notifyOf_ok {lo n now : Nat} {c : Sub} (ob : Obj) (h : SubOk lo n c) (hlo : now ≤ lo) :
    notifyOf now ob c =
      .notify c.addr c.pid ob.id c.confirmed ob.pv ob.flags (remainingSpec now c : Int) := by
  unfold notifyOf
  rw [remaining_ok h hlo]

/-! ## justified outputs -/

/-- `out` is legitimate at instant `now` in state `s`: a notification goes to a subscription
    that is in the list of the object it reports, that has not passed its deadline, with the
    confirmed flag of that record, the object's current values and the remaining lifetime;
    the TypeError marker never is -/
def Justified (now : Nat) (s : State) : Out → Prop
  | .notify a p o cf pv fl r =>
      ∃ ob ∈ s.objs, ob.id = o ∧ ob.pv = pv ∧ ob.flags = fl ∧ ∃ d, ob.det = some d ∧
        ∃ c ∈ d.subs, c.addr = a ∧ c.pid = p ∧ c.confirmed = cf ∧
          r = (remainingSpec now c : Int) ∧
          (c.due = none ∨ ∃ t q, c.due = some (t, q) ∧ now ≤ t)
  | .raised => False
  | _ => True

/-- every listed record of `s'` is a listed record of `s` (same object values) -/
def Covers (s s' : State) : Prop :=
  ∀ ob' ∈ s'.objs, ∀ d', ob'.det = some d' →
    ∃ ob ∈ s.objs, ob.id = ob'.id ∧ ob.pv = ob'.pv ∧ ob.flags = ob'.flags ∧
      ∃ d, ob.det = some d ∧ ∀ c ∈ d'.subs, c ∈ d.subs

theorem Covers.refl (s : State) : Covers s s :=
  fun ob hob d hd => ⟨ob, hob, rfl, rfl, rfl, d, hd, fun _ h => h⟩

theorem Covers.trans {a b c : State} (h1 : Covers a b) (h2 : Covers b c) : Covers a c := by
  intro ob'' hob'' d'' hd''
  obtain ⟨ob', hob', e1, e2, e3, d', hd', hs'⟩ := h2 ob'' hob'' d'' hd''
  obtain ⟨ob, hob, f1, f2, f3, d, hd, hs⟩ := h1 ob' hob' d' hd'
  exact ⟨ob, hob, f1.trans e1, f2.trans e2, f3.trans e3, d, hd, fun c hc => hs c (hs' c hc)⟩

theorem Justified.covers {now : Nat} {s s' : State} {out : Out} (hc : Covers s s')
    (h : Justified now s' out) : Justified now s out := by
  cases out with
  | notify a p o cf pv fl r =>
    obtain ⟨ob', hob', e1, e2, e3, d', hd', c, hcm, rest⟩ := h
    obtain ⟨ob, hob, f1, f2, f3, d, hd, hs⟩ := hc ob' hob' d' hd'
    exact ⟨ob, hob, f1.trans e1, f2.trans e2, f3.trans e3, d, hd, c, hs c hcm, rest⟩
  | raised => exact h
  | ack _ => trivial
  | error _ _ => trivial

theorem Quiet.covers {s s' : State} (h : Quiet s s') : Covers s s' := by
  obtain ⟨g, e, c⟩ := h.objs
  intro ob' hob' d' hd'
  rw [e] at hob'
  obtain ⟨ob, hob, rfl⟩ := List.mem_map.mp hob'
  have hc := c ob hob
  have hdc := hc.det
  rw [hd'] at hdc
  cases hdo : ob.det with
  | none => rw [hdo] at hdc; exact hdc.elim
  | some d =>
    rw [hdo] at hdc
    exact ⟨ob, hob, hc.id.symm, hc.pv.symm, hc.flags.symm, d, hdo, fun x hx => hdc.1 ▸ hx⟩

/-- the requests `send_cov_notifications` hands over are justified -/
theorem send_justified {lo now : Nat} {s : State} {ob : Obj} {d : Det} (hi : InvAt lo s)
    (hlo : now ≤ lo) (hob : ob ∈ s.objs) (hd : ob.det = some d) (only : Option Nat) :
    ∀ out ∈ (sendNotifications now ob d only).2, Justified now s out := by
  have hok := hi.2 ob hob d hd
  have hone : ∀ c ∈ d.subs, Justified now s (notifyOf now ob c) := by
    intro c hc
    have hsub := hok.subs c hc
    rw [notifyOf_ok ob hsub hlo]
    refine ⟨ob, hob, rfl, rfl, rfl, d, hd, c, hc, rfl, rfl, rfl, rfl, ?_⟩
    cases hdue : c.due with
    | none => exact Or.inl rfl
    | some tq =>
      obtain ⟨t, q⟩ := tq
      exact Or.inr ⟨t, q, rfl, Nat.le_trans hlo (hsub.due_future t q hdue)⟩
  intro out hout
  unfold sendNotifications at hout
  simp only at hout
  split at hout
  · cases hout
  · split at hout
    · obtain ⟨c, hc, rfl⟩ := List.mem_map.mp hout
      exact hone c hc
    · split at hout
      · cases hout
      · rename_i c hfindc
        simp only [List.mem_singleton] at hout
        subst hout
        exact hone c (List.mem_of_find?_eq_some hfindc)

theorem runItem_justified {lo : Nat} {s : State} (hi : InvAt lo s) (hlo : s.now ≤ lo) (it : Deferred) :
    ∀ out ∈ (runItem s it).2, Justified s.now s out := by
  intro out hout
  cases it with
  | exec o g =>
    simp only [runItem] at hout
    split at hout
    · cases hout
    · rename_i ob hfind
      split at hout
      · cases hout
      · rename_i d hd
        split at hout
        · cases hout
        · exact send_justified hi hlo (findObj_mem hfind).1 hd none out hout
  | initial o g sid =>
    simp only [runItem] at hout
    split at hout
    · cases hout
    · rename_i ob hfind
      split at hout
      · cases hout
      · rename_i d hd
        split at hout
        · cases hout
        · exact send_justified hi hlo (findObj_mem hfind).1 hd (some sid) out hout

theorem runItems_justified {lo : Nat} : ∀ (its : List Deferred) {s : State}, InvAt lo s → s.now ≤ lo →
    ∀ out ∈ (runItems s its).2, Justified s.now s out
  | [], _, _, _, out, hout => by cases hout
  | it :: rest, s, hi, hlo, out, hout => by
    simp only [runItems, List.mem_append] at hout
    have hq := quiet_runItem hi it
    rcases hout with h | h
    · exact runItem_justified hi hlo it out h
    · have hi' := hq.invAt hi
      have := runItems_justified rest hi' (by rw [hq.now]; exact hlo) out h
      rw [hq.now] at this
      exact this.covers hq.covers

theorem run_justified {lo : Nat} {s : State} (hi : InvAt lo s) (hlo : s.now ≤ lo) :
    ∀ out ∈ (run s).2, Justified s.now s out := by
  intro out hout
  unfold run at hout
  have h0 : InvAt lo { s with deferred := [] } := hi
  have := runItems_justified s.deferred h0 hlo out hout
  exact this

/-! ## tasks -/

theorem fireTask_covers {now' : Nat} {s : State} {k : Task} (hi : InvAt now' s)
    (hk : k ∈ armedTasks s) : Covers s (fireTask s k).1 := by
  obtain ⟨ob0, hob0, d0, hd0, hk0⟩ := mem_armed.mp hk
  have hfind0 : findObj s ob0.id = some ob0 := find_of_mem hi.1 hob0 rfl
  have huniq := uniq_of_find hi hfind0
  rcases mem_detTasks.mp hk0 with ⟨c, hc, hdue, href⟩ | ⟨hp, href⟩
  · unfold fireTask
    rw [href]
    simp only [hfind0, hd0]
    intro ob' hob' d' hd'
    simp only [setObj, List.mem_map] at hob'
    obtain ⟨x, hx, rfl⟩ := hob'
    by_cases hxo : x.id = ob0.id
    · have hb : (x.id == ob0.id) = true := by simpa using hxo
      simp only [hb, if_true] at hd' ⊢
      cases huniq x hx hxo
      split at hd'
      · cases hd'
      · cases hd'
        exact ⟨ob0, hob0, rfl, rfl, rfl, d0, hd0, fun y hy => (List.mem_filter.mp hy).1⟩
    · have hb : (x.id == ob0.id) = false := by simpa using hxo
      simp only [hb] at hd' ⊢
      exact ⟨x, hx, rfl, rfl, rfl, d', hd', fun _ h => h⟩
  · unfold fireTask
    rw [href]
    simp only [hfind0, hd0, bne_self_eq_false, Bool.false_eq_true, if_false]
    have hsc := sameCore_send s.now ob0 d0 none
    intro ob' hob' d' hd'
    simp only [setObj, List.mem_map] at hob'
    obtain ⟨x, hx, rfl⟩ := hob'
    by_cases hxo : x.id = ob0.id
    · have hb : (x.id == ob0.id) = true := by simpa using hxo
      simp only [hb, if_true, Option.some.injEq] at hd' ⊢
      cases huniq x hx hxo
      subst hd'
      exact ⟨ob0, hob0, rfl, rfl, rfl, d0, hd0, fun y hy => hsc.1 ▸ hy⟩
    · have hb : (x.id == ob0.id) = false := by simpa using hxo
      simp only [hb] at hd' ⊢
      exact ⟨x, hx, rfl, rfl, rfl, d', hd', fun _ h => h⟩

theorem fireTask_justified {now' : Nat} {s : State} {k : Task} (hi : InvAt now' s) (hnow : s.now = now')
    (hk : k ∈ armedTasks s) : ∀ out ∈ (fireTask s k).2, Justified now' s out := by
  obtain ⟨ob0, hob0, d0, hd0, hk0⟩ := mem_armed.mp hk
  have hfind0 : findObj s ob0.id = some ob0 := find_of_mem hi.1 hob0 rfl
  intro out hout
  rcases mem_detTasks.mp hk0 with ⟨c, hc, hdue, href⟩ | ⟨hp, href⟩
  · unfold fireTask at hout
    rw [href] at hout
    simp only [hfind0, hd0] at hout
    cases hout
  · unfold fireTask at hout
    rw [href] at hout
    simp only [hfind0, hd0, bne_self_eq_false, Bool.false_eq_true, if_false] at hout
    have := send_justified hi (Nat.le_of_eq hnow) hob0 hd0 none out hout
    rw [hnow] at this
    exact this

theorem fireAll_justified {now' : Nat} : ∀ (l : List Task) {s : State}, InvAt now' s → s.now = now' →
    ∀ out ∈ (fireAll s l).2, Justified now' s out
  | [], _, _, _, out, hout => by cases hout
  | k :: rest, s, hi, hnow, out, hout => by
    simp only [fireAll] at hout
    split at hout
    · rename_i hc
      have hk : k ∈ armedTasks s := by simpa using hc
      obtain ⟨h1, h2, _, _, _⟩ := fireTask_spec hi hnow hk
      have hcov1 := fireTask_covers hi hk
      have hq := quiet_run h1
      have hi2 := hq.invAt h1
      have hnow2 : (run (fireTask s k).1).1.now = now' := by rw [hq.now, h2]
      simp only [List.mem_append] at hout
      rcases hout with (h | h) | h
      · exact fireTask_justified hi hnow hk out h
      · have := run_justified h1 (Nat.le_of_eq h2) out h
        rw [h2] at this
        exact this.covers hcov1
      · have := fireAll_justified rest hi2 hnow2 out h
        exact (this.covers hq.covers).covers hcov1
    · exact fireAll_justified rest hi hnow out hout

end BacVerif.Cov
