/-
  Lemmas.IocbInv — the global invariant of the per-destination queues, over
  ANY operation sequence including operations issued from inside completion
  callbacks:

    UB   queue objects have pairwise different serials, all below the counter
    D    an idle queue object with IOCBs waiting always has a `_trigger`
         pending in the deferred list                     ("never stuck")

  Inside an operation D can be false for ONE serial for a moment (the trigger
  that is running has been popped from the deferred list): `DEx (some a)`.
  Every operation preserves `Good x = UB ∧ DEx x` for every exception `x`,
  given that the callback behaviour does (`CbGood F`) — the callback runs
  operations of this very layer, so `cb0` and `cb1` do.
-/
import BacVerif.Model.Iocb
namespace BacVerif.Iocb
set_option linter.unusedSimpArgs false
set_option linter.unusedVariables false

def qids (l : List (Addr × Q)) : List Nat := l.map (fun e => e.2.qid)

structure UB (s : St) : Prop where
  nodup : (qids s.queues).Nodup
  below : ∀ e ∈ s.queues, e.2.qid < s.nextQ

/-- no queue object is stuck — except possibly those with serial `x` -/
def DEx (x : Option Nat) (s : St) : Prop :=
  ∀ e ∈ s.queues, e.2.busy = false → e.2.queue ≠ [] → e.2.qid ∈ s.deferred ∨ some e.2.qid = x

structure Good (x : Option Nat) (s : St) : Prop where
  ub : UB s
  d : DEx x s

/-- the callback behaviour preserves the invariant, whatever the exception -/
def CbGood (F : Cb) : Prop := ∀ (x : Option Nat) (s : St) (j : Nat), Good x s → Good x (F s j).1

/-! ### lists -/

theorem mem_of_lookupQ {l : List (Addr × Q)} {a : Addr} {q : Q} (h : lookupQ l a = some q) : (a, q) ∈ l := by
  induction l with
  | nil => simp [lookupQ] at h
  | cons e es ih =>
    obtain ⟨b, y⟩ := e
    simp only [lookupQ] at h
    split at h
    · rename_i hb; cases h; subst hb; exact List.mem_cons_self
    · exact List.mem_cons_of_mem _ (ih h)

theorem mem_of_findQ {l : List (Addr × Q)} {b : Nat} {q : Q} (h : findQ l b = some q) :
    ∃ a, (a, q) ∈ l ∧ q.qid = b := by
  induction l with
  | nil => simp [findQ] at h
  | cons e es ih =>
    obtain ⟨a, y⟩ := e
    simp only [findQ] at h
    split at h
    · rename_i hb; cases h; exact ⟨a, List.mem_cons_self, hb⟩
    · obtain ⟨a', hm, hq⟩ := ih h
      exact ⟨a', List.mem_cons_of_mem _ hm, hq⟩

theorem findQ_none_iff {l : List (Addr × Q)} {b : Nat} : findQ l b = none ↔ ∀ e ∈ l, e.2.qid ≠ b := by
  induction l with
  | nil => simp [findQ]
  | cons e es ih =>
    obtain ⟨a, y⟩ := e
    simp only [findQ]
    split
    · rename_i hb; simp [hb]
    · rename_i hb; simp [ih, hb]

/-- with pairwise different serials a serial names one queue object -/
theorem unique_of_nodup {l : List (Addr × Q)} (h : (qids l).Nodup) {e1 e2 : Addr × Q}
    (h1 : e1 ∈ l) (h2 : e2 ∈ l) (hq : e1.2.qid = e2.2.qid) : e1 = e2 := by
  induction l with
  | nil => cases h1
  | cons e es ih =>
    simp only [qids, List.map_cons, List.nodup_cons] at h
    rcases List.mem_cons.1 h1 with r1 | r1 <;> rcases List.mem_cons.1 h2 with r2 | r2
    · rw [r1, r2]
    · exfalso; apply h.1; rw [← r1, hq]; exact List.mem_map_of_mem r2
    · exfalso; apply h.1; rw [← r2, ← hq]; exact List.mem_map_of_mem r1
    · exact ih h.2 r1 r2

theorem mem_updQ {l : List (Addr × Q)} {a : Nat} {f : Q → Q} {e' : Addr × Q} (h : e' ∈ updQ l a f) :
    ∃ e ∈ l, e' = if e.2.qid = a then (e.1, f e.2) else e := by
  simp only [updQ, List.mem_map] at h
  obtain ⟨e, he, rfl⟩ := h
  exact ⟨e, he, by split <;> rfl⟩

theorem qids_updQ (l : List (Addr × Q)) (a : Nat) (f : Q → Q) (hf : ∀ e ∈ l, (f e.2).qid = e.2.qid) :
    qids (updQ l a f) = qids l := by
  induction l with
  | nil => rfl
  | cons e es ih =>
    have h1 := hf e List.mem_cons_self
    have h2 := ih (fun x hx => hf x (List.mem_cons_of_mem _ hx))
    simp only [qids, updQ, List.map_cons] at h2 ⊢
    rw [h2]
    congr 1
    split <;> simp [h1]

theorem qids_delQ_sublist (l : List (Addr × Q)) (a : Addr) : (qids (delQ l a)).Sublist (qids l) := by
  unfold qids delQ
  exact List.Sublist.map _ List.filter_sublist

theorem mem_delQ {l : List (Addr × Q)} {a : Addr} {e : Addr × Q} (h : e ∈ delQ l a) : e ∈ l :=
  (List.mem_filter.1 h).1

/-! ### primitive state changes -/

theorem Good.of_eq {x : Option Nat} {s s' : St} (h : Good x s) (hq : s'.queues = s.queues)
    (hn : s'.nextQ = s.nextQ) (hd : s'.deferred = s.deferred) : Good x s' := by
  refine ⟨⟨by rw [hq]; exact h.ub.nodup, by rw [hq, hn]; exact h.ub.below⟩, ?_⟩
  intro e he hb hne
  rw [hq] at he; rw [hd]
  exact h.d e he hb hne

/-- in-place mutation of the queue objects with serial `a`: every mutated
    object that is idle with IOCBs waiting afterwards was so before, or has a
    trigger pending afterwards, or is the exception -/
theorem Good.mutQ {x : Option Nat} {s s' : St} (h : Good x s) (a : Nat) (f : Q → Q)
    (hq : s'.queues = updQ s.queues a f) (hn : s'.nextQ = s.nextQ)
    (hd : ∀ t ∈ s.deferred, t ∈ s'.deferred)
    (hf : ∀ e ∈ s.queues, e.2.qid = a → (f e.2).qid = e.2.qid ∧
      ((f e.2).busy = false → (f e.2).queue ≠ [] →
        (e.2.busy = false ∧ e.2.queue ≠ []) ∨ a ∈ s'.deferred ∨ some a = x)) :
    Good x s' := by
  have hqid : ∀ e ∈ s.queues, ((fun y => if y.qid = a then f y else y) e.2).qid = e.2.qid := by
    intro e he
    dsimp only
    split
    · rename_i ha; exact (hf e he ha).1
    · rfl
  have hupd : updQ s.queues a f = updQ s.queues a (fun y => if y.qid = a then f y else y) := by
    simp only [updQ]
    apply List.map_congr_left
    intro e _
    split
    · rename_i ha; simp [ha]
    · rfl
  refine ⟨⟨?_, ?_⟩, ?_⟩
  · rw [hq, hupd, qids_updQ _ _ _ hqid]; exact h.ub.nodup
  · intro e' he'
    rw [hq] at he'
    obtain ⟨e, he, rfl⟩ := mem_updQ he'
    rw [hn]
    split
    · rename_i ha; rw [(hf e he ha).1]; exact h.ub.below e he
    · exact h.ub.below e he
  · intro e' he' hb hne
    rw [hq] at he'
    obtain ⟨e, he, rfl⟩ := mem_updQ he'
    by_cases ha : e.2.qid = a
    · rw [if_pos ha] at hb hne ⊢
      obtain ⟨hqq, hcase⟩ := hf e he ha
      dsimp only at hb hne ⊢
      rcases hcase hb hne with ⟨h1, h2⟩ | h3 | h4
      · rcases h.d e he h1 h2 with h5 | h5
        · left; rw [hqq]; exact hd _ h5
        · right; rw [hqq]; exact h5
      · left; rw [hqq, ha]; exact h3
      · right; rw [hqq, ha]; exact h4
    · rw [if_neg ha] at hb hne ⊢
      rcases h.d e he hb hne with h5 | h5
      · exact Or.inl (hd _ h5)
      · exact Or.inr h5

theorem Good.dropQ {x : Option Nat} {s : St} (h : Good x s) (a : Addr) :
    Good x { s with queues := delQ s.queues a } := by
  refine ⟨⟨(qids_delQ_sublist _ _).nodup h.ub.nodup, fun e he => h.ub.below e (mem_delQ he)⟩, ?_⟩
  intro e he hb hne
  exact h.d e (mem_delQ he) hb hne

/-- `queue_by_address[dest] = SieveQueue(...)`: a fresh idle empty object -/
theorem Good.newQ {x : Option Nat} {s : St} (h : Good x s) (dest : Addr) :
    Good x { s with queues := s.queues ++ [(dest, { qid := s.nextQ })], nextQ := s.nextQ + 1 } := by
  refine ⟨⟨?_, ?_⟩, ?_⟩
  · show (qids (s.queues ++ [(dest, { qid := s.nextQ })])).Nodup
    simp only [qids, List.map_append, List.map_cons, List.map_nil]
    rw [List.nodup_append]
    refine ⟨h.ub.nodup, by simp, ?_⟩
    intro a ha b hb
    simp only [List.mem_singleton] at hb
    subst hb
    obtain ⟨e, he, rfl⟩ := List.mem_map.1 ha
    have := h.ub.below e he
    intro heq
    have heq' : e.2.qid = s.nextQ := heq
    omega
  · intro e he
    show e.2.qid < s.nextQ + 1
    rcases List.mem_append.1 he with h1 | h1
    · have := h.ub.below e h1; omega
    · simp only [List.mem_singleton] at h1; subst h1; exact Nat.lt_succ_self _
  · intro e he hb hne
    rcases List.mem_append.1 he with h1 | h1
    · exact h.d e h1 hb hne
    · simp only [List.mem_singleton] at h1; subst h1; exact absurd rfl hne

/-- a pending trigger more never hurts; the trigger of the exception repairs it -/
theorem Good.addDeferred {x : Option Nat} {s : St} (h : Good x s) (a : Nat) :
    Good (if x = some a then none else x) { s with deferred := s.deferred ++ [a] } := by
  refine ⟨⟨h.ub.nodup, h.ub.below⟩, ?_⟩
  intro e he hb hne
  show e.2.qid ∈ s.deferred ++ [a] ∨ _
  rcases h.d e he hb hne with h1 | h1
  · exact Or.inl (List.mem_append_left _ h1)
  · by_cases hx : x = some a
    · left
      rw [hx] at h1
      cases h1
      simp
    · right; rw [if_neg hx]; exact h1

theorem Good.weaken {s : St} (h : Good none s) (x : Option Nat) : Good x s :=
  ⟨h.ub, fun e he hb hne => (h.d e he hb hne).elim Or.inl (fun h' => by cases h')⟩

/-- the exception is not needed when its queue object is busy, empty or re-triggered -/
theorem Good.fix {s : St} {a : Nat} (h : Good (some a) s)
    (hfix : ∀ e ∈ s.queues, e.2.qid = a → e.2.busy = true ∨ e.2.queue = [] ∨ a ∈ s.deferred) :
    Good none s := by
  refine ⟨h.ub, ?_⟩
  intro e he hb hne
  rcases h.d e he hb hne with h1 | h1
  · exact Or.inl h1
  · cases h1
    rcases hfix e he rfl with h2 | h2 | h2
    · rw [hb] at h2; cases h2
    · exact absurd h2 hne
    · exact Or.inl h2

theorem findQ_unique {s : St} (h : UB s) {a : Nat} {q : Q} (hq : findQ s.queues a = some q)
    {e : Addr × Q} (he : e ∈ s.queues) (hea : e.2.qid = a) : e.2 = q := by
  obtain ⟨ad, hm, hqa⟩ := mem_of_findQ hq
  have := unique_of_nodup h.nodup he hm (by rw [hea, hqa])
  rw [this]

/-! ### the operations -/

variable {F : Cb}

theorem dequeue_good {x : Option Nat} {s : St} (h : Good x s) (io : Iocb) (j : Nat) :
    Good x (dequeue s io j) := by
  unfold dequeue
  split
  · rename_i q _
    refine h.mutQ q (fun y => { y with queue := removeId y.queue j }) rfl rfl (fun t ht => ht) ?_
    intro e _ _
    refine ⟨rfl, ?_⟩
    intro hb hne
    left
    refine ⟨hb, ?_⟩
    intro hempty
    apply hne
    show removeId e.2.queue j = []
    rw [hempty]; rfl
  · exact h

theorem fire_good (hF : CbGood F) {x : Option Nat} {s : St} (h : Good x s) (j : Nat) :
    Good x (fire F s j).1 := by
  unfold fire
  split
  · exact h
  · rename_i io _
    exact hF x _ j (dequeue_good h io j)

theorem baseComplete_good (hF : CbGood F) {x : Option Nat} {s : St} (h : Good x s) (j : Nat)
    (msg : Option Nat) : Good x (baseComplete F s j msg).1 := by
  unfold baseComplete
  split
  · exact h
  · split
    · exact h
    · split
      · exact h
      · refine fire_good hF ?_ j
        exact h.of_eq rfl rfl rfl

theorem baseAbort_good (hF : CbGood F) {x : Option Nat} {s : St} (h : Good x s) (j err : Nat) :
    Good x (baseAbort F s j err).1 := by
  unfold baseAbort
  split
  · exact h
  · split
    · exact h
    · split
      · exact h
      · refine fire_good hF ?_ j
        exact h.of_eq rfl rfl rfl

theorem release_good {x : Option Nat} {s : St} (h : Good x s) (a : Nat) : Good x (release s a) := by
  refine h.mutQ a (fun y => { y with active := none, busy := false }) rfl rfl
    (fun t ht => List.mem_append_left _ ht) ?_
  intro e _ _
  refine ⟨rfl, fun _ _ => Or.inr (Or.inl ?_)⟩
  show a ∈ s.deferred ++ [a]
  simp

theorem qComplete_good (hF : CbGood F) {x : Option Nat} {s : St} (h : Good x s) (a j : Nat)
    (msg : Option Nat) : Good x (qComplete F s a j msg).1 := by
  unfold qComplete
  exact release_good (baseComplete_good hF h j msg) a

theorem qAbort_good (hF : CbGood F) {x : Option Nat} {s : St} (h : Good x s) (a j err : Nat) :
    Good x (qAbort F s a j err).1 := by
  unfold qAbort
  have := baseAbort_good hF h j err
  dsimp only
  split
  · exact this
  · split
    · exact this
    · exact release_good this a

theorem appComplete_good (hF : CbGood F) {x : Option Nat} {s : St} (h : Good x s) (addr : Addr)
    (kind : Conf) (msg : Option Nat) : Good x (appComplete F s addr kind msg).1 := by
  unfold appComplete
  split
  · exact h
  · rename_i q _
    split
    · exact h
    · rename_i j _
      cases kind with
      | other => exact h
      | ack =>
        dsimp only
        have := qComplete_good hF h q.qid j msg
        split
        · exact this
        · split
          · exact this.dropQ addr
          · exact this
      | err =>
        dsimp only
        have := qAbort_good hF h q.qid j (msg.getD 0)
        split
        · exact this
        · split
          · exact this.dropQ addr
          · exact this

theorem setBusy_good {x : Option Nat} {s : St} (h : Good x s) (a j : Nat) (l : List Iocb) :
    Good x ⟨l, updQ s.queues a (fun y => { y with busy := true, active := some j }), s.nextQ, s.deferred,
      s.script⟩ := by
  refine h.mutQ a (fun y => { y with busy := true, active := some j }) rfl rfl (fun t ht => ht) ?_
  intro e _ _
  exact ⟨rfl, fun hb => by cases hb⟩

theorem launch_good (hF : CbGood F) {x : Option Nat} {s : St} (h : Good x s) (a j : Nat) :
    Good x (launch F s a j).1 := by
  unfold launch
  split
  · exact h
  · rename_i io _
    dsimp only
    split
    · exact qAbort_good hF h a j _
    · have h1 := setBusy_good h a j (updI s.iocbs j fun y => { y with st := .active })
      split
      · exact qAbort_good hF h1 a j _
      · split
        · exact appComplete_good hF h1 io.dest .ack none
        · exact h1

theorem submit_good (hF : CbGood F) {x : Option Nat} {s : St} (h : Good x s) (dest prio : Nat)
    (unconf fails : Bool) : Good x (submit F s dest prio unconf fails).1 := by
  unfold submit
  dsimp only
  cases hq : lookupQ s.queues dest with
  | some q =>
    dsimp only
    split
    · rename_i hbusy
      -- queued behind the active IOCB: the queue object is busy
      refine h.mutQ q.qid (fun y => { y with queue := put y.queue prio s.iocbs.length }) rfl rfl
        (fun t ht => ht) ?_
      intro e he hea
      have : e = (dest, q) := unique_of_nodup h.ub.nodup he (mem_of_lookupQ hq) hea
      subst this
      refine ⟨rfl, fun hb => ?_⟩
      dsimp only at hb
      rw [hbusy] at hb; cases hb
    · refine launch_good hF ?_ _ _
      exact h.of_eq rfl rfl rfl
  | none =>
    dsimp only
    have h1 := h.newQ dest
    simp only [Bool.false_eq_true, if_false]
    refine launch_good hF ?_ _ _
    exact h1.of_eq rfl rfl rfl

theorem appAbort_good (hF : CbGood F) {x : Option Nat} {s : St} (h : Good x s) (j tok : Nat) :
    Good x (appAbort F s j tok).1 := by
  unfold appAbort
  split
  · exact h
  · split
    · exact qAbort_good hF h _ _ _
    · exact baseAbort_good hF h _ _

/-- the deferred trigger of serial `a`, popped from the list (so `a` is the
    exception), repairs the invariant -/
theorem trigger_good (hF : CbGood F) {s : St} {a : Nat} (h : Good (some a) s) :
    Good none (trigger F s a).1 := by
  unfold trigger
  cases hq : findQ s.queues a with
  | none =>
    exact h.fix (fun e he hea => absurd hea (findQ_none_iff.1 hq e he))
  | some q =>
    dsimp only
    split
    · rename_i hb
      exact h.fix (fun e he hea => Or.inl (by rw [findQ_unique h.ub hq he hea]; exact hb))
    · split
      · rename_i hempty
        exact h.fix (fun e he hea => Or.inr (Or.inl (by rw [findQ_unique h.ub hq he hea]; exact hempty)))
      · rename_i p j rest _
        dsimp only
        have h1 : Good (some a) ⟨updI s.iocbs j (fun y => { y with inq := none }),
            updQ s.queues a (fun y => { y with queue := rest }), s.nextQ, s.deferred, s.script⟩ := by
          refine h.mutQ a (fun y => { y with queue := rest }) rfl rfl (fun t ht => ht) ?_
          intro e _ _
          exact ⟨rfl, fun _ _ => Or.inr (Or.inr rfl)⟩
        have h2 := launch_good hF h1 a j
        cases hq2 : findQ (launch F ⟨updI s.iocbs j (fun y => { y with inq := none }),
            updQ s.queues a (fun y => { y with queue := rest }), s.nextQ, s.deferred, s.script⟩ a j).1.queues a with
        | none =>
          dsimp only
          have := h2.addDeferred a
          simpa using this
        | some q' =>
          dsimp only
          by_cases hb' : q'.busy = true
          · simp only [hb', Bool.not_true, Bool.false_eq_true, if_false]
            exact h2.fix (fun e he hea => Or.inl (by rw [findQ_unique h2.ub hq2 he hea]; exact hb'))
          · have hb'' : q'.busy = false := by simpa using hb'
            simp only [hb'', Bool.not_false, if_true]
            have := h2.addDeferred a
            simpa using this

/-! ### the two callback behaviours, events, runs -/

theorem cb0_good : CbGood cb0 := fun _ _ _ h => h

theorem runOp0_good (caller : Nat) {x : Option Nat} {s : St} (h : Good x s) (op : CbOp) :
    Good x (runOp0 caller s op).1 := by
  cases op with
  | submit dest prio unconf fails => exact submit_good cb0_good h dest prio unconf fails
  | abort j tok =>
    simp only [runOp0]
    split
    · exact h
    · exact appAbort_good cb0_good h j tok

theorem runScript0_good (caller : Nat) {x : Option Nat} : ∀ (ops : List CbOp) {s : St}, Good x s →
    Good x (runScript0 caller s ops).1 := by
  intro ops
  induction ops with
  | nil => intro s h; exact h
  | cons op ops ih =>
    intro s h
    simp only [runScript0]
    exact ih (runOp0_good caller h op)

theorem cb1_good : CbGood cb1 := fun _ s j h =>
  runScript0_good j s.script (h.of_eq rfl rfl rfl)

/-- **one event** (re-entrant operations included) keeps the invariant -/
theorem step_good {s : St} (h : Good none s) (e : Ev) : Good none (step s e).1 := by
  cases e with
  | submit dest prio unconf fails => exact submit_good cb1_good h dest prio unconf fails
  | abort j tok => exact appAbort_good cb1_good h j tok
  | confirm addr kind tok => exact appComplete_good cb1_good h addr kind (some tok)
  | runDeferred =>
    simp only [step]
    split
    · exact h
    · rename_i a rest hd
      apply trigger_good cb1_good
      refine ⟨⟨h.ub.nodup, h.ub.below⟩, ?_⟩
      intro e he hb hne
      show e.2.qid ∈ rest ∨ _
      rcases h.d e he hb hne with h1 | h1
      · rw [hd] at h1
        rcases List.mem_cons.1 h1 with h2 | h2
        · right; rw [h2]
        · exact Or.inl h2
      · cases h1
  | arm sc => exact h.of_eq rfl rfl rfl

theorem init_good : Good none St.init :=
  ⟨⟨by simp [St.init, qids], by intro e he; simp [St.init] at he⟩, by intro e he; simp [St.init] at he⟩

theorem run_good : ∀ (es : List Ev) {s : St}, Good none s → Good none (run s es).1 := by
  intro es
  induction es with
  | nil => intro s h; exact h
  | cons e es ih =>
    intro s h
    simp only [run]
    exact ih (step_good h e)

end BacVerif.Iocb
