import BacVerif.Props.C09
#print axioms BacVerif.C09.bvll_length
#print axioms BacVerif.C09.bvll_length_exact
#print axioms BacVerif.C09.stale_length_refused
#print axioms BacVerif.C09.recomputed_never_refused
#print axioms BacVerif.C09.bvlpdu_accepts_iff
#print axioms BacVerif.C09.bvll_refuses_type
#print axioms BacVerif.C09.bvll_refuses_length
#print axioms BacVerif.C09.bvll_refuses_short
#print axioms BacVerif.C09.bdt_roundtrip
#print axioms BacVerif.C09.fdt_roundtrip
#print axioms BacVerif.C09.confirmation_only_decoding_errors
#print axioms BacVerif.C09.registry_matches
#print axioms BacVerif.C09.fnOfCode_none_iff
#print axioms BacVerif.C09.unknown_function
#print axioms BacVerif.C09.bvll_roundtrip
#print axioms BacVerif.C09.ip_roundtrip
#print axioms BacVerif.C09.bvll_refuses
