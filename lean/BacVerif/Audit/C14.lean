import BacVerif.Props.C14
#print axioms BacVerif.C14.fire_order
#print axioms BacVerif.C14.never_early
#print axioms BacVerif.C14.once_per_install
#print axioms BacVerif.C14.install_fate
#print axioms BacVerif.C14.removed_never_fires
#print axioms BacVerif.C14.reinstall_moves
#print axioms BacVerif.C14.one_entry_iff_flagged
#print axioms BacVerif.C14.deferred_fifo
#print axioms BacVerif.C14.drain_queue_empty
