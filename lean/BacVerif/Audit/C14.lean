import BacVerif.Props.C14
#print axioms BacVerif.C14.never_early_step
