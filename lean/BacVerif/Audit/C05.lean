import BacVerif.Props.C05
#print axioms BacVerif.C05.placeholder
