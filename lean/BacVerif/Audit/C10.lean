import BacVerif.Props.C10
#print axioms BacVerif.C10.recvAll_append
#print axioms BacVerif.C10.reject_table_agrees
