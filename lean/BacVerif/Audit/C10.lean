import BacVerif.Props.C10
#print axioms BacVerif.C10.reply_exists
#print axioms BacVerif.C10.garbage_leaves_nothing
#print axioms BacVerif.C10.quiesce_complete
#print axioms BacVerif.C10.good_init
#print axioms BacVerif.C10.recvAll_append
#print axioms BacVerif.C10.dropped_is_noop
#print axioms BacVerif.C10.netmsg_leaves_transactions
#print axioms BacVerif.C10.dropped_leaves_state
#print axioms BacVerif.C10.dropped_absent
#print axioms BacVerif.C10.queued_request_answered
#print axioms BacVerif.C10.answered_after_garbage
#print axioms BacVerif.C10.late_answer
#print axioms BacVerif.C10.late_answer_dropped
#print axioms BacVerif.C10.reject_table_agrees
#print axioms BacVerif.C10.defaults_meet_hypotheses
