import BacVerif.Props.C08
#print axioms BacVerif.C08.control_octet_layout
#print axioms BacVerif.C08.npci_layout
#print axioms BacVerif.C08.npci_roundtrip
#print axioms BacVerif.C08.npci_refuses_version
#print axioms BacVerif.C08.npci_refuses_source
#print axioms BacVerif.C08.decode_only_decoding_errors
#print axioms BacVerif.C08.decodeNpci_ext
#print axioms BacVerif.C08.truncation_refused
#print axioms BacVerif.C08.decode_wf
#print axioms BacVerif.C08.reparse_stable
#print axioms BacVerif.C08.nets_roundtrip
#print axioms BacVerif.C08.rtes_roundtrip
#print axioms BacVerif.C08.body_roundtrip
#print axioms BacVerif.C08.table_256_refused
#print axioms BacVerif.C08.registry_matches
#print axioms BacVerif.C08.kindOfCode_some
#print axioms BacVerif.C08.message_roundtrip
