import BacVerif.Props.C08
#print axioms BacVerif.C08.registry_matches
