import BacVerif.Props.C15
#print axioms BacVerif.C15.findSlot_setSlot
