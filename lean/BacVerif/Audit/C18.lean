import BacVerif.Props.C18
#print axioms BacVerif.C18.placeholder
