import BacVerif.Props.C18
-- parse_fields
#print axioms BacVerif.C18.parse_fields_star
#print axioms BacVerif.C18.parse_fields_global
#print axioms BacVerif.C18.parse_fields_station
#print axioms BacVerif.C18.parse_fields_net_station
#print axioms BacVerif.C18.parse_fields_net_broadcast
#print axioms BacVerif.C18.parse_fields_hex
#print axioms BacVerif.C18.parse_fields_net_hex
#print axioms BacVerif.C18.combined_shadows
#print axioms BacVerif.C18.parse_fields_xhex
#print axioms BacVerif.C18.parse_fields_net_xhex
#print axioms BacVerif.C18.parse_fields_ethernet
#print axioms BacVerif.C18.parse_fields_ip
#print axioms BacVerif.C18.parse_fields_net_ip
#print axioms BacVerif.C18.atonPart_decimal
#print axioms BacVerif.C18.fields_int
#print axioms BacVerif.C18.fields_bytes
#print axioms BacVerif.C18.fields_tuple_int
#print axioms BacVerif.C18.fields_tuple_str
#print axioms BacVerif.C18.inetAton_dotted4
#print axioms BacVerif.C18.fields_ctor2
#print axioms BacVerif.C18.fields_typed
-- IP arithmetic
#print axioms BacVerif.C18.ip_arith
#print axioms BacVerif.C18.ip_values
#print axioms BacVerif.C18.quad_lt
-- range_refused
#print axioms BacVerif.C18.range_refused_station
#print axioms BacVerif.C18.range_refused_net
#print axioms BacVerif.C18.range_refused_net_station
#print axioms BacVerif.C18.range_refused_mask
#print axioms BacVerif.C18.range_refused_mask_text
#print axioms BacVerif.C18.range_refused_port
#print axioms BacVerif.C18.range_refused_int
#print axioms BacVerif.C18.range_refused_ctor
#print axioms BacVerif.C18.range_refused_tuple_port
#print axioms BacVerif.C18.star_net_refused
#print axioms BacVerif.C18.parse_wf
#print axioms BacVerif.C18.parse_net_range
-- print / parse
#print axioms BacVerif.C18.printStation_text
#print axioms BacVerif.C18.print_parse
#print axioms BacVerif.C18.parse_print_parse
-- scanner / printer lemmas the above rest on
#print axioms BacVerif.Addr.printDec_spec
#print axioms BacVerif.Addr.digits_printDec
#print axioms BacVerif.Addr.atonPart_printDec
#print axioms BacVerif.Addr.hexBytes_hexOf
-- equality / hash
#print axioms BacVerif.C18.eq_iff_key
#print axioms BacVerif.C18.eq_refl
#print axioms BacVerif.C18.eq_symm
#print axioms BacVerif.C18.eq_trans
#print axioms BacVerif.C18.eq_hash
#print axioms BacVerif.C18.hash_eq
#print axioms BacVerif.C18.eq_fields
-- routes (wave 4)
#print axioms BacVerif.C18.eqR_noroute
#print axioms BacVerif.C18.eqR_trans_noroute
#print axioms BacVerif.C18.eqR_hash
#print axioms BacVerif.C18.eqR_not_transitive
-- mixed keys (wave 5)
#print axioms BacVerif.C18.mixed_keys_distinct
#print axioms BacVerif.C18.addr_keys_eq_iff
#print axioms BacVerif.C18.coerced_eq_true
-- settings history (wave 6)
#print axioms BacVerif.C18.tupleR_off
#print axioms BacVerif.C18.tupleR_on
