import BacVerif.Props.C17
#print axioms BacVerif.C17.placeholder
