import BacVerif.Props.C16
#print axioms BacVerif.C16.placeholder_run_nil
