import BacVerif.Props.C13
#print axioms BacVerif.C13.applyOp_is_bbmd
#print axioms BacVerif.C13.read_fdt_reply
#print axioms BacVerif.C13.register_ack
#print axioms BacVerif.C13.fdt_never_duplicates
#print axioms BacVerif.C13.fdt_lifetime
#print axioms BacVerif.C13.reregister_retimes
#print axioms BacVerif.C13.delete_removes_exactly
#print axioms BacVerif.C13.ttl0_leaves_within_grace
#print axioms BacVerif.C13.fdt_served_while_listed
#print axioms BacVerif.C13.foreign_renews_in_time
#print axioms BacVerif.C13.foreign_tracks_ack
