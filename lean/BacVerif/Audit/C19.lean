import BacVerif.Props.C19
#print axioms BacVerif.C19.placeholder
