import BacVerif.Props.C02
#print axioms BacVerif.C02.tag_roundtrip
#print axioms BacVerif.C02.taglist_roundtrip
#print axioms BacVerif.C02.length_escape
#print axioms BacVerif.C02.tag_number_escape
#print axioms BacVerif.C02.parseTag_ok
#print axioms BacVerif.C02.parse_total
#print axioms BacVerif.C02.parse_wf
#print axioms BacVerif.C02.reparse_stable
#print axioms BacVerif.C02.getContext_balanced
#print axioms BacVerif.C02.getContext_atom
#print axioms BacVerif.C02.getContext_absent
#print axioms BacVerif.C02.getContext_unclosed
#print axioms BacVerif.C02.getContext_stray_close
#print axioms BacVerif.C02.anyDecode_balanced
#print axioms BacVerif.C02.anyDecode_balanced_end
#print axioms BacVerif.C02.anyDecode_unclosed
