import BacVerif.Props.C04
#print axioms BacVerif.C04.placeholder
