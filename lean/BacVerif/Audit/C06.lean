import BacVerif.Props.C06
#print axioms BacVerif.C06.no_echo
#print axioms BacVerif.C06.hop_decrement
#print axioms BacVerif.C06.hop_exhausted
#print axioms BacVerif.C06.local_stays_local
#print axioms BacVerif.C06.station_never_forwards
#print axioms BacVerif.C06.sadr_rule
#print axioms BacVerif.C06.local_delivery_iff
#print axioms BacVerif.C06.source_shown
#print axioms BacVerif.C06.recv_is_route
#print axioms BacVerif.C06.forwarding_chain_bound
#print axioms BacVerif.C06.forwarding_terminates
#print axioms BacVerif.C06.hop_measure
#print axioms BacVerif.C06.tree_global_broadcast_once
#print axioms BacVerif.C06.tree_global_broadcast_not_to_originator
#print axioms BacVerif.C06.tree_global_broadcast_reaches_all
