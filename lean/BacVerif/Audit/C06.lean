import BacVerif.Props.C06
#print axioms BacVerif.C06.hop_measure
