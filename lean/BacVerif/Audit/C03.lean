import BacVerif.Props.C03
#print axioms BacVerif.C03.codec_roundtrip_partial
#print axioms BacVerif.C03.codec_first_partial
#print axioms BacVerif.C03.pdu_roundtrip_partial
#print axioms BacVerif.C03.codec_reencode_partial
#print axioms BacVerif.C03.codec_octets_partial
#print axioms BacVerif.C03.gen_env_wf
#print axioms BacVerif.C03.registry_lookup
#print axioms BacVerif.C03.registries_total
#print axioms BacVerif.C03.registered_pdu_roundtrip_partial
#print axioms BacVerif.C03.good_all
#print axioms BacVerif.C03.goodDef
#print axioms BacVerif.C03.goodFields
#print axioms BacVerif.C03.goodField
#print axioms BacVerif.C03.goodAlts
#print axioms BacVerif.C03.goodElems
#print axioms BacVerif.C03.anyTake_balanced
