import BacVerif.Props.C03
#print axioms BacVerif.C03.lookup_mem
