import BacVerif.Props.C20
#print axioms BacVerif.C20.placeholder
