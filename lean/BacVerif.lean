import BacVerif.Model.Bytes
import BacVerif.Model.Tag
