/- driver stub for C10: replaced when the model exists -/
def main : IO Unit := pure ()
