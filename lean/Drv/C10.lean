/- driver for C10: the device receive pipeline (Model.Device over Model.Npci,
   Model.Apci, Model.Tsm, Model.Codec and the regenerated schema environment)

   requests
     {"op":"reset","cfg":{maxApdu,seg,maxSegs,window,retries,apduTimeout,segTimeout,appTimeout}}
     {"op":"recv","src":"0a","bc":false,"hex":"<link octets>","app":[<answer>…]}      bc = link-level broadcast
         the application's answers, consumed one per indication of a confirmed
         request, in order (the harness records them on the real device):
         <answer> = {"k":"simple"|"complex"|"error"|"reject"|"abort","hex":"…","r":n,"srv":b,"dcc":0|1|2|null,"dccus":µs|null}
                    ("later": the helper returned without answering; "dcc": an ACCEPTED DeviceCommunicationControl set
                     the gate, "dccus": … and scheduled the re-enable that far ahead)
     {"op":"quiesce"}                        fire every armed transaction timer; reply has "pend": the
                                             Network-Number-Is answer task is (still) scheduled then
     {"op":"respond","src":"0a","id":n,"svc":n,"ans":<answer>}   the application answers LATER a request it was handed
     {"op":"advance","us":n}                 n microseconds pass: transaction timers due meanwhile fire
     {"op":"dcc","d":0|1|2}                  the application switched the DCC gate (timed re-enable)
     {"op":"learn","src":"0a","info":{maxApdu,seg,maxSegs,maxNpdu}}   I-Am seen by the application
     {"op":"reqdecode","svc":n,"hex":"…"}    the ASAP service decoder alone
   replies
     {"r":"ok","fate":"…","wf":invoke|null,"out":[[dst|null,"<octets>"]…],"hd":[[ty,invoke,seg,code]|null…],
      "asked":n,"starved":n,
      "sv":[[peer,id,state]…],"cl":n,"dcc":n,"br":"…"}
-/
import BacVerif.Drv.TsmDrv
import BacVerif.Model.Device
import BacVerif.Gen.Schemas
open Lean BacVerif BacVerif.Drv BacVerif.Tsm BacVerif.Device

/-- the driver's application: a queue of prepared answers -/
structure AppQ where
  queue : List AppReply := []
  asked : Nat := 0
  starved : Nat := 0

def serveQ (q : AppQ) (_p : Peer) (_a : Apdu) : AppQ × AppReply :=
  match q.queue with
  | r :: rest => ({ q with queue := rest, asked := q.asked + 1 }, r)
  | [] => ({ q with asked := q.asked + 1, starved := q.starved + 1 }, { answer := some .simpleAck })

def devCfg (base : Tsm.Cfg) : DevCfg AppQ :=
  { base := base, env := Gen.Schemas.env, confirmed := Gen.Schemas.confirmed,
    unconfirmed := Gen.Schemas.unconfirmed, serve := serveQ,
    unconf := fun q _ _ => (q, []) }

structure DSt where
  base : Tsm.Cfg := {}
  dev : DevState AppQ := { app := {} }

def dccOfNat : Nat → Dcc
  | 0 => .enable | 1 => .disable | _ => .disableInitiation
def dccCode : Dcc → Nat
  | .enable => 0 | .disable => 1 | .disableInitiation => 2

def u8 (n : Nat) : UInt8 := UInt8.ofNat n

def appAnswerOfJson (j : Json) : R (Option AppAnswer) := do
  let hex ← match fldOpt j "hex" with
    | none => pure []
    | some _ => fldHex j "hex"
  match ← fldStr j "k" with
  | "simple" => pure (some AppAnswer.simpleAck)
  | "complex" => pure (some (AppAnswer.complexAck hex))
  | "error" => pure (some (AppAnswer.error hex))
  | "reject" => pure (some (AppAnswer.reject (u8 (← fldNat j "r"))))
  | "abort" => pure (some (AppAnswer.abort (fldB j "srv") (u8 (← fldNat j "r"))))
  | "later" => pure none          -- the helper returned without answering
  | k => throw s!"bad answer kind {k}"

def answerOfJson (j : Json) : R AppReply := do
  let ans ← appAnswerOfJson j
  let dcc ← fldOptNat j "dcc"
  pure { dcc := dcc.map dccOfNat, dccFor := ← fldOptNat j "dccus", answer := ans }

def jAddr : Npci.Addr → Json
  | .null => Json.arr #["null"]
  | .localBroadcast => Json.arr #["lb"]
  | .globalBroadcast => Json.arr #["gb"]
  | .remoteBroadcast n => Json.arr #["rb", Json.num n]
  | .localStation m => Json.arr #["ls", jHex m]
  | .remoteStation n m => Json.arr #["rs", Json.num n, jHex m]

def jSv (t : Txn) : Json :=
  Json.arr #[jAddr (addrOf t.key.peer), Json.num t.key.id, Json.num t.body.st.code]

def jFrame (f : Frame) : Json :=
  Json.arr #[(match f.dst with | none => Json.null | some m => jHex m), jHex f.octets]

def fateName : Fate → String
  | .badNpci => "badNpci" | .spoofed => "spoofed" | .notForUs => "notForUs" | .unknownMsg => "unknownMsg"
  | .badMsg => "badMsg" | .netMsg => "netMsg" | .badApci => "badApci" | .delivered => "delivered"

def hdrSig (f : Frame) : String :=
  match replyHdr f.octets with
  | some h => s!"{h.ty}{if h.seg then "s" else ""}" ++ (if h.ty = 6 ∨ h.ty = 7 then s!"r{h.code}" else "")
  | none => "x"

/-- the property's own reading of an output frame (`Device.replyHdr`), so that the harness can hold
    it against its independent header decoder -/
def jHdrOf (f : Frame) : Json :=
  match replyHdr f.octets with
  | some h => Json.arr #[Json.num h.ty, Json.num h.invoke, Json.bool h.seg, Json.num h.code]
  | none => Json.null

def report (st : DSt) (extra : List (String × Json)) (outs : List Frame) (br : String) : Json :=
  jOk (extra ++
    [("out", Json.arr (outs.map jFrame).toArray),
     ("hd", Json.arr (outs.map jHdrOf).toArray),
     ("asked", Json.num st.dev.app.asked), ("starved", Json.num st.dev.app.starved),
     ("sv", Json.arr (st.dev.sap.servers.map jSv).toArray),
     ("cl", Json.num st.dev.sap.clients.length),
     ("dcc", Json.num (dccCode st.dev.sap.dcc)),
     ("net", Json.arr #[jNatOpt st.dev.net, jNatOpt st.dev.netCfg]),
     ("dcct", jNatOpt (st.dev.dccTimer.map (· - st.dev.sap.now))),
     ("br", Json.str br)])

def handle (st : DSt) (j : Json) : R (DSt × Json) := do
  match ← fldStr j "op" with
  | "reset" =>
    let base ← cfgOfJson (← fld j "cfg")
    let st' : DSt := { base := base, dev := { app := {} } }
    pure (st', jOk [])
  | "recv" =>
    let src ← fldHex j "src"
    let f ← fldHex j "hex"
    let answers ← (← fldArr j "app").toList.mapM answerOfJson
    let dev0 := { st.dev with app := { queue := answers } }
    let bc := fldB j "bc"
    let ft := fate st.dev.net f
    let (dev1, outs) := recv (devCfg st.base) dev0 src bc f
    let st' := { st with dev := dev1 }
    let wf := wellFramed f
    let br := s!"{fateName ft}{if bc then "*" else ""}:{if wf.isSome then "wf" else "-"}:{dev1.app.asked}:" ++
      String.intercalate "," (outs.map hdrSig)
    pure (st', report st' [("fate", Json.str (fateName ft)), ("wf", jNatOpt wf),
                           ("left", Json.num dev1.app.queue.length)] outs br)
  | "quiesce" =>
    let dev0 := { st.dev with app := {} }
    let (dev1, outs) := quiesce (devCfg st.base) dev0
    let st' := { st with dev := dev1 }
    -- "pend": a timer other than a transaction's is scheduled when every transaction is over
    pure (st', report st' [("pend", Json.bool dev0.nniPending)] outs
      ("q:" ++ (if dev0.nniPending then "nni:" else "") ++ String.intercalate "," (outs.map hdrSig)))
  | "respond" =>
    -- the application answers later: {"op":"respond","src":"0a","id":n,"svc":n,"ans":<answer>}
    let src ← fldHex j "src"
    let req : Apdu := { ty := 0, invokeId := ← fldNat j "id", service := ← fldNat j "svc" }
    match ← appAnswerOfJson (← fld j "ans") with
    | none => throw "respond: need an answer"
    | some ans =>
      let (dev1, outs) := respond (devCfg st.base) st.dev (peerOf (.localStation src)) req ans
      let st' := { st with dev := dev1 }
      pure (st', report st' [] outs ("rsp:" ++ String.intercalate "," (outs.map hdrSig)))
  | "advance" =>
    let dev0 := { st.dev with app := {} }
    let (dev1, outs) := advance (devCfg st.base) dev0 (← fldNat j "us")
    let st' := { st with dev := dev1 }
    pure (st', report st' [] outs ("adv:" ++ String.intercalate "," (outs.map hdrSig)))
  | "dcc" =>
    let d := dccOfNat (← fldNat j "d")
    let dev1 := { st.dev with sap := { st.dev.sap with dcc := d } }
    pure ({ st with dev := dev1 }, jOk [])
  | "learn" =>
    let src ← fldHex j "src"
    let info ← diOfJson (← fld j "info")
    let p := peerOf (.localStation src)
    let dev1 := { st.dev with sap := { st.dev.sap with devInfo := setDI st.dev.sap.devInfo p info } }
    pure ({ st with dev := dev1 }, jOk [])
  | "reqdecode" =>
    let r := Device.reqDecode Gen.Schemas.env Gen.Schemas.confirmed (← fldNat j "svc") (← fldHex j "hex")
    pure (st, match r with
      | .ok => jOk [("d", "ok")]
      | .reject n => jOk [("d", "reject"), ("n", Json.num n)]
      | .abort n => jOk [("d", "abort"), ("n", Json.num n)])
  | op => throw s!"unknown op {op}"

def main : IO Unit := loopS ({} : DSt) handle
