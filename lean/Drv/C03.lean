/- driver for C03: the schema-driven codec (Model.Codec over Gen.Schemas.env,
   or over an environment sent by the harness with `setenv`) -/
import BacVerif.Drv.Tag
import BacVerif.Model.Codec
import BacVerif.Model.SchemaWF
import BacVerif.Model.Typed
import BacVerif.Gen.Schemas
import BacVerif.Gen.Enums
open Lean BacVerif BacVerif.Drv BacVerif.Schema BacVerif.Codec BacVerif.Typed

partial def jVal : Val → Json
  | .prim lvt d => Json.mkObj [("p", Json.arr #[Json.num lvt, jHex d])]
  | .atom a lvt d => Json.mkObj [("a", Json.arr #[Json.num a, Json.num lvt, jHex d])]
  | .tags ts => Json.mkObj [("tags", jTags ts)]
  | .seq fs => Json.mkObj [("seq", Json.arr (fs.map fun
      | none => Json.null
      | some v => jVal v).toArray)]
  | .choice i v => Json.mkObj [("ch", Json.arr #[Json.num i, jVal v])]
  | .list vs => Json.mkObj [("list", Json.arr (vs.map jVal).toArray)]

/-- semantic rendering of a C01 value (what the Python attribute holds) -/
def jInt (i : Int) : Json := Json.num (JsonNumber.fromInt i)

def jPrim : PrimVal → Json
  | .null => Json.mkObj [("null", Json.num 0)]
  | .bool b => Json.mkObj [("bool", Json.bool b)]
  | .unsigned n => Json.mkObj [("u", Json.num n)]
  | .integer i => Json.mkObj [("i", jInt i)]
  | .real b => Json.mkObj [("f32", Json.num b.toNat)]
  | .double b => Json.mkObj [("f64", Json.num b.toNat)]
  | .octets bs => Json.mkObj [("o", jHex bs)]
  | .charstr e bs => Json.mkObj [("s", Json.arr #[Json.num e, jHex bs])]
  | .bits bs => Json.mkObj [("b", Json.arr (bs.map fun b => Json.num (if b then 1 else 0)).toArray)]
  | .enum n => Json.mkObj [("e", Json.num n)]
  | .date y m d w => Json.mkObj [("d", Json.arr #[jInt y, jInt m, jInt d, jInt w])]
  | .time h m s c => Json.mkObj [("t", Json.arr #[jInt h, jInt m, jInt s, jInt c])]
  | .oid ty inst => Json.mkObj [("oid", Json.arr #[jInt ty, jInt inst])]

partial def jTVal : TVal → Json
  | .prim pv => Json.mkObj [("p", jPrim pv)]
  | .atom pv => Json.mkObj [("a", jPrim pv)]
  | .tags ts => Json.mkObj [("tags", jTags ts)]
  | .seq fs => Json.mkObj [("seq", Json.arr (fs.map fun
      | none => Json.null
      | some v => jTVal v).toArray)]
  | .choice i v => Json.mkObj [("ch", Json.arr #[Json.num i, jTVal v])]
  | .list vs => Json.mkObj [("list", Json.arr (vs.map jTVal).toArray)]

def hexOf (j : Json) : R Bytes := do
  match ofHex? (← j.getStr?) with
  | some b => pure b
  | none => throw "bad hex"

partial def valOfJson (j : Json) : R Val := do
  if let .ok p := j.getObjVal? "p" then
    let a ← p.getArr?
    if a.size ≠ 2 then throw "p: need 2 items"
    return .prim (← a[0]!.getNat?) (← hexOf a[1]!)
  if let .ok p := j.getObjVal? "a" then
    let a ← p.getArr?
    if a.size ≠ 3 then throw "a: need 3 items"
    return .atom (← a[0]!.getNat?) (← a[1]!.getNat?) (← hexOf a[2]!)
  if let .ok p := j.getObjVal? "tags" then
    return .tags (← tagsOfJson p)
  if let .ok p := j.getObjVal? "seq" then
    let a ← p.getArr?
    let fs ← a.toList.mapM fun x => match x with
      | Json.null => pure none
      | x => do pure (some (← valOfJson x))
    return .seq fs
  if let .ok p := j.getObjVal? "ch" then
    let a ← p.getArr?
    if a.size ≠ 2 then throw "ch: need 2 items"
    return .choice (← a[0]!.getNat?) (← valOfJson a[1]!)
  if let .ok p := j.getObjVal? "list" then
    let a ← p.getArr?
    return .list (← a.toList.mapM valOfJson)
  throw "bad value tree"

/-! schema (de)serialisation: the harness checks that the compiled environment
    is the one the live classes describe, and may send synthetic environments -/

def jOptNat : Option Nat → Json
  | none => Json.null
  | some n => Json.num n

def jRef : Ref → Json
  | .prim a => Json.mkObj [("k", "prim"), ("app", Json.num a)]
  | .anyAtomic => Json.mkObj [("k", "anyAtomic")]
  | .ty i => Json.mkObj [("k", "ty"), ("i", Json.num i)]

def jField (f : Field) : Json :=
  Json.mkObj [("ref", jRef f.ref), ("ctx", jOptNat f.ctx), ("opt", Json.bool f.opt)]

def jListKind : ListKind → String
  | .seqof => "seqof" | .listof => "listof" | .arrayof => "arrayof"

def jTyDef : TyDef → Json
  | .seq fs => Json.mkObj [("k", "seq"), ("fields", Json.arr (fs.map jField).toArray)]
  | .choice fs => Json.mkObj [("k", "choice"), ("fields", Json.arr (fs.map jField).toArray)]
  | .list k e n => Json.mkObj [("k", "list"), ("lk", jListKind k), ("elem", jRef e), ("fixed", jOptNat n)]
  | .any => Json.mkObj [("k", "any")]
  | .nameValue dt => Json.mkObj [("k", "nameValue"), ("dt", Json.num dt)]

def optNatOfJson (j : Json) : R (Option Nat) :=
  match j with
  | Json.null => pure none
  | j => do pure (some (← j.getNat?))

def refOfJson (j : Json) : R Ref := do
  match ← fldStr j "k" with
  | "prim" => pure (.prim (← fldNat j "app"))
  | "anyAtomic" => pure .anyAtomic
  | "ty" => pure (.ty (← fldNat j "i"))
  | k => throw s!"bad ref kind {k}"

def fieldOfJson (j : Json) : R Field := do
  pure { ref := ← refOfJson (← fld j "ref"), ctx := ← optNatOfJson (← fld j "ctx"),
         opt := ← fldBool j "opt" }

def tyDefOfJson (j : Json) : R TyDef := do
  match ← fldStr j "k" with
  | "seq" => pure (.seq (← (← fldArr j "fields").toList.mapM fieldOfJson))
  | "choice" => pure (.choice (← (← fldArr j "fields").toList.mapM fieldOfJson))
  | "list" =>
      let lk ← match ← fldStr j "lk" with
        | "seqof" => pure ListKind.seqof | "listof" => pure ListKind.listof
        | "arrayof" => pure ListKind.arrayof | s => throw s!"bad list kind {s}"
      pure (.list lk (← refOfJson (← fld j "elem")) (← optNatOfJson (← fld j "fixed")))
  | "any" => pure .any
  | "nameValue" => pure (.nameValue (← fldNat j "dt"))
  | k => throw s!"bad type kind {k}"

def jNats (l : List Nat) : Json := Json.arr (l.map fun (i : Nat) => Json.num i).toArray

def jReg (r : List (Nat × Nat)) : Json :=
  Json.arr (r.map fun (c, i) => Json.arr #[Json.num c, Json.num i]).toArray

def regOf (kind : String) : R (List (Nat × Nat)) :=
  match kind with
  | "confirmed" => pure Gen.Schemas.confirmed
  | "complexAck" => pure Gen.Schemas.complexAck
  | "unconfirmed" => pure Gen.Schemas.unconfirmed
  | "error" => pure Gen.Schemas.error
  | k => throw s!"bad registry {k}"

def decodeReply (env : Env) (τ : Nat) (pdu : Bool) (tags : List Tag) : Json :=
  let reenc (v : Val) : Json :=
    match encodeTy env τ v with
    | .ok ts => Json.mkObj [("tags", jTags ts), ("hex", jHex (serializeTags ts))]
    | .error e => Json.mkObj [("err", e.name)]
  if pdu then
    match decodePdu env τ tags with
    | .error e => jErr e
    | .ok v => jOk [("v", jVal v), ("rest", jTags []), ("re", reenc v)]
  else
    match decodeTy env τ tags with
    | .error e => jErr e
    | .ok (v, r) => jOk [("v", jVal v), ("rest", jTags r), ("re", reenc v)]

def handle (env : Env) (j : Json) : R (Env × Json) := do
  match ← fldStr j "op" with
  | "enc" =>       -- value.encode(taglist); TagList.encode
      let τ ← fldNat j "t"
      let v ← valOfJson (← fld j "v")
      match encodeTy env τ v with
      | .error e => pure (env, jErr e)
      | .ok ts => pure (env, jOk [("tags", jTags ts), ("hex", jHex (serializeTags ts))])
  | "dec" =>       -- klass().decode(taglist)  (pdu: APCISequence.decode's trailing-tag rejection)
      let τ ← fldNat j "t"
      let tags ← tagsOfJson (← fld j "tags")
      let pdu := match fldBool j "pdu" with | .ok b => b | .error _ => false
      pure (env, decodeReply env τ pdu tags)
  | "dechex" =>    -- TagList.decode of the octets, then as `dec`
      let τ ← fldNat j "t"
      let bs ← fldHex j "hex"
      let pdu := match fldBool j "pdu" with | .ok b => b | .error _ => false
      match parseTags bs with
      | .error e => pure (env, jErr e)
      | .ok tags => pure (env, decodeReply env τ pdu tags)
  | "typed" =>     -- octets -> typed value (C01 leaves) -> octets again: `decodeOctets`, `encodeOctets`
      let τ ← fldNat j "t"
      let bs ← fldHex j "hex"
      match decodeOctets env τ bs with
      | .error e => pure (env, jErr e)
      | .ok tv =>
        let re := match encodeOctets env τ tv with
          | .ok b => jHex b
          | .error e => Json.str ("err:" ++ e.name)
        pure (env, jOk [("tv", jTVal tv), ("re", re)])
  | "enumnames" => -- `Enumerated.decode`: the NAME the class's table gives a number (C01 `xlateNum`
                   -- over the generated tables), null when the table has none
      let qs ← fldArr j "q"
      let out ← qs.toList.mapM fun q => do
        let a ← q.getArr?
        if a.size ≠ 2 then throw "enumnames: need [class, number]"
        let cls ← a[0]!.getStr?
        let n ← a[1]!.getNat?
        match Gen.Enums.enumTables.lookup cls with
        | none => pure (Json.str "?unknown-class")
        | some T =>
          match xlateNum T n with
          | some nm => pure (Json.str (String.ofList (nm.map Char.ofNat)))
          | none => pure Json.null
      pure (env, jOk [("names", Json.arr out.toArray)])
  | "castin" =>    -- Any.cast_in(element): the tags appended
      let r ← refOfJson (← fld j "ref")
      let v ← valOfJson (← fld j "v")
      match castIn env r v with
      | .error e => pure (env, jErr e)
      | .ok ts => pure (env, jOk [("tags", jTags ts)])
  | "castout" =>   -- Any.cast_out(klass)
      let r ← refOfJson (← fld j "ref")
      let tags ← tagsOfJson (← fld j "tags")
      match castOut env r tags with
      | .error e => pure (env, jErr e)
      | .ok v => pure (env, jOk [("v", jVal v)])
  | "service" =>   -- registry lookup, then decode as PDU
      let reg ← regOf (← fldStr j "kind")
      let bs ← fldHex j "hex"
      match lookup reg (← fldNat j "choice") with
      | none => pure (env, jOk [("t", Json.null)])
      | some τ =>
        match parseTags bs with
        | .error e => pure (env, jErr e)
        | .ok tags =>
          let r := decodeReply Gen.Schemas.env τ true tags
          pure (env, r.setObjVal! "t" (Json.num τ))
  | "schema" =>    -- the compiled environment and registries
      pure (env, jOk [("types", Json.arr (Gen.Schemas.env.map jTyDef)),
                      ("confirmed", jReg Gen.Schemas.confirmed), ("complexAck", jReg Gen.Schemas.complexAck),
                      ("unconfirmed", jReg Gen.Schemas.unconfirmed), ("error", jReg Gen.Schemas.error)])
  | "setenv" =>    -- switch to a synthetic environment (or back with "env": null)
      match fldOpt j "env" with
      | none => pure (Gen.Schemas.env, jOk [("n", Json.num Gen.Schemas.env.size)])
      | some e =>
        let ds ← (← e.getArr?).toList.mapM tyDefOfJson
        pure (ds.toArray, jOk [("n", Json.num ds.length)])
  | "wf" =>        -- the decidable predicates of Props.C03 evaluated on the current environment
      pure (env, jOk [("wf", Json.bool (SchemaWF.wfEnv env (SchemaWF.mkInfo env))),
                      ("proved", jNats (SchemaWF.provedTypes env)),
                      ("bad", jNats (SchemaWF.badTypes env))])
  | op => throw s!"unknown op {op}"

def main : IO Unit := loopS Gen.Schemas.env handle
