/- driver stub for C03: replaced when the model exists -/
def main : IO Unit := pure ()
