/- driver stub for C07: replaced when the model exists -/
def main : IO Unit := pure ()
