/- driver for C07: APDU fixed headers (Model.Apci)

   requests (one JSON object per line):
     {"op":"enc","h":H}                 APCI.encode            → {"r":"ok","hex":..}
     {"op":"dec","hex":..}              APCI.decode            → {"r":"ok","h":H,"rest":..,"own":..,"len":n}
     {"op":"aenc","h":H,"data":..}      APDU.encode            → {"r":"ok","hex":..}
     {"op":"adec","hex":..}             APDU.decode            → {"r":"ok","h":H,"data":..}
     {"op":"segs-enc","n":N|null}       encode_max_segments_accepted     → {"r":"ok","c":n}
     {"op":"segs-dec","c":N}            decode_max_segments_accepted     → {"r":"ok","n":N|null}
     {"op":"len-enc","n":N}             encode_max_apdu_length_accepted  → {"r":"ok","c":n}
     {"op":"len-dec","c":N}             decode_max_apdu_length_accepted  → {"r":"ok","n":N}
   H = {"t":N,"seg":B?,"mor":B?,"sa":B?,"srv":B?,"nak":B?,"seq":N?,"win":N?,
        "msegs":N?,"mresp":N?,"svc":N?,"inv":N?,"rsn":N?}   (null = None)
   errors: {"r":"err","k":"<Err name>"};  "br" = branch signature (coverage only)
-/
import BacVerif.Drv.Common
import BacVerif.Model.Apci
open Lean BacVerif BacVerif.Drv

def fldOptBool (j : Json) (k : String) : R (Option Bool) :=
  match fldOpt j k with
  | none => pure none
  | some v => do pure (some (← v.getBool?))

def apciOfJson (j : Json) : R Apci := do
  pure { apduType := ← fldNat j "t",
         seg := ← fldOptBool j "seg", mor := ← fldOptBool j "mor", sa := ← fldOptBool j "sa",
         srv := ← fldOptBool j "srv", nak := ← fldOptBool j "nak",
         seq := ← fldOptNat j "seq", win := ← fldOptNat j "win",
         maxSegs := ← fldOptNat j "msegs", maxResp := ← fldOptNat j "mresp",
         service := ← fldOptNat j "svc", invokeID := ← fldOptNat j "inv",
         reason := ← fldOptNat j "rsn" }

def jBoolOpt : Option Bool → Json
  | none => Json.null
  | some b => Json.bool b

def jApci (h : Apci) : Json :=
  Json.mkObj [("t", Json.num h.apduType),
    ("seg", jBoolOpt h.seg), ("mor", jBoolOpt h.mor), ("sa", jBoolOpt h.sa),
    ("srv", jBoolOpt h.srv), ("nak", jBoolOpt h.nak),
    ("seq", jNatOpt h.seq), ("win", jNatOpt h.win),
    ("msegs", jNatOpt h.maxSegs), ("mresp", jNatOpt h.maxResp),
    ("svc", jNatOpt h.service), ("inv", jNatOpt h.invokeID), ("rsn", jNatOpt h.reason)]

/-- branch signature of a header: type + segmented flag -/
def brOf (h : Apci) : String := s!"t{h.apduType}{if truthy h.seg then "s" else ""}"

def withBr (br : String) (j : Json) : Json := j.setObjVal! "br" (Json.str br)

def handle (j : Json) : R Json := do
  match ← fldStr j "op" with
  | "enc" =>
      let h ← apciOfJson (← fld j "h")
      match encodeApci h with
      | .error e => pure (withBr s!"enc-err-{brOf h}" (jErr e))
      | .ok bs => pure (withBr s!"enc-{brOf h}" (jOk [("hex", jHex bs)]))
  | "dec" =>
      let bs ← fldHex j "hex"
      match decodeApci bs with
      | .error e =>
          let t := match bs with | [] => "empty" | b :: _ => s!"t{b.toNat / 16}"
          pure (withBr s!"dec-err-{t}" (jErr e))
      | .ok (h, rest) =>
          pure (withBr s!"dec-{brOf h}"
            (jOk [("h", jApci h), ("rest", jHex rest),
                  ("own", jHex (ownDataAfterApciDecode h rest)),
                  ("len", Json.num (apciLen h))]))
  | "aenc" =>
      let h ← apciOfJson (← fld j "h")
      let d ← fldHex j "data"
      match encodeApdu h d with
      | .error e => pure (withBr s!"aenc-err-{brOf h}" (jErr e))
      | .ok bs => pure (withBr s!"aenc-{brOf h}" (jOk [("hex", jHex bs)]))
  | "adec" =>
      let bs ← fldHex j "hex"
      match decodeApdu bs with
      | .error e =>
          let t := match bs with | [] => "empty" | b :: _ => s!"t{b.toNat / 16}"
          pure (withBr s!"adec-err-{t}" (jErr e))
      | .ok (h, d) => pure (withBr s!"adec-{brOf h}" (jOk [("h", jApci h), ("data", jHex d)]))
  | "segs-enc" =>
      let n ← fldOptNat j "n"
      match encodeMaxSegs n with
      | .error e => pure (jErr e)
      | .ok c => pure (withBr s!"segs-enc-{c}" (jOk [("c", Json.num c)]))
  | "segs-dec" =>
      let c ← fldNat j "c"
      match decodeMaxSegs c with
      | .error e => pure (jErr e)
      | .ok v => pure (withBr s!"segs-dec-{c}" (jOk [("n", jNatOpt v)]))
  | "len-enc" =>
      let n ← fldNat j "n"
      match encodeMaxApdu n with
      | .error e => pure (jErr e)
      | .ok c => pure (withBr s!"len-enc-{c}" (jOk [("c", Json.num c)]))
  | "len-dec" =>
      let c ← fldNat j "c"
      match decodeMaxApdu c with
      | .error e => pure (jErr e)
      | .ok v => pure (withBr s!"len-dec-{c}" (jOk [("n", Json.num v)]))
  | op => throw s!"unknown op {op}"

def main : IO Unit := loop handle
