/- driver stub for C17: replaced when the model exists -/
def main : IO Unit := pure ()
