/- driver for C17: commandable objects (stateful; values are natural-number codes)

   requests
     {"op":"reset","cls":<class name>,"def":n,"pv":n,"inactive":n,"active":n,"on":sec,"off":sec}
          fresh object; `minOnOff` comes from the GENERATED class table, never from the harness
     {"op":"w","prop":"pv"|"pa"|"other","v":n|null,"ai":int|null,"pr":int|null}
          WriteProperty(prop, v, arrayIndex=ai, priority=pr)
     {"op":"cov"}             a COV subscribe / cancel / expiry happened: no effect on the command state
     {"op":"tick","t":µs}     the scheduler looks at the clock at absolute time t
     {"op":"adv","t":µs}      let time pass up to t, the timer firing exactly when due
     {"op":"seq", <reset fields>, "evs":[[pr|null, v|null], …]}
          fresh object, then the presentValue commands in order; the outcome of every
          command and the digest after the last one (every prefix is a request of its own)
   reply: {"r":"ok"|"err","k":…, "pv":n, "slots":[n|null ×16], "dl":µs|null, "now":µs, "br":…}
-/
import BacVerif.Drv.Common
import BacVerif.Model.Commandable
import BacVerif.Gen.Commandable
open Lean BacVerif BacVerif.Drv BacVerif.Commandable

structure D where
  cfg : Cfg Nat
  rules : List (Rule Nat)
  m : MSt Nat

def jOptNat : Option Nat → Json
  | none => Json.null
  | some n => Json.num n

def jLeft (l : List Nat) : Json := Json.arr (l.map (fun (n : Nat) => (Json.num n : Json))).toArray

def digest (s : St Nat) : List (String × Json) :=
  [("pv", Json.num s.present),
   ("slots", Json.arr ((slotList s).map jOptNat).toArray),
   ("dl", jOptNat s.deadline),
   ("now", Json.num s.now)]

/-- branch class of a step, for coverage signatures only -/
def branch (s s' : St Nat) (e : Option CErr) : String :=
  match e with
  | some k => k.name
  | none =>
    (if s'.present = s.present then "same" else "change") ++
    (if s'.deadline = s.deadline then "" else if s'.deadline.isSome then "+arm" else "+disarm") ++
    (if s'.slots 6 = s.slots 6 then "" else "+slot6")

def reply (m m' : MSt Nat) (e : Option CErr) : Json :=
  let head : List (String × Json) :=
    match e with
    | none => [("r", "ok")]
    | some k => [("r", "err"), ("k", k.name)]
  Json.mkObj (head ++ digest m'.st ++ [("left", jLeft m'.left), ("br", Json.str (branch m.st m'.st e))])

def optInt (j : Json) (k : String) : R (Option Int) :=
  match fldOpt j k with
  | none => pure none
  | some v => do pure (some (← v.getInt?))

def optNat (j : Json) (k : String) : R (Option Nat) :=
  match fldOpt j k with
  | none => pure none
  | some v => do pure (some (← v.getNat?))

def mkCfg (j : Json) : R (Cfg Nat × Nat) := do
  let cls ← fldStr j "cls"
  match BacVerif.Gen.Commandable.classes.find? (fun c => c.name == cls) with
  | none => throw s!"class {cls} is not in the generated table of commandable classes"
  | some c =>
    let cfg : Cfg Nat :=
      { default := ← fldNat j "def", minOnOff := c.minOnOff,
        -- protocol convention: code 1000 = a value of the wrong type, 1001 = an
        -- enumeration number outside the table (enumerated datatypes only)
        check := fun n => if n = 1000 then some .invalidDatatype
                          else if n = 1001 ∧ c.enumerated = true then some .valueOutOfRange else none,
        inactive := fldNatD j "inactive" 0, active := fldNatD j "active" 1,
        minOn := fldNatD j "on" 0, minOff := fldNatD j "off" 0 }
    pure (cfg, ← fldNat j "pv")

/-- `adv`: fire the timer exactly when due (as the virtual clock does), then stop at t -/
def advance (cfg : Cfg Nat) (rules : List (Rule Nat)) : Nat → MSt Nat → Nat → MSt Nat × Option CErr
  | 0, m, _ => (m, some .recursion)
  | fuel + 1, m, t =>
    match m.st.deadline with
    | some dl =>
      if dl ≤ t then
        match stepM cfg rules m (.tick dl) with
        | (m', none) => advance cfg rules fuel m' t
        | (m', some e) => (m', some e)
      else stepM cfg rules m (.tick t)
    | none => stepM cfg rules m (.tick t)

/-- "rules": [[trigger|null, prio|null, value|null, budget(, raises)], …] -/
def mkRules (j : Json) : R (List (Rule Nat) × List Nat) := do
  match fldOpt j "rules" with
  | none => pure ([], [])
  | some rs =>
    let arr ← rs.getArr?
    let mut rules : List (Rule Nat) := []
    let mut left : List Nat := []
    for r in arr do
      let a ← r.getArr?
      if a.size != 4 && a.size != 5 then throw "bad rule"
      let raises := if a.size == 5 then (match a[4]! with | Json.bool b => b | _ => false) else false
      let trg ← match a[0]! with | Json.null => pure none | x => do pure (some (← x.getNat?))
      let pr ← match a[1]! with | Json.null => pure none | x => do pure (some (← x.getInt?))
      let v ← match a[2]! with | Json.null => pure none | x => do pure (some (← x.getNat?))
      rules := rules ++ [{ trigger := trg, prio := pr, value := v, raises := raises }]
      left := left ++ [← a[3]!.getNat?]
    pure (rules, left)

def handle (d : D) (j : Json) : R (D × Json) := do
  match ← fldStr j "op" with
  | "reset" =>
      let (cfg, pv) ← mkCfg j
      let (rules, left) ← mkRules j
      let m : MSt Nat := { st := init pv, left := left }
      pure ({ cfg := cfg, rules := rules, m := m },
            Json.mkObj ([("r", Json.str "ok")] ++ digest m.st ++ [("left", jLeft m.left), ("br", Json.str "reset")]))
  | "w" =>
      let prop ← match ← fldStr j "prop" with
        | "pv" => pure PropId.presentValue
        | "pa" => pure PropId.priorityArray
        | "other" => pure PropId.other
        | p => throw s!"unknown prop {p}"
      let v ← optNat j "v"
      let ai ← optInt j "ai"
      let pr ← optInt j "pr"
      let (m', e) := stepM d.cfg d.rules d.m (.write prop v ai pr)
      pure ({ d with m := m' }, reply d.m m' e)
  | "tick" =>
      let t ← fldNat j "t"
      let (m', e) := stepM d.cfg d.rules d.m (.tick t)
      pure ({ d with m := m' }, reply d.m m' e)
  | "adv" =>
      let t ← fldNat j "t"
      let (m', e) := advance d.cfg d.rules 8 d.m t
      pure ({ d with m := m' }, reply d.m m' e)
  | "cov" =>
      -- a COV subscription / cancellation / expiry on the same object: the command
      -- state does not depend on who is watching it
      pure (d, reply d.m d.m none)
  | "seq" =>
      let (cfg, pv) ← mkCfg j
      let evs ← fldArr j "evs"
      let mut s := init pv
      let mut errs : Array Json := #[]
      let mut brs : Array Json := #[]
      for e in evs do
        let a ← e.getArr?
        if a.size != 2 then throw "bad event"
        let pr ← match a[0]! with
          | Json.null => pure none
          | x => do pure (some (← x.getInt?))
        let v ← match a[1]! with
          | Json.null => pure none
          | x => do pure (some (← x.getNat?))
        let (s', err) := step cfg s (command v pr)
        errs := errs.push (match err with | none => Json.null | some k => Json.str k.name)
        brs := brs.push (Json.str (branch s s' err))
        s := s'
      pure ({ cfg := cfg, rules := [], m := { st := s, left := [] } },
            Json.mkObj ([("r", Json.str "ok"), ("errs", Json.arr errs)] ++ digest s ++ [("br", Json.arr brs)]))
  | op => throw s!"unknown op {op}"

def main : IO Unit :=
  loopS ({ cfg := { default := 0, check := fun _ => none, minOnOff := false, inactive := 0, active := 1, minOn := 0, minOff := 0 },
           rules := [], m := { st := init 0, left := [] } } : D) handle
