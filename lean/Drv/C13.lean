/- driver stub for C13: replaced when the model exists -/
def main : IO Unit := pure ()
