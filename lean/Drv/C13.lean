/- driver for C13: B/IP layers (component lockstep) and whole IP worlds (end-to-end) -/
import BacVerif.Drv.Common
import BacVerif.Model.Bip
import BacVerif.Props.C13
open Lean BacVerif BacVerif.Drv BacVerif.Bip

/-! ### JSON → model -/

def arrOf (j : Json) : R (Array Json) := j.getArr?
def natAt (a : Array Json) (i : Nat) : R Nat :=
  match a[i]? with
  | some v => v.getNat?
  | none => throw "index"
def strAt (a : Array Json) (i : Nat) : R String :=
  match a[i]? with
  | some v => v.getStr?
  | none => throw "index"
def hexAt (a : Array Json) (i : Nat) : R Data := do
  match ofHex? (← strAt a i) with
  | some b => pure b
  | none => throw "bad hex"

def addrOf (j : Json) : R Addr := do
  let a ← arrOf j
  pure ⟨← natAt a 0, ← natAt a 1⟩

def destOf (j : Json) : R Dest := do
  let a ← arrOf j
  match ← strAt a 0 with
  | "s" => pure (.station ⟨← natAt a 1, ← natAt a 2⟩)
  | "b" => pure .bcast
  | _ => pure .other

def bdtOf (j : Json) : R (List BdtEntry) := do
  let a ← arrOf j
  a.toList.mapM fun e => do
    let x ← arrOf e
    pure ⟨⟨← natAt x 0, ← natAt x 1⟩, ← natAt x 2⟩

def fdtOf (j : Json) : R (List FdtEntry) := do
  let a ← arrOf j
  a.toList.mapM fun e => do
    let x ← arrOf e
    pure ⟨⟨← natAt x 0, ← natAt x 1⟩, ← natAt x 2, ← natAt x 3⟩

def bvllOf (j : Json) : R Bvll := do
  let a ← arrOf j
  match ← strAt a 0 with
  | "result" => pure (.result (← natAt a 1))
  | "wbdt" => pure (.writeBdt (← bdtOf (a[1]?.getD Json.null)))
  | "rbdt" => pure .readBdt
  | "rbdtack" => pure (.readBdtAck (← bdtOf (a[1]?.getD Json.null)))
  | "fwd" => pure (.forwarded ⟨← natAt a 1, ← natAt a 2⟩ (← hexAt a 3))
  | "reg" => pure (.registerFd (← natAt a 1))
  | "rfdt" => pure .readFdt
  | "rfdtack" => pure (.readFdtAck (← fdtOf (a[1]?.getD Json.null)))
  | "del" => pure (.deleteFdt ⟨← natAt a 1, ← natAt a 2⟩)
  | "dist" => pure (.distribute (← hexAt a 1))
  | "ou" => pure (.origUnicast (← hexAt a 1))
  | "ob" => pure (.origBroadcast (← hexAt a 1))
  | "unk" => pure .unknown
  | s => throw s!"unknown bvll {s}"

/-! ### model → JSON -/

def jAddr (a : Addr) : Json := Json.arr #[Json.num a.ip, Json.num a.port]
def jDest : Dest → Json
  | .station a => Json.arr #["s", Json.num a.ip, Json.num a.port]
  | .bcast => Json.arr #["b"]
  | .other => Json.arr #["o"]
def jBdt (l : List BdtEntry) : Json :=
  Json.arr (l.map fun e => Json.arr #[Json.num e.addr.ip, Json.num e.addr.port, Json.num e.mask]).toArray
def jFdt (l : List FdtEntry) : Json :=
  Json.arr (l.map fun e => Json.arr #[Json.num e.addr.ip, Json.num e.addr.port, Json.num e.ttl, Json.num e.remain]).toArray
def jBvll : Bvll → Json
  | .result c => Json.arr #["result", Json.num c]
  | .writeBdt l => Json.arr #["wbdt", jBdt l]
  | .readBdt => Json.arr #["rbdt"]
  | .readBdtAck l => Json.arr #["rbdtack", jBdt l]
  | .forwarded o d => Json.arr #["fwd", Json.num o.ip, Json.num o.port, jHex d]
  | .registerFd t => Json.arr #["reg", Json.num t]
  | .readFdt => Json.arr #["rfdt"]
  | .readFdtAck l => Json.arr #["rfdtack", jFdt l]
  | .deleteFdt a => Json.arr #["del", Json.num a.ip, Json.num a.port]
  | .distribute d => Json.arr #["dist", jHex d]
  | .origUnicast d => Json.arr #["ou", jHex d]
  | .origBroadcast d => Json.arr #["ob", jHex d]
  | .unknown => Json.arr #["unk"]
def jOut : Out → Json
  | .send d m => Json.arr #["send", jDest d, jBvll m]
  | .up s d x => Json.arr #["up", jAddr s, jDest d, jHex x]
  | .sap s m => Json.arr #["sap", jAddr s, jBvll m]
  | .warn => Json.arr #["warn"]
  | .raised w => Json.arr #["raised", Json.str w]
def jOptNat : Option Nat → Json
  | some n => Json.num n
  | none => Json.null
def jOptAddr : Option Addr → Json
  | some a => jAddr a
  | none => Json.null
def jInt (i : Int) : Json := Json.num (JsonNumber.fromInt i)
def jKind : Kind → Json
  | .simple => Json.arr #["simple"]
  | .foreign f => Json.arr #["foreign", jInt f.status, jOptAddr f.bbmd, jOptNat f.ttl,
      jOptNat f.renewAt, jOptNat f.expireAt]
  | .bbmd b => Json.arr #["bbmd", jAddr b.addr, jBdt b.bdt, jFdt b.fdt, Json.bool b.hasUpper]
def jObs : Obs → Json
  | .up n s d x => Json.arr #["up", jAddr n, jAddr s, jDest d, jHex x]
  | .sap n s m => Json.arr #["sap", jAddr n, jAddr s, jBvll m]
  | .err n w => Json.arr #["err", jAddr n, Json.str w]

def brOfBvll : Bvll → String
  | .result _ => "result" | .writeBdt _ => "wbdt" | .readBdt => "rbdt" | .readBdtAck _ => "rbdtack"
  | .forwarded .. => "fwd" | .registerFd _ => "reg" | .readFdt => "rfdt" | .readFdtAck _ => "rfdtack"
  | .deleteFdt _ => "del" | .distribute _ => "dist" | .origUnicast _ => "ou"
  | .origBroadcast _ => "ob" | .unknown => "unk"
def brOfOut : Out → String
  | .send .bcast m => "sb:" ++ brOfBvll m
  | .send (.station _) m => "ss:" ++ brOfBvll m
  | .send .other m => "so:" ++ brOfBvll m
  | .up .. => "up" | .sap .. => "sap" | .warn => "warn" | .raised w => "raised:" ++ w
def brOfOuts (l : List Out) : String :=
  -- shape class: the distinct kinds of outputs in order of first appearance
  String.intercalate "," ((l.map brOfOut).eraseDups)

/-! ### requests -/

inductive St
  | none
  | comp (k : Kind)
  | world (w : World)

def kindOfJson (j : Json) : R Kind := do
  match ← fldStr j "kind" with
  | "simple" => pure .simple
  | "foreign" =>
      -- `OneShotFunction(self._registration_expired)` in the constructor installs itself at once
      pure (.foreign { expireAt := ← fldOptNat j "t0" })
  | "bbmd" =>
      let a ← addrOf (← fld j "addr")
      let up := match fldBool j "upper" with | .ok b => b | .error _ => true
      let bdt ← match fldOpt j "bdt" with
        | some v => bdtOf v
        | none => pure []
      pure (.bbmd { addr := a, bdt := bdt, fdt := [], hasUpper := up })
  | s => throw s!"unknown kind {s}"

def evOfJson (j : Json) : R Ev := do
  match ← fldStr j "op" with
  | "down" => pure (.down (← destOf (← fld j "dst")) (← fldHex j "data"))
  | "up" => pure (.up (← fldNat j "now") (← addrOf (← fld j "src")) (← destOf (← fld j "dst"))
                   (← bvllOf (← fld j "msg")))
  | "tick" => pure .tick
  | "addpeer" =>
      let x ← fldArr j "e"
      pure (.addPeer ⟨⟨← natAt x 0, ← natAt x 1⟩, ← natAt x 2⟩)
  | "delpeer" => pure (.delPeer (← addrOf (← fld j "a")))
  | "register" => pure (.register (← addrOf (← fld j "a")) (← fldInt j "ttl"))
  | "unregister" => pure .unregister
  | "renew" => pure (.renewFire (← fldNat j "now"))
  | "expire" => pure .expireFire
  | s => throw s!"unknown op {s}"

def netOfJson (j : Json) : R Net := do
  let id ← fldNat j "id"
  let bc ← addrOf (← fld j "bcast")
  let router ← match fldOpt j "router" with
    | some v => do
        let x ← arrOf v
        pure (some (⟨⟨← natAt x 0, ← natAt x 1⟩, ← natAt x 2, ← natAt x 3⟩ : Port))
    | none => pure none
  let nodes ← (← fldArr j "nodes").toList.mapM fun nj => do
    let a ← addrOf (← fld nj "addr")
    let k ← kindOfJson nj
    pure (⟨a, k⟩ : Node)
  pure ⟨id, bc, router, nodes⟩

def jWorldDigest (w : World) : Json :=
  Json.arr (w.nets.flatMap fun n => n.nodes.map fun nd => Json.arr #[jAddr nd.addr, jKind nd.st]).toArray

/-- the hypotheses of `bbmd_multiplicity` / `bbmd_once`, evaluated (they are decidable) on the
    current world: `ok` = WF ∧ Pop ∧ Mesh, `noecho` = NoEcho, `homes` = the served nodes (`Home`)
    with the multiplicity the theorem predicts for a broadcast from `o`: [x ≠ o] + echoes -/
def jHyp (w : World) (o : Addr) : Json :=
  let ok := decide (WF w) && decide (Pop w) && decide (Mesh w)
  let bb := (nodesOf w).filterMap fun p => if p.2.isBbmd then some p.2.addr else none
  let homes := (nodesOf w).filter fun p => bb.any fun h => decide (Home w p.1 p.2 h)
  let org := (nodesOf w).find? fun p => p.2.addr = o
  let pred (p : Net × Node) : Nat :=
    match org with
    | some q => (if p.2.addr = o then 0 else 1) + BacVerif.C13.echoes w q.1 q.2 p.1 p.2
    | none => 0
  Json.mkObj [("ok", Json.bool ok), ("noecho", Json.bool (decide (NoEcho w))),
    ("homes", Json.arr (homes.map fun p =>
      Json.arr #[Json.num p.2.addr.ip, Json.num p.2.addr.port, Json.num (pred p)]).toArray)]

def reply (r : World × List Obs × Bool) (br : String) : St × Json :=
  (.world r.1, Json.mkObj [("obs", Json.arr (r.2.1.map jObs).toArray), ("quiet", Json.bool r.2.2),
                            ("digest", jWorldDigest r.1), ("br", br)])

def brOfObs (l : List Obs) : String :=
  let ups := l.countP fun o => match o with | .up .. => true | _ => false
  let saps := l.countP fun o => match o with | .sap .. => true | _ => false
  let errs := l.countP fun o => match o with | .err .. => true | _ => false
  s!"u{min ups 9}s{saps}e{errs}"

def handle (s : St) (j : Json) : R (St × Json) := do
  let op ← fldStr j "op"
  match op with
  | "reset" =>
      let k ← kindOfJson j
      pure (.comp k, Json.mkObj [("out", Json.arr #[]), ("st", jKind k)])
  | "world" =>
      let nets ← (← fldArr j "nets").toList.mapM netOfJson
      let w : World := { nets := nets, now := ← fldNat j "now", nextTick := ← fldNat j "tick" }
      pure (.world w, Json.mkObj [("obs", Json.arr #[]), ("quiet", Json.bool true),
                                   ("digest", jWorldDigest w)])
  | _ =>
    match s with
    | .none => throw "no state"
    | .comp k =>
        let e ← evOfJson j
        let r := bipStep k e
        pure (.comp r.1, Json.mkObj [("out", Json.arr (r.2.map jOut).toArray), ("st", jKind r.1),
                                      ("br", Json.str (brOfOuts r.2))])
    | .world w =>
        match op with
        | "bcast" =>
            let oa ← addrOf (← fld j "a")
            let r := w.broadcast oa (← fldHex j "data")
            let (st, o) := reply r ("bcast:" ++ brOfObs r.2.1)
            pure (st, o.setObjVal! "hyp" (jHyp w oa))
        | "ucast" =>
            let r := w.unicast (← addrOf (← fld j "a")) (← addrOf (← fld j "to")) (← fldHex j "data")
            pure (reply r ("ucast:" ++ brOfObs r.2.1))
        | "sap" =>
            let r := w.sapSend (← addrOf (← fld j "a")) (← addrOf (← fld j "to")) (← bvllOf (← fld j "msg"))
            pure (reply r ("sap:" ++ brOfObs r.2.1))
        | "register" =>
            let a ← addrOf (← fld j "a")
            let b ← addrOf (← fld j "bbmd")
            let t ← fldInt j "ttl"
            let r1 := w.act a fun k => match k with
              | .foreign f => let x := foreignRegister f b t; (.foreign x.1, x.2)
              | k => (k, [.raised "n/a"])
            -- the renewal task installed with when=0 runs at once
            let r2 := World.advance 64 r1.1 r1.1.now
            pure (reply (r2.1, r1.2.1 ++ r2.2.1, r1.2.2 && r2.2.2) "register")
        | "regunreg" =>
            -- register() and unregister() in the same instant: back to back ("pair"), or with the
            -- renewal task run in between so that the request is in flight ("fly"); the node's
            -- outputs of both calls enter the delivery queue together, in order
            let a ← addrOf (← fld j "a")
            let b ← addrOf (← fld j "bbmd")
            let t ← fldInt j "ttl"
            let fly := (← fldStr j "variant") == "fly"
            let r := w.act a fun k => match k with
              | .foreign f =>
                  let x := foreignRegister f b t
                  let y := if fly then foreignRenew w.now x.1 else (x.1, [])
                  let z := foreignUnregister y.1
                  (.foreign z.1, x.2 ++ y.2 ++ z.2)
              | k => (k, [.raised "n/a"])
            let r2 := World.advance 64 r.1 r.1.now
            pure (reply (r2.1, r.2.1 ++ r2.2.1, r.2.2 && r2.2.2) ("regunreg:" ++ (if fly then "fly" else "pair")))
        | "unregister" =>
            let a ← addrOf (← fld j "a")
            let r := w.act a fun k => match k with
              | .foreign f => let x := foreignUnregister f; (.foreign x.1, x.2)
              | k => (k, [.raised "n/a"])
            pure (reply r "unregister")
        | "advance" =>
            let r := World.advance 100000 w (← fldNat j "t")
            pure (reply r ("advance:" ++ brOfObs r.2.1))
        | "detach" =>
            let w' := w.detach (← addrOf (← fld j "a"))
            pure (reply (w', [], true) "detach")
        | s => throw s!"unknown world op {s}"

def main : IO Unit := loopS St.none handle
