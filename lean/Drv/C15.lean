/- driver stub for C15: replaced when the model exists -/
def main : IO Unit := pure ()
