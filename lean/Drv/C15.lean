/- driver for C15: a device (objects with typed properties) served over
   ReadProperty / WriteProperty / ReadPropertyMultiple — stateful -/
import BacVerif.Drv.Tag
import BacVerif.Model.Object
import BacVerif.Gen.Objects
open Lean BacVerif BacVerif.Drv BacVerif.Obj

namespace C15

/-! ### JSON → model -/

def refusalOfStr (s : String) : R Refusal :=
  match s with
  | "object/unknownObject" => pure .unknownObject
  | "property/unknownProperty" => pure .unknownProperty
  | "property/propertyIsNotAnArray" => pure .notAnArray
  | "property/invalidArrayIndex" => pure .invalidArrayIndex
  | "property/writeAccessDenied" => pure .writeAccessDenied
  | "property/valueOutOfRange" => pure .valueOutOfRange
  | "property/duplicateName" => pure .duplicateName
  | "opProblem" => pure .opProblem
  | _ =>
    if s.startsWith "reject:" then
      match (s.drop 7).toNat? with
      | some n => pure (.reject n)
      | none => throw s!"bad refusal {s}"
    else throw s!"bad refusal {s}"

def itemOfJson (j : Json) : R Item := do
  match fldOpt j "enc" with
  | some t => pure (.enc (← tagsOfJson t))
  | none => pure (.unenc (← refusalOfStr (← fldStr j "unenc")))

def elemOfJson (j : Json) : R ElemTy := do
  match ← fldStr j "k" with
  | "any" => pure .anyAtomic
  | "atomic" => pure (.atomic (← fldNat j "tag") (← fldNat j "lo") (← fldOptNat j "hi"))
  | "cons" => pure (.cons (← fldNat j "ty"))
  | k => throw s!"bad elem kind {k}"

def dtOfJson (j : Json) : R DT := do
  let e ← elemOfJson (← fld j "e")
  match ← fldStr j "k" with
  | "scalar" => pure (.scalar e)
  | "list" => pure (.listOf e)
  | "array" => pure (.arrayOf e (← fldOptNat j "fixed") (← itemOfJson (← fld j "dflt")))
  | k => throw s!"bad datatype kind {k}"

def itemsOfJson (j : Json) : R (List Item) := do (← j.getArr?).toList.mapM itemOfJson

def pvalOfJson (j : Json) : R PVal := do
  if j.isNull then pure .absent else
  match fldOpt j "one" with
  | some x => pure (.one (← itemOfJson x))
  | none =>
    match fldOpt j "arr" with
    | some x => pure (.arr (← itemsOfJson x))
    | none => pure (.lst (← itemsOfJson (← fld j "lst")))

def customOfJson (j : Json) : R Custom := do
  match ← fldStr j "custom" with
  | "std" => pure .std | "objId" => pure .objId | "propList" => pure .propList
  | "wrName" => pure .wrName
  | "computed" => pure (.computed (← pvalOfJson (← fld j "cval")))
  | s => throw s!"bad custom {s}"

def descOfJson (j : Json) : R PropDesc := do
  let dflt ← match fldOpt j "dflt" with
    | none => pure none
    | some d => do pure (some (← itemOfJson d))
  pure { id := ← fldNat j "id", rank := ← fldNat j "rank", dt := ← dtOfJson (← fld j "dt"),
         optional := ← fldBool j "opt", mutable := ← fldBool j "mut",
         custom := ← customOfJson j, dflt := dflt }

def oidOfJson (j : Json) : R Oid := do
  let a ← j.getArr?
  if a.size ≠ 2 then throw "oid: need 2 items"
  pure (← a[0]!.getNat?, ← a[1]!.getNat?)

def decOfStr (s : String) : R Dec :=
  if s = "ok" then pure .ok
  else if s = "other" then pure .other
  else if s.startsWith "reject:" then
    match (s.drop 7).toNat? with
    | some n => pure (.reject n)
    | none => throw s!"bad dec {s}"
  else throw s!"bad dec {s}"

def wireOfJson (j : Json) : R Wire := do
  let chunks ← (← fldArr j "chunks").toList.mapM tagsOfJson
  pure { chunks := chunks, dec := ← decOfStr (← fldStr j "dec") }

def optInt (j : Json) (k : String) : R (Option Int) :=
  match fldOpt j k with
  | none => pure none
  | some v => do pure (some (← v.getInt?))

/-! ### model → JSON -/

def errNames : Refusal → (String × String)
  | .unknownObject => ("object", "unknownObject")
  | .unknownProperty => ("property", "unknownProperty")
  | .notAnArray => ("property", "propertyIsNotAnArray")
  | .invalidArrayIndex => ("property", "invalidArrayIndex")
  | .writeAccessDenied => ("property", "writeAccessDenied")
  | .valueOutOfRange => ("property", "valueOutOfRange")
  | .duplicateName => ("property", "duplicateName")
  | .opProblem => ("device", "operationalProblem")
  | .reject _ => ("", "")

/-- Error PDU: class/code by name and by the numbers of the live enumerations -/
def jRefusal (r : Refusal) : Json :=
  match r with
  | .reject n => Json.mkObj [("r", "reject"), ("reason", Json.num n)]
  | _ =>
    let (c, k) := errNames r
    let nums : Json := match Gen.Objects.errorNumbers r with
      | some (a, b) => Json.arr #[Json.num a, Json.num b]
      | none => Json.null
    Json.mkObj [("r", "error"), ("cls", c), ("code", k), ("num", nums)]

def jTagsHex (ts : List Tag) : Json := jHex (serializeTags ts)

def jIdx : Option Nat → Json
  | none => Json.null
  | some n => Json.num n

def jOid (o : Oid) : Json := Json.arr #[Json.num o.1, Json.num o.2]

def jElem (e : RElem) : Json :=
  match e.res with
  | .val ts => Json.mkObj [("pid", Json.num e.pid), ("idx", jIdx e.idx), ("val", jTagsHex ts)]
  | .err r =>
    let (c, k) := errNames r
    Json.mkObj [("pid", Json.num e.pid), ("idx", jIdx e.idx), ("err", Json.arr #[Json.str c, Json.str k])]

def jItemHex : Item → Json
  | .enc ts => jTagsHex ts
  | .unenc _ => Json.str "!"

def jPVal : PVal → Json
  | .absent => Json.null
  | .one it => Json.arr #[Json.str "one", jItemHex it]
  | .arr its => Json.arr #[Json.str "arr", Json.arr (its.map jItemHex).toArray]
  | .lst its => Json.arr #[Json.str "lst", Json.arr (its.map jItemHex).toArray]

/-- canonical digest of the whole device: every stored value of every object
    (computed properties are not state and are left out) -/
def jSnapshot (d : Device) : Json :=
  Json.arr (d.objs.map fun (oid, o) =>
    Json.mkObj [("oid", jOid oid),
      ("props", Json.arr (o.props.filterMap fun s =>
        if (match s.d.custom with | .computed _ => true | .propList => true | _ => false) then none
        else some (Json.arr #[Json.num s.d.id, jPVal s.v])).toArray)]).toArray

/-! ### the handler -/

def handle (d : Device) (j : Json) : R (Device × Json) := do
  match ← fldStr j "op" with
  | "reset" => pure ({ objs := [], localDev := none }, jOk [])
  | "add" =>
      -- an instance of a class derived from registered type `base`, declaring `own`
      let oid ← oidOfJson (← fld j "oid")
      let base ← fldNat j "base"
      let some row := Gen.Objects.objectTypes.find? (fun t => t.num = base)
        | throw s!"object type {base} is not in the generated table"
      let own ← (← fldArr j "own").toList.mapM descOfJson
      -- properties added to the instance (Object.add_property) come after everything else
      let extra ← match fldOpt j "extra" with
        | none => pure []
        | some x => do (← x.getArr?).toList.mapM descOfJson
      -- ... unless the identifier exists already: then the new descriptor takes its place
      let repl ← match fldOpt j "replace" with
        | none => pure []
        | some x => do (← x.getArr?).toList.mapM descOfJson
      let props := (mergeProps own row.props).map (fun p =>
        match repl.find? (fun q => q.id = p.id) with | some q => q | none => p) ++ extra
      let cmd ← match fldOpt j "cmd" with
        | none => pure none
        | some c => do
          let a ← c.getArr?
          if a.size ≠ 3 then throw "cmd: need 3 items"
          pure (some { pv := ← a[0]!.getNat?, pa := ← a[1]!.getNat?, rd := ← a[2]!.getNat? : Cmd })
      let init ← (← fldArr j "init").toList.mapM fun kv => do
        let a ← kv.getArr?
        if a.size ≠ 2 then throw "init: need pairs"
        pure (← a[0]!.getNat?, ← pvalOfJson a[1]!)
      let o := mkObject row.num props cmd init
      let isLocal := match fldBool j "local" with | .ok b => b | .error _ => false
      let d' : Device := { objs := d.objs ++ [(oid, o)], localDev := if isLocal then some oid else d.localDev }
      pure (d', jOk [("ids", Json.arr (props.map fun p => Json.num p.id).toArray)])
  | "set" =>
      -- harness-side (direct) update of one stored value, e.g. objectList after add_object
      let oid ← oidOfJson (← fld j "oid")
      let pid ← fldNat j "pid"
      let v ← pvalOfJson (← fld j "v")
      match findObj oid d.objs with
      | none => throw "set: no such object"
      | some o => pure ({ d with objs := setObj oid { o with props := setSlot pid v o.props } d.objs }, jOk [])
  | "rp" =>
      let oid ← oidOfJson (← fld j "oid")
      match readService d oid (← fldNat j "pid") (← fldOptNat j "idx") with
      | .ok ts => pure (d, Json.mkObj [("r", "ack"), ("hex", jTagsHex ts)])
      | .error r => pure (d, jRefusal r)
  | "wp" =>
      let req : WriteReq := { oid := ← oidOfJson (← fld j "oid"), pid := ← fldNat j "pid",
                              idx := ← fldOptNat j "idx", value := ← wireOfJson (← fld j "val"),
                              prio := ← optInt j "prio" }
      match writeService d req with
      | (d', .ok ()) => pure (d', Json.mkObj [("r", "simpleack")])
      | (d', .error r) => pure (d', jRefusal r)
  | "rpm" =>
      let specs ← (← fldArr j "specs").toList.mapM fun s => do
        let refs ← (← fldArr s "refs").toList.mapM fun r => do
          pure ({ pid := ← fldNat r "pid", idx := ← fldOptNat r "idx" } : PropRef)
        pure (← oidOfJson (← fld s "oid"), refs)
      match rpmService d specs with
      | .ok res =>
          pure (d, Json.mkObj [("r", "ack"), ("res", Json.arr (res.map fun (oid, es) =>
            Json.mkObj [("oid", jOid oid), ("els", Json.arr (es.map jElem).toArray)]).toArray)])
      | .error r => pure (d, jRefusal r)
  | "snap" => pure (d, jOk [("objs", jSnapshot d)])
  | op => throw s!"unknown op {op}"

end C15

def main : IO Unit := loopS ({ objs := [], localDev := none } : Device) C15.handle
