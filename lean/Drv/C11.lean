/- driver stub for C11: replaced when the model exists -/
def main : IO Unit := pure ()
