/- driver for C11: lockstep model of the transaction state machines (shared with C12) -/
import BacVerif.Drv.TsmDrv
def main : IO Unit := BacVerif.Drv.tsmMain
