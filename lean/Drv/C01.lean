/- driver stub for C01: replaced when the model exists -/
def main : IO Unit := pure ()
