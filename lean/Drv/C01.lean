/- driver for C01: primitive codecs (Model.Prim) and the generated tables -/
import BacVerif.Drv.Tag
import BacVerif.Model.Prim
import BacVerif.Model.Ieee
import BacVerif.Gen.Enums
open Lean BacVerif BacVerif.Drv

def tyOfName : String → R PrimTy
  | "null" => pure .null | "bool" => pure .bool | "unsigned" => pure .unsigned
  | "integer" => pure .integer | "real" => pure .real | "double" => pure .double
  | "octets" => pure .octets | "charstr" => pure .charstr | "bits" => pure .bits
  | "enum" => pure .enum | "date" => pure .date | "time" => pure .time | "oid" => pure .oid
  | s => throw s!"unknown type {s}"

def jInt (i : Int) : Json := Json.num (JsonNumber.fromInt i)

def bitsToStr (bs : List Bool) : String := String.ofList (bs.map fun b => if b then '1' else '0')

def strToBits (s : String) : R (List Bool) :=
  s.toList.mapM fun c => if c = '1' then pure true else if c = '0' then pure false else throw "bad bit"

def nameOfStr (s : String) : BacVerif.Name := s.toList.map Char.toNat
def strOfName (n : BacVerif.Name) : String := String.ofList (n.map Char.ofNat)

def jVal : PrimVal → Json
  | .null => Json.null
  | .bool b => Json.num (bitNat b)
  | .unsigned n => Json.num n
  | .integer i => jInt i
  | .real b => Json.num b.toNat
  | .double b => Json.num b.toNat
  | .octets bs => jHex bs
  | .charstr e bs => Json.arr #[Json.num e, jHex bs]
  | .bits bs => Json.str (bitsToStr bs)
  | .enum n => Json.num n
  | .date a b c d => Json.arr #[jInt a, jInt b, jInt c, jInt d]
  | .time a b c d => Json.arr #[jInt a, jInt b, jInt c, jInt d]
  | .oid t i => Json.arr #[jInt t, jInt i]

def hexOf (j : Json) : R Bytes := do
  match ofHex? (← j.getStr?) with
  | some b => pure b
  | none => throw "bad hex"

def quadOf (j : Json) : R (Int × Int × Int × Int) := do
  let a ← j.getArr?
  if a.size ≠ 4 then throw "need 4 components"
  pure (← a[0]!.getInt?, ← a[1]!.getInt?, ← a[2]!.getInt?, ← a[3]!.getInt?)

def valOfJson (ty : PrimTy) (j : Json) : R PrimVal := do
  match ty with
  | .null => pure .null
  | .bool => pure (.bool ((← j.getNat?) ≠ 0))
  | .unsigned => pure (.unsigned (← j.getNat?))
  | .integer => pure (.integer (← j.getInt?))
  | .real =>
      let n ← j.getNat?
      if n ≥ 4294967296 then throw "real: not a 32-bit pattern"
      pure (.real (UInt32.ofNat n))
  | .double =>
      let n ← j.getNat?
      if n ≥ 18446744073709551616 then throw "double: not a 64-bit pattern"
      pure (.double (UInt64.ofNat n))
  | .octets => pure (.octets (← hexOf j))
  | .charstr =>
      let a ← j.getArr?
      if a.size ≠ 2 then throw "charstr: need [enc, hex]"
      pure (.charstr (← a[0]!.getNat?) (← hexOf a[1]!))
  | .bits => pure (.bits (← strToBits (← j.getStr?)))
  | .enum => pure (.enum (← j.getNat?))
  | .date => let (a, b, c, d) ← quadOf j; pure (.date a b c d)
  | .time => let (a, b, c, d) ← quadOf j; pure (.time a b c d)
  | .oid =>
      let a ← j.getArr?
      if a.size ≠ 2 then throw "oid: need [type, instance]"
      pure (.oid (← a[0]!.getInt?) (← a[1]!.getInt?))

def modeOf (j : Json) : R Mode := do
  match ← fldOptNat j "ctx" with
  | none => pure .app
  | some c => pure (.ctx c)

def jEnumVal : EnumVal → Json
  | .name s => Json.str (strOfName s)
  | .num n => Json.num n

def enumTable (cls : String) : R EnumTable :=
  match Gen.Enums.enumTables.lookup cls with
  | some t => pure t
  | none => throw s!"unknown enumeration class {cls}"

def handle (j : Json) : R Json := do
  match ← fldStr j "op" with
  | "enc" =>     -- X(v).encode(tag) [; tag.app_to_context(c)] ; tag.encode(pdu)
      let ty ← tyOfName (← fldStr j "ty")
      let v ← valOfJson ty (← fld j "v")
      let m ← modeOf j
      match encodePrim v, wireEncode m v with
      | .ok t, .ok bs => pure (jOk [("tag", jTag t), ("hex", jHex bs)])
      | .error e, _ => pure (jErr e)
      | _, .error e => pure (jErr e)
  | "rt" =>      -- encode on the wire, parse, decode with the same class (subclasses inherit the codec)
      let ty ← tyOfName (← fldStr j "ty")
      let v ← valOfJson ty (← fld j "v")
      let m ← modeOf j
      match wireEncode m v with
      | .error e => pure (jErr e)
      | .ok bs =>
        match wireDecode ty m bs with
        | .error e => pure (jErr e)
        | .ok (back, rest) => pure (jOk [("hex", jHex bs), ("back", jVal back), ("rest", jHex rest)])
  | "dec" =>     -- Tag(pdu) [; context check; context_to_app] ; X(tag)
      let ty ← tyOfName (← fldStr j "ty")
      let bs ← fldHex j "hex"
      let m ← modeOf j
      match wireDecode ty m bs with
      | .error e => pure (jErr e)
      | .ok (v, rest) => pure (jOk [("v", jVal v), ("rest", jHex rest)])
  | "dectag" =>  -- X(tag) on an arbitrary tag
      let ty ← tyOfName (← fldStr j "ty")
      let t ← tagOfJson (← fld j "tag")
      match decodePrim ty t with
      | .error e => pure (jErr e)
      | .ok v => pure (jOk [("v", jVal v)])
  | "real64" =>  -- Real(x).encode(tag) with x given as the bit pattern of the Python float
      match encodeRealFloat (← fldNat j "bits64") with
      | .error e => pure (jErr e)
      | .ok t => pure (jOk [("data", jHex t.data)])
  | "widen" =>   -- Real(tag).value as the bit pattern of the Python float
      let b ← fldNat j "bits"
      match decodeRealFloat (appData 4 (be32 b)) with
      | .error e => pure (jErr e)
      | .ok x => pure (jOk [("bits64", Json.num x)])
  | "a2o" =>     -- Tag.app_to_object
      let t ← tagOfJson (← fld j "tag")
      match appToObject t with
      | .error e => pure (jErr e)
      | .ok none => pure (jOk [("ty", Json.null)])
      | .ok (some v) => pure (jOk [("ty", Json.num (tyOf v).appTag), ("v", jVal v)])
  | "a2c" =>     -- Tag.app_to_context
      let t ← tagOfJson (← fld j "tag")
      match appToContext (← fldNat j "c") t with
      | .error e => pure (jErr e)
      | .ok t' => pure (jOk [("tag", jTag t')])
  | "c2a" =>     -- Tag.context_to_app
      let t ← tagOfJson (← fld j "tag")
      match contextToApp (← fldNat j "dt") t with
      | .error e => pure (jErr e)
      | .ok t' => pure (jOk [("tag", jTag t')])
  | "enum" =>    -- cls(arg); .encode(tag); cls(tag)
      let T ← enumTable (← fldStr j "cls")
      let arg ← match fldOpt j "name" with
        | some n => do pure (EnumArg.name (nameOfStr (← n.getStr?)))
        | none => do pure (EnumArg.int (← fldInt j "int"))
      match enumCtor T arg with
      | .error e => pure (jErr e)
      | .ok v =>
        let e : Json := match enumEncode T v with
          | .error e => jErr e
          | .ok t =>
            match enumDecode T t with
            | .error e => jErr e
            | .ok back => jOk [("data", jHex t.data), ("back", jEnumVal back)]
        pure (jOk [("v", jEnumVal v), ("e", e)])
  | "uctor" =>   -- Unsigned subclass constructor
      let cls ← fldStr j "cls"
      match Gen.Enums.unsignedLimits.lookup cls with
      | none => throw s!"unknown unsigned class {cls}"
      | some (lo, hi) =>
        match unsignedCtor lo hi (← fldInt j "v") with
        | .error e => pure (jErr e)
        | .ok n => pure (jOk [("n", Json.num n)])
  | "bitnames" => -- BitString subclass built from a list of names
      let cls ← fldStr j "cls"
      match Gen.Enums.bitTables.lookup cls with
      | none => throw s!"unknown bit string class {cls}"
      | some (len, T) =>
        let names ← (← fldArr j "names").toList.mapM fun n => do pure (nameOfStr (← n.getStr?))
        match bitsFromNames T len names with
        | .error e => pure (jErr e)
        | .ok bs => pure (jOk [("bits", Json.str (bitsToStr bs))])
  | "otype" =>   -- ObjectIdentifier.objectTypeClass lookups (set_long / get_tuple)
      match fldOpt j "name" with
      | some n =>
        match xlateName Gen.Enums.objectTypeTable (nameOfStr (← n.getStr?)) with
        | some v => pure (jOk [("n", Json.num v)])
        | none => pure (jErr .valueRange)
      | none =>
        match xlateNum Gen.Enums.objectTypeTable (← fldNat j "n") with
        | some s => pure (jOk [("name", Json.str (strOfName s))])
        | none => pure (jOk [("name", Json.null)])
  | op => throw s!"unknown op {op}"

def main : IO Unit := loop handle
