/- driver stub for C05: replaced when the model exists -/
def main : IO Unit := pure ()
