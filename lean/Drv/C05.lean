/- driver for C05: lockstep model of the transaction state machines (shared with C11/C12) -/
import BacVerif.Drv.TsmDrv
def main : IO Unit := BacVerif.Drv.tsmMain
