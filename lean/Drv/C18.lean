/- driver for C18: addresses (Model.Addr) -/
import BacVerif.Drv.Common
import BacVerif.Model.Addr
open Lean BacVerif BacVerif.Drv BacVerif.Addr

def jStr (cs : List Char) : Json := Json.str (String.ofList cs)

def jBytesOpt : Option Bytes → Json
  | none => Json.null
  | some b => jHex b

def jIP : Option IPInfo → Json
  | none => Json.null
  | some i => Json.mkObj [("ip", Json.num i.ip), ("mask", Json.num i.mask), ("host", jNatOpt i.host),
      ("subnet", jNatOpt i.subnet), ("port", Json.num i.port), ("th", jStr i.tupHost),
      ("bh", jStr i.bcastHost)]

def jKey (a : Addr) : Json := Json.arr #[Json.num a.ty.code, jNatOpt a.net, jBytesOpt a.addr]

/-- branch label of the string recogniser -/
def brStr (s : List Char) : String :=
  if s = ['*'] then "lit*" else if s = ['*', ':', '*'] then "lit*:*" else
  let t := stripNl s
  let nl := if t = s then "" else "+nl"
  match matchCombined t with
  | some (p, b) =>
    let ps := match p with | .none => "-" | .net _ => "n" | .star => "*"
    let bs := match b with
      | .star => "*" | .dec _ => "d" | .hex _ => "x"
      | .ip _ _ _ _ m q => "ip" ++ (if m.isSome then "/" else "") ++ (if q.isSome then ":" else "")
    s!"comb:{ps}{bs}{nl}"
  | none =>
    if (matchEthernet t).isSome then "eth" ++ nl
    else if (matchXHex t).isSome then "X" ++ nl
    else if (matchNetXHex t).isSome then "nX" ++ nl
    else "none"

partial def build (j : Json) : R (Except Err Addr × String) := do
  match ← fldStr j "k" with
  | "str" => let s ← fldStr j "s"; pure (parse s.toList, "str:" ++ brStr s.toList)
  | "int" => pure (ofInt (← fldInt j "n"), "int")
  | "bytes" => pure (ofBytes (← fldHex j "x"), "bytes")
  | "tups" => pure (ofTupleStr (← fldStr j "h").toList (← fldInt j "p"), "tups")
  | "tupi" => pure (ofTupleInt (← fldInt j "h") (← fldInt j "p"), "tupi")
  | "net2" =>
      let (inner, br) ← build (← fld j "a")
      pure (ctor2 (← fldInt j "net") inner, "net2/" ++ br)
  | "LS" => pure (localStationInt (← fldInt j "n"), "LS")
  | "LSb" => pure (localStationBytes (← fldHex j "x"), "LSb")
  | "RS" => pure (remoteStationInt (← fldInt j "net") (← fldInt j "n"), "RS")
  | "RSb" => pure (remoteStationBytes (← fldInt j "net") (← fldHex j "x"), "RSb")
  | "LB" => pure (.ok mkLocalBroadcast, "LB")
  | "RB" => pure (remoteBroadcast (← fldInt j "net"), "RB")
  | "GB" => pure (.ok mkGlobalBroadcast, "GB")
  | "null" => pure (.ok mkNull, "null")
  | k => throw s!"unknown ctor {k}"

def jAddr (a : Addr) (br : String) : Json :=
  let (str, rt, pb) : Json × Json × String :=
    match printAddr a with
    | .error e => (Json.mkObj [("err", e.name)], Json.null, "perr")
    | .ok s =>
      (jStr s,
       (match parse s with
        | .ok a' => jKey a'
        | .error e => Json.mkObj [("err", e.name)]),
       (match a.addr with
        | none => "b"
        | some bs => if bs.length = 1 then "1" else if s.take 2 = ['0', 'x'] ∨ (s.dropWhile isDig).take 3 = [':', '0', 'x'] then "x" else "ip"))
  jOk [("ty", Json.num a.ty.code), ("net", jNatOpt a.net), ("addr", jBytesOpt a.addr),
       ("len", jNatOpt a.len), ("ip", jIP a.ip), ("str", str), ("rt", rt),
       ("br", Json.str (br ++ "|" ++ pb))]

def handle (j : Json) : R Json := do
  match ← fldStr j "op" with
  | "mk" =>
      let (r, br) ← build (← fld j "c")
      match r with
      | .error e => pure (Json.mkObj [("r", "err"), ("k", e.name), ("br", Json.str br)])
      | .ok a => pure (jAddr a br)
  | "eq" =>
      let (ra, _) ← build (← fld j "a")
      let (rb, _) ← build (← fld j "b")
      match ra, rb with
      | .ok a, .ok b =>
          pure (jOk [("eq", Json.bool (addrEq a b)), ("hk", Json.bool (hashKey a == hashKey b)),
                     ("br", Json.str (if addrEq a b then "eq" else "ne"))])
      | .error e, _ => pure (jErr e)
      | _, .error e => pure (jErr e)
  | "eqr" =>   -- __eq__ / _tuple() of addresses that may carry a route (default settings)
      let (ra, _) ← build (← fld j "a")
      let (rb, _) ← build (← fld j "b")
      let route (k : String) : R (Option (Except Err Addr)) :=
        match fldOpt j k with
        | none => pure none
        | some r => do let (x, _) ← build r; pure (some x)
      let ar ← route "ar"
      let br ← route "br"
      let opt : Option (Except Err Addr) → Except Err (Option Addr)
        | none => .ok none
        | some (.ok x) => .ok (some x)
        | some (.error e) => .error e
      match ra, rb, opt ar, opt br with
      | .ok a, .ok b, .ok x, .ok y =>
          let p : RAddr := ⟨a, x⟩
          let q : RAddr := ⟨b, y⟩
          let aware := match fldBool j "aware" with | .ok b => b | .error _ => false
          pure (jOk [("eq", Json.bool (addrEqR p q)), ("hk", Json.bool (tupleR aware p == tupleR aware q)),
                     ("br", Json.str (if addrEqR p q then "eqr" else "ner"))])
      | .error e, _, _, _ => pure (jErr e)
      | _, .error e, _, _ => pure (jErr e)
      | _, _, .error e, _ => pure (jErr e)
      | _, _, _, .error e => pure (jErr e)
  | "mixed" =>   -- an address and an int as keys of one table
      let (ra, _) ← build (← fld j "a")
      let n ← fldInt j "n"
      match ra with
      | .error e => pure (jErr e)
      | .ok a =>
          let eq : Json := match addrEqInt a n with
            | .ok b => Json.bool b
            | .error e => Json.mkObj [("err", e.name)]
          pure (jOk [("eq", eq), ("same", Json.bool (keyOfAddr a == keyOfInt n))])
  | "pack" =>
      match packIp (← fldStr j "h").toList (← fldNat j "p") with
      | .ok b => pure (jOk [("hex", jHex b)])
      | .error e => pure (jErr e)
  | "unpack" =>
      let (h, p) := unpackIp (← fldHex j "x")
      pure (jOk [("h", jStr h), ("p", Json.num p)])
  | op => throw s!"unknown op {op}"

def main : IO Unit := loop handle
