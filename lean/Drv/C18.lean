/- driver stub for C18: replaced when the model exists -/
def main : IO Unit := pure ()
