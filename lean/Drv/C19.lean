/- driver for C19: router information cache + node learning paths (stateful) -/
import BacVerif.Drv.Common
import BacVerif.Model.RouterCache
open Lean BacVerif BacVerif.Drv BacVerif.RouterCache

/-! ### canonical digests (must match harness/c19.py: `cache_digest`, `node_digest`) -/

def netStr : Net → String
  | none => "-"
  | some n => toString n

def netKey : Net → Nat
  | none => 0
  | some n => n + 1

def riStr (a : Nat) (ri : RouterInfo) : String :=
  let ds := (items ri.dnets).mergeSort (fun x y => x.1 ≤ y.1)
  let body := ",".intercalate (ds.map fun (d, st) => s!"{d}={st}")
  let st := match ri.status with | none => "" | some n => s!"~{n}"
  s!"{a}({body}){st}"

def cacheDigest (c : Cache Nat) : String :=
  let nets := (items c.routers).mergeSort (fun x y => netKey x.1 ≤ netKey y.1)
  let rs := nets.map fun (s, rs) =>
    let rs' := (items rs).mergeSort (fun x y => x.1 ≤ y.1)
    netStr s ++ "{" ++ ";".intercalate (rs'.map fun (a, ri) => riStr a ri) ++ "}"
  let ps := (items c.pathInfo).mergeSort (fun x y =>
    netKey x.1.1 < netKey y.1.1 || (netKey x.1.1 == netKey y.1.1 && x.1.2 ≤ y.1.2))
  let pstr := ",".intercalate (ps.map fun ((s, d), a) => s!"{netStr s}/{d}>{a}")
  "".intercalate rs ++ "|" ++ pstr

def nodeDigest (n : Node Nat) : String :=
  let ports := ",".intercalate (n.ports.map fun p =>
    netStr p.net ++ ":" ++ (match p.cfg with | none => "-" | some k => toString k))
  let ads := ",".intercalate ((items n.adapters).map fun (s, p) => s!"{netStr s}>{p}")
  let pend := (items n.pending).mergeSort (fun x y => x.1 ≤ y.1)
  let pstr := ",".intercalate (pend.map fun (d, k) => s!"{d}*{k}")
  s!"[{ports}][{ads}]L{n.localPort}[{pstr}]" ++ cacheDigest n.cache

/-! ### request decoding -/

def jNet (j : Json) : R Net :=
  match j with
  | Json.null => pure none
  | v => do pure (some (← v.getNat?))

def jNats (j : Json) : R (List Nat) := do
  let a ← j.getArr?
  a.toList.mapM (fun x => x.getNat?)

def jOptNat (j : Json) : R (Option Nat) :=
  match j with
  | Json.null => pure none
  | v => do pure (some (← v.getNat?))

def jOptNats (j : Json) : R (Option (List Nat)) :=
  match j with
  | Json.null => pure none
  | v => do pure (some (← jNats v))

def arg (a : Array Json) (i : Nat) : R Json :=
  match a[i]? with
  | some v => pure v
  | none => throw s!"missing argument {i}"

/-- ["u",s,a,[ds],st] | ["s",s,a,st] | ["d",s,a|null,[ds]|null] | ["r",old,new] -/
def opOfJson (j : Json) : R (Op Nat) := do
  let a ← j.getArr?
  match ← (← arg a 0).getStr? with
  | "u" => pure (.update (← jNet (← arg a 1)) (← (← arg a 2).getNat?) (← jNats (← arg a 3))
                   (← (← arg a 4).getNat?))
  | "s" => pure (.status (← jNet (← arg a 1)) (← (← arg a 2).getNat?) (← (← arg a 3).getNat?))
  | "d" => pure (.delete (← jNet (← arg a 1)) (← jOptNat (← arg a 2)) (← jOptNats (← arg a 3)))
  | "r" => pure (.renumber (← jNet (← arg a 1)) (← jNet (← arg a 2)))
  | k => throw s!"unknown cache op {k}"

/-- ["iam",port,src,[nets]] | ["routed",port,src,snet] | ["nni",port,net,flag,bcast]
    | ["forget",snet,a|null,[ds]|null] | ["orig",dnet,dst] -/
def evOfJson (j : Json) : R (Ev Nat) := do
  let a ← j.getArr?
  match ← (← arg a 0).getStr? with
  | "iam" => pure (.iam (← (← arg a 1).getNat?) (← (← arg a 2).getNat?) (← jNats (← arg a 3)))
  | "routed" => pure (.routed (← (← arg a 1).getNat?) (← (← arg a 2).getNat?) (← (← arg a 3).getNat?))
  | "nni" => pure (.nni (← (← arg a 1).getNat?) (← (← arg a 2).getNat?) (← (← arg a 3).getNat?)
                    ((← (← arg a 4).getNat?) != 0))
  | "forget" => pure (.forget (← jNet (← arg a 1)) (← jOptNat (← arg a 2)) (← jOptNats (← arg a 3)))
  | "orig" => pure (.originate (← (← arg a 1).getNat?) (← (← arg a 2).getNat?))
  | k => throw s!"unknown node event {k}"

def nodeOfJson (j : Json) : R (Node Nat) := do
  let ports ← (← fldArr j "ports").toList.mapM fun p => do
    let a ← p.getArr?
    pure ({ net := ← jNet (← arg a 0), cfg := ← jOptNat (← arg a 1) } : Port)
  let ads ← (← fldArr j "adapters").toList.mapM fun p => do
    let a ← p.getArr?
    pure ((← jNet (← arg a 0)), (← (← arg a 1).getNat?))
  pure { ports := ports, adapters := ads, localPort := ← fldNat j "local", cache := Cache.empty }

/-! ### replies -/

def jNetJ : Net → Json
  | none => Json.null
  | some n => Json.num n

def frameJson : Frame Nat → Json
  | .apdu p dst dn =>
    Json.arr #["apdu", Json.num p,
      (match dst with | .station a => Json.num a | .broadcast => Json.null), jNatOpt dn]
  | .whoIs p d => Json.arr #["whois", Json.num p, Json.num d]
  | .iAm p nets => Json.arr #["iam", Json.num p, Json.arr (nets.map (fun (n : Nat) => Json.num (n : JsonNumber))).toArray]

def outFields (o : Out Nat) : List (String × Json) :=
  [("out", Json.arr (o.frames.map frameJson).toArray),
   ("raised", match o.raised with | none => Json.null | some e => Json.str e.name)]

/-- branch path of a cache operation (coverage only) -/
def brOf (c : Cache Nat) : Op Nat → String
  | .update s a ds _ =>
    let ex := rget c s a
    let others := otherRouters c s (ex.map fun _ => a) ds
    s!"upd:{if ex.isSome then "old" else "new"}:o{others.length}:n{min ds.length 3}"
  | .status s a _ => s!"sts:{if (rget c s a).isSome then "hit" else "miss"}"
  | .delete s a ds =>
    match a, ds with
    | none, none => "del:inconsistent"
    | some a, ds =>
      match rget c s a with
      | none => "del:addr:miss"
      | some ri =>
        let eff := effectiveDnets ds ri
        let left := (items ri.dnets).filter (fun e => !(eff.contains e.1))
        s!"del:addr:{match ds with | none => "all" | some [] => "empty" | some _ => "some"}:" ++
          (if left.isEmpty then "gone" else "kept")
    | none, some ds => s!"del:dnets:o{(otherRouters c s none ds).length}"
  | .renumber o n =>
    match aget o c.routers with
    | none => "ren:absent"
    | some _ =>
      if o = n then "ren:same"
      else match aget n c.routers with
        | none => "ren:free"
        | some rs => if rs.isEmpty then "ren:free0" else "ren:occupied"

structure St where
  cache : Cache Nat := Cache.empty
  node0 : Node Nat := { ports := [], adapters := [], localPort := 0, cache := Cache.empty }
  node : Node Nat := { ports := [], adapters := [], localPort := 0, cache := Cache.empty }

/-- a refused call (`inconsistent`) leaves the cache as it was; any other failure ends the history -/
def stepKeep (c : Except RErr (Cache Nat)) (op : Op Nat) : Except RErr (Cache Nat) :=
  match c with
  | .error e => .error e
  | .ok c =>
    match step c op with
    | .ok c' => .ok c'
    | .error .inconsistent => .ok c
    | .error e => .error e

/-- DFS preorder over all words of length ≤ depth, sharing prefixes -/
partial def enumCache (alpha : Array (Op Nat)) (depth : Nat) (c : Except RErr (Cache Nat))
    (acc : Array Json) : Array Json :=
  let me : String := match c with | .ok c => cacheDigest c | .error e => "err:" ++ e.name
  let acc := acc.push (Json.str me)
  if depth = 0 then acc
  else alpha.foldl (fun acc op => enumCache alpha (depth - 1) (stepKeep c op) acc) acc

def probeNode (n : Node Nat) (probes : List (Nat × Nat)) : Json :=
  -- all probes run one after the other on the same node (as on the real node)
  let r := probes.foldl (fun (acc : Node Nat × Array Json) (d, dst) =>
    let (n', o) := nodeStep acc.1 (.originate d dst)
    (n', acc.2.push (Json.mkObj (outFields o)))) (n, #[])
  Json.mkObj [("p", Json.arr r.2), ("d", Json.str (nodeDigest r.1))]

partial def enumNode (alpha : Array (Ev Nat)) (depth : Nat) (probes : List (Nat × Nat))
    (n : Node Nat) (raised : Array Json) (acc : Array Json) : Array Json :=
  let acc := acc.push (Json.mkObj [("h", Json.str (nodeDigest n)), ("x", Json.arr raised),
                                   ("probe", probeNode n probes)])
  if depth = 0 then acc
  else
    alpha.foldl (fun acc ev =>
      let (n', o) := nodeStep n ev
      let raised' := raised.push (match o.raised with | none => Json.null | some e => Json.str e.name)
      enumNode alpha (depth - 1) probes n' raised' acc) acc

def jPairs (j : Json) : R (List (Nat × Nat)) := do
  let a ← j.getArr?
  a.toList.mapM fun p => do
    let q ← p.getArr?
    pure ((← (← arg q 0).getNat?), (← (← arg q 1).getNat?))

def handle (st : St) (j : Json) : R (St × Json) := do
  match ← fldStr j "op" with
  | "reset" => pure ({ st with cache := Cache.empty, node := st.node0 }, jOk [])
  | "node" =>
      let n ← nodeOfJson j
      pure ({ st with node0 := n, node := n }, jOk [("d", Json.str (nodeDigest n))])
  | "c" =>
      let op ← opOfJson (← fld j "o")
      let br := brOf st.cache op
      match step st.cache op with
      | .ok c => pure ({ st with cache := c }, jOk [("d", Json.str (cacheDigest c)), ("br", Json.str br)])
      | .error e =>
          pure (st, Json.mkObj [("r", "err"), ("k", e.name), ("d", Json.str (cacheDigest st.cache)),
                                ("br", Json.str br)])
  | "get" =>
      let s ← jNet (← fld j "s")
      let d ← fldNat j "d"
      match getRouterInfo st.cache s d with
      | none => pure (st, jOk [("a", Json.null), ("dn", Json.null)])
      | some (a, none) => pure (st, jOk [("a", Json.num a), ("dn", Json.null)])
      | some (a, some ri) =>
          let ds := (items ri.dnets).mergeSort (fun x y => x.1 ≤ y.1)
          pure (st, jOk [("a", Json.num a),
            ("dn", Json.arr (ds.map fun (d, s) => Json.arr #[Json.num d, Json.num s]).toArray)])
  | "enum" =>
      let alpha ← (← fldArr j "alpha").mapM opOfJson
      let pre ← jNats (← fld j "prefix")
      let depth ← fldNat j "depth"
      let ops ← pre.mapM fun i => match alpha[i]? with
        | some o => pure o
        | none => throw "prefix index out of range"
      let c0 : Except RErr (Cache Nat) := ops.foldl stepKeep (.ok Cache.empty)
      pure (st, jOk [("ds", Json.arr (enumCache alpha depth c0 #[]))])
  | "n" =>
      let ev ← evOfJson (← fld j "e")
      let (n, o) := nodeStep st.node ev
      pure ({ st with node := n }, jOk (outFields o ++ [("d", Json.str (nodeDigest n))]))
  | "nenum" =>
      let alpha ← (← fldArr j "alpha").mapM evOfJson
      let pre ← jNats (← fld j "prefix")
      let depth ← fldNat j "depth"
      let probes ← jPairs (← fld j "probes")
      let evs ← pre.mapM fun i => match alpha[i]? with
        | some o => pure o
        | none => throw "prefix index out of range"
      let r := evs.foldl (fun (acc : Node Nat × Array Json) ev =>
        let (n', o) := nodeStep acc.1 ev
        (n', acc.2.push (match o.raised with | none => Json.null | some e => Json.str e.name)))
        (st.node0, #[])
      pure (st, jOk [("hs", Json.arr (enumNode alpha depth probes r.1 r.2 #[]))])
  | op => throw s!"unknown op {op}"

def main : IO Unit := loopS ({} : St) handle
