/- driver stub for C19: replaced when the model exists -/
def main : IO Unit := pure ()
