/- driver stub for C06: replaced when the model exists -/
def main : IO Unit := pure ()
