/- driver for C06: one network-layer node in lockstep (stateful) + the global simulator -/
import BacVerif.Drv.Common
import BacVerif.Model.Route
open Lean BacVerif BacVerif.Drv BacVerif.Route

def jOptNat : Option Nat → Json
  | none => Json.null
  | some n => Json.num n

def jOptHex : Option Bytes → Json
  | none => Json.null
  | some b => jHex b

def optOf (j : Json) (k : String) : Option Json :=
  match j.getObjVal? k with
  | .ok Json.null => none
  | .ok v => some v
  | .error _ => none

def hexOf (v : Json) : R Bytes := do
  match ofHex? (← v.getStr?) with
  | some b => pure b
  | none => throw "bad hex"

def optNat (j : Json) (k : String) : R (Option Nat) :=
  match optOf j k with
  | none => pure none
  | some v => do pure (some (← v.getNat?))

def optHex (j : Json) (k : String) : R (Option Bytes) :=
  match optOf j k with
  | none => pure none
  | some v => do pure (some (← hexOf v))

def linkOf (j : Json) (k : String) : R Link := do
  match ← optHex j k with
  | none => pure .bcast
  | some m => pure (.to m)

def jLink : Link → Json
  | .bcast => Json.null
  | .to m => jHex m

def dadrOf (v : Json) : R Dadr := do
  let a ← v.getArr?
  match ← a[0]!.getStr? with
  | "rs" => pure (.rs (← a[1]!.getNat?) (← hexOf a[2]!))
  | "rb" => pure (.rb (← a[1]!.getNat?))
  | "gb" => pure .gb
  | k => throw s!"bad dadr {k}"

def jDadr : Dadr → Json
  | .rs n m => Json.arr #["rs", Json.num n, jHex m]
  | .rb n => Json.arr #["rb", Json.num n]
  | .gb => Json.arr #["gb"]

def addrOf (v : Json) : R Addr := do
  let a ← v.getArr?
  match ← a[0]!.getStr? with
  | "ls" => pure (.localStation (← hexOf a[1]!))
  | "lb" => pure .localBroadcast
  | "rs" => pure (.remoteStation (← a[1]!.getNat?) (← hexOf a[2]!))
  | "rb" => pure (.remoteBroadcast (← a[1]!.getNat?))
  | "gb" => pure .global
  | "null" => pure .null
  | k => throw s!"bad addr {k}"

def jAddr : Addr → Json
  | .localStation m => Json.arr #["ls", jHex m]
  | .localBroadcast => Json.arr #["lb"]
  | .remoteStation n m => Json.arr #["rs", Json.num n, jHex m]
  | .remoteBroadcast n => Json.arr #["rb", Json.num n]
  | .global => Json.arr #["gb"]
  | .null => Json.arr #["null"]

def npciOf (j : Json) : R Npci := do
  let dadr ← match optOf j "dadr" with
    | none => pure none
    | some v => do pure (some (← dadrOf v))
  let sadr ← match optOf j "sadr" with
    | none => pure none
    | some v => do
        let a ← v.getArr?
        pure (some ((← a[0]!.getNat?), (← hexOf a[1]!)))
  pure { dadr := dadr, sadr := sadr,
         hop := (← optNat j "hop").getD 0,
         msg := ← optNat j "msg",
         vendor := ← optNat j "vendor",
         er := (← fldBool j "er"),
         prio := (← fldNat j "prio"),
         data := (← fldHex j "data") }

def jNpci (p : Npci) : Json :=
  Json.mkObj [
    ("dadr", match p.dadr with | none => Json.null | some d => jDadr d),
    ("sadr", match p.sadr with | none => Json.null | some (n, m) => Json.arr #[Json.num n, jHex m]),
    ("hop", if p.dadr.isSome then Json.num p.hop else Json.null),
    ("msg", jOptNat p.msg),
    ("vendor", jOptNat p.vendor),
    ("er", Json.bool p.er),
    ("prio", Json.num p.prio),
    ("data", jHex p.data)]

def adapterOf (j : Json) : R Adapter := do
  pure { aid := ← fldNat j "aid", net := ← optNat j "net", addr := ← optHex j "addr",
         conf := ← optNat j "conf", lan := fldNatD j "lan" 0,
         mac := (← optHex j "mac").getD [] }

def jAdapter (a : Adapter) : Json :=
  Json.arr #[Json.num a.aid, jOptNat a.net, jOptHex a.addr, jOptNat a.conf]

def cacheOf (j : Json) : R Cache := do
  match optOf j "cache" with
  | none => pure []
  | some v => do
    let es ← v.getArr?
    es.toList.mapM fun e => do
      let a ← e.getArr?
      let sn ← match a[0]! with
        | Json.null => pure none
        | v => do pure (some (← v.getNat?))
      pure ((sn, ← a[1]!.getNat?), ← hexOf a[2]!)

def jCache (c : Cache) : Json :=
  Json.arr (c.map fun e => Json.arr #[jOptNat e.1.1, Json.num e.1.2, jHex e.2]).toArray

def nodeOf (j : Json) : R Node := do
  let ads ← (← fldArr j "adapters").toList.mapM adapterOf
  pure { adapters := ads, localAid := fldNatD j "local" 0, hasApp := ← fldBool j "app" }

def stOf (j : Json) : R St := do
  pure { node := ← nodeOf j, cache := ← cacheOf j }

def jUp (u : Up) : List (String × Json) :=
  [("src", jAddr u.src), ("dst", match u.dst with | none => Json.null | some d => jAddr d),
   ("er", Json.bool u.er), ("prio", Json.num u.prio), ("data", jHex u.data)]

def jOut : Out → Json
  | .send a l p => Json.mkObj [("k", "send"), ("aid", Json.num a.aid), ("dst", jLink l), ("npci", jNpci p)]
  | .up u => Json.mkObj (("k", "up") :: jUp u)
  | .raised k => Json.mkObj [("k", "raised"), ("e", k.name)]

def jDigest (s : St) : Json :=
  Json.mkObj [
    ("adapters", Json.arr (s.node.adapters.map jAdapter).toArray),
    ("local", Json.num s.node.localAid),
    ("pending", Json.arr (s.pending.map fun e =>
        Json.arr #[Json.num e.1, Json.arr (e.2.map jNpci).toArray]).toArray),
    ("cache", jCache s.cache),
    ("nni", Json.arr #[jOptNat s.nniTask, Json.bool s.nniArmed])]

def reply (s : St) (outs : List Out) (br : String) : Json :=
  Json.mkObj [("out", Json.arr (outs.map jOut).toArray), ("digest", jDigest s), ("br", br)]

/-- branch signature of a received frame, from the pure decision -/
def brOf (s : St) (arr : Adapter) (src : Mac) (dst : Link) (p : Npci) : String :=
  let d := route s.node s.cache arr src dst p
  let kind := match p.dadr with | none => "-" | some (.rs ..) => "rs" | some (.rb _) => "rb" | some .gb => "gb"
  let nsend := d.sends.length
  s!"recv/{kind}/sadr={p.sadr.isSome}/msg={p.msg}/drop={d.dropped}/up={d.up.isSome}/nse={d.toNse}/out={min nsend 2}/n={min s.node.adapters.length 3}"

def jDelivery (d : Delivery) : Json :=
  Json.mkObj (("lan", Json.num d.lan) :: ("mac", jHex d.mac) :: jUp d.up)

def packetOf (j : Json) : R Packet := do
  pure { lan := ← fldNat j "lan", src := ← fldHex j "src", dst := ← linkOf j "dst",
         npci := ← npciOf (← fld j "npci") }

def tnodeOf (j : Json) : R TNode := do
  pure { node := ← nodeOf j, cache := ← cacheOf j }

def handle (s : St) (j : Json) : R (St × Json) := do
  match ← fldStr j "op" with
  | "reset" =>
      let s' ← stOf j
      pure (s', reply s' [] "reset")
  | "known" =>
      pure (s, Json.mkObj [("r", "ok"), ("types", Json.arr (knownTypes.map (fun (n : Nat) => (Json.num n : Json))).toArray)])
  | "recv" =>
      let aid ← fldNat j "aid"
      match s.adapter aid with
      | none => throw s!"no adapter {aid}"
      | some arr =>
        let src ← fldHex j "src"
        let dst ← linkOf j "dst"
        let p ← npciOf (← fld j "npci")
        let (s', o) := recv s arr src dst p
        pure (s', reply s' o (brOf s arr src dst p))
  | "send" =>
      let dest ← addrOf (← fld j "dest")
      let (s', o) := originate s dest (← fldBool j "er") (← fldNat j "prio") (← fldHex j "data")
      let kind := match dest with
        | .localStation _ => "ls" | .localBroadcast => "lb" | .remoteStation .. => "rs"
        | .remoteBroadcast _ => "rb" | .global => "gb" | .null => "null"
      pure (s', reply s' o s!"send/{kind}/out={min o.length 2}/pend={min s'.pending.length 2}/n={min s.node.adapters.length 3}")
  | "startup" => pure (s, reply s (startup s) "startup")
  | "ask_nn" => pure (s, reply s (askNetworkNumber s) "ask_nn")
  | "announce_nn" => pure (s, reply s (announceNetworkNumber s) "announce_nn")
  | "fire" =>
      let (s', o) := fireNni s
      pure (s', reply s' o "fire")
  | "deliver" =>
      -- global simulator: static topology, one or more frames in flight
      let topo ← (← fldArr j "topo").toList.mapM tnodeOf
      let pk ← (← fldArr j "packets").toList.mapM packetOf
      let ds := pk.flatMap (deliverAll topo)
      pure (s, Json.mkObj [("r", "ok"), ("deliveries", Json.arr (ds.map jDelivery).toArray)])
  | "deliver_from" =>
      -- originate at node `from`, then the global simulator on every frame it emits
      let topo ← (← fldArr j "topo").toList.mapM tnodeOf
      let i ← fldNat j "from"
      match topo[i]? with
      | none => throw "no such node"
      | some t =>
        let dest ← addrOf (← fld j "dest")
        let (s', o) := originate { node := t.node, cache := t.cache } dest (← fldBool j "er") (← fldNat j "prio") (← fldHex j "data")
        let ds := (originPackets o).flatMap (deliverAll topo)
        pure (s, Json.mkObj [("r", "ok"), ("deliveries", Json.arr (ds.map jDelivery).toArray),
                             ("parked", Json.num s'.pending.length),
                             ("out", Json.arr (o.map jOut).toArray)])
  | "run_world" =>
      -- STATEFUL global simulator: originate at node `from`, then process frames FIFO
      let topo ← (← fldArr j "topo").toList.mapM tnodeOf
      let i ← fldNat j "from"
      let fuel ← fldNat j "fuel"
      let w0 : World := topo.map (fun t => { node := t.node, cache := t.cache })
      match w0[i]? with
      | none => throw "no such node"
      | some st =>
        let dest ← addrOf (← fld j "dest")
        let (st', o) := originate st dest (← fldBool j "er") (← fldNat j "prio") (← fldHex j "data")
        let w1 := w0.set i st'
        -- iterate `runWorld 1`, recording the frame processed at each step
        let rec go (n : Nat) (w : World) (q : List Packet) (d : List Delivery) (seen : List Packet) :
            World × List Packet × List Delivery × List Packet :=
          match n, q with
          | 0, _ => (w, q, d, seen)
          | _, [] => (w, q, d, seen)
          | n + 1, f :: _ =>
            let r := runWorld 1 w q d
            go n r.1 r.2.1 r.2.2 (f :: seen)
        let (w2, q2, d2, seen) := go fuel w1 (originPackets o) [] []
        let jPacket (f : Packet) : Json :=
          Json.mkObj [("lan", Json.num f.lan), ("src", jHex f.src), ("dst", jLink f.dst), ("npci", jNpci f.npci)]
        pure (s, Json.mkObj [("r", "ok"),
          ("deliveries", Json.arr (d2.map jDelivery).toArray),
          ("frames", Json.arr (seen.reverse.map jPacket).toArray),
          ("left", Json.num q2.length),
          ("caches", Json.arr (w2.map (fun x => jCache x.cache)).toArray),
          ("pending", Json.arr (w2.map (fun x => (Json.num x.pending.length : Json))).toArray)])
  | op => throw s!"unknown op {op}"

def main : IO Unit := loopS (default : St) handle
