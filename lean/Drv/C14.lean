/- driver stub for C14: replaced when the model exists -/
def main : IO Unit := pure ()
