/- driver for C14: the scheduler model (Model.Task) in lockstep with the real
   TaskManager / core.run / core.run_once.

   request                                         meaning
   {"op":"reset","tpu":k,"tasks":[{"rec":b,"raises":b,"defers":[fn…]}…]}
                                                   fresh world; k ticks per µs (jitter = k ticks)
   {"op":"at","t":i,"when":n}                      task i .install_task(when=n)
   {"op":"after","t":i,"d":n}                      .install_task(delta=n)
   {"op":"bare","t":i}                             .install_task()
   {"op":"rec","t":i,"iv":n|null,"off":n|null}     recurring .install_task(interval, offset)
   {"op":"suspend","t":i} {"op":"resume","t":i}
   {"op":"defer","f":fn}                           core.deferred(fn)
   {"op":"tick","d":n}                             clock += n
   {"op":"next"}                                   one get_next_task + process_task
   {"op":"once","d":n}                             clock += n; core.run_once()
   {"op":"run","d":n,"fuel":m}                     core.run() until now + n
   {"op":"jump","fuel":m}                          core.run() until the armed deadline
   {"op":"mk"}                                     TaskManager()
   reset with "premgr":true starts WITHOUT a task manager: at / after / bare / rec / suspend /
   resume / defer / tick act on task._unscheduled_tasks (model `Pre`) until "mk" — or the first
   "once" — creates the manager and replays the list
   fn = {"id":n,"r":bool,"k":[fn…],"a":[act…]}     ("a" optional; tasks may carry "a" too)
   act = ["at",tid,t] | ["after",tid,d] | ["suspend",tid] | ["stop"] | ["pump"] | ["pump",fuel]
   any request but reset may carry "from":k (restore snapshot k before the
   operation) and "to":k (save the state after the operation as snapshot k)
   All times in requests are ticks; all times in replies are µs (rounded to
   nearest, which is exact for tpu = 1).
-/
import BacVerif.Drv.Common
import BacVerif.Model.Task
open Lean BacVerif.Drv BacVerif.Task

/-- nested `run_once()` calls are modelled four levels deep -/
instance : Pump := ⟨pumpAt 4⟩

structure St where
  w : World := {}
  n : Nat := 0        -- number of tasks (for the digest)
  tpu : Nat := 1
  slots : Array World := #[]   -- snapshots for the depth-first enumeration of histories
  unsched : Option (List Nat) := none   -- some l: no task manager exists yet, l = _unscheduled_tasks

/-- ["at",tid,t] | ["after",tid,d] | ["suspend",tid] | ["stop"] -/
def actOfJson (j : Json) : R Act := do
  let a ← j.getArr?
  match (← (a[0]?.getD Json.null).getStr?) with
  | "at" => pure (Act.installAt (← (a[1]?.getD Json.null).getNat?) (← (a[2]?.getD Json.null).getNat?))
  | "after" => pure (Act.installAfter (← (a[1]?.getD Json.null).getNat?) (← (a[2]?.getD Json.null).getNat?))
  | "suspend" => pure (Act.suspend (← (a[1]?.getD Json.null).getNat?))
  | "stop" => pure Act.stop
  | "pump" => pure (Act.pump ((a[1]?.getD Json.null).getNat?.toOption.getD 200))
  | o => throw s!"unknown act {o}"

/-- optional field "a": list of acts -/
def actsOfJson (j : Json) : R (List Act) :=
  match fldOpt j "a" with
  | none => pure []
  | some v => do (← v.getArr?).toList.mapM actOfJson

partial def fnOfJson (j : Json) : R Fn := do
  let kids ← (← fldArr j "k").toList.mapM fnOfJson
  pure (Fn.mk (← fldNat j "id") (← fldBool j "r") kids (← actsOfJson j))

def us (tpu t : Nat) : Nat := (2 * t + tpu) / (2 * tpu)

def jEv (tpu : Nat) : Ev → Json
  | .fire tid now due _ => Json.arr #["fire", Json.num tid, Json.num (us tpu now), Json.num (us tpu due)]
  | .call id => Json.arr #["call", Json.num id]
  | .taskErr tid => Json.arr #["terr", Json.num tid]
  | .fnErr id => Json.arr #["ferr", Json.num id]
  | .raised k => Json.arr #["raised", Json.str k.name]
  | .act (.installAt tid t) now due => Json.arr #["act", "at", Json.num tid, Json.num (us tpu t), Json.num (us tpu now), jNatOpt (due.map (us tpu))]
  | .act (.installAfter tid d) now due => Json.arr #["act", "after", Json.num tid, Json.num (us tpu d), Json.num (us tpu now), jNatOpt (due.map (us tpu))]
  | .act (.suspend tid) now _ => Json.arr #["act", "suspend", Json.num tid, Json.num (us tpu now)]
  | .act .stop now _ => Json.arr #["act", "stop", Json.num (us tpu now)]
  | .act (.pump _) now _ => Json.arr #["act", "pump", Json.num (us tpu now)]

/-- entries sorted by (time, seq): repeated popMin -/
def sortedEntries : Nat → List Entry → List Entry
  | 0, _ => []
  | fuel + 1, h =>
    match popMin h with
    | none => []
    | some (e, rest) => e :: sortedEntries fuel rest

def digest (s : St) : Json :=
  let tm := s.w.tm
  let ids := List.range s.n
  Json.mkObj [
    ("heap", Json.arr ((sortedEntries tm.heap.length tm.heap).map fun e =>
        Json.arr #[Json.num (us s.tpu e.time), Json.num e.seq, Json.num e.tid]).toArray),
    ("flags", Json.arr (ids.map fun i => Json.bool (tm.flag i)).toArray),
    ("ttime", Json.arr (ids.map fun i => jNatOpt ((tm.ttime i).map (us s.tpu))).toArray),
    ("unsched", match s.unsched with
        | none => Json.null
        | some l => Json.arr (l.map fun (i : Nat) => Json.num (i : JsonNumber)).toArray),
    ("trig", Json.bool tm.trig),
    ("running", Json.bool s.w.running),
    ("queue", Json.arr (s.w.queue.map fun f => Json.num f.id).toArray)]

def reply (s : St) (aux : Option Nat) : St × Json :=
  let j := Json.mkObj [
    ("r", "ok"),
    ("out", Json.arr (s.w.out.map (jEv s.tpu)).toArray),
    ("now", Json.num (us s.tpu s.w.now)),
    ("deadline", jNatOpt (s.w.tm.deadline.map (us s.tpu))),
    ("aux", jNatOpt aux),
    ("digest", digest s)]
  ({ s with w := { s.w with out := [] } }, j)

def optNat (j : Json) (k : String) : R (Option Nat) := fldOptNat j k

def handle (s : St) (j : Json) : R (St × Json) := do
  let op ← fldStr j "op"
  if op == "reset" then
    let tpu := fldNatD j "tpu" 1
    let ts ← fldArr j "tasks"
    let specs ← ts.toList.mapM fun t => do
      let defers ← (← fldArr t "defers").toList.mapM fnOfJson
      pure ((← fldBool t "rec"), ({ raises := (← fldBool t "raises"), defers := defers, acts := (← actsOfJson t) } : Body))
    let w : World := {
      tm := { jitter := tpu },
      recurring := fun i => match specs[i]? with | some (r, _) => r | none => false,
      body := fun i => match specs[i]? with | some (_, b) => b | none => {} }
    let pre := match fldOpt j "premgr" with
      | some (Json.bool true) => some []
      | _ => none
    return ({ w := w, n := specs.length, tpu := tpu, unsched := pre }, Json.mkObj [("r", "ok")])
  let tid : R Nat := do
    let t ← fldNat j "t"
    if t < s.n then pure t else throw "no such task"
  -- before the manager exists
  if let some us := s.unsched then
    let pre : Pre := { w := s.w, unsched := us }
    let pop : Option PreOp ← match op with
      | "at" => do pure (some (PreOp.installAt (← tid) (← fldNat j "when")))
      | "after" => do pure (some (PreOp.installAfter (← tid) (← fldNat j "d")))
      | "bare" => do pure (some (PreOp.installBare (← tid)))
      | "rec" => do pure (some (PreOp.installRec (← tid) (← optNat j "iv") (← optNat j "off")))
      | "suspend" => do pure (some (PreOp.suspend (← tid)))
      | "resume" => do pure (some (PreOp.resume (← tid)))
      | "defer" => do pure (some (PreOp.defer (← fnOfJson (← fld j "f"))))
      | "tick" => do pure (some (PreOp.tick (← fldNat j "d")))
      | "mk" => pure none
      | "once" => pure none
      | o => throw s!"{o} before the task manager exists"
    match pop with
    | some po =>
      let p' := pre.step po
      return reply { s with w := p'.w, unsched := some p'.unsched } none
    | none =>
      -- TaskManager() — explicitly, or by the first core.run_once() (the clock has moved by then)
      if op == "mk" then
        return reply { s with w := pre.mkManager, unsched := none } none
      else
        let w := (pre.step (PreOp.tick (← fldNat j "d"))).mkManager
        let (w', aux) := w.step (Op.advOnce 0 (fldNatD j "fuel" 1000))
        return reply { s with w := w', unsched := none } aux
  if op == "mk" then
    -- TaskManager() once it exists returns the singleton
    return reply s none
  let mop : Op ← match op with
    | "at" => do
        let t ← tid
        if s.w.recurring t then throw "install_task(when) on a recurring task"
        pure (Op.installAt t (← fldNat j "when"))
    | "after" => do
        let t ← tid
        if s.w.recurring t then throw "install_task(delta) on a recurring task"
        pure (Op.installAfter t (← fldNat j "d"))
    | "bare" => do
        let t ← tid
        if s.w.recurring t then throw "use rec"
        pure (Op.installBare t)
    | "rec" => do
        let t ← tid
        if !s.w.recurring t then throw "rec on a one-shot task"
        pure (Op.installRec t (← optNat j "iv") (← optNat j "off"))
    | "suspend" => do pure (Op.suspend (← tid))
    | "resume" => do pure (Op.resume (← tid))
    | "defer" => do pure (Op.defer (← fnOfJson (← fld j "f")))
    | "tick" => do pure (Op.tick (← fldNat j "d"))
    | "next" => pure Op.next
    | "once" => do pure (Op.advOnce (← fldNat j "d") (fldNatD j "fuel" 1000))
    | "run" => do pure (Op.advRun (← fldNat j "d") (← fldNat j "fuel"))
    | "jump" => do pure (Op.jumpRun (← fldNat j "fuel"))
    | o => throw s!"unknown op {o}"
  -- optional "from": restore snapshot k first; optional "to": save the result as snapshot k
  let s ← match fldOpt j "from" with
    | none => pure s
    | some v => do
        let k ← v.getNat?
        match s.slots[k]? with
        | some w => pure { s with w := w }
        | none => throw "no such snapshot"
  let (w', aux) := s.w.step mop
  -- `delta` of `next` is a duration in ticks
  let aux := match mop with
    | .next => aux.map (us s.tpu)
    | _ => aux
  let (s, out) := reply { s with w := w' } aux
  let s ← match fldOpt j "to" with
    | none => pure s
    | some v => do
        let k ← v.getNat?
        let slots := if k < s.slots.size then s.slots.set! k s.w else (s.slots ++ Array.replicate (k - s.slots.size) s.w).push s.w
        pure { s with slots := slots }
  pure (s, out)

def main : IO Unit := loopS ({} : St) handle
