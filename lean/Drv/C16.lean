/- driver stub for C16: replaced when the model exists -/
def main : IO Unit := pure ()
