/- driver for C16: change-of-value reporting (stateful, one scenario after each "reset") -/
import BacVerif.Drv.Common
import BacVerif.Model.Cov
open Lean BacVerif BacVerif.Drv BacVerif.Cov

def jInt (i : Int) : Json := toJson i
def jIntOpt : Option Int → Json
  | none => Json.null
  | some i => jInt i

def fldOptBool (j : Json) (k : String) : R (Option Bool) :=
  match fldOpt j k with
  | none => pure none
  | some v => do pure (some (← v.getBool?))

def jOut : Out → Json
  | .ack a => Json.arr #["ack", a]
  | .error a .unknownObject => Json.arr #["err", a, "object", "unknownObject"]
  | .error a .covSubscriptionFailed => Json.arr #["err", a, "services", "covSubscriptionFailed"]
  | .notify a p o c pv fl r => Json.arr #["ntf", a, p, o, c, jInt pv, fl, jInt r]
  | .raised => Json.arr #["raised"]

def jSub (c : Sub) : Json :=
  Json.arr #[c.addr, c.pid, c.confirmed, c.lifetime,
             match c.due with | some (t, _) => Json.num t | none => Json.null]

def jDet : Option Det → Json
  | none => Json.null
  | some d => Json.mkObj [
      ("subs", Json.arr (d.subs.map jSub).toArray),
      ("trig", d.triggered),
      ("prev", jIntOpt d.prev),
      ("ptask", match d.ptask with | some (t, _) => Json.num t | none => Json.null)]

def jObj (ob : Obj) : Json :=
  Json.mkObj [("id", ob.id), ("pv", jInt ob.pv), ("fl", ob.flags), ("inc", jInt ob.inc), ("det", jDet ob.det)]

/-- canonical rendering of a deferred entry: is its detection object still the
    registered one, and (initial) is its subscription still listed -/
def jDeferred (s : State) : Deferred → Json
  | .exec o g =>
    let live := match findObj s o with
      | some ob => (match ob.det with | some d => d.gen == g | none => false)
      | none => false
    Json.arr #["exec", o, live]
  | .initial o g sid =>
    let d? := match findObj s o with
      | some ob => (match ob.det with | some d => if d.gen == g then some d else none | none => none)
      | none => none
    match d? with
    | none => Json.arr #["init", o, false, Json.null, Json.null]
    | some d =>
      match d.subs.find? (fun c => c.sid == sid) with
      | some c => Json.arr #["init", o, true, c.addr, c.pid]
      | none => Json.arr #["init", o, true, Json.null, Json.null]

def digest (s : State) : Json :=
  Json.mkObj [("objs", Json.arr (s.objs.map jObj).toArray),
              ("dq", Json.arr (s.deferred.map (jDeferred s)).toArray)]

def reply (s : State) (outs : List Out) (br : String) : Json :=
  jOk [("out", Json.arr (outs.map jOut).toArray),
       ("now", s.now),
       ("deadline", jNatOpt (minTime (armedTasks s))),
       ("digest", digest s),
       ("br", br)]

def objOfJson (j : Json) : R Obj := do
  let id ← fldNat j "id"
  let ty ← fldStr j "type"
  match typeInfo ty with
  | .unknownType => throw s!"unknown object type {ty}"
  | .outOfScope => throw s!"criteria class of {ty} is outside the model"
  | .info cov crit =>
    pure { id := id, supportsCov := cov, crit := crit,
           pv := ← fldInt j "pv", flags := ← fldNat j "flags", inc := ← fldInt j "inc",
           period := ← fldNat j "period", det := none }

def nOuts (outs : List Out) : String :=
  let n := (outs.filter (fun o => match o with | .notify .. => true | _ => false)).length
  if n ≥ 3 then "3+" else toString n

def brSub (s : State) (a p o : Nat) (cancel : Bool) (outs : List Out) : String :=
  match outs with
  | [.error _ .unknownObject] => "sub:unknown-object"
  | [.error _ .covSubscriptionFailed] => "sub:not-supported"
  | _ =>
    let ob? := findObj s o
    let d? := ob?.bind (·.det)
    let found := match d? with | some d => (findSub d.subs a p).isSome | none => false
    let kind := match ob?.bind (·.crit) with
      | some c => if c.pulse then "pulse" else if c.incr then "incr" else "generic"
      | none => "?"
    let others := match d? with | some d => if d.subs.length ≥ 2 then "+" else toString d.subs.length | none => "nodet"
    s!"sub:{kind}:{if cancel then "cancel" else "sub"}:{if found then "existing" else "absent"}:{others}"

def brWrite (tag : String) (s s' : State) (o : Nat) : String :=
  match findObj s o with
  | none => s!"{tag}:no-object"
  | some ob =>
    match ob.det with
    | none => s!"{tag}:no-detection"
    | some d =>
      let kind := match ob.crit with
        | some c => if c.pulse then "pulse" else if c.incr then "incr" else "generic"
        | none => "?"
      if d.triggered then s!"{tag}:{kind}:already-triggered"
      else if s'.deferred.length > s.deferred.length then s!"{tag}:{kind}:trigger:{if d.prev.isSome then "prev" else "first"}"
      else s!"{tag}:{kind}:quiet:{if d.prev.isSome then "prev" else "first"}"

def handle (s : State) (j : Json) : R (State × Json) := do
  match ← fldStr j "op" with
  | "reset" =>
      let objs ← (← fldArr j "objs").toList.mapM objOfJson
      let s' := { init objs with now := fldNatD j "now" 0 }
      pure (s', reply s' [] "reset")
  | "sub" =>
      let a ← fldNat j "addr"; let p ← fldNat j "pid"; let o ← fldNat j "obj"
      let c ← fldOptBool j "conf"; let l ← fldOptNat j "life"
      let (s', outs) := apply s (.subscribe a p o c l)
      pure (s', reply s' outs (brSub s a p o (c.isNone && l.isNone) outs))
  | "wpv" =>
      let o ← fldNat j "obj"; let v ← fldInt j "v"
      let (s', outs) := apply s (.writePv o v)
      pure (s', reply s' outs (brWrite "wpv" s s' o))
  | "wfl" =>
      let o ← fldNat j "obj"; let v ← fldNat j "v"
      let (s', outs) := apply s (.writeFlags o v)
      pure (s', reply s' outs (brWrite "wfl" s s' o))
  | "winc" =>
      let o ← fldNat j "obj"; let v ← fldInt j "v"
      let (s', outs) := apply s (.writeInc o v)
      pure (s', reply s' outs (brWrite "winc" s s' o))
  | "run" =>
      let (s', outs) := apply s .run
      pure (s', reply s' outs s!"run:q{min s.deferred.length 3}:n{nOuts outs}")
  | "step" =>
      let dt ← fldNat j "dt"
      let (s', outs) := apply s (.step dt)
      let fired := (armedTasks (advance (run s).1 dt)).filter (fun k => k.t ≤ (advance (run s).1 dt).now)
      let kinds := fired.map (fun k => match k.ref with | .expiry .. => "x" | .periodic .. => "p")
      pure (s', reply s' outs s!"step:{String.join (kinds.take 3)}:n{nOuts outs}")
  | "read" =>
      let rows := activeList s
      let jr (r : Row) : Json := Json.arr #[r.addr, r.pid, r.obj, r.confirmed,
        (match r.remaining with | some i => jInt i | none => Json.str "raised"), jIntOpt r.inc]
      pure (s, jOk [("rows", Json.arr (rows.map jr).toArray), ("br", s!"read:{min rows.length 4}")])
  | op => throw s!"unknown op {op}"

def main : IO Unit := loopS (init []) handle
