/- driver stub for C20: replaced when the model exists -/
def main : IO Unit := pure ()
