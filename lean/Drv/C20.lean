/- driver for C20: schedule matchers, evaluation and the interpreter task -/
import BacVerif.Drv.Common
import BacVerif.Model.Schedule
import BacVerif.Lemmas.SchedSpec
open Lean BacVerif BacVerif.Drv BacVerif.Sched

def natList (j : Json) : R (List Nat) := do (← j.getArr?).toList.mapM (·.getNat?)

def dateOfJson (j : Json) : R Date := do
  match ← natList j with
  | [y, m, d, w] => pure ⟨y, m, d, w⟩
  | _ => throw "date: need 4 numbers"

def timeOfJson (j : Json) : R Time := do
  match ← natList j with
  | [h, mi, s, hs] => pure ⟨h, mi, s, hs⟩
  | _ => throw "time: need 4 numbers"

def jDate (d : Date) : Json := Json.arr #[d.y, d.m, d.d, d.w]
def jTime (t : Time) : Json := Json.arr #[t.h, t.mi, t.s, t.hs]
def sErr (e : SErr) : Json := Json.mkObj [("r", "err"), ("k", e.name)]

def valOfJson : Json → R Val
  | .null => pure .null
  | j => do pure (.v (← j.getNat?))

def tvOfJson (j : Json) : R TV := do
  let a ← j.getArr?
  if a.size ≠ 2 then throw "tv: need [time, value]"
  pure ⟨← timeOfJson a[0]!, ← valOfJson a[1]!⟩

def tvsOfJson (j : Json) : R (List TV) := do (← j.getArr?).toList.mapM tvOfJson

def entryOfJson (j : Json) : R CalEntry := do
  match ← fldStr j "k" with
  | "date" => pure (.date (← dateOfJson (← fld j "p")))
  | "range" => pure (.range (← dateOfJson (← fld j "s")) (← dateOfJson (← fld j "e")))
  | "wnd" =>
    match ← natList (← fld j "v") with
    | [a, b, c] => pure (.weekNDay a b c)
    | _ => throw "wnd: need 3 numbers"
  | "empty" => pure .empty
  | k => throw s!"entry kind {k}"

def periodOfJson (j : Json) : R Period := do
  match ← fldStr j "k" with
  | "entry" => pure (.entry (← entryOfJson (← fld j "e")))
  | "ref" =>
    match fldOpt j "l" with
    | none => pure (.ref none)
    | some l => pure (.ref (some (← (← l.getArr?).toList.mapM entryOfJson)))
  | "missing" => pure .missing
  | k => throw s!"period kind {k}"

def seOfJson (j : Json) : R SpecialEvent := do
  pure { period := ← periodOfJson (← fld j "p"), tvs := ← tvsOfJson (← fld j "tv"),
         prio := ← fldNat j "prio" }

def cfgOfJson (j : Json) : R Cfg := do
  let eff ← fldArr j "eff"
  if eff.size ≠ 2 then throw "eff: need 2 dates"
  let weekly ← match fldOpt j "weekly" with
    | none => pure none
    | some w => do pure (some (← (← w.getArr?).toList.mapM tvsOfJson))
  let exc ← match fldOpt j "exc" with
    | none => pure none
    | some x => do pure (some (← (← x.getArr?).toList.mapM seOfJson))
  let fault := match fldBool j "fault" with | .ok b => b | .error _ => false
  pure { effStart := ← dateOfJson eff[0]!, effEnd := ← dateOfJson eff[1]!,
         weekly := weekly, exc := exc, dflt := ← fldNat j "def", fault := fault }

def jBoolRes : Except SErr Bool → Json
  | .ok b => jOk [("v", b)]
  | .error e => sErr e

def jEval : Except SErr (Option (Nat × Time)) → Json
  | .error e => Json.mkObj [("err", e.name)]
  | .ok none => Json.null
  | .ok (some (v, n)) => Json.arr #[v, n.h, n.mi, n.s, n.hs]

/-- all days of year 1900+y by the model's own calendar -/
def daysOfYear (y : Nat) : List Date :=
  let first : Date := ⟨y, 1, 1, dowOf (dayNum y 1 1)⟩
  let rec go : Nat → Date → List Date
    | 0, _ => []
    | f + 1, d => if d.y = y then d :: go f (succDay d) else []
  go 400 first

def bitOf : Except SErr Bool → Char
  | .ok true => '1' | .ok false => '0' | .error _ => 'e'

def jStep (kind : String) (t : Nat) (r : IState × Option SErr) : Json :=
  Json.arr #[kind, t, r.1.pv, jNatOpt r.1.deadline,
    match r.2 with | none => Json.null | some e => Json.str e.name]

/-- timer firings interleaved with configuration writes; a firing due at the
    instant of a write runs first -/
abbrev Step := String × Nat × (IState × Option SErr)

def runMixed : Nat → Cfg → IState → List (Nat × Cfg) → Nat → List Step
  | 0, _, _, _, _ => []
  | fuel + 1, cfg, st, chg, until_ =>
    let fireAt : Option Nat := match st.deadline with
      | some w => if w ≤ until_ then some w else none
      | none => none
    match chg with
    | (tc, cfg') :: more =>
      match fireAt with
      | some w =>
        if w ≤ tc then
          let r := fire cfg st w
          ("fire", w, r) :: runMixed fuel cfg r.1 chg until_
        else
          let r := scheduleChanged cfg' st tc
          ("chg", tc, r) :: runMixed fuel cfg' r.1 more until_
      | none =>
        if tc ≤ until_ then
          let r := scheduleChanged cfg' st tc
          ("chg", tc, r) :: runMixed fuel cfg' r.1 more until_
        else []
    | [] =>
      match fireAt with
      | some w =>
        let r := fire cfg st w
        ("fire", w, r) :: runMixed fuel cfg r.1 [] until_
      | none => []

def runSteps (j : Json) : R (List Step) := do
  let cfg ← cfgOfJson (← fld j "cfg")
  let start ← fldNat j "start"
  let until_ ← fldNat j "until"
  let pv0 ← fldNat j "pv0"
  let chg ← (← fldArr j "changes").toList.mapM fun c => do
    let a ← c.getArr?
    if a.size ≠ 2 then throw "change: need [t, cfg]"
    pure ((← a[0]!.getNat?), (← cfgOfJson a[1]!))
  let r0 := processTask cfg { pv := pv0, deadline := none } start
  pure (("init", start, r0) :: runMixed (← fldNat j "fuel") cfg r0.1 chg until_)

def handle (j : Json) : R Json := do
  match ← fldStr j "op" with
  | "md" =>
      pure (jBoolRes (matchDate (← dateOfJson (← fld j "d")) (← dateOfJson (← fld j "p"))))
  | "entry" =>
      pure (jBoolRes (dateInEntry (← dateOfJson (← fld j "d")) (← entryOfJson (← fld j "e"))))
  | "year" =>    -- one calendar entry against every day of a year
      let y ← fldNat j "y"
      let e ← entryOfJson (← fld j "e")
      pure (jOk [("bits", String.ofList ((daysOfYear y).map fun d => bitOf (dateInEntry d e)))])
  | "yearspec" => -- the DECLARATIVE meaning of the entry (Lemmas/SchedSpec) for every day of a year
      let y ← fldNat j "y"
      let e ← entryOfJson (← fld j "e")
      let days := daysOfYear y
      let bits := if decide (WFEntry e) then
          days.map fun d => if decide (ValidTuple d) then (if decide (DenotesEntry e d) then '1' else '0') else 'v'
        else days.map fun _ => '-'
      pure (jOk [("bits", String.ofList bits)])
  | "specday" => -- the DECLARATIVE value (specValue) and the theorems' hypotheses for this input
      let cfg ← cfgOfJson (← fld j "cfg")
      let d ← dateOfJson (← fld j "d")
      let ts ← (← fldArr j "times").toList.mapM timeOfJson
      let hyp := decide (ValidCfg cfg) && decide (SortedCfg cfg) && decide (ProperCfg cfg) &&
        decide (ValidTuple d)
      pure (jOk [("hyp", hyp), ("res", Json.arr (ts.map fun t =>
        match specValue cfg d t with
        | none => Json.str "out"
        | some v => Json.num v).toArray)])
  | "cal" =>     -- the model's calendar of a year
      let y ← fldNat j "y"
      pure (jOk [("first", dayNum y 1 1), ("leap", isLeap y),
                 ("days", Json.arr ((daysOfYear y).map fun d => Json.arr #[d.m, d.d, d.w]).toArray)])
  | "now" =>     -- Date.now / Time.now
      let t ← fldNat j "t"
      pure (jOk [("d", jDate (dateOf t)), ("t", jTime (timeOf t))])
  | "dt" =>      -- datetime_to_time
      match datetimeToTime (← dateOfJson (← fld j "d")) (← timeOfJson (← fld j "t")) with
      | .ok w => pure (jOk [("v", w)])
      | .error e => pure (sErr e)
  | "evalday" => -- eval at many times of one day
      let cfg ← cfgOfJson (← fld j "cfg")
      let d ← dateOfJson (← fld j "d")
      let ts ← (← fldArr j "times").toList.mapM timeOfJson
      pure (jOk [("res", Json.arr (ts.map fun t => jEval (evalSchedule cfg d t)).toArray)])
  | "run" =>     -- created at `start` (deferred process_task), then timer/writes until `until`
      let steps ← runSteps j
      pure (jOk [("steps", Json.arr (steps.map fun (k, t, r) => jStep k t r).toArray)])
  | "pvat" =>    -- the same run, reported as the present value at the given (ascending) instants
      let steps ← runSteps j
      let probes ← natList (← fld j "probes")
      let pv0 ← fldNat j "pv0"
      let pvAt (x : Nat) : Nat :=
        steps.foldl (fun acc (_, t, r) => if t ≤ x then r.1.pv else acc) pv0
      pure (jOk [("pv", Json.arr (probes.map fun x => Json.num (pvAt x)).toArray)])
  | op => throw s!"unknown op {op}"

def main : IO Unit := loop handle
