/- driver for C08: network layer headers and messages (Model.Npci)

   ops  enc  {h, data}   NPDU.encode            → {hex, ctl}
        dec  {hex}       NPDU.decode            → {h, data}
        hdec {hex}       NPCI.decode (header only) → {h, rest}
        menc {h, m}      msg.encode + NPDU.encode → {hex}
        mdec {hex}       NPDU.decode + npdu_types dispatch + msg.decode → {kind, h, m|data}
        benc {m}         message body only      → {hex}
        bdec {code, hex} message body only      → {m}
   address  null | ["rs",net,hex] | ["rb",net] | ["gb"] | ["ls",hex] | ["lb"] | ["null"]
   message  [code, params…]  (code = messageType)
-/
import BacVerif.Drv.Common
import BacVerif.Model.Npci
open Lean BacVerif BacVerif.Drv BacVerif.Npci

def jAddr : Addr → Json
  | .null => Json.arr #["null"]
  | .localBroadcast => Json.arr #["lb"]
  | .localStation mac => Json.arr #["ls", jHex mac]
  | .remoteBroadcast net => Json.arr #["rb", Json.num net]
  | .remoteStation net mac => Json.arr #["rs", Json.num net, jHex mac]
  | .globalBroadcast => Json.arr #["gb"]

def jAddrOpt : Option Addr → Json
  | none => Json.null
  | some a => jAddr a

def hexOf (j : Json) : R Bytes := do
  match ofHex? (← j.getStr?) with
  | some b => pure b
  | none => throw "bad hex"

def addrOfJson (j : Json) : R Addr := do
  let a ← j.getArr?
  if a.size = 0 then throw "addr: empty"
  match ← a[0]!.getStr? with
  | "null" => pure .null
  | "lb" => pure .localBroadcast
  | "gb" => pure .globalBroadcast
  | "ls" => pure (.localStation (← hexOf a[1]!))
  | "rb" => pure (.remoteBroadcast (← a[1]!.getNat?))
  | "rs" => pure (.remoteStation (← a[1]!.getNat?) (← hexOf a[2]!))
  | k => throw s!"addr: bad kind {k}"

def addrOptOfJson (j : Json) (k : String) : R (Option Addr) :=
  match fldOpt j k with
  | none => pure none
  | some v => do pure (some (← addrOfJson v))

def npciOfJson (j : Json) : R Npci := do
  pure { version := fldNatD j "ver" 1, control := 0,
         expectingReply := (← fldBool j "er"), priority := (← fldNat j "pri"),
         dadr := (← addrOptOfJson j "dadr"), sadr := (← addrOptOfJson j "sadr"),
         hopCount := (← fldOptNat j "hop"), netMessage := (← fldOptNat j "msg"),
         vendorId := (← fldOptNat j "vid") }

def jNpci (h : Npci) : Json :=
  Json.mkObj [("ver", Json.num h.version), ("ctl", Json.num h.control),
    ("er", Json.bool h.expectingReply), ("pri", Json.num h.priority),
    ("dadr", jAddrOpt h.dadr), ("sadr", jAddrOpt h.sadr),
    ("hop", jNatOpt h.hopCount), ("msg", jNatOpt h.netMessage), ("vid", jNatOpt h.vendorId)]

def jNats (ns : List Nat) : Json := Json.arr (ns.map fun (n : Nat) => (Json.num n : Json)).toArray

def jRtes (es : List Rte) : Json :=
  Json.arr (es.map fun e => Json.arr #[Json.num e.dnet, Json.num e.portId, jHex e.portInfo]).toArray

def jMsg (m : NetMsg) : Json :=
  let c : Json := Json.num m.kind.code
  match m with
  | .whoIsRouterToNetwork n => Json.arr #[c, jNatOpt n]
  | .iAmRouterToNetwork ns => Json.arr #[c, jNats ns]
  | .iCouldBeRouterToNetwork a b => Json.arr #[c, Json.num a, Json.num b]
  | .rejectMessageToNetwork a b => Json.arr #[c, Json.num a, Json.num b]
  | .routerBusyToNetwork ns => Json.arr #[c, jNats ns]
  | .routerAvailableToNetwork ns => Json.arr #[c, jNats ns]
  | .initializeRoutingTable t => Json.arr #[c, jRtes t]
  | .initializeRoutingTableAck t => Json.arr #[c, jRtes t]
  | .establishConnectionToNetwork a b => Json.arr #[c, Json.num a, Json.num b]
  | .disconnectConnectionToNetwork a => Json.arr #[c, Json.num a]
  | .whatIsNetworkNumber => Json.arr #[c]
  | .networkNumberIs a b => Json.arr #[c, Json.num a, Json.num b]

def natsOfJson (j : Json) : R (List Nat) := do (← j.getArr?).toList.mapM (·.getNat?)

def rtesOfJson (j : Json) : R (List Rte) := do
  (← j.getArr?).toList.mapM fun e => do
    let a ← e.getArr?
    if a.size ≠ 3 then throw "rte: need 3 items"
    pure { dnet := ← a[0]!.getNat?, portId := ← a[1]!.getNat?, portInfo := ← hexOf a[2]! }

def msgOfJson (j : Json) : R NetMsg := do
  let a ← j.getArr?
  if a.size = 0 then throw "msg: empty"
  let need (n : Nat) : R Unit := if a.size = n then pure () else throw "msg: wrong arity"
  match kindOfCode (← a[0]!.getNat?) with
  | none => throw "msg: unregistered code"
  | some .whoIsRouterToNetwork => do
      need 2
      match a[1]! with
      | Json.null => pure (.whoIsRouterToNetwork none)
      | v => pure (.whoIsRouterToNetwork (some (← v.getNat?)))
  | some .iAmRouterToNetwork => do need 2; pure (.iAmRouterToNetwork (← natsOfJson a[1]!))
  | some .iCouldBeRouterToNetwork => do
      need 3; pure (.iCouldBeRouterToNetwork (← a[1]!.getNat?) (← a[2]!.getNat?))
  | some .rejectMessageToNetwork => do
      need 3; pure (.rejectMessageToNetwork (← a[1]!.getNat?) (← a[2]!.getNat?))
  | some .routerBusyToNetwork => do need 2; pure (.routerBusyToNetwork (← natsOfJson a[1]!))
  | some .routerAvailableToNetwork => do need 2; pure (.routerAvailableToNetwork (← natsOfJson a[1]!))
  | some .initializeRoutingTable => do need 2; pure (.initializeRoutingTable (← rtesOfJson a[1]!))
  | some .initializeRoutingTableAck => do need 2; pure (.initializeRoutingTableAck (← rtesOfJson a[1]!))
  | some .establishConnectionToNetwork => do
      need 3; pure (.establishConnectionToNetwork (← a[1]!.getNat?) (← a[2]!.getNat?))
  | some .disconnectConnectionToNetwork => do need 2; pure (.disconnectConnectionToNetwork (← a[1]!.getNat?))
  | some .whatIsNetworkNumber => do need 1; pure .whatIsNetworkNumber
  | some .networkNumberIs => do
      need 3; pure (.networkNumberIs (← a[1]!.getNat?) (← a[2]!.getNat?))

def handle (j : Json) : R Json := do
  match ← fldStr j "op" with
  | "enc" =>
      let h ← npciOfJson (← fld j "h")
      let data ← fldHex j "data"
      match encodeNpdu h data with
      | .error e => pure (jErr e)
      | .ok bs => pure (jOk [("hex", jHex bs), ("ctl", Json.num (controlOctet h))])
  | "dec" =>
      let bs ← fldHex j "hex"
      match decodeNpdu bs with
      | .error e => pure (jErr e)
      | .ok (h, data) => pure (jOk [("h", jNpci h), ("data", jHex data)])
  | "hdec" =>  -- NPCI.decode alone (the bare header entry point): fields + the octets left in the PDU
      let bs ← fldHex j "hex"
      match decodeNpci bs with
      | .error e => pure (jErr e)
      | .ok (h, rest) => pure (jOk [("h", jNpci h), ("rest", jHex rest)])
  | "menc" =>
      let h ← npciOfJson (← fld j "h")
      let m ← msgOfJson (← fld j "m")
      match encodeMessage h m with
      | .error e => pure (jErr e)
      | .ok bs => pure (jOk [("hex", jHex bs)])
  | "mdec" =>
      let bs ← fldHex j "hex"
      match decodeMessage bs with
      | .error e => pure (jErr e)
      | .ok (.apdu h data) => pure (jOk [("kind", "apdu"), ("h", jNpci h), ("data", jHex data)])
      | .ok (.unknownMessage h data) =>
          pure (jOk [("kind", "unknown"), ("h", jNpci h), ("data", jHex data)])
      | .ok (.message h m) => pure (jOk [("kind", "msg"), ("h", jNpci h), ("m", jMsg m)])
  | "benc" =>
      let m ← msgOfJson (← fld j "m")
      match encodeBody m with
      | .error e => pure (jErr e)
      | .ok bs => pure (jOk [("hex", jHex bs)])
  | "bdec" =>
      let bs ← fldHex j "hex"
      match kindOfCode (← fldNat j "code") with
      | none => pure (Json.mkObj [("r", "unregistered")])
      | some k =>
          match decodeBody k bs with
          | .error e => pure (jErr e)
          | .ok m => pure (jOk [("m", jMsg m)])
  | op => throw s!"unknown op {op}"

def main : IO Unit := loop handle
