/- driver stub for C08: replaced when the model exists -/
def main : IO Unit := pure ()
