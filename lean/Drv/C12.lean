/- driver for C12: lockstep model of the transaction state machines (shared with C11) -/
import BacVerif.Drv.TsmDrv
def main : IO Unit := BacVerif.Drv.tsmMain
