/- driver stub for C12: replaced when the model exists -/
def main : IO Unit := pure ()
