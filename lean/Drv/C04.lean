/-
  driver for C04: the lockstep model of the transaction state machines
  (every op of BacVerif.Drv.TsmDrv, shared with C11/C12) plus the IOCB layer
  model (BacVerif.Model.Iocb):

    {"op":"io_reset"}
    {"op":"io","e":"submit","dest":a,"prio":p,"unconf":b,"fails":b}
    {"op":"io","e":"abort","id":i,"tok":t}
    {"op":"io","e":"confirm","addr":a,"kind":"ack|err|other","tok":t}
    {"op":"io","e":"deferred"}
    {"op":"io","e":"arm","script":[{"o":"submit","dest":a,"prio":p,"unconf":b,"fails":b}|{"o":"abort","id":i,"tok":t},…]}
  reply
    {"r":"ok","out":[…],"io":[[st,ctrl,inq,resp,err],…],"q":[[addr,qid,busy,active,[[p,id],…]],…],
     "def":[qid,…],"scr":n,"br":"…"}
-/
import BacVerif.Drv.TsmDrv
import BacVerif.Model.Iocb
namespace BacVerif.Drv.C04
open Lean BacVerif BacVerif.Drv BacVerif.Iocb

def jOutIo : Iocb.Out → Json
  | .sent id => Json.mkObj [("o", "sent"), ("id", Json.num id)]
  | .callback id st resp err =>
    Json.mkObj [("o", "cb"), ("id", Json.num id), ("st", Json.num st.code),
                ("resp", jNatOpt resp), ("err", jNatOpt err)]
  | .raised .unrecognized => Json.mkObj [("o", "raised"), ("k", "unrecognized")]

def jIocb (io : Iocb) : Json :=
  Json.arr #[Json.num io.st.code, jNatOpt io.ctrl, jNatOpt io.inq, jNatOpt io.resp, jNatOpt io.err]

def jQ (aq : Addr × Q) : Json :=
  Json.arr #[Json.num aq.1, Json.num aq.2.qid, jB aq.2.busy, jNatOpt aq.2.active,
    Json.arr (aq.2.queue.map fun (p, i) => Json.arr #[Json.num p, Json.num i]).toArray]

def cbOpOfJson (j : Json) : R CbOp := do
  match ← fldStr j "o" with
  | "submit" => pure (.submit (← fldNat j "dest") (← fldNat j "prio") (fldB j "unconf") (fldB j "fails"))
  | "abort" => pure (.abort (← fldNat j "id") (← fldNat j "tok"))
  | o => throw s!"unknown callback operation {o}"

def evOfJson (j : Json) : R Ev := do
  match ← fldStr j "e" with
  | "submit" => pure (.submit (← fldNat j "dest") (← fldNat j "prio") (fldB j "unconf") (fldB j "fails"))
  | "abort" => pure (.abort (← fldNat j "id") (← fldNat j "tok"))
  | "confirm" =>
    let k ← match ← fldStr j "kind" with
      | "ack" => pure Conf.ack | "err" => pure Conf.err | "other" => pure Conf.other
      | k => throw s!"unknown confirmation kind {k}"
    pure (.confirm (← fldNat j "addr") k (← fldNat j "tok"))
  | "deferred" => pure .runDeferred
  | "arm" => pure (.arm (← (← fldArr j "script").toList.mapM cbOpOfJson))
  | e => throw s!"unknown io event {e}"

/-- coverage signature: event kind, what the addressed queue looked like, output kinds -/
def brIo (s : Iocb.St) (e : Ev) (outs : List Iocb.Out) : String :=
  let qs (a : Addr) : String :=
    match lookupQ s.queues a with
    | none => "-"
    | some q => s!"{if q.busy then "B" else "I"}{min q.queue.length 2}"
  let tag : String :=
    match e with
    | .submit d _ u f => s!"submit{if u then "u" else ""}{if f then "f" else ""}:{qs d}"
    | .abort id _ =>
      match s.iocbs[id]? with
      | some io => s!"abort:{io.st.code}:{qs io.dest}"
      | none => "abort:?"
    | .confirm a k _ => s!"confirm{match k with | .ack => "A" | .err => "E" | .other => "O"}:{qs a}"
    | .runDeferred =>
      match s.deferred with
      | [] => "deferred:none"
      | q :: _ =>
        match findQ s.queues q with
        | none => "deferred:dead"
        | some x => s!"deferred:{if x.busy then "B" else "I"}{min x.queue.length 2}"
    | .arm sc => s!"arm{min sc.length 3}"
  let os := String.join (outs.map fun o => match o with
    | .sent _ => "s" | .callback _ st _ _ => s!"c{st.code}" | .raised _ => "!")
  -- re-entrancy: a script is armed and a callback fires in this event
  let re := if !s.script.isEmpty && outs.any (fun o => match o with | .callback .. => true | _ => false)
            then s!"R{min s.script.length 3}" else ""
  s!"{tag}:{os}:{re}"

structure State where
  tsm : DrvState := {}
  io : Iocb.St := {}

def handle (st : State) (j : Json) : R (State × Json) := do
  match ← fldStr j "op" with
  | "io_reset" => pure ({ st with io := {} }, jOk [])
  | "io" =>
    let e ← evOfJson j
    let (s', outs) := Iocb.step st.io e
    let reply := jOk [("out", Json.arr (outs.map jOutIo).toArray),
                      ("io", Json.arr (s'.iocbs.map jIocb).toArray),
                      ("q", Json.arr (s'.queues.map jQ).toArray),
                      ("def", Json.arr (s'.deferred.map fun (n : Nat) => Json.num n).toArray),
                      ("scr", Json.num s'.script.length),
                      ("br", Json.str (brIo st.io e outs))]
    pure ({ st with io := s' }, reply)
  | _ =>
    let (t', r) ← handleTsm st.tsm j
    pure ({ st with tsm := t' }, r)

end BacVerif.Drv.C04

def main : IO Unit := BacVerif.Drv.loopS ({} : BacVerif.Drv.C04.State) BacVerif.Drv.C04.handle
