/- driver stub for C04: replaced when the model exists -/
def main : IO Unit := pure ()
