/- driver for C02: tag streams -/
import BacVerif.Drv.Tag
open Lean BacVerif BacVerif.Drv

def handle (j : Json) : R Json := do
  match ← fldStr j "op" with
  | "enc" =>   -- TagList.encode
      let ts ← tagsOfJson (← fld j "tags")
      pure (jOk [("hex", jHex (serializeTags ts))])
  | "dec" =>   -- TagList.decode, then re-encode
      let bs ← fldHex j "hex"
      match parseTags bs with
      | .error e => pure (jErr e)
      | .ok ts => pure (jOk [("tags", jTags ts), ("re", jHex (serializeTags ts))])
  | "ctx" =>   -- TagList.get_context
      let ts ← tagsOfJson (← fld j "tags")
      let c ← fldNat j "c"
      match getContext c ts with
      | .error e => pure (jErr e)
      | .ok .none => pure (jOk [("kind", "none")])
      | .ok (.tag t) => pure (jOk [("kind", "tag"), ("tag", jTag t)])
      | .ok (.group g) => pure (jOk [("kind", "group"), ("tags", jTags g)])
  | "any" =>   -- Any.decode
      let ts ← tagsOfJson (← fld j "tags")
      match anyDecode ts with
      | .error e => pure (jErr e)
      | .ok (g, r) => pure (jOk [("taken", jTags g), ("rest", jTags r)])
  | op => throw s!"unknown op {op}"

def main : IO Unit := loop handle
