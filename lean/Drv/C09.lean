/- driver for C09: BACnet/IP virtual link layer (Model.Bvll)

   ops  enc    {m, len}        AnnexJCodec.indication of a message object whose stored
                               bvlciLength is `len` (null = what the constructor computed)
                               → {hex, fn, len, body}
        dec    {hex}           BVLPDU.decode            → {fn, len, data}
        cdec   {hex}           AnnexJCodec.confirmation → {m, len} | err | {r:"unknown", fn}
        bdec   {fn, hex}       <class>.decode on BVLPDU data → {m}
        benc   {fn, len, hex}  BVLPDU.encode of raw (function, length, data) → {hex}
        pack   {ip:[a,b,c,d], port}  pack_ip_addr   → {hex}
        unpack {hex}                 unpack_ip_addr → {ip, port}
   message  [code, params…]: [0,code] [1,[[addr,mask]…]] [2] [3,[[addr,mask]…]] [4,addr,data]
            [5,ttl] [6] [7,[[addr,ttl,remain]…]] [8,addr] [9,data] [10,data] [11,data]
-/
import BacVerif.Drv.Common
import BacVerif.Model.Bvll
open Lean BacVerif BacVerif.Drv BacVerif.Bvll

def hexOf (j : Json) : R Bytes := do
  match ofHex? (← j.getStr?) with
  | some b => pure b
  | none => throw "bad hex"

def jN (n : Nat) : Json := Json.num n

def jBdt (es : List BdtEntry) : Json :=
  Json.arr (es.map fun e => Json.arr #[jHex e.addr, jN e.mask]).toArray

def jFdt (es : List FdtEntry) : Json :=
  Json.arr (es.map fun e => Json.arr #[jHex e.addr, jN e.ttl, jN e.remain]).toArray

def jMsg (m : Msg) : Json :=
  let c : Json := jN m.fn.code
  match m with
  | .result code => Json.arr #[c, jN code]
  | .writeBroadcastDistributionTable t => Json.arr #[c, jBdt t]
  | .readBroadcastDistributionTable => Json.arr #[c]
  | .readBroadcastDistributionTableAck t => Json.arr #[c, jBdt t]
  | .forwardedNPDU a d => Json.arr #[c, jHex a, jHex d]
  | .registerForeignDevice ttl => Json.arr #[c, jN ttl]
  | .readForeignDeviceTable => Json.arr #[c]
  | .readForeignDeviceTableAck t => Json.arr #[c, jFdt t]
  | .deleteForeignDeviceTableEntry a => Json.arr #[c, jHex a]
  | .distributeBroadcastToNetwork d => Json.arr #[c, jHex d]
  | .originalUnicastNPDU d => Json.arr #[c, jHex d]
  | .originalBroadcastNPDU d => Json.arr #[c, jHex d]

def bdtOfJson (j : Json) : R (List BdtEntry) := do
  (← j.getArr?).toList.mapM fun e => do
    let a ← e.getArr?
    if a.size ≠ 2 then throw "bdt entry: need 2 items"
    pure { addr := ← hexOf a[0]!, mask := ← a[1]!.getNat? }

def fdtOfJson (j : Json) : R (List FdtEntry) := do
  (← j.getArr?).toList.mapM fun e => do
    let a ← e.getArr?
    if a.size ≠ 3 then throw "fdt entry: need 3 items"
    pure { addr := ← hexOf a[0]!, ttl := ← a[1]!.getNat?, remain := ← a[2]!.getNat? }

def msgOfJson (j : Json) : R Msg := do
  let a ← j.getArr?
  if a.size = 0 then throw "msg: empty"
  let need (n : Nat) : R Unit := if a.size = n then pure () else throw "msg: wrong arity"
  match fnOfCode (← a[0]!.getNat?) with
  | none => throw "msg: unregistered function"
  | some .result => do need 2; pure (.result (← a[1]!.getNat?))
  | some .writeBroadcastDistributionTable => do
      need 2; pure (.writeBroadcastDistributionTable (← bdtOfJson a[1]!))
  | some .readBroadcastDistributionTable => do need 1; pure .readBroadcastDistributionTable
  | some .readBroadcastDistributionTableAck => do
      need 2; pure (.readBroadcastDistributionTableAck (← bdtOfJson a[1]!))
  | some .forwardedNPDU => do need 3; pure (.forwardedNPDU (← hexOf a[1]!) (← hexOf a[2]!))
  | some .registerForeignDevice => do need 2; pure (.registerForeignDevice (← a[1]!.getNat?))
  | some .readForeignDeviceTable => do need 1; pure .readForeignDeviceTable
  | some .readForeignDeviceTableAck => do need 2; pure (.readForeignDeviceTableAck (← fdtOfJson a[1]!))
  | some .deleteForeignDeviceTableEntry => do need 2; pure (.deleteForeignDeviceTableEntry (← hexOf a[1]!))
  | some .distributeBroadcastToNetwork => do need 2; pure (.distributeBroadcastToNetwork (← hexOf a[1]!))
  | some .originalUnicastNPDU => do need 2; pure (.originalUnicastNPDU (← hexOf a[1]!))
  | some .originalBroadcastNPDU => do need 2; pure (.originalBroadcastNPDU (← hexOf a[1]!))

def handle (j : Json) : R Json := do
  match ← fldStr j "op" with
  | "enc" =>
      let m ← msgOfJson (← fld j "m")
      let o : Obj := match ← fldOptNat j "len" with
        | none => construct m
        | some n => { msg := m, storedLength := n }
      let (len, body) := encodeBody o
      match codecIndication o with
      | .error e => pure (jErr e)
      | .ok bs => pure (jOk [("hex", jHex bs), ("fn", jN m.fn.code), ("len", jN len), ("body", jHex body)])
  | "dec" =>
      let bs ← fldHex j "hex"
      match decodeBvlpdu bs with
      | .error e => pure (jErr e)
      | .ok (fn, len, data) => pure (jOk [("fn", jN fn), ("len", jN len), ("data", jHex data)])
  | "cdec" =>
      let bs ← fldHex j "hex"
      match codecConfirmation bs with
      | .refused e => pure (jErr e)
      | .unknownFunction fn => pure (Json.mkObj [("r", "unknown"), ("fn", jN fn)])
      | .delivered o => pure (jOk [("m", jMsg o.msg), ("len", jN o.storedLength)])
  | "bdec" =>
      let bs ← fldHex j "hex"
      match fnOfCode (← fldNat j "fn") with
      | none => pure (Json.mkObj [("r", "unregistered")])
      | some f =>
          match decodeBody f bs with
          | .error e => pure (jErr e)
          | .ok m => pure (jOk [("m", jMsg m)])
  | "benc" =>
      let data ← fldHex j "hex"
      match encodeBvlpdu (← fldNat j "fn") (← fldNat j "len") data with
      | .error e => pure (jErr e)
      | .ok bs => pure (jOk [("hex", jHex bs)])
  | "pack" =>
      let ip ← fldArr j "ip"
      if ip.size ≠ 4 then throw "ip: need 4 items"
      let x : IpPort := { a := ← ip[0]!.getNat?, b := ← ip[1]!.getNat?, c := ← ip[2]!.getNat?,
                          d := ← ip[3]!.getNat?, port := ← fldNat j "port" }
      match packIpAddr x with
      | .error e => pure (jErr e)
      | .ok bs => pure (jOk [("hex", jHex bs)])
  | "unpack" =>
      let bs ← fldHex j "hex"
      match unpackIpAddr bs with
      | .error e => pure (jErr e)
      | .ok x => pure (jOk [("ip", Json.arr #[jN x.a, jN x.b, jN x.c, jN x.d]), ("port", jN x.port)])
  | op => throw s!"unknown op {op}"

def main : IO Unit := loop handle
