/- driver stub for C09: replaced when the model exists -/
def main : IO Unit := pure ()
