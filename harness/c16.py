"""
C16 — COV subscribers are told of every qualifying change, and only while subscribed.

Three layers (DESIGN.md §7 C16):

 1. lockstep  : a REAL Application (ApplicationIOController + ChangeOfValueServices +
                ReadWritePropertyServices) holding analog / binary / multi-state /
                pulse-converter (and integer, unsupported) objects, driven at application
                level: SubscribeCOVRequest APDUs are handed to `indication`, a stub below
                captures acks / errors / notification requests and answers confirmed
                notifications; time is the repository's own TaskManager + core.run under
                the virtual clock (harness/vt.py).  After every primitive event the real
                side reports emitted PDUs, clock, armed deadline and a canonical digest;
                the same events go to `drv_c16` (lean/BacVerif/Model/Cov.lean) as one
                batch and the two reply streams are diffed.
 2. oracle    : independent of the model.  `Spec` is the property written directly
                (who is subscribed until when, object-level last reported value, the
                qualifying rule of the property text) and is evaluated on what the
                real code emitted: in the lockstep run (exact expectations on
                "disciplined" timelines, safety clauses on arbitrary interleavings) and
 3. end-to-end: 1..3 complete subscriber stacks + the device under test on a vlan,
                requests and notifications travel as encoded PDUs; counts per
                subscriber, contents, confirmed/unconfirmed, remaining time and the
                activeCovSubscriptions read-back (a real ReadProperty) are checked
                against `Spec`.

Numbers: real-valued properties are multiples of 1/16 carried as scaled integers
(exact in IEEE single and double); anything else would be reported as a bit pattern.
Times are integer microseconds.  The clock sits on the grid (k/4 + 1/8) s so that no
subscription deadline ever coincides with a whole-second periodic instant.
"""
import os, struct, json, glob
from . import core

LEAN_TARGETS = ["BacVerif.Props.C16", "drv_c16"]
LEANCHECKER = ["BacVerif.Props.C16"]
LEVEL = "proof"
RULE = ("random timelines over 1..3 subscribers x process ids x {analogValue, analogInput, integerValue, "
        "binaryValue, multiStateValue, pulseConverter (periodic or not), unsupported types, unknown object}: "
        "subscribe / renew (permanent<->timed, confirmed<->unconfirmed, absent parameters) / cancel with "
        "lifetimes 0..120 s, value writes at 0, +-(inc-1/16), +-inc, +-(inc+1/16), returns to the old value, "
        "flag writes, increment writes, bursts without draining, clock advanced in quarter seconds across every "
        "expiry and periodic instant; plus MANY short timelines with 5..12 concurrent subscriptions (3 subscribers x 4 "
        "process ids x 1..3 objects, lifetimes from an irregular set 2..120 s incl. sorted-decreasing sequences and "
        "indefinite ones), cancels / renewals of arbitrary ones, housekeeping FunctionTasks (armed / stopped / re-armed) "
        "and a recurring task in the same task heap, and a probe (change + drain + read-back) a quarter second before "
        "and after EVERY expiry; plus end-to-end timelines with confirmed subscribers that acknowledge 0 / 0.5 / 2 s "
        "late and bursts of 3..6 writes at one instant made as separate events (per subscription the notifications "
        "must arrive in the order of the changes); lockstep (every primitive event compared with the Lean model) and "
        "end-to-end over a vlan. distinct = distinct model branch signatures per event "
        "(request class x detector class x list size; write x trigger/quiet/already; drain size; fired task kinds)")
TRUSTED = ["lean/BacVerif/Model/Cov.lean is a hand transcription of service/cov.py + detect.py + the monitor call "
           "in object.py + task installation order; tied by the lockstep stream",
           "lean/BacVerif/Gen/Cov.lean is regenerated from criteria_type_map / the object registry on every run",
           "Python float arithmetic on multiples of 1/16 below 2^20 is exact (values are chosen that way)",
           "harness/vt.py virtual clock; bacpypes TaskManager/core.run are the real ones"]
ASSUMPTIONS = ["tasks are processed at their due time (a late process is not modelled)",
               "last reported value is taken at object level (any notification about the object moves it)",
               "covPeriod and the object set do not change while subscriptions exist",
               "every pulse converter has covPeriod set (None raises TypeError in PulseConverterCriteria.__init__)"]

START = 1_000_000_000.125          # virtual epoch: on the (k/4 + 1/8) grid
US = 1_000_000

# types the property talks about (written here independently of criteria_type_map)
ANALOG_TYPES = {"analogInput", "analogOutput", "analogValue", "largeAnalogValue", "integerValue",
                "positiveIntegerValue", "pulseConverter"}
GENERIC_TYPES = {"binaryInput", "binaryOutput", "binaryValue", "multiStateInput", "multiStateOutput",
                 "multiStateValue"}

_types_cache = None


def GENERATED(ctx):
    from translator import c16 as tr
    tr.generate(core.LEAN)


def type_table():
    global _types_cache
    if _types_cache is None:
        from translator import c16 as tr
        _crit, types = tr.dump()
        _types_cache = {t["name"]: t for t in types}
    return _types_cache


# --------------------------------------------------------------------------
# value conversion (scaled integers <-> Python values of the property datatype)

def scale_of(t):
    """real-valued presentValue: scaled by 16; integral ones unscaled"""
    return 16 if t["pv"] in ("Real", "Double") else 1


def to_py(dt, v, scale=16):
    if dt in ("Real", "Double"):
        return v / 16.0
    if dt in ("Unsigned", "Integer"):
        # an integral covIncrement next to a real presentValue lives on the value's scale
        if scale != 1 and v % scale:
            raise core.Infra("scaled value %r not integral for datatype %s" % (v, dt))
        return int(v) // scale
    if dt == "BinaryPV":
        return "active" if v else "inactive"
    raise core.Infra("no conversion for datatype %s" % dt)


def from_py(dt, x, scale=16):
    if x is None:
        return None
    if dt in ("Real", "Double"):
        y = x * 16.0
        if y == int(y) and abs(y) < 2 ** 40:
            return int(y)
        return {"f64": struct.unpack(">Q", struct.pack(">d", x))[0]}
    if dt in ("Unsigned", "Integer"):
        return int(x) * scale
    if dt == "BinaryPV":
        return {"active": 1, "inactive": 0}.get(x, x if isinstance(x, int) else str(x))
    return None


def pv_to_py(t, v):
    return to_py(t["pv"], v, 1)


def pv_from_py(t, x):
    return from_py(t["pv"], x, 1)


def inc_to_py(t, v):
    return to_py(t["inc"], v, scale_of(t))


def inc_from_py(t, x):
    return from_py(t["inc"], x, scale_of(t))


def bits_of(f):
    return [(f >> i) & 1 for i in range(4)]


def flags_of(bits):
    return sum((1 if b else 0) << i for i, b in enumerate(list(bits)[:4]))


def us(t):
    return int(round(t * US))


# --------------------------------------------------------------------------
# the property, written directly (independent of the model)

class Spec:
    """who is subscribed until when + object-level last reported value"""

    def __init__(self, cfg):
        self.objs = {}
        for o in cfg["objs"]:
            self.objs[o["id"]] = {"type": o["type"], "pv": o["pv"], "fl": o["flags"], "inc": o["inc"],
                                  "period": o["period"] if o["type"] == "pulseConverter" else 0}
        self.live = {}            # (addr,pid,obj) -> {"conf","life","deadline","inst"}  (insertion ordered)
        self.last = {}            # obj -> last reported presentValue
        self.next_inst = 0        # a cancelled-and-remade subscription is a new instance
        self.pending_init = []    # (key, instance) acknowledged, initial notification not yet due

    def capable(self, obj):
        return self.objs[obj]["type"] in ANALOG_TYPES or self.objs[obj]["type"] in GENERIC_TYPES

    def remaining(self, key, now):
        r = self.live[key]
        if r["deadline"] is None:
            return 0
        return max(1, (r["deadline"] - now) // US)

    def ntf(self, key, now):
        o = self.objs[key[2]]
        return ("ntf", key[0], key[1], key[2], self.live[key]["conf"], o["pv"], o["fl"], self.remaining(key, now))

    def keys_on(self, obj):
        return [k for k in self.live if k[2] == obj]

    def purge(self, now):
        for k in [k for k, r in self.live.items() if r["deadline"] is not None and r["deadline"] <= now]:
            del self.live[k]
        for obj in list(self.last):
            if not self.keys_on(obj):
                del self.last[obj]

    def subscribe(self, now, addr, pid, obj, conf, life):
        """returns the expected immediate response; the initial notification is expected
        when the deferred work runs (`drain_initials`), if that instance is then still alive"""
        if obj not in self.objs:
            return [("err", addr)]
        if not self.capable(obj):
            return [("err", addr)]
        key = (addr, pid, obj)
        if conf is None and life is None:
            self.live.pop(key, None)
            self.purge(now)
            return [("ack", addr)]
        life = life or 0
        if key in self.live:
            inst = self.live[key]["inst"]          # a renewal keeps the subscription, re-timed
        else:
            inst = self.next_inst
            self.next_inst += 1
        self.live[key] = {"conf": bool(conf), "life": life, "inst": inst,
                          "deadline": now + life * US if life else None}
        self.pending_init.append((key, inst))
        return [("ack", addr)]

    def drain_initials(self, now):
        exp = []
        for key, inst in self.pending_init:
            rec = self.live.get(key)
            if rec is not None and rec["inst"] == inst:
                exp.append(self.ntf(key, now))
                self.last[key[2]] = self.objs[key[2]]["pv"]
        self.pending_init = []
        return exp

    def qualifies(self, obj, prop, v):
        o = self.objs[obj]
        if prop == "fl":
            return v != o["fl"]
        if prop == "pv":
            if o["type"] in ANALOG_TYPES:
                last = self.last.get(obj, o["pv"])
                return abs(v - last) >= o["inc"]
            return v != o["pv"]
        return None      # covIncrement: the property does not say

    def burst(self, now, writes):
        """writes: [(obj, prop, v)], all within one instant, then the deferred work runs.
        returns (expected notifications, objects whose count is not prescribed)"""
        q, free = set(), set()
        for obj, prop, v in writes:
            if obj not in self.objs:
                continue
            r = self.qualifies(obj, prop, v)
            if r is None:
                if self.objs[obj][prop] != v:
                    free.add(obj)
            elif r and self.keys_on(obj):
                q.add(obj)
            self.objs[obj][prop] = v
        exp = []
        for obj in sorted(q):
            for k in self.keys_on(obj):
                exp.append(self.ntf(k, now))
            self.last[obj] = self.objs[obj]["pv"]
        return exp, free

    def advance(self, now, target):
        """expected (emission time, notification) for periodic reports in (now, target]"""
        exp = []
        instants = set()
        for obj, o in self.objs.items():
            if o["period"]:
                p = o["period"] * US
                t = (now // p + 1) * p
                while t <= target:
                    instants.add((t, obj))
                    t += p
        for t, obj in sorted(instants):
            self.purge(t)
            for k in self.keys_on(obj):
                exp.append((t, self.ntf(k, t)))
            if self.keys_on(obj):
                self.last[obj] = self.objs[obj]["pv"]
        self.purge(target)
        return exp

    def rows(self, now):
        self.purge(now)
        out = []
        for k, r in self.live.items():
            out.append((k[0], k[1], k[2], r["conf"], self.remaining(k, now)))
        return sorted(out)


# --------------------------------------------------------------------------
# real side, component level

_vt = None


def get_vt():
    global _vt
    core.bind_repo()
    import logging
    logging.disable(logging.CRITICAL)      # Application.indication logs the tracebacks it swallows
    from .vt import VT
    _vt = VT.install(START)
    return _vt


def build_object(o):
    from bacpypes.object import get_object_class
    t = type_table()[o["type"]]
    cls = get_object_class(o["type"])
    kw = {"objectIdentifier": (o["type"], o["id"] + 1), "objectName": "o%d" % o["id"]}
    props = {p.identifier for p in cls.properties} | set(cls._properties)
    if t["pv"] in ("Real", "Double", "Unsigned", "Integer", "BinaryPV"):
        kw["presentValue"] = pv_to_py(t, o["pv"])
    if "statusFlags" in props:
        kw["statusFlags"] = bits_of(o["flags"])
    if t["inc"]:
        kw["covIncrement"] = inc_to_py(t, o["inc"])
    if t["period"]:
        kw["covPeriod"] = o["period"]
    return cls(**kw)


def canon_out(out):
    """requests to one destination are serialised by the application's per-address queue
    (a confirmed notification holds back the next one until it is acknowledged); across
    destinations the interleaving is not part of the property: responses first, then the
    notifications grouped by destination in their order of emission"""
    rest = [x for x in out if x[0] != "ntf"]
    ntfs = [x for x in out if x[0] == "ntf"]
    ntfs.sort(key=lambda x: x[1])          # stable
    return rest + ntfs


def build_subscribe(oid, pid, conf, life, via):
    """SubscribeCOVRequest, or (via = ["p", increment | None]) SubscribeCOVPropertyRequest for the
    presentValue of the object — the second public entry point of the same mechanism"""
    from bacpypes.apdu import SubscribeCOVRequest, SubscribeCOVPropertyRequest
    if via:
        from bacpypes.basetypes import PropertyReference
        r = SubscribeCOVPropertyRequest(subscriberProcessIdentifier=pid, monitoredObjectIdentifier=oid,
                                        monitoredPropertyIdentifier=PropertyReference(propertyIdentifier="presentValue"))
        if via[1] is not None:
            r.covIncrement = via[1] / 16.0
    else:
        r = SubscribeCOVRequest(subscriberProcessIdentifier=pid, monitoredObjectIdentifier=oid)
    if conf is not None:
        r.issueConfirmedNotifications = conf
    if life is not None:
        r.lifetime = life
    return r


def via_of(a):
    """optional 7th element of a "sub" action (6th of a request inside "subs")"""
    return a[6] if len(a) > 6 else None


class Housekeeping:
    """other long-lived timers in the same process: no-op FunctionTasks that are armed, stopped
    and re-armed, and a no-op recurring task.  They share the TaskManager heap with the
    subscription timers and have no COV effect (the model never sees them)."""

    def __init__(self):
        self.tasks = {}
        self.fired = 0

    def _noop(self):
        self.fired += 1

    def do(self, op, idx, arg):
        from bacpypes.task import FunctionTask, RecurringFunctionTask
        if op == "rec":
            t = self.tasks.get(("rec", idx))
            if t is None:
                t = self.tasks[("rec", idx)] = RecurringFunctionTask(arg * 1000, self._noop)
            t.install_task()
            return
        t = self.tasks.get(idx)
        if t is None:
            t = self.tasks[idx] = FunctionTask(self._noop)
        if op == "arm":
            t.install_task(delta=arg / 4.0)           # re-arming suspends first (TaskManager.install_task)
        elif op == "stop":
            if t.isScheduled:
                t.suspend_task()


class LockRig:
    """a real application between stubs; `event(ev)` executes one primitive event and
    returns the canonical reply the model driver must match"""

    def __init__(self, cfg):
        vt = get_vt()
        vt.reset(START)
        from bacpypes.comm import bind, ServiceAccessPoint
        from bacpypes.app import ApplicationIOController
        from bacpypes.service.cov import ChangeOfValueServices
        from bacpypes.service.object import ReadWritePropertyServices
        from bacpypes.local.device import LocalDeviceObject
        from bacpypes.apdu import ConfirmedRequestPDU, SimpleAckPDU
        from bacpypes import core as bcore
        self.vt, self.bcore = vt, bcore
        self.cfg = cfg
        rig = self

        class App(ApplicationIOController, ChangeOfValueServices, ReadWritePropertyServices):
            pass

        class Below(ServiceAccessPoint):
            def sap_indication(self, apdu):          # requests of the application
                rig.captured.append(("req", apdu))
                if isinstance(apdu, ConfirmedRequestPDU):
                    ack = SimpleAckPDU(context=apdu)
                    ack.pduSource = apdu.pduDestination
                    bcore.deferred(rig.app.confirmation, ack)

            def sap_confirmation(self, apdu):        # responses of the application
                rig.captured.append(("rsp", apdu))

        dev = LocalDeviceObject(objectName="iut", objectIdentifier=("device", 20),
                                maxApduLengthAccepted=1024, segmentationSupported="noSegmentation",
                                vendorIdentifier=999)
        self.app = App(dev)
        self.below = Below()
        bind(self.app, self.below)
        self.captured = []
        self.objs = {}
        self.oid = {}
        for o in cfg["objs"]:
            ob = build_object(o)
            self.app.add_object(ob)
            self.objs[o["id"]] = ob
            self.oid[(o["type"], o["id"] + 1)] = o["id"]
        self.ocfg = {o["id"]: dict(o) for o in cfg["objs"]}
        self.invoke = 0
        self.hk = Housekeeping()

    def cov_task_times(self):
        """due times of the timers of this service (subscription expiries, periodic reports) that
        the task manager holds — wherever they sit in its heap"""
        from bacpypes.service.cov import Subscription
        periodic = {id(getattr(d, "cov_period_task", None)) for d in self.app.cov_detections.values()}
        return [when for when, _n, task in self.vt.tm.tasks
                if isinstance(task, Subscription) or id(task) in periodic]

    # -- canonicalisation ------------------------------------------------
    def obj_index(self, ob):
        for i, x in self.objs.items():
            if x is ob:
                return i
        return None

    def addr_index(self, addr):
        a = addr.addrAddr
        return a[0] - 1 if a and len(a) == 1 else -1

    def decode_notification(self, apdu):
        from bacpypes.apdu import ConfirmedCOVNotificationRequest
        o = self.oid.get(tuple(apdu.monitoredObjectIdentifier), -1)
        ob = self.objs.get(o)
        pv = fl = None
        for pvl in apdu.listOfValues:
            pid = pvl.propertyIdentifier
            dt = ob.get_datatype(pid)
            val = pvl.value.cast_out(dt)
            if pid == "presentValue":
                pv = pv_from_py(type_table()[self.ocfg[o]["type"]], val)
            elif pid == "statusFlags":
                fl = flags_of(val)
            else:
                pv = ["extra", str(pid)]
        return ["ntf", self.addr_index(apdu.pduDestination), apdu.subscriberProcessIdentifier, o,
                isinstance(apdu, ConfirmedCOVNotificationRequest), pv, fl, apdu.timeRemaining]

    def take_out(self):
        from bacpypes.apdu import SimpleAckPDU, Error, ConfirmedCOVNotificationRequest, \
            UnconfirmedCOVNotificationRequest
        out = []
        for kind, apdu in self.captured:
            if kind == "rsp":
                a = self.addr_index(apdu.pduDestination)
                if isinstance(apdu, SimpleAckPDU):
                    out.append(["ack", a])
                elif isinstance(apdu, Error):
                    out.append(["err", a, str(apdu.errorClass), str(apdu.errorCode)])
                else:
                    out.append(["rsp?", a, type(apdu).__name__])
            else:
                if isinstance(apdu, (ConfirmedCOVNotificationRequest, UnconfirmedCOVNotificationRequest)):
                    out.append(self.decode_notification(apdu))
                else:
                    out.append(["req?", type(apdu).__name__])
        self.captured = []
        for name, msg in self.vt.errors:
            out.append(["exc", name])
        self.vt.errors = []
        # requests to one destination are serialised by the application's per-address
        # queue; across destinations the interleaving is not part of the property
        return canon_out(out)

    def digest(self):
        from bacpypes.service.cov import COVDetection
        tt = type_table()
        objs = []
        for i in sorted(self.objs):
            ob, oc, t = self.objs[i], self.ocfg[i], tt[self.ocfg[i]["type"]]
            pv = pv_from_py(t, ob._values.get("presentValue")) if t["pv"] in ("Real", "Double", "Unsigned", "Integer", "BinaryPV") else oc["pv"]
            fl = flags_of(ob._values["statusFlags"]) if ob._values.get("statusFlags") is not None else oc["flags"]
            inc = inc_from_py(t, ob._values.get("covIncrement")) if t["inc"] else oc["inc"]
            det = self.app.cov_detections.get(ob)
            jd = None
            if det is not None:
                subs = []
                for cov in det.cov_subscriptions:
                    subs.append([self.addr_index(cov.client_addr), cov.proc_id, cov.confirmed, cov.lifetime,
                                 us(cov.taskTime) if cov.isScheduled else None])
                pt = getattr(det, "cov_period_task", None)
                jd = {"subs": subs, "trig": bool(det._triggered),
                      "prev": pv_from_py(t, getattr(det, "previous_reported_value", None)),
                      "ptask": us(pt.taskTime) if (pt is not None and pt.isScheduled) else None}
            objs.append({"id": i, "pv": pv, "fl": fl, "inc": inc, "det": jd})
        dq = []
        for fn, args, kwargs in self.bcore.deferredFns:
            slf = getattr(fn, "__self__", None)
            if not isinstance(slf, COVDetection):
                continue
            o = self.obj_index(slf.obj)
            live = self.app.cov_detections.get(slf.obj) is slf
            if fn.__name__ == "_execute":
                dq.append(["exec", o, live])
            elif fn.__name__ == "send_cov_notifications":
                cov = args[0] if args else None
                listed = live and cov is not None and any(c is cov for c in slf.cov_subscriptions)
                dq.append(["init", o, live, self.addr_index(cov.client_addr) if listed else None,
                           cov.proc_id if listed else None])
        return {"objs": objs, "dq": dq}

    def reply(self):
        times = self.cov_task_times()
        return {"r": "ok", "out": self.take_out(), "now": us(self.vt.now),
                "deadline": us(min(times)) if times else None,
                "digest": self.digest()}

    # -- primitive events ------------------------------------------------
    def reset_request(self):
        return {"op": "reset", "objs": self.cfg["objs"], "now": us(self.vt.now)}

    def event(self, ev):
        op = ev["op"]
        vt = self.vt
        try:
            if op == "sub":
                from bacpypes.pdu import Address
                oc = self.ocfg.get(ev["obj"])
                oid = (oc["type"], ev["obj"] + 1) if oc else ("analogValue", ev["obj"] + 1)
                # "via": the request arrives as SubscribeCOVProperty (the model has ONE subscribe
                # event: the two handlers are the same mechanism and must behave alike)
                r = build_subscribe(oid, ev["pid"], ev["conf"], ev["life"], ev.get("via"))
                r.pduSource = Address(ev["addr"] + 1)
                self.invoke = (self.invoke + 1) % 256
                r.apduInvokeID = self.invoke
                self.app.indication(r)
            elif op in ("wpv", "wfl", "winc"):
                ob = self.objs.get(ev["obj"])
                if ob is not None:
                    t = type_table()[self.ocfg[ev["obj"]]["type"]]
                    if op == "wpv":
                        ob.presentValue = pv_to_py(t, ev["v"])
                    elif op == "wfl":
                        ob.statusFlags = bits_of(ev["v"])
                    else:
                        ob.covIncrement = inc_to_py(t, ev["v"])
            elif op == "run":
                vt.run(until=vt.now)
            elif op == "step":
                vt.run(until=vt.now)                       # pending deferred work first
                target = vt.now + ev["dt"] / US
                # stop at the next instant at which a timer of this service is due (the real run
                # loop decides by itself what it runs on the way, housekeeping timers included);
                # a timer that is overdue because the scheduler failed to run it is not waited for
                ahead = [t for t in self.cov_task_times() if t > vt.now]
                nxt = min(ahead) if ahead else None
                until = target if (nxt is None or nxt > target) else nxt
                vt.run(until=until)
            elif op == "read":
                return self.read()
            else:
                raise core.Infra("bad op %r" % op)
        except core.Infra:
            raise
        except Exception as e:
            vt.errors.append((type(e).__name__, str(e)))
        return self.reply()

    def read(self):
        rows = []
        try:
            value = self.app.localDevice.ReadProperty("activeCovSubscriptions")
            for cs in value:
                mac = cs.recipient.recipient.address.macAddress
                o = self.oid.get(tuple(cs.monitoredPropertyReference.objectIdentifier), -1)
                t = type_table()[self.ocfg[o]["type"]]
                inc = getattr(cs, "covIncrement", None)
                rows.append([mac[0] - 1 if len(mac) == 1 else -1, cs.recipient.processIdentifier, o,
                             cs.issueConfirmedNotifications, cs.timeRemaining,
                             inc_from_py(t, inc) if inc is not None else None])
        except Exception as e:
            return {"r": "err", "k": core.exc_kind(e)}
        order = {i: n for n, i in enumerate(o["id"] for o in self.cfg["objs"])}
        rows.sort(key=lambda r: order.get(r[2], 99))      # dict order of cov_detections is not part of the property
        return {"r": "ok", "rows": rows}


# --------------------------------------------------------------------------
# real side, end to end

class NetRig:
    """device under test + 1..3 subscriber stacks on a vlan (complete stacks)"""

    def __init__(self, cfg):
        vt = get_vt()
        vt.reset(START)
        from bacpypes.comm import bind
        from bacpypes.pdu import Address, LocalBroadcast
        from bacpypes.vlan import Network, Node
        from bacpypes.app import ApplicationIOController
        from bacpypes.appservice import StateMachineAccessPoint, ApplicationServiceAccessPoint
        from bacpypes.netservice import NetworkServiceAccessPoint, NetworkServiceElement
        from bacpypes.service.cov import ChangeOfValueServices
        from bacpypes.service.object import ReadWritePropertyServices
        from bacpypes.local.device import LocalDeviceObject
        from bacpypes.capability import Capability
        from bacpypes.apdu import SimpleAckPDU
        self.vt = vt
        self.cfg = cfg
        self.ack = list(cfg.get("ack", []))          # per subscriber: delay of its SimpleAck, quarter seconds
        rig = self
        self.net = Network(broadcast_address=LocalBroadcast())

        class _NSE(NetworkServiceElement):
            _startup_disabled = True

        class Stack(ApplicationIOController):
            def __init__(self, dev, address):
                ApplicationIOController.__init__(self, dev)
                self.address = Address(address)
                self.asap = ApplicationServiceAccessPoint()
                self.smap = StateMachineAccessPoint(dev)
                self.smap.deviceInfoCache = self.deviceInfoCache
                self.nsap = NetworkServiceAccessPoint()
                self.nse = _NSE()
                bind(self.nse, self.nsap)
                bind(self, self.asap, self.smap, self.nsap)
                self.node = Node(self.address, rig.net)
                self.nsap.bind(self.node)

        class Listener(Capability):
            def do_ConfirmedCOVNotificationRequest(self, apdu):
                rig.received.append((us(rig.vt.now), self.index, True, apdu))
                delay = rig.ack[self.index] if self.index < len(rig.ack) else 0
                if delay:
                    # a subscriber that is slow to acknowledge (quarter seconds)
                    from bacpypes.task import FunctionTask
                    FunctionTask(self.response, SimpleAckPDU(context=apdu)).install_task(delta=delay / 4.0)
                else:
                    self.response(SimpleAckPDU(context=apdu))

            def do_UnconfirmedCOVNotificationRequest(self, apdu):
                rig.received.append((us(rig.vt.now), self.index, False, apdu))

        class Device(Stack, ChangeOfValueServices, ReadWritePropertyServices):
            pass

        class Subscriber(Stack, Listener):
            def confirmation(self, apdu):
                rig.responses.append((us(rig.vt.now), self.index, apdu))
                Stack.confirmation(self, apdu)

        def dev(name, inst):
            return LocalDeviceObject(objectName=name, objectIdentifier=("device", inst),
                                     maxApduLengthAccepted=1024, segmentationSupported="noSegmentation",
                                     vendorIdentifier=999)
        self.iut = Device(dev("iut", 20), 20)
        self.subs = []
        for i in range(cfg.get("nsub", 3)):
            s = Subscriber(dev("s%d" % i, 101 + i), i + 1)
            s.index = i
            self.subs.append(s)
        self.received = []
        self.responses = []
        self.hk = Housekeeping()
        self.objs, self.oid = {}, {}
        for o in cfg["objs"]:
            ob = build_object(o)
            self.iut.add_object(ob)
            self.objs[o["id"]] = ob
            self.oid[(o["type"], o["id"] + 1)] = o["id"]
        self.ocfg = {o["id"]: dict(o) for o in cfg["objs"]}
        vt.run(until=vt.now)

    def now(self):
        return us(self.vt.now)

    def settle(self):
        self.vt.run(until=self.vt.now)

    def link_down(self, down):
        """the link below the device refuses to send (vlan node detached: Node.indication raises
        ConfigurationError 'unbound node') / works again"""
        node = self.iut.node
        if down:
            self._lan = node.lan
            node.lan = None
        else:
            node.lan = self._lan

    def drain_deferred(self):
        """only the deferred functions (what core.run does after ONE event), no task: the
        network delivery of what was just sent has not happened yet"""
        bcore = self.vt.bcore
        try:
            while bcore.deferredFns:
                fns = bcore.deferredFns
                bcore.deferredFns = []
                for fn, args, kwargs in fns:
                    fn(*args, **kwargs)
        except Exception as e:
            self.vt.errors.append((type(e).__name__, str(e)))

    def take(self):
        """[(emission time, canonical output)]"""
        out = []
        for t, idx, conf, apdu in self.received:
            o = self.oid.get(tuple(apdu.monitoredObjectIdentifier), -1)
            ob = self.objs.get(o)
            pv = fl = None
            for pvl in apdu.listOfValues:
                pid = pvl.propertyIdentifier
                val = pvl.value.cast_out(ob.get_datatype(pid))
                if pid == "presentValue":
                    pv = pv_from_py(type_table()[self.ocfg[o]["type"]], val)
                elif pid == "statusFlags":
                    fl = flags_of(val)
            dev_ok = tuple(apdu.initiatingDeviceIdentifier) == ("device", 20)
            out.append((t, ("ntf", idx, apdu.subscriberProcessIdentifier, o if dev_ok else -2, conf, pv, fl,
                            apdu.timeRemaining)))
        self.received = []
        for name, msg in self.vt.errors:
            out.append((self.now(), ("exc", name, msg[:120])))
        self.vt.errors = []
        return out

    def subscribe(self, addr, pid, obj, conf, life, take=True, via=None):
        from bacpypes.apdu import SimpleAckPDU
        from bacpypes.iocb import IOCB
        oc = self.ocfg.get(obj)
        oid = (oc["type"], obj + 1) if oc else ("analogValue", obj + 1)
        r = build_subscribe(oid, pid, conf, life, via)
        r.pduDestination = self.iut.address
        iocb = IOCB(r)
        self.subs[addr].request_io(iocb)
        self.settle()
        t = self.now()
        if isinstance(iocb.ioResponse, SimpleAckPDU):
            head = [(t, ("ack", addr))]
        elif iocb.ioError is not None:
            e = iocb.ioError
            head = [(t, ("err", addr, str(getattr(e, "errorClass", type(e).__name__)),
                         str(getattr(e, "errorCode", getattr(e, "apduAbortRejectReason", "")))))]
        else:
            head = [(t, ("noresponse", addr))]
        return head + (self.take() if take else [])

    def subscribe_burst(self, reqs):
        """several SubscribeCOV requests put on the wire in the same instant, the clients not
        waiting for the previous answer (a plain Application client does that; the
        ApplicationIOController client serialises per destination)"""
        from bacpypes.apdu import SubscribeCOVRequest, SimpleAckPDU, Error
        from bacpypes.app import Application
        self.responses = []
        for q in reqs:
            addr, pid, obj, conf, life = q[:5]
            oc = self.ocfg.get(obj)
            oid = (oc["type"], obj + 1) if oc else ("analogValue", obj + 1)
            r = build_subscribe(oid, pid, conf, life, q[5] if len(q) > 5 else None)
            r.pduDestination = self.iut.address
            Application.request(self.subs[addr], r)
        self.settle()
        out = []
        for t, idx, apdu in self.responses:
            if isinstance(apdu, SimpleAckPDU):
                out.append((t, ("ack", idx)))
            elif isinstance(apdu, Error):
                out.append((t, ("err", idx, str(apdu.errorClass), str(apdu.errorCode))))
            else:
                out.append((t, ("rsp?", idx, type(apdu).__name__)))
        self.responses = []
        return out + self.take()

    def write(self, obj, prop, v):
        ob = self.objs.get(obj)
        if ob is None:
            return
        t = type_table()[self.ocfg[obj]["type"]]
        try:
            if prop == "pv":
                ob.presentValue = pv_to_py(t, v)
            elif prop == "fl":
                ob.statusFlags = bits_of(v)
            else:
                ob.covIncrement = inc_to_py(t, v)
        except Exception as e:
            self.vt.errors.append((type(e).__name__, str(e)))

    def advance(self, target_us):
        self.vt.run(until=target_us / US)
        return self.take()

    def read(self, addr=0):
        """a real ReadProperty of activeCovSubscriptions by subscriber `addr`"""
        from bacpypes.apdu import ReadPropertyRequest, ReadPropertyACK
        from bacpypes.iocb import IOCB
        from bacpypes.basetypes import COVSubscription
        from bacpypes.constructeddata import ListOf
        r = ReadPropertyRequest(objectIdentifier=("device", 20), propertyIdentifier="activeCovSubscriptions")
        r.pduDestination = self.iut.address
        iocb = IOCB(r)
        self.subs[addr].request_io(iocb)
        self.settle()
        if not isinstance(iocb.ioResponse, ReadPropertyACK):
            e = iocb.ioError
            return None, "no ReadPropertyACK: %s %s" % (type(e).__name__, getattr(e, "errorCode", getattr(e, "apduAbortRejectReason", "")))
        rows = []
        for cs in iocb.ioResponse.propertyValue.cast_out(ListOf(COVSubscription)):
            mac = cs.recipient.recipient.address.macAddress
            o = self.oid.get(tuple(cs.monitoredPropertyReference.objectIdentifier), -1)
            rows.append((mac[0] - 1 if len(mac) == 1 else -1, cs.recipient.processIdentifier, o,
                         bool(cs.issueConfirmedNotifications), cs.timeRemaining))
        return sorted(rows), None


# --------------------------------------------------------------------------
# scenarios: abstract actions
#   ["sub", addr, pid, obj, conf, life]      conf/life None = absent; both absent = cancel
#   ["w", [[obj, "pv"|"fl"|"inc", v], ...]]  writes within one instant
#   ["run"]                                  drain deferred work
#   ["adv", quarters]                        advance the clock by quarters/4 s
#   ["read"]
# a scenario is "disciplined" when every sub / w is directly followed by run (or adv);
# only then does the property prescribe exact counts per action.

OBJ_POOL = [
    {"type": "analogValue", "pv": 160, "flags": 0, "inc": 16, "period": 0},
    {"type": "analogInput", "pv": -40, "flags": 0, "inc": 8, "period": 0},
    {"type": "analogValue", "pv": 0, "flags": 1, "inc": 0, "period": 0},
    {"type": "analogOutput", "pv": 800, "flags": 0, "inc": 1, "period": 0},
    {"type": "largeAnalogValue", "pv": 1600, "flags": 0, "inc": 32, "period": 0},
    {"type": "integerValue", "pv": 5, "flags": 0, "inc": 3, "period": 0},
    {"type": "positiveIntegerValue", "pv": 50, "flags": 0, "inc": 2, "period": 0},
    {"type": "binaryValue", "pv": 0, "flags": 0, "inc": 0, "period": 0},
    {"type": "binaryInput", "pv": 1, "flags": 2, "inc": 0, "period": 0},
    {"type": "multiStateValue", "pv": 1, "flags": 0, "inc": 0, "period": 0},
    {"type": "multiStateInput", "pv": 3, "flags": 0, "inc": 0, "period": 0},
    {"type": "pulseConverter", "pv": 0, "flags": 0, "inc": 160, "period": 0},
    {"type": "pulseConverter", "pv": 32, "flags": 0, "inc": 16, "period": 10},
    {"type": "pulseConverter", "pv": 32, "flags": 0, "inc": 24, "period": 7},
    {"type": "accessDoor", "pv": 0, "flags": 0, "inc": 0, "period": 0},       # supports COV, no criteria class
    {"type": "accumulator", "pv": 0, "flags": 0, "inc": 0, "period": 0},      # does not support COV
]


def gen_cfg(rng, nsub=None):
    """analog + binary + multi-state + pulse converter always present; at most ONE periodic
    pulse converter (two periodic float schedules may differ by an ulp, see module doc)"""
    pick = []
    pick.append(dict(rng.choice([o for o in OBJ_POOL if o["type"] in ("analogValue", "analogInput", "analogOutput", "largeAnalogValue")])))
    pick.append(dict(rng.choice([o for o in OBJ_POOL if o["type"].startswith("binary")])))
    pick.append(dict(rng.choice([o for o in OBJ_POOL if o["type"].startswith("multiState")])))
    pick.append(dict(rng.choice([o for o in OBJ_POOL if o["type"] == "pulseConverter"])))
    extra = [o for o in OBJ_POOL if o["type"] in ("integerValue", "positiveIntegerValue", "accessDoor", "accumulator", "analogValue")]
    for _ in range(rng.randrange(0, 3)):
        pick.append(dict(rng.choice(extra)))
    rng.shuffle(pick)
    for i, o in enumerate(pick):
        o["id"] = i
    return {"objs": pick, "nsub": nsub or rng.randrange(1, 4)}


LIFETIMES = [0, 1, 2, 3, 5, 10, 30, 59, 60, 61, 119, 120]


def gen_value(rng, o, cur, last):
    """boundary-directed next presentValue for object config o"""
    t = o["type"]
    if t.startswith("binary"):
        return rng.choice([0, 1, 1 - cur])
    if t.startswith("multiState"):
        return rng.choice([1, 2, 3, cur, cur % 4 + 1])
    inc = max(o["inc"], 0)
    base = rng.choice([cur, last, last])
    d = rng.choice([0, 1, -1, inc - 1, -(inc - 1), inc, -inc, inc + 1, -(inc + 1), 2 * inc, -2 * inc, 5 * inc + 3])
    v = base + d
    if rng.random() < 0.15:
        v = last                                       # return to the reported value
    if t == "positiveIntegerValue" or t == "pulseConverter":
        v = abs(v)
    return v


class Gen:
    """produces abstract actions online (it tracks just enough to aim at boundaries)"""

    def __init__(self, rng, cfg, disciplined, nact):
        self.rng, self.cfg, self.disc, self.left = rng, cfg, disciplined, nact
        self.objs = {o["id"]: dict(o) for o in cfg["objs"]}
        self.cur = {o["id"]: o["pv"] for o in cfg["objs"]}
        self.last = dict(self.cur)
        self.keys = []            # keys ever subscribed (for renew / cancel)
        self.deadlines = []       # quarter offsets of pending expiries, to advance across them
        self.q = 0                # clock in quarters
        self.writable = [o["id"] for o in cfg["objs"] if o["type"] in ANALOG_TYPES or o["type"] in GENERIC_TYPES]

    def sub_action(self):
        rng = self.rng
        nsub = self.cfg["nsub"]
        if self.keys and rng.random() < 0.55:
            addr, pid, obj = rng.choice(self.keys)
        else:
            addr, pid = rng.randrange(nsub), rng.choice([1, 1, 2, 7])
            obj = rng.choice(list(self.objs) + ([99] if rng.random() < 0.15 else []))
        r = rng.random()
        if r < 0.22:
            conf, life = None, None
        elif r < 0.30:
            conf, life = rng.choice([True, False]), None
        elif r < 0.34:
            conf, life = None, rng.choice(LIFETIMES)
        else:
            conf, life = rng.choice([True, False]), rng.choice(LIFETIMES + [rng.randrange(0, 121)])
        if (addr, pid, obj) not in self.keys and obj in self.objs:
            self.keys.append((addr, pid, obj))
        if life:
            self.deadlines.append(self.q + 4 * life)
        act = ["sub", addr, pid, obj, conf, life]
        if rng.random() < 0.3:
            # the same request as SubscribeCOVProperty, with or without a covIncrement
            act.append(["p", rng.choice([None, None, 8, 16, 40])])
        return act

    def write_burst(self):
        rng = self.rng
        n = 1 if rng.random() < 0.6 else rng.randrange(2, 5)
        ws = []
        for _ in range(n):
            obj = rng.choice(self.writable)
            o = self.objs[obj]
            r = rng.random()
            if r < 0.75:
                v = gen_value(rng, o, self.cur[obj], self.last[obj])
                ws.append([obj, "pv", v])
                self.cur[obj] = v
                if rng.random() < 0.5:
                    self.last[obj] = v
            elif r < 0.93 or o["type"] not in ANALOG_TYPES:
                ws.append([obj, "fl", rng.randrange(16) if rng.random() < 0.7 else 0])
            else:
                v = rng.choice([0, 1, 8, 16, o["inc"], o["inc"] + 8])
                if o["type"] == "largeAnalogValue":
                    v = v // 16 * 16                   # its covIncrement is an Unsigned on the value's scale
                ws.append([obj, "inc", v])
                o["inc"] = v
        return ["w", ws]

    def adv_action(self):
        rng = self.rng
        pend = sorted(d for d in self.deadlines if d > self.q)
        r = rng.random()
        if pend and r < 0.5:
            d = rng.choice(pend[:3])
            k = d - self.q + rng.choice([-1, 0, 0, 1, 3])      # just before / exactly at / after an expiry
        elif r < 0.8:
            k = rng.choice([1, 2, 3, 4, 5, 8, 17, 39, 40, 41])
        else:
            k = rng.randrange(1, 500)
        k = max(1, k)
        self.q += k
        return ["adv", k]

    def big_write(self, obj):
        """a write that certainly qualifies"""
        o = self.objs[obj]
        t = o["type"]
        if t.startswith("binary"):
            v = 1 - self.cur[obj]
        elif t.startswith("multiState"):
            v = self.cur[obj] % 4 + 1
        else:
            v = abs(self.cur[obj]) + 2 * max(o["inc"], 1) + 16
        self.cur[obj] = v
        self.last[obj] = v
        return ["w", [[obj, "pv", v]]]

    def request_burst(self):
        """2..4 requests in one instant, mostly about one object: subscribe + cancel of the
        same key, renewals, a second subscriber"""
        rng = self.rng
        first = self.sub_action()
        reqs = [first[1:]]
        for _ in range(rng.randrange(1, 4)):
            r = rng.random()
            if r < 0.45:
                reqs.append([first[1], first[2], first[3], None, None])
            elif r < 0.7:
                life = rng.choice(LIFETIMES)
                if life:
                    self.deadlines.append(self.q + 4 * life)
                reqs.append([first[1], first[2], first[3], rng.choice([True, False]), life])
            else:
                reqs.append(self.sub_action()[1:])
        return ["subs", reqs]

    def probe(self):
        """directed interleavings around pending deferred work (no drain in between):
        cancel / renew / subscribe while an execution or an initial notification is pending"""
        rng = self.rng
        live = [k for k in self.keys if k[2] in self.writable]
        if not live:
            return [self.sub_action(), ["run"]]
        addr, pid, obj = rng.choice(live)
        other = (rng.randrange(self.cfg["nsub"]), rng.choice([1, 2, 7]), obj)
        if other not in self.keys:
            self.keys.append(other)
        sub = lambda k, conf, life: ["sub", k[0], k[1], k[2], conf, life]
        life = rng.choice([0, 1, 5, 30])
        if life:
            self.deadlines.append(self.q + 4 * life)
        pat = rng.randrange(6)
        if pat == 0:
            acts = [sub(other, False, 0), ["run"], self.big_write(obj), sub((addr, pid, obj), None, None),
                    self.big_write(obj), ["run"]]
        elif pat == 1:
            acts = [self.big_write(obj), sub(other, rng.choice([True, False]), life), self.big_write(obj), ["run"]]
        elif pat == 2:
            acts = [sub(other, False, 0), ["run"], sub((addr, pid, obj), True, life), sub((addr, pid, obj), None, None),
                    sub((addr, pid, obj), False, life), ["run"]]
        elif pat == 3:
            acts = [sub((addr, pid, obj), rng.choice([True, False]), life), self.big_write(obj), ["run"]]
        elif pat == 4:
            acts = [self.big_write(obj), sub((addr, pid, obj), rng.choice([True, False, None]), life), ["run"]]
        else:
            acts = [self.big_write(obj), sub((addr, pid, obj), None, None), sub(other, None, None),
                    self.big_write(obj), ["run"], sub(other, True, life), self.big_write(obj), ["run"]]
        return acts

    def __iter__(self):
        rng = self.rng
        while self.left > 0:
            self.left -= 1
            r = rng.random()
            if not self.disc and r < 0.12:
                for a in self.probe():
                    yield a
            elif self.disc and r < 0.07:
                yield self.request_burst()
                yield ["run"]
            elif r < 0.30:
                yield self.sub_action()
                if self.disc or rng.random() < 0.6:
                    yield ["run"]
            elif r < 0.72:
                yield self.write_burst()
                if self.disc or rng.random() < 0.6:
                    yield ["run"]
            elif r < 0.90:
                yield self.adv_action()
            elif r < 0.96:
                yield ["read"]
            else:
                yield ["run"]
        # time advanced across every expiry, then a final read-back
        pend = [d for d in self.deadlines if d > self.q]
        if pend:
            k = max(pend) - self.q + 1
            self.q += k
            yield ["run"]
            yield ["adv", k]
        yield ["read"]


IRREGULAR = [2, 3, 5, 7, 9, 11, 13, 17, 19, 23, 26, 29, 31, 37, 41, 45, 47, 52, 53, 59, 61, 67, 71, 79, 83, 89,
             97, 98, 100, 101, 103, 104, 107, 109, 113, 119, 120]


def make_heap_case(rng, name):
    """MANY concurrent subscriptions (5..12 over subscribers x process ids x objects) with
    lifetimes from a wide irregular set (also decreasing sequences, some indefinite), cancels and
    renewals of arbitrary ones, housekeeping timers in the same task heap, and a probe (change +
    drain + activeCovSubscriptions read-back) a quarter second before and after EVERY expiry.
    Short and disciplined: the oracle prescribes every notification exactly."""
    cfg = gen_cfg(rng, nsub=3)
    objs = {o["id"]: dict(o) for o in cfg["objs"]}
    writable = [i for i, o in objs.items() if o["type"] in ANALOG_TYPES or o["type"] in GENERIC_TYPES]
    target_objs = rng.sample(writable, min(len(writable), rng.choice([1, 1, 2, 3])))
    cur = {i: o["pv"] for i, o in objs.items()}
    acts, q = [], 0
    deadlines = {}                                   # key -> quarter of expiry | None

    def big_write(obj):
        o = objs[obj]
        t = o["type"]
        if t.startswith("binary"):
            v = 1 - cur[obj]
        elif t.startswith("multiState"):
            v = cur[obj] % 4 + 1
        else:
            v = abs(cur[obj]) + 2 * max(o["inc"], 1) + 16
            if v > 60000:
                v = 16
        cur[obj] = v
        return [obj, "pv", v]

    def hk_op():
        r = rng.random()
        if r < 0.6:
            acts.append(["hk", "arm", rng.randrange(4), rng.choice([3, 9, 30, 90, 170, 260, 390, 470])])
        else:
            acts.append(["hk", "stop", rng.randrange(4), 0])

    def adv(k):
        nonlocal q
        if k > 0:
            acts.append(["adv", k])
            q += k

    def subscribe(key, life):
        acts.append(["sub", key[0], key[1], key[2], rng.choice([True, False]), life] +
                    ([["p", rng.choice([None, 16])]] if rng.random() < 0.25 else []))
        acts.append(["run"])
        deadlines[key] = q + 4 * life if life else None

    def cancel(key):
        acts.append(["sub", key[0], key[1], key[2], None, None])
        acts.append(["run"])
        deadlines.pop(key, None)

    def probe(objs_):
        for obj in sorted(objs_):
            acts.append(["w", [big_write(obj)]])
            acts.append(["run"])
        acts.append(["read"])

    # housekeeping timers live in the same heap from the start
    if rng.random() < 0.7:
        acts.append(["hk", "rec", 0, rng.choice([7, 13, 60])])
    for _ in range(rng.randrange(0, 4)):
        hk_op()
    # many subscriptions
    n = rng.randrange(5, 13)
    space = [(a, p, o) for a in range(3) for p in (1, 2, 3, 7) for o in target_objs]
    keys = rng.sample(space, min(n, len(space)))
    lifes = [rng.choice(IRREGULAR) for _ in keys]
    r = rng.random()
    if r < 0.35:
        lifes.sort(reverse=True)
    elif r < 0.5:
        lifes.sort()
    for i in range(len(lifes)):
        if rng.random() < 0.12:
            lifes[i] = 0
    adv(rng.choice([0, 4, 4]))
    for key, life in zip(keys, lifes):
        subscribe(key, life)
        if rng.random() < 0.75:
            adv(rng.choice([1, 2, 4, 4, 4, 7]))
        if rng.random() < 0.2:
            hk_op()
    # cancels and renewals of arbitrary ones
    for _ in range(rng.randrange(1, 6)):
        live = [k for k, d in deadlines.items() if d is None or d > q]
        if not live:
            break
        key = rng.choice(live)
        r = rng.random()
        if r < 0.5:
            cancel(key)
        else:
            subscribe(key, rng.choice(IRREGULAR + [0]))
        if rng.random() < 0.5:
            adv(rng.choice([1, 3, 4]))
        if rng.random() < 0.3:
            hk_op()
    # walk across every expiry instant
    guard = 0
    while guard < 16:
        guard += 1
        pend = sorted({d for d in deadlines.values() if d is not None and d > q})
        if not pend:
            break
        d = pend[0]
        hit = {k[2] for k, x in deadlines.items() if x == d}
        if d - 1 > q:
            adv(d - 1 - q)
            probe(hit)                               # a quarter second before: still subscribed
        adv(d + 1 - q)
        probe(hit)                                   # a quarter second after: gone
        r = rng.random()
        live = [k for k, x in deadlines.items() if x is None or x > q]
        if live and r < 0.2:
            cancel(rng.choice(live))
        elif live and r < 0.35:
            subscribe(rng.choice(live), rng.choice(IRREGULAR))
        elif r < 0.5:
            hk_op()
    probe(set(target_objs))
    return {"name": name, "cfg": cfg, "actions": acts}


def make_order_case(rng, name):
    """subscribers that acknowledge confirmed notifications late (0 / 0.5 / 2 s) and bursts of 3..6
    writes at ONE instant made as SEPARATE events (each followed only by the deferred functions):
    notifications pile up in the device's per-destination queue.  Indefinite / very long
    lifetimes, cancels and renewals only when everything is quiescent."""
    cfg = gen_cfg(rng, nsub=rng.choice([1, 2, 2, 3]))
    for o in cfg["objs"]:
        o["period"] = 0
    nsub = cfg["nsub"]
    cfg["ack"] = [rng.choice([0, 2, 8]) for _ in range(nsub)]
    if rng.random() < 0.7 and not any(cfg["ack"]):
        cfg["ack"][rng.randrange(nsub)] = rng.choice([2, 8])
    objs = {o["id"]: dict(o) for o in cfg["objs"]}
    writable = [i for i, o in objs.items() if o["type"] in ANALOG_TYPES or o["type"] in GENERIC_TYPES]
    cur = {i: o["pv"] for i, o in objs.items()}
    curf = {i: o["flags"] for i, o in objs.items()}
    acts = []
    space = [(a, p, o) for a in range(nsub) for p in (1, 2) for o in rng.sample(writable, min(2, len(writable)))]
    keys = rng.sample(space, min(len(space), rng.randrange(1, 5)))
    conf = {k: rng.random() < 0.75 for k in keys}
    maxd = max(cfg["ack"] + [0])

    def flush(pending):
        # every queued notification waits for the acknowledgement of the one before it
        acts.append(["flush", (pending + 1) * maxd + 4])

    for k in keys:
        acts.append(["sub", k[0], k[1], k[2], conf[k], rng.choice([0, 0, 600, 900])] +
                    ([["p", rng.choice([None, 16])]] if rng.random() < 0.3 else []))
    flush(len(keys))
    acts.append(["read"])

    def write(obj):
        o = objs[obj]
        t = o["type"]
        r = rng.random()
        if r < 0.12:
            f = (curf[obj] + rng.randrange(1, 16)) % 16
            curf[obj] = f
            return [obj, "fl", f]
        if t.startswith("binary"):
            v = 1 - cur[obj]
        elif t.startswith("multiState"):
            v = cur[obj] % 4 + 1
        elif r < 0.25:
            v = cur[obj] + max(o["inc"] - 1, 0)           # below the increment: silent
        else:
            v = abs(cur[obj]) + 2 * max(o["inc"], 1) + rng.randrange(1, 40)
            if v > 60000:
                v = 16
        cur[obj] = v
        return [obj, "pv", v]

    for _ in range(rng.randrange(2, 5)):
        hot = rng.choice([k[2] for k in keys])
        if rng.random() < 0.35:
            # one change while the link below the device refuses to send, then recovery
            acts.append(["fault", [write(hot) for _ in range(rng.choice([1, 1, 2]))]])
            # a confirmed notification whose send failed is retried by the transaction layer after
            # the APDU timeout (3 s): wait for that too before judging
            acts.append(["flush", 16 + (2 * len(keys) + 2) * maxd + 4])
        n = rng.randrange(3, 7)
        ws = [write(hot if rng.random() < 0.8 else rng.choice(writable)) for _ in range(n)]
        acts.append(["wseq", ws])
        pending = n * len(keys)
        if rng.random() < 0.4:
            acts.append(["adv", rng.choice([1, 2, 3, 5])])        # the next burst overlaps late acknowledgements
            n2 = rng.randrange(3, 6)
            acts.append(["wseq", [write(hot) for _ in range(n2)]])
            pending += n2 * len(keys)
        flush(pending)
        acts.append(["read"])
        r = rng.random()
        if r < 0.25:
            k = rng.choice(keys)
            conf[k] = not conf[k]
            acts.append(["sub", k[0], k[1], k[2], conf[k], rng.choice([0, 600])] +
                        ([["p", None]] if rng.random() < 0.4 else []))
            flush(1)
        elif r < 0.35 and len(keys) > 1:
            k = keys.pop(rng.randrange(len(keys)))
            acts.append(["sub", k[0], k[1], k[2], None, None])
            flush(0)
    return {"name": name, "cfg": cfg, "actions": acts, "modes": ["order"]}


def make_resub_case(rng, name):
    """reuse after completion: every subscription of an object goes (cancel of the last one, or its
    expiry), changes then stay silent, and the object is subscribed to AGAIN (same or another
    subscriber, SubscribeCOV or SubscribeCOVProperty): ack, initial notification, listed, and every
    qualifying change reported.  Two or three generations per object."""
    cfg = gen_cfg(rng, nsub=2)
    objs = {o["id"]: dict(o) for o in cfg["objs"]}
    writable = [i for i, o in objs.items() if o["type"] in ANALOG_TYPES or o["type"] in GENERIC_TYPES]
    chosen = rng.sample(writable, min(len(writable), rng.choice([1, 2, 2, 3])))
    cur = {i: o["pv"] for i, o in objs.items()}
    acts = []

    def big(obj):
        o = objs[obj]
        t = o["type"]
        if t.startswith("binary"):
            v = 1 - cur[obj]
        elif t.startswith("multiState"):
            v = cur[obj] % 4 + 1
        else:
            v = abs(cur[obj]) + 2 * max(o["inc"], 1) + 16
        cur[obj] = v
        return [["w", [[obj, "pv", v]]], ["run"]]

    for gen in range(rng.choice([2, 2, 3])):
        for obj in chosen:
            keys = [(rng.randrange(2), rng.choice([1, 2, 7]), obj)]
            if rng.random() < 0.4:
                keys.append(((keys[0][0] + 1) % 2, keys[0][1], obj))
            by_expiry = rng.random() < 0.4
            for k in keys:
                life = rng.choice([2, 3, 5]) if by_expiry else rng.choice([0, 0, 60])
                acts.append(["sub", k[0], k[1], k[2], rng.choice([True, False]), life] +
                            ([["p", None]] if rng.random() < 0.3 else []))
                acts.append(["run"])
            acts += big(obj)
            if rng.random() < 0.5:
                acts += big(obj)
            if by_expiry:
                acts.append(["adv", 4 * 5 + 1])                   # past every lifetime
            else:
                for k in keys:
                    acts += [["sub", k[0], k[1], k[2], None, None], ["run"]]
            acts.append(["read"])
            acts += big(obj)                                      # nobody subscribed: silent
    for obj in chosen:                                            # the last generation stays
        acts += [["sub", 0, 1, obj, True, 0], ["run"]] + big(obj) + big(obj)
    acts.append(["read"])
    return {"name": name, "cfg": cfg, "actions": acts}


OPT_SETTING = "interpreter started with -O (sys.flags.optimize = 1: assert statements are compiled away)"


def optimized_pass(ctx, case=None):
    """a few reuse-after-completion timelines (or the given case) in a CHILD interpreter started
    with `python -O`, same rigs, same oracle, same model; what it finds is reported like anything
    else, marked with the setting"""
    import pickle, subprocess, sys, tempfile
    fd, path = tempfile.mkstemp(prefix="verif-c16-O-", suffix=".pkl")
    os.close(fd)
    cmd = [sys.executable, "-O", "-m", "harness.c16", "--optimized", path, str(ctx.seed), "1" if ctx.model_ok else "0"]
    cpath = None
    try:
        if case is not None:
            fd2, cpath = tempfile.mkstemp(prefix="verif-c16-O-", suffix=".json")
            with os.fdopen(fd2, "w") as f:
                json.dump(case, f)
            cmd.append(cpath)
        try:
            p = subprocess.run(cmd, cwd=core.VERIF, capture_output=True, text=True, timeout=600)
        except subprocess.TimeoutExpired:
            raise core.Infra("python -O pass timed out")
        if p.returncode != 0 or not os.path.getsize(path):
            raise core.Infra("python -O pass ended with rc %d: %s" % (p.returncode, (p.stdout + p.stderr)[-400:]))
        with open(path, "rb") as f:
            d = pickle.load(f)
    finally:
        for q in (path, cpath):
            try:
                if q:
                    os.remove(q)
            except OSError:
                pass
    if d.get("optimize") != 1:
        raise core.Infra("python -O pass did not run optimized")
    for rec in d["failures"]:
        rec["setting"] = OPT_SETTING
        rec["optimized"] = True
        rec["what"] = "[python -O] %s" % rec.get("what")
    for dis in d["disagreements"]:
        dis["stream"] = "python-O:" + str(dis.get("stream"))
    ctx.merge(d)


def optimized_child(argv):
    import pickle, sys
    path, seed, model_ok = argv[0], int(argv[1]), argv[2] == "1"
    core.bind_repo()
    ctx = core.Ctx("C16", "quick", seed)
    ctx.model_ok = model_ok
    if len(argv) > 3:
        with open(argv[3]) as f:
            case = json.load(f)
        run_case(ctx, case, "-O-replay")
    else:
        for c in corpus_cases():
            if c.get("optimized"):
                run_case(ctx, c, "-python-O")
        rng = ctx.sub_rng("c16/optimized")
        for j in range(6):
            case = make_resub_case(rng, "resub-O-%d" % j)
            run_lockstep(ctx, case, "lockstep-python-O")
            if j % 2 == 0:
                run_e2e(ctx, case, "e2e-python-O")
    d = ctx.export()
    d["optimize"] = sys.flags.optimize
    with open(path, "wb") as f:
        pickle.dump(d, f)


def order_as_lockstep(case):
    """the same timeline for the component rig / the model: every write followed by a drain"""
    acts = []
    for a in case["actions"]:
        if a[0] == "wseq":
            for w in a[1]:
                acts += [["w", [w]], ["run"]]
        elif a[0] == "fault":
            for w in a[1]:
                acts += [["w", [w]], ["run"]]
        elif a[0] == "flush":
            acts += [["run"], ["adv", a[1]]]
        elif a[0] == "sub":
            acts += [a, ["run"]]
        else:
            acts.append(a)
    c = dict(case)
    c["actions"] = acts
    return c


def run_order(ctx, case, stream="e2e-order"):
    """end to end, late acknowledgements: per subscription the notifications must ARRIVE in the
    order of the changes they report, and once everything is quiescent the last one received
    carries the current values"""
    cfg, actions = case["cfg"], case["actions"]
    rig = NetRig(cfg)
    spec = Spec(cfg)
    expected = []                 # notifications in the order they are due to be generated
    optional = []                 # reports of a change during which the link refused to send: may be lost
    failed = set()

    def fail(kind, i, what, **kw):
        if kind not in failed:
            ctx.fail(kind, trim(case, i), what, action_index=i, scenario=case.get("name", ""), **kw)
        failed.add(kind)

    def checkpoint(i):
        got_all = rig.take()
        for _t, o in got_all:
            if o[0] == "exc":
                fail("unexpected-exception", i, "the real code raised %r" % (o[1:],))
        got = [o for _t, o in got_all if o[0] == "ntf"]
        for o in list(optional):
            if o in got:                          # it got through after all (queued / retried): fine
                got.remove(o)
        del optional[:]
        keys = []
        for o in expected + got:
            k = (o[1], o[2], o[3])
            if k not in keys:
                keys.append(k)
        for k in keys:
            e = [o for o in expected if (o[1], o[2], o[3]) == k]
            g = [o for o in got if (o[1], o[2], o[3]) == k]
            if g and e and sorted(e, key=repr) == sorted(g, key=repr) and (g[-1][5], g[-1][6]) != (e[-1][5], e[-1][6]):
                ob = spec.objs[k[2]]
                fail("stale-last", i, "subscription %r: everything is quiescent, the last notification received "
                     "carries (%r, %r) but the last change reported was (%r, %r) (object now (%r, %r))" % (
                         k, g[-1][5], g[-1][6], e[-1][5], e[-1][6], ob["pv"], ob["fl"]), key=list(k))
            if g != e:
                if sorted(e, key=repr) == sorted(g, key=repr):
                    fail("notify-order", i, "subscription %r: notifications arrived out of order: values %r, "
                         "changes were reported as %r" % (k, [(o[5], o[6]) for o in g], [(o[5], o[6]) for o in e]),
                         key=list(k))
                else:
                    fail("notify-count", i, "subscription %r: received %r, expected %r" % (k, g[:8], e[:8]), key=list(k))
        del expected[:]

    for i, a in enumerate(actions):
        kind = a[0]
        now = rig.now()
        if kind == "sub":
            head = spec.subscribe(now, a[1], a[2], a[3], a[4], a[5])
            outs = rig.subscribe(a[1], a[2], a[3], a[4], a[5], take=False, via=via_of(a))
            got_head = [cut(o) for _t, o in outs]
            if got_head != [cut(head[0])]:
                fail("no-ack", i, "response %r, expected %r" % (got_head, head[0]))
            expected += spec.drain_initials(now)     # judged at the next checkpoint, in arrival order
        elif kind == "wseq":
            for obj, prop, v in a[1]:
                exp, _free = spec.burst(now, [(obj, prop, v)])
                expected += exp
                rig.write(obj, prop, v)
                rig.drain_deferred()
        elif kind == "fault":
            # send-failure fault: for these changes the link below the device refuses the send, then
            # recovers.  Their reports may be lost; every LATER qualifying change must be notified.
            rig.link_down(True)
            for obj, prop, v in a[1]:
                exp, _free = spec.burst(now, [(obj, prop, v)])
                optional += exp
                rig.write(obj, prop, v)
                rig.drain_deferred()
            rig.link_down(False)
        elif kind in ("adv", "flush"):
            target = now + a[1] * (US // 4)
            expected += [o for _t, o in spec.advance(now, target)]
            rig.vt.run(until=target / US)
            if kind == "flush":
                checkpoint(i)
        elif kind == "read":
            rows, err = rig.read(0)
            if rows is None:
                fail("active-list", i, "activeCovSubscriptions could not be read: %s" % err)
            elif rows != spec.rows(now):
                fail("active-list", i, "activeCovSubscriptions %r, live subscriptions %r" % (rows, spec.rows(now)))
        ctx.count(stream, (kind, len(a[1]) if kind == "wseq" else None, max(cfg.get("ack", [0]) + [0])) if kind != "sub"
                  else ("sub", a[4], a[5] is None))
    return failed


def is_disciplined(actions):
    actions = [a for a in actions if a[0] != "hk"]
    for i, a in enumerate(actions):
        if a[0] in ("sub", "w", "subs"):
            ok = ("run", "adv", "sub", "subs") if a[0] != "w" else ("run", "adv")
            if i + 1 >= len(actions) or actions[i + 1][0] not in ok:
                return False
    return True


# --------------------------------------------------------------------------
# running a scenario against the component rig (+ model) and the oracles

def trim(case, i):
    c = dict(case)
    c["actions"] = case["actions"][:i + 1]
    return c


class Judge:
    """evaluates the property on what the real code emitted (no model involved)"""

    def __init__(self, ctx, case, disciplined):
        self.ctx, self.case, self.disc = ctx, case, disciplined
        self.spec = Spec(case["cfg"])
        self.pending = []          # expected outputs not yet drained (disciplined mode)
        self.free = set()
        self.initials = {}         # key -> subscribe/renew events since the last drain (wild mode)
        self.failed = False
        self.failed_kinds = set()

    def fail(self, kind, i, what, **kw):
        # the first failure of each kind per scenario (later ones are usually consequences)
        if kind not in self.failed_kinds and len(self.failed_kinds) < 4:
            self.ctx.fail(kind, trim(self.case, i), what, action_index=i, scenario=self.case.get("name", ""), **kw)
        self.failed_kinds.add(kind)
        self.failed = True

    # safety clauses: hold for every interleaving
    def check_safety(self, i, outs):
        sp = self.spec
        for t, o in outs:
            if o[0] == "exc":
                self.fail("unexpected-exception", i, "the real code raised %s" % (o[1:],))
            elif o[0] == "err" and len(o) > 3 and o[3] == "operationalProblem":
                self.fail("request-failed", i, "request answered with Error(device, operationalProblem)")
            elif o[0] == "ntf":
                key = (o[1], o[2], o[3])
                rec = sp.live.get(key)
                if rec is None or (rec["deadline"] is not None and rec["deadline"] < t):
                    self.fail("notify-dead", i, "notification %r for a subscription that is cancelled, expired or "
                              "never made" % (o,), key=list(key))
                    continue
                if o[4] != rec["conf"]:
                    self.fail("wrong-confirmed", i, "notification %r is %s but the subscription asks for %s" % (
                        o, "confirmed" if o[4] else "unconfirmed", "confirmed" if rec["conf"] else "unconfirmed"))
                exp_r = 0 if rec["deadline"] is None else max(1, (rec["deadline"] - t) // US)
                if not isinstance(o[7], int) or o[7] < 0:
                    self.fail("remaining-unencodable", i, "time remaining %r is not an Unsigned" % (o[7],), remaining=o[7])
                elif o[7] != exp_r:
                    self.fail("wrong-remaining", i, "time remaining %r, expected %r" % (o[7], exp_r),
                              remaining=o[7], expected=exp_r)
                ob = sp.objs[key[2]]
                if o[5] != ob["pv"] or o[6] != ob["fl"]:
                    self.fail("stale-values", i, "notification carries (%r,%r), object has (%r,%r)" % (
                        o[5], o[6], ob["pv"], ob["fl"]))

    def compare_exact(self, i, kind, got, exp, what):
        g = sorted(got, key=repr)
        e = sorted(exp, key=repr)
        if g != e:
            missing = [x for x in e if x not in g]
            extra = [x for x in g if x not in e]
            self.fail(kind, i, "%s: missing %r, unexpected %r" % (what, missing[:4], extra[:4]))

    def on_sub(self, i, now, a):
        exp = self.spec.subscribe(now, a[1], a[2], a[3], a[4], a[5])
        key = (a[1], a[2], a[3])
        if not (a[4] is None and a[5] is None) and exp[0][0] == "ack":
            self.initials[key] = self.initials.get(key, 0) + 1
        return exp

    def on_advance(self, i, now, target, outs):
        """outs: [(emission instant, output)] while the clock went from now to target"""
        self.check_safety(i, outs)             # before the expired entries are dropped
        ntfs = [o for _t, o in outs if o[0] == "ntf"]
        if self.disc:
            exp = [o for _t, o in self.spec.advance(now, target)]
            self.compare_exact(i, "notify-count", ntfs, exp, "notifications while time advances")
        else:
            self.spec.purge(target)
            for obj in {o[3] for o in ntfs}:
                if self.spec.keys_on(obj):
                    self.spec.last[obj] = self.spec.objs[obj]["pv"]

    def on_read(self, i, now, rows, err=None):
        if rows is None:
            self.fail("active-list", i, "activeCovSubscriptions could not be read: %s" % err)
            return
        exp = self.spec.rows(now)
        got = sorted(tuple(r[:5]) for r in rows)
        if len(set(r[:3] for r in got)) != len(got):
            self.fail("duplicate-subscription", i, "activeCovSubscriptions lists a key twice: %r" % (got,))
        elif got != exp:
            self.fail("active-list", i, "activeCovSubscriptions %r, live subscriptions %r" % (got, exp))


def cut(o):
    """errors are compared by kind and addressee only"""
    return tuple(o[:2]) if o[0] == "err" else tuple(o)


def run_lockstep(ctx, case, stream="lockstep"):
    """case = {"cfg":..., "actions":[...]}; runs the real component, the model and the oracle"""
    cfg, actions = case["cfg"], case["actions"]
    disc = is_disciplined(actions)
    rig = LockRig(cfg)
    judge = Judge(ctx, case, disc)
    spec = judge.spec
    events, replies, where = [rig.reset_request()], [rig.reply()], [-1]

    def prim(i, ev):
        rep = rig.event(ev)
        events.append(ev); replies.append(rep); where.append(i)
        return rep

    def drain(i, now):
        rep = prim(i, {"op": "run"})
        outs = [(now, tuple(o)) for o in rep["out"]]
        judge.check_safety(i, outs)
        finish_drain(judge, i, outs, now)

    for i, a in enumerate(actions):
        kind = a[0]
        now = us(rig.vt.now)
        if kind == "sub":
            rep = prim(i, {"op": "sub", "addr": a[1], "pid": a[2], "obj": a[3], "conf": a[4], "life": a[5],
                           "via": via_of(a)})
            exp = judge.on_sub(i, now, a)
            outs = [(now, tuple(o)) for o in rep["out"]]
            judge.check_safety(i, outs)
            # the response itself is immediate in every interleaving
            got_head = [cut(o) for _t, o in outs]
            if got_head != [cut(exp[0])]:
                judge.fail("no-ack" if exp[0][0] == "ack" else "wrong-response", i,
                           "response %r, expected %r" % (got_head, exp[0]))
        elif kind == "subs":
            for q in a[1]:
                rep = prim(i, {"op": "sub", "addr": q[0], "pid": q[1], "obj": q[2], "conf": q[3], "life": q[4],
                               "via": q[5] if len(q) > 5 else None})
                exp = judge.on_sub(i, now, ["sub"] + list(q))
                outs = [(now, tuple(o)) for o in rep["out"]]
                judge.check_safety(i, outs)
                got_head = [cut(o) for _t, o in outs]
                if got_head != [cut(exp[0])]:
                    judge.fail("no-ack" if exp[0][0] == "ack" else "wrong-response", i,
                               "response %r, expected %r" % (got_head, exp[0]))
        elif kind == "w":
            outs = []
            for obj, prop, v in a[1]:
                rep = prim(i, {"op": {"pv": "wpv", "fl": "wfl", "inc": "winc"}[prop], "obj": obj, "v": v})
                outs += [(now, tuple(o)) for o in rep["out"]]
            exp, free = spec.burst(now, [tuple(w) for w in a[1]])
            judge.pending += exp
            judge.free |= free
            judge.check_safety(i, outs)
            if [o for _t, o in outs if o[0] == "ntf"]:
                judge.fail("notify-count", i, "notification emitted synchronously by a write")
        elif kind == "run":
            drain(i, now)
        elif kind == "adv":
            drain(i, now)                       # what is pending belongs to the old instant
            target = now + a[1] * (US // 4)
            outs, guard = [], 0
            while True:
                rep = prim(i, {"op": "step", "dt": target - us(rig.vt.now)})
                outs += [(rep["now"], tuple(o)) for o in rep["out"]]
                guard += 1
                if rep["now"] >= target or guard > 5000:
                    break
            judge.on_advance(i, now, target, outs)
        elif kind == "hk":
            rig.hk.do(a[1], a[2], a[3])
        elif kind == "read":
            rep = prim(i, {"op": "read"})
            if rep.get("r") == "ok":
                judge.on_read(i, now, rep["rows"])
            else:
                judge.on_read(i, now, None, rep.get("k"))
        else:
            raise core.Infra("bad action %r" % (a,))
    # model side
    if ctx.model_ok:
        drv = core.Driver("drv_c16")
        model = drv.ask(events)
        for m in model:
            if isinstance(m, dict) and "out" in m:
                m["out"] = canon_out(m["out"])
        cases = [{"scenario": case.get("name", ""), "event": e, "action_index": w} for e, w in zip(events, where)]
        n0 = len(ctx.disagreements)
        ctx.compare_stream(stream, cases, replies, model)
        if len(ctx.disagreements) > n0:
            # attach the complete scenario to the first disagreement so that it can be replayed
            ctx.disagreements[n0]["case"] = dict(ctx.disagreements[n0]["case"], replay=case)
    else:
        for e in events:
            ctx.count(stream)
    return judge


def finish_drain(judge, i, outs, now):
    """deferred work ran at one instant: exact expectations (disciplined) or bounds (any interleaving)"""
    ntfs = [o for _t, o in outs if o[0] == "ntf"]
    judge.pending += judge.spec.drain_initials(now)
    per = {}
    for o in ntfs:
        k = (o[1], o[2], o[3])
        per[k] = per.get(k, 0) + 1
    # an acknowledged (re)subscription that is still alive gets its initial notification
    for k, n in judge.initials.items():
        if k in judge.spec.live and per.get(k, 0) < 1:
            judge.fail("initial-missing", i, "no initial notification for %r" % (k,), key=list(k))
    if judge.disc:
        got = [o for o in ntfs if o[3] not in judge.free]
        exp_f = [o for o in judge.pending if o[3] not in judge.free]
        judge.compare_exact(i, "notify-count", got, exp_f, "notifications after the deferred work ran")
    # in every interleaving: at most one change report + one initial report per (re)subscription
    for k, n in per.items():
        if n > 1 + judge.initials.get(k, 0):
            judge.fail("notify-count", i, "%d notifications for %r in one drain (%d (re)subscriptions pending)" % (
                n, k, judge.initials.get(k, 0)))
    if not judge.disc or judge.free:
        for obj in {o[3] for o in ntfs}:
            judge.spec.last[obj] = judge.spec.objs[obj]["pv"]
    judge.pending = []
    judge.free = set()
    judge.initials = {}


# --------------------------------------------------------------------------
# end to end

def run_e2e(ctx, case, stream="e2e"):
    cfg, actions = case["cfg"], case["actions"]
    rig = NetRig(cfg)
    judge = Judge(ctx, case, True)
    spec = judge.spec
    nout = 0

    def drain(i, now):
        rig.settle()
        outs = rig.take()
        judge.check_safety(i, outs)
        finish_drain(judge, i, outs, now)
        return len(outs)

    for i, a in enumerate(actions):
        kind = a[0]
        now = rig.now()
        if kind == "sub":
            exp = judge.on_sub(i, now, a)
            outs = rig.subscribe(a[1], a[2], a[3], a[4], a[5], via=via_of(a))
            judge.check_safety(i, outs)
            head = [cut(o) for _t, o in outs if o[0] != "ntf"]
            if head != [cut(exp[0])]:
                judge.fail("no-ack" if exp[0][0] == "ack" else "wrong-response", i,
                           "response %r, expected %r" % (head, exp[0]))
            finish_drain(judge, i, [(t, o) for t, o in outs if o[0] == "ntf"], now)
            nout += len(outs)
        elif kind == "subs":
            # over the vlan every frame is a zero-delay task of its own and core.run drains the
            # deferred functions after each task: the requests are handled one by one, each
            # followed by its initial notification
            exp = []
            for q in a[1]:
                exp += judge.on_sub(i, now, ["sub"] + list(q))
                judge.pending += spec.drain_initials(now)
            outs = rig.subscribe_burst([tuple(q) for q in a[1]])
            # the records changed while these were emitted: contents are judged by the exact
            # comparison below, here only exceptions / failed requests
            judge.check_safety(i, [(t, o) for t, o in outs if o[0] != "ntf"])
            head = sorted([cut(o) for _t, o in outs if o[0] != "ntf"], key=repr)
            if head != sorted([cut(e) for e in exp], key=repr):
                judge.fail("no-ack", i, "responses %r, expected %r" % (head, exp))
            finish_drain(judge, i, [(t, o) for t, o in outs if o[0] == "ntf"], now)
            nout += len(outs)
        elif kind == "w":
            for obj, prop, v in a[1]:
                rig.write(obj, prop, v)
            exp, free = spec.burst(now, [tuple(w) for w in a[1]])
            judge.pending += exp
            judge.free |= free
        elif kind == "run":
            nout += drain(i, now)
        elif kind == "adv":
            nout += drain(i, now)
            target = now + a[1] * (US // 4)
            outs = rig.advance(target)
            judge.on_advance(i, now, target, outs)
            nout += len(outs)
        elif kind == "hk":
            rig.hk.do(a[1], a[2], a[3])
        elif kind == "read":
            rows, err = rig.read(0)
            judge.on_read(i, now, rows, err)
            extra = rig.take()
            if extra:
                judge.fail("notify-count", i, "reading the list emitted %r" % (extra[:3],))
        sig = (kind,)
        if kind == "sub":
            sig = ("sub", a[4], a[5] is None, a[5] == 0, spec.objs.get(a[3], {}).get("type"), (a[1], a[2], a[3]) in spec.live)
        elif kind == "adv":
            sig = ("adv", min(a[1], 4))
        elif kind == "w":
            sig = ("w", len(a[1]), tuple(sorted({w[1] for w in a[1]})))
        ctx.count(stream, sig)
    ctx.count(stream + "-outputs", None, trivial=True, n=nout)
    return judge


# --------------------------------------------------------------------------
# shards / entry points

def make_case(rng, disciplined, nact, name):
    cfg = gen_cfg(rng)
    acts = list(Gen(rng, cfg, disciplined, nact))
    return {"name": name, "cfg": cfg, "actions": acts}


def shard(ctx, spec):
    kind, idx, n, nact = spec
    rng = ctx.sub_rng("c16/%s/%d" % (kind, idx))
    for j in range(n):
        if kind == "lock":
            case = make_case(rng, rng.random() < 0.6, nact, "lock-%d-%d" % (idx, j))
            run_lockstep(ctx, case)
        elif kind == "heap":
            case = make_heap_case(rng, "heap-%d-%d" % (idx, j))
            run_lockstep(ctx, case, "lockstep-many")
        elif kind == "resub":
            case = make_resub_case(rng, "resub-%d-%d" % (idx, j))
            run_lockstep(ctx, case, "lockstep-resub")
            if j % 2 == 0:
                run_e2e(ctx, case, "e2e-resub")
        elif kind == "order":
            case = make_order_case(rng, "order-%d-%d" % (idx, j))
            run_order(ctx, case)
            if j % 3 == 0:
                run_lockstep(ctx, order_as_lockstep(case), "lockstep-order")
        elif kind == "heap-e2e":
            case = make_heap_case(rng, "heap-e2e-%d-%d" % (idx, j))
            run_e2e(ctx, case, "e2e-many")
        else:
            case = make_case(rng, True, nact, "e2e-%d-%d" % (idx, j))
            run_e2e(ctx, case)
        if idx == 0 and j < 2:
            ctx.sample({"stream": kind, "cfg": case["cfg"], "actions": case["actions"][:12]})


def corpus_cases():
    out = []
    for p in sorted(glob.glob(os.path.join(core.VERIF, "corpus", "C16", "*.json"))):
        with open(p) as f:
            c = json.load(f)
        c.setdefault("name", os.path.basename(p))
        out.append(c)
    return out


def run_case(ctx, case, tag=""):
    modes = case.get("modes", ["lockstep", "e2e"])
    if "order" in modes:
        run_order(ctx, case, "order" + tag if tag else "corpus-order")
        run_lockstep(ctx, order_as_lockstep(case), "corpus" + tag)
        return
    if "lockstep" in modes:
        run_lockstep(ctx, case, "corpus" + tag)
    if "e2e" in modes and is_disciplined(case["actions"]):
        run_e2e(ctx, case, "corpus-e2e" + tag)


def shard_corpus(ctx, spec):
    for c in corpus_cases():
        run_case(ctx, c)


def run(ctx):
    # corpus first (in a worker: the virtual clock must be installed before bacpypes creates its singleton)
    core.run_shards(ctx, "harness.c16", "shard_corpus", [0])
    if ctx.quick:
        specs = [("lock", i, 10, 40) for i in range(8)] + [("e2e", i, 5, 36) for i in range(4)] + \
                [("heap", i, 5, 0) for i in range(16)] + [("heap-e2e", i, 4, 0) for i in range(4)] + \
                [("order", i, 5, 0) for i in range(8)] + [("resub", i, 3, 0) for i in range(2)]
    else:
        specs = [("lock", i, 150, 60) for i in range(20)] + [("e2e", i, 50, 60) for i in range(12)] + \
                [("heap", i, 120, 0) for i in range(16)] + [("heap-e2e", i, 40, 0) for i in range(8)] + \
                [("order", i, 80, 0) for i in range(12)] + [("resub", i, 40, 0) for i in range(4)]
    core.run_shards(ctx, "harness.c16", "shard", specs)
    # the reuse-after-completion timelines once more under `python -O` (not again inside the
    # debug-flags child: one non-default setting at a time)
    if not os.environ.get("VERIF_SUBPASS"):
        optimized_pass(ctx)


def search(ctx):
    """the correspondence or an obligation is broken and the oracle has not failed yet:
    disciplined timelines only (where the property prescribes exact counts), more of them,
    both at component level and end to end"""
    specs = [("e2e", 100 + i, 12, 50) for i in range(8)] + [("lock", 100 + i, 30, 50) for i in range(8)] + \
            [("order", 100 + i, 20, 0) for i in range(8)]
    sub = core.Ctx(ctx.prop, ctx.tier, ctx.seed)
    sub.model_ok = False
    core.run_shards(sub, "harness.c16", "shard_search", specs)
    ctx.failures.extend(sub.failures)
    ctx.evaluations += sub.evaluations


def shard_search(ctx, spec):
    kind, idx, n, nact = spec
    ctx.model_ok = False
    rng = ctx.sub_rng("c16/search/%s/%d" % (kind, idx))
    for j in range(n):
        if kind == "order":
            run_order(ctx, make_order_case(rng, "search-order-%d-%d" % (idx, j)), "search-order")
            if ctx.failures:
                return
            continue
        case = make_case(rng, True, nact, "search-%s-%d-%d" % (kind, idx, j))
        if kind == "lock":
            run_lockstep(ctx, case, "search")
        else:
            run_e2e(ctx, case, "search-e2e")
        if ctx.failures:
            return


def shard_replay(ctx, spec):
    run_case(ctx, spec, "-replay")


def replay(ctx, payload):
    rec = payload.get("failure") or (payload.get("correspondence_disagreements") or [{}])[0]
    case = rec.get("case") or {}
    case = case.get("replay", case)
    if "cfg" not in case:
        raise core.Infra("nothing to replay")
    if rec.get("optimized"):
        optimized_pass(ctx, case)
        return
    core.run_shards(ctx, "harness.c16", "shard_replay", [case])


if __name__ == "__main__":
    import sys as _sys
    if len(_sys.argv) > 2 and _sys.argv[1] == "--optimized":
        optimized_child(_sys.argv[2:])
    else:
        print("usage: python -O -m harness.c16 --optimized <out.pkl> <seed> <model_ok> [case.json]")
