"""
harness.core — shared machinery of every check (see DESIGN.md §2, §3, §4).

  * puts the CURRENT working tree of the repository first on sys.path
    (VERIF_REPO, default /repo) and refuses to run against any other copy;
  * builds the Lean obligations of a property (`lake build`), audits the
    axioms of its theorems and greps for escape hatches;
  * drives a model driver executable through the JSON line protocol;
  * collects disagreements (model vs implementation) and property failures
    (oracle evaluated on the implementation), applies known_findings.json,
    writes evidence/<id>.json and prints the verdict.

Exit codes: 0 held, 1 violation (with VIOLATION line), 2 infrastructure.
"""
import json, os, random, re, subprocess, sys, time, hashlib, tempfile, signal, collections

VERIF = os.path.dirname(os.path.dirname(os.path.abspath(__file__)))
LEAN = os.path.join(VERIF, "lean")
REPO = os.environ.get("VERIF_REPO", "/repo")
SRC = os.path.join(REPO, "py34")
ALLOWED_AXIOMS = {"propext", "Classical.choice", "Quot.sound"}
FORBIDDEN_RE = re.compile(
    r"\bsorry\b|\badmit\b|^axiom |native_decide|bv_decide|implemented_by|\bunsafe |maxHeartbeats 0")

# --------------------------------------------------------------------------
# repository binding


def bind_repo():
    """Make `import bacpypes` resolve to the working tree and verify it."""
    os.environ.setdefault("TZ", "UTC")
    try:
        time.tzset()
    except Exception:
        pass
    if SRC not in sys.path[:1]:
        sys.path.insert(0, SRC)
    for name in list(sys.modules):
        if name == "bacpypes" or name.startswith("bacpypes."):
            f = getattr(sys.modules[name], "__file__", "") or ""
            if not f.startswith(SRC):
                raise Infra("bacpypes already imported from %s" % f)
    import bacpypes  # noqa
    if not bacpypes.__file__.startswith(SRC + os.sep):
        raise Infra("bacpypes resolves to %s, not %s" % (bacpypes.__file__, SRC))
    if os.environ.get("VERIF_DEBUGFLAGS") in ("1", "2"):
        debug_flags_on()
    return bacpypes


def debug_flags_on(full=False):
    """the library's module-level debugging switched ON (every `if _debug:` block runs and evaluates its
    arguments) while the loggers stay at their default level, so nothing is formatted or printed: what a
    module does must not depend on whether it is being traced"""
    import importlib, pkgutil
    import bacpypes
    names = ["bacpypes"]
    for m in pkgutil.walk_packages(bacpypes.__path__, "bacpypes."):
        names.append(m.name)
    n = 0
    for name in names:
        try:
            mod = importlib.import_module(name)
        except Exception:
            continue
        if hasattr(mod, "_debug"):
            mod._debug = 1
            n += 1
    if os.environ.get("VERIF_DEBUGFLAGS") == "2" or full:
        # full tracing: a handler with the library's own LoggingFormatter (which walks debug_contents() of
        # every logged object) on the package logger, writing nowhere
        import logging
        from bacpypes.debugging import LoggingFormatter

        class _Null(object):
            def write(self, s):
                pass

            def flush(self):
                pass
        h = logging.StreamHandler(_Null())
        h.setLevel(logging.DEBUG)
        h.setFormatter(LoggingFormatter())
        lg = logging.getLogger("bacpypes")
        lg.addHandler(h)
        lg.setLevel(logging.DEBUG)
        lg.propagate = False
        for name in list(logging.Logger.manager.loggerDict):
            if name.startswith("bacpypes."):
                logging.getLogger(name).setLevel(logging.DEBUG)
    return n


class Infra(Exception):
    """infrastructure failure: exit 2, never a violation"""


# --------------------------------------------------------------------------
# exception -> error enum (anything unmapped becomes python:<Class>)

def exc_kind(e):
    from bacpypes import errors
    name = type(e).__name__
    table = [
        (errors.InvalidTag, "invalidTag"),
        (errors.MissingRequiredParameter, "missingRequired"),
        (errors.InvalidParameterDatatype, "invalidDatatype"),
        (errors.TooManyArguments, "tooMany"),
        (errors.ParameterOutOfRange, "valueRange"),
        (errors.EncodingError, "encoding"),
        (errors.DecodingError, "decoding"),
    ]
    for cls, k in table:
        if isinstance(e, cls):
            return k
    return "python:" + name


# --------------------------------------------------------------------------
# Lean side


def sh(cmd, cwd=None, timeout=None, env=None):
    p = subprocess.run(cmd, cwd=cwd, stdout=subprocess.PIPE, stderr=subprocess.STDOUT,
                       timeout=timeout, env=env, text=True)
    return p.returncode, p.stdout


def lake_build(targets, timeout=3000):
    """returns (ok, log)"""
    try:
        rc, out = sh(["lake", "build"] + list(targets), cwd=LEAN, timeout=timeout)
    except subprocess.TimeoutExpired:
        raise Infra("lake build timed out")
    return rc == 0, out


def lean_sources():
    for root, _dirs, files in os.walk(LEAN):
        if ".lake" in root.split(os.sep):
            continue
        for f in files:
            if f.endswith(".lean"):
                yield os.path.join(root, f)


def strip_comments(text):
    # remove /- ... -/ (nested) and -- line comments
    out, i, depth = [], 0, 0
    n = len(text)
    while i < n:
        if text.startswith("/-", i):
            depth += 1; i += 2; continue
        if depth and text.startswith("-/", i):
            depth -= 1; i += 2; continue
        if depth:
            if text[i] == "\n":
                out.append("\n")
            i += 1; continue
        if text.startswith("--", i):
            while i < n and text[i] != "\n":
                i += 1
            continue
        out.append(text[i]); i += 1
    return "".join(out)


def import_closure(roots):
    """lean source files (relative module names) reachable from the given modules
    through `import BacVerif.*` / `import Drv.*` lines"""
    seen, todo = {}, list(roots)
    while todo:
        m = todo.pop()
        if m in seen:
            continue
        path = os.path.join(LEAN, *m.split(".")) + ".lean"
        if not os.path.exists(path):
            continue
        seen[m] = path
        for line in open(path, encoding="utf-8"):
            mm = re.match(r"\s*(?:public\s+)?import\s+((?:BacVerif|Drv)\.[\w.]+)", line)
            if mm:
                todo.append(mm.group(1))
    return seen


def grep_forbidden(roots=None):
    """escape hatches in the Lean files the property's targets depend on
    (the whole tree when no roots are given)"""
    hits = []
    paths = list(import_closure(roots).values()) if roots else list(lean_sources())
    for path in sorted(paths):
        txt = strip_comments(open(path, encoding="utf-8").read())
        for ln, line in enumerate(txt.split("\n"), 1):
            if FORBIDDEN_RE.search(line):
                hits.append("%s:%d: %s" % (os.path.relpath(path, VERIF), ln, line.strip()))
    return hits


def audit_axioms(prop_id):
    """Run `#print axioms` file of the property; returns (theorems, bad)
    theorems: {name: [axioms]}, bad: list of strings"""
    path = os.path.join("BacVerif", "Audit", prop_id + ".lean")
    if not os.path.exists(os.path.join(LEAN, path)):
        raise Infra("missing audit file " + path)
    rc, out = sh(["lake", "env", "lean", path], cwd=LEAN, timeout=1800)
    thms, bad = {}, []
    # messages may wrap over several lines: join then split on the marker
    flat = re.sub(r"\s+", " ", out)
    for m in re.finditer(r"'([^']+)' depends on axioms: \[([^\]]*)\]", flat):
        axs = [a.strip() for a in m.group(2).split(",") if a.strip()]
        thms[m.group(1)] = axs
        extra = [a for a in axs if a not in ALLOWED_AXIOMS]
        if extra:
            bad.append("%s uses %s" % (m.group(1), extra))
    for m in re.finditer(r"'([^']+)' does not depend on any axioms", flat):
        thms[m.group(1)] = []
    if rc != 0:
        bad.append("audit file failed to elaborate: " + out[-2000:])
    # every `#print axioms X` in the file must be answered
    src = strip_comments(open(os.path.join(LEAN, path)).read())
    wanted = re.findall(r"#print axioms\s+(\S+)", src)
    for w in wanted:
        if w not in thms and not any(k.endswith(w) for k in thms):
            bad.append("no axiom report for " + w)
    return thms, bad


class Driver:
    """batch driver: all requests in, all replies out (same order)"""

    def __init__(self, exe):
        self.exe = os.path.join(LEAN, ".lake", "build", "bin", exe)
        if not os.path.exists(self.exe):
            raise Infra("driver %s not built" % exe)

    def ask(self, requests, timeout=3000):
        if not requests:
            return []
        with tempfile.TemporaryFile("w+") as fin:
            for r in requests:
                fin.write(json.dumps(r, separators=(",", ":")) + "\n")
            fin.flush(); fin.seek(0)
            try:
                p = subprocess.run([self.exe], stdin=fin, stdout=subprocess.PIPE,
                                   stderr=subprocess.PIPE, timeout=timeout)
            except subprocess.TimeoutExpired:
                raise Infra("driver timed out")
        if p.returncode != 0:
            raise Infra("driver failed rc=%s: %s" % (p.returncode, p.stderr.decode()[-500:]))
        lines = p.stdout.decode().split("\n")
        if lines and lines[-1] == "":
            lines.pop()
        if len(lines) != len(requests):
            raise Infra("driver answered %d of %d requests" % (len(lines), len(requests)))
        return [json.loads(l) for l in lines]


# --------------------------------------------------------------------------
# canonical comparison


def canon(o):
    return json.dumps(o, sort_keys=True, separators=(",", ":"))


def strip_br(reply):
    if isinstance(reply, dict) and "br" in reply:
        reply = dict(reply); reply.pop("br")
    return reply


# --------------------------------------------------------------------------
# the run context


class Ctx:
    def __init__(self, prop_id, tier, seed):
        self.prop = prop_id
        self.tier = tier
        self.seed = seed
        self.rng = random.Random(seed)
        self.t0 = time.time()
        self.evaluations = 0
        self.signatures = set()       # distinct non-trivial case signatures
        self.kinds = collections.Counter()
        self.errkinds = collections.Counter()
        self.samples = []
        self.disagreements = []       # (stream, case, impl, model)
        self.failures = []            # (record dict) property failures on the implementation
        self.notes = []
        self.obligations = {}
        self.broken = []              # broken proof obligations / audit problems
        self.extra = {}
        self.assumptions = []
        self.trusted = []
        self.rule = ""
        self.exhaustive = False
        self.streams = collections.Counter()

    @property
    def quick(self):
        return self.tier == "quick"

    def sub_rng(self, label):
        h = hashlib.sha256(("%d/%s" % (self.seed, label)).encode()).digest()
        return random.Random(int.from_bytes(h[:8], "big"))

    # bookkeeping ------------------------------------------------------
    def count(self, kind, signature=None, trivial=False, n=1):
        self.evaluations += n
        self.kinds[kind] += n
        if signature is not None and not trivial:
            self.signatures.add((kind, signature))

    def sample(self, case, limit=12):
        if len(self.samples) < limit:
            self.samples.append(case)

    def disagree(self, stream, case, impl, model):
        self.disagreements.append({"stream": stream, "case": case, "impl": impl, "model": model})

    def fail(self, kind, case, what, **fields):
        rec = {"kind": kind, "case": case, "what": what}
        rec.update(fields)
        self.failures.append(rec)

    # lockstep helper --------------------------------------------------
    def compare_stream(self, stream, cases, impl_replies, model_replies, sig=None):
        """diff two reply streams; counts coverage from the model's view"""
        self.streams[stream] += len(cases)
        for c, a, b in zip(cases, impl_replies, model_replies):
            br = b.get("br") if isinstance(b, dict) else None
            b2 = strip_br(b)
            if isinstance(b2, dict) and b2.get("r") == "err":
                self.errkinds[b2.get("k")] += 1
            if isinstance(b2, dict) and b2.get("r") == "bad-request":
                raise Infra("model rejected request %r: %r" % (c, b2))
            s = sig(c, b2) if sig else (br if br is not None else canon(b2)[:80])
            self.count(stream, s)
            if canon(a) != canon(b2):
                self.disagree(stream, c, a, b2)


    # sharding ---------------------------------------------------------
    def export(self):
        return {"evaluations": self.evaluations, "signatures": self.signatures,
                "kinds": self.kinds, "errkinds": self.errkinds, "samples": self.samples,
                "disagreements": self.disagreements[:50], "n_dis": len(self.disagreements),
                "failures": self.failures[:200], "notes": self.notes, "streams": self.streams}

    def merge(self, d):
        self.evaluations += d["evaluations"]
        self.signatures |= d["signatures"]
        self.kinds.update(d["kinds"]); self.errkinds.update(d["errkinds"])
        self.streams.update(d["streams"])
        for s in d["samples"]:
            self.sample(s)
        self.disagreements.extend(d["disagreements"])
        self.failures.extend(d["failures"])
        self.notes.extend(d["notes"])


def _shard_entry(args):
    fn_mod, fn_name, prop, tier, seed, spec = args
    import importlib
    try:
        bind_repo()
        mod = importlib.import_module(fn_mod)
        sub = Ctx(prop, tier, seed)
        sub.model_ok = True
        getattr(mod, fn_name)(sub, spec)
        return ("ok", sub.export())
    except Infra as e:
        return ("infra", str(e))
    except (MemoryError, OSError) as e:
        import traceback
        return ("infra", "shard crashed: " + traceback.format_exc()[-1500:])
    except Exception as e:
        # the harness itself tripped over the tree under test (never happens on the unchanged tree):
        # the correspondence of this stream no longer runs -> a broken obligation, not an infra error
        import traceback
        return ("crash", "harness stream %s.%s crashed on this tree: %s" % (
            fn_mod, fn_name, " | ".join(traceback.format_exc().strip().split("\n")[-6:])))


def run_shards(ctx, fn_mod, fn_name, specs, procs=None):
    """run fn(sub_ctx, spec) for every spec in worker processes and merge"""
    import multiprocessing as mp
    procs = procs or min(16, os.cpu_count() or 4, max(1, len(specs)))
    args = [(fn_mod, fn_name, ctx.prop, ctx.tier, ctx.seed, s) for s in specs]
    if procs == 1 or len(specs) == 1:
        results = [_shard_entry(a) for a in args]
    else:
        # ProcessPoolExecutor notices a worker that dies (e.g. killed for memory): BrokenProcessPool
        # instead of the silent hang of Pool.map
        from concurrent.futures import ProcessPoolExecutor
        from concurrent.futures.process import BrokenProcessPool
        try:
            with ProcessPoolExecutor(max_workers=procs, mp_context=mp.get_context("fork")) as ex:
                results = list(ex.map(_shard_entry, args, chunksize=1))
        except BrokenProcessPool:
            for k in _descendants(os.getpid()):      # do not leave the other workers behind
                try:
                    os.kill(k, signal.SIGKILL)
                except OSError:
                    pass
            raise Infra("a worker process died (out of memory?)")
    for kind, payload in results:
        if kind == "infra":
            raise Infra(payload)
        if kind == "crash":
            if payload not in ctx.broken:
                ctx.broken.append(payload)
            continue
        ctx.merge(payload)


# --------------------------------------------------------------------------
# known findings


def load_known(prop_id):
    path = os.path.join(VERIF, "known_findings.json")
    if not os.path.exists(path):
        return []
    data = json.load(open(path))
    return [f for f in data.get("findings", []) if f.get("property") == prop_id]


def matches(finding, rec):
    """closed predicate over the fields of a failure record"""
    m = finding.get("matches", {})
    for k, v in m.items():
        if k.endswith("_gt"):
            if not (rec.get(k[:-3]) is not None and rec.get(k[:-3]) > v):
                return False
        elif k.endswith("_in"):
            if rec.get(k[:-3]) not in v:
                return False
        elif k.endswith("_re"):
            if not re.search(v, str(rec.get(k[:-3], ""))):
                return False
        else:
            if rec.get(k) != v:
                return False
    return True


# --------------------------------------------------------------------------
# top level


def write_replay(prop_id, name, payload):
    d = os.path.join(VERIF, "replays")
    os.makedirs(d, exist_ok=True)
    path = os.path.join(d, "%s-%s.json" % (prop_id, name))
    with open(path, "w") as f:
        json.dump(payload, f, indent=1, sort_keys=True, default=str)
    return os.path.relpath(path, VERIF)


def _descendants(pid):
    kids = {}
    for d in os.listdir("/proc"):
        if d.isdigit():
            try:
                st = open("/proc/%s/stat" % d).read()
                kids.setdefault(int(st[st.rindex(")") + 2:].split()[1]), []).append(int(d))
            except (OSError, ValueError):
                pass
    out, todo = [], [pid]
    while todo:
        for k in kids.get(todo.pop(), []):
            out.append(k); todo.append(k)
    return out


def _arm_watchdog(limit):
    """hard wall-clock limit for one check: a time-out is an infrastructure result (exit 2), never a verdict;
    a tree on which something never ends must be caught by the bounded oracles long before this"""
    def on_alarm(signum, frame):
        print("INFRA: check timed out after %d s (wall clock)" % limit, flush=True)
        for k in _descendants(os.getpid()):
            try:
                os.kill(k, signal.SIGKILL)
            except OSError:
                pass
        os._exit(2)
    signal.signal(signal.SIGALRM, on_alarm)
    signal.alarm(limit)


FULL_TRACING = ("C01", "C02", "C03", "C09")


def debug_flags_pass(ctx, prop_id):
    """the quick-tier streams of this check once more in a child process with the library's module-level
    debugging switched on (see debug_flags_on): the properties are claimed for the library, not for the
    library-while-nobody-is-tracing-it.  Failures and disagreements found there are reported like any other,
    marked with the setting; the child gets its own generous time limit"""
    import pickle
    fd, path = tempfile.mkstemp(prefix="verif-subpass-", suffix=".pkl")
    os.close(fd)
    # quick tier: flags only (cheap); thorough tier: full tracing (handlers + the library's formatter, ~10x slower)
    # full tracing is used where the quick streams are light enough for it and where it has been run clean on
    # the unchanged tree (the codec checks); the state-machine checks keep the flags-only pass in both tiers
    level = "2" if (ctx.tier == "thorough" and prop_id in FULL_TRACING) else "1"
    env = dict(os.environ, VERIF_DEBUGFLAGS=level, VERIF_SUBPASS=path, VERIF_TIER="quick")
    t0 = time.time()
    try:
        p = subprocess.run([sys.executable, "-m", "harness.main", prop_id, "--tier", "quick"], cwd=VERIF, env=env,
                           capture_output=True, text=True, timeout=800 if level == "1" else 3000)
        if p.returncode != 0 or not os.path.getsize(path):
            raise Infra("debug-flags pass ended with rc %d: %s" % (p.returncode, (p.stdout + p.stderr)[-400:]))
        d = pickle.load(open(path, "rb"))
    except subprocess.TimeoutExpired:
        raise Infra("debug-flags pass timed out")
    finally:
        try:
            os.remove(path)
        except OSError:
            pass
    setting = ("module debugging switched on (every bacpypes module's _debug flag set, loggers at their default level)"
               if level == "1" else
               "module debugging switched on with full tracing (every _debug flag set, a handler with the library's LoggingFormatter on the bacpypes loggers)")
    for rec in d["failures"]:
        rec["setting"] = setting
        rec["debugflags"] = int(level)
        rec["what"] = "[with %s] %s" % ("module debugging on", rec.get("what"))
        ctx.failures.append(rec)
    for dis in d["disagreements"]:
        dis["stream"] = "debugflags:" + str(dis.get("stream"))
        ctx.disagreements.append(dis)
    for b in d.get("broken", []):
        ctx.broken.append("[module debugging on] " + b)
    ctx.evaluations += d["evaluations"]
    ctx.streams["debugflags-pass"] += d["evaluations"]
    ctx.extra["debug_flags_pass"] = {"evaluations": d["evaluations"], "failures": len(d["failures"]),
                                     "disagreements": d.get("n_dis", len(d["disagreements"])),
                                     "seconds": round(time.time() - t0, 1), "setting": setting}


def run_check(prop_id, mod, tier, seed, replay=None):
    """mod provides:
         LEAN_TARGETS : list of lake targets (Props/Audit modules, driver exe)
         GENERATED    : optional callable regenerating Lean tables from the repo
         run(ctx)     : correspondence + oracle; fills ctx
         search(ctx)  : optional focused failing-input search used when an
                        obligation or the correspondence is broken
         LEVEL, TRUSTED, ASSUMPTIONS, RULE
    """
    ctx = Ctx(prop_id, tier, seed)
    ev_path = os.path.join(VERIF, "evidence", prop_id + ".json")
    _arm_watchdog(int(os.environ.get("VERIF_TIMEOUT", "900" if tier == "quick" else "5400")))
    try:
        os.remove(ev_path)
    except OSError:
        pass
    subpass = os.environ.get("VERIF_SUBPASS")
    if subpass:
        # one more pass over this check's streams under a non-default global setting chosen by the parent
        # run (bind_repo applies it); the model is built already; the result goes back to the parent
        import pickle
        try:
            bind_repo()
            ctx.model_ok = True
            try:
                mod.run(ctx)
            except (Infra, MemoryError, OSError, KeyboardInterrupt):
                raise
            except Exception:
                import traceback
                ctx.broken.append("harness crashed on this tree: " + " | ".join(
                    traceback.format_exc().strip().split("\n")[-6:]))
        except Infra as e:
            print("INFRA: %s" % e)
            sys.exit(2)
        d = ctx.export()
        d["broken"] = ctx.broken
        pickle.dump(d, open(subpass, "wb"))
        return 0
    try:
        bind_repo()
        # 1. regenerate tables
        if getattr(mod, "GENERATED", None):
            try:
                mod.GENERATED(ctx)
            except Infra:
                raise
            except Exception as e:  # the tree no longer imports / introspects
                ctx.broken.append("translator failed: %r" % (e,))
        # 2. build
        ok, log = lake_build(mod.LEAN_TARGETS)
        model_ok = ok
        if not ok:
            errs = [l for l in log.split("\n") if "error" in l.lower()][:20]
            ctx.broken.append("lake build failed: " + " | ".join(errs))
            # is the driver itself still usable?
            drv_ok, _ = lake_build([t for t in mod.LEAN_TARGETS if t.startswith("drv_")])
            model_ok = drv_ok
        # 3. audit
        if ok:
            thms, bad = audit_axioms(prop_id)
            ctx.obligations = thms
            ctx.broken.extend(bad)
            roots = [t for t in mod.LEAN_TARGETS if t.startswith("BacVerif.")]
            roots += ["BacVerif.Audit." + prop_id]
            roots += ["Drv." + t[4:].upper() for t in mod.LEAN_TARGETS if t.startswith("drv_")]
            hits = grep_forbidden(roots)
            if hits:
                ctx.broken.append("forbidden constructs: " + "; ".join(hits[:10]))
            if tier == "thorough" and getattr(mod, "LEANCHECKER", None):
                rc, out = sh(["lake", "env", "leanchecker"] + mod.LEANCHECKER, cwd=LEAN, timeout=3000)
                ctx.extra["leanchecker"] = {"modules": mod.LEANCHECKER, "rc": rc}
                if rc != 0:
                    ctx.broken.append("leanchecker failed: " + out[-500:])
        # 4/5. correspondence + oracle
        ctx.model_ok = model_ok
        try:
            if replay:
                payload = json.load(open(replay))
                if (payload.get("failure") or {}).get("debugflags"):
                    debug_flags_on(full=(payload["failure"]["debugflags"] == 2))
                mod.replay(ctx, payload)
            else:
                mod.run(ctx)
                if os.environ.get("VERIF_DEBUGFLAGS") not in ("1", "2") and os.environ.get("VERIF_NO_DEBUGPASS") != "1":
                    debug_flags_pass(ctx, prop_id)
        except (Infra, MemoryError, OSError, KeyboardInterrupt):
            raise
        except Exception:
            # the harness tripped over the tree under test: the correspondence no longer runs
            import traceback
            ctx.broken.append("harness crashed on this tree: " + " | ".join(
                traceback.format_exc().strip().split("\n")[-6:]))
        if (ctx.broken or ctx.disagreements) and not ctx.failures and hasattr(mod, "search"):
            try:
                mod.search(ctx)
            except (Infra, MemoryError, OSError, KeyboardInterrupt):
                raise
            except Exception:
                import traceback
                ctx.broken.append("failing-input search crashed on this tree: " + " | ".join(
                    traceback.format_exc().strip().split("\n")[-4:]))
    except Infra as e:
        print("INFRA: %s" % e)
        sys.exit(2)
    except (MemoryError, OSError, subprocess.TimeoutExpired) as e:
        print("INFRA: %r" % (e,))
        sys.exit(2)
    return finish(ctx, mod, ev_path)


def finish(ctx, mod, ev_path):
    prop_id = ctx.prop
    known = load_known(prop_id)
    unlisted = []
    known_hit = collections.OrderedDict()
    for rec in ctx.failures:
        hit = None
        for f in known:
            if matches(f, rec):
                hit = f; break
        if hit is not None:
            known_hit.setdefault(hit["id"], (hit, []))[1].append(rec)
        else:
            unlisted.append(rec)
    for fid, (f, recs) in known_hit.items():
        print("KNOWN-FINDING: property=%s %s (%d cases this run; id=%s)" % (prop_id, f["what"], len(recs), fid))

    violations = 0
    lines = []
    if unlisted:
        violations += len(unlisted)
        rec = unlisted[0]
        path = write_replay(prop_id, "failing-input", {
            "property": prop_id, "seed": ctx.seed, "tier": ctx.tier,
            "failure": rec, "more": unlisted[1:10], "count": len(unlisted)})
        lines.append("VIOLATION property=%s replay=%s" % (prop_id, path))
    elif ctx.disagreements or ctx.broken:
        violations += 1
        path = write_replay(prop_id, "unchecked", {
            "property": prop_id, "seed": ctx.seed, "tier": ctx.tier,
            "broken_obligations": ctx.broken,
            "correspondence_disagreements": ctx.disagreements[:10],
            "disagreement_count": len(ctx.disagreements),
            "note": "the theorem(s) or correspondence stream(s) named here no longer check; "
                    "the failing-input search found no input on which the property itself fails"})
        lines.append("VIOLATION property=%s replay=%s no-failing-input-found" % (prop_id, path))

    n_obl = len(ctx.obligations)
    n_dis = len([k for k, v in ctx.obligations.items()
                 if not [a for a in v if a not in ALLOWED_AXIOMS]]) if not any(
                     b.startswith("lake build failed") for b in ctx.broken) else 0
    ev = {
        "property_id": prop_id,
        "tier": ctx.tier,
        "seed": ctx.seed,
        "level": getattr(mod, "LEVEL", "proof"),
        "coverage": {
            "obligations": max(n_obl, 1),
            "discharged": n_dis if n_obl else 0,
            "checker_cmd": "cd lean && lake build %s && lake env lean BacVerif/Audit/%s.lean" % (
                " ".join(mod.LEAN_TARGETS), prop_id),
            "trusted_base": getattr(mod, "TRUSTED", []) + [
                "Lean 4.33.0 kernel; axioms allowed: propext, Classical.choice, Quot.sound",
                "harness/core.py + harness/%s.py (correspondence, canonicalisation, exception map)" % prop_id.lower()],
            "theorems": {k: v for k, v in sorted(ctx.obligations.items())},
            "evaluations": ctx.evaluations,
            "distinct_nontrivial": len(ctx.signatures),
            "rule": getattr(mod, "RULE", "") or ctx.rule,
            "samples": ctx.samples[:12] or ["(no correspondence case ran)"],
            "per_stream": dict(ctx.streams),
            "per_kind": dict(ctx.kinds),
            "model_error_kinds": dict(ctx.errkinds),
            "correspondence_disagreements": len(ctx.disagreements),
            "property_failures_on_impl": len(ctx.failures),
            "known_findings_hit": {k: len(v[1]) for k, v in known_hit.items()},
            "broken_obligations": ctx.broken,
            "exhaustive": bool(ctx.exhaustive),
        },
        "assumptions": getattr(mod, "ASSUMPTIONS", []) + ctx.assumptions,
        "wall_s": round(time.time() - ctx.t0, 2),
        "violations": violations,
    }
    ev["coverage"].update(ctx.extra)
    os.makedirs(os.path.dirname(ev_path), exist_ok=True)
    with open(ev_path, "w") as f:
        json.dump(ev, f, indent=1, sort_keys=True, default=str)
    for n in ctx.notes:
        print("note:", n)
    print("%s %s seed=%d: %d obligations (%d discharged), %d cases, %d distinct, "
          "%d disagreements, %d property failures (%d unlisted), %.1fs" % (
              prop_id, ctx.tier, ctx.seed, n_obl, n_dis, ctx.evaluations, len(ctx.signatures),
              len(ctx.disagreements), len(ctx.failures), len(unlisted), time.time() - ctx.t0))
    for l in lines:
        print(l)
    return 1 if lines else 0
