"""
C08 — network-layer headers and messages encode and decode faithfully.

Correspondence streams (model = lean/Drv/C08.lean over Model.Npci):
  enc        NPDU.encode of generated headers: every (expecting-reply, priority,
             DADR shape, SADR shape) combination x hop {0,1,254,255} x message
             type classes, every message type 0..255, plus out-of-domain values
             (masking / ValueError / TypeError behaviour of the encoder)
  dec        NPDU.decode of frames built octet by octet: all 256 control octets
             (reserved bits included) x address shapes x hops x types; every
             strict prefix of valid headers; forbidden headers
  dec-exh-n  NPDU.decode of ALL octet strings of length n (n <= 2 quick, <= 3 thorough)
  menc/mdec  the twelve message classes through msg.encode+NPDU.encode and
             NPDU.decode + npdu_types dispatch + msg.decode: network lists 0..20
             (and long ones), routing tables 0..5 entries x port-info 0..255,
             256-entry tables, mutated valid frames
  bdec-exh   message bodies: all octet strings of length <= 2 for each class
Implementation-side oracle (independent of the model, written from clause 6.2):
  spec_header/spec_body give the octets the standard prescribes; ref_parse is
  an independent reference parser.  Checked on the real code: encode == spec
  octets; decode(encode(x)) == x with payload preserved; every strict prefix
  of a valid header, version != 1, SNET = 0xFFFF, SLEN = 0 raise DecodingError;
  no decoder ever raises anything but DecodingError; every accepted frame is
  read exactly as the reference reads it (never misread).
"""
import itertools
from . import core

LEAN_TARGETS = ["BacVerif.Props.C08", "drv_c08"]
LEANCHECKER = ["BacVerif.Props.C08"]
LEVEL = "proof"
RULE = ("enc: all (ER, priority, DADR shape{none, station mac 1/2/6/7/255, remote bcast, global bcast}, "
        "SADR shape{none, mac 1/6/255}) x hop{0,1,254,255} x message-type classes, every type 0..255 "
        "with vendor ids {0,1,255,256,65535}; dec: all 256 control octets x the same shapes, all strict "
        "prefixes of valid headers, forbidden headers; all octet strings of length <=2 (quick) / <=3 "
        "(thorough); messages: network lists of length 0..20 and 100..1000, tables 0..5 x port-info "
        "0..255 and 255/256 entries; all message bodies of length <=2 for each of the 12 classes; "
        "mutated valid frames.  distinct = distinct (stream, header class) signatures: control bits, "
        "address kinds, MAC-length class, message class / error kind and length bucket"
        "; history: multi-step histories in one process (refused encode/decode then valid ones, the same NPDU / message object re-used and encoded twice, aliasing of produced PDUs), each step judged like a single operation"
        "; wave 5: caller-owned input buffers (aliasing on the input side), vendor-subclass stream (run-time registered proprietary message classes 0x80..0xFF, generic decode -> typed decode -> re-encode) and subclass-history stream (unregistered user subclasses of the 12 message classes, then the standard decode streams and a registry identity check) in forked workers"
        "; wave 6: every NPDU.decode stream repeated through the bare NPCI.decode entry point (NPCI, a header-only subclass, a mix-in): hdec")
TRUSTED = ["lean/BacVerif/Model/Npci.lean is a hand transcription of npdu.py (NPCI/NPDU encode/decode, the "
           "12 message classes); tied by the enc/dec/menc/mdec/bdec correspondence streams",
           "translator/registries.py (npdu_types -> Gen/NpduTypes.lean)",
           "Python bytes/bytearray/struct"]
ASSUMPTIONS = ["field values are in range (network < 65535 for stations, octets < 256, vendor id < 65536); "
               "out-of-range values are masked (put_short) or raise ValueError/TypeError (put) — modelled and "
               "compared, but outside the property's quantifier",
               "octets after the last field of a message body are ignored by every message class (modelled so)"]

# name -> messageType as the standard / the model has it (the harness builds
# messages by class NAME so that a changed messageType shows up as a difference)
CLASSES = {
    0x00: "WhoIsRouterToNetwork", 0x01: "IAmRouterToNetwork", 0x02: "ICouldBeRouterToNetwork",
    0x03: "RejectMessageToNetwork", 0x04: "RouterBusyToNetwork", 0x05: "RouterAvailableToNetwork",
    0x06: "InitializeRoutingTable", 0x07: "InitializeRoutingTableAck",
    0x08: "EstablishConnectionToNetwork", 0x09: "DisconnectConnectionToNetwork",
    0x12: "WhatIsNetworkNumber", 0x13: "NetworkNumberIs",
}
CODE_OF = {v: k for k, v in CLASSES.items()}


def GENERATED(ctx):
    from translator import registries
    registries.gen_npdu_types()


# ---------------------------------------------------------------- implementation adapter

def mk_addr(a):
    from bacpypes.pdu import (Address, LocalStation, LocalBroadcast, RemoteStation,
                              RemoteBroadcast, GlobalBroadcast)
    if a is None:
        return None
    k = a[0]
    if k == "rs":
        x = RemoteStation(a[1] if a[1] < 65535 else 0, bytes.fromhex(a[2]))
        x.addrNet = a[1]          # out-of-range nets: past the constructor's check
        return x
    if k == "rb":
        x = RemoteBroadcast(a[1] if a[1] < 65535 else 0)
        x.addrNet = a[1]
        return x
    if k == "gb":
        return GlobalBroadcast()
    if k == "ls":
        return LocalStation(bytes.fromhex(a[1]))
    if k == "lb":
        return LocalBroadcast()
    if k == "null":
        return Address()
    raise core.Infra("bad address " + repr(a))


def jaddr(a):
    if a is None:
        return None
    t = a.addrType
    if t == 0:
        return ["null"]
    if t == 1:
        return ["lb"]
    if t == 2:
        return ["ls", bytes(a.addrAddr).hex()]
    if t == 3:
        return ["rb", a.addrNet]
    if t == 4:
        return ["rs", a.addrNet, bytes(a.addrAddr).hex()]
    if t == 5:
        return ["gb"]
    return ["?", t]


def apply_header(obj, h, with_msg=True):
    obj.npduVersion = h.get("ver", 1)
    obj.pduExpectingReply = h["er"]
    obj.pduNetworkPriority = h["pri"]
    obj.npduDADR = mk_addr(h["dadr"])
    obj.npduSADR = mk_addr(h["sadr"])
    obj.npduHopCount = h["hop"]
    if with_msg:
        obj.npduNetMessage = h["msg"]
    obj.npduVendorID = h["vid"]


def jheader(o):
    er = o.pduExpectingReply
    return {"ver": o.npduVersion, "ctl": o.npduControl, "er": er if isinstance(er, bool) else ["?", repr(er)],
            "pri": o.pduNetworkPriority, "dadr": jaddr(o.npduDADR), "sadr": jaddr(o.npduSADR),
            "hop": o.npduHopCount, "msg": o.npduNetMessage, "vid": o.npduVendorID}


def mk_msg(m):
    from bacpypes import npdu as N
    code = m[0]
    cls = getattr(N, CLASSES[code])
    if code in (0x06, 0x07):
        return cls([N.RoutingTableEntry(d, p, bytes.fromhex(i)) for d, p, i in m[1]])
    if code in (0x01, 0x04, 0x05):
        return cls(list(m[1]))
    return cls(*m[1:])


def jmsg(o):
    name = type(o).__name__
    code = CODE_OF.get(name)
    if code is None:
        return ["?", name]
    if code == 0x00:
        return [code, o.wirtnNetwork]
    if code == 0x01:
        return [code, list(o.iartnNetworkList)]
    if code == 0x02:
        return [code, o.icbrtnNetwork, o.icbrtnPerformanceIndex]
    if code == 0x03:
        return [code, o.rmtnRejectionReason, o.rmtnDNET]
    if code == 0x04:
        return [code, list(o.rbtnNetworkList)]
    if code == 0x05:
        return [code, list(o.ratnNetworkList)]
    if code in (0x06, 0x07):
        tbl = o.irtTable if code == 0x06 else o.irtaTable
        return [code, [[e.rtDNET, e.rtPortID, bytes(e.rtPortInfo).hex()] for e in tbl]]
    if code == 0x08:
        return [code, o.ectnDNET, o.ectnTerminationTime]
    if code == 0x09:
        return [code, o.dctnDNET]
    if code == 0x12:
        return [code]
    if code == 0x13:
        return [code, o.nniNet, o.nniFlag]


def err_reply(e, encoding):
    k = core.exc_kind(e)
    # bytes([n]) out of range / None where a number is needed: the encoder's own
    # refusals (ValueError / TypeError) are the model's `other`
    if encoding and k in ("python:ValueError", "python:TypeError"):
        k = "other"
    return {"r": "err", "k": k}


_header_classes = {}


def header_class(via):
    """NPCI itself, a header-only subclass with its own decode(), or a mix-in of
    NPCI with PDUData that is not NPDU — all reach NPCI.decode directly"""
    if not _header_classes:
        from bacpypes.npdu import NPCI
        from bacpypes.comm import PDUData

        class HeaderOnly(NPCI):
            def decode(self, pdu):
                NPCI.decode(self, pdu)
                self.remaining = len(pdu.pduData)

        class Sniffed(NPCI, PDUData):
            def decode(self, pdu):
                NPCI.decode(self, pdu)
                self.pduData = bytearray(pdu.pduData[:8])       # a peek, the PDU keeps its octets
        _header_classes.update(npci=NPCI, subclass=HeaderOnly, mixin=Sniffed)
    return _header_classes[via]


def impl(case):
    from bacpypes.npdu import NPDU, npdu_types
    from bacpypes.pdu import PDU
    op = case["op"]
    try:
        if op == "enc":
            n = NPDU(bytes.fromhex(case["data"]))
            apply_header(n, case["h"])
            pdu = PDU()
            n.encode(pdu)
            return {"r": "ok", "hex": bytes(pdu.pduData).hex(), "ctl": n.npduControl}
        if op == "dec":
            n = NPDU()
            n.decode(PDU(bytes.fromhex(case["hex"])))
            return {"r": "ok", "h": jheader(n), "data": bytes(n.pduData).hex()}
        if op == "hdec":
            # the bare header entry point: NPCI.decode on its own, or reached from a
            # class derived from NPCI (header-only / sniffer frames, mix-ins)
            pdu = PDU(bytes.fromhex(case["hex"]))
            o = header_class(case.get("via", "npci"))()
            o.decode(pdu)
            return {"r": "ok", "h": jheader(o), "rest": bytes(pdu.pduData).hex()}
        if op == "menc":
            msg = mk_msg(case["m"])
            apply_header(msg, case["h"], with_msg=False)
            n = NPDU()
            msg.encode(n)
            pdu = PDU()
            n.encode(pdu)
            return {"r": "ok", "hex": bytes(pdu.pduData).hex()}
        if op == "mdec":
            n = NPDU()
            n.decode(PDU(bytes.fromhex(case["hex"])))
            if n.npduNetMessage is None:
                return {"r": "ok", "kind": "apdu", "h": jheader(n), "data": bytes(n.pduData).hex()}
            if n.npduNetMessage not in npdu_types:
                return {"r": "ok", "kind": "unknown", "h": jheader(n), "data": bytes(n.pduData).hex()}
            msg = npdu_types[n.npduNetMessage]()
            msg.decode(n)
            return {"r": "ok", "kind": "msg", "h": jheader(msg), "m": jmsg(msg)}
        if op == "benc":
            msg = mk_msg(case["m"])
            n = NPDU()
            msg.encode(n)
            return {"r": "ok", "hex": bytes(n.pduData).hex()}
        if op == "bdec":
            if case["code"] not in npdu_types:
                return {"r": "unregistered"}
            msg = npdu_types[case["code"]]()
            msg.decode(NPDU(bytes.fromhex(case["hex"])))
            return {"r": "ok", "m": jmsg(msg)}
    except Exception as e:
        return err_reply(e, op in ("enc", "menc", "benc"))
    raise core.Infra("bad op " + op)


# ---------------------------------------------------------------- independent reference (clause 6.2)

def in_domain_addr(a, dest):
    if a is None:
        return True
    if a[0] == "rs":
        return 0 <= a[1] < 65535 and 1 <= len(a[2]) // 2 <= 255
    if dest and a[0] == "rb":
        return 0 <= a[1] < 65535
    return dest and a[0] == "gb"


def in_domain(h):
    if h.get("ver", 1) != 1 or not 0 <= h["pri"] <= 3:
        return False
    if not in_domain_addr(h["dadr"], True) or not in_domain_addr(h["sadr"], False):
        return False
    if (h["dadr"] is None) != (h["hop"] is None) or (h["hop"] is not None and not 0 <= h["hop"] <= 255):
        return False
    if h["msg"] is None:
        return h["vid"] is None
    if not 0 <= h["msg"] <= 255:
        return False
    if h["msg"] >= 0x80:
        return h["vid"] is not None and 0 <= h["vid"] <= 65535
    return h["vid"] is None


def spec_header(h):
    """octets of the NPCI as clause 6.2 lays them out (for in-domain headers)"""
    ctl = h["pri"]
    if h["msg"] is not None:
        ctl |= 0x80
    if h["dadr"] is not None:
        ctl |= 0x20
    if h["sadr"] is not None:
        ctl |= 0x08
    if h["er"]:
        ctl |= 0x04
    out = bytearray([1, ctl])
    for a in (h["dadr"], h["sadr"]):
        if a is None:
            continue
        if a[0] == "rs":
            mac = bytes.fromhex(a[2])
            out += a[1].to_bytes(2, "big") + bytes([len(mac)]) + mac
        elif a[0] == "rb":
            out += a[1].to_bytes(2, "big") + b"\0"
        else:
            out += b"\xff\xff\0"
    if h["dadr"] is not None:
        out.append(h["hop"])
    if h["msg"] is not None:
        out.append(h["msg"])
        if h["msg"] >= 0x80:
            out += h["vid"].to_bytes(2, "big")
    return bytes(out), ctl


def msg_in_domain(m):
    code = m[0]
    s = lambda x: 0 <= x <= 65535
    o = lambda x: 0 <= x <= 255
    if code == 0x00:
        return m[1] is None or s(m[1])
    if code in (0x01, 0x04, 0x05):
        return all(s(x) for x in m[1])
    if code in (0x02, 0x08, 0x13):
        return s(m[1]) and o(m[2])
    if code == 0x03:
        return o(m[1]) and s(m[2])
    if code in (0x06, 0x07):
        return len(m[1]) <= 255 and all(s(d) and o(p) and len(i) // 2 <= 255 for d, p, i in m[1])
    if code == 0x09:
        return s(m[1])
    return code == 0x12


def spec_body(m):
    code = m[0]
    be = lambda x: x.to_bytes(2, "big")
    if code == 0x00:
        return b"" if m[1] is None else be(m[1])
    if code in (0x01, 0x04, 0x05):
        return b"".join(be(x) for x in m[1])
    if code in (0x02, 0x08, 0x13):
        return be(m[1]) + bytes([m[2]])
    if code == 0x03:
        return bytes([m[1]]) + be(m[2])
    if code in (0x06, 0x07):
        out = bytearray([len(m[1])])
        for d, p, i in m[1]:
            info = bytes.fromhex(i)
            out += be(d) + bytes([p, len(info)]) + info
        return bytes(out)
    if code == 0x09:
        return be(m[1])
    return b""


def overflows(case):
    """does the case carry a MAC, routing table or port-info longer than 255?"""
    h = case.get("h")
    if h:
        for a in (h["dadr"], h["sadr"]):
            if a is not None and a[0] == "rs" and len(a[2]) // 2 > 255:
                return True
    m = case.get("m")
    if m and m[0] in (0x06, 0x07):
        return len(m[1]) > 255 or any(len(i) // 2 > 255 for _d, _p, i in m[1])
    return False


class Refuse(Exception):
    pass


def ref_parse(b):
    """reference reading of an NPDU: (header dict, payload) or Refuse"""
    if len(b) < 2 or b[0] != 1:
        raise Refuse()
    ctl = b[1]
    pos = [2]

    def take(n):
        if len(b) - pos[0] < n:
            raise Refuse()
        v = b[pos[0]:pos[0] + n]
        pos[0] += n
        return v
    dadr = sadr = hop = msg = vid = None
    if ctl & 0x20:
        net = int.from_bytes(take(2), "big")
        ln = take(1)[0]
        mac = take(ln)
        dadr = ["gb"] if net == 0xFFFF else ["rb", net] if ln == 0 else ["rs", net, mac.hex()]
    if ctl & 0x08:
        net = int.from_bytes(take(2), "big")
        ln = take(1)[0]
        mac = take(ln)
        if net == 0xFFFF or ln == 0:
            raise Refuse()
        sadr = ["rs", net, mac.hex()]
    if ctl & 0x20:
        hop = take(1)[0]
    if ctl & 0x80:
        msg = take(1)[0]
        if msg >= 0x80:
            vid = int.from_bytes(take(2), "big")
    h = {"ver": 1, "ctl": ctl, "er": bool(ctl & 4), "pri": ctl & 3, "dadr": dadr, "sadr": sadr,
         "hop": hop, "msg": msg, "vid": vid}
    return h, bytes(b[pos[0]:])


def ref_body(code, b):
    """reference reading of a message body"""
    def short(i):
        if len(b) < i + 2:
            raise Refuse()
        return int.from_bytes(b[i:i + 2], "big")

    def octet(i):
        if len(b) < i + 1:
            raise Refuse()
        return b[i]
    if code == 0x00:
        return [code, None] if not b else [code, short(0)]
    if code in (0x01, 0x04, 0x05):
        if len(b) % 2:
            raise Refuse()
        return [code, [short(i) for i in range(0, len(b), 2)]]
    if code in (0x02, 0x08, 0x13):
        return [code, short(0), octet(2)]
    if code == 0x03:
        return [code, octet(0), short(1)]
    if code in (0x06, 0x07):
        n = octet(0)
        i, tbl = 1, []
        for _ in range(n):
            d = short(i)
            p = octet(i + 2)
            ln = octet(i + 3)
            if len(b) < i + 4 + ln:
                raise Refuse()
            tbl.append([d, p, bytes(b[i + 4:i + 4 + ln]).hex()])
            i += 4 + ln
        return [code, tbl]
    if code == 0x09:
        return [code, short(0)]
    if code == 0x12:
        return [code]
    raise core.Infra("no reference for code %r" % code)


def ref_mdec(b):
    h, payload = ref_parse(b)
    if h["msg"] is None:
        return {"r": "ok", "kind": "apdu", "h": h, "data": payload.hex()}
    if h["msg"] not in CLASSES:
        return {"r": "ok", "kind": "unknown", "h": h, "data": payload.hex()}
    return {"r": "ok", "kind": "msg", "h": h, "m": ref_body(h["msg"], payload)}


def short_case(case):
    s = core.canon(case)
    return case if len(s) < 700 else {"op": case["op"], "abridged": s[:700]}


def oracle(ctx, case, a):
    op = case["op"]
    k = a.get("k", "") if a.get("r") == "err" else ""
    if k.startswith("python:"):
        ctx.fail("unexpected-exception", case, "raised %s" % k, op=op)
        return
    if op in ("dec", "hdec", "mdec", "bdec") and a.get("r") == "err" and k != "decoding":
        ctx.fail("wrong-error", case, "decoder failed with %s, not DecodingError" % k, op=op)
        return
    if op in ("enc", "menc", "benc") and a.get("r") == "ok" and overflows(case):
        # a count/length that does not fit its one-octet field must be refused, not cut down
        ctx.fail("silently-truncated", case, "a list / address longer than its length octet can say was "
                 "encoded instead of refused: %s…" % a["hex"][:40], op=op)
        return
    if op == "enc":
        h = case["h"]
        if not in_domain(h):
            return
        exp, ctl = spec_header(h)
        exp = exp + bytes.fromhex(case["data"])
        if a.get("r") != "ok":
            ctx.fail("encode-refused", case, "valid header refused: %r" % (a,), op=op)
            return
        if a["hex"] != exp.hex() or a["ctl"] != ctl:
            ctx.fail("layout", case, "octets %s differ from clause 6.2 layout %s" % (a["hex"][:80], exp.hex()[:80]), op=op)
        back = impl({"op": "dec", "hex": a["hex"]})
        want = dict(h, ver=1, ctl=ctl, er=bool(h["er"]))
        if back.get("r") != "ok" or back["h"] != want or back["data"] != case["data"]:
            ctx.fail("roundtrip", case, "decode(encode(h,data)) = %r" % (back,), op=op)
    elif op == "dec":
        b = bytes.fromhex(case["hex"])
        try:
            h, payload = ref_parse(b)
            want = {"r": "ok", "h": h, "data": payload.hex()}
        except Refuse:
            want = {"r": "err", "k": "decoding"}
        if a != want:
            kind = "not-refused" if want["r"] == "err" else "misread"
            ctx.fail(kind, case, "decoded %r, clause 6.2 reading is %r" % (a, want), op=op)
    elif op == "hdec":
        b = bytes.fromhex(case["hex"])
        try:
            h, payload = ref_parse(b)
            want = {"r": "ok", "h": h, "rest": payload.hex()}
        except Refuse:
            want = {"r": "err", "k": "decoding"}
        if a != want:
            kind = "not-refused" if want["r"] == "err" else "misread"
            ctx.fail(kind, case, "NPCI.decode (bare header entry point, via %s) gave %r, clause 6.2 reading is %r" % (
                case.get("via", "npci"), a, want), op=op)
    elif op == "menc":
        h, m = case["h"], case["m"]
        hh = dict(h, msg=m[0])
        if not (in_domain(hh) and msg_in_domain(m)):
            return
        exp = spec_header(hh)[0] + spec_body(m)
        if a.get("r") != "ok":
            ctx.fail("encode-refused", case, "valid message refused: %r" % (a,), op=op)
            return
        if a["hex"] != exp.hex():
            ctx.fail("layout", case, "octets %s differ from the standard's %s" % (a["hex"][:80], exp.hex()[:80]), op=op)
        back = impl({"op": "mdec", "hex": a["hex"]})
        want_h = dict(hh, ver=1, ctl=spec_header(hh)[1], er=bool(h["er"]))
        if back.get("r") != "ok" or back.get("kind") != "msg" or back["m"] != m or back["h"] != want_h:
            ctx.fail("roundtrip", case, "decode(encode(msg)) = %s" % (core.canon(back)[:300],), op=op)
    elif op == "mdec":
        b = bytes.fromhex(case["hex"])
        try:
            want = ref_mdec(b)
        except Refuse:
            want = {"r": "err", "k": "decoding"}
        if a != want:
            kind = "not-refused" if want["r"] == "err" else "misread"
            ctx.fail(kind, case, "decoded %s, reference reading is %s" % (
                core.canon(a)[:300], core.canon(want)[:300]), op=op)
    elif op == "benc":
        m = case["m"]
        if not msg_in_domain(m):
            return
        if a.get("r") != "ok" or a["hex"] != spec_body(m).hex():
            ctx.fail("layout", case, "body %r differs from the standard's %s" % (a, spec_body(m).hex()[:80]), op=op)
            return
        back = impl({"op": "bdec", "code": m[0], "hex": a["hex"]})
        if back.get("r") != "ok" or back["m"] != m:
            ctx.fail("roundtrip", case, "decode(encode(body)) = %s" % (core.canon(back)[:300],), op=op)
    elif op == "bdec":
        if case["code"] not in CLASSES:
            return
        b = bytes.fromhex(case["hex"])
        try:
            want = {"r": "ok", "m": ref_body(case["code"], b)}
        except Refuse:
            want = {"r": "err", "k": "decoding"}
        if a != want:
            kind = "not-refused" if want["r"] == "err" else "misread"
            ctx.fail(kind, case, "decoded %s, reference reading is %s" % (
                core.canon(a)[:300], core.canon(want)[:300]), op=op)


# ---------------------------------------------------------------- generators

def mac(n, rng):
    return rng.getrandbits(8 * n).to_bytes(n, "big").hex() if n else ""


NETS = [0, 1, 2, 255, 256, 4660, 65534]
HOPS = [0, 1, 254, 255]
VIDS = [0, 1, 255, 256, 65535]


def dadr_shapes(rng):
    net = lambda: rng.choice(NETS)
    return [None, ["rs", net(), mac(1, rng)], ["rs", net(), mac(2, rng)], ["rs", net(), mac(6, rng)],
            ["rs", net(), mac(7, rng)], ["rs", net(), mac(255, rng)], ["rb", net()], ["gb"]]


def sadr_shapes(rng):
    net = lambda: rng.choice(NETS)
    return [None, ["rs", net(), mac(1, rng)], ["rs", net(), mac(6, rng)], ["rs", net(), mac(255, rng)]]


def payload(rng):
    return bytes(rng.getrandbits(8) for _ in range(rng.choice([0, 0, 1, 2, 5, 60]))).hex()


def mk_h(er, pri, dadr, sadr, hop, msg, vid):
    return {"er": er, "pri": pri, "dadr": dadr, "sadr": sadr, "hop": hop, "msg": msg, "vid": vid}


def msg_choices(rng):
    """message-type classes: none, registered, unregistered standard, proprietary"""
    out = [(None, None), (rng.choice(sorted(CLASSES)), None), (rng.choice([0x0A, 0x11, 0x14, 0x7F]), None)]
    out += [(0x80, rng.choice(VIDS)), (0xFF, rng.choice(VIDS)), (rng.randrange(0x81, 0xFF), rng.choice(VIDS))]
    return out


def gen_enc(ctx, rng):
    cases = []
    for er, pri in itertools.product([False, True], range(4)):
        for dadr in dadr_shapes(rng):
            for sadr in sadr_shapes(rng):
                for hop in (HOPS if dadr is not None else [None]):
                    for msg, vid in msg_choices(rng):
                        cases.append({"op": "enc", "h": mk_h(er, pri, dadr, sadr, hop, msg, vid), "data": payload(rng)})
    # every message type with every vendor-id boundary
    for msg in range(256):
        for vid in (VIDS if msg >= 0x80 else [None]):
            d = rng.choice(dadr_shapes(rng))
            cases.append({"op": "enc", "data": payload(rng), "h": mk_h(
                rng.random() < .5, rng.randrange(4), d, rng.choice(sadr_shapes(rng)),
                rng.choice(HOPS) if d is not None else None, msg, vid)})
    if ctx.quick:
        # keep the long-MAC population moderate in the quick tier
        long_ = [c for c in cases if len(core.canon(c)) > 900]
        keep = set(id(c) for c in rng.sample(long_, min(len(long_), 900)))
        cases = [c for c in cases if len(core.canon(c)) <= 900 or id(c) in keep]
    return cases


def gen_enc_outside(ctx, rng):
    """out-of-domain inputs: what the encoder really does (mask / refuse / write nothing)"""
    cases = []
    base = lambda **kw: dict(mk_h(False, 0, None, None, None, None, None), **kw)
    for pri in (4, 5, 7, 255, 256):
        cases.append({"op": "enc", "h": base(pri=pri), "data": ""})
    for ver in (0, 2, 255, 256):
        cases.append({"op": "enc", "h": base(ver=ver), "data": "00"})
    for net in (65535, 65536, 70000):
        cases.append({"op": "enc", "h": base(dadr=["rs", net, "01"], hop=255), "data": ""})
        cases.append({"op": "enc", "h": base(dadr=["rb", net], hop=255), "data": ""})
        cases.append({"op": "enc", "h": base(sadr=["rs", net, "01"]), "data": ""})
    for n in (0, 256, 300):
        cases.append({"op": "enc", "h": base(dadr=["rs", 1, "00" * n], hop=1), "data": ""})
        cases.append({"op": "enc", "h": base(sadr=["rs", 1, "00" * n]), "data": ""})
    for a in (["ls", "01"], ["lb"], ["null"], ["ls", ""]):
        cases.append({"op": "enc", "h": base(dadr=a, hop=9), "data": "aa"})
        cases.append({"op": "enc", "h": base(sadr=a), "data": "aa"})
    for a in (["rb", 5], ["gb"]):
        cases.append({"op": "enc", "h": base(sadr=a), "data": ""})
    cases.append({"op": "enc", "h": base(dadr=["gb"], hop=None), "data": ""})
    cases.append({"op": "enc", "h": base(dadr=None, hop=7), "data": ""})
    for hop in (256, 1000):
        cases.append({"op": "enc", "h": base(dadr=["gb"], hop=hop), "data": ""})
    for msg in (256, 257, 1000):
        cases.append({"op": "enc", "h": base(msg=msg), "data": ""})
        cases.append({"op": "enc", "h": base(msg=msg, vid=1), "data": ""})
    cases.append({"op": "enc", "h": base(msg=0x80), "data": ""})          # vendor id missing
    cases.append({"op": "enc", "h": base(msg=0x7F, vid=9), "data": ""})   # vendor id ignored
    for vid in (65536, 70000):
        cases.append({"op": "enc", "h": base(msg=0x90, vid=vid), "data": ""})
    return cases


def build_frame(ctl, dadr, sadr, hop, msg, vid, data, rng):
    """octets for an arbitrary control octet (reserved bits included); the
    sections follow the control bits"""
    out = bytearray([1, ctl])

    def put_addr(a):
        if a[0] == "rs":
            m = bytes.fromhex(a[2])
            out.extend(a[1].to_bytes(2, "big") + bytes([len(m)]) + m)
        elif a[0] == "rb":
            out.extend(a[1].to_bytes(2, "big") + b"\0")
        elif a[0] == "gb":
            out.extend(b"\xff\xff\0")
        elif a[0] == "gbx":       # DNET=0xFFFF with a non-empty DADR
            m = bytes.fromhex(a[1])
            out.extend(b"\xff\xff" + bytes([len(m)]) + m)
    if ctl & 0x20:
        put_addr(dadr)
    if ctl & 0x08:
        put_addr(sadr)
    if ctl & 0x20:
        out.append(hop)
    if ctl & 0x80:
        out.append(msg)
        if msg >= 0x80:
            out.extend(vid.to_bytes(2, "big"))
    out.extend(data)
    return bytes(out)


def gen_dec(ctx, rng):
    cases = []
    t = 0
    for ctl in range(256):
        dshapes = [s for s in dadr_shapes(rng) if s is not None] + [["gbx", mac(3, rng)]]
        sshapes = [s for s in sadr_shapes(rng) if s is not None]
        if not ctl & 0x20:
            dshapes = dshapes[:1]
        if not ctl & 0x08:
            sshapes = sshapes[:1]
        for d in dshapes:
            for s in sshapes:
                for hop in (HOPS if ctl & 0x20 else [0]):
                    t = (t + 37) % 256          # walks through every message type
                    data = bytes.fromhex(payload(rng))
                    cases.append({"op": "dec", "hex": build_frame(ctl, d, s, hop, t, rng.choice(VIDS), data, rng).hex()})
    # every control octet with the message bit x every message type
    for ctl in range(128, 256):
        for msg in range(256):
            d = rng.choice([s for s in dadr_shapes(rng) if s is not None][:4] + [["rb", 7], ["gb"]])
            s = rng.choice([s for s in sadr_shapes(rng) if s is not None][:2])
            cases.append({"op": "dec", "hex": build_frame(ctl, d, s, rng.choice(HOPS), msg, rng.choice(VIDS),
                                                          bytes.fromhex(payload(rng)), rng).hex()})
    # forbidden headers: version, SNET = 0xFFFF, SLEN = 0
    for ctl in range(256):
        good = build_frame(ctl, ["rs", 5, "0a"], ["rs", 6, "0b0c"], 255, 0x13, 0, b"\x00\x07\x01", rng)
        for ver in (0, 2, 0x81, 255):
            cases.append({"op": "dec", "hex": (bytes([ver]) + good[1:]).hex()})
        if ctl & 0x08:
            for bad in (["rs", 65535, "0a"], ["rb", 9], ["gb"], ["rs", 65535, ""]):
                cases.append({"op": "dec", "hex": build_frame(ctl, ["rb", 5], bad, 255, 1, 0, b"", rng).hex()})
    if ctx.quick:
        cases = [c for c in cases if len(c["hex"]) < 400] + rng.sample([c for c in cases if len(c["hex"]) >= 400], 1500)
    return cases


def boundaries(b):
    """interesting cut points of a header: around every field boundary"""
    out = set(range(0, min(len(b), 14)))
    out |= set(range(max(0, len(b) - 8), len(b)))
    return sorted(out)


def gen_prefixes(ctx, rng, enc_cases):
    """every strict prefix of valid headers (all of them for short headers, all
    field boundaries and a sample of interior cuts for 255-octet MACs)"""
    cases = []
    pool = [c for c in enc_cases if in_domain(c["h"])]
    n = 500 if ctx.quick else 5000
    for c in rng.sample(pool, min(n, len(pool))):
        hdr = spec_header(c["h"])[0]
        cuts = range(len(hdr)) if len(hdr) <= 40 else sorted(set(boundaries(hdr)) | set(
            rng.randrange(len(hdr)) for _ in range(12)) | set(range(255, min(len(hdr), 275))))
        for k in cuts:
            cases.append({"op": "dec", "hex": hdr[:k].hex(), "prefix_of": len(hdr)})
    return cases


def gen_msgs(ctx, rng):
    """[code, params] for all twelve classes over the property's quantifier"""
    net = lambda: rng.choice([0, 1, 255, 256, 65534, 65535, rng.randrange(65536)])
    oct_ = lambda: rng.choice([0, 1, 127, 128, 255, rng.randrange(256)])
    ms = [[0x00, None], [0x12]]
    for n in NETS + [65535]:
        ms.append([0x00, n])
        ms.append([0x09, n])
        for o in (0, 1, 127, 255):
            ms.append([0x02, n, o]); ms.append([0x03, o, n]); ms.append([0x08, n, o]); ms.append([0x13, n, o])
    for code in (0x01, 0x04, 0x05):
        for ln in list(range(0, 21)) + [100, 255, 256, 1000]:
            ms.append([code, [net() for _ in range(ln)]])
    infos = list(range(0, 256)) if not ctx.quick else [0, 1, 2, 3, 7, 8, 100, 127, 128, 253, 254, 255] + rng.sample(range(256), 12)
    for code in (0x06, 0x07):
        for n in range(0, 6):
            for ln in (infos if n in (1, 2) else [0, 1, 255]):
                tbl = [[net(), oct_(), mac(ln if j == 0 else rng.choice([0, 1, 5, ln]), rng)] for j in range(n)]
                ms.append([code, tbl])
        for n in (40, 254, 255):
            ms.append([code, [[net(), oct_(), mac(rng.choice([0, 0, 1, 3]), rng)] for _ in range(n)]])
    return ms


def gen_msgs_outside(ctx, rng):
    ms = []
    for code in (0x06, 0x07):
        for n in (256, 257, 300):
            ms.append([code, [[1, 2, ""] for _ in range(n)]])       # 256 entries: refused by the encoder
        ms.append([code, [[1, 2, "00" * 256]]])                      # port info of 256 octets
        ms.append([code, [[1, 256, ""]]])
        ms.append([code, [[70000, 1, "aa"]]])
    ms += [[0x00, 65536], [0x00, 70000], [0x01, [65536, 1, 131071]], [0x02, 70000, 1], [0x02, 1, 256],
           [0x03, 256, 1], [0x03, 1, 70000], [0x08, 1, 256], [0x09, 65536], [0x13, 65537, 1], [0x13, 1, 300]]
    return ms


def gen_menc(ctx, rng):
    cases = []
    dsh, ssh = dadr_shapes(rng), sadr_shapes(rng)
    small_d = [a for a in dsh if a is None or a[0] != "rs" or len(a[2]) <= 14]
    small_s = [a for a in ssh if a is None or len(a[2]) <= 12]
    for m in gen_msgs(ctx, rng):
        d = rng.choice(small_d if rng.random() < .9 else dsh)
        h = mk_h(rng.random() < .5, rng.randrange(4), d, rng.choice(small_s if rng.random() < .9 else ssh),
                 rng.choice(HOPS) if d is not None else None, None, None)
        cases.append({"op": "menc", "h": h, "m": m})
        cases.append({"op": "benc", "m": m})
    for m in gen_msgs_outside(ctx, rng):
        cases.append({"op": "menc", "h": mk_h(False, 0, None, None, None, None, None), "m": m})
        cases.append({"op": "benc", "m": m})
    return cases


def gen_mutated(ctx, rng, frames):
    cases = []
    n = 4000 if ctx.quick else 120000
    frames = [f for f in frames if 0 < len(f) < 700]
    for _ in range(n):
        b = bytearray(rng.choice(frames))
        kind = rng.randrange(7)
        if kind == 0:
            b[rng.randrange(len(b))] = rng.getrandbits(8)
        elif kind == 1:
            b[rng.randrange(min(len(b), 8))] = rng.choice([0, 1, 0xFF, 0x80, 0x7F, rng.getrandbits(8)])
        elif kind == 2:
            del b[rng.randrange(len(b)):]
        elif kind == 3:
            b.insert(rng.randrange(len(b) + 1), rng.getrandbits(8))
        elif kind == 4:
            del b[rng.randrange(len(b))]
        elif kind == 5 and len(b) > 1:
            b[1] = rng.getrandbits(8)           # another control octet over the same octets
        else:
            b = bytearray([1]) + bytearray(rng.getrandbits(8) for _ in range(rng.choice([1, 2, 3, 5, 9, 20])))
        cases.append({"op": "mdec", "hex": bytes(b).hex()})
    return cases


def gen_mdec_typed(ctx, rng):
    """every message type x short bodies through the full dispatch"""
    cases = []
    for msg in range(256):
        for body in (b"", b"\x00", b"\x00\x01", b"\x00\x01\x02", b"\x01\x00\x05\x02\x00", b"\x01\x00\x05\x02\x02\xaa\xbb\xcc"):
            ctl = 0x80 | rng.choice([0, 0x04, 0x20, 0x28, 0x08]) | rng.randrange(4)
            cases.append({"op": "mdec", "hex": build_frame(ctl, ["rb", 3], ["rs", 4, "01"], 254, msg, 260, body, rng).hex()})
    return cases


# ---------------------------------------------------------------- signatures

def maclass(n):
    return 0 if n == 0 else 1 if n == 1 else 2 if n <= 6 else 3 if n < 255 else 4


def addr_sig(a):
    if a is None:
        return "-"
    if a[0] in ("rs", "ls"):
        return a[0] + str(maclass(len(a[-1]) // 2))
    return a[0]


def msg_class(m):
    return "-" if m is None else "reg" if m in CLASSES else "std" if m < 0x80 else "prop" if m < 256 else "big"


def h_sig(h):
    return (h["er"] if isinstance(h["er"], bool) else "?", min(h["pri"], 4), addr_sig(h["dadr"]), addr_sig(h["sadr"]),
            "-" if h["hop"] is None else min(h["hop"], 256) if h["hop"] in (0, 255) else 1, msg_class(h["msg"]))


def m_sig(m):
    code = m[0]
    if code in (0x01, 0x04, 0x05):
        return (code, min(len(m[1]), 21))
    if code in (0x06, 0x07):
        return (code, min(len(m[1]), 6), maclass(len(m[1][0][2]) // 2) if m[1] else "-")
    if code == 0x00:
        return (code, m[1] is None)
    return (code,)


def sig(case, r):
    op = case["op"]
    if r.get("r") == "err":
        n = len(case.get("hex", "")) // 2
        extra = (n if n < 8 else 8,) if "hex" in case else ()
        if op == "bdec":
            extra += (case["code"],)
        elif op in ("dec", "hdec", "mdec") and n >= 2:
            extra += (case["hex"][:2] == "01", int(case["hex"][2:4], 16) & 0xA8)
        elif op in ("enc", "menc"):
            extra += h_sig(case["h"])
        return ("err", r["k"]) + extra
    if op == "enc":
        return h_sig(case["h"]) + (r["ctl"],)
    if op == "dec":
        return h_sig(r["h"]) + (r["h"]["ctl"] & 0x50, min(len(r["data"]) // 2, 2))
    if op == "hdec":
        return h_sig(r["h"]) + (r["h"]["ctl"] & 0x50, min(len(r["rest"]) // 2, 2), case.get("via", "npci"))
    if op == "menc":
        return m_sig(case["m"]) + (case["h"]["dadr"] is None, case["h"]["sadr"] is None)
    if op == "mdec":
        if r["kind"] == "msg":
            return ("msg",) + m_sig(r["m"]) + (r["h"]["ctl"] & 0x28,)
        return (r["kind"], msg_class(r["h"]["msg"]), r["h"]["ctl"] & 0x28)
    if op == "benc":
        return m_sig(case["m"])
    if op == "bdec":
        return m_sig(r["m"]) if r.get("r") == "ok" else (r.get("r"),)
    return ()


# ---------------------------------------------------------------- histories: state left behind, object reuse

class Probe:
    """stands in for ctx while one step of a history is judged"""

    def __init__(self):
        self.failures = []

    def fail(self, kind, case, what, **fields):
        self.failures.append((kind, what))


def set_msg_params(o, m):
    """give an existing message object the parameters of m (same class)"""
    from bacpypes.npdu import RoutingTableEntry
    code = m[0]
    if code == 0x00:
        o.wirtnNetwork = m[1]
    elif code == 0x01:
        o.iartnNetworkList = list(m[1])
    elif code == 0x02:
        o.icbrtnNetwork, o.icbrtnPerformanceIndex = m[1], m[2]
    elif code == 0x03:
        o.rmtnRejectionReason, o.rmtnDNET = m[1], m[2]
    elif code == 0x04:
        o.rbtnNetworkList = list(m[1])
    elif code == 0x05:
        o.ratnNetworkList = list(m[1])
    elif code in (0x06, 0x07):
        tbl = [RoutingTableEntry(d, p, bytes.fromhex(i)) for d, p, i in m[1]]
        if code == 0x06:
            o.irtTable = tbl
        else:
            o.irtaTable = tbl
    elif code == 0x08:
        o.ectnDNET, o.ectnTerminationTime = m[1], m[2]
    elif code == 0x09:
        o.dctnDNET = m[1]
    elif code == 0x13:
        o.nniNet, o.nniFlag = m[1], m[2]


def hist_encode(st, slots, probe):
    """one `enc` / `menc` step of a history.  With a slot the SAME NPDU /
    message object is used again (fields reassigned, payload patched in place
    when its size allows).  Beyond the reply it checks that the produced PDU
    and the source object do not share a buffer and that consuming the PDU
    leaves the source able to produce the very same octets again."""
    from bacpypes.npdu import NPDU
    from bacpypes.pdu import PDU
    op, slot = st["op"], st.get("slot")
    try:
        if op == "enc":
            data = bytes.fromhex(st["data"])
            src = slots.get(("enc", slot)) if slot is not None else None
            if src is None:
                payload = bytearray(data)           # caller-owned buffer …
                src = NPDU(payload)
                payload[:] = b"\x30\x01\x0c"        # … recycled for the next APDU before this one goes out
                payload += b"\x99"
                if slot is not None:
                    slots[("enc", slot)] = src
            elif len(src.pduData) == len(data):
                src.pduData[:] = data
            else:
                src.pduData = bytearray(data)
            apply_header(src, st["h"])

            def produce():
                pdu = PDU()
                src.encode(pdu)
                return pdu, None
        else:
            m = st["m"]
            src = slots.get(("menc", slot, m[0])) if slot is not None else None
            if src is None:
                src = mk_msg(m)
                if slot is not None:
                    slots[("menc", slot, m[0])] = src
            else:
                set_msg_params(src, m)
            apply_header(src, st["h"], with_msg=False)

            def produce():
                n = NPDU()
                src.encode(n)               # NPCI.update copy + body
                pdu = PDU()
                n.encode(pdu)
                return pdu, n
        pdu, mid = produce()
        first = bytes(pdu.pduData).hex()
        reply = {"r": "ok", "hex": first}
        if op == "enc":
            reply["ctl"] = src.npduControl
    except Exception as e:
        return err_reply(e, True)
    # aliasing and repeatability
    try:
        shared = pdu.pduData is getattr(src, "pduData", None) or (mid is not None and (
            mid.pduData is pdu.pduData or mid.pduData is src.pduData))
        before = jmsg(src) if op == "menc" else bytes(src.pduData).hex()
        del pdu.pduData[:]                      # what a decoder does to a PDU
        if mid is not None:
            mid.pduData += b"\xee"              # the intermediate NPDU is ours to change
            mid.npduHopCount, mid.npduDADR, mid.npduVendorID = 1, None, 77
        after = jmsg(src) if op == "menc" else bytes(src.pduData).hex()
        again = bytes(produce()[0].pduData).hex()
    except Exception as e:
        again, shared, before, after = "raised %r" % (e,), False, None, None
    if shared:
        probe.fail("aliasing", None, "the produced PDU shares its buffer with the object it was encoded from")
    elif before != after:
        probe.fail("aliasing", None, "consuming / changing the produced PDUs changed the source object: %r -> %r" % (before, after))
    elif again != first:
        probe.fail("not-repeatable", None, "the same object encoded again gives %s, first time %s" % (again[:80], first[:80]))
    return reply


def decode_from(op, source):
    """NPDU().decode(PDU(source)) (+ registry dispatch and typed decode for
    mdec); `source` is whatever the caller hands to PDU().  (reply, decoded object)"""
    from bacpypes.npdu import NPDU, npdu_types
    from bacpypes.pdu import PDU
    try:
        n = NPDU()
        n.decode(PDU(source))
        if op == "dec":
            return {"r": "ok", "h": jheader(n), "data": bytes(n.pduData).hex()}, n
        if n.npduNetMessage is None:
            return {"r": "ok", "kind": "apdu", "h": jheader(n), "data": bytes(n.pduData).hex()}, n
        if n.npduNetMessage not in npdu_types:
            return {"r": "ok", "kind": "unknown", "h": jheader(n), "data": bytes(n.pduData).hex()}, n
        msg = npdu_types[n.npduNetMessage]()
        msg.decode(n)
        return {"r": "ok", "kind": "msg", "h": jheader(msg), "m": jmsg(msg)}, msg
    except Exception as e:
        return err_reply(e, False), None


def snapshot(o):
    return core.canon([jheader(o), bytes(o.pduData).hex(), jmsg(o) if type(o).__name__ in CODE_OF else None])


def hist_decode(st, probe):
    """one `dec` / `mdec` step: the frame sits in a CALLER-OWNED bytearray (a
    receive buffer) and, separately, in another PDU's pduData.  Decoding must
    leave the caller's buffer alone, the same frame object presented again
    must be read the same way, and changing the buffer afterwards must not
    change what was decoded."""
    from bacpypes.pdu import PDU
    op = st["op"]
    keep = bytes.fromhex(st["hex"])
    frame = bytearray(keep)
    reply, obj = decode_from(op, frame)
    if bytes(frame) != keep:
        probe.fail("aliasing", None, "decoding PDU(frame) changed the caller's frame buffer: %d of %d octets left" % (len(frame), len(keep)))
        return reply
    again, _ = decode_from(op, frame)
    if again != reply:
        probe.fail("not-repeatable", None, "the same frame object presented again reads %s" % (core.canon(again)[:200],))
    outer = PDU(keep)
    third, _ = decode_from(op, outer.pduData)
    if bytes(outer.pduData) != keep:
        probe.fail("aliasing", None, "decoding PDU(other.pduData) emptied / changed the other PDU")
    elif third != reply:
        probe.fail("not-repeatable", None, "the frame taken from another PDU reads %s" % (core.canon(third)[:200],))
    if obj is not None:
        before = snapshot(obj)
        frame[:] = b"\xff" * len(frame)
        frame += b"\x00\x01"
        if snapshot(obj) != before:
            probe.fail("aliasing", None, "changing the caller's buffer after decoding changed the decoded message")
    return reply


def exec_history(steps):
    """run the steps in order in THIS process; [(stateless case, reply, [(kind, what)])]"""
    slots, out = {}, []
    for st in steps:
        case = {k: v for k, v in st.items() if k != "slot"}
        probe, reuse = Probe(), Probe()
        if st["op"] in ("enc", "menc"):
            reply = hist_encode(st, slots, reuse)
        elif st["op"] in ("dec", "mdec"):
            reply = hist_decode(st, reuse)
        else:
            reply = impl(case)
        oracle(probe, case, reply)              # layout / round trip of ITS OWN fields first
        if "prefix_of" in case and reply != {"r": "err", "k": "decoding"}:
            probe.fail("prefix-accepted", case, "strict prefix of a valid header accepted: %r" % (reply,))
        out.append((case, reply, probe.failures + reuse.failures))
    return out


def shrink_history(steps, i):
    """smallest history found that still makes its last step fail"""
    def fails(cand):
        return bool(exec_history(cand)[-1][2])
    if fails([steps[i]]):
        return [steps[i]]
    for j in range(i - 1, max(-1, i - 10), -1):
        if fails([steps[j], steps[i]]):
            return [steps[j], steps[i]]
    if fails(steps[max(0, i - 10):i + 1]):
        return steps[max(0, i - 10):i + 1]
    return steps[:i + 1]


def run_histories(ctx, stream, histories):
    cases, replies = [], []
    for steps in histories:
        reported = False
        for i, (case, reply, fails) in enumerate(exec_history(steps)):
            cases.append(case)
            replies.append(reply)
            if fails and not reported:
                reported = True
                small = shrink_history(steps, i)
                kind, what = fails[0]
                ctx.fail(kind, {"op": "history", "steps": small},
                         "last step (%s) of this history, run in one process (fresh NPDUs are built from a caller-owned "
                         "bytearray that is recycled before encoding, frames are decoded out of caller-owned bytearrays): %s" % (
                             case["op"], what), op="history")
    if ctx.model_ok and cases:
        b = core.Driver("drv_c08").ask(cases)
        ctx.compare_stream(stream, cases, replies, b, sig=sig)
    else:
        for c in cases:
            ctx.count(stream)
    for h in histories[:2]:
        ctx.sample({"stream": stream, "history": [short_case(c) for c in h[:4]]})


# ---------------------------------------------------------------- vendor-proprietary message classes, user subclasses

class Wrap:
    """ctx whose failures carry the context (`tag`, extra fields) needed to replay them"""

    def __init__(self, ctx, tag, why, **fields):
        self._ctx, self._tag, self._why, self._fields = ctx, tag, why, fields

    def fail(self, kind, case, what, **f):
        self._ctx.fail(kind, dict(self._fields, op=self._tag, step=case), self._why + what, **dict(f, op=self._tag))

    def __getattr__(self, k):
        return getattr(self._ctx, k)


def make_vendor_class(mtype, flavor):
    """a proprietary network message done the supported way: subclass of NPDU
    with a messageType, registered, header moved with NPCI.update, own body"""
    from bacpypes.npdu import NPCI, NPDU, register_npdu_type

    class VendorMessage(NPDU):
        messageType = mtype

        def __init__(self, vendor=None, blob=b"", *args, **kwargs):
            super(VendorMessage, self).__init__(*args, **kwargs)
            self.npduNetMessage = mtype
            if flavor == 0:
                self.npduVendorID = vendor
            self.vmBlob = blob

        def encode(self, npdu):
            NPCI.update(npdu, self)
            npdu.put_data(self.vmBlob)

        def decode(self, npdu):
            NPCI.update(self, npdu)
            self.vmBlob = bytes(npdu.get_data(len(npdu.pduData)))
    VendorMessage.__name__ = "VendorMessage%02X" % mtype
    register_npdu_type(VendorMessage)
    return VendorMessage


def vendor_step(klass, st, probe):
    """(stateless model case, reply).  send: message built locally -> frame
    (model: `enc` of a header with this type and vendor id, body as payload).
    recv: frame -> generic NPDU.decode -> npdu_types dispatch -> typed decode
    (model: `mdec`, an unregistered type for the model: header + payload), then
    the decoded message is encoded again."""
    from bacpypes.npdu import NPDU, npdu_types
    from bacpypes.pdu import PDU

    def send(msg):
        n = NPDU()
        msg.encode(n)
        pdu = PDU()
        n.encode(pdu)
        return bytes(pdu.pduData).hex(), n.npduControl
    mtype = klass.messageType
    if st["v"] == "send":
        h = dict(st["h"], msg=mtype, vid=st["vendor"])
        case = {"op": "enc", "h": h, "data": st["blob"]}
        try:
            msg = klass(st["vendor"], bytes.fromhex(st["blob"]))
            msg.npduVendorID = st["vendor"]
            apply_header(msg, dict(st["h"], vid=st["vendor"]), with_msg=False)
            hexs, ctl = send(msg)
            return case, {"r": "ok", "hex": hexs, "ctl": ctl}
        except Exception as e:
            return case, err_reply(e, True)
    case = {"op": "mdec", "hex": st["hex"]}
    try:
        n = NPDU()
        n.decode(PDU(bytes.fromhex(st["hex"])))
        if n.npduNetMessage != mtype:
            return case, impl(case)
        if npdu_types.get(mtype) is not klass:
            probe.fail("registry", None, "npdu_types[0x%02X] is %r, not the class registered for it" % (mtype, npdu_types.get(mtype)))
        got = npdu_types[mtype]()
        got.decode(n)
        reply = {"r": "ok", "kind": "unknown", "h": jheader(got), "data": bytes(got.vmBlob).hex()}
    except Exception as e:
        return case, err_reply(e, False)
    # what was received can be sent again, and gives the clause 6.2.2 layout of the decoded fields
    try:
        want = ref_parse(bytes.fromhex(st["hex"]))
        exp = (spec_header(dict(want[0], ver=1))[0] + want[1]).hex()
        again = send(got)[0]
        if again != exp:
            probe.fail("reencode", None, "the decoded proprietary message encodes again as %s, its fields lay out as %s" % (again[:80], exp[:80]))
    except Refuse:
        pass
    except Exception as e:
        probe.fail("reencode", None, "the decoded proprietary message cannot be encoded again: %r" % (e,))
    return case, reply


def gen_vendor_steps(rng, mtype, quick):
    steps = []
    dsh = [a for a in dadr_shapes(rng) if a is None or a[0] != "rs" or len(a[2]) <= 14]
    ssh = [a for a in sadr_shapes(rng) if a is None or len(a[2]) <= 12]
    for vendor in VIDS + [0x0123]:
        for _ in range(2 if quick else 8):
            d = rng.choice(dsh)
            h = mk_h(rng.random() < .5, rng.randrange(4), d, rng.choice(ssh), rng.choice(HOPS) if d is not None else None, None, None)
            blob = bytes(rng.getrandbits(8) for _ in range(rng.choice([0, 1, 2, 7]))).hex()
            steps.append({"v": "send", "vendor": vendor, "blob": blob, "h": h})
            frame = spec_header(dict(h, msg=mtype, vid=vendor))[0] + bytes.fromhex(blob)
            steps.append({"v": "recv", "hex": frame.hex()})
            b = bytearray(frame)
            b[1] |= rng.choice([0x40, 0x10, 0x50])            # reserved control bits
            steps.append({"v": "recv", "hex": bytes(b).hex()})
            steps.append({"v": "recv", "hex": frame[:rng.randrange(len(frame))].hex()})   # truncated
    return steps


def run_vendor(ctx, mtype, flavor, steps):
    from bacpypes.npdu import npdu_types
    klass = make_vendor_class(mtype, flavor)
    try:
        cases, replies = [], []
        w = Wrap(ctx, "vendor", "proprietary message class (subclass of NPDU, registered) for type 0x%02X: " % mtype,
                 type=mtype, flavor=flavor)
        for st in steps:
            probe = Probe()
            case, reply = vendor_step(klass, st, probe)
            first = len(ctx.failures)
            oracle(Wrap(ctx, "vendor", w._why, type=mtype, flavor=flavor, vstep=st), case, reply)
            if len(ctx.failures) == first:
                for kind, what in probe.failures[:1]:
                    ctx.fail(kind, {"op": "vendor", "type": mtype, "flavor": flavor, "vstep": st, "step": case}, w._why + what, op="vendor")
            cases.append(case)
            replies.append(reply)
        if ctx.model_ok and cases:
            b = core.Driver("drv_c08").ask(cases)
            ctx.compare_stream("vendor-subclass", cases, replies, b, sig=sig)
        else:
            for c in cases:
                ctx.count("vendor-subclass")
        ctx.sample({"stream": "vendor-subclass", "type": mtype, "case": short_case(cases[0]) if cases else None})
    finally:
        if npdu_types.get(mtype) is klass:
            del npdu_types[mtype]


def _driver_built(ctx):
    import os
    ctx.model_ok = os.path.exists(os.path.join(core.LEAN, ".lake", "build", "bin", "drv_c08"))


def shard_vendor(ctx, spec):
    import random
    _driver_built(ctx)
    types, seed = spec
    rng = random.Random(seed)
    for i, mtype in enumerate(types):
        run_vendor(ctx, mtype, i % 2, gen_vendor_steps(rng, mtype, ctx.quick))


def define_user_subclasses():
    """what an application may do: derive its own helper classes from the
    library's message classes — overriding decode, changing the constructor,
    or nothing at all — WITHOUT registering them.  Which kind is defined last
    rotates with the message type.  Returns their names."""
    from bacpypes import npdu as N
    names = []

    def skipping(base, name):
        class Skipping(base):
            def decode(self, npdu):
                N.NPCI.update(self, npdu)
                if npdu.pduData:
                    npdu.get()
        Skipping.__name__ = "Skipping" + name
        return Skipping

    def needs_arg(base, name):
        class NeedsArg(base):
            def __init__(self, port, *args, **kwargs):
                base.__init__(self, *args, **kwargs)
                self.port = port
        NeedsArg.__name__ = "NeedsArg" + name
        return NeedsArg

    def plain(base, name):
        class Plain(base):
            pass
        Plain.__name__ = "Plain" + name
        return Plain
    kinds = [skipping, needs_arg, plain]
    for code, name in sorted(CLASSES.items()):
        base = getattr(N, name)
        for k in range(3):
            names.append(kinds[(code + k) % 3](base, name).__name__)
    return names


def check_registry(ctx, names):
    from bacpypes import npdu as N
    for code, name in sorted(CLASSES.items()):
        if N.npdu_types.get(code) is not getattr(N, name):
            ctx.fail("registry-hijacked", {"op": "subclass-history", "step": {"op": "registry", "code": code}},
                     "after defining unregistered subclasses (%s…) npdu_types[0x%02X] is %r, not bacpypes.npdu.%s" % (
                         ", ".join(names[:3]), code, N.npdu_types.get(code), name), op="subclass-history")
    extra = sorted(set(N.npdu_types) - set(CLASSES))
    if extra:
        ctx.fail("registry-hijacked", {"op": "subclass-history", "step": {"op": "registry", "code": extra[0]}},
                 "defining unregistered subclasses added message types %r to npdu_types" % (extra,), op="subclass-history")


def shard_subclass(ctx, spec):
    """history: user subclasses of the library message classes exist in the
    process; the standard decode streams must answer as before (= the model)"""
    import random
    _driver_built(ctx)
    part, seed = spec
    rng = random.Random(seed)
    from bacpypes import npdu as N
    saved = dict(N.npdu_types)
    try:
        names = define_user_subclasses()
        w = Wrap(ctx, "subclass-history", "after defining unregistered subclasses of the library message classes: ")
        cases = gen_mdec_typed(ctx, rng) if part == 0 else []
        for c in gen_menc(ctx, rng):
            if c["op"] == "menc" and msg_in_domain(c["m"]) and in_domain(dict(c["h"], msg=c["m"][0])) and len(core.canon(c)) < 3000:
                if part == 1:
                    cases.append(c)
                else:
                    cases.append({"op": "mdec", "hex": (spec_header(dict(c["h"], msg=c["m"][0]))[0] + spec_body(c["m"])).hex()})
        run_cases(w, "subclass-history", cases)
        check_registry(ctx, names)
    finally:
        N.npdu_types.clear()
        N.npdu_types.update(saved)


def gen_histories(ctx, rng):
    """[refused encode, valid encodes…], [refused decode, valid …], and random
    mixes of every entry point with object reuse"""
    H0 = mk_h(False, 0, None, None, None, None, None)
    refused = gen_enc_outside(ctx, rng)
    for m in gen_msgs_outside(ctx, rng):
        refused.append({"op": "menc", "h": H0, "m": m})
        refused.append({"op": "menc", "h": mk_h(True, 3, ["gb"], ["rs", 9, "0a0b"], 255, None, None), "m": m})
        refused.append({"op": "benc", "m": m})
    # failing message encodes whose HEADER cannot be written (body written first)
    for m in ([0x00, 5], [0x01, [1, 2, 3]], [0x12]):
        refused.append({"op": "menc", "h": mk_h(False, 0, ["rb", 3], None, None, None, None), "m": m})
        refused.append({"op": "menc", "h": mk_h(False, 0, ["rs", 3, "00" * 256], None, 255, None, None), "m": m})
    small = lambda c: len(core.canon(c)) < 400
    valid = [c for c in gen_enc(ctx, rng) if in_domain(c["h"]) and small(c)]
    vmsg = [c for c in gen_menc(ctx, rng) if c["op"] == "menc" and msg_in_domain(c["m"]) and small(c)
            and in_domain(dict(c["h"], msg=c["m"][0]))]
    frames = [(spec_header(c["h"])[0] + bytes.fromhex(c["data"])).hex() for c in rng.sample(valid, 60)]
    frames += [(spec_header(dict(c["h"], msg=c["m"][0]))[0] + spec_body(c["m"])).hex() for c in rng.sample(vmsg, 60)]
    bad_frames = ["", "01", "0208", "0108ffff0109", "0108000900", "0120000501", "0120ffff00", "018080", "01800100",
                  "01800601000102", "0128000101"]
    hs = []
    for r in refused:
        hs.append([r, rng.choice(valid), rng.choice(vmsg), rng.choice(valid)])
        hs.append([r, rng.choice(vmsg), {"op": "dec", "hex": rng.choice(frames)}])
        hs.append([r, r, dict(rng.choice(valid), slot=0), dict(rng.choice(valid), slot=0)])
    for bf in bad_frames:
        for op in ("dec", "mdec"):
            hs.append([{"op": op, "hex": bf}, rng.choice(valid), {"op": op, "hex": rng.choice(frames)}, rng.choice(vmsg)])
    n = 150 if ctx.quick else 3000
    for _ in range(n):
        steps = []
        for _k in range(rng.choice([6, 10, 16])):
            r = rng.random()
            if r < .12:
                st = dict(rng.choice(refused))
            elif r < .45:
                st = dict(rng.choice(valid))
            elif r < .7:
                st = dict(rng.choice(vmsg))
            elif r < .85:
                st = {"op": rng.choice(["dec", "mdec"]), "hex": rng.choice(frames)}
            else:
                st = {"op": rng.choice(["dec", "mdec"]), "hex": rng.choice(bad_frames)}
            if st["op"] in ("enc", "menc") and rng.random() < .6:
                st["slot"] = rng.randrange(2)
            steps.append(st)
        hs.append(steps)
    return hs


# ---------------------------------------------------------------- run

def run_cases(ctx, stream, cases, want_impl=False):
    drv = core.Driver("drv_c08") if ctx.model_ok else None
    a = [impl(c) for c in cases]
    for c, r in zip(cases, a):
        oracle(ctx, c, r)
        if "prefix_of" in c and r != {"r": "err", "k": "decoding"}:
            ctx.fail("prefix-accepted", c, "a strict prefix (%d of %d octets) of a valid header "
                     "was not refused with DecodingError: %r" % (len(c["hex"]) // 2, c["prefix_of"], r), op="dec")
    if drv:
        b = drv.ask(cases)
        ctx.compare_stream(stream, cases, a, b, sig=sig)
    else:
        for c in cases:
            ctx.count(stream)
    for c in cases[:2]:
        ctx.sample({"stream": stream, "case": short_case(c)})
    return a


def shard_dec(ctx, spec):
    length, lo, hi = spec
    cases = [{"op": "dec", "hex": v.to_bytes(length, "big").hex() if length else ""} for v in range(lo, hi)]
    run_cases(ctx, "dec-exh-%d" % length, cases)
    # the same octets through the bare NPCI entry point (length 3: every 16th string)
    vias = ("npci", "subclass", "mixin")
    twins = [{"op": "hdec", "hex": c["hex"], "via": vias[i % 3]} for i, c in enumerate(cases[::16 if length >= 3 else 1])]
    run_cases(ctx, "hdec-exh-%d" % length, twins)


def shard_cases(ctx, spec):
    """a generated stream cut into pieces for the worker processes; every
    NPDU.decode case is repeated through the bare NPCI entry point"""
    stream, cases = spec
    run_cases(ctx, stream, cases)
    vias = ("npci", "subclass", "mixin")
    twins = [dict(c, op="hdec", via=vias[i % 3]) for i, c in enumerate(cases) if c["op"] == "dec"]
    if twins:
        run_cases(ctx, "h" + stream, twins)


def shard_bdec(ctx, spec):
    if spec[1] == "short":                      # lengths 0 and 1 of one class in one go
        code = spec[0]
        cases = [{"op": "bdec", "code": code, "hex": ""}] + [{"op": "bdec", "code": code, "hex": "%02x" % v} for v in range(256)]
        run_cases(ctx, "bdec-exh", cases)
        return
    code, length, lo, hi = spec
    # quick tier: the fixed-field classes read a two-octet body by length only, so
    # every 8th value (plus both ends) is taken there; tables (count octet) stay exhaustive
    step = 8 if (ctx.quick and length == 2 and code not in (0x06, 0x07)) else 1
    vals = sorted(set(range(lo, hi, step)) | {lo, hi - 1})
    cases = [{"op": "bdec", "code": code, "hex": v.to_bytes(length, "big").hex() if length else ""} for v in vals]
    run_cases(ctx, "bdec-exh", cases)


def corpus_cases():
    import glob, json, os
    out = []
    for p in sorted(glob.glob(os.path.join(core.VERIF, "corpus", "C08", "*.json"))):
        d = json.load(open(p))
        out.extend(d["cases"] if "cases" in d else [d["case"]])
    return out


def run(ctx):
    rng = ctx.sub_rng("c08")
    cc = corpus_cases()
    if cc:
        run_cases(ctx, "corpus", [c for c in cc if c["op"] != "history"])
        run_histories(ctx, "corpus-history", [c["steps"] for c in cc if c["op"] == "history"])
    enc = gen_enc(ctx, rng)
    impl_enc = run_cases(ctx, "enc", enc)
    run_cases(ctx, "enc-outside", gen_enc_outside(ctx, rng))
    run_histories(ctx, "history", gen_histories(ctx, ctx.sub_rng("c08-history")))
    dec = gen_dec(ctx, rng)
    pre = gen_prefixes(ctx, rng, enc)
    core.run_shards(ctx, "harness.c08", "shard_cases",
                    [("dec", dec[i::6]) for i in range(6)] + [("dec-prefix", pre[i::2]) for i in range(2)])
    menc = gen_menc(ctx, rng)
    impl_menc = run_cases(ctx, "menc", menc)
    run_cases(ctx, "mdec-typed", gen_mdec_typed(ctx, rng))
    frames = [bytes.fromhex(r["hex"]) for c, r in zip(menc, impl_menc) if r.get("r") == "ok" and c["op"] == "menc"]
    frames += [bytes.fromhex(r["hex"]) for r in impl_enc[::7] if r.get("r") == "ok"]
    run_cases(ctx, "mdec-mutated", gen_mutated(ctx, rng, frames))
    # exhaustive short octet strings
    specs = [(0, 0, 1), (1, 0, 256)] + [(2, lo, lo + 8192) for lo in range(0, 65536, 8192)]
    if not ctx.quick:
        step = 1 << 18
        specs += [(3, lo, lo + step) for lo in range(0, 1 << 24, step)]
    core.run_shards(ctx, "harness.c08", "shard_dec", specs)
    bspecs = []
    for code in sorted(CLASSES):
        bspecs += [(code, "short")] + [(code, 2, lo, lo + 8192) for lo in range(0, 65536, 8192)]
    # a few unregistered codes take the `unregistered` path on both sides
    bspecs += [(c, 1, 0, 4) for c in (0x0A, 0x11, 0x14, 0x80, 0xFF)]
    core.run_shards(ctx, "harness.c08", "shard_bdec", bspecs)
    # run-time defined classes live and die in forked workers (>= 2 specs: run_shards forks)
    vt = [0x80, 0x81, 0x90, 0xC3, 0xFE, 0xFF] if ctx.quick else list(range(0x80, 0x100))
    k = 2 if ctx.quick else 16
    core.run_shards(ctx, "harness.c08", "shard_vendor", [(vt[i::k], ctx.seed * 100 + i) for i in range(k)])
    core.run_shards(ctx, "harness.c08", "shard_subclass", [(0, ctx.seed), (1, ctx.seed + 1)])
    ctx.extra["exhaustive_octet_string_length"] = 2 if ctx.quick else 3
    ctx.extra["exhaustive_body_length"] = {"tables": 2, "other classes": 1 if ctx.quick else 2}


def search(ctx):
    """focused failing-input search: the oracle over fresh, larger streams
    (no model needed) — headers, prefixes, messages, mutations"""
    for rnd in range(3):
        rng = ctx.sub_rng("c08-search-%d" % rnd)
        model_ok, ctx.model_ok = ctx.model_ok, False
        try:
            run_histories(ctx, "search-history", gen_histories(ctx, rng))
        finally:
            ctx.model_ok = model_ok
        if ctx.failures:
            return
        if rnd == 0:
            model_ok, ctx.model_ok = ctx.model_ok, False
            try:
                core.run_shards(ctx, "harness.c08", "shard_vendor", [([0x80, 0x90, 0xFF], 1), ([0x81, 0xC3, 0xFE], 2)])
                core.run_shards(ctx, "harness.c08", "shard_subclass", [(0, 1), (1, 2)])
            finally:
                ctx.model_ok = model_ok
            if ctx.failures:
                return
        enc = gen_enc(ctx, rng)
        menc = gen_menc(ctx, rng)
        frames = []
        for c in enc + menc:
            r = impl(c)
            oracle(ctx, c, r)
            if r.get("r") == "ok" and c["op"] in ("enc", "menc"):
                frames.append(bytes.fromhex(r["hex"]))
        for c in gen_dec(ctx, rng) + gen_prefixes(ctx, rng, enc) + gen_mdec_typed(ctx, rng) + gen_mutated(ctx, rng, frames):
            r = impl(c)
            oracle(ctx, c, r)
            if "prefix_of" in c and r != {"r": "err", "k": "decoding"}:
                ctx.fail("prefix-accepted", c, "strict prefix of a valid header accepted: %r" % (r,), op="dec")
        if ctx.failures:
            return
    for code in sorted(CLASSES):
        for ln in (0, 1, 2):
            for v in range(256 ** ln):
                c = {"op": "bdec", "code": code, "hex": v.to_bytes(ln, "big").hex() if ln else ""}
                oracle(ctx, c, impl(c))


def replay(ctx, payload):
    rec = payload.get("failure") or (payload.get("correspondence_disagreements") or [{}])[0]
    case = rec.get("case")
    if not case or "op" not in case:
        raise core.Infra("nothing to replay")
    if case["op"] == "history":
        run_histories(ctx, "replay", [case["steps"]])
        return
    if case["op"] == "vendor":
        run_vendor(ctx, case["type"], case["flavor"], [case["vstep"]])
        return
    if case["op"] == "subclass-history":
        names = define_user_subclasses()
        if case["step"].get("op") != "registry":
            run_cases(Wrap(ctx, "subclass-history", "after defining unregistered subclasses: "), "replay", [case["step"]])
        check_registry(ctx, names)
        return
    run_cases(ctx, "replay", [case])
